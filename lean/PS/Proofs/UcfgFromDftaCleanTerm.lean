/-
  C06, part 8: `UCFG.clean()` returns on every non-recursive grammar all of whose argument
  non-terminals have a row (in particular on the grammar built from an acyclic automaton).
  Potential of the work list: `expl w c` = size of the exploration below the configuration `c`
  (`w` levels deep); the weight of a configuration `(info, S)` — the sizes of the unfoldings of
  `S` and of the pending non-terminals — strictly decreases along `derive`.
-/
import PS.Proofs.UcfgFromDftaClean
import PS.Proofs.UOps
namespace PS.U.CL
open PS PS.G PS.U

variable {U : Type} [DecidableEq U]
set_option linter.unusedSectionVars false

abbrev Conf (U : Type) := List (UNT U) × UNT U

/-- all argument non-terminals of all alternatives of the row of `S` -/
def argsOf (G : UCFG U) (S : UNT U) : List (UNT U) :=
  match AList.lookup S G.rules with
  | none => []
  | some row => row.flatMap (fun e => e.2.flatMap (fun args => args))

/-- size of the unfolding of a non-terminal, `j` levels deep -/
def hsize (G : UCFG U) : Nat → UNT U → Nat
  | 0, _ => 1
  | j + 1, S => 1 + ((argsOf G S).map (hsize G j)).sum

theorem hsize_pos (G : UCFG U) (j : Nat) (S : UNT U) : 1 ≤ hsize G j S := by
  cases j <;> simp [hsize]

theorem sum_map_le' {α : Type} (l : List α) (g g' : α → Nat) (h : ∀ x ∈ l, g x ≤ g' x) :
    (l.map g).sum ≤ (l.map g').sum := by
  induction l with
  | nil => simp
  | cons x xs ih =>
    simp only [List.map_cons, List.sum_cons]
    have := h x (by simp)
    have := ih (fun y hy => h y (by simp [hy]))
    omega

theorem hsize_mono (G : UCFG U) : ∀ (j j' : Nat) (S : UNT U), j ≤ j' → hsize G j S ≤ hsize G j' S := by
  intro j
  induction j with
  | zero => intro j' S _; rw [hsize]; exact hsize_pos G j' S
  | succ j ih =>
    intro j' S h
    obtain ⟨j'', rfl⟩ : ∃ j'', j' = j'' + 1 := ⟨j' - 1, by omega⟩
    rw [hsize, hsize]
    have := sum_map_le' (argsOf G S) (hsize G j) (hsize G j'') (fun x _ => ih j'' x (by omega))
    omega

/-- successors of a configuration by `derive`, over every symbol of the row -/
def succs (G : UCFG U) (c : Conf U) : List (Conf U) :=
  match AList.lookup c.2 G.rules with
  | none => []
  | some row => (row.flatMap (fun e => derive G c.1 c.2 e.1)).map (fun a => (a.1, a.2.1))

/-- the successors that `clean()` puts on its work list -/
def liveSuccs (G : UCFG U) (c : Conf U) : List (Conf U) :=
  (succs G c).filter (fun c' => decide (c'.2.1 ≠ Ty.unknown))

/-- size of the exploration below a configuration, `j` levels deep -/
def expl (G : UCFG U) : Nat → Conf U → Nat
  | 0, _ => 1
  | j + 1, c => 1 + ((liveSuccs G c).map (expl G j)).sum

theorem expl_pos (G : UCFG U) (j : Nat) (c : Conf U) : 1 ≤ expl G j c := by
  cases j <;> simp [expl]

theorem expl_mono (G : UCFG U) : ∀ (j j' : Nat) (c : Conf U), j ≤ j' → expl G j c ≤ expl G j' c := by
  intro j
  induction j with
  | zero => intro j' c _; rw [expl]; exact expl_pos G j' c
  | succ j ih =>
    intro j' c h
    obtain ⟨j'', rfl⟩ : ∃ j'', j' = j'' + 1 := ⟨j' - 1, by omega⟩
    rw [expl, expl]
    have := sum_map_le' (liveSuccs G c) (expl G j) (expl G j'') (fun x _ => ih j'' x (by omega))
    omega

section Term
variable (G : UCFG U) (rk : UNT U → Nat)

/-- unfolding size at the level given by the ranking -/
def H (S : UNT U) : Nat := hsize G (rk S + 1) S

/-- weight of a configuration -/
def wt (c : Conf U) : Nat := H G rk c.2 + (c.1.map (H G rk)).sum

theorem H_pos (S : UNT U) : 1 ≤ H G rk S := hsize_pos G _ S

/-- an alternative weighs less than its non-terminal -/
theorem H_alt (hrk : ∀ S, ∀ a ∈ argsOf G S, rk a < rk S) (S : UNT U) (row : Row U)
    (hl : AList.lookup S G.rules = some row) (e : Sym × List (List (UNT U))) (he : e ∈ row)
    (args : List (UNT U)) (ha : args ∈ e.2) : (args.map (H G rk)).sum + 1 ≤ H G rk S := by
  have hsub : ∀ a ∈ args, a ∈ argsOf G S := by
    intro a haa
    unfold argsOf
    rw [hl]
    exact List.mem_flatMap.mpr ⟨e, he, List.mem_flatMap.mpr ⟨args, ha, haa⟩⟩
  have h1 : (args.map (H G rk)).sum ≤ (args.map (hsize G (rk S))).sum := by
    apply sum_map_le'
    intro a haa
    have := hrk S a (hsub a haa)
    exact hsize_mono G _ _ a (by omega)
  have h2 : (args.map (hsize G (rk S))).sum ≤ ((argsOf G S).map (hsize G (rk S))).sum := by
    unfold argsOf
    rw [hl]
    simp only
    rw [Ops.nat_sum_map_flatMap]
    have h3 : ((e.2.flatMap (fun args => args)).map (hsize G (rk S))).sum ≤
        (row.map (fun x => ((x.2.flatMap (fun args => args)).map (hsize G (rk S))).sum)).sum :=
      Ops.le_sum_of_mem (List.mem_map.mpr ⟨e, he, rfl⟩)
    rw [Ops.nat_sum_map_flatMap] at h3
    have h4 : (args.map (hsize G (rk S))).sum ≤
        (e.2.map (fun x => (x.map (hsize G (rk S))).sum)).sum :=
      Ops.le_sum_of_mem (List.mem_map.mpr ⟨args, ha, rfl⟩)
    omega
  have h3 : H G rk S = 1 + ((argsOf G S).map (hsize G (rk S))).sum := by
    unfold H; rw [hsize]
  omega

/-- along `derive` the weight decreases (end markers apart) -/
theorem wt_succ (hrk : ∀ S, ∀ a ∈ argsOf G S, rk a < rk S) (c c' : Conf U) (h : c' ∈ succs G c) :
    c'.2.1 = Ty.unknown ∨ wt G rk c' + 1 ≤ wt G rk c := by
  unfold succs at h
  cases hl : AList.lookup c.2 G.rules with
  | none => rw [hl] at h; cases h
  | some row =>
    rw [hl] at h
    simp only at h
    obtain ⟨a, ha, rfl⟩ := List.mem_map.mp h
    obtain ⟨e, he, hae⟩ := List.mem_flatMap.mp ha
    unfold derive UCFG.alts? at hae
    rw [hl] at hae
    simp only at hae
    cases hle : AList.lookup e.1 row with
    | none => rw [hle] at hae; cases hae
    | some cands =>
      rw [hle] at hae
      simp only at hae
      obtain ⟨args, hargs, rfl⟩ := List.mem_map.mp hae
      have hmem : (e.1, cands) ∈ row := AList.lookup_some_mem hle
      have halt := H_alt G rk hrk c.2 row hl (e.1, cands) hmem args hargs
      obtain ⟨info, S⟩ := c
      simp only at hl halt ⊢
      cases args with
      | nil =>
        cases info with
        | nil => left; rfl
        | cons i tl =>
          right
          simp only [deriveOne, wt, List.map_cons, List.sum_cons]
          have := H_pos G rk S
          omega
      | cons a1 rest =>
        right
        simp only [deriveOne, wt, List.map_append, List.sum_append]
        simp only [List.map_cons, List.sum_cons] at halt
        omega

/-- potential of the work list -/
def pot (toTest : List (UNT U × List (UNT U))) : Nat :=
  (toTest.map (fun x => expl G (wt G rk (x.2, x.1)) (x.2, x.1))).sum

/-- the non-terminals of a work-list entry all have a row -/
def KeysOK (x : UNT U × List (UNT U)) : Prop :=
  x.1 ∈ AList.keys G.rules ∧ ∀ y ∈ x.2, y ∈ AList.keys G.rules

theorem visit_pot (st : CleanSt U) (a : List (UNT U) × UNT U × List (UNT U)) :
    pot G rk (cleanVisit st a).toTest ≤ pot G rk st.toTest +
      (if a.2.1.1 = Ty.unknown then 0 else expl G (wt G rk (a.1, a.2.1)) (a.1, a.2.1)) := by
  unfold cleanVisit
  by_cases h : (a.1, a.2.1) ∈ st.done
  · rw [if_pos h]; omega
  · rw [if_neg h]
    simp only
    by_cases hu : a.2.1.1 = Ty.unknown
    · rw [if_pos hu, if_pos hu]; omega
    · rw [if_neg hu, if_neg hu]
      simp [pot]
      omega

theorem visit_keys (st : CleanSt U) (a : List (UNT U) × UNT U × List (UNT U))
    (h : ∀ x ∈ st.toTest, KeysOK G x) (ha : a.2.1.1 = Ty.unknown ∨ KeysOK G (a.2.1, a.1)) :
    ∀ x ∈ (cleanVisit st a).toTest, KeysOK G x := by
  unfold cleanVisit
  by_cases hd : (a.1, a.2.1) ∈ st.done
  · rw [if_pos hd]; exact h
  · rw [if_neg hd]
    simp only
    by_cases hu : a.2.1.1 = Ty.unknown
    · rw [if_pos hu]; exact h
    · rw [if_neg hu]
      intro x hx
      rcases List.mem_cons.mp hx with e | e
      · rcases ha with ha | ha
        · exact absurd ha hu
        · rw [e]; exact ha
      · exact h x e

theorem fold_pot (L : List (List (UNT U) × UNT U × List (UNT U))) :
    ∀ (st : CleanSt U), pot G rk (L.foldl cleanVisit st).toTest ≤ pot G rk st.toTest +
      ((L.filter (fun a => decide (a.2.1.1 ≠ Ty.unknown))).map
        (fun a => expl G (wt G rk (a.1, a.2.1)) (a.1, a.2.1))).sum := by
  induction L with
  | nil => intro st; simp
  | cons a L ih =>
    intro st
    rw [List.foldl_cons]
    have h1 := ih (cleanVisit st a)
    have h2 := visit_pot G rk st a
    by_cases hu : a.2.1.1 = Ty.unknown
    · rw [if_pos hu] at h2
      rw [List.filter_cons_of_neg (by simpa using hu)]
      omega
    · rw [if_neg hu] at h2
      rw [List.filter_cons_of_pos (by simpa using hu)]
      simp only [List.map_cons, List.sum_cons]
      omega

theorem fold_keys (L : List (List (UNT U) × UNT U × List (UNT U))) :
    ∀ (st : CleanSt U), (∀ x ∈ st.toTest, KeysOK G x) →
      (∀ a ∈ L, a.2.1.1 = Ty.unknown ∨ KeysOK G (a.2.1, a.1)) →
      ∀ x ∈ (L.foldl cleanVisit st).toTest, KeysOK G x := by
  induction L with
  | nil => intro st h _; exact h
  | cons a L ih =>
    intro st h hL
    rw [List.foldl_cons]
    exact ih _ (visit_keys G st a h (hL a (by simp))) (fun b hb => hL b (by simp [hb]))

end Term


section Loop
variable (G : UCFG U) (rk : UNT U → Nat)

theorem succs_eq (c : Conf U) (row : Row U) (hl : AList.lookup c.2 G.rules = some row) :
    succs G c = (row.flatMap (fun e => derive G c.1 c.2 e.1)).map (fun a => (a.1, a.2.1)) := by
  unfold succs; rw [hl]

theorem live_sum_le (hrk : ∀ S, ∀ a ∈ argsOf G S, rk a < rk S) (c : Conf U) :
    ((liveSuccs G c).map (fun c' => expl G (wt G rk c') c')).sum + 1 ≤ expl G (wt G rk c) c := by
  have hw : 1 ≤ wt G rk c := by
    unfold wt
    have := H_pos G rk c.2
    omega
  obtain ⟨w, hw'⟩ : ∃ w, wt G rk c = w + 1 := ⟨wt G rk c - 1, by omega⟩
  rw [hw', expl]
  have : ((liveSuccs G c).map (fun c' => expl G (wt G rk c') c')).sum ≤
      ((liveSuccs G c).map (expl G w)).sum := by
    apply sum_map_le'
    intro c' hc'
    unfold liveSuccs at hc'
    have h1 := (List.mem_filter.mp hc').1
    have h2 := (List.mem_filter.mp hc').2
    simp only [ne_eq, decide_eq_true_eq] at h2
    rcases wt_succ G rk hrk c c' h1 with h3 | h3
    · exact absurd h3 h2
    · exact expl_mono G _ _ c' (by omega)
  omega

theorem step_bound (hrk : ∀ S, ∀ a ∈ argsOf G S, rk a < rk S) (st : CleanSt U) (S : UNT U)
    (info : List (UNT U)) (rest : List (UNT U × List (UNT U))) (row : Row U)
    (ht : st.toTest = (S, info) :: rest) (hl : AList.lookup S G.rules = some row) :
    pot G rk (cleanExpand G S info row { st with toTest := rest }).toTest + 1 ≤ pot G rk st.toTest := by
  unfold cleanExpand
  have h1 := fold_pot G rk (row.flatMap (fun e => derive G info S e.1)) { st with toTest := rest }
  have h2 := live_sum_le G rk hrk (info, S)
  have h3 : ((row.flatMap (fun e => derive G info S e.1)).filter
        (fun a => decide (a.2.1.1 ≠ Ty.unknown))).map
        (fun a => expl G (wt G rk (a.1, a.2.1)) (a.1, a.2.1)) =
      (liveSuccs G (info, S)).map (fun c' => expl G (wt G rk c') c') := by
    unfold liveSuccs
    rw [succs_eq G (info, S) row hl, List.filter_map, List.map_map]
    rfl
  rw [h3] at h1
  have h4 : pot G rk st.toTest = expl G (wt G rk (info, S)) (info, S) + pot G rk rest := by
    rw [ht]; simp [pot]
  simp only at h1
  omega

theorem step_keys (hclosed : ∀ S ∈ AList.keys G.rules, ∀ a ∈ argsOf G S, a ∈ AList.keys G.rules)
    (st : CleanSt U) (S : UNT U) (info : List (UNT U)) (rest : List (UNT U × List (UNT U)))
    (row : Row U) (ht : st.toTest = (S, info) :: rest) (hl : AList.lookup S G.rules = some row)
    (hk : ∀ x ∈ st.toTest, KeysOK G x) :
    ∀ x ∈ (cleanExpand G S info row { st with toTest := rest }).toTest, KeysOK G x := by
  unfold cleanExpand
  have hS : KeysOK G (S, info) := hk _ (by rw [ht]; simp)
  apply fold_keys G _ _ (fun x hx => hk x (by rw [ht]; exact List.mem_cons_of_mem _ hx))
  intro a ha
  obtain ⟨e, he, hae⟩ := List.mem_flatMap.mp ha
  unfold derive UCFG.alts? at hae
  rw [hl] at hae
  simp only at hae
  cases hle : AList.lookup e.1 row with
  | none => rw [hle] at hae; cases hae
  | some cands =>
    rw [hle] at hae
    simp only at hae
    obtain ⟨args, hargs, rfl⟩ := List.mem_map.mp hae
    have hmem : (e.1, cands) ∈ row := AList.lookup_some_mem hle
    have hsub : ∀ x ∈ args, x ∈ AList.keys G.rules := by
      intro x hx
      apply hclosed S hS.1
      unfold argsOf
      rw [hl]
      exact List.mem_flatMap.mpr ⟨(e.1, cands), hmem, List.mem_flatMap.mpr ⟨args, hargs, hx⟩⟩
    cases args with
    | nil =>
      cases info with
      | nil => left; rfl
      | cons i tl =>
        right
        exact ⟨hS.2 i (by simp), fun y hy => hS.2 y (List.mem_cons_of_mem _ hy)⟩
    | cons a1 rest' =>
      right
      refine ⟨hsub a1 (by simp), ?_⟩
      intro y hy
      simp only [deriveOne] at hy
      rcases List.mem_append.mp hy with h | h
      · exact hsub y (by simp [h])
      · exact hS.2 y h

theorem cleanLoop_terminates (hrk : ∀ S, ∀ a ∈ argsOf G S, rk a < rk S)
    (hclosed : ∀ S ∈ AList.keys G.rules, ∀ a ∈ argsOf G S, a ∈ AList.keys G.rules) :
    ∀ (fuel : Nat) (st : CleanSt U), (∀ x ∈ st.toTest, KeysOK G x) → pot G rk st.toTest < fuel →
      ∃ st', cleanLoop G fuel st = some st' := by
  intro fuel
  induction fuel with
  | zero => intro st _ h; omega
  | succ fuel ih =>
    intro st hk hp
    rw [cleanLoop]
    cases ht : st.toTest with
    | nil => exact ⟨st, rfl⟩
    | cons x rest =>
      obtain ⟨S, info⟩ := x
      simp only
      have hS : KeysOK G (S, info) := hk _ (by rw [ht]; simp)
      cases hl : AList.lookup S G.rules with
      | none =>
        have := AList.lookup_isSome_iff_mem_keys.mpr hS.1
        rw [hl] at this
        cases this
      | some row =>
        simp only
        apply ih
        · exact step_keys G hclosed st S info rest row ht hl hk
        · have := step_bound G rk hrk st S info rest row ht hl
          omega

/-- **`clean()` returns** on a non-recursive grammar (`rk` decreases from a non-terminal to the
    arguments of its alternatives) whose start symbols and argument non-terminals all have a row,
    for every number of iterations beyond the potential of the start configurations -/
theorem clean_terminates (hrk : ∀ S, ∀ a ∈ argsOf G S, rk a < rk S)
    (hclosed : ∀ S ∈ AList.keys G.rules, ∀ a ∈ argsOf G S, a ∈ AList.keys G.rules)
    (hstarts : ∀ s ∈ G.starts, s ∈ AList.keys G.rules) (fuel : Nat)
    (hfuel : pot G rk (cleanInit G).toTest < fuel) : ∃ Gc, clean G fuel = some Gc := by
  have hk : ∀ x ∈ (cleanInit G).toTest, KeysOK G x := by
    intro x hx
    unfold cleanInit at hx
    simp only at hx
    obtain ⟨s, hs, rfl⟩ := List.mem_map.mp (List.mem_reverse.mp hx)
    exact ⟨hstarts s hs, by intro y hy; cases hy⟩
  obtain ⟨st, hst⟩ := cleanLoop_terminates G rk hrk hclosed fuel (cleanInit G) hk hfuel
  unfold clean
  rw [hst]
  exact ⟨_, rfl⟩

end Loop

end PS.U.CL
