/-
  C05, parser, part 4: `parse Sy (render t) = sem Sy t` for the documented syntax, character level,
  canonical spacing (one blank between the elements of a pattern).
-/
import PS.Proofs.ConstraintsParseSplit
set_option linter.unusedSectionVars false
namespace PS.C05
open PS PS.G

/-! ### what can be written -/

def setOK : RSet → Bool
  | .names ns => namesOK ns
  | .neg ns => namesOK ns

mutual
  /-- **RenderOK**: names are plain (non-empty, none of ` \t\n\r(){},^>#<=`, not `_` alone), name lists
      are not empty, numbers are digit strings, and a complemented HEAD set excludes some symbol of the
      grammar (otherwise the parser sees `_` in head position and fails an assertion) -/
  def renderOK (Sy : Syms) : RTok → Bool
    | .any => true
    | .set s => setOK s
    | .cntAll _ ds => digitsOK ds
    | .cnt _ ns ds => namesOK ns && digitsOK ds
    | .sub _ ns => namesOK ns
    | .func h args => setOK h && (match h with
        | .neg ns => (resolveNeg Sy ns).isSome
        | .names _ => true) && renderOKs Sy args
  def renderOKs (Sy : Syms) : List RTok → Bool
    | [] => true
    | a :: as => renderOK Sy a && renderOKs Sy as
end

def isFunc : RTok → Bool
  | .func _ _ => true
  | _ => false

mutual
  /-- nesting of function patterns -/
  def fdepth : RTok → Nat
    | .func _ args => 1 + fdepths args
    | _ => 0
  def fdepths : List RTok → Nat
    | [] => 0
    | a :: as => max (fdepth a) (fdepths as)
end

mutual
  /-- the rendering without its trailing closing brackets (what `strip(")(")` of an enclosing pattern
      leaves of the last element) -/
  def renderT : RTok → Str
    | .sub force ns => '>' :: ((if force then [] else ['^']) ++ '(' :: joinNames ns)
    | .func h args => '(' :: (renderSet h ++ renderArgsT args)
    | .any => ['_']
    | .set s => renderSet s
    | .cntAll most ds => render (.cntAll most ds)
    | .cnt most ns ds => render (.cnt most ns ds)
  def renderArgsT : List RTok → Str
    | [] => []
    | [a] => ' ' :: renderT a
    | a :: b :: as => ' ' :: (render a ++ renderArgsT (b :: as))
end

def notParen (c : Char) : Prop := c ≠ '(' ∧ c ≠ ')'

theorem renderSet_ne_nil {s : RSet} (h : setOK s = true) : renderSet s ≠ [] := by
  cases s with
  | names ns => exact joinNames_ne_nil h
  | neg ns => simp [renderSet]

theorem renderSet_chars {s : RSet} (h : setOK s = true) :
    ∀ c ∈ renderSet s, notParen c ∧ c ≠ ' ' ∧ c ≠ '\n' := by
  intro c hc
  have key : ∀ ns, namesOK ns = true → c ∈ joinNames ns → notParen c ∧ c ≠ ' ' ∧ c ≠ '\n' := by
    intro ns hns hm
    rcases joinNames_char hns hm with e | e
    · subst e; exact ⟨⟨by decide, by decide⟩, by decide, by decide⟩
    · obtain ⟨a, _, b, _, d, f, _⟩ := not_special_facts e
      exact ⟨⟨d, f⟩, a, b⟩
  cases s with
  | names ns => exact key ns h hc
  | neg ns =>
    simp only [renderSet, List.mem_cons] at hc
    rcases hc with e | e
    · subst e; exact ⟨⟨by decide, by decide⟩, by decide, by decide⟩
    · exact key ns h e

theorem renderSet_head {s : RSet} (h : setOK s = true) :
    ∃ c r, renderSet s = c :: r ∧ c ≠ '(' := by
  cases hr : renderSet s with
  | nil => exact absurd hr (renderSet_ne_nil h)
  | cons c r => exact ⟨c, r, rfl, (renderSet_chars h c (by rw [hr]; exact List.mem_cons_self)).1.1⟩

theorem digits_notParen {ds : Str} (h : digitsOK ds = true) : ∀ c ∈ ds, notParen c ∧ c ≠ ' ' ∧ c ≠ '\n' := by
  intro c hc
  have hd := digits_char h c hc
  have := digit_not hd
  refine ⟨⟨this.2.2.2.2.1, this.2.2.2.2.2⟩, this.1, ?_⟩
  intro e; subst e; revert hd; decide

/-! ### shape of the renderings -/

/-- facts about one rendering, proved together by induction on the token tree -/
structure Shape (Sy : Syms) (t : RTok) : Prop where
  bal : Bal (render t)
  obal : OBal (renderT t)
  close : ∃ k, render t = renderT t ++ List.replicate k ')'
  lastT : ∃ c, (renderT t).getLast? = some c ∧ notParen c ∧ c ≠ ' '
  nonl : '\n' ∉ render t
  atomSp : isFunc t = false → ' ' ∉ render t ∧ ' ' ∉ renderT t ∧ ∃ c r, render t = c :: r ∧ c ≠ '(' ∧ ∃ r', renderT t = c :: r'
  depth : fdepth t ≤ (render t).length

structure ShapeArgs (Sy : Syms) (args : List RTok) : Prop where
  bal : Bal (renderArgs args)
  obal : OBal (renderArgsT args)
  close : ∃ k, renderArgs args = renderArgsT args ++ List.replicate k ')'
  lastT : args ≠ [] → ∃ c, (renderArgsT args).getLast? = some c ∧ notParen c ∧ c ≠ ' '
  nonl : '\n' ∉ renderArgs args
  depth : fdepths args ≤ (renderArgs args).length

theorem getLast?_append_cons (a : Str) (c : Char) (b : Str) : (a ++ c :: b).getLast? = (c :: b).getLast? := by
  rw [List.getLast?_append]
  cases h : (c :: b).getLast? with
  | none => simp at h
  | some x => simp

theorem plain_bal (s : Str) (h : ∀ c ∈ s, notParen c ∧ c ≠ ' ' ∧ c ≠ '\n') : Bal s :=
  Bal.plain (fun c hc => (h c hc).1)

theorem shape_plain (Sy : Syms) (t : RTok) (hT : renderT t = render t)
    (hp : ∀ c ∈ render t, notParen c ∧ c ≠ ' ' ∧ c ≠ '\n') (hne : render t ≠ []) (hf : fdepth t = 0) : Shape Sy t := by
  have hlast : ∃ c, (render t).getLast? = some c ∧ notParen c ∧ c ≠ ' ' := by
    cases hl : (render t).getLast? with
    | none => simp at hl; exact absurd hl hne
    | some c => exact ⟨c, rfl, (hp c (List.mem_of_getLast? hl)).1, (hp c (List.mem_of_getLast? hl)).2.1⟩
  refine ⟨plain_bal _ hp, by rw [hT]; exact .bal _ (plain_bal _ hp), ⟨0, by simp [hT]⟩, by rw [hT]; exact hlast,
    fun hm => (hp _ hm).2.2 rfl, ?_, by omega⟩
  intro _
  refine ⟨fun hm => (hp _ hm).2.1 rfl, by rw [hT]; exact fun hm => (hp _ hm).2.1 rfl, ?_⟩
  cases hr : render t with
  | nil => exact absurd hr hne
  | cons c r => exact ⟨c, r, rfl, (hp c (by rw [hr]; exact List.mem_cons_self)).1.1, r, by rw [hT, hr]⟩

theorem names_plain {ns : List Str} (h : namesOK ns = true) : ∀ c ∈ joinNames ns, notParen c ∧ c ≠ ' ' ∧ c ≠ '\n' :=
  renderSet_chars (s := .names ns) h

theorem op_plain (most : Bool) : notParen (if most then '<' else '>') ∧ (if most then '<' else '>') ≠ ' ' ∧
    (if most then '<' else '>') ≠ '\n' := by
  cases most <;> exact ⟨⟨by decide, by decide⟩, by decide, by decide⟩

mutual
  theorem shape (Sy : Syms) : ∀ t, renderOK Sy t = true → Shape Sy t
    | .any, _ => shape_plain Sy .any rfl (by intro c hc; simp [render] at hc; subst hc; exact ⟨⟨by decide, by decide⟩, by decide, by decide⟩) (by simp [render]) rfl
    | .set s, h => by
      have h' : setOK s = true := by simpa [renderOK] using h
      exact shape_plain Sy (.set s) rfl (by simpa [render] using renderSet_chars h') (by simpa [render] using renderSet_ne_nil h') rfl
    | .cntAll most ds, h => by
      have hd : digitsOK ds = true := by simpa [renderOK] using h
      refine shape_plain Sy _ rfl ?_ (by simp [render]) rfl
      intro c hc
      simp only [render, List.mem_cons] at hc
      rcases hc with e | e | e | e | e
      · subst e; exact ⟨⟨by decide, by decide⟩, by decide, by decide⟩
      · subst e; exact ⟨⟨by decide, by decide⟩, by decide, by decide⟩
      · subst e; exact op_plain most
      · subst e; exact ⟨⟨by decide, by decide⟩, by decide, by decide⟩
      · exact digits_notParen hd c e
    | .cnt most ns ds, h => by
      simp only [renderOK, Bool.and_eq_true] at h
      obtain ⟨hn, hd⟩ := h
      have hnp := names_plain hn
      have htail : ∀ c ∈ (if most then '<' else '>') :: '=' :: ds, notParen c ∧ c ≠ ' ' ∧ c ≠ '\n' := by
        intro c hc
        simp only [List.mem_cons] at hc
        rcases hc with e | e | e
        · subst e; exact op_plain most
        · subst e; exact ⟨⟨by decide, by decide⟩, by decide, by decide⟩
        · exact digits_notParen hd c e
      have hb : Bal (render (.cnt most ns ds)) := by
        simp only [render]
        exact .chr '#' _ (by decide) (by decide) (.grp _ _ (plain_bal _ hnp) (plain_bal _ htail))
      have hall : ∀ c ∈ render (.cnt most ns ds), c ≠ ' ' ∧ c ≠ '\n' := by
        intro c hc
        simp only [render, List.mem_cons, List.mem_append] at hc
        rcases hc with e | e | e | e | e
        · subst e; exact ⟨by decide, by decide⟩
        · subst e; exact ⟨by decide, by decide⟩
        · exact (hnp c e).2
        · subst e; exact ⟨by decide, by decide⟩
        · exact (htail c (by simpa using e)).2
      have hlast : ∃ c, (render (.cnt most ns ds)).getLast? = some c ∧ notParen c ∧ c ≠ ' ' := by
        have hne : ds ≠ [] := by
          intro e; subst e; simp [digitsOK] at hd
        cases hl : ds.getLast? with
        | none => simp at hl; exact absurd hl hne
        | some c =>
          refine ⟨c, ?_, (digits_notParen hd c (List.mem_of_getLast? hl)).1, (digits_notParen hd c (List.mem_of_getLast? hl)).2.1⟩
          cases ds with
          | nil => exact absurd rfl hne
          | cons x xs =>
            simp only [render]
            rw [show ('#' :: '(' :: (joinNames ns ++ ')' :: (if most then '<' else '>') :: '=' :: x :: xs)) =
              ('#' :: '(' :: (joinNames ns ++ [')', (if most then '<' else '>'), '='])) ++ x :: xs by simp]
            rw [getLast?_append_cons]; exact hl
      exact ⟨hb, .bal _ hb, ⟨0, by simp [renderT]⟩, hlast, fun hm => (hall _ hm).2 rfl,
        fun _ => ⟨fun hm => (hall _ hm).1 rfl, fun hm => (hall _ hm).1 rfl, '#', _, rfl, by decide, _, rfl⟩, by simp [fdepth]⟩
    | .sub force ns, h => by
      have hn : namesOK ns = true := by simpa [renderOK] using h
      have hnp := names_plain hn
      have hpre : ∀ c ∈ '>' :: (if force then [] else ['^']), notParen c ∧ c ≠ ' ' ∧ c ≠ '\n' := by
        intro c hc
        cases force <;> simp at hc
        · rcases hc with e | e <;> subst e <;> exact ⟨⟨by decide, by decide⟩, by decide, by decide⟩
        · subst hc; exact ⟨⟨by decide, by decide⟩, by decide, by decide⟩
      have e1 : render (.sub force ns) = ('>' :: (if force then [] else ['^'])) ++ '(' :: (joinNames ns ++ ')' :: []) := by
        simp [render]
      have e2 : renderT (.sub force ns) = ('>' :: (if force then [] else ['^'])) ++ '(' :: joinNames ns := by
        simp [renderT]
      have hall : ∀ c ∈ render (.sub force ns), c ≠ ' ' ∧ c ≠ '\n' := by
        intro c hc
        rw [e1] at hc
        simp only [List.mem_append, List.mem_cons, List.mem_nil_iff, or_false] at hc
        rcases hc with e | e | e | e
        · exact (hpre c (by simpa using e)).2
        · subst e; exact ⟨by decide, by decide⟩
        · exact (hnp c e).2
        · subst e; exact ⟨by decide, by decide⟩
      have hallT : ∀ c ∈ renderT (.sub force ns), c ∈ render (.sub force ns) := by
        intro c hc
        rw [e2] at hc; rw [e1]
        simp only [List.mem_append, List.mem_cons] at hc ⊢
        rcases hc with e | e | e
        · exact Or.inl e
        · exact Or.inr (Or.inl e)
        · exact Or.inr (Or.inr (Or.inl e))
      refine ⟨?_, ?_, ⟨1, ?_⟩, ?_, fun hm => (hall _ hm).2 rfl, fun _ => ⟨fun hm => (hall _ hm).1 rfl,
        fun hm => (hall _ (hallT _ hm)).1 rfl, '>', ((if force then [] else ['^']) ++ '(' :: (joinNames ns ++ [')'])),
          by simp [render], by decide, ((if force then [] else ['^']) ++ '(' :: joinNames ns), by simp [renderT]⟩, by simp [fdepth]⟩
      · rw [e1]; exact (plain_bal _ hpre).append (.grp _ _ (plain_bal _ hnp) .nil)
      · rw [e2]; exact .opn _ _ (plain_bal _ hpre) (.bal _ (plain_bal _ hnp))
      · rw [e1, e2]; simp
      · have hne := joinNames_ne_nil hn
        cases hl : (joinNames ns).getLast? with
        | none => simp at hl; exact absurd hl hne
        | some c =>
          refine ⟨c, ?_, (hnp c (List.mem_of_getLast? hl)).1, (hnp c (List.mem_of_getLast? hl)).2.1⟩
          rw [e2]
          cases hj : joinNames ns with
          | nil => exact absurd hj hne
          | cons x xs =>
            rw [show (('>' :: (if force then [] else ['^'])) ++ '(' :: x :: xs) =
              (('>' :: (if force then [] else ['^'])) ++ ['(']) ++ x :: xs by simp, getLast?_append_cons, ← hj]
            exact hl
    | .func hset args, h => by
      simp only [renderOK, Bool.and_eq_true] at h
      obtain ⟨⟨hs, _⟩, ha⟩ := h
      have sa := shapeArgs Sy args ha
      have hsp := renderSet_chars hs
      have hsb : Bal (renderSet hset) := Bal.plain (fun c hc => (hsp c hc).1)
      obtain ⟨k, hk⟩ := sa.close
      refine ⟨?_, ?_, ⟨k + 1, ?_⟩, ?_, ?_, by simp [isFunc], ?_⟩
      · have hb := Bal.grp (renderSet hset ++ renderArgs args) [] (hsb.append sa.bal) .nil
        simp only [render]; exact hb
      · simp only [renderT]
        exact .opn [] _ .nil (OBal.append_bal hsb sa.obal)
      · simp only [render, renderT, hk, List.replicate_succ', List.cons_append, List.append_assoc]
      · simp only [renderT]
        by_cases hnil : args = []
        · subst hnil
          simp only [renderArgsT, List.append_nil]
          have hne := renderSet_ne_nil hs
          cases hl : (renderSet hset).getLast? with
          | none => simp at hl; exact absurd hl hne
          | some c =>
            refine ⟨c, ?_, (hsp c (List.mem_of_getLast? hl)).1, (hsp c (List.mem_of_getLast? hl)).2.1⟩
            cases hr : renderSet hset with
            | nil => exact absurd hr hne
            | cons x xs =>
              rw [show ('(' :: (x :: xs)) = ['('] ++ x :: xs by rfl, getLast?_append_cons, ← hr]; exact hl
        · obtain ⟨c, hc, hn⟩ := sa.lastT hnil
          refine ⟨c, ?_, hn⟩
          cases hr : renderArgsT args with
          | nil => rw [hr] at hc; simp at hc
          | cons x xs =>
            rw [hr] at hc
            rw [show ('(' :: (renderSet hset ++ x :: xs)) = ('(' :: renderSet hset) ++ x :: xs by simp, getLast?_append_cons]
            exact hc
      · simp only [render, List.mem_cons, List.mem_append, List.mem_nil_iff, or_false, not_or]
        exact ⟨by decide, ⟨fun hm => (hsp _ hm).2.2 rfl, sa.nonl⟩, by decide⟩
      · simp only [fdepth, render, List.length_cons, List.length_append, List.length_nil]
        have := sa.depth; omega
  theorem shapeArgs (Sy : Syms) : ∀ args, renderOKs Sy args = true → ShapeArgs Sy args
    | [], _ => ⟨.nil, .bal _ .nil, ⟨0, rfl⟩, fun h => absurd rfl h, by simp [renderArgs], by simp [fdepths]⟩
    | [a], h => by
      simp only [renderOKs, Bool.and_eq_true, and_true] at h
      have s := shape Sy a h
      obtain ⟨k, hk⟩ := s.close
      obtain ⟨c, hc, hn⟩ := s.lastT
      refine ⟨?_, ?_, ⟨k, ?_⟩, fun _ => ⟨c, ?_, hn⟩, ?_, ?_⟩
      · simp only [renderArgs, List.append_nil]; exact .chr ' ' _ (by decide) (by decide) s.bal
      · simp only [renderArgsT]
        exact OBal.append_bal (a := [' ']) (.chr ' ' _ (by decide) (by decide) .nil) s.obal
      · simp [renderArgs, renderArgsT, hk]
      · simp only [renderArgsT]
        cases hr : renderT a with
        | nil => rw [hr] at hc; simp at hc
        | cons x xs =>
          rw [hr] at hc
          rw [show (' ' :: (x :: xs)) = [' '] ++ x :: xs by rfl, getLast?_append_cons]; exact hc
      · simp only [renderArgs, List.append_nil, List.mem_cons, not_or]
        exact ⟨by decide, s.nonl⟩
      · simp only [fdepths, renderArgs, List.append_nil, List.length_cons]
        have := s.depth; omega
    | a :: b :: as, h => by
      simp only [renderOKs, Bool.and_eq_true] at h
      obtain ⟨ha, hb⟩ := h
      have s := shape Sy a ha
      have sr := shapeArgs Sy (b :: as) (by simp only [renderOKs, Bool.and_eq_true]; exact hb)
      obtain ⟨k, hk⟩ := sr.close
      obtain ⟨c, hc, hn⟩ := sr.lastT (by simp)
      have hsb : Bal (' ' :: render a) := .chr ' ' _ (by decide) (by decide) s.bal
      refine ⟨?_, ?_, ⟨k, ?_⟩, fun _ => ⟨c, ?_, hn⟩, ?_, ?_⟩
      · rw [renderArgs]; exact hsb.append sr.bal
      · rw [renderArgsT]; exact OBal.append_bal hsb sr.obal
      · rw [renderArgs, renderArgsT, hk]; simp
      · rw [renderArgsT]
        cases hr : renderArgsT (b :: as) with
        | nil => rw [hr] at hc; simp at hc
        | cons x xs =>
          rw [hr] at hc
          rw [show (' ' :: (render a ++ x :: xs)) = (' ' :: render a) ++ x :: xs by simp, getLast?_append_cons]
          exact hc
      · rw [renderArgs]
        simp only [List.mem_cons, List.mem_append, not_or]
        exact ⟨by decide, s.nonl, sr.nonl⟩
      · rw [renderArgs, fdepths]
        simp only [List.length_cons, List.length_append]
        have := s.depth; have := sr.depth; omega
end

/-! ### the loop over the words -/

/-- one word: a bracketed one goes to the recursive call -/
def tokOf (Sy : Syms) (rec : Str → Option (Tok Sym)) (w : Str) : Option (Tok Sym) :=
  if startsWith ['('] w then rec w else interpretWord Sy w

/-- the loop :245-253 on the part of the string that is still to be read -/
def parseRest (Sy : Syms) (rec : Str → Option (Tok Sym)) : Nat → Str → Option (List (Tok Sym))
  | 0, _ => none
  | steps + 1, rem =>
    if rem = [] then some [] else
    if Sy.fixF5 && (parseNextWord rem).1.isEmpty then parseRest Sy rec steps (rem.drop (parseNextWord rem).2) else
    match tokOf Sy rec (parseNextWord rem).1 with
    | none => none
    | some t =>
      match parseRest Sy rec steps (rem.drop (parseNextWord rem).2) with
      | none => none
      | some ts => some (t :: ts)

theorem parseWords_eq (Sy : Syms) (rec : Str → Option (Tok Sym)) (steps : Nat) (spec : Str) (idx : Nat) :
    parseWords Sy rec steps spec idx = parseRest Sy rec steps (spec.drop idx) := by
  induction steps generalizing spec idx with
  | zero => rfl
  | succ n ih =>
    rw [parseWords, parseRest]
    by_cases h : idx < spec.length
    · have hne : spec.drop idx ≠ [] := by
        intro e; rw [List.drop_eq_nil_iff] at e; omega
      simp only [h, if_true, hne, if_false, tokOf]
      rw [ih (spec.drop idx) (parseNextWord (spec.drop idx)).2]
      split
      · rfl
      cases (if startsWith ['('] (parseNextWord (spec.drop idx)).1 = true then rec (parseNextWord (spec.drop idx)).1
        else interpretWord Sy (parseNextWord (spec.drop idx)).1) <;> rfl
    · have he : spec.drop idx = [] := List.drop_eq_nil_iff.mpr (by omega)
      simp [h, he]

/-- the words of an argument list, the last one without its closing brackets -/
def wordsT : List RTok → Str
  | [] => []
  | [a] => renderT a
  | a :: b :: as => render a ++ ' ' :: wordsT (b :: as)

theorem renderArgsT_eq (args : List RTok) (h : args ≠ []) : renderArgsT args = ' ' :: wordsT args := by
  induction args with
  | nil => exact absurd rfl h
  | cons a as ih =>
    cases as with
    | nil => simp [renderArgsT, wordsT]
    | cons b bs => simp [renderArgsT, wordsT, ih (by simp)]

/-- a word of the documented syntax that is not a function pattern -/
theorem tokOf_atom (Sy : Syms) (rec : Str → Option (Tok Sym)) (t : RTok) (hok : renderOK Sy t = true)
    (hf : isFunc t = false) : tokOf Sy rec (render t) = sem Sy t ∧ tokOf Sy rec (renderT t) = sem Sy t := by
  have sh := shape Sy t hok
  obtain ⟨_, _, c, r, hr, hc, r', hr'⟩ := sh.atomSp hf
  have h1 : startsWith ['('] (render t) = false := by rw [hr, startsWith_single]; simpa using hc.symm
  have h2 : startsWith ['('] (renderT t) = false := by rw [hr', startsWith_single]; simpa using hc.symm
  unfold tokOf
  simp only [h1, h2, Bool.false_eq_true, if_false]
  cases t with
  | any => exact ⟨by simp [render, sem, interp_any], by simp [renderT, sem, interp_any]⟩
  | set s =>
    have hs : setOK s = true := by simpa [renderOK] using hok
    cases s with
    | names ns => exact ⟨by simp [render, renderSet, sem, interp_set_names Sy hs], by simp [renderT, renderSet, sem, interp_set_names Sy hs]⟩
    | neg ns =>
      have := interp_set_neg Sy hs
      exact ⟨by simp only [render, renderSet, sem, this]; cases resolveNeg Sy ns <;> rfl,
        by simp only [renderT, renderSet, sem, this]; cases resolveNeg Sy ns <;> rfl⟩
  | cntAll most ds =>
    have hd : digitsOK ds = true := by simpa [renderOK] using hok
    exact ⟨by rw [interp_cntAll Sy ds hd most]; simp [sem], by simp only [renderT]; rw [interp_cntAll Sy ds hd most]; simp [sem]⟩
  | cnt most ns ds =>
    simp only [renderOK, Bool.and_eq_true] at hok
    have := interp_cnt Sy hok.1 ds hok.2 most
    exact ⟨by rw [this]; simp only [sem]; cases resolveNames Sy ns.eraseDups <;> cases parseNat ds <;> rfl,
      by simp only [renderT]; rw [this]; simp only [sem]; cases resolveNames Sy ns.eraseDups <;> cases parseNat ds <;> rfl⟩
  | sub force ns =>
    have hn : namesOK ns = true := by simpa [renderOK] using hok
    constructor
    · have := interp_sub Sy hn force [')'] (Or.inl rfl)
      simp only [render]; rw [this]; simp [sem]
    · have := interp_sub Sy hn force [] (Or.inr rfl)
      simp only [renderT]; simp only [List.append_nil] at this; rw [this]; simp [sem]
  | func _ _ => simp [isFunc] at hf

theorem func_inner (Sy : Syms) (h : RSet) (args : List RTok) (hok : renderOK Sy (.func h args) = true) :
    setOK h = true ∧ renderOKs Sy args = true ∧ Bal (renderSet h ++ renderArgs args) ∧
      OBal (renderSet h ++ renderArgsT args) := by
  simp only [renderOK, Bool.and_eq_true] at hok
  obtain ⟨⟨hs, _⟩, ha⟩ := hok
  have sa := shapeArgs Sy args ha
  have hsb : Bal (renderSet h) := Bal.plain (fun c hc => (renderSet_chars hs c hc).1)
  exact ⟨hs, ha, hsb.append sa.bal, OBal.append_bal hsb sa.obal⟩

/-- cutting a word of the documented syntax -/
theorem pnw_tok (Sy : Syms) (a : RTok) (hok : renderOK Sy a = true) :
    (∀ rest, parseNextWord (render a ++ ' ' :: rest) = (render a, (render a).length + 1)) ∧
    parseNextWord (renderT a) = (renderT a, (renderT a).length + 1) := by
  by_cases hf : isFunc a = true
  · cases a with
    | func h args =>
      obtain ⟨_, _, hb, hob⟩ := func_inner Sy h args hok
      constructor
      · intro rest
        have := pnw_group hb rest
        simp only [render]
        rw [show ('(' :: (renderSet h ++ renderArgs args ++ [')']) ++ ' ' :: rest) =
          '(' :: ((renderSet h ++ renderArgs args) ++ ')' :: (' ' :: rest)) by simp]
        rw [pnw_group hb (' ' :: rest)]
        simp [Nat.add_assoc]
      · simp only [renderT]
        rw [pnw_open hob]; simp
    | _ => simp [isFunc] at hf
  · have hf' : isFunc a = false := by simpa using hf
    obtain ⟨h1, h2, c, r, hr, hc, r', hr'⟩ := (shape Sy a hok).atomSp hf'
    exact ⟨fun rest => (pnw_word (render a) rest c r hr hc h1).1, (pnw_word (renderT a) [] c r' hr' hc h2).2⟩

theorem tokOf_tok (Sy : Syms) (rec : Str → Option (Tok Sym)) (a : RTok) (hok : renderOK Sy a = true)
    (hrec : isFunc a = true → rec (render a) = sem Sy a ∧ rec (renderT a) = sem Sy a) :
    tokOf Sy rec (render a) = sem Sy a ∧ tokOf Sy rec (renderT a) = sem Sy a := by
  by_cases hf : isFunc a = true
  · cases a with
    | func h args =>
      have := hrec hf
      unfold tokOf
      simp only [render, renderT, startsWith_single, beq_self_eq_true, if_true]
      simpa [render, renderT] using this
    | _ => simp [isFunc] at hf
  · exact tokOf_atom Sy rec a hok (by simpa using hf)

theorem renderT_ne_nil (Sy : Syms) (a : RTok) (hok : renderOK Sy a = true) : renderT a ≠ [] := by
  obtain ⟨c, hc, _⟩ := (shape Sy a hok).lastT
  intro e; rw [e] at hc; simp at hc

theorem render_ne_nil (Sy : Syms) (a : RTok) (hok : renderOK Sy a = true) : render a ≠ [] := by
  obtain ⟨k, hk⟩ := (shape Sy a hok).close
  intro e
  rw [e] at hk
  have := renderT_ne_nil Sy a hok
  cases hr : renderT a with
  | nil => exact this hr
  | cons x xs => rw [hr] at hk; simp at hk

theorem parseRest_nil (Sy : Syms) (rec : Str → Option (Tok Sym)) (n : Nat) : parseRest Sy rec (n + 1) [] = some [] := by
  simp [parseRest]

theorem parseRest_step (Sy : Syms) (rec : Str → Option (Tok Sym)) (n : Nat) (rem w : Str) (k : Nat)
    (hrem : rem ≠ []) (hp : parseNextWord rem = (w, k)) (hw : w ≠ []) :
    parseRest Sy rec (n + 1) rem = (match tokOf Sy rec w with
      | none => none
      | some t => match parseRest Sy rec n (rem.drop k) with
        | none => none
        | some ts => some (t :: ts)) := by
  rw [parseRest]
  have : w.isEmpty = false := by cases w <;> simp at hw ⊢
  simp only [hrem, if_false, hp, this, Bool.and_false, Bool.false_eq_true]

theorem parseRest_args (Sy : Syms) (rec : Str → Option (Tok Sym)) : ∀ (args : List RTok), args ≠ [] →
    renderOKs Sy args = true →
    (∀ a ∈ args, isFunc a = true → rec (render a) = sem Sy a ∧ rec (renderT a) = sem Sy a) →
    ∀ steps, steps ≥ args.length + 1 → parseRest Sy rec steps (wordsT args) = semArgs Sy args
  | [], h, _, _, _, _ => absurd rfl h
  | [a], _, hok, hrec, steps, hs => by
    simp only [renderOKs, Bool.and_eq_true, and_true] at hok
    obtain ⟨n, rfl⟩ : ∃ n, steps = n + 2 := ⟨steps - 2, by simp at hs; omega⟩
    have hne := renderT_ne_nil Sy a hok
    simp only [wordsT]
    rw [parseRest_step Sy rec _ _ _ _ hne (pnw_tok Sy a hok).2 hne]
    rw [(tokOf_tok Sy rec a hok (hrec a List.mem_cons_self)).2]
    rw [List.drop_of_length_le (by omega), parseRest_nil]
    simp only [semArgs]
    cases sem Sy a <;> rfl
  | a :: b :: as, _, hok, hrec, steps, hs => by
    simp only [renderOKs, Bool.and_eq_true] at hok
    obtain ⟨n, rfl⟩ : ∃ n, steps = n + 1 := ⟨steps - 1, by simp at hs; omega⟩
    have hne : render a ++ ' ' :: wordsT (b :: as) ≠ [] := by simp
    conv => rhs; rw [semArgs]
    simp only [wordsT]
    rw [parseRest_step Sy rec _ _ _ _ hne ((pnw_tok Sy a hok.1).1 _) (render_ne_nil Sy a hok.1)]
    rw [(tokOf_tok Sy rec a hok.1 (hrec a List.mem_cons_self)).1]
    rw [show (render a).length + 1 = (render a ++ [' ']).length by simp,
      show render a ++ ' ' :: wordsT (b :: as) = (render a ++ [' ']) ++ wordsT (b :: as) by simp, List.drop_left]
    rw [parseRest_args Sy rec (b :: as) (by simp) (by simp only [renderOKs, Bool.and_eq_true]; exact hok.2)
      (fun x hx => hrec x (List.mem_cons_of_mem _ hx)) n (by simp at hs ⊢; omega)]
    cases sem Sy a <;> cases semArgs Sy (b :: as) <;> rfl

theorem wordsT_length (Sy : Syms) : ∀ (args : List RTok), renderOKs Sy args = true → (wordsT args).length ≥ args.length
  | [], _ => by simp [wordsT]
  | [a], hok => by
    simp only [renderOKs, Bool.and_eq_true, and_true] at hok
    have := renderT_ne_nil Sy a hok
    cases hr : renderT a with
    | nil => exact absurd hr this
    | cons _ _ => simp [wordsT, hr]
  | a :: b :: as, hok => by
    simp only [renderOKs, Bool.and_eq_true] at hok
    have := wordsT_length Sy (b :: as) (by simp only [renderOKs, Bool.and_eq_true]; exact hok.2)
    simp only [wordsT, List.length_append, List.length_cons] at this ⊢
    omega

theorem fdepth_le_of_mem {a : RTok} {args : List RTok} (h : a ∈ args) : fdepth a ≤ fdepths args := by
  induction args with
  | nil => cases h
  | cons x xs ih =>
    rw [fdepths]
    rcases List.mem_cons.mp h with e | e
    · subst e; omega
    · have := ih e; omega

theorem renderOK_of_mem (Sy : Syms) {a : RTok} {args : List RTok} (hok : renderOKs Sy args = true) (h : a ∈ args) :
    renderOK Sy a = true := by
  induction args with
  | nil => cases h
  | cons x xs ih =>
    simp only [renderOKs, Bool.and_eq_true] at hok
    rcases List.mem_cons.mp h with e | e
    · subst e; exact hok.1
    · exact ih hok.2 e

/-! ### the recursion -/

/-- both renderings of a function pattern are stripped to head and argument words -/
theorem strip_func (Sy : Syms) (b : Bool) (h : RSet) (args : List RTok) (hok : renderOK Sy (.func h args) = true) :
    stripChars (stripP b) (removeChar '\n' (render (.func h args))) = renderSet h ++ renderArgsT args ∧
    stripChars (stripP b) (removeChar '\n' (renderT (.func h args))) = renderSet h ++ renderArgsT args := by
  have sh := shape Sy _ hok
  obtain ⟨hs, _, _, _⟩ := func_inner Sy h args hok
  obtain ⟨k, hk⟩ := sh.close
  have hnl : '\n' ∉ render (.func h args) := sh.nonl
  have hnlT : '\n' ∉ renderT (.func h args) := by
    intro hm; apply hnl; rw [hk]; exact List.mem_append_left _ hm
  rw [removeChar_id _ _ hnl, removeChar_id _ _ hnlT]
  -- the core: not empty, begins and ends with a character that is not a bracket
  obtain ⟨c0, r0, hr0, hc0⟩ := renderSet_head hs
  have hYne : renderSet h ++ renderArgsT args ≠ [] := by rw [hr0]; simp
  have hhead : ∀ c, (renderSet h ++ renderArgsT args).head? = some c → stripP b c = false := by
    intro c hc
    rw [hr0] at hc
    simp only [List.cons_append, List.head?_cons, Option.some.injEq] at hc
    subst hc
    have := renderSet_chars hs c0 (by rw [hr0]; exact List.mem_cons_self)
    simp [stripP, this.1.1, this.1.2, this.2.1]
  have hlast : ∀ c, (renderSet h ++ renderArgsT args).getLast? = some c → stripP b c = false := by
    intro c hc
    obtain ⟨d, hd, hn⟩ := sh.lastT
    simp only [renderT] at hd
    cases hY : renderSet h ++ renderArgsT args with
    | nil => exact absurd hY hYne
    | cons y ys =>
      rw [hY] at hc hd
      rw [show ('(' :: y :: ys) = ['('] ++ y :: ys by rfl, getLast?_append_cons, hc] at hd
      simp only [Option.some.injEq] at hd
      subst hd
      simp [stripP, hn.1.1, hn.1.2, hn.2]
  have hpost : ∀ n, ∀ c ∈ List.replicate n ')', stripP b c = true := by
    intro n c hc
    rw [List.mem_replicate] at hc
    rw [hc.2]; simp [stripP]
  constructor
  · rw [hk]
    simp only [renderT]
    exact stripChars_mid (stripP b) ['('] _ _ (by simp [stripP]) (hpost k) hYne hhead hlast
  · simp only [renderT]
    have := stripChars_mid (stripP b) ['('] (renderSet h ++ renderArgsT args) [] (by simp [stripP]) (by simp) hYne hhead hlast
    simpa using this

/-- the head word of a pattern -/
theorem tokOf_head (Sy : Syms) (rec : Str → Option (Tok Sym)) (h : RSet) (hs : setOK h = true) :
    tokOf Sy rec (renderSet h) = match h with
      | .names ns => (resolveNames Sy ns.eraseDups).map .allow
      | .neg ns => some (match resolveNeg Sy ns with
        | none => .any
        | some S => .allow S) := by
  obtain ⟨c0, r0, hr0, hc0⟩ := renderSet_head hs
  unfold tokOf
  have : startsWith ['('] (renderSet h) = false := by rw [hr0, startsWith_single]; simpa using hc0.symm
  simp only [this, Bool.false_eq_true, if_false]
  cases h with
  | names ns => exact interp_set_names Sy hs
  | neg ns => exact interp_set_neg Sy hs

theorem parseSpec_func (Sy : Syms) : ∀ (fuel : Nat) (t : RTok), renderOK Sy t = true → isFunc t = true →
    fdepth t ≤ fuel → parseSpec Sy fuel (render t) = sem Sy t ∧ parseSpec Sy fuel (renderT t) = sem Sy t := by
  intro fuel
  induction fuel with
  | zero =>
    intro t _ hf hd
    cases t with
    | func h args => simp [fdepth] at hd
    | _ => simp [isFunc] at hf
  | succ fuel ih =>
    intro t hok hf hd
    cases t with
    | func h args =>
      obtain ⟨hs, hoks, _, _⟩ := func_inner Sy h args hok
      obtain ⟨e1, e2⟩ := strip_func Sy Sy.fixF5 h args hok
      -- the loop on the stripped string
      have key : parseWords Sy (parseSpec Sy fuel) ((renderSet h ++ renderArgsT args).length + 1)
          (renderSet h ++ renderArgsT args) 0 =
          (match tokOf Sy (parseSpec Sy fuel) (renderSet h), semArgs Sy args with
            | some t, some ts => some (t :: ts)
            | _, _ => none) := by
        rw [parseWords_eq, List.drop_zero]
        obtain ⟨c0, r0, hr0, hc0⟩ := renderSet_head hs
        have hsp : ' ' ∉ renderSet h := fun hm => (renderSet_chars hs _ hm).2.1 rfl
        have hYne : renderSet h ++ renderArgsT args ≠ [] := by rw [hr0]; simp
        have hhne : renderSet h ≠ [] := renderSet_ne_nil hs
        have hrec : ∀ a ∈ args, isFunc a = true →
            parseSpec Sy fuel (render a) = sem Sy a ∧ parseSpec Sy fuel (renderT a) = sem Sy a := by
          intro a ha hfa
          apply ih a (renderOK_of_mem Sy hoks ha) hfa
          have := fdepth_le_of_mem ha
          simp only [fdepth] at hd
          omega
        by_cases hnil : args = []
        · subst hnil
          simp only [renderArgsT, List.append_nil] at hYne ⊢
          rw [parseRest_step Sy _ _ _ _ _ hYne (pnw_word (renderSet h) [] c0 r0 hr0 hc0 hsp).2 hhne]
          rw [List.drop_of_length_le (by omega)]
          rw [show (renderSet h).length = (renderSet h).length - 1 + 1 by rw [hr0]; simp, parseRest_nil]
          simp only [semArgs]
          cases tokOf Sy (parseSpec Sy fuel) (renderSet h) <;> rfl
        · rw [renderArgsT_eq args hnil] at hYne ⊢
          rw [parseRest_step Sy _ _ _ _ _ hYne (pnw_word (renderSet h) (wordsT args) c0 r0 hr0 hc0 hsp).1 hhne]
          rw [show (renderSet h).length + 1 = (renderSet h ++ [' ']).length by simp,
            show renderSet h ++ ' ' :: wordsT args = (renderSet h ++ [' ']) ++ wordsT args by simp, List.drop_left]
          rw [parseRest_args Sy _ args hnil hoks hrec _ (by
            have := wordsT_length Sy args hoks
            simp only [List.length_append, List.length_cons, List.length_nil]; omega)]
          cases tokOf Sy (parseSpec Sy fuel) (renderSet h) <;> cases semArgs Sy args <;> rfl
      -- assemble, and the meaning
      have fin : (match (match tokOf Sy (parseSpec Sy fuel) (renderSet h), semArgs Sy args with
            | some t, some ts => some (t :: ts)
            | _, _ => none) with
          | none => none
          | some elements => assemble Sy.fixF2 elements) = sem Sy (.func h args) := by
        rw [tokOf_head Sy _ h hs]
        simp only [sem]
        cases h with
        | names ns =>
          simp only
          cases resolveNames Sy ns.eraseDups with
          | none => rfl
          | some H =>
            cases semArgs Sy args with
            | none => rfl
            | some as => simp [assemble]
        | neg ns =>
          simp only [renderOK, Bool.and_eq_true] at hok
          have hsome := hok.1.2
          rcases hr : resolveNeg Sy ns with _ | S
          · rw [hr] at hsome; simp at hsome
          · simp only [hr]
            cases semArgs Sy args with
            | none => rfl
            | some as => simp [assemble]
      constructor
      · rw [parseSpec]
        simp only [e1, key]
        exact fin
      · rw [parseSpec]
        simp only [e2, key]
        exact fin
    | _ => simp [isFunc] at hf

/-! ### top level -/

theorem parse_render_func (Sy : Syms) (t : RTok) (hok : renderOK Sy t = true) (hf : isFunc t = true) :
    parse Sy (render t) = sem Sy t := by
  unfold parse
  exact (parseSpec_func Sy _ t hok hf (by have := (shape Sy t hok).depth; omega)).1

/-- a rule that is a single word (`_`, a count, a sub-tree token) -/
def isRuleWord : RTok → Bool
  | .any => true
  | .cntAll _ _ => true
  | .cnt _ _ _ => true
  | .sub _ _ => true
  | _ => false

theorem sem_not_allow (Sy : Syms) (t : RTok) (h : isRuleWord t = true) : ∀ S, sem Sy t ≠ some (.allow S) := by
  intro S
  cases t with
  | any => simp [sem]
  | cntAll most ds => simp only [sem]; cases parseNat ds <;> cases most <;> simp
  | cnt most ns ds => simp only [sem]; cases resolveNames Sy ns.eraseDups <;> cases parseNat ds <;> cases most <;> simp
  | sub force ns => simp only [sem]; cases resolveNames Sy ns.eraseDups <;> cases force <;> simp
  | set _ => simp [isRuleWord] at h
  | func _ _ => simp [isRuleWord] at h

theorem parse_render_word (Sy : Syms) (t : RTok) (hok : renderOK Sy t = true) (hw : isRuleWord t = true) :
    parse Sy (render t) = sem Sy t := by
  have hf : isFunc t = false := by cases t <;> simp [isRuleWord, isFunc] at hw ⊢
  have sh := shape Sy t hok
  obtain ⟨k, hk⟩ := sh.close
  obtain ⟨_, _, c, r, hr, hc, r', hr'⟩ := sh.atomSp hf
  have hc2 : c ≠ ')' := by
    cases t <;> simp [isRuleWord] at hw <;> simp [render] at hr <;> (rw [← hr.1]; decide)
  have hne := renderT_ne_nil Sy t hok
  have hc3 : c ≠ ' ' := by
    cases t <;> simp [isRuleWord] at hw <;> simp [render] at hr <;> (rw [← hr.1]; decide)
  have hstrip : stripChars (stripP Sy.fixF5) (removeChar '\n' (render t)) = renderT t := by
    rw [removeChar_id _ _ sh.nonl, hk]
    have := stripChars_mid (stripP Sy.fixF5) [] (renderT t) (List.replicate k ')') (by simp)
      (fun x hx => by rw [List.mem_replicate] at hx; rw [hx.2]; simp [stripP]) hne
      (fun x hx => by rw [hr'] at hx; simp at hx; subst hx; simp [stripP, hc, hc2, hc3])
      (fun x hx => by
        obtain ⟨d, hd, hn⟩ := sh.lastT
        rw [hd] at hx; simp at hx; subst hx; simp [stripP, hn.1.1, hn.1.2, hn.2])
    simpa using this
  unfold parse
  rw [parseSpec]
  simp only [hstrip]
  rw [parseWords_eq, List.drop_zero, parseRest_step Sy _ _ _ _ _ hne (pnw_tok Sy t hok).2 hne]
  simp only [(tokOf_atom Sy _ t hok hf).2]
  rw [List.drop_of_length_le (by omega)]
  rw [show (renderT t).length = (renderT t).length - 1 + 1 by
    cases hh : renderT t with
    | nil => exact absurd hh hne
    | cons _ _ => simp, parseRest_nil]
  have hna := sem_not_allow Sy t hw
  cases hs : sem Sy t with
  | none => rfl
  | some tok =>
    simp only
    cases tok with
    | allow S => exact absurd hs (hna S)
    | _ => rfl

/-! ### outside the region of finding C05-F2 the unrepaired parser gives the documented meaning -/

mutual
  /-- no function pattern of the tree has only wildcard arguments (the decidable complement of the
      region of finding C05-F2, evaluated with the grammar's symbols) -/
  def noCollapse (Sy : Syms) : RTok → Bool
    | .func _ args => (match semArgs Sy args with
        | some as => !(as.all isAny)
        | none => true) && noCollapses Sy args
    | _ => true
  def noCollapses (Sy : Syms) : List RTok → Bool
    | [] => true
    | a :: as => noCollapse Sy a && noCollapses Sy as
end

/-- the same symbols, parser with fixes_proposed/C05-F2.diff -/
def withF2 (Sy : Syms) : Syms := { Sy with fixF2 := true }

theorem resolveNames_withF2 (Sy : Syms) (ns : List Str) : resolveNames (withF2 Sy) ns = resolveNames Sy ns := rfl
theorem resolveNeg_withF2 (Sy : Syms) (ns : List Str) : resolveNeg (withF2 Sy) ns = resolveNeg Sy ns := rfl

mutual
  theorem sem_withF2 (Sy : Syms) : ∀ t, noCollapse Sy t = true → sem (withF2 Sy) t = sem Sy t
    | .any, _ => by simp [sem]
    | .set (.names ns), _ => by simp [sem, resolveNames_withF2]
    | .set (.neg ns), _ => by simp [sem, resolveNeg_withF2]
    | .cntAll most ds, _ => by simp [sem, withF2]
    | .cnt most ns ds, _ => by simp [sem, resolveNames_withF2]
    | .sub force ns, _ => by simp [sem, resolveNames_withF2]
    | .func h args, hn => by
      simp only [noCollapse, Bool.and_eq_true] at hn
      have ha := semArgs_withF2 Sy args hn.2
      simp only [sem, ha, resolveNames_withF2, resolveNeg_withF2]
      have fin : ∀ (hh : Option (List Sym)),
          (match hh, semArgs Sy args with
            | some H, some as => if !(withF2 Sy).fixF2 && as.all isAny then some Tok.any else some (Tok.func H as)
            | _, _ => none) =
          (match hh, semArgs Sy args with
            | some H, some as => if !Sy.fixF2 && as.all isAny then some Tok.any else some (Tok.func H as)
            | _, _ => none) := by
        intro hh
        cases hh with
        | none => rfl
        | some H =>
          cases hs : semArgs Sy args with
          | none => rfl
          | some as =>
            have := hn.1
            rw [hs] at this
            simp only [Bool.not_eq_true'] at this
            simp [this, withF2]
      cases h with
      | names ns => exact fin _
      | neg ns => exact fin _
  theorem semArgs_withF2 (Sy : Syms) : ∀ args, noCollapses Sy args = true → semArgs (withF2 Sy) args = semArgs Sy args
    | [], _ => by simp [semArgs]
    | a :: as, hn => by
      simp only [noCollapses, Bool.and_eq_true] at hn
      simp only [semArgs, sem_withF2 Sy a hn.1, semArgs_withF2 Sy as hn.2]
end

end PS.C05
