/-
  C05, parser, part 4: `parse Sy (render t) = sem Sy t` for the documented syntax, character level,
  canonical spacing (one blank between the elements of a pattern).
-/
import PS.Proofs.ConstraintsParseSplit
set_option linter.unusedSectionVars false
namespace PS.C05
open PS PS.G

/-! ### what can be written -/

def setOK : RSet → Bool
  | .names ns => namesOK ns
  | .neg ns => namesOK ns

mutual
  /-- **RenderOK**: names are plain (non-empty, none of ` \t\n\r(){},^>#<=`, not `_` alone), name lists
      are not empty, numbers are digit strings, and a complemented HEAD set excludes some symbol of the
      grammar (otherwise the parser sees `_` in head position and fails an assertion) -/
  def renderOK (Sy : Syms) : RTok → Bool
    | .any => true
    | .set s => setOK s
    | .cntAll _ ds => digitsOK ds
    | .cnt _ ns ds => namesOK ns && digitsOK ds
    | .sub _ ns => namesOK ns
    | .func h args => setOK h && (match h with
        | .neg ns => (resolveNeg Sy ns).isSome
        | .names _ => true) && renderOKs Sy args
  def renderOKs (Sy : Syms) : List RTok → Bool
    | [] => true
    | a :: as => renderOK Sy a && renderOKs Sy as
end

def isFunc : RTok → Bool
  | .func _ _ => true
  | _ => false

mutual
  /-- nesting of function patterns -/
  def fdepth : RTok → Nat
    | .func _ args => 1 + fdepths args
    | _ => 0
  def fdepths : List RTok → Nat
    | [] => 0
    | a :: as => max (fdepth a) (fdepths as)
end

mutual
  /-- the rendering without its trailing closing brackets (what `strip(")(")` of an enclosing pattern
      leaves of the last element) -/
  def renderT : RTok → Str
    | .sub force ns => '>' :: ((if force then [] else ['^']) ++ '(' :: joinNames ns)
    | .func h args => '(' :: (renderSet h ++ renderArgsT args)
    | .any => ['_']
    | .set s => renderSet s
    | .cntAll most ds => render (.cntAll most ds)
    | .cnt most ns ds => render (.cnt most ns ds)
  def renderArgsT : List RTok → Str
    | [] => []
    | [a] => ' ' :: renderT a
    | a :: b :: as => ' ' :: (render a ++ renderArgsT (b :: as))
end

def notParen (c : Char) : Prop := c ≠ '(' ∧ c ≠ ')'

theorem renderSet_ne_nil {s : RSet} (h : setOK s = true) : renderSet s ≠ [] := by
  cases s with
  | names ns => exact joinNames_ne_nil h
  | neg ns => simp [renderSet]

theorem renderSet_chars {s : RSet} (h : setOK s = true) :
    ∀ c ∈ renderSet s, notParen c ∧ c ≠ ' ' ∧ c ≠ '\n' := by
  intro c hc
  have key : ∀ ns, namesOK ns = true → c ∈ joinNames ns → notParen c ∧ c ≠ ' ' ∧ c ≠ '\n' := by
    intro ns hns hm
    rcases joinNames_char hns hm with e | e
    · subst e; exact ⟨⟨by decide, by decide⟩, by decide, by decide⟩
    · obtain ⟨a, _, b, _, d, f, _⟩ := not_special_facts e
      exact ⟨⟨d, f⟩, a, b⟩
  cases s with
  | names ns => exact key ns h hc
  | neg ns =>
    simp only [renderSet, List.mem_cons] at hc
    rcases hc with e | e
    · subst e; exact ⟨⟨by decide, by decide⟩, by decide, by decide⟩
    · exact key ns h e

theorem renderSet_head {s : RSet} (h : setOK s = true) :
    ∃ c r, renderSet s = c :: r ∧ c ≠ '(' := by
  cases hr : renderSet s with
  | nil => exact absurd hr (renderSet_ne_nil h)
  | cons c r => exact ⟨c, r, rfl, (renderSet_chars h c (by rw [hr]; exact List.mem_cons_self)).1.1⟩

theorem digits_notParen {ds : Str} (h : digitsOK ds = true) : ∀ c ∈ ds, notParen c ∧ c ≠ ' ' ∧ c ≠ '\n' := by
  intro c hc
  have hd := digits_char h c hc
  have := digit_not hd
  refine ⟨⟨this.2.2.2.2.1, this.2.2.2.2.2⟩, this.1, ?_⟩
  intro e; subst e; revert hd; decide

/-! ### shape of the renderings -/

/-- facts about one rendering, proved together by induction on the token tree -/
structure Shape (Sy : Syms) (t : RTok) : Prop where
  bal : Bal (render t)
  obal : OBal (renderT t)
  close : ∃ k, render t = renderT t ++ List.replicate k ')'
  lastT : ∃ c, (renderT t).getLast? = some c ∧ notParen c
  nonl : '\n' ∉ render t
  atomSp : isFunc t = false → ' ' ∉ render t ∧ ' ' ∉ renderT t ∧ ∃ c r, render t = c :: r ∧ c ≠ '(' ∧ ∃ r', renderT t = c :: r'
  depth : fdepth t ≤ (render t).length

structure ShapeArgs (Sy : Syms) (args : List RTok) : Prop where
  bal : Bal (renderArgs args)
  obal : OBal (renderArgsT args)
  close : ∃ k, renderArgs args = renderArgsT args ++ List.replicate k ')'
  lastT : args ≠ [] → ∃ c, (renderArgsT args).getLast? = some c ∧ notParen c
  nonl : '\n' ∉ renderArgs args
  depth : fdepths args ≤ (renderArgs args).length

theorem getLast?_append_cons (a : Str) (c : Char) (b : Str) : (a ++ c :: b).getLast? = (c :: b).getLast? := by
  rw [List.getLast?_append]
  cases h : (c :: b).getLast? with
  | none => simp at h
  | some x => simp

theorem plain_bal (s : Str) (h : ∀ c ∈ s, notParen c ∧ c ≠ ' ' ∧ c ≠ '\n') : Bal s :=
  Bal.plain (fun c hc => (h c hc).1)

theorem shape_plain (Sy : Syms) (t : RTok) (hT : renderT t = render t)
    (hp : ∀ c ∈ render t, notParen c ∧ c ≠ ' ' ∧ c ≠ '\n') (hne : render t ≠ []) (hf : fdepth t = 0) : Shape Sy t := by
  have hlast : ∃ c, (render t).getLast? = some c ∧ notParen c := by
    cases hl : (render t).getLast? with
    | none => simp at hl; exact absurd hl hne
    | some c => exact ⟨c, rfl, (hp c (List.mem_of_getLast? hl)).1⟩
  refine ⟨plain_bal _ hp, by rw [hT]; exact .bal _ (plain_bal _ hp), ⟨0, by simp [hT]⟩, by rw [hT]; exact hlast,
    fun hm => (hp _ hm).2.2 rfl, ?_, by omega⟩
  intro _
  refine ⟨fun hm => (hp _ hm).2.1 rfl, by rw [hT]; exact fun hm => (hp _ hm).2.1 rfl, ?_⟩
  cases hr : render t with
  | nil => exact absurd hr hne
  | cons c r => exact ⟨c, r, rfl, (hp c (by rw [hr]; exact List.mem_cons_self)).1.1, r, by rw [hT, hr]⟩

theorem names_plain {ns : List Str} (h : namesOK ns = true) : ∀ c ∈ joinNames ns, notParen c ∧ c ≠ ' ' ∧ c ≠ '\n' :=
  renderSet_chars (s := .names ns) h

theorem op_plain (most : Bool) : notParen (if most then '<' else '>') ∧ (if most then '<' else '>') ≠ ' ' ∧
    (if most then '<' else '>') ≠ '\n' := by
  cases most <;> exact ⟨⟨by decide, by decide⟩, by decide, by decide⟩

mutual
  theorem shape (Sy : Syms) : ∀ t, renderOK Sy t = true → Shape Sy t
    | .any, _ => shape_plain Sy .any rfl (by intro c hc; simp [render] at hc; subst hc; exact ⟨⟨by decide, by decide⟩, by decide, by decide⟩) (by simp [render]) rfl
    | .set s, h => by
      have h' : setOK s = true := by simpa [renderOK] using h
      exact shape_plain Sy (.set s) rfl (by simpa [render] using renderSet_chars h') (by simpa [render] using renderSet_ne_nil h') rfl
    | .cntAll most ds, h => by
      have hd : digitsOK ds = true := by simpa [renderOK] using h
      refine shape_plain Sy _ rfl ?_ (by simp [render]) rfl
      intro c hc
      simp only [render, List.mem_cons] at hc
      rcases hc with e | e | e | e | e
      · subst e; exact ⟨⟨by decide, by decide⟩, by decide, by decide⟩
      · subst e; exact ⟨⟨by decide, by decide⟩, by decide, by decide⟩
      · subst e; exact op_plain most
      · subst e; exact ⟨⟨by decide, by decide⟩, by decide, by decide⟩
      · exact digits_notParen hd c e
    | .cnt most ns ds, h => by
      simp only [renderOK, Bool.and_eq_true] at h
      obtain ⟨hn, hd⟩ := h
      have hnp := names_plain hn
      have htail : ∀ c ∈ (if most then '<' else '>') :: '=' :: ds, notParen c ∧ c ≠ ' ' ∧ c ≠ '\n' := by
        intro c hc
        simp only [List.mem_cons] at hc
        rcases hc with e | e | e
        · subst e; exact op_plain most
        · subst e; exact ⟨⟨by decide, by decide⟩, by decide, by decide⟩
        · exact digits_notParen hd c e
      have hb : Bal (render (.cnt most ns ds)) := by
        simp only [render]
        exact .chr '#' _ (by decide) (by decide) (.grp _ _ (plain_bal _ hnp) (plain_bal _ htail))
      have hall : ∀ c ∈ render (.cnt most ns ds), c ≠ ' ' ∧ c ≠ '\n' := by
        intro c hc
        simp only [render, List.mem_cons, List.mem_append] at hc
        rcases hc with e | e | e | e | e
        · subst e; exact ⟨by decide, by decide⟩
        · subst e; exact ⟨by decide, by decide⟩
        · exact (hnp c e).2
        · subst e; exact ⟨by decide, by decide⟩
        · exact (htail c (by simpa using e)).2
      have hlast : ∃ c, (render (.cnt most ns ds)).getLast? = some c ∧ notParen c := by
        have hne : ds ≠ [] := by
          intro e; subst e; simp [digitsOK] at hd
        cases hl : ds.getLast? with
        | none => simp at hl; exact absurd hl hne
        | some c =>
          refine ⟨c, ?_, (digits_notParen hd c (List.mem_of_getLast? hl)).1⟩
          cases ds with
          | nil => exact absurd rfl hne
          | cons x xs =>
            simp only [render]
            rw [show ('#' :: '(' :: (joinNames ns ++ ')' :: (if most then '<' else '>') :: '=' :: x :: xs)) =
              ('#' :: '(' :: (joinNames ns ++ [')', (if most then '<' else '>'), '='])) ++ x :: xs by simp]
            rw [getLast?_append_cons]; exact hl
      exact ⟨hb, .bal _ hb, ⟨0, by simp [renderT]⟩, hlast, fun hm => (hall _ hm).2 rfl,
        fun _ => ⟨fun hm => (hall _ hm).1 rfl, fun hm => (hall _ hm).1 rfl, '#', _, rfl, by decide, _, rfl⟩, by simp [fdepth]⟩
    | .sub force ns, h => by
      have hn : namesOK ns = true := by simpa [renderOK] using h
      have hnp := names_plain hn
      have hpre : ∀ c ∈ '>' :: (if force then [] else ['^']), notParen c ∧ c ≠ ' ' ∧ c ≠ '\n' := by
        intro c hc
        cases force <;> simp at hc
        · rcases hc with e | e <;> subst e <;> exact ⟨⟨by decide, by decide⟩, by decide, by decide⟩
        · subst hc; exact ⟨⟨by decide, by decide⟩, by decide, by decide⟩
      have e1 : render (.sub force ns) = ('>' :: (if force then [] else ['^'])) ++ '(' :: (joinNames ns ++ ')' :: []) := by
        simp [render]
      have e2 : renderT (.sub force ns) = ('>' :: (if force then [] else ['^'])) ++ '(' :: joinNames ns := by
        simp [renderT]
      have hall : ∀ c ∈ render (.sub force ns), c ≠ ' ' ∧ c ≠ '\n' := by
        intro c hc
        rw [e1] at hc
        simp only [List.mem_append, List.mem_cons, List.mem_nil_iff, or_false] at hc
        rcases hc with e | e | e | e
        · exact (hpre c (by simpa using e)).2
        · subst e; exact ⟨by decide, by decide⟩
        · exact (hnp c e).2
        · subst e; exact ⟨by decide, by decide⟩
      have hallT : ∀ c ∈ renderT (.sub force ns), c ∈ render (.sub force ns) := by
        intro c hc
        rw [e2] at hc; rw [e1]
        simp only [List.mem_append, List.mem_cons] at hc ⊢
        rcases hc with e | e | e
        · exact Or.inl e
        · exact Or.inr (Or.inl e)
        · exact Or.inr (Or.inr (Or.inl e))
      refine ⟨?_, ?_, ⟨1, ?_⟩, ?_, fun hm => (hall _ hm).2 rfl, fun _ => ⟨fun hm => (hall _ hm).1 rfl,
        fun hm => (hall _ (hallT _ hm)).1 rfl, '>', ((if force then [] else ['^']) ++ '(' :: (joinNames ns ++ [')'])),
          by simp [render], by decide, ((if force then [] else ['^']) ++ '(' :: joinNames ns), by simp [renderT]⟩, by simp [fdepth]⟩
      · rw [e1]; exact (plain_bal _ hpre).append (.grp _ _ (plain_bal _ hnp) .nil)
      · rw [e2]; exact .opn _ _ (plain_bal _ hpre) (.bal _ (plain_bal _ hnp))
      · rw [e1, e2]; simp
      · have hne := joinNames_ne_nil hn
        cases hl : (joinNames ns).getLast? with
        | none => simp at hl; exact absurd hl hne
        | some c =>
          refine ⟨c, ?_, (hnp c (List.mem_of_getLast? hl)).1⟩
          rw [e2]
          cases hj : joinNames ns with
          | nil => exact absurd hj hne
          | cons x xs =>
            rw [show (('>' :: (if force then [] else ['^'])) ++ '(' :: x :: xs) =
              (('>' :: (if force then [] else ['^'])) ++ ['(']) ++ x :: xs by simp, getLast?_append_cons, ← hj]
            exact hl
    | .func hset args, h => by
      simp only [renderOK, Bool.and_eq_true] at h
      obtain ⟨⟨hs, _⟩, ha⟩ := h
      have sa := shapeArgs Sy args ha
      have hsp := renderSet_chars hs
      have hsb : Bal (renderSet hset) := Bal.plain (fun c hc => (hsp c hc).1)
      obtain ⟨k, hk⟩ := sa.close
      refine ⟨?_, ?_, ⟨k + 1, ?_⟩, ?_, ?_, by simp [isFunc], ?_⟩
      · have hb := Bal.grp (renderSet hset ++ renderArgs args) [] (hsb.append sa.bal) .nil
        simp only [render]; exact hb
      · simp only [renderT]
        exact .opn [] _ .nil (OBal.append_bal hsb sa.obal)
      · simp only [render, renderT, hk, List.replicate_succ', List.cons_append, List.append_assoc]
      · simp only [renderT]
        by_cases hnil : args = []
        · subst hnil
          simp only [renderArgsT, List.append_nil]
          have hne := renderSet_ne_nil hs
          cases hl : (renderSet hset).getLast? with
          | none => simp at hl; exact absurd hl hne
          | some c =>
            refine ⟨c, ?_, (hsp c (List.mem_of_getLast? hl)).1⟩
            cases hr : renderSet hset with
            | nil => exact absurd hr hne
            | cons x xs =>
              rw [show ('(' :: (x :: xs)) = ['('] ++ x :: xs by rfl, getLast?_append_cons, ← hr]; exact hl
        · obtain ⟨c, hc, hn⟩ := sa.lastT hnil
          refine ⟨c, ?_, hn⟩
          cases hr : renderArgsT args with
          | nil => rw [hr] at hc; simp at hc
          | cons x xs =>
            rw [hr] at hc
            rw [show ('(' :: (renderSet hset ++ x :: xs)) = ('(' :: renderSet hset) ++ x :: xs by simp, getLast?_append_cons]
            exact hc
      · simp only [render, List.mem_cons, List.mem_append, List.mem_nil_iff, or_false, not_or]
        exact ⟨by decide, ⟨fun hm => (hsp _ hm).2.2 rfl, sa.nonl⟩, by decide⟩
      · simp only [fdepth, render, List.length_cons, List.length_append, List.length_nil]
        have := sa.depth; omega
  theorem shapeArgs (Sy : Syms) : ∀ args, renderOKs Sy args = true → ShapeArgs Sy args
    | [], _ => ⟨.nil, .bal _ .nil, ⟨0, rfl⟩, fun h => absurd rfl h, by simp [renderArgs], by simp [fdepths]⟩
    | [a], h => by
      simp only [renderOKs, Bool.and_eq_true, and_true] at h
      have s := shape Sy a h
      obtain ⟨k, hk⟩ := s.close
      obtain ⟨c, hc, hn⟩ := s.lastT
      refine ⟨?_, ?_, ⟨k, ?_⟩, fun _ => ⟨c, ?_, hn⟩, ?_, ?_⟩
      · simp only [renderArgs, List.append_nil]; exact .chr ' ' _ (by decide) (by decide) s.bal
      · simp only [renderArgsT]
        exact OBal.append_bal (a := [' ']) (.chr ' ' _ (by decide) (by decide) .nil) s.obal
      · simp [renderArgs, renderArgsT, hk]
      · simp only [renderArgsT]
        cases hr : renderT a with
        | nil => rw [hr] at hc; simp at hc
        | cons x xs =>
          rw [hr] at hc
          rw [show (' ' :: (x :: xs)) = [' '] ++ x :: xs by rfl, getLast?_append_cons]; exact hc
      · simp only [renderArgs, List.append_nil, List.mem_cons, not_or]
        exact ⟨by decide, s.nonl⟩
      · simp only [fdepths, renderArgs, List.append_nil, List.length_cons]
        have := s.depth; omega
    | a :: b :: as, h => by
      simp only [renderOKs, Bool.and_eq_true] at h
      obtain ⟨ha, hb⟩ := h
      have s := shape Sy a ha
      have sr := shapeArgs Sy (b :: as) (by simp only [renderOKs, Bool.and_eq_true]; exact hb)
      obtain ⟨k, hk⟩ := sr.close
      obtain ⟨c, hc, hn⟩ := sr.lastT (by simp)
      have hsb : Bal (' ' :: render a) := .chr ' ' _ (by decide) (by decide) s.bal
      refine ⟨?_, ?_, ⟨k, ?_⟩, fun _ => ⟨c, ?_, hn⟩, ?_, ?_⟩
      · rw [renderArgs]; exact hsb.append sr.bal
      · rw [renderArgsT]; exact OBal.append_bal hsb sr.obal
      · rw [renderArgs, renderArgsT, hk]; simp
      · rw [renderArgsT]
        cases hr : renderArgsT (b :: as) with
        | nil => rw [hr] at hc; simp at hc
        | cons x xs =>
          rw [hr] at hc
          rw [show (' ' :: (render a ++ x :: xs)) = (' ' :: render a) ++ x :: xs by simp, getLast?_append_cons]
          exact hc
      · rw [renderArgs]
        simp only [List.mem_cons, List.mem_append, not_or]
        exact ⟨by decide, s.nonl, sr.nonl⟩
      · rw [renderArgs, fdepths]
        simp only [List.length_cons, List.length_append]
        have := s.depth; have := sr.depth; omega
end

end PS.C05
