/-
  C05, part 1: what the tables written by `__count__` and `__tag__` contain.
  `ext q v` puts the component `v` on top of the state `q`; `drop1` removes the newest component.
  Read laws:  (count B …).read l ss = (B.read l (ss.map drop1)).map (ext · (counted value))
              (tag B check).read l ss = (B.read l (ss.map drop1)).map (ext · (check bit))
  for argument states `ss` whose newest component is a value the construction produces.
-/
import PS.Proofs.Dfta
import PS.Model.Constraints
set_option linter.unusedSectionVars false
namespace PS.C05
open PS DFTA

variable {σ Q : Type} [DecidableEq σ] [DecidableEq Q]

def ext (q : St Q) (v : Nat) : St Q := (q.1, v :: q.2)
def drop1 (s : St Q) : St Q := (s.1, s.2.tail)

@[simp] theorem drop1_ext (q : St Q) (v : Nat) : drop1 (ext q v) = q := rfl
@[simp] theorem drop1_aug (q : St Q) : drop1 (aug q) = q := rfl
@[simp] theorem lastVal_ext (q : St Q) (v : Nat) : lastVal (ext q v) = v := rfl
@[simp] theorem setLast_aug (q : St Q) (v : Nat) : setLast (aug q) v = ext q v := rfl
@[simp] theorem setLast_ext (q : St Q) (v w : Nat) : setLast (ext q v) w = ext q w := rfl
theorem aug_eq_ext (q : St Q) : aug q = ext q 0 := rfl
theorem tagState_aug (q : St Q) : tagState (aug q) = ext q 1 := rfl

theorem ext_inj {q q' : St Q} {v v' : Nat} (h : ext q v = ext q' v') : q = q' ∧ v = v' := by
  unfold ext at h
  obtain ⟨q1, q2⟩ := q
  obtain ⟨q1', q2'⟩ := q'
  simp only [Prod.mk.injEq, List.cons.injEq] at h
  obtain ⟨h1, h2, h3⟩ := h
  subst h1; subst h2; subst h3
  exact ⟨rfl, rfl⟩

theorem aug_inj {q q' : St Q} (h : aug q = aug q') : q = q' := (ext_inj h).1

theorem map_aug_inj {qs qs' : List (St Q)} (h : qs.map aug = qs'.map aug) : qs = qs' := by
  induction qs generalizing qs' with
  | nil => cases qs' <;> simp_all
  | cons q qs ih =>
    cases qs' with
    | nil => simp at h
    | cons q' qs' =>
      simp only [List.map_cons, List.cons.injEq] at h
      rw [aug_inj h.1, ih h.2]

/-! ### lists -/

theorem mem_cartesian_iff {α : Type} (cs : List (List α)) (xs : List α) :
    xs ∈ cartesian cs ↔ List.Forall₂ (fun x c => x ∈ c) xs cs := by
  induction cs generalizing xs with
  | nil =>
    simp only [cartesian, List.mem_singleton]
    constructor
    · intro h; subst h; exact .nil
    · intro h; cases h; rfl
  | cons c cs ih =>
    simp only [cartesian, List.mem_flatMap, List.mem_map]
    constructor
    · rintro ⟨x, hx, r, hr, e⟩
      subst e
      exact .cons hx ((ih r).mp hr)
    · intro h
      cases h with
      | cons h1 h2 => exact ⟨_, h1, _, (ih _).mpr h2, rfl⟩

theorem forall₂_map_right {α β γ : Type} (R : α → γ → Prop) (f : β → γ) (xs : List α) (ys : List β) :
    List.Forall₂ R xs (ys.map f) ↔ List.Forall₂ (fun x y => R x (f y)) xs ys := by
  induction ys generalizing xs with
  | nil =>
    constructor
    · intro h; cases h; exact .nil
    · intro h; cases h; exact .nil
  | cons y ys ih =>
    constructor
    · intro h
      cases h with
      | cons h1 h2 => exact .cons h1 ((ih _).mp h2)
    · intro h
      cases h with
      | cons h1 h2 => exact .cons h1 ((ih _).mpr h2)

/-- the value a dict ends with for key `k` when every write to `k` writes `v` -/
theorem lookup_insertMany_eq {κ ν : Type} [DecidableEq κ] (d : AList κ ν) (xs : List (κ × ν)) (k : κ) (v : ν)
    (hf : ∀ x ∈ xs, x.1 = k → x.2 = v) (h : AList.lookup k d = some v ∨ ∃ x ∈ xs, x.1 = k) :
    AList.lookup k (AList.insertMany d xs) = some v := by
  by_cases hex : ∃ x ∈ xs, x.1 = k
  · exact AList.lookup_insertMany_of_mem d xs k v hex hf
  · rw [AList.lookup_insertMany_of_not_mem d xs k (fun x hx e => hex ⟨x, hx, e⟩)]
    rcases h with h | h
    · exact h
    · exact absurd h hex

theorem lookup_insertMany_none {κ ν : Type} [DecidableEq κ] (d : AList κ ν) (xs : List (κ × ν)) (k : κ)
    (hf : ∀ x ∈ xs, x.1 ≠ k) (h : AList.lookup k d = none) :
    AList.lookup k (AList.insertMany d xs) = none := by
  rw [AList.lookup_insertMany_of_not_mem d xs k hf, h]

/-! ### `augment` -/

theorem augment_det (B : DFTA σ (St Q)) : (augment B).Det := AList.keys_nodup_ofList _

theorem mem_augment_rules (B : DFTA σ (St Q)) (hd : B.Det) (l : σ) (as : List (St Q)) (d : St Q) :
    ((l, as), d) ∈ (augment B).rules ↔ ∃ qs d0, ((l, qs), d0) ∈ B.rules ∧ as = qs.map aug ∧ d = aug d0 := by
  constructor
  · intro h
    have h1 := (read_eq_some_iff (augment B) (augment_det B) l as d).mpr h
    have h2 := AList.lookup_ofList_some h1
    obtain ⟨⟨⟨l', qs⟩, d0⟩, hr, he⟩ := List.mem_map.mp h2
    simp only [Prod.mk.injEq] at he
    obtain ⟨⟨e1, e2⟩, e3⟩ := he
    subst e1
    exact ⟨qs, d0, hr, e2.symm, e3.symm⟩
  · rintro ⟨qs, d0, hr, e1, e2⟩
    subst e1; subst e2
    have := read_mapStates aug B hd (fun x _ y _ e => aug_inj e) l qs (mem_allStates_of_rule B hr).2
    rw [(read_eq_some_iff B hd l qs d0).mpr hr] at this
    exact (read_eq_some_iff (augment B) (augment_det B) _ _ _).mp this

theorem read_augment (B : DFTA σ (St Q)) (hd : B.Det) (l : σ) (qs : List (St Q)) :
    (augment B).read l (qs.map aug) = (B.read l qs).map aug := by
  cases h : B.read l qs with
  | some d =>
    exact (read_eq_some_iff _ (augment_det B) _ _ _).mpr
      ((mem_augment_rules B hd l _ _).mpr ⟨qs, d, (read_eq_some_iff B hd l qs d).mp h, rfl, rfl⟩)
  | none =>
    cases h2 : (augment B).read l (qs.map aug) with
    | none => rfl
    | some d =>
      obtain ⟨qs', d0, hr, e1, _⟩ := (mem_augment_rules B hd l _ _).mp ((read_eq_some_iff _ (augment_det B) _ _ _).mp h2)
      rw [map_aug_inj e1, (read_eq_some_iff B hd l qs' d0).mpr hr] at h
      cases h

/-! ### `__count__` -/
section count
variable (B : DFTA σ (St Q)) (n : Nat) (S : List σ) (most : Bool)

def cmaxi (n : Nat) (most : Bool) : Nat := n + (if most then 1 else 0)

/-- argument states the counting automaton produces -/
def CountOK (maxi : Nat) (s : St Q) : Prop := ∃ q v, s = ext q v ∧ v ≤ maxi

def countVal (maxi : Nat) (S : List σ) (l : σ) (ss : List (St Q)) : Nat :=
  min ((ss.map lastVal).sum + (if l ∈ S then 1 else 0)) maxi

theorem mem_alternatives (maxi : Nat) (q : St Q) (s : St Q) :
    s ∈ alternatives maxi (aug q) ↔ ∃ v, v ≤ maxi ∧ s = ext q v := by
  unfold alternatives
  simp only [List.mem_map, List.mem_range, setLast_aug]
  constructor
  · rintro ⟨v, hv, e⟩; exact ⟨v, by omega, e.symm⟩
  · rintro ⟨v, hv, e⟩; exact ⟨v, by omega, e.symm⟩

/-- `ss` is an alternative of the augmented arguments `qs.map aug` iff it is `qs` with counters -/
theorem forall₂_alternatives (maxi : Nat) (ss qs : List (St Q)) :
    List.Forall₂ (fun x c => x ∈ c) ss ((qs.map aug).map (alternatives maxi)) ↔
      (ss.map drop1 = qs ∧ ∀ s ∈ ss, CountOK (Q := Q) maxi s) := by
  induction ss generalizing qs with
  | nil =>
    constructor
    · intro h
      cases qs with
      | nil => exact ⟨rfl, by simp⟩
      | cons _ _ => cases h
    · rintro ⟨h, _⟩; cases qs with
      | nil => exact .nil
      | cons _ _ => simp at h
  | cons s ss ih =>
    constructor
    · intro h
      cases qs with
      | nil => cases h
      | cons q qs =>
        cases h with
        | cons h1 h2 =>
          obtain ⟨v, hv, e⟩ := (mem_alternatives maxi _ s).mp h1
          obtain ⟨i1, i2⟩ := (ih _).mp h2
          subst e
          refine ⟨by simp [i1], ?_⟩
          intro x hx
          rcases List.mem_cons.mp hx with e | e
          · subst e; exact ⟨_, v, rfl, hv⟩
          · exact i2 x e
    · rintro ⟨h1, h2⟩
      cases qs with
      | nil => simp at h1
      | cons q qs =>
        simp only [List.map_cons, List.cons.injEq] at h1
        obtain ⟨q', v, e, hv⟩ := h2 s List.mem_cons_self
        subst e
        simp only [drop1_ext] at h1
        obtain ⟨e1, e2⟩ := h1
        subst e1
        exact .cons ((mem_alternatives maxi _ _).mpr ⟨v, hv, rfl⟩)
          ((ih _).mpr ⟨e2, fun x hx => h2 x (List.mem_cons_of_mem _ hx)⟩)

theorem mem_countRules (hd : B.Det) (maxi : Nat) (l : σ) (ss : List (St Q)) (v : St Q) :
    ((l, ss), v) ∈ countRules (augment B) maxi S ↔
      ∃ d0, ((l, ss.map drop1), d0) ∈ B.rules ∧ (∀ s ∈ ss, CountOK (Q := Q) maxi s) ∧
        v = ext d0 (countVal maxi S l ss) := by
  unfold countRules
  simp only [List.mem_flatMap, List.mem_map, Prod.mk.injEq]
  constructor
  · rintro ⟨⟨⟨l', as⟩, d⟩, hr, na, hna, ⟨e1, e2⟩, e3⟩
    simp only at e1 e2 e3 hna
    subst e1; subst e2
    obtain ⟨qs, d0, hr0, ea, ed⟩ := (mem_augment_rules B hd l' as d).mp hr
    subst ea; subst ed
    rw [mem_cartesian_iff, forall₂_alternatives] at hna
    obtain ⟨h1, h2⟩ := hna
    subst h1
    exact ⟨d0, hr0, h2, by rw [← e3]; rfl⟩
  · rintro ⟨d0, hr0, hok, e⟩
    refine ⟨((l, (ss.map drop1).map aug), aug d0), (mem_augment_rules B hd _ _ _).mpr ⟨_, d0, hr0, rfl, rfl⟩, ss, ?_, ⟨rfl, rfl⟩, ?_⟩
    · rw [mem_cartesian_iff, forall₂_alternatives]; exact ⟨rfl, hok⟩
    · rw [e]; rfl

theorem count_det : (count B n S most).Det :=
  AList.keys_nodup_insertMany _ _ (augment_det B)

/-- **read law of `__count__`** -/
theorem read_count (hd : B.Det) (l : σ) (ss : List (St Q)) (hok : ∀ s ∈ ss, CountOK (Q := Q) (cmaxi n most) s) :
    (count B n S most).read l ss =
      (B.read l (ss.map drop1)).map (fun d => ext d (countVal (cmaxi n most) S l ss)) := by
  show AList.lookup (l, ss) (AList.insertMany (augment B).rules (countRules (augment B) (cmaxi n most) S)) = _
  cases h : B.read l (ss.map drop1) with
  | some d0 =>
    have hr0 := (read_eq_some_iff B hd _ _ _).mp h
    apply lookup_insertMany_eq
    · rintro ⟨⟨l', ss'⟩, v⟩ hx hk
      simp only [Prod.mk.injEq] at hk
      obtain ⟨e1, e2⟩ := hk
      subst e1; subst e2
      obtain ⟨d0', hr0', _, e⟩ := (mem_countRules B S hd _ _ _ _).mp hx
      have := (read_eq_some_iff B hd _ _ _).mpr hr0'
      rw [h] at this
      cases this
      exact e
    · right
      exact ⟨((l, ss), _), (mem_countRules B S hd _ _ _ _).mpr ⟨d0, hr0, hok, rfl⟩, rfl⟩
  | none =>
    apply lookup_insertMany_none
    · rintro ⟨⟨l', ss'⟩, v⟩ hx hk
      simp only [Prod.mk.injEq] at hk
      obtain ⟨e1, e2⟩ := hk
      subst e1; subst e2
      obtain ⟨d0', hr0', _, _⟩ := (mem_countRules B S hd _ _ _ _).mp hx
      have := (read_eq_some_iff B hd _ _ _).mpr hr0'
      rw [h] at this
      cases this
    · cases h2 : AList.lookup (l, ss) (augment B).rules with
      | none => rfl
      | some d =>
        obtain ⟨qs, d0, hr, e1, _⟩ := (mem_augment_rules B hd l ss d).mp ((read_eq_some_iff _ (augment_det B) _ _ _).mp h2)
        subst e1
        have : (qs.map aug).map drop1 = qs := by simp [Function.comp_def]
        rw [this, (read_eq_some_iff B hd _ _ _).mpr hr] at h
        cases h

theorem countVal_ok (l : σ) (ss : List (St Q)) (d : St Q) :
    CountOK (Q := Q) (cmaxi n most) (ext d (countVal (cmaxi n most) S l ss)) :=
  ⟨d, _, rfl, Nat.min_le_right _ _⟩

end count

/-! ### `__tag__` -/
section tag
variable (check : Check σ Q)

def bit (c : Bool) : Nat := if c then 1 else 0

abbrev Tbl (σ Q : Type) := AList (σ × List (St Q)) (St Q)

def tagStep (check : Check σ Q) (acc : Tbl σ Q × List (St Q)) (r : (σ × List (St Q)) × St Q) : Tbl σ Q × List (St Q) :=
  if check r.1.1 r.1.2 r.2 then (AList.insert r.1 (tagState r.2) acc.1, addNew acc.2 r.2) else acc

theorem tagStep_pos (acc : Tbl σ Q × List (St Q)) (r : (σ × List (St Q)) × St Q)
    (hc : check r.1.1 r.1.2 r.2 = true) :
    tagStep check acc r = (AList.insert r.1 (tagState r.2) acc.1, addNew acc.2 r.2) := by
  unfold tagStep; simp [hc]

theorem tagStep_neg (acc : Tbl σ Q × List (St Q)) (r : (σ × List (St Q)) × St Q)
    (hc : ¬ check r.1.1 r.1.2 r.2 = true) : tagStep check acc r = acc := by
  unfold tagStep; simp [hc]

theorem tagLoop1_eq (A : DFTA σ (St Q)) : tagLoop1 check A = A.rules.foldl (tagStep check) (A.rules, []) := rfl

theorem tagFold_lookup_other (xs : List ((σ × List (St Q)) × St Q)) (init : Tbl σ Q) (ad : List (St Q))
    (k : σ × List (St Q)) (h : ∀ y ∈ xs, y.1 = k → check y.1.1 y.1.2 y.2 = false) :
    AList.lookup k (xs.foldl (tagStep check) (init, ad)).1 = AList.lookup k init := by
  induction xs generalizing init ad with
  | nil => rfl
  | cons x xs ih =>
    simp only [List.foldl_cons]
    by_cases hc : check x.1.1 x.1.2 x.2 = true
    · rw [tagStep_pos check _ _ hc]
      rw [ih _ _ (fun y hy => h y (List.mem_cons_of_mem _ hy))]
      have : k ≠ x.1 := by
        intro e
        have := h x List.mem_cons_self e.symm
        rw [hc] at this; cases this
      exact AList.lookup_insert_ne _ _ this
    · rw [tagStep_neg check _ _ hc]
      exact ih _ _ (fun y hy => h y (List.mem_cons_of_mem _ hy))

theorem tagFold_lookup_hit (xs : List ((σ × List (St Q)) × St Q)) (init : Tbl σ Q) (ad : List (St Q))
    (hn : (xs.map (·.1)).Nodup) (x : (σ × List (St Q)) × St Q) (hx : x ∈ xs)
    (hc : check x.1.1 x.1.2 x.2 = true) :
    AList.lookup x.1 (xs.foldl (tagStep check) (init, ad)).1 = some (tagState x.2) := by
  induction xs generalizing init ad with
  | nil => cases hx
  | cons y ys ih =>
    simp only [List.map_cons, List.nodup_cons] at hn
    simp only [List.foldl_cons]
    rcases List.mem_cons.mp hx with e | e
    · subst e
      rw [tagStep_pos check _ _ hc, tagFold_lookup_other check ys _ _ x.1]
      · exact AList.lookup_insert_self _ _ _
      · intro z hz ez
        exact absurd (List.mem_map.mpr ⟨z, hz, ez⟩) hn.1
    · by_cases hy : check y.1.1 y.1.2 y.2 = true
      · rw [tagStep_pos check _ _ hy]; exact ih _ _ hn.2 e
      · rw [tagStep_neg check _ _ hy]; exact ih _ _ hn.2 e

theorem tagFold_added (xs : List ((σ × List (St Q)) × St Q)) (init : Tbl σ Q) (ad : List (St Q)) (q : St Q) :
    q ∈ (xs.foldl (tagStep check) (init, ad)).2 ↔
      q ∈ ad ∨ ∃ x ∈ xs, check x.1.1 x.1.2 x.2 = true ∧ x.2 = q := by
  induction xs generalizing init ad with
  | nil => simp
  | cons y ys ih =>
    simp only [List.foldl_cons]
    by_cases hc : check y.1.1 y.1.2 y.2 = true
    · rw [tagStep_pos check _ _ hc, ih, mem_addNew]
      constructor
      · rintro ((h | h) | ⟨x, hx, h1, h2⟩)
        · exact Or.inl h
        · exact Or.inr ⟨y, List.mem_cons_self, hc, h.symm⟩
        · exact Or.inr ⟨x, List.mem_cons_of_mem _ hx, h1, h2⟩
      · rintro (h | ⟨x, hx, h1, h2⟩)
        · exact Or.inl (Or.inl h)
        · rcases List.mem_cons.mp hx with e | e
          · subst e; exact Or.inl (Or.inr h2.symm)
          · exact Or.inr ⟨x, e, h1, h2⟩
    · rw [tagStep_neg check _ _ hc, ih]
      constructor
      · rintro (h | ⟨x, hx, h1, h2⟩)
        · exact Or.inl h
        · exact Or.inr ⟨x, List.mem_cons_of_mem _ hx, h1, h2⟩
      · rintro (h | ⟨x, hx, h1, h2⟩)
        · exact Or.inl h
        · rcases List.mem_cons.mp hx with e | e
          · subst e; exact absurd h1 hc
          · exact Or.inr ⟨x, e, h1, h2⟩

theorem tagFold_keys_nodup (xs : List ((σ × List (St Q)) × St Q)) (init : Tbl σ Q) (ad : List (St Q))
    (hn : (AList.keys init).Nodup) : (AList.keys (xs.foldl (tagStep check) (init, ad)).1).Nodup := by
  induction xs generalizing init ad with
  | nil => exact hn
  | cons y ys ih =>
    simp only [List.foldl_cons]
    by_cases hy : check y.1.1 y.1.2 y.2 = true
    · rw [tagStep_pos check _ _ hy]; exact ih _ _ (AList.keys_nodup_insert _ _ _ hn)
    · rw [tagStep_neg check _ _ hy]; exact ih _ _ hn

variable (B : DFTA σ (St Q))

/-- the table after the first loop of `__tag__` -/
theorem lookup_tagLoop1 (hd : B.Det) (k : σ × List (St Q)) :
    AList.lookup k (tagLoop1 check (augment B)).1 =
      (AList.lookup k (augment B).rules).map (fun d => if check k.1 k.2 d then tagState d else d) := by
  rw [tagLoop1_eq]
  have hda := augment_det B
  cases h : AList.lookup k (augment B).rules with
  | none =>
    rw [tagFold_lookup_other check _ _ _ k, h]; rfl
    intro y hy e
    have := AList.lookup_of_mem_nodup hda (show (y.1, y.2) ∈ (augment B).rules from hy)
    rw [e, h] at this; cases this
  | some d =>
    have hm := AList.lookup_some_mem h
    by_cases hc : check k.1 k.2 d = true
    · have := tagFold_lookup_hit check (augment B).rules (augment B).rules [] hda (k, d) hm hc
      simp only at this
      rw [this]; simp [hc]
    · rw [tagFold_lookup_other check _ _ _ k, h]
      · simp [hc]
      · intro y hy e
        have := AList.lookup_of_mem_nodup hda (show (y.1, y.2) ∈ (augment B).rules from hy)
        rw [e, h] at this
        simp only [Option.some.injEq] at this
        rw [e, ← this]
        simpa using hc

theorem mem_tagAdded (q : St Q) :
    q ∈ (tagLoop1 check (augment B)).2 ↔
      ∃ x ∈ (augment B).rules, check x.1.1 x.1.2 x.2 = true ∧ x.2 = q := by
  rw [tagLoop1_eq, tagFold_added]; simp

theorem tagLoop1_det : (AList.keys (tagLoop1 check (augment B)).1).Nodup := by
  rw [tagLoop1_eq]; exact tagFold_keys_nodup check _ _ _ (augment_det B)

theorem tag_det : (tag B check).Det :=
  AList.keys_nodup_insertMany _ _ (tagLoop1_det check B)

/-- argument states the tagging automaton produces -/
def TagOK (s : St Q) : Prop :=
  ∃ q v, s = ext q v ∧ (v = 0 ∨ (v = 1 ∧ aug q ∈ (tagLoop1 check (augment B)).2))

def tagBitOf (l : σ) (qs : List (St Q)) (d : St Q) : Nat := bit (check l (qs.map aug) (aug d))

theorem forall₂_tagAlternatives (added : List (St Q)) (ss qs : List (St Q)) :
    List.Forall₂ (fun x c => x ∈ c) ss ((qs.map aug).map (fun a => if a ∈ added then [a, tagState a] else [a])) ↔
      (ss.map drop1 = qs ∧ ∀ s ∈ ss, ∃ q v, s = ext q v ∧ (v = 0 ∨ (v = 1 ∧ aug q ∈ added))) := by
  have one : ∀ (q s : St Q), s ∈ (if aug q ∈ added then [aug q, tagState (aug q)] else [aug q]) ↔
      (s = ext q 0 ∨ (s = ext q 1 ∧ aug q ∈ added)) := by
    intro q s
    by_cases h : aug q ∈ added
    · rw [if_pos h]
      constructor
      · intro hs
        rcases List.mem_cons.mp hs with e | e
        · exact Or.inl e
        · rcases List.mem_cons.mp e with e' | e'
          · exact Or.inr ⟨e', h⟩
          · cases e'
      · rintro (e | ⟨e, _⟩)
        · subst e; exact List.mem_cons_self
        · subst e; exact List.mem_cons_of_mem _ List.mem_cons_self
    · rw [if_neg h]
      constructor
      · intro hs; exact Or.inl (List.mem_singleton.mp hs)
      · rintro (e | ⟨_, ha⟩)
        · subst e; exact List.mem_singleton.mpr rfl
        · exact absurd ha h
  induction ss generalizing qs with
  | nil =>
    constructor
    · intro h
      cases qs with
      | nil => exact ⟨rfl, by simp⟩
      | cons _ _ => cases h
    · rintro ⟨h, _⟩; cases qs with
      | nil => exact .nil
      | cons _ _ => simp at h
  | cons s ss ih =>
    constructor
    · intro h
      cases qs with
      | nil => cases h
      | cons q qs =>
        cases h with
        | cons h1 h2 =>
          obtain ⟨i1, i2⟩ := (ih _).mp h2
          have h1' := (one q s).mp h1
          refine ⟨?_, ?_⟩
          · rcases h1' with e | ⟨e, _⟩ <;> subst e <;> simp [i1]
          · intro x hx
            rcases List.mem_cons.mp hx with e | e
            · subst e
              rcases h1' with e | ⟨e, ha⟩
              · exact ⟨q, 0, e, Or.inl rfl⟩
              · exact ⟨q, 1, e, Or.inr ⟨rfl, ha⟩⟩
            · exact i2 x e
    · rintro ⟨h1, h2⟩
      cases qs with
      | nil => simp at h1
      | cons q qs =>
        simp only [List.map_cons, List.cons.injEq] at h1
        obtain ⟨q', v, e, hv⟩ := h2 s List.mem_cons_self
        subst e
        simp only [drop1_ext] at h1
        obtain ⟨e1, e2⟩ := h1
        subst e1
        refine .cons ((one _ _).mpr ?_) ((ih _).mpr ⟨e2, fun x hx => h2 x (List.mem_cons_of_mem _ hx)⟩)
        rcases hv with e | ⟨e, ha⟩
        · subst e; exact Or.inl rfl
        · subst e; exact Or.inr ⟨rfl, ha⟩

theorem all_aug_of_not_any (added : List (St Q)) (ss : List (St Q))
    (hok : ∀ s ∈ ss, ∃ q v, s = ext q v ∧ (v = 0 ∨ (v = 1 ∧ aug q ∈ added)))
    (hno : ¬ (((ss.map drop1).map aug).any (fun a => decide (a ∈ added)) = true)) :
    ss = (ss.map drop1).map aug := by
  induction ss with
  | nil => rfl
  | cons s ss ih =>
    simp only [List.map_cons, List.any_cons, Bool.or_eq_true, not_or] at hno ⊢
    obtain ⟨q, v, e, hv⟩ := hok s List.mem_cons_self
    subst e
    simp only [drop1_ext] at hno ⊢
    rcases hv with e | ⟨e, ha⟩
    · subst e
      rw [← ih (fun x hx => hok x (List.mem_cons_of_mem _ hx)) hno.2]; rfl
    · exact absurd (decide_eq_true ha) hno.1

/-- entries of `rules1`: the augmented rules of `B`, retargeted when `check` holds -/
theorem mem_tagLoop1 (hd : B.Det) (l : σ) (as : List (St Q)) (d1 : St Q)
    (h : ((l, as), d1) ∈ (tagLoop1 check (augment B)).1) :
    ∃ qs d0, B.read l qs = some d0 ∧ as = qs.map aug ∧ d1 = ext d0 (tagBitOf check l qs d0) := by
  have h1 := AList.lookup_of_mem_nodup (tagLoop1_det check B) h
  rw [lookup_tagLoop1 check B hd] at h1
  cases h2 : AList.lookup (l, as) (augment B).rules with
  | none => rw [h2] at h1; cases h1
  | some d =>
    rw [h2] at h1
    simp only [Option.map_some, Option.some.injEq] at h1
    obtain ⟨qs, d0, hr, e1, e2⟩ := (mem_augment_rules B hd l as d).mp (AList.lookup_some_mem h2)
    subst e1; subst e2
    refine ⟨qs, d0, (read_eq_some_iff B hd _ _ _).mpr hr, rfl, ?_⟩
    rw [← h1]
    unfold tagBitOf bit
    by_cases hc : check l (qs.map aug) (aug d0) = true
    · simp only [hc, ↓reduceIte]; rfl
    · have hc' : check l (qs.map aug) (aug d0) = false := by simpa using hc
      simp only [hc', Bool.false_eq_true, ↓reduceIte]; rfl

theorem lookup_tagLoop1_aug (hd : B.Det) (l : σ) (qs : List (St Q)) :
    AList.lookup (l, qs.map aug) (tagLoop1 check (augment B)).1 =
      (B.read l qs).map (fun d0 => ext d0 (tagBitOf check l qs d0)) := by
  rw [lookup_tagLoop1 check B hd]
  have := read_augment B hd l qs
  unfold DFTA.read at this ⊢
  rw [this]
  cases h : AList.lookup (l, qs) B.rules with
  | none => rfl
  | some d0 =>
    simp only [Option.map_some, Option.some.injEq]
    unfold tagBitOf bit
    by_cases hc : check l (qs.map aug) (aug d0) = true
    · simp only [hc, ↓reduceIte]; rfl
    · have hc' : check l (qs.map aug) (aug d0) = false := by simpa using hc
      simp only [hc', Bool.false_eq_true, ↓reduceIte]; rfl

theorem mem_tagRules2 (hd : B.Det) (l : σ) (ss : List (St Q)) (v : St Q)
    (h : ((l, ss), v) ∈ tagRules2 (tagLoop1 check (augment B)).1 (tagLoop1 check (augment B)).2) :
    ∃ d0, B.read l (ss.map drop1) = some d0 ∧ v = ext d0 (tagBitOf check l (ss.map drop1) d0) := by
  unfold tagRules2 at h
  simp only [List.mem_flatMap] at h
  obtain ⟨⟨⟨l', as⟩, d1⟩, hr, hx⟩ := h
  split at hx
  · simp only [List.mem_map, Prod.mk.injEq] at hx
    obtain ⟨na, hna, ⟨e1, e2⟩, e3⟩ := hx
    subst e1; subst e2; subst e3
    obtain ⟨qs, d0, hb, ea, ed⟩ := mem_tagLoop1 check B hd l' as d1 hr
    subst ea
    rw [mem_cartesian_iff, forall₂_tagAlternatives] at hna
    rw [hna.1]
    exact ⟨d0, hb, ed⟩
  · cases hx

/-- **read law of `__tag__`** -/
theorem read_tag (hd : B.Det) (l : σ) (ss : List (St Q)) (hok : ∀ s ∈ ss, TagOK check B s) :
    (tag B check).read l ss =
      (B.read l (ss.map drop1)).map (fun d => ext d (tagBitOf check l (ss.map drop1) d)) := by
  show AList.lookup (l, ss) (AList.insertMany (tagLoop1 check (augment B)).1
    (tagRules2 (tagLoop1 check (augment B)).1 (tagLoop1 check (augment B)).2)) = _
  cases h : B.read l (ss.map drop1) with
  | some d0 =>
    apply lookup_insertMany_eq
    · rintro ⟨⟨l', ss'⟩, v⟩ hx hk
      simp only [Prod.mk.injEq] at hk
      obtain ⟨e1, e2⟩ := hk
      subst e1; subst e2
      obtain ⟨d0', h1, e⟩ := mem_tagRules2 check B hd _ _ _ hx
      rw [h] at h1
      simp only [Option.some.injEq] at h1
      subst h1
      exact e
    · by_cases hall : ss = (ss.map drop1).map aug
      · left
        rw [hall, lookup_tagLoop1_aug check B hd]
        simp only [List.map_map, Function.comp_def, drop1_aug, List.map_id']
        rw [← hall] at *
        rw [h]; rfl
      · right
        have h1 := lookup_tagLoop1_aug check B hd l (ss.map drop1)
        rw [h] at h1
        have hm := AList.lookup_some_mem h1
        refine ⟨((l, ss), ext d0 (tagBitOf check l (ss.map drop1) d0)), ?_, rfl⟩
        unfold tagRules2
        simp only [List.mem_flatMap]
        refine ⟨_, hm, ?_⟩
        have hany : ((ss.map drop1).map aug).any (fun a => decide (a ∈ (tagLoop1 check (augment B)).2)) = true := by
          apply Classical.byContradiction
          intro hno
          exact hall (all_aug_of_not_any _ ss hok hno)
        simp only [hany, if_true, List.mem_map]
        refine ⟨ss, ?_, rfl⟩
        rw [mem_cartesian_iff, forall₂_tagAlternatives]
        exact ⟨rfl, hok⟩
  | none =>
    apply lookup_insertMany_none
    · rintro ⟨⟨l', ss'⟩, v⟩ hx hk
      simp only [Prod.mk.injEq] at hk
      obtain ⟨e1, e2⟩ := hk
      subst e1; subst e2
      obtain ⟨d0', h1, _⟩ := mem_tagRules2 check B hd _ _ _ hx
      rw [h] at h1; cases h1
    · cases h2 : AList.lookup (l, ss) (tagLoop1 check (augment B)).1 with
      | none => rfl
      | some d1 =>
        obtain ⟨qs, d0, hb, ea, _⟩ := mem_tagLoop1 check B hd l ss d1 (AList.lookup_some_mem h2)
        subst ea
        simp only [List.map_map, Function.comp_def, drop1_aug, List.map_id'] at h
        rw [h] at hb; cases hb

theorem tagBit_ok (hd : B.Det) (l : σ) (qs : List (St Q)) (d : St Q) (h : B.read l qs = some d) :
    TagOK check B (ext d (tagBitOf check l qs d)) := by
  refine ⟨d, _, rfl, ?_⟩
  unfold tagBitOf bit
  by_cases hc : check l (qs.map aug) (aug d) = true
  · right
    simp only [hc, if_true, true_and]
    rw [mem_tagAdded]
    refine ⟨((l, qs.map aug), aug d), ?_, hc, rfl⟩
    exact (mem_augment_rules B hd _ _ _).mpr ⟨qs, d, (read_eq_some_iff B hd _ _ _).mp h, rfl, rfl⟩
  · left; simp [hc]

end tag

end PS.C05
