/-
  C13, part 8c: the enumeration `langT` is sound and without repetition; `programs()` of a
  clean table is the size of the language.
-/
import PS.Proofs.TtcfgCountB
namespace PS.T
open PS PS.G

variable {S T : Type} [DecidableEq S] [DecidableEq T]

/-- rows are dicts -/
def RowsNodupT (G : TT S T) : Prop := ∀ e ∈ G.rules, (AList.keys e.2).Nodup

/-! ### soundness of the enumeration -/

theorem relList_run (G : TT S T) (k : Nat)
    (ih : ∀ (t : Prog) (w : T) (slot : Ty × S) (v : T), (t, w) ∈ langT G k slot v → run G.rule? t slot v = some w) :
    ∀ (args : List (Ty × S)) (kids : List Prog) (v w : T), relList (langT G k) kids args v w →
      runList G.rule? kids args v = some w
  | [], [], v, w, h => by simp only [relList] at h; subst h; simp [runList]
  | [], _ :: _, _, _, h => by simp [relList] at h
  | _ :: _, [], _, _, h => by simp [relList] at h
  | a :: as, k0 :: ks, v, w, h => by
    obtain ⟨v1, h1, h2⟩ := h
    rw [runList, ih k0 v1 a v h1]
    exact relList_run G k ih as ks v1 w h2

theorem langT_sound (G : TT S T) (hr : RowsNodupT G) : ∀ (k : Nat) (t : Prog) (w : T) (slot : Ty × S) (v : T),
    (t, w) ∈ langT G k slot v → run G.rule? t slot v = some w
  | 0, _, _, _, _, h => by simp [langT] at h
  | k + 1, t, w, slot, v, h => by
    simp only [langT] at h
    cases hrow : AList.lookup (slot.1, (slot.2, v)) G.rules with
    | none => simp [hrow] at h
    | some row =>
      simp only [hrow, List.mem_flatMap, List.mem_map, Prod.mk.injEq] at h
      obtain ⟨r, hrm, kw, hkw, h1, h2⟩ := h
      subst h1 h2
      rw [run]
      have hl : G.rule? (slot.1, (slot.2, v)) r.1 = some r.2 := by
        unfold TT.rule?
        rw [hrow]
        exact AList.lookup_of_mem_nodup (hr _ (AList.lookup_some_mem hrow)) hrm
      rw [hl]
      exact relList_run G k (langT_sound G hr k) r.2.1 kw.1 r.2.2 kw.2 ((mem_seqsT _ _ _ _ _).mp hkw)

/-! ### no repetition -/

def Pd {α β : Type} (L : List (α × β)) : Prop := L.Pairwise (fun x y => x.1 ≠ y.1)

omit [DecidableEq S] [DecidableEq T] in
theorem seqs_pd (rec : Ty × S → T → List (Prog × T)) (hrec : ∀ a v, Pd (rec a v)) :
    ∀ (args : List (Ty × S)) (v : T), Pd (seqsT rec args v)
  | [], v => by simp [seqsT, Pd]
  | a :: as, v => by
    unfold Pd
    simp only [seqsT]
    rw [List.pairwise_flatMap]
    constructor
    · intro tw _
      rw [List.pairwise_map]
      exact (seqs_pd rec hrec as tw.2).imp (fun hne he => hne (List.cons.inj he).2)
    · refine (hrec a v).imp ?_
      intro tw tw' hne x hx y hy he
      simp only [List.mem_map] at hx hy
      obtain ⟨kw, _, rfl⟩ := hx
      obtain ⟨kw', _, rfl⟩ := hy
      exact hne (List.cons.inj he).1

theorem langT_pd (G : TT S T) (hr : RowsNodupT G) : ∀ (k : Nat) (slot : Ty × S) (v : T), Pd (langT G k slot v)
  | 0, _, _ => by simp [langT, Pd]
  | k + 1, slot, v => by
    unfold Pd
    simp only [langT]
    cases hrow : AList.lookup (slot.1, (slot.2, v)) G.rules with
    | none => simp
    | some row =>
      simp only
      rw [List.pairwise_flatMap]
      constructor
      · intro r _
        rw [List.pairwise_map]
        exact (seqs_pd (langT G k) (langT_pd G hr k) r.2.1 r.2.2).imp
          (fun hne he => hne (Tree.node.inj he).2)
      · have hnd := hr _ (AList.lookup_some_mem hrow)
        unfold AList.keys at hnd
        rw [List.nodup_iff_pairwise_ne, List.pairwise_map] at hnd
        refine hnd.imp ?_
        intro r r' hne x hx y hy he
        simp only [List.mem_map] at hx hy
        obtain ⟨kw, _, rfl⟩ := hx
        obtain ⟨kw', _, rfl⟩ := hy
        exact hne (Tree.node.inj he).1

omit [DecidableEq T] in
theorem total_eq_W (d : AList T Nat) : (d.map (·.2)).sum = W d (fun _ => 1) := by
  simp [W]

/-- **counting**: on a table accepted by `closedOK`, whenever `programs()` returns (fuel =
    recursion depth), the number is the size of the language: the programs of the grammar are
    listed once each by `langOf`, and there are `n` of them. -/
theorem programs_count (G : TT S T) (outs : AList (NT S T) (List T)) (rk : AList (NT S T) Nat)
    (h : closedOK G outs rk = true) (fuel n : Nat) (hp : programs G fuel = some n) :
    (langOf G fuel).Nodup ∧ n = (langOf G fuel).length ∧ ∀ t, t ∈ langOf G fuel ↔ inLang G t = true := by
  have C := closedCert_of_closedOK G outs rk h
  have hr : RowsNodupT G := fun e he => (C.rows e he).1
  unfold programs at hp
  cases hd : compute G fuel G.start with
  | none => simp [hd] at hp
  | some d =>
    simp only [hd, Option.map_some, Option.some.injEq] at hp
    obtain ⟨_, k2, k3⟩ := (compute_spec G outs rk C fuel).key G.start d hd C.start
    refine ⟨?_, ?_, ?_⟩
    · unfold langOf
      rw [List.nodup_iff_pairwise_ne, List.pairwise_map]
      exact langT_pd G hr fuel _ _
    · rw [← hp, total_eq_W, k2, SumL_one_length]
      simp [langOf]
    · intro t
      unfold langOf inLang
      simp only [List.mem_map]
      constructor
      · rintro ⟨tw, htw, rfl⟩
        have := langT_sound G hr fuel tw.1 tw.2 _ _ htw
        simp [this]
      · intro hin
        cases hrun : run G.rule? t (G.start.1, G.start.2.1) G.start.2.2 with
        | none => simp [hrun] at hin
        | some w => exact ⟨(t, w), k3 t w hrun, rfl⟩

end PS.T
