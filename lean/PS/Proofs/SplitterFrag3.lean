/- C08, fragment grammar, part 3: what the tables of a fragment look like (`Facts`, established
   in SplitterFrag4 for `pcfgFrom`) and what follows for its derivations: every derivation of the
   fragment is the renamed path of a node followed by a free copy of an original continuation
   (`decomp`), hence soundness, completeness and injectivity of the erasure. -/
import PS.Proofs.SplitterFrag2
namespace PS.Sp
open PS PS.G

variable {U : Type} [DecidableEq U]

/-- the copies chosen for one node of the group -/
structure Lay (U : Type) where
  n : Node U
  sp : UNT (U × Nat)
  lo : Nat
  hi : Nat
  steps' : List (Step (U × Nat))
  pend : List (UNT U × UNT (U × Nat))

/-- `X` is derived as in the original grammar: its rows are the copied rows of `er X` -/
def IsCopy (pg : PUG U) (R : AList (UNT (U × Nat)) (AList Sym (List (List (UNT (U × Nat))))))
    (T : AList (UNT (U × Nat)) (AList Sym (AList (List (UNT (U × Nat))) Rat))) (X : UNT (U × Nat)) : Prop :=
  AList.lookup X R = some (copyR pg (er X)) ∧ AList.lookup X T = some (copyP pg (er X))

/-- prefix-incomparable nodes -/
def PrefixFree (group : List (Node U)) : Prop :=
  group.Pairwise (fun a b => a.start = b.start → ¬ a.steps <+: b.steps ∧ ¬ b.steps <+: a.steps)

/-- the shape of the tables of a fragment -/
structure Facts (pg : PUG U) (group : List (Node U)) (F : UG (U × Nat))
    (T : AList (UNT (U × Nat)) (AList Sym (AList (List (UNT (U × Nat))) Rat))) (L : List (Lay U)) : Prop where
  lays : L.map (·.n) = group
  path : ∀ l ∈ L, renPath l.lo [(l.n.start, l.sp)] l.n.steps = some (l.hi, l.steps', l.pend)
  spEr : ∀ l ∈ L, er l.sp = l.n.start
  spSame : ∀ l1 ∈ L, ∀ l2 ∈ L, l1.n.start = l2.n.start → l1.sp = l2.sp
  starts : ∀ X, X ∈ F.starts ↔ ∃ l ∈ L, l.sp = X
  chain : ∀ l ∈ L, ∀ s ∈ l.steps'.tail, AList.lookup s.1 F.rules = some [(s.2.1, [s.2.2])]
  pendC : ∀ l ∈ L, ∀ e ∈ l.pend, IsCopy pg F.rules T e.2
  closed : ∀ X, (idx X = 0 ∨ ∃ l ∈ L, ∃ e ∈ l.pend, e.2 = X) → IsCopy pg F.rules T X →
    ∀ S' ∈ rhsSyms pg (er X), IsCopy pg F.rules T (free S')
  startRow : ∀ X, (∃ l ∈ L, l.sp = X) → (∀ l ∈ L, l.sp = X → l.n.steps ≠ []) →
    ∀ Q a, (Q, a) ∈ alts F X ↔ ∃ l ∈ L, l.sp = X ∧ l.steps'.head? = some (X, Q, a)

/-- `X` is a free copy or a copy pending at the end of a path, and is derived as in the original -/
def Cp (pg : PUG U) (F : UG (U × Nat)) (T : AList (UNT (U × Nat)) (AList Sym (AList (List (UNT (U × Nat))) Rat)))
    (L : List (Lay U)) (X : UNT (U × Nat)) : Prop :=
  IsCopy pg F.rules T X ∧ (idx X = 0 ∨ ∃ l ∈ L, ∃ e ∈ l.pend, e.2 = X)

/-! ### copies are derived as in the original grammar -/

theorem alts_copy {pg : PUG U} {F : UG (U × Nat)} {T} {X : UNT (U × Nat)} (h : IsCopy pg F.rules T X) :
    alts F X = (alts pg.g (er X)).map (fun pa => (pa.1, pa.2.map free)) := by
  simp only [alts, h.1, copyR]
  cases AList.lookup (er X) pg.g.rules with
  | none => rfl
  | some rs =>
    simp only [Option.getD_some]
    induction rs with
    | nil => rfl
    | cons r rs ih =>
      simp only [List.map_cons, List.flatMap_cons, List.map_append, List.map_map, ih]
      rfl

theorem mem_rhsSyms {pg : PUG U} {S : UNT U} {P : Sym} {a : List (UNT U)} (h : (P, a) ∈ alts pg.g S) :
    ∀ S' ∈ a, S' ∈ rhsSyms pg S := by
  intro S' hS'
  unfold alts at h
  unfold rhsSyms
  cases hl : AList.lookup S pg.g.rules with
  | none => rw [hl] at h; cases h
  | some rs =>
    rw [hl] at h
    simp only [List.mem_flatMap, List.mem_map, Prod.mk.injEq] at h
    obtain ⟨r, hr, a', ha', _, rfl⟩ := h
    simp only [Option.getD_some, List.mem_flatMap, id]
    exact ⟨r, hr, a', ha', hS'⟩

/-- the renaming of an original continuation from a stack of copies -/
def lift : List (UNT (U × Nat)) → List (Step U) → List (Step (U × Nat))
  | X :: c, (_, P, a) :: w => (X, P, a.map free) :: lift (a.map free ++ c) w
  | _, _ => []

section
variable {pg : PUG U} {group : List (Node U)} {F : UG (U × Nat)}
  {T : AList (UNT (U × Nat)) (AList Sym (AList (List (UNT (U × Nat))) Rat))} {L : List (Lay U)}

theorem copy_next (hf : Facts pg group F T L) {X : UNT (U × Nat)} {c : List (UNT (U × Nat))}
    (hc : ∀ Y ∈ X :: c, Cp pg F T L Y) {P : Sym} {a : List (UNT U)} (ha : (P, a) ∈ alts pg.g (er X)) :
    ∀ Y ∈ a.map free ++ c, Cp pg F T L Y := by
  intro Y hY
  rcases List.mem_append.mp hY with hY | hY
  · obtain ⟨S', hS', rfl⟩ := List.mem_map.mp hY
    exact ⟨hf.closed X (hc X (by simp)).2 (hc X (by simp)).1 S' (mem_rhsSyms ha S' hS'), Or.inl rfl⟩
  · exact hc Y (List.mem_cons_of_mem _ hY)

/-- an original continuation of the erased stack can be followed by the copies -/
theorem copy_complete (hf : Facts pg group F T L) : ∀ (w : List (Step U)) (c : List (UNT (U × Nat))),
    (∀ Y ∈ c, Cp pg F T L Y) → run pg.g (c.map er) w = some [] →
      run F c (lift c w) = some [] ∧ (lift c w).map erStep = w
  | [], c, _, h => by
    simp only [run, Option.some.injEq, List.map_eq_nil_iff] at h
    subst h
    exact ⟨rfl, rfl⟩
  | (S, P, a) :: w, [], _, h => by simp [run] at h
  | (S, P, a) :: w, X :: c, hc, h => by
    simp only [List.map_cons, run] at h
    split at h
    · rename_i hcond
      obtain ⟨hS, ha⟩ := hcond
      replace hS : S = er X := hS
      replace ha : (P, a) ∈ alts pg.g (er X) := ha
      subst hS
      have hnext := copy_next hf hc ha
      obtain ⟨ih1, ih2⟩ := copy_complete hf w (a.map free ++ c) hnext
        (by simp only [List.map_append, map_er_free]; exact h)
      have hmem : (P, a.map free) ∈ alts F X := by
        rw [alts_copy (hc X (by simp)).1]
        exact List.mem_map.mpr ⟨(P, a), ha, rfl⟩
      refine ⟨?_, ?_⟩
      · simp only [lift, run, hmem, and_self, if_true]
        exact ih1
      · simp only [lift, List.map_cons, ih2, erStep, map_er_free]
    · cases h

/-- a complete derivation from a stack of copies erases to an original continuation and is
    determined by it -/
theorem copy_sound (hf : Facts pg group F T L) : ∀ (w' : List (Step (U × Nat))) (c : List (UNT (U × Nat))),
    (∀ Y ∈ c, Cp pg F T L Y) → run F c w' = some [] →
      run pg.g (c.map er) (w'.map erStep) = some [] ∧ w' = lift c (w'.map erStep)
  | [], c, _, h => by
    simp only [run, Option.some.injEq] at h
    subst h
    exact ⟨rfl, rfl⟩
  | s :: w', [], _, h => by simp [run] at h
  | s :: w', X :: c, hc, h => by
    obtain ⟨Q, a', w'', heq, hQa, hrun⟩ := run_cons_complete F _ _ _ h
    simp only [List.cons.injEq] at heq
    obtain ⟨rfl, rfl⟩ := heq
    rw [alts_copy (hc X (by simp)).1] at hQa
    obtain ⟨⟨P, a⟩, ha, hpa⟩ := List.mem_map.mp hQa
    simp only [Prod.mk.injEq] at hpa
    obtain ⟨rfl, rfl⟩ := hpa
    obtain ⟨ih1, ih2⟩ := copy_sound hf w' (a.map free ++ c) (copy_next hf hc ha) hrun
    refine ⟨?_, ?_⟩
    · simp only [List.map_cons, erStep, map_er_free, run, ha, and_self, if_true]
      simp only [List.map_append, map_er_free] at ih1
      exact ih1
    · simp only [List.map_cons, erStep, map_er_free, lift]
      rw [← ih2]

/-! ### decomposition of the derivations of the fragment -/

omit [DecidableEq U] in
theorem pairwise_mem {α : Type} {R : α → α → Prop} (hs : ∀ a b, R a b → R b a) :
    ∀ {l : List α}, l.Pairwise R → ∀ {x y : α}, x ∈ l → y ∈ l → x = y ∨ R x y
  | [], _, _, _, hx, _ => by cases hx
  | a :: l, hp, x, y, hx, hy => by
    obtain ⟨h1, h2⟩ := List.pairwise_cons.mp hp
    rcases List.mem_cons.mp hx with hx' | hx'
    · rcases List.mem_cons.mp hy with hy' | hy'
      · left; rw [hx', hy']
      · right; subst hx'; exact h1 y hy'
    · rcases List.mem_cons.mp hy with hy' | hy'
      · right; subst hy'; exact hs _ _ (h1 x hx')
      · exact pairwise_mem hs h2 hx' hy'

/-- two nodes of a prefix-free group with comparable paths are the same entry -/
theorem lay_eq (hf : Facts pg group F T L) (hpf : PrefixFree group) {l1 l2 : Lay U} (h1 : l1 ∈ L) (h2 : l2 ∈ L)
    (hs : l1.n.start = l2.n.start) (hp : l1.n.steps <+: l2.n.steps) : l1 = l2 := by
  have hp' : L.Pairwise (fun a b => a.n.start = b.n.start → ¬ a.n.steps <+: b.n.steps ∧ ¬ b.n.steps <+: a.n.steps) := by
    have := hpf
    unfold PrefixFree at this
    rw [← hf.lays, List.pairwise_map] at this
    exact this
  rcases pairwise_mem (fun a b hab he => (hab he.symm).symm) hp' h1 h2 with h | h
  · exact h
  · exact absurd hp (h hs).1

theorem path_nil (hf : Facts pg group F T L) {l : Lay U} (hl : l ∈ L) (h : l.n.steps = []) :
    l.steps' = [] ∧ l.pend = [(l.n.start, l.sp)] := by
  have := hf.path l hl
  rw [h] at this
  simp only [renPath, Option.some.injEq, Prod.mk.injEq] at this
  exact ⟨this.2.1.symm, this.2.2.symm⟩

theorem pendOK_lay (hf : Facts pg group F T L) {l : Lay U} (hl : l ∈ L) :
    l.steps'.map erStep = l.n.steps ∧ PendOK l.pend := by
  have := renPath_er l.n.steps l.lo [(l.n.start, l.sp)] _
    (by intro e he; simp only [List.mem_singleton] at he; subst he; exact hf.spEr l hl) (hf.path l hl)
  exact this

omit [DecidableEq U] in
theorem names_er {p : List (UNT U × UNT (U × Nat))} (h : PendOK p) : (names p).map er = srcs p := by
  induction p with
  | nil => rfl
  | cons e p ih =>
    simp only [names, srcs, List.map_cons, List.cons.injEq] at ih ⊢
    exact ⟨h e (by simp), ih (fun e' he' => h e' (List.mem_cons_of_mem _ he'))⟩

theorem pend_config (hf : Facts pg group F T L) {l : Lay U} (hl : l ∈ L) (hv : Valid pg.g l.n) :
    (names l.pend).map er = l.n.config := by
  rw [names_er (pendOK_lay hf hl).2]
  exact renPath_srcs pg.g l.n.steps l.lo [(l.n.start, l.sp)] _ l.n.config (hf.path l hl) hv.2.2.2.1

theorem alts_chain {F : UG (U × Nat)} {X : UNT (U × Nat)} {P : Sym} {m : List (UNT (U × Nat))}
    (h : AList.lookup X F.rules = some [(P, [m])]) : alts F X = [(P, m)] := by
  simp [alts, h]

/-- no other node shares the start of a node without steps (they would be comparable) -/
theorem no_nil_of_cons (hf : Facts pg group F T L) (hpf : PrefixFree group) {l : Lay U} (hl : l ∈ L)
    (hne : l.n.steps ≠ []) : ∀ l2 ∈ L, l2.sp = l.sp → l2.n.steps ≠ [] := by
  intro l2 hl2 hsp hnil
  have hs : l2.n.start = l.n.start := by rw [← hf.spEr l2 hl2, ← hf.spEr l hl, hsp]
  have := lay_eq hf hpf hl2 hl hs (by rw [hnil]; exact List.nil_prefix)
  subst this
  exact hne hnil

/-- the renamed path of a node is a derivation prefix of the fragment -/
theorem run_path (hf : Facts pg group F T L) (hpf : PrefixFree group) {l : Lay U} (hl : l ∈ L) :
    run F [l.sp] l.steps' = some (names l.pend) := by
  have hp := hf.path l hl
  have := renPath_run F l.n.steps l.lo [(l.n.start, l.sp)] _ hp
  simp only [names, List.map_cons, List.map_nil] at this
  apply this
  intro s hs
  cases hst : l.steps' with
  | nil => rw [hst] at hs; cases hs
  | cons s0 t =>
    have hne : l.n.steps ≠ [] := by
      intro hnil
      have := (path_nil hf hl hnil).1
      rw [hst] at this; cases this
    rw [hst] at hs
    rcases List.mem_cons.mp hs with hs | hs
    · subst hs
      -- the first step is a rule of the start copy
      have htgt : s.1 = l.sp := by
        cases hsteps : l.n.steps with
        | nil => exact absurd hsteps hne
        | cons st0 w =>
          obtain ⟨S, P, v⟩ := st0
          rw [hsteps] at hp
          obtain ⟨Sp, rest, r0, h1, _, h3⟩ := renPath_cons_inv hp
          simp only [List.cons.injEq, Prod.mk.injEq, List.nil_eq] at h1
          simp only [Prod.mk.injEq] at h3
          rw [hst] at h3
          simp only [List.cons.injEq] at h3
          rw [h3.2.1.1, h1.1.2]
      have := (hf.startRow l.sp ⟨l, hl, rfl⟩ (no_nil_of_cons hf hpf hl hne) s.2.1 s.2.2).mpr
        ⟨l, hl, rfl, by rw [hst, ← htgt]; rfl⟩
      rw [htgt]; exact this
    · have := hf.chain l hl s (by rw [hst]; exact hs)
      rw [alts_chain this]; simp

/-- **decomposition**: a derivation of the fragment is the renamed path of a node of the group
    followed by a derivation from the copies that are pending at the end of the path -/
theorem decomp (hf : Facts pg group F T L) {X : UNT (U × Nat)} {w' : List (Step (U × Nat))}
    (hd : Deriv F X w') :
    ∃ l ∈ L, l.sp = X ∧ ∃ rem, w' = l.steps' ++ rem ∧ run F (names l.pend) rem = some [] := by
  obtain ⟨l0, hl0, hsp0⟩ := (hf.starts X).mp hd.1
  by_cases hex : ∃ l ∈ L, l.sp = X ∧ l.n.steps = []
  · obtain ⟨l, hl, hsp, hnil⟩ := hex
    obtain ⟨h1, h2⟩ := path_nil hf hl hnil
    refine ⟨l, hl, hsp, w', by rw [h1]; rfl, ?_⟩
    rw [h2]
    simp only [names, List.map_cons, List.map_nil, hsp]
    exact hd.2
  · have hall : ∀ l ∈ L, l.sp = X → l.n.steps ≠ [] := fun l hl hsp hnil => hex ⟨l, hl, hsp, hnil⟩
    obtain ⟨Q, a, w1, rfl, hQa, hrun⟩ := run_cons_complete F _ _ _ hd.2
    obtain ⟨l, hl, hsp, hhead⟩ := (hf.startRow X ⟨l0, hl0, hsp0⟩ hall Q a).mp hQa
    refine ⟨l, hl, hsp, ?_⟩
    have hp := hf.path l hl
    cases hsteps : l.n.steps with
    | nil => exact absurd hsteps (hall l hl hsp)
    | cons st0 w =>
      obtain ⟨S, P, v⟩ := st0
      rw [hsteps] at hp
      obtain ⟨Sp, rest, r0, h1, h0, h3⟩ := renPath_cons_inv hp
      simp only [List.cons.injEq, Prod.mk.injEq, List.nil_eq] at h1
      obtain ⟨⟨_, hSp⟩, hrest⟩ := h1
      subst hrest
      simp only [Prod.mk.injEq] at h3
      obtain ⟨hhi, hst, hpend⟩ := h3
      rw [hst] at hhead
      simp only [List.head?_cons, Option.some.injEq, Prod.mk.injEq] at hhead
      obtain ⟨_, hQ, ha⟩ := hhead
      have hchain : ∀ s ∈ r0.2.1, ∀ pa ∈ alts F s.1, pa = (s.2.1, s.2.2) := by
        intro s hs pa hpa
        have := hf.chain l hl s (by rw [hst]; exact hs)
        rw [alts_chain this] at hpa
        simpa using hpa
      obtain ⟨rem, hr1, hr2⟩ := renPath_forced F w _ _ r0 w1 h0 hchain
        (by rw [names_zip]; simp only [names, List.map_nil]; rw [ha]; exact hrun)
      refine ⟨rem, ?_, ?_⟩
      · rw [hst, hr1, ← hSp, hsp, hQ, ha]; rfl
      · rw [hpend]; exact hr2

/-! ### the language of the fragment -/

/-- **soundness**: a derivation of the fragment erases to a derivation of the original grammar
    that lies in the cell of a node of the group -/
theorem frag_sound (hf : Facts pg group F T L) (hv : ∀ n ∈ group, Valid pg.g n)
    {X : UNT (U × Nat)} {w' : List (Step (U × Nat))} (hd : Deriv F X w') :
    ∃ n ∈ group, Matches n (er X) (w'.map erStep) ∧ Deriv pg.g (er X) (w'.map erStep) := by
  obtain ⟨l, hl, hsp, rem, hw, hrun⟩ := decomp hf hd
  have hn : l.n ∈ group := by rw [← hf.lays]; exact List.mem_map.mpr ⟨l, hl, rfl⟩
  have hval := hv _ hn
  obtain ⟨hs1, _⟩ := copy_sound hf rem (names l.pend) (fun Y hY => by
    obtain ⟨e, he, rfl⟩ := List.mem_map.mp hY
    exact ⟨hf.pendC l hl e he, Or.inr ⟨l, hl, e, he, rfl⟩⟩) hrun
  rw [pend_config hf hl hval] at hs1
  have her : w'.map erStep = l.n.steps ++ rem.map erStep := by
    rw [hw, List.map_append, (pendOK_lay hf hl).1]
  have hst : er X = l.n.start := by rw [← hsp]; exact hf.spEr l hl
  refine ⟨l.n, hn, ⟨hst.symm, by rw [her]; exact List.prefix_append _ _⟩, ?_, ?_⟩
  · rw [hst]; exact hval.1
  · rw [her, hst, run_append, hval.2.2.2.1]
    exact hs1

/-- **completeness**: every derivation in the cell of a node of the group is the erasure of a
    derivation of the fragment -/
theorem frag_complete (hf : Facts pg group F T L) (hv : ∀ n ∈ group, Valid pg.g n) (hpf : PrefixFree group)
    {n : Node U} (hn : n ∈ group) {s : UNT U} {w : List (Step U)} (hd : Deriv pg.g s w) (hm : Matches n s w) :
    ∃ X w', Deriv F X w' ∧ er X = s ∧ w'.map erStep = w := by
  rw [← hf.lays] at hn
  obtain ⟨l, hl, rfl⟩ := List.mem_map.mp hn
  have hval := hv l.n (by rw [← hf.lays]; exact List.mem_map.mpr ⟨l, hl, rfl⟩)
  obtain ⟨hs, rem, hrem⟩ := hm
  subst hrem
  have hrun := hd.2
  rw [← hs, run_append, hval.2.2.2.1] at hrun
  simp only [Option.bind_some] at hrun
  rw [← pend_config hf hl hval] at hrun
  obtain ⟨c1, c2⟩ := copy_complete hf rem (names l.pend) (fun Y hY => by
    obtain ⟨e, he, rfl⟩ := List.mem_map.mp hY
    exact ⟨hf.pendC l hl e he, Or.inr ⟨l, hl, e, he, rfl⟩⟩) hrun
  refine ⟨l.sp, l.steps' ++ lift (names l.pend) rem, ⟨(hf.starts _).mpr ⟨l, hl, rfl⟩, ?_⟩, ?_, ?_⟩
  · rw [run_append, run_path hf hpf hl]
    exact c1
  · rw [hf.spEr l hl, hs]
  · rw [List.map_append, (pendOK_lay hf hl).1, c2]

/-- **injectivity** of the erasure on the derivations of the fragment (unambiguity) -/
theorem frag_inj (hf : Facts pg group F T L) (hpf : PrefixFree group)
    {X1 X2 : UNT (U × Nat)} {w1 w2 : List (Step (U × Nat))} (hd1 : Deriv F X1 w1) (hd2 : Deriv F X2 w2)
    (hX : er X1 = er X2) (hw : w1.map erStep = w2.map erStep) : X1 = X2 ∧ w1 = w2 := by
  obtain ⟨l1, hl1, hsp1, rem1, hw1, hrun1⟩ := decomp hf hd1
  obtain ⟨l2, hl2, hsp2, rem2, hw2, hrun2⟩ := decomp hf hd2
  have hst : l1.n.start = l2.n.start := by
    rw [← hf.spEr l1 hl1, ← hf.spEr l2 hl2, hsp1, hsp2, hX]
  have hXX : X1 = X2 := by rw [← hsp1, ← hsp2]; exact hf.spSame l1 hl1 l2 hl2 hst
  refine ⟨hXX, ?_⟩
  have e1 : w1.map erStep = l1.n.steps ++ rem1.map erStep := by
    rw [hw1, List.map_append, (pendOK_lay hf hl1).1]
  have e2 : w2.map erStep = l2.n.steps ++ rem2.map erStep := by
    rw [hw2, List.map_append, (pendOK_lay hf hl2).1]
  rw [e1, e2] at hw
  have hll : l1 = l2 := by
    rcases List.prefix_or_prefix_of_prefix (List.prefix_append l1.n.steps (rem1.map erStep))
      (by rw [hw]; exact List.prefix_append l2.n.steps (rem2.map erStep)) with h | h
    · exact lay_eq hf hpf hl1 hl2 hst h
    · exact (lay_eq hf hpf hl2 hl1 hst.symm h).symm
  subst hll
  have hrem : rem1.map erStep = rem2.map erStep := List.append_cancel_left hw
  have hc : ∀ Y ∈ names l1.pend, Cp pg F T L Y := fun Y hY => by
    obtain ⟨e, he, rfl⟩ := List.mem_map.mp hY
    exact ⟨hf.pendC l1 hl1 e he, Or.inr ⟨l1, hl1, e, he, rfl⟩⟩
  have r1 := (copy_sound hf rem1 _ hc hrun1).2
  have r2 := (copy_sound hf rem2 _ hc hrun2).2
  rw [hw1, hw2, r1, r2, hrem]

end

end PS.Sp
