/-
  C17 ↔ C04.  The model of `ProbDetGrammar.probability` used by C17 (`PS.IC.probability`:
  membership test, then the `reduce_derivations` fold, exceptions → 0) is the model of C04
  (`PS.G.probabilityDet`), and the recursive specification `PS.IC.prob` is C04's specification
  `PS.G.prob` (product of the rule weights along the stack-free derivation, 0 outside the
  language).  Hence, by `probabilityDet_eq_prob` (C04), `probability = prob`, and the mass
  theorems of C17 can be stated on what the Python computes.

  Second part: the total mass.  `mass (inst fx G tbl) (instTags fx tags tbl) k nt = mass G tags k nt`
  for every depth budget `k` and non-terminal: no probability mass is lost or created by
  `instantiate_constants`; and the enumeration of the instantiated grammar is the set of the
  instantiations of the enumeration of the template grammar.
-/
import PS.Proofs.InstConstMass
import PS.Proofs.ProbDet
import PS.Proofs.Mass
namespace PS.IC
open PS PS.G

variable {S : Type} [DecidableEq S]

theorem rsum_eq_sum (l : List Rat) : rsum l = l.sum := by
  induction l with
  | nil => rfl
  | cons x xs ih => simp [rsum, ih]

theorem tag?_eq_tagOf {T : Type} [DecidableEq T] (tags : Tags S T) (nt : NT S T) (P : Sym) :
    tag? tags nt P = PS.G.tagOf tags nt P := by
  unfold tag? PS.G.tagOf
  cases AList.lookup nt tags <;> rfl

/-- the reducer of `probability` in the C17 model is the reducer `mulTag` of the C04 model -/
theorem reducer_eq_mulTag {T : Type} [DecidableEq T] (tags : Tags S T) :
    (fun (cur : Option Rat) (nt : NT S T) (P : Sym) (_ : List (Ty × S) × T) =>
        match cur, tag? tags nt P with
        | some c, some w => some (c * w)
        | _, _ => none) = PS.G.mulTag tags := by
  funext cur nt P r
  rw [tag?_eq_tagOf]
  cases cur with
  | none => cases PS.G.tagOf tags nt P <;> rfl
  | some c =>
    simp only [PS.G.mulTag]
    cases PS.G.tagOf tags nt P <;> rfl

/-- the two transcriptions of `ProbDetGrammar.probability` (C17's and C04's) are the same
    function, for every tree-traversing grammar -/
theorem probability_eq_probabilityDet {T : Type} [DecidableEq T] (G : TT S T) (tags : Tags S T)
    (p : Prog) : probability G tags p = PS.G.probabilityDet G tags p := by
  show (if contains G p = true then
      match reduceDerivations G (fun (cur : Option Rat) (nt : NT S T) (P : Sym)
          (_ : List (Ty × S) × T) =>
          match cur, tag? tags nt P with
          | some c, some w => some (c * w)
          | _, _ => none) (some 1) p with
      | some (some r) => r
      | _ => 0
    else 0) = _
  rw [reducer_eq_mulTag]
  unfold PS.G.probabilityDet PS.G.probabilityDetFrom contains reduceDerivations
  cases (containsRec G p G.start []).1 with
  | false => simp
  | true =>
    simp only [if_true, Bool.not_true, Bool.false_eq_true, if_false]
    cases reduceRec G (mulTag tags) (some 1) p G.start [] with
    | none => rfl
    | some x =>
      obtain ⟨v, i, n⟩ := x
      cases v <;> rfl

/- the recursive specification of C17 is the derivation-based specification of C04 -/
mutual
  theorem prob_eq_der (G : TT S Unit) (tags : Tags S Unit) :
      ∀ (t : Prog) (nt : NT S Unit),
        prob G tags t nt = if gen G t nt = true then derWeight tags (derivation G t nt) else 0
    | .node f kids, nt => by
      unfold prob gen derivation
      cases hr : G.rule? nt f with
      | none => simp
      | some r =>
        obtain ⟨args, u⟩ := r
        simp only
        rw [probList_eq_der G tags kids args]
        cases hg : genList G kids args with
        | false => simp
        | true => simp [derWeight, weight, tag?_eq_tagOf]
  theorem probList_eq_der (G : TT S Unit) (tags : Tags S Unit) :
      ∀ (ks : List Prog) (args : List (Ty × S)),
        probList G tags ks args =
          if genList G ks args = true then derWeight tags (derivationList G ks args) else 0
    | [], [] => by simp [probList, genList, derivationList, derWeight]
    | [], _ :: _ => by simp [probList, genList]
    | _ :: _, [] => by simp [probList, genList]
    | k :: ks, (t, s) :: as => by
      unfold probList genList derivationList
      rw [prob_eq_der G tags k (t, (s, ())), probList_eq_der G tags ks as, derWeight_append]
      cases gen G k (t, (s, ())) <;> cases genList G ks as <;> simp
end

theorem prob_eq_spec (G : TT S Unit) (tags : Tags S Unit) (t : Prog) (nt : NT S Unit) :
    prob G tags t nt = PS.G.prob G tags t nt := by
  rw [prob_eq_der]; rfl

/-- **the model of `ProbDetGrammar.probability` is the specification `prob`** (via C04) -/
theorem probability_eq_prob (G : TT S Unit) (tags : Tags S Unit) (t : Prog) :
    probability G tags t = prob G tags t G.start := by
  rw [probability_eq_probabilityDet, probabilityDet_eq_prob, prob_eq_spec]

/-! ### total mass -/

theorem rowsNodup_of_rulesOK {fx : Fix} {tbl : Tbl} {G : TT S Unit} (h : rulesOK fx tbl G.rules = true) :
    RowsNodup G :=
  fun _ _ hl => (rowOK_iff.mp (rulesOK_row h hl)).1

theorem lookup_inst {fx : Fix} {tbl : Tbl} {G : TT S Unit} (h : rulesOK fx tbl G.rules = true) {nt : NT S Unit}
    {rs : AList Sym (List (Ty × S) × Unit)} (hl : AList.lookup nt G.rules = some rs) :
    AList.lookup nt (inst fx G tbl).rules = some (rs.flatMap (expand fx tbl (fun v _ => v))) := by
  unfold inst
  simp only [lookup_instRules, hl, Option.map_some]
  rw [instRow_eq_flatMap (rulesOK_row h hl)]

theorem rowsNodup_inst {fx : Fix} {tbl : Tbl} {G : TT S Unit} (h : rulesOK fx tbl G.rules = true) :
    RowsNodup (inst fx G tbl) := by
  intro nt rs hl
  cases hl0 : AList.lookup nt G.rules with
  | none =>
    unfold inst at hl
    simp only [lookup_instRules, hl0, Option.map_none] at hl
    cases hl
  | some row =>
    rw [lookup_inst h hl0] at hl
    cases hl
    exact keys_flatMap_nodup (rulesOK_row h hl0)

theorem produces_self {fx : Fix} {tbl : Tbl} {P : Sym} (h : slot? fx tbl P = none) : produces fx tbl P P := by
  unfold produces; rw [h]

theorem weight_inst_of_produces {fx : Fix} {tbl : Tbl} {tags : Tags S Unit} (h : rulesOK fx tbl tags = true)
    (nt : NT S Unit) {P k : Sym} (hP : okKey fx tbl P) (hp : produces fx tbl P k) :
    weight (instTags fx tags tbl) nt k =
      (match slot? fx tbl P with
        | some vals => weight tags nt P / (vals.length : Rat)
        | none => weight tags nt P) := by
  unfold weight
  rw [← tag?_eq_tagOf, ← tag?_eq_tagOf, tag?_inst_of_produces h nt hP hp]
  cases tag? tags nt P with
  | none => cases slot? fx tbl P <;> simp
  | some v => cases slot? fx tbl P <;> simp

/-- **no mass is lost**: for every depth budget and non-terminal the total probability of the
    programs of the instantiated grammar is the total probability of the programs of the
    template grammar -/
theorem mass_inst (fx : Fix) (tbl : Tbl) (G : TT S Unit) (tags : Tags S Unit)
    (hG : rulesOK fx tbl G.rules = true) (hT : rulesOK fx tbl tags = true)
    (hne : rulesNonEmpty fx tbl G.rules = true) :
    ∀ (k : Nat) (nt : NT S Unit),
      PS.G.mass (inst fx G tbl) (instTags fx tags tbl) k nt = PS.G.mass G tags k nt := by
  intro k
  induction k with
  | zero => intro nt; simp [PS.G.mass, lang]
  | succ k ih =>
    intro nt
    cases hl : AList.lookup nt G.rules with
    | none =>
      have hl' : AList.lookup nt (inst fx G tbl).rules = none := by
        unfold inst; simp only [lookup_instRules, hl, Option.map_none]
      simp [PS.G.mass, lang, hl, hl']
    | some rs =>
      rw [mass_succ _ _ (rowsNodup_inst hG) k nt _ (lookup_inst hG hl),
        mass_succ G tags (rowsNodup_of_rulesOK hG) k nt rs hl, sum_flatMap_rat]
      congr 1
      apply List.map_congr_left
      intro e he
      have hrow := rulesOK_row hG hl
      have hmem : e.1 ∈ AList.keys rs := List.mem_map.mpr ⟨e, he, rfl⟩
      have hok : okKey fx tbl e.1 := (rowOK_iff.mp hrow).2 e.1 hmem
      have hnz := rulesNonEmpty_row hne hl
      unfold rowNonEmpty at hnz
      rw [List.all_eq_true] at hnz
      have hnz' := hnz e.1 hmem
      simp only [ih]
      unfold expand
      cases hs : slot? fx tbl e.1 with
      | none =>
        simp only [List.map_cons, List.map_nil, List.sum_cons, List.sum_nil, Rat.add_zero]
        rw [weight_inst_of_produces hT nt hok (produces_self hs), hs]
      | some vals =>
        rw [hs] at hnz'
        have hv : vals ≠ [] := by
          intro e'; subst e'; cases hnz'
        have hw : ∀ v ∈ vals, weight (instTags fx tags tbl) nt (Sym.const e.1.ty v) =
            weight tags nt e.1 / (vals.length : Rat) := by
          intro v hv'
          have hp : produces fx tbl e.1 (Sym.const e.1.ty v) := by
            unfold produces; rw [hs]; exact ⟨v, hv', rfl⟩
          rw [weight_inst_of_produces hT nt hok hp, hs]
        simp only [List.map_map]
        rw [List.map_congr_left (g := fun _ => weight tags nt e.1 / (vals.length : Rat) *
            (e.2.1.map (fun a => PS.G.mass G tags k (argNT a))).prod)
          (fun v hv' => by simp only [Function.comp]; rw [hw v hv'])]
        rw [sum_map_const]
        have hn : (vals.length : Rat) ≠ 0 := by
          exact_mod_cast (by intro e'; exact hv (List.length_eq_zero_iff.mp e') : vals.length ≠ 0)
        field_simp

/-! ### the enumeration of the instantiated grammar -/

mutual
  theorem depth_of_isInst (tbl : Tbl) : ∀ (t t' : Prog), isInst tbl t t' = true →
      Tree.depth t' = Tree.depth t
    | .node f kids, .node f' kids' => by
      intro h
      unfold isInst at h
      rw [Bool.and_eq_true] at h
      simp only [Tree.depth]
      rw [depthList_of_isInstList tbl kids kids' h.2]
  theorem depthList_of_isInstList (tbl : Tbl) : ∀ (ks ks' : List Prog),
      isInstList tbl ks ks' = true → Tree.depthList ks' = Tree.depthList ks
    | [], [] => by intro _; rfl
    | [], _ :: _ => by intro h; simp [isInstList] at h
    | _ :: _, [] => by intro h; simp [isInstList] at h
    | k :: ks, k' :: ks' => by
      intro h
      unfold isInstList at h
      rw [Bool.and_eq_true] at h
      simp only [Tree.depthList]
      rw [depth_of_isInst tbl k k' h.1, depthList_of_isInstList tbl ks ks' h.2]
end

/-- the programs of at most `k` levels of the instantiated grammar are exactly the
    instantiations of the programs of at most `k` levels of the template grammar -/
theorem mem_lang_inst (fx : Fix) (tbl : Tbl) (G : TT S Unit) (h : rulesOK fx tbl G.rules = true) (k : Nat)
    (nt : NT S Unit) (t' : Prog) :
    t' ∈ lang (inst fx G tbl) k nt ↔ ∃ t ∈ lang G k nt, isInst tbl t t' = true := by
  rw [mem_lang_iff _ (rowsNodup_inst h)]
  constructor
  · rintro ⟨hg, hd⟩
    obtain ⟨g, i⟩ := gen_inst_templ fx tbl G h t' nt hg
    refine ⟨templ tbl t', (mem_lang_iff G (rowsNodup_of_rulesOK h) k _ nt).mpr ⟨g, ?_⟩, i⟩
    rw [← depth_of_isInst tbl _ _ i]; exact hd
  · rintro ⟨t, ht, i⟩
    obtain ⟨g, hd⟩ := (mem_lang_iff G (rowsNodup_of_rulesOK h) k t nt).mp ht
    exact ⟨gen_inst_of_isInst fx tbl G h t t' nt g i, by rw [depth_of_isInst tbl _ _ i]; exact hd⟩

end PS.IC
