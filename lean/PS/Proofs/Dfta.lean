/-
  Lemmas about PS/Model/Dfta.lean (property C07; reusable for C05/C06).
  Part 1: association lists built by inserts, grow-only loops, runs, reachable and
  productive states, `reduce`.
-/
import PS.Model.Dfta
import Mathlib.Data.List.Perm.Subperm
set_option linter.unusedSectionVars false
namespace PS

/-! ### association lists -/
namespace AList
variable {κ ν : Type} [DecidableEq κ]

theorem lookup_eq_some_iff_mem {k : κ} {v : ν} {d : AList κ ν} (hn : (keys d).Nodup) :
    lookup k d = some v ↔ (k, v) ∈ d :=
  ⟨lookup_some_mem, lookup_of_mem_nodup hn⟩

theorem keys_insert_subset (k : κ) (v : ν) (d : AList κ ν) :
    ∀ x, x ∈ keys (insert k v d) ↔ x = k ∨ x ∈ keys d := by
  induction d with
  | nil => intro x; simp [insert, keys]
  | cons p r ih =>
    obtain ⟨k', v'⟩ := p
    intro x
    by_cases h : k' = k
    · subst h; simp [insert, keys]
    · simp only [insert, h, if_false, keys, List.map_cons, List.mem_cons]
      have := ih x
      simp only [keys] at this
      rw [this]
      constructor
      · rintro (h1 | h1 | h1)
        · exact Or.inr (Or.inl h1)
        · exact Or.inl h1
        · exact Or.inr (Or.inr h1)
      · rintro (h1 | h1 | h1)
        · exact Or.inr (Or.inl h1)
        · exact Or.inl h1
        · exact Or.inr (Or.inr h1)

theorem keys_nodup_insert (k : κ) (v : ν) (d : AList κ ν) (hn : (keys d).Nodup) :
    (keys (insert k v d)).Nodup := by
  induction d with
  | nil => simp [insert, keys]
  | cons p r ih =>
    obtain ⟨k', v'⟩ := p
    simp only [keys, List.map_cons, List.nodup_cons] at hn
    by_cases h : k' = k
    · subst h; simpa [insert, keys] using hn
    · simp only [insert, h, if_false, keys, List.map_cons, List.nodup_cons]
      refine ⟨?_, ih hn.2⟩
      intro hm
      have := (keys_insert_subset k v r k').mp hm
      rcases this with h1 | h1
      · exact h h1
      · exact hn.1 h1

theorem keys_nodup_insertMany (d : AList κ ν) (xs : List (κ × ν)) (hn : (keys d).Nodup) :
    (keys (insertMany d xs)).Nodup := by
  induction xs generalizing d with
  | nil => exact hn
  | cons x r ih => exact ih _ (keys_nodup_insert _ _ _ hn)

theorem keys_nodup_ofList (xs : List (κ × ν)) : (keys (ofList xs)).Nodup :=
  keys_nodup_insertMany [] xs (by simp [keys])

theorem insertMany_append (d : AList κ ν) (xs ys : List (κ × ν)) :
    insertMany d (xs ++ ys) = insertMany (insertMany d xs) ys := by
  simp [insertMany, List.foldl_append]

theorem lookup_insertMany_of_not_mem (d : AList κ ν) (xs : List (κ × ν)) (k : κ)
    (h : ∀ x ∈ xs, x.1 ≠ k) : lookup k (insertMany d xs) = lookup k d := by
  induction xs generalizing d with
  | nil => rfl
  | cons x r ih =>
    have h1 : lookup k (insertMany (insert x.1 x.2 d) r) = lookup k (insert x.1 x.2 d) :=
      ih _ (fun y hy => h y (List.mem_cons_of_mem _ hy))
    have h2 : k ≠ x.1 := fun e => h x (List.mem_cons_self) e.symm
    show lookup k (insertMany (insert x.1 x.2 d) r) = _
    rw [h1, lookup_insert_ne _ _ h2]

/-- all entries for key `k` carry the value `v` and there is one: the dict ends with `k ↦ v` -/
theorem lookup_insertMany_of_mem (d : AList κ ν) (xs : List (κ × ν)) (k : κ) (v : ν)
    (hex : ∃ x ∈ xs, x.1 = k) (hf : ∀ x ∈ xs, x.1 = k → x.2 = v) :
    lookup k (insertMany d xs) = some v := by
  induction xs generalizing d with
  | nil => obtain ⟨x, hx, _⟩ := hex; cases hx
  | cons x r ih =>
    show lookup k (insertMany (insert x.1 x.2 d) r) = _
    by_cases hr : ∃ y ∈ r, y.1 = k
    · exact ih _ hr (fun y hy => hf y (List.mem_cons_of_mem _ hy))
    · have hx : x.1 = k := by
        obtain ⟨y, hy, hyk⟩ := hex
        rcases List.mem_cons.mp hy with e | e
        · subst e; exact hyk
        · exact absurd ⟨y, e, hyk⟩ hr
      rw [lookup_insertMany_of_not_mem _ r k (fun y hy e => hr ⟨y, hy, e⟩)]
      rw [← hx, lookup_insert_self, hf x List.mem_cons_self hx]

theorem lookup_insertMany_some {d : AList κ ν} {xs : List (κ × ν)} {k : κ} {v : ν}
    (h : lookup k (insertMany d xs) = some v) : (k, v) ∈ xs ∨ lookup k d = some v := by
  induction xs generalizing d with
  | nil => exact Or.inr h
  | cons x r ih =>
    rcases ih (d := insert x.1 x.2 d) h with h1 | h1
    · exact Or.inl (List.mem_cons_of_mem _ h1)
    · rw [lookup_insert] at h1
      by_cases e : k = x.1
      · simp [e] at h1; left; rw [e, ← h1]; exact List.mem_cons_self
      · simp [e] at h1; exact Or.inr h1

theorem lookup_ofList_some {xs : List (κ × ν)} {k : κ} {v : ν}
    (h : lookup k (ofList xs) = some v) : (k, v) ∈ xs := by
  rcases lookup_insertMany_some h with h1 | h1
  · exact h1
  · simp [lookup] at h1

omit [DecidableEq κ] in
theorem keys_filter_nodup (p : κ × ν → Bool) (d : AList κ ν) (hn : (keys d).Nodup) :
    (keys (d.filter p)).Nodup := by
  unfold keys at *
  exact List.Nodup.sublist (List.Sublist.map _ List.filter_sublist) hn

theorem lookup_filter (p : κ × ν → Bool) (d : AList κ ν) (hn : (keys d).Nodup) (k : κ) (v : ν) :
    lookup k (d.filter p) = some v ↔ (lookup k d = some v ∧ p (k, v) = true) := by
  rw [lookup_eq_some_iff_mem (keys_filter_nodup p d hn), lookup_eq_some_iff_mem hn, List.mem_filter]

end AList

/-! ### grow-only folds and loops -/
section grow
variable {α β : Type}

theorem foldl_grow_append (step : List α → β → List α)
    (hstep : ∀ acc x, ∃ ext, step acc x = acc ++ ext) (xs : List β) (r : List α) :
    ∃ ext, xs.foldl step r = r ++ ext := by
  induction xs generalizing r with
  | nil => exact ⟨[], by simp⟩
  | cons x xs ih =>
    obtain ⟨e1, h1⟩ := hstep r x
    obtain ⟨e2, h2⟩ := ih (step r x)
    exact ⟨e1 ++ e2, by rw [List.foldl_cons, h2, h1, List.append_assoc]⟩

theorem foldl_grow_stable (step : List α → β → List α)
    (hstep : ∀ acc x, ∃ ext, step acc x = acc ++ ext) (xs : List β) (r : List α)
    (hlen : (xs.foldl step r).length = r.length) : ∀ x ∈ xs, step r x = r := by
  induction xs generalizing r with
  | nil => intro x hx; cases hx
  | cons x xs ih =>
    obtain ⟨e1, h1⟩ := hstep r x
    obtain ⟨e2, h2⟩ := foldl_grow_append step hstep xs (step r x)
    simp only [List.foldl_cons] at hlen
    rw [h2, h1] at hlen
    simp only [List.length_append] at hlen
    have he1 : e1 = [] := List.eq_nil_of_length_eq_zero (by omega)
    have hr1 : step r x = r := by rw [h1, he1]; simp
    intro y hy
    rcases List.mem_cons.mp hy with e | e
    · subst e; exact hr1
    · apply ih r
      · have h3 := h2
        rw [hr1] at h3
        have he2 : e2 = [] := List.eq_nil_of_length_eq_zero (by omega)
        rw [h3, he2]; simp
      · exact e

variable [DecidableEq α]

theorem addNew_append (acc : List α) (a : α) : ∃ ext, addNew acc a = acc ++ ext := by
  unfold addNew; split
  · exact ⟨[], by simp⟩
  · exact ⟨[a], rfl⟩

theorem mem_addNew (acc : List α) (a x : α) : x ∈ addNew acc a ↔ x ∈ acc ∨ x = a := by
  unfold addNew; split
  · constructor
    · exact Or.inl
    · rintro (h | h)
      · exact h
      · subst h; assumption
  · simp

theorem addNew_nodup (acc : List α) (a : α) (h : acc.Nodup) : (addNew acc a).Nodup := by
  unfold addNew; split
  · exact h
  · rename_i hn
    rw [List.nodup_append]
    refine ⟨h, by simp, ?_⟩
    intro x hx y hy
    simp at hy; subst hy
    intro e; subst e; exact hn hx

theorem addNew_eq_self (acc : List α) (a : α) (h : addNew acc a = acc) : a ∈ acc := by
  unfold addNew at h; split at h
  · assumption
  · have := congrArg List.length h; simp at this

theorem mem_foldl_addNew (xs acc : List α) (x : α) :
    x ∈ xs.foldl addNew acc ↔ x ∈ acc ∨ x ∈ xs := by
  induction xs generalizing acc with
  | nil => simp
  | cons y ys ih =>
    simp only [List.foldl_cons, ih, mem_addNew, List.mem_cons]
    constructor
    · rintro ((h | h) | h)
      · exact Or.inl h
      · exact Or.inr (Or.inl h)
      · exact Or.inr (Or.inr h)
    · rintro (h | h | h)
      · exact Or.inl (Or.inl h)
      · exact Or.inl (Or.inr h)
      · exact Or.inr h

theorem foldl_addNew_nodup (xs acc : List α) (h : acc.Nodup) : (xs.foldl addNew acc).Nodup := by
  induction xs generalizing acc with
  | nil => exact h
  | cons y ys ih => exact ih _ (addNew_nodup _ _ h)

omit [DecidableEq α] in
/-- a grow-only loop whose values stay inside a bounded invariant stops at a fixed point -/
theorem growLoop_fix (pass : List α → List α) (U : Nat) (Inv : List α → Prop)
    (hinv : ∀ r, Inv r → Inv (pass r))
    (hlen : ∀ r, Inv r → r.length ≤ (pass r).length)
    (hU : ∀ r, Inv r → r.length ≤ U) :
    ∀ fuel r, Inv r → U < r.length + fuel →
      Inv (growLoop pass fuel r) ∧ (pass (growLoop pass fuel r)).length = (growLoop pass fuel r).length := by
  intro fuel
  induction fuel with
  | zero => intro r hr hlt; have := hU r hr; omega
  | succ n ih =>
    intro r hr hlt
    unfold growLoop
    split
    · rename_i he; exact ⟨hr, he⟩
    · rename_i hne
      have := hlen r hr
      exact ih (pass r) (hinv r hr) (by omega)

end grow

/-! ### runs -/
namespace DFTA
variable {σ Q : Type} [DecidableEq σ] [DecidableEq Q]

theorem run_node (A : DFTA σ Q) (l : σ) (ks : List (Tree σ)) :
    run A (.node l ks) = (runList A ks).bind (A.read l) := by
  rw [run]; cases runList A ks <;> rfl

@[simp] theorem runList_nil (A : DFTA σ Q) : runList A [] = some [] := by rw [runList]

theorem runList_cons (A : DFTA σ Q) (t : Tree σ) (ts : List (Tree σ)) :
    runList A (t :: ts) = (run A t).bind (fun q => (runList A ts).map (fun qs => q :: qs)) := by
  rw [runList]; cases run A t <;> cases runList A ts <;> rfl

/-- `Det`: a rule is in the table iff `read` returns its target -/
theorem read_eq_some_iff (A : DFTA σ Q) (hd : A.Det) (l : σ) (qs : List Q) (q : Q) :
    A.read l qs = some q ↔ ((l, qs), q) ∈ A.rules :=
  AList.lookup_eq_some_iff_mem hd

/-- induction principle for statements about all runs -/
theorem run_induction (P : Tree σ → Prop)
    (h : ∀ l ks, (∀ k ∈ ks, P k) → P (.node l ks)) : ∀ t, P t := by
  intro t
  induction t using Tree.rec (motive_2 := fun ks => ∀ k ∈ ks, P k) with
  | node l ks ih => exact h l ks ih
  | nil => rename_i k hk; cases hk
  | cons t ts iht ihts =>
    rename_i k hk
    rcases List.mem_cons.mp hk with e | e
    · subst e; exact iht
    · exact ihts k e

/-- the states of the children of a run, as a statement about lists -/
theorem runList_eq_some_iff (A : DFTA σ Q) (ts : List (Tree σ)) (qs : List Q) :
    runList A ts = some qs ↔ List.Forall₂ (fun t q => run A t = some q) ts qs := by
  induction ts generalizing qs with
  | nil =>
    simp only [runList_nil, Option.some.injEq]
    constructor
    · intro h; subst h; exact .nil
    · intro h; cases h; rfl
  | cons t ts ih =>
    rw [runList_cons]
    constructor
    · intro h
      cases hq : run A t with
      | none => simp [hq] at h
      | some q =>
        cases hqs : runList A ts with
        | none => simp [hq, hqs] at h
        | some qs' =>
          simp [hq, hqs] at h
          subst h
          exact .cons hq ((ih qs').mp hqs)
    · intro h
      cases h with
      | cons h1 h2 =>
        rw [h1, (ih _).mpr h2]; rfl


theorem exists_forall₂ {α β : Type} (R : α → β → Prop) (bs : List β) (h : ∀ b ∈ bs, ∃ a, R a b) :
    ∃ as, List.Forall₂ R as bs := by
  induction bs with
  | nil => exact ⟨[], .nil⟩
  | cons b bs ih =>
    obtain ⟨a, ha⟩ := h b List.mem_cons_self
    obtain ⟨as, has⟩ := ih (fun b' hb' => h b' (List.mem_cons_of_mem _ hb'))
    exact ⟨a :: as, .cons ha has⟩

theorem accepts_iff (A : DFTA σ Q) (t : Tree σ) :
    A.accepts t = true ↔ ∃ q, run A t = some q ∧ q ∈ A.finals := by
  unfold accepts
  cases run A t with
  | none => simp
  | some q => simp

/-- `Reach A q`: some tree is read into state `q` -/
def Reach (A : DFTA σ Q) (q : Q) : Prop := ∃ t, run A t = some q

theorem reach_of_rule (A : DFTA σ Q) (hd : A.Det) {l : σ} {args : List Q} {d : Q}
    (hr : ((l, args), d) ∈ A.rules) (h : ∀ a ∈ args, Reach A a) : Reach A d := by
  obtain ⟨ts, hts⟩ := exists_forall₂ (fun t q => run A t = some q) args h
  refine ⟨.node l ts, ?_⟩
  rw [run_node, (runList_eq_some_iff A ts args).mpr hts]
  exact (read_eq_some_iff A hd l args d).mpr hr

/-! #### simulation lemmas -/
section sim
variable {Q' : Type} [DecidableEq Q']

/-- `A'` reads the `h`-image of what `A` reads, on the states satisfying the invariant `P` -/
theorem run_hom (A : DFTA σ Q) (A' : DFTA σ Q') (h : Q → Q') (P : Q → Prop)
    (hP : ∀ l qs q, (∀ x ∈ qs, P x) → A.read l qs = some q → P q)
    (hread : ∀ l qs, (∀ x ∈ qs, P x) → A'.read l (qs.map h) = (A.read l qs).map h) :
    ∀ t, run A' t = (run A t).map h ∧ (∀ q, run A t = some q → P q) := by
  apply run_induction
  intro l ks ih
  have aux : ∀ ks : List (Tree σ), (∀ k ∈ ks, run A' k = (run A k).map h ∧ (∀ q, run A k = some q → P q)) →
      runList A' ks = (runList A ks).map (List.map h) ∧ ∀ qs, runList A ks = some qs → ∀ x ∈ qs, P x := by
    intro ks
    induction ks with
    | nil => intro _; simp
    | cons k ks ihk =>
      intro hk
      obtain ⟨h1, h2⟩ := hk k List.mem_cons_self
      obtain ⟨h3, h4⟩ := ihk (fun k' hk' => hk k' (List.mem_cons_of_mem _ hk'))
      rw [runList_cons, runList_cons, h1, h3]
      cases hq : run A k with
      | none => simp
      | some q =>
        cases hqs : runList A ks with
        | none => simp
        | some qs =>
          simp only [Option.map_some, Option.bind_some, List.map_cons, Option.some.injEq, true_and]
          intro qs' e; subst e
          intro x hx
          rcases List.mem_cons.mp hx with e | e
          · subst e; exact h2 _ hq
          · exact h4 qs hqs x e
  obtain ⟨h1, h2⟩ := aux ks ih
  rw [run_node, run_node, h1]
  cases hqs : runList A ks with
  | none => simp
  | some qs =>
    simp only [Option.map_some, Option.bind_some]
    refine ⟨hread l qs (h2 qs hqs), ?_⟩
    intro q hq
    exact hP l qs q (h2 qs hqs) hq

/-- a sub-table has fewer runs -/
theorem run_mono (A A' : DFTA σ Q)
    (hsub : ∀ l qs q, A'.read l qs = some q → A.read l qs = some q) :
    ∀ t q, run A' t = some q → run A t = some q := by
  apply run_induction
  intro l ks ih q hq
  rw [run_node] at hq ⊢
  cases hqs : runList A' ks with
  | none => simp [hqs] at hq
  | some qs =>
    have h1 := (runList_eq_some_iff A' ks qs).mp hqs
    have h2 : List.Forall₂ (fun t q => run A t = some q) ks qs := by
      clear hqs hq
      induction h1 with
      | nil => exact .nil
      | cons hx _ ihx =>
        exact .cons (ih _ List.mem_cons_self _ hx) (ihx (fun k hk => ih k (List.mem_cons_of_mem _ hk)))
    rw [(runList_eq_some_iff A ks qs).mpr h2]
    simp only [hqs, Option.bind_some] at hq ⊢
    exact hsub l qs q hq

/-- runs that end in a downward closed set `P` survive the restriction to the rules into `P` -/
theorem run_restrict (A A' : DFTA σ Q) (P : Q → Prop)
    (hdown : ∀ l qs q, A.read l qs = some q → P q → (∀ x ∈ qs, P x) ∧ A'.read l qs = some q) :
    ∀ t q, run A t = some q → P q → run A' t = some q := by
  apply run_induction
  intro l ks ih q hq hp
  rw [run_node] at hq ⊢
  cases hqs : runList A ks with
  | none => simp [hqs] at hq
  | some qs =>
    simp only [hqs, Option.bind_some] at hq
    obtain ⟨hall, hr⟩ := hdown l qs q hq hp
    have h1 := (runList_eq_some_iff A ks qs).mp hqs
    have h2 : List.Forall₂ (fun t q => run A' t = some q) ks qs := by
      clear hqs hq hr
      induction h1 with
      | nil => exact .nil
      | cons hx _ ihx =>
        exact .cons (ih _ List.mem_cons_self _ hx (hall _ List.mem_cons_self))
          (ihx (fun k hk => ih k (List.mem_cons_of_mem _ hk)) (fun x hx' => hall x (List.mem_cons_of_mem _ hx')))
    rw [(runList_eq_some_iff A' ks qs).mpr h2]
    simpa using hr

end sim

/-! #### `states` -/

/-- one step of `reachPass` -/
def reachStep (acc : List Q) (rule : (σ × List Q) × Q) : List Q :=
  if rule.1.2.all (fun s => decide (s ∈ acc)) then addNew acc rule.2 else acc

theorem reachPass_eq (A : DFTA σ Q) (r : List Q) : reachPass A r = A.rules.foldl reachStep r := rfl

theorem reachStep_append (acc : List Q) (rule : (σ × List Q) × Q) :
    ∃ ext, reachStep acc rule = acc ++ ext := by
  unfold reachStep; split
  · exact addNew_append _ _
  · exact ⟨[], by simp⟩

/-- what every intermediate value of the `states` loop satisfies -/
def ReachInv (A : DFTA σ Q) (r : List Q) : Prop :=
  r.Nodup ∧ (∀ q ∈ r, Reach A q) ∧ r ⊆ A.rules.map (·.2)

theorem reachPass_inv (A : DFTA σ Q) (hd : A.Det) (r : List Q) (h : ReachInv A r) :
    ReachInv A (reachPass A r) := by
  rw [reachPass_eq]
  have : ∀ xs : List ((σ × List Q) × Q), (∀ x ∈ xs, x ∈ A.rules) → ∀ acc, ReachInv A acc →
      ReachInv A (xs.foldl reachStep acc) := by
    intro xs
    induction xs with
    | nil => intro _ acc ha; exact ha
    | cons x xs ih =>
      intro hx acc ha
      apply ih (fun y hy => hx y (List.mem_cons_of_mem _ hy))
      unfold reachStep; split
      · rename_i hall
        obtain ⟨⟨l, args⟩, d⟩ := x
        simp only [List.all_eq_true, decide_eq_true_eq] at hall
        refine ⟨addNew_nodup _ _ ha.1, ?_, ?_⟩
        · intro q hq
          rcases (mem_addNew _ _ _).mp hq with e | e
          · exact ha.2.1 q e
          · subst e
            exact reach_of_rule A hd (hx _ List.mem_cons_self) (fun a haa => ha.2.1 a (hall a haa))
        · intro q hq
          rcases (mem_addNew _ _ _).mp hq with e | e
          · exact ha.2.2 e
          · subst e
            exact List.mem_map.mpr ⟨_, hx _ List.mem_cons_self, rfl⟩
      · exact ha
  exact this A.rules (fun _ h => h) r h

theorem states_spec (A : DFTA σ Q) (hd : A.Det) :
    ReachInv A A.states ∧ (reachPass A A.states).length = A.states.length := by
  unfold states
  apply growLoop_fix (reachPass A) A.rules.length (ReachInv A)
  · exact reachPass_inv A hd
  · intro r _
    obtain ⟨ext, he⟩ := foldl_grow_append reachStep reachStep_append A.rules r
    rw [reachPass_eq, he]; simp
  · intro r hr
    have := (List.subperm_of_subset hr.1 hr.2.2).length_le
    simpa using this
  · exact ⟨List.nodup_nil, by simp, by simp⟩
  · omega

/-- the result of `states` is closed under the rules -/
theorem states_closed (A : DFTA σ Q) (hd : A.Det) {l : σ} {args : List Q} {d : Q}
    (hr : ((l, args), d) ∈ A.rules) (h : ∀ a ∈ args, a ∈ A.states) : d ∈ A.states := by
  have hst := (states_spec A hd).2
  rw [reachPass_eq] at hst
  have := foldl_grow_stable reachStep reachStep_append A.rules A.states hst _ hr
  unfold reachStep at this
  simp only [List.all_eq_true, decide_eq_true_eq] at this
  rw [if_pos h] at this
  exact addNew_eq_self _ _ this

theorem mem_states_of_run (A : DFTA σ Q) (hd : A.Det) : ∀ t q, run A t = some q → q ∈ A.states := by
  apply run_induction
  intro l ks ih q hq
  rw [run_node] at hq
  cases hqs : runList A ks with
  | none => simp [hqs] at hq
  | some qs =>
    simp only [hqs, Option.bind_some] at hq
    have h1 := (runList_eq_some_iff A ks qs).mp hqs
    have h2 : ∀ a ∈ qs, a ∈ A.states := by
      clear hqs hq
      induction h1 with
      | nil => intro a ha; cases ha
      | cons hx _ ihx =>
        intro a ha
        rcases List.mem_cons.mp ha with e | e
        · subst e; exact ih _ List.mem_cons_self _ hx
        · exact ihx (fun k hk => ih k (List.mem_cons_of_mem _ hk)) a e
    exact states_closed A hd (AList.lookup_some_mem hq) h2

/-- `states` = the states some tree is read into -/
theorem mem_states_iff (A : DFTA σ Q) (hd : A.Det) (q : Q) : q ∈ A.states ↔ Reach A q :=
  ⟨fun h => (states_spec A hd).1.2.1 q h, fun ⟨t, ht⟩ => mem_states_of_run A hd t q ht⟩

theorem states_nodup (A : DFTA σ Q) (hd : A.Det) : A.states.Nodup := (states_spec A hd).1.1

/-! #### `reduce` -/

theorem removeUnreachable_det (A : DFTA σ Q) (hd : A.Det) : (removeUnreachable A).Det :=
  AList.keys_filter_nodup _ _ hd

theorem run_removeUnreachable (A : DFTA σ Q) (hd : A.Det) (t : Tree σ) :
    run (removeUnreachable A) t = run A t := by
  have := (run_hom A (removeUnreachable A) id (fun q => q ∈ A.states)
    (fun l qs q hqs hq => states_closed A hd (AList.lookup_some_mem hq) hqs)
    (fun l qs hqs => by
      simp only [List.map_id, Option.map_id_fun, id]
      unfold read removeUnreachable
      simp only
      cases hq : AList.lookup (l, qs) A.rules with
      | none =>
        cases hq' : AList.lookup (l, qs) (A.rules.filter _) with
        | none => rfl
        | some q' => rw [((AList.lookup_filter _ _ hd _ _).mp hq').1] at hq; cases hq
      | some q =>
        apply (AList.lookup_filter _ _ hd _ _).mpr
        refine ⟨hq, ?_⟩
        have hqq := states_closed A hd (AList.lookup_some_mem hq) hqs
        simp only [Bool.and_eq_true, decide_eq_true_eq, List.all_eq_true]
        exact ⟨hqq, hqs⟩) t).1
  simpa using this

theorem accepts_removeUnreachable (A : DFTA σ Q) (hd : A.Det) (t : Tree σ) :
    (removeUnreachable A).accepts t = A.accepts t := by
  unfold accepts
  rw [run_removeUnreachable A hd t]
  cases hq : run A t with
  | none => rfl
  | some q =>
    have := mem_states_of_run A hd t q hq
    simp [removeUnreachable, this]

/-- one step of `prodPass` -/
def prodStep (acc : List Q) (rule : (σ × List Q) × Q) : List Q :=
  if rule.2 ∈ acc then rule.1.2.foldl addNew acc else acc

theorem prodPass_eq (A : DFTA σ Q) (p : List Q) : prodPass A p = A.rules.foldl prodStep p := rfl

theorem prodStep_append (acc : List Q) (rule : (σ × List Q) × Q) :
    ∃ ext, prodStep acc rule = acc ++ ext := by
  unfold prodStep; split
  · exact foldl_grow_append addNew addNew_append _ _
  · exact ⟨[], by simp⟩

/-- invariant of the `productive` loop, relative to a predicate `C` that contains the final
    states and is closed backwards along the rules (used with `C` = co-reachable) -/
def ProdInv (A : DFTA σ Q) (C : Q → Prop) (p : List Q) : Prop :=
  p.Nodup ∧ (∀ q ∈ A.finals, q ∈ p) ∧ (∀ q ∈ p, C q) ∧
    p ⊆ A.finals ++ A.rules.flatMap (fun rule => rule.1.2)

theorem prodPass_inv (A : DFTA σ Q) (C : Q → Prop)
    (hC : ∀ l args d, ((l, args), d) ∈ A.rules → C d → ∀ a ∈ args, C a)
    (p : List Q) (h : ProdInv A C p) : ProdInv A C (prodPass A p) := by
  rw [prodPass_eq]
  have : ∀ xs : List ((σ × List Q) × Q), (∀ x ∈ xs, x ∈ A.rules) → ∀ acc, ProdInv A C acc →
      ProdInv A C (xs.foldl prodStep acc) := by
    intro xs
    induction xs with
    | nil => intro _ acc ha; exact ha
    | cons x xs ih =>
      intro hx acc ha
      apply ih (fun y hy => hx y (List.mem_cons_of_mem _ hy))
      unfold prodStep; split
      · rename_i hmem
        obtain ⟨⟨l, args⟩, d⟩ := x
        refine ⟨foldl_addNew_nodup _ _ ha.1, ?_, ?_, ?_⟩
        · intro q hq; exact (mem_foldl_addNew _ _ _).mpr (Or.inl (ha.2.1 q hq))
        · intro q hq
          rcases (mem_foldl_addNew _ _ _).mp hq with e | e
          · exact ha.2.2.1 q e
          · exact hC l args d (hx _ List.mem_cons_self) (ha.2.2.1 d hmem) q e
        · intro q hq
          rcases (mem_foldl_addNew _ _ _).mp hq with e | e
          · exact ha.2.2.2 e
          · apply List.mem_append_right
            exact List.mem_flatMap.mpr ⟨_, hx _ List.mem_cons_self, e⟩
      · exact ha
  exact this A.rules (fun _ h => h) p h

theorem productive_spec (A : DFTA σ Q) (C : Q → Prop) (hF : ∀ q ∈ A.finals, C q)
    (hC : ∀ l args d, ((l, args), d) ∈ A.rules → C d → ∀ a ∈ args, C a) :
    ProdInv A C A.productive ∧ (prodPass A A.productive).length = A.productive.length := by
  unfold productive
  apply growLoop_fix (prodPass A) (A.finals.length + A.argCount) (ProdInv A C)
  · exact prodPass_inv A C hC
  · intro r _
    obtain ⟨ext, he⟩ := foldl_grow_append prodStep prodStep_append A.rules r
    rw [prodPass_eq, he]; simp
  · intro r hr
    have := (List.subperm_of_subset hr.1 hr.2.2.2).length_le
    simpa [argCount, List.length_flatMap] using this
  · refine ⟨foldl_addNew_nodup _ _ List.nodup_nil, ?_, ?_, ?_⟩
    · intro q hq; exact (mem_foldl_addNew _ _ _).mpr (Or.inr hq)
    · intro q hq
      rcases (mem_foldl_addNew _ _ _).mp hq with e | e
      · cases e
      · exact hF q e
    · intro q hq
      rcases (mem_foldl_addNew _ _ _).mp hq with e | e
      · cases e
      · exact List.mem_append_left _ e
  · omega

theorem finals_subset_productive (A : DFTA σ Q) : ∀ q ∈ A.finals, q ∈ A.productive :=
  (productive_spec A (fun _ => True) (fun _ _ => trivial) (fun _ _ _ _ _ _ _ => trivial)).1.2.1

/-- `productive` is closed backwards along the rules -/
theorem productive_closed (A : DFTA σ Q) {l : σ} {args : List Q} {d : Q}
    (hr : ((l, args), d) ∈ A.rules) (hd : d ∈ A.productive) : ∀ a ∈ args, a ∈ A.productive := by
  have hst := (productive_spec A (fun _ => True) (fun _ _ => trivial) (fun _ _ _ _ _ _ _ => trivial)).2
  rw [prodPass_eq] at hst
  have := foldl_grow_stable prodStep prodStep_append A.rules A.productive hst _ hr
  unfold prodStep at this
  rw [if_pos hd] at this
  intro a ha
  have h2 := foldl_grow_stable addNew addNew_append args A.productive (by rw [this]) a ha
  exact addNew_eq_self _ _ h2

theorem removeUnproductive_det (A : DFTA σ Q) (hd : A.Det) : (removeUnproductive A).Det :=
  AList.keys_filter_nodup _ _ hd

theorem accepts_removeUnproductive (A : DFTA σ Q) (hd : A.Det) (t : Tree σ) :
    (removeUnproductive A).accepts t = A.accepts t := by
  have hsub : ∀ l qs q, (removeUnproductive A).read l qs = some q → A.read l qs = some q := by
    intro l qs q h
    exact ((AList.lookup_filter _ _ hd _ _).mp h).1
  rw [Bool.eq_iff_iff, accepts_iff, accepts_iff]
  constructor
  · rintro ⟨q, hq, hf⟩
    exact ⟨q, run_mono A _ hsub t q hq, hf⟩
  · rintro ⟨q, hq, hf⟩
    refine ⟨q, ?_, hf⟩
    apply run_restrict A (removeUnproductive A) (fun q => q ∈ A.productive) _ t q hq
      (finals_subset_productive A q hf)
    intro l qs q' hr hp
    refine ⟨productive_closed A (AList.lookup_some_mem hr) hp, ?_⟩
    apply (AList.lookup_filter _ _ hd _ _).mpr
    exact ⟨hr, by simpa using hp⟩

theorem reduce_det (A : DFTA σ Q) (hd : A.Det) : (reduce A).Det :=
  removeUnproductive_det _ (removeUnreachable_det A hd)

theorem accepts_reduce (A : DFTA σ Q) (hd : A.Det) (t : Tree σ) :
    (reduce A).accepts t = A.accepts t := by
  unfold reduce
  rw [accepts_removeUnproductive _ (removeUnreachable_det A hd), accepts_removeUnreachable A hd]


/-! #### `read_product` -/
section product
variable {Q₁ Q₂ : Type} [DecidableEq Q₁] [DecidableEq Q₂]

/-- both defined, or nothing -/
def optPair {α β : Type} : Option α → Option β → Option (α × β)
  | some a, some b => some (a, b)
  | _, _ => none

theorem zip_map_fst_snd {α β : Type} (ps : List (α × β)) :
    List.zip (ps.map Prod.fst) (ps.map Prod.snd) = ps := by
  induction ps with
  | nil => rfl
  | cons p ps ih => simp [ih]

theorem mem_productRules (A : DFTA σ Q₁) (B : DFTA σ Q₂) (l : σ) (ps : List (Q₁ × Q₂)) (v : Q₁ × Q₂) :
    ((l, ps), v) ∈ productRules A B ↔
      ∃ args1 d1 args2 d2, ((l, args1), d1) ∈ A.rules ∧ ((l, args2), d2) ∈ B.rules ∧
        args1.length = args2.length ∧ ps = List.zip args1 args2 ∧ v = (d1, d2) := by
  unfold productRules
  simp only [List.mem_flatMap, List.mem_filterMap]
  constructor
  · rintro ⟨⟨⟨l1, a1⟩, d1⟩, h1, ⟨⟨l2, a2⟩, d2⟩, h2, h3⟩
    simp only at h3
    split at h3
    · cases h3
    · rename_i hc
      simp only [not_or, not_not, ne_eq] at hc
      simp only [Option.some.injEq, Prod.mk.injEq] at h3
      obtain ⟨⟨e1, e2⟩, e3⟩ := h3
      subst e1
      refine ⟨a1, d1, a2, d2, h1, ?_, hc.1, e2.symm, e3.symm⟩
      rw [hc.2]; exact h2
  · rintro ⟨a1, d1, a2, d2, h1, h2, hlen, e1, e2⟩
    refine ⟨((l, a1), d1), h1, ((l, a2), d2), h2, ?_⟩
    simp [hlen, e1, e2]

theorem read_product (A : DFTA σ Q₁) (B : DFTA σ Q₂) (ha : A.Det) (hb : B.Det) (l : σ)
    (ps : List (Q₁ × Q₂)) :
    (readProduct A B).read l ps = optPair (A.read l (ps.map Prod.fst)) (B.read l (ps.map Prod.snd)) := by
  have key : ∀ v, ((l, ps), v) ∈ productRules A B ↔
      (A.read l (ps.map Prod.fst) = some v.1 ∧ B.read l (ps.map Prod.snd) = some v.2) := by
    intro v
    rw [mem_productRules]
    constructor
    · rintro ⟨a1, d1, a2, d2, h1, h2, hlen, e1, e2⟩
      subst e1 e2
      rw [List.map_fst_zip (by omega), List.map_snd_zip (by omega)]
      exact ⟨(read_eq_some_iff A ha _ _ _).mpr h1, (read_eq_some_iff B hb _ _ _).mpr h2⟩
    · rintro ⟨h1, h2⟩
      exact ⟨_, v.1, _, v.2, (read_eq_some_iff A ha _ _ _).mp h1, (read_eq_some_iff B hb _ _ _).mp h2,
        by simp, (zip_map_fst_snd ps).symm, rfl⟩
  cases h1 : A.read l (ps.map Prod.fst) with
  | none =>
    simp only [optPair]
    cases h : (readProduct A B).read l ps with
    | none => rfl
    | some v =>
      have := (key v).mp (AList.lookup_ofList_some h)
      rw [h1] at this; cases this.1
  | some d1 =>
    cases h2 : B.read l (ps.map Prod.snd) with
    | none =>
      simp only [optPair]
      cases h : (readProduct A B).read l ps with
      | none => rfl
      | some v =>
        have := (key v).mp (AList.lookup_ofList_some h)
        rw [h2] at this; cases this.2
    | some d2 =>
      simp only [optPair]
      apply AList.lookup_insertMany_of_mem
      · exact ⟨((l, ps), (d1, d2)), (key (d1, d2)).mpr ⟨h1, h2⟩, rfl⟩
      · rintro ⟨⟨l', ps'⟩, v⟩ hx hk
        simp only [Prod.mk.injEq] at hk
        obtain ⟨e1, e2⟩ := hk
        subst e1 e2
        have := (key v).mp hx
        rw [h1, h2] at this
        simp only [Option.some.injEq] at this
        exact Prod.ext this.1.symm this.2.symm

theorem run_product (A : DFTA σ Q₁) (B : DFTA σ Q₂) (ha : A.Det) (hb : B.Det) :
    ∀ t, run (readProduct A B) t = optPair (run A t) (run B t) := by
  apply run_induction
  intro l ks ih
  have aux : ∀ ks : List (Tree σ), (∀ k ∈ ks, run (readProduct A B) k = optPair (run A k) (run B k)) →
      runList (readProduct A B) ks =
        (optPair (runList A ks) (runList B ks)).map (fun p => List.zip p.1 p.2) := by
    intro ks
    induction ks with
    | nil => intro _; simp [optPair]
    | cons k ks ihk =>
      intro hk
      rw [runList_cons, runList_cons, runList_cons, hk k List.mem_cons_self,
        ihk (fun k' hk' => hk k' (List.mem_cons_of_mem _ hk'))]
      cases run A k <;> cases run B k <;> cases runList A ks <;> cases runList B ks <;> simp [optPair]
  rw [run_node, run_node, run_node, aux ks ih]
  cases hqa : runList A ks with
  | none => simp [optPair]
  | some as =>
    cases hqb : runList B ks with
    | none =>
      simp only [optPair, Option.map_none, Option.bind_none, Option.bind_some]
      cases A.read l as <;> rfl
    | some bs =>
      have hl : as.length = bs.length := by
        rw [← ((runList_eq_some_iff A ks as).mp hqa).length_eq, ((runList_eq_some_iff B ks bs).mp hqb).length_eq]
      simp only [optPair, Option.map_some, Option.bind_some]
      rw [read_product A B ha hb, List.map_fst_zip (by omega), List.map_snd_zip (by omega)]
      rfl

theorem accepts_product (A : DFTA σ Q₁) (B : DFTA σ Q₂) (ha : A.Det) (hb : B.Det) (t : Tree σ) :
    (readProduct A B).accepts t = (A.accepts t && B.accepts t) := by
  unfold accepts
  rw [run_product A B ha hb t]
  cases run A t with
  | none => simp [optPair]
  | some a =>
    cases run B t with
    | none => simp [optPair]
    | some b =>
      simp only [optPair, readProduct, List.mem_flatMap, List.mem_map, Prod.mk.injEq]
      by_cases h1 : a ∈ A.finals <;> by_cases h2 : b ∈ B.finals <;> simp [h1, h2]

end product

/-! #### `map_states` -/
section mapStates
variable {X : Type} [DecidableEq X]

theorem map_eq_of_injOn {α β : Type} (f : α → β) (S : α → Prop)
    (hinj : ∀ x, S x → ∀ y, S y → f x = f y → x = y) :
    ∀ xs ys : List α, (∀ x ∈ xs, S x) → (∀ y ∈ ys, S y) → xs.map f = ys.map f → xs = ys := by
  intro xs
  induction xs with
  | nil => intro ys _ _ h; cases ys with
    | nil => rfl
    | cons _ _ => simp at h
  | cons x xs ih =>
    intro ys hx hy h
    cases ys with
    | nil => simp at h
    | cons y ys =>
      simp only [List.map_cons, List.cons.injEq] at h
      rw [hinj x (hx x List.mem_cons_self) y (hy y List.mem_cons_self) h.1,
        ih ys (fun a ha => hx a (List.mem_cons_of_mem _ ha)) (fun a ha => hy a (List.mem_cons_of_mem _ ha)) h.2]

theorem mem_allStates_of_rule (A : DFTA σ Q) {l : σ} {args : List Q} {d : Q}
    (hr : ((l, args), d) ∈ A.rules) : d ∈ allStates A ∧ ∀ a ∈ args, a ∈ allStates A := by
  unfold allStates
  constructor
  · exact List.mem_append_left _ (List.mem_flatMap.mpr ⟨_, hr, List.mem_cons_self⟩)
  · intro a ha
    exact List.mem_append_left _ (List.mem_flatMap.mpr ⟨_, hr, List.mem_cons_of_mem _ ha⟩)

theorem read_mapStates (f : Q → X) (A : DFTA σ Q) (hd : A.Det)
    (hinj : ∀ x, x ∈ allStates A → ∀ y, y ∈ allStates A → f x = f y → x = y)
    (l : σ) (qs : List Q) (hqs : ∀ x ∈ qs, x ∈ allStates A) :
    (mapStates f A).read l (qs.map f) = (A.read l qs).map f := by
  have key : ∀ v, ((l, qs.map f), v) ∈ A.rules.map (fun rule => ((rule.1.1, rule.1.2.map f), f rule.2)) →
      ∃ d, A.read l qs = some d ∧ v = f d := by
    intro v hv
    obtain ⟨⟨⟨l', args⟩, d⟩, hr, he⟩ := List.mem_map.mp hv
    simp only [Prod.mk.injEq] at he
    obtain ⟨⟨e1, e2⟩, e3⟩ := he
    subst e1
    have := map_eq_of_injOn f (· ∈ allStates A) hinj args qs (mem_allStates_of_rule A hr).2 hqs e2
    subst this
    exact ⟨d, (read_eq_some_iff A hd _ _ _).mpr hr, e3.symm⟩
  cases h1 : A.read l qs with
  | none =>
    cases h : (mapStates f A).read l (qs.map f) with
    | none => rfl
    | some v =>
      obtain ⟨d, hd', _⟩ := key v (AList.lookup_ofList_some h)
      rw [h1] at hd'; cases hd'
  | some d =>
    simp only [Option.map_some]
    apply AList.lookup_insertMany_of_mem
    · exact ⟨((l, qs.map f), f d), List.mem_map.mpr ⟨((l, qs), d), (read_eq_some_iff A hd _ _ _).mp h1, rfl⟩, rfl⟩
    · rintro ⟨k, v⟩ hx hk
      simp only at hk
      subst hk
      obtain ⟨d', hd', e⟩ := key v hx
      rw [h1] at hd'
      simp only [Option.some.injEq] at hd'
      subst hd'; exact e

theorem run_mapStates (f : Q → X) (A : DFTA σ Q) (hd : A.Det)
    (hinj : ∀ x, x ∈ allStates A → ∀ y, y ∈ allStates A → f x = f y → x = y) (t : Tree σ) :
    run (mapStates f A) t = (run A t).map f ∧ ∀ q, run A t = some q → q ∈ allStates A :=
  run_hom A (mapStates f A) f (· ∈ allStates A)
    (fun _ _ _ _ hq => (mem_allStates_of_rule A (AList.lookup_some_mem hq)).1)
    (fun l qs hqs => read_mapStates f A hd hinj l qs hqs) t

theorem accepts_mapStates (f : Q → X) (A : DFTA σ Q) (hd : A.Det)
    (hinj : ∀ x, x ∈ allStates A → ∀ y, y ∈ allStates A → f x = f y → x = y) (t : Tree σ) :
    (mapStates f A).accepts t = A.accepts t := by
  obtain ⟨h1, h2⟩ := run_mapStates f A hd hinj t
  unfold accepts
  rw [h1]
  cases hq : run A t with
  | none => rfl
  | some q =>
    simp only [Option.map_some, mapStates, List.mem_map]
    have hqa := h2 q hq
    by_cases hf : q ∈ A.finals
    · simp only [hf, decide_true, decide_eq_true_eq]; exact ⟨q, hf, rfl⟩
    · simp only [hf, decide_false, decide_eq_false_iff_not]
      rintro ⟨q', hq', e⟩
      have : q' ∈ allStates A := List.mem_append_right _ hq'
      rw [hinj q' this q hqa e] at hq'
      exact hf hq'

end mapStates

end DFTA
end PS
