/-
  Lemmas for C10, restart part: the fuel of the model is not a restriction — a run that ends
  within its fuel is the same with any larger amount.
-/
import PS.Proofs.SolverRestart
set_option linter.unusedSimpArgs false
set_option linter.unusedSectionVars false
namespace PS.C10
open PS

variable {St P E En : Type} {prm : Params En P} {T : St → P → St × Except E (Bool × Score)}

/-- more fuel does not change a run that did not run out of fuel -/
theorem fuel_mono (k : Nat) : ∀ (fuel : Nat) (s : RSolver P) (st : St) (en : En) (pos : Nat) (dl as : List Bool),
    (driveR prm T (advanceR prm T fuel s st en pos dl) as).status ≠ .outOfFuel →
    driveR prm T (advanceR prm T (fuel + k) s st en pos dl) as = driveR prm T (advanceR prm T fuel s st en pos dl) as := by
  intro fuel
  induction fuel with
  | zero => intro s st en pos dl as h; simp [advanceR, driveR_running] at h
  | succ fuel ih =>
    intro s st en pos dl as
    rw [show fuel + 1 + k = (fuel + k) + 1 by omega, advanceR_succ, advanceR_succ]
    cases hs : prm.stream en pos with
    | none => intro _; rfl
    | some p =>
      simp only
      by_cases hd : deadlinePassed dl = true
      · intro _; simp [hd]
      · simp only [hd, if_false, Bool.false_eq_true]
        generalize T st p = r
        obtain ⟨st', a⟩ := r
        cases a with
        | error er => intro _; rfl
        | ok v =>
          obtain ⟨b, sc⟩ := v
          cases b with
          | false =>
            simp only [Bool.false_eq_true, if_false]
            exact ih _ st' _ _ dl.tail as
          | true =>
            simp only [if_true]
            cases as with
            | nil => intro _; simp [driveR]
            | cons a as' =>
              cases a with
              | true => intro _; simp [driveR, sendR, driveR_finished]
              | false =>
                simp only [driveR, sendR, Bool.false_eq_true, if_false]
                intro h
                have h' : (driveR prm T (advanceR prm T fuel (afterTest prm (testedS s sc) p en (pos + 1)).1 st'
                    (afterTest prm (testedS s sc) p en (pos + 1)).2.1 (afterTest prm (testedS s sc) p en (pos + 1)).2.2
                    dl.tail) as').status ≠ .outOfFuel := h
                rw [ih _ st' _ _ dl.tail as' h']

end PS.C10
