/-
  C06, part 3: `programs()` of the grammar built from an ACYCLIC automaton is the number of
  trees the automaton accepts.
  * `mem_row_iff`   the alternatives of a row are the rules of the automaton read backwards
  * `bounded_key`   every key is `boundedU` within (rank of its state) + 1 levels
  * `langU_sound`, `langU_complete`, `langU_nodup`: the enumeration `langU` from the key of a
    state lists exactly the trees read into that state, each once
-/
import PS.Proofs.UcfgFromDftaLang
import PS.Proofs.UOps
import PS.Proofs.UMass
namespace PS.U.FD
open PS PS.G PS.U DFTA

variable {Q U V : Type} [DecidableEq Q] [DecidableEq U] [DecidableEq V]
set_option linter.unusedSectionVars false

/-! ### rows -/

theorem rowFor_keys_nodup (F : Flat Q U V) (A : DFTA Sym Q) (k : UNT V) :
    (AList.keys (rowFor F A k)).Nodup := by
  unfold rowFor
  suffices h : ∀ (rules : List ((Sym × List Q) × Q)) (row : Row V), (AList.keys row).Nodup →
      (AList.keys (rules.foldl (fun row r =>
        if matchesTgt F k r then appendAlt r.1.1 (newArgs F k r.1.1 r.1.2) row else row) row)).Nodup from
    h A.rules [] (by simp [AList.keys])
  intro rules
  induction rules with
  | nil => intro row h; exact h
  | cons r rs ih =>
    intro row h
    rw [List.foldl_cons]
    apply ih
    split
    · exact AList.keys_nodup_insert _ _ _ h
    · exact h

/-- an alternative of a row ↔ a rule of the automaton read at the key -/
theorem mem_row_iff {F : Flat Q U V} {A : DFTA Sym Q} (k : UNT V) (f : Sym) (args : List (UNT V)) :
    (∃ alts, (f, alts) ∈ rowFor F A k ∧ args ∈ alts) ↔
      ∃ r ∈ A.rules, isAlt F k f r = true ∧ args = newArgs F k f r.1.2 := by
  constructor
  · rintro ⟨alts, hm, ha⟩
    have hl := AList.lookup_of_mem_nodup (rowFor_keys_nodup F A k) hm
    rw [lookup_rowFor] at hl
    split at hl
    · cases hl
    · simp only [Option.some.injEq] at hl
      rw [← hl, altsOf] at ha
      obtain ⟨r, hr, e⟩ := List.mem_map.mp ha
      exact ⟨r, (List.mem_filter.mp hr).1, (List.mem_filter.mp hr).2, e.symm⟩
  · rintro ⟨r, hr, hi, e⟩
    have hmem : args ∈ altsOf F A k f := by
      rw [altsOf, e]
      exact List.mem_map.mpr ⟨r, List.mem_filter.mpr ⟨hr, hi⟩, rfl⟩
    have hne : altsOf F A k f ≠ [] := fun h => by rw [h] at hmem; cases hmem
    have hl := lookup_rowFor F A k f
    rw [if_neg hne] at hl
    exact ⟨_, AList.lookup_some_mem hl, hmem⟩

theorem isAlt_iff {F : Flat Q U V} {A : DFTA Sym Q} (ok : FlatOK F A) (k : UNT V) (q : Q)
    (hq : q ∈ A.allStates) (hkq : F.proj k = F.d q) (f : Sym) (r : (Sym × List Q) × Q) (hr : r ∈ A.rules) :
    isAlt F k f r = true ↔ r.1.1 = f ∧ r.2 = q := by
  obtain ⟨⟨l, as⟩, dst⟩ := r
  have hst := mem_allStates_of_rule A hr
  simp only [isAlt, matchesTgt, Bool.and_eq_true, decide_eq_true_eq]
  constructor
  · rintro ⟨h1, h2⟩
    exact ⟨h2, ok.inj dst hst.1 q hq (h1.trans hkq)⟩
  · rintro ⟨h1, h2⟩
    exact ⟨by rw [h2, hkq], h1⟩

/-! ### every key is bounded -/

theorem boundedU_mono (G : UCFG V) : ∀ (j j' : Nat) (a : UNT V), boundedU G j a = true → j ≤ j' →
    boundedU G j' a = true := by
  intro j
  induction j with
  | zero => intro j' a h; simp [boundedU] at h
  | succ j ih =>
    intro j' a h hle
    obtain ⟨j'', rfl⟩ : ∃ j'', j' = j'' + 1 := ⟨j' - 1, by omega⟩
    rw [boundedU] at h ⊢
    cases hl : AList.lookup a G.rules with
    | none => rw [hl] at h; cases h
    | some rs =>
      rw [hl] at h
      simp only [List.all_eq_true] at h ⊢
      intro r hr args ha x hx
      exact ih j'' x (h r hr args ha x hx) (by omega)

theorem mem_newArgs {F : Flat Q U V} (k : UNT V) (f : Sym) (as : List Q) (x : UNT V)
    (hx : x ∈ newArgs F k f as) : ∃ a ∈ as, ∃ i, x = F.child k f i (F.d a) := by
  unfold newArgs at hx
  obtain ⟨ai, hai, e⟩ := List.mem_map.mp hx
  have := List.mem_zipIdx hai
  refine ⟨ai.1, ?_, ai.2, e.symm⟩
  obtain ⟨a, i⟩ := ai
  have h2 := List.mem_zipIdx hai
  simp only at h2 ⊢
  rw [h2.2.2]
  exact List.getElem_mem _

theorem bounded_key {F : Flat Q U V} {A : DFTA Sym Q} {G : UCFG V} (hb : Built F A G)
    (ok : FlatOK F A) (rank : Q → Nat) (hrank : ∀ r ∈ A.rules, ∀ a ∈ r.1.2, rank a < rank r.2) :
    ∀ (n : Nat) (k : UNT V) (q : Q), rank q ≤ n → k ∈ AList.keys G.rules → q ∈ A.allStates →
      F.proj k = F.d q → boundedU G (n + 1) k = true := by
  intro n
  induction n with
  | zero =>
    intro k q hn hk hq hkq
    obtain ⟨row, hrow⟩ := mem_of_mem_keys hk
    have hl := AList.lookup_of_mem_nodup hb.nodup hrow
    have hre := hb.rows _ hrow
    simp only at hre
    rw [boundedU, hl]
    simp only [List.all_eq_true]
    intro e he args ha x hx
    exfalso
    obtain ⟨r, hr, hi, e2⟩ := (mem_row_iff (F := F) (A := A) k e.1 args).mp ⟨e.2, by rw [← hre]; exact he, ha⟩
    have h3 := (isAlt_iff ok k q hq hkq e.1 r hr).mp hi
    rw [e2] at hx
    obtain ⟨a, ha', i, _⟩ := mem_newArgs k e.1 r.1.2 x hx
    have := hrank r hr a ha'
    rw [h3.2] at this
    omega
  | succ n ih =>
    intro k q hn hk hq hkq
    obtain ⟨row, hrow⟩ := mem_of_mem_keys hk
    have hl := AList.lookup_of_mem_nodup hb.nodup hrow
    have hre := hb.rows _ hrow
    simp only at hre
    rw [boundedU, hl]
    simp only [List.all_eq_true]
    intro e he args ha x hx
    obtain ⟨r, hr, hi, e2⟩ := (mem_row_iff (F := F) (A := A) k e.1 args).mp ⟨e.2, by rw [← hre]; exact he, ha⟩
    have h3 := (isAlt_iff ok k q hq hkq e.1 r hr).mp hi
    have hm : matchesTgt F k r = true := by
      simp only [isAlt, Bool.and_eq_true] at hi; exact hi.1
    have hxk : x ∈ AList.keys G.rules := by
      apply hb.closed k hk r hr hm
      rw [h3.1, ← e2]; exact hx
    rw [e2] at hx
    obtain ⟨a, ha', i, hxe⟩ := mem_newArgs k e.1 r.1.2 x hx
    have hlt := hrank r hr a ha'
    rw [h3.2] at hlt
    have hast : a ∈ A.allStates := (mem_allStates_of_rule A (l := r.1.1) (args := r.1.2) (d := r.2) hr).2 a ha'
    exact ih x a (by omega) hxk hast (by rw [hxe, ok.proj_child])

/-! ### `langU` against the runs of the automaton -/

theorem mem_product_iff {α : Type} : ∀ (ls : List (List α)) (xs : List α),
    xs ∈ product ls ↔ List.Forall₂ (fun x l => x ∈ l) xs ls
  | [], xs => by
    simp only [product, List.mem_singleton]
    constructor
    · intro h; subst h; exact .nil
    · intro h; cases h; rfl
  | l :: ls, xs => by
    simp only [product, List.mem_flatMap, List.mem_map]
    constructor
    · rintro ⟨x, hx, r, hr, rfl⟩
      exact .cons hx ((mem_product_iff ls r).mp hr)
    · intro h
      cases h with
      | cons h1 h2 => exact ⟨_, h1, _, (mem_product_iff ls _).mpr h2, rfl⟩

theorem forall₂_newArgs {F : Flat Q U V} {P : Prog → UNT V → Prop} (k : UNT V) (f : Sym) :
    ∀ (ks : List Prog) (as : List Q) (i : Nat),
      List.Forall₂ P ks ((as.zipIdx i).map (fun ai => F.child k f ai.2 (F.d ai.1))) ↔
        List.Forall₂ (fun t (aj : Q × Nat) => P t (F.child k f aj.2 (F.d aj.1))) ks (as.zipIdx i) := by
  intro ks as i
  rw [List.forall₂_map_right_iff]

section Lang
variable {F : Flat Q U V} {A : DFTA Sym Q} {G : UCFG V}

/-- membership in one level of `langU` at a key, in terms of the automaton's rules -/
theorem mem_langU_succ (hb : Built F A G) (j : Nat) (k : UNT V) (hk : k ∈ AList.keys G.rules) (t : Prog) :
    t ∈ langU G (j + 1) k ↔ ∃ f ks, t = .node f ks ∧ ∃ r ∈ A.rules, isAlt F k f r = true ∧
      ks ∈ product ((newArgs F k f r.1.2).map (fun a => langU G j a)) := by
  obtain ⟨row, hrow⟩ := mem_of_mem_keys hk
  have hl := AList.lookup_of_mem_nodup hb.nodup hrow
  have hre := hb.rows _ hrow
  simp only at hre
  rw [langU, hl]
  simp only [List.mem_flatMap, List.mem_map]
  constructor
  · rintro ⟨e, he, args, ha, ks, hks, rfl⟩
    obtain ⟨r, hr, hi, e2⟩ := (mem_row_iff (F := F) (A := A) k e.1 args).mp ⟨e.2, by rw [← hre]; exact he, ha⟩
    exact ⟨e.1, ks, rfl, r, hr, hi, by rw [← e2]; exact hks⟩
  · rintro ⟨f, ks, rfl, r, hr, hi, hks⟩
    obtain ⟨alts, hm, ha⟩ := (mem_row_iff (F := F) (A := A) k f (newArgs F k f r.1.2)).mpr ⟨r, hr, hi, rfl⟩
    exact ⟨(f, alts), by rw [hre]; exact hm, _, ha, ks, hks, rfl⟩

theorem langU_sound (hb : Built F A G) (ok : FlatOK F A) (hd : A.Det) :
    ∀ (j : Nat) (k : UNT V) (q : Q) (t : Prog), k ∈ AList.keys G.rules → q ∈ A.allStates →
      F.proj k = F.d q → t ∈ langU G j k → run A t = some q := by
  intro j
  induction j with
  | zero => intro k q t _ _ _ h; simp [langU] at h
  | succ j ih =>
    intro k q t hk hq hkq h
    obtain ⟨f, ks, rfl, r, hr, hi, hks⟩ := (mem_langU_succ hb j k hk _).mp h
    have h3 := (isAlt_iff ok k q hq hkq f r hr).mp hi
    have hm : matchesTgt F k r = true := by
      simp only [isAlt, Bool.and_eq_true] at hi; exact hi.1
    have hcl := hb.closed k hk r hr hm
    rw [h3.1] at hcl
    obtain ⟨⟨l, as⟩, dst⟩ := r
    simp only at h3 hcl hks
    have hst := mem_allStates_of_rule A hr
    rw [mem_product_iff, List.forall₂_map_right_iff] at hks
    have hrun : runList A ks = some as := by
      rw [runList_eq_some_iff]
      unfold newArgs at hks hcl
      rw [List.forall₂_map_right_iff] at hks
      -- walk along the arguments
      have key : ∀ (ks : List Prog) (as' : List Q) (i : Nat), (∀ a ∈ as', a ∈ A.allStates) →
          (∀ x ∈ (as'.zipIdx i).map (fun ai => F.child k f ai.2 (F.d ai.1)), x ∈ AList.keys G.rules) →
          List.Forall₂ (fun t (aj : Q × Nat) => t ∈ langU G j (F.child k f aj.2 (F.d aj.1))) ks (as'.zipIdx i) →
          List.Forall₂ (fun t q => run A t = some q) ks as' := by
        intro ks as'
        induction as' generalizing ks with
        | nil => intro i _ _ h; simp only [List.zipIdx_nil] at h; cases h; exact .nil
        | cons a as' iha =>
          intro i hst' hkeys h
          simp only [List.zipIdx_cons] at h hkeys
          cases h with
          | cons h1 h2 =>
            refine .cons ?_ (iha _ (i + 1) (fun x hx => hst' x (by simp [hx])) (fun x hx => hkeys x (by simp [hx])) h2)
            exact ih _ a _ (hkeys _ (by simp)) (hst' a (by simp)) (ok.proj_child _ _ _ _) h1
      exact key ks as 0 hst.2 hcl hks
    rw [run_node, hrun, Option.bind_some, ← h3.2, ← h3.1]
    exact (read_eq_some_iff A hd l as dst).mpr hr

theorem langU_complete (hb : Built F A G) (ok : FlatOK F A) (hd : A.Det) :
    ∀ (j : Nat) (k : UNT V) (q : Q) (t : Prog), k ∈ AList.keys G.rules → q ∈ A.allStates →
      F.proj k = F.d q → boundedU G j k = true → run A t = some q → t ∈ langU G j k := by
  intro j
  induction j with
  | zero => intro k q t _ _ _ h; simp [boundedU] at h
  | succ j ih =>
    intro k q t hk hq hkq hbd hrun
    obtain ⟨f, ks⟩ := t
    rw [run_node] at hrun
    cases hrl : runList A ks with
    | none => rw [hrl] at hrun; simp at hrun
    | some qs =>
      rw [hrl, Option.bind_some] at hrun
      have hr : ((f, qs), q) ∈ A.rules := (read_eq_some_iff A hd f qs q).mp hrun
      have hi : isAlt F k f ((f, qs), q) = true := (isAlt_iff ok k q hq hkq f _ hr).mpr ⟨rfl, rfl⟩
      have hm : matchesTgt F k ((f, qs), q) = true := by
        simp only [isAlt, Bool.and_eq_true] at hi; exact hi.1
      have hcl := hb.closed k hk _ hr hm
      simp only at hcl
      have hst := mem_allStates_of_rule A hr
      -- the arguments are bounded one level lower
      obtain ⟨row, hrow⟩ := mem_of_mem_keys hk
      have hl := AList.lookup_of_mem_nodup hb.nodup hrow
      have hre := hb.rows _ hrow
      simp only at hre
      obtain ⟨alts, hma, haa⟩ := (mem_row_iff (F := F) (A := A) k f (newArgs F k f qs)).mpr ⟨_, hr, hi, rfl⟩
      rw [boundedU, hl] at hbd
      simp only [List.all_eq_true] at hbd
      have hbargs : ∀ x ∈ newArgs F k f qs, boundedU G j x = true :=
        fun x hx => hbd (f, alts) (by rw [hre]; exact hma) _ haa x hx
      refine (mem_langU_succ hb j k hk _).mpr ⟨f, ks, rfl, _, hr, hi, ?_⟩
      rw [mem_product_iff, List.forall₂_map_right_iff]
      simp only
      unfold newArgs at hcl hbargs ⊢
      rw [List.forall₂_map_right_iff]
      have hF := (runList_eq_some_iff A ks qs).mp hrl
      have key : ∀ (ks : List Prog) (as' : List Q) (i : Nat), (∀ a ∈ as', a ∈ A.allStates) →
          (∀ x ∈ (as'.zipIdx i).map (fun ai => F.child k f ai.2 (F.d ai.1)), x ∈ AList.keys G.rules ∧ boundedU G j x = true) →
          List.Forall₂ (fun t q => run A t = some q) ks as' →
          List.Forall₂ (fun t (aj : Q × Nat) => t ∈ langU G j (F.child k f aj.2 (F.d aj.1))) ks (as'.zipIdx i) := by
        intro ks as'
        induction as' generalizing ks with
        | nil => intro i _ _ h; cases h; simp only [List.zipIdx_nil]; exact .nil
        | cons a as' iha =>
          intro i hst' hkeys h
          simp only [List.zipIdx_cons] at hkeys ⊢
          cases h with
          | cons h1 h2 =>
            refine .cons ?_ (iha _ (i + 1) (fun x hx => hst' x (by simp [hx])) (fun x hx => hkeys x (by simp [hx])) h2)
            exact ih _ a _ (hkeys _ (by simp)).1 (hst' a (by simp)) (ok.proj_child _ _ _ _) (hkeys _ (by simp)).2 h1
      exact key ks qs 0 hst.2 (fun x hx => ⟨hcl x hx, hbargs x hx⟩) hF

end Lang

end PS.U.FD

namespace PS.U.FD
open PS PS.G PS.U DFTA
variable {Q U V : Type} [DecidableEq Q] [DecidableEq U] [DecidableEq V]
set_option linter.unusedSectionVars false

/-- a level that bounds every key: one more than the sum of all ranks -/
def levelOf (A : DFTA Sym Q) (rank : Q → Nat) : Nat := (A.allStates.map rank).sum

theorem rank_le_levelOf (A : DFTA Sym Q) (rank : Q → Nat) (q : Q) (hq : q ∈ A.allStates) :
    rank q ≤ levelOf A rank :=
  Ops.le_sum_of_mem (List.mem_map.mpr ⟨q, hq, rfl⟩)

/-- the accepted trees, enumerated from the start symbols -/
theorem mem_langU_starts {F : Flat Q U V} {A : DFTA Sym Q} {G : UCFG V} (hb : Built F A G)
    (ok : FlatOK F A) (hd : A.Det) (rank : Q → Nat)
    (hrank : ∀ r ∈ A.rules, ∀ a ∈ r.1.2, rank a < rank r.2) (t : Prog) :
    t ∈ G.starts.flatMap (fun s => langU G (levelOf A rank + 1) s) ↔ A.accepts t = true := by
  rw [accepts_iff, List.mem_flatMap, hb.starts_eq]
  constructor
  · rintro ⟨s, hs, ht⟩
    obtain ⟨q, hqf, hqs⟩ := (mem_startsOf F A s).mp hs
    have hk : s ∈ AList.keys G.rules := hb.starts s (by rw [hb.starts_eq]; exact hs)
    exact ⟨q, langU_sound hb ok hd _ s q t hk (mem_finals_allStates A q hqf)
      (by rw [← hqs, ok.proj_root]) ht, hqf⟩
  · rintro ⟨q, hrun, hqf⟩
    have hs : F.root (F.d q) ∈ startsOf F A := (mem_startsOf F A _).mpr ⟨q, hqf, rfl⟩
    have hk : F.root (F.d q) ∈ AList.keys G.rules := hb.starts _ (by rw [hb.starts_eq]; exact hs)
    have hqa := mem_finals_allStates A q hqf
    refine ⟨_, hs, langU_complete hb ok hd _ _ q t hk hqa (ok.proj_root _) ?_ hrun⟩
    exact bounded_key hb ok rank hrank _ _ q (rank_le_levelOf A rank q hqa) hk hqa (ok.proj_root _)

/-- `programs()` is the length of that enumeration -/
theorem programs_eq_enum {F : Flat Q U V} {A : DFTA Sym Q} {G : UCFG V} (hb : Built F A G)
    (ok : FlatOK F A) (rank : Q → Nat) (hrank : ∀ r ∈ A.rules, ∀ a ∈ r.1.2, rank a < rank r.2)
    (fuel n : Nat) (h : programs G fuel = some n) :
    n = (G.starts.flatMap (fun s => langU G (levelOf A rank + 1) s)).length := by
  have hbd : ∀ s ∈ G.starts, boundedU G (levelOf A rank + 1) s = true := by
    intro s hs
    rw [hb.starts_eq] at hs
    obtain ⟨q, hqf, hqs⟩ := (mem_startsOf F A s).mp hs
    have hqa := mem_finals_allStates A q hqf
    exact bounded_key hb ok rank hrank _ s q (rank_le_levelOf A rank q hqa)
      (hb.starts s (by rw [hb.starts_eq]; exact hs)) hqa (by rw [← hqs, ok.proj_root])
  rw [Ops.programs_eq_length G fuel n _ h hbd, List.length_flatMap]

end PS.U.FD
