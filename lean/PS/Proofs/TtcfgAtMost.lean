/-
  C13, part 5: the language of the rule-creation step of `TTCFG.at_most_k` is the
  occurrence-bounded language of the statement.  State = occurrences left; a sub-term `t`
  entered with `o` left is accepted iff it is well typed and `occ t ≤ o`, and leaves `o - occ t`.
-/
import PS.Proofs.TtcfgSize
namespace PS.T
open PS PS.G

theorem atMostTransition_unified (dsl : Dsl) (name : String) (ty : Ty) (ctx : Ctx) (o : Nat) (P : Sym) :
    ((atMostTransition dsl name (ty, (ctx, o)) P).1 = true ↔
        forbHit dsl ctx.head? P = false ∧ (if symStr P = name then 1 else 0) ≤ o) ∧
    ((atMostTransition dsl name (ty, (ctx, o)) P).1 = true →
        (atMostTransition dsl name (ty, (ctx, o)) P).2 = o - (if symStr P = name then 1 else 0)) := by
  unfold atMostTransition
  simp only
  cases hf : forbHit dsl ctx.head? P with
  | true => simp
  | false =>
    simp only [Bool.false_eq_true, if_false]
    by_cases hn : symStr P = name
    · simp [hn]; omega
    · simp [hn]

theorem decorate_atMost (dsl : Dsl) (nG : Int) (name : String) (k : Nat) (rule : NT Ctx Nat) (f : Sym) (tys : List Ty) :
    decorate (atMostBuilder dsl nG name k) rule f tys = argsFrom nG rule.2.1 f 0 tys := by
  simp [decorate, atMostBuilder, argsFrom, enumFrom', List.map_map, Function.comp_def]

section Main
variable (dsl : Dsl) (hwf : wfDsl dsl = true) (request : Ty) (nG : Int) (name : String) (k : Nat)

def OccTreeInv (t : Prog) : Prop :=
  ∀ (ty : Ty) (ctx : Ctx) (o w : Nat), CtxOK nG ctx →
    (run (idealFn (atMostBuilder dsl nG name k) dsl request) t (ty, ctx) o = some w ↔
      (wtT dsl request (effParentT nG) t ctx.head? ty = true ∧ occ name t ≤ o ∧ w = o - occ name t))

def OccListInv (ks : List Prog) : Prop :=
  ∀ (f : Sym) (ctx : Ctx) (i : Nat) (tys : List Ty) (o w : Nat), CtxOK nG ctx →
    (runList (idealFn (atMostBuilder dsl nG name k) dsl request) ks (argsFrom nG ctx f i tys) o = some w ↔
      (wtTList dsl request (effParentT nG) ks f i tys = true ∧ occList name ks ≤ o ∧ w = o - occList name ks))

include hwf in
theorem occ_node (f : Sym) (kids : List Prog) (ihl : OccListInv dsl request nG name k kids) :
    OccTreeInv dsl request nG name k (.node f kids) := by
  intro ty ctx o w hctx
  rw [run, wtT_node]
  simp only [occ]
  obtain ⟨u1, u2⟩ := atMostTransition_unified dsl name ty ctx o f
  constructor
  · intro h
    cases hr : idealFn (atMostBuilder dsl nG name k) dsl request (ty, (ctx, o)) f with
    | none => simp [hr] at h
    | some val =>
      obtain ⟨args, st⟩ := val
      simp only [hr] at h
      obtain ⟨c, hc, hcf, htr, hval⟩ := (idealFn_iff _ dsl hwf request _ f _).mp hr
      simp only at hc
      have htr' : (atMostTransition dsl name (ty, (ctx, o)) f).1 = true := htr
      obtain ⟨hforb, hbound⟩ := u1.mp htr'
      have hst := u2 htr'
      simp only [Prod.mk.injEq] at hval
      obtain ⟨hargs, hst2⟩ := hval
      rw [hargs, decorate_atMost] at h
      have hst3 : st = o - (if symStr f = name then 1 else 0) := by rw [hst2]; exact hst
      rw [hst3] at h
      obtain ⟨hw1, hw2, hw3⟩ := (ihl f ctx 0 c.2 _ w hctx).mp h
      exact ⟨⟨hforb, c, hc, hcf, hw1⟩, by omega, by omega⟩
  · rintro ⟨⟨hforb, c, hc, hcf, hwl⟩, hbound, hw⟩
    have htr : (atMostTransition dsl name (ty, (ctx, o)) f).1 = true := u1.mpr ⟨hforb, by omega⟩
    have hst := u2 htr
    have hr : idealFn (atMostBuilder dsl nG name k) dsl request (ty, (ctx, o)) f
        = some (decorate (atMostBuilder dsl nG name k) (ty, (ctx, o)) f c.2,
                ((atMostBuilder dsl nG name k).transition (ty, (ctx, o)) f).2) :=
      (idealFn_iff _ dsl hwf request _ f _).mpr ⟨c, hc, hcf, htr, rfl⟩
    rw [hr]
    simp only
    rw [decorate_atMost]
    have hst' : ((atMostBuilder dsl nG name k).transition (ty, (ctx, o)) f).2 = o - (if symStr f = name then 1 else 0) := hst
    rw [hst']
    apply (ihl f ctx 0 c.2 _ w hctx).mpr
    exact ⟨hwl, by omega, by omega⟩

theorem occ_list_nil : OccListInv dsl request nG name k [] := by
  intro f ctx i tys o w _
  cases tys with
  | nil =>
    simp only [argsFrom, List.zipIdx_nil, List.map_nil, runList, wtTList, occList, Nat.sub_zero, true_and,
      Option.some.injEq, Nat.zero_le]
    constructor <;> intro h <;> exact h.symm
  | cons ty tys =>
    rw [argsFrom_cons]
    simp [runList, wtTList]

theorem occ_list_cons (t : Prog) (ks : List Prog) (iht : OccTreeInv dsl request nG name k t)
    (ihl : OccListInv dsl request nG name k ks) : OccListInv dsl request nG name k (t :: ks) := by
  intro f ctx i tys o w hctx
  cases tys with
  | nil => simp [argsFrom, runList, wtTList]
  | cons ty tys =>
    rw [argsFrom_cons, runList, wtTList]
    obtain ⟨hhead, hctx'⟩ := successor_head nG ctx (f, i) hctx
    have hk := iht ty (successor nG ctx (f, i)) o
    simp only [occList]
    constructor
    · intro h
      cases hr : run (idealFn (atMostBuilder dsl nG name k) dsl request) t (ty, successor nG ctx (f, i)) o with
      | none => simp [hr] at h
      | some v1 =>
        simp only [hr] at h
        obtain ⟨hwk, hbk, hv1⟩ := (hk v1 hctx').mp hr
        rw [hhead] at hwk
        rw [hv1] at h
        obtain ⟨hwl, hbl, hw⟩ := (ihl f ctx (i + 1) tys _ w hctx).mp h
        exact ⟨by simp [hwk, hwl], by omega, by omega⟩
    · rintro ⟨hwt, hb, hw⟩
      rw [Bool.and_eq_true] at hwt
      obtain ⟨hwk, hwl⟩ := hwt
      have hr : run (idealFn (atMostBuilder dsl nG name k) dsl request) t (ty, successor nG ctx (f, i)) o
          = some (o - occ name t) := by
        apply (hk _ hctx').mpr
        rw [hhead]
        exact ⟨hwk, by omega, rfl⟩
      rw [hr]
      simp only
      apply (ihl f ctx (i + 1) tys _ w hctx).mpr
      exact ⟨hwl, by omega, by omega⟩

include hwf in
theorem occ_inv : ∀ n : Nat,
    (∀ t : Prog, Tree.size t ≤ n → OccTreeInv dsl request nG name k t) ∧
    (∀ ks : List Prog, Tree.sizeList ks ≤ n → OccListInv dsl request nG name k ks) := by
  intro n
  induction n with
  | zero =>
    constructor
    · intro t ht; cases t with | node f kids => simp [Tree.size] at ht
    · intro ks hks
      cases ks with
      | nil => exact occ_list_nil dsl request nG name k
      | cons t ks => cases t with | node f kids => simp [Tree.sizeList, Tree.size] at hks
  | succ n ih =>
    have node_case : ∀ (f : Sym) (kids : List Prog), Tree.sizeList kids ≤ n →
        OccTreeInv dsl request nG name k (.node f kids) :=
      fun f kids hs => occ_node dsl hwf request nG name k f kids (ih.2 kids hs)
    constructor
    · intro t ht
      cases t with
      | node f kids => exact node_case f kids (by simp [Tree.size] at ht; omega)
    · intro ks hks
      cases ks with
      | nil => exact occ_list_nil dsl request nG name k
      | cons t ks =>
        have hpos : 1 ≤ Tree.size t := by cases t with | node f kids => simp [Tree.size]
        have hks' : Tree.sizeList ks ≤ n := by simp [Tree.sizeList] at hks; omega
        refine occ_list_cons dsl request nG name k t ks ?_ (ih.2 ks hks')
        cases t with
        | node f kids => exact node_case f kids (by simp [Tree.sizeList, Tree.size] at hks; omega)

end Main

/-- **the rule-creation step of `at_most_k` generates exactly the occurrence-bounded language**
    (as far as the n-gram shows the parent), for every DSL, request, primitive, bound, n-gram
    width and program - finite or not. -/
theorem atMost_ideal_lang (dsl : Dsl) (hwf : wfDsl dsl = true) (request : Ty) (nG : Int) (name : String) (k : Nat)
    (t : Prog) :
    (run (idealFn (atMostBuilder dsl nG name k) dsl request) t (request.returns, []) k).isSome
      = AtMostOccVis dsl request nG name k t := by
  have h := (occ_inv dsl hwf request nG name k (Tree.size t)).1 t (Nat.le_refl _) request.returns [] k
  have hctx : CtxOK nG [] := fun _ => rfl
  unfold AtMostOccVis
  cases hr : run (idealFn (atMostBuilder dsl nG name k) dsl request) t (request.returns, []) k with
  | some w =>
    have := (h w hctx).mp hr
    simp only [List.head?_nil] at this
    simp [this.1, this.2.1]
  | none =>
    simp only [Option.isSome_none]
    symm
    rw [Bool.and_eq_false_iff]
    by_cases hw : wtT dsl request (effParentT nG) t none request.returns = true
    · right
      by_cases hs : occ name t ≤ k
      · exfalso
        have := (h (k - occ name t) hctx).mpr ⟨by simpa using hw, hs, rfl⟩
        rw [hr] at this; cases this
      · simpa using hs
    · left; simpa using hw

end PS.T
