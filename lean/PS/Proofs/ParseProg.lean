/-
  C15 — helper lemmas for the program parser: `parse_stack` rebuilds an applicative term from
  its leaves (in print order) and the per-word call counts computed by the bookkeeping loop.
-/
import PS.Model.Parse
namespace PS.C15
open PS

mutual
  /-- the words of the printed program, as leaf programs, in print order -/
  def leaves : Prog → List Prog
    | .node .app ks => leavesL ks
    | .node l ks => [.node l ks]
  def leavesL : List Prog → List Prog
    | [] => []
    | t :: ts => leaves t ++ leavesL ts
end

mutual
  /-- `function_calls`: for every word, the number of arguments written after it inside its
      own parentheses (0 for a word that is not the head of a call) -/
  def calls : Prog → List Nat
    | .node .app [] => []
    | .node .app (_ :: args) => args.length :: callsL args
    | .node _ _ => [0]
  def callsL : List Prog → List Nat
    | [] => []
    | t :: ts => calls t ++ callsL ts
end

theorem isLeaf_leaves {f : Prog} (h : isLeaf f = true) : leaves f = [f] := by
  obtain ⟨l, ks⟩ := f
  cases l <;> simp_all [isLeaf, leaves]

theorem isLeaf_not_app {f : Prog} (h : isLeaf f = true) : ∀ ks, f ≠ .node .app ks := by
  intro ks hf; subst hf; simp [isLeaf] at h

/-- decomposition of the guard on an application -/
theorem goodProg_app {dsl : Dsl} {tr : TyO} {consts : Consts} {ks : List Prog}
    (h : goodProg dsl tr consts (.node .app ks) = true) :
    ∃ f a as, ks = f :: a :: as ∧ isLeaf f = true ∧
      (a :: as).length ≤ (arguments (progType f)).length ∧
      goodProg dsl tr consts f = true ∧ goodProgs dsl tr consts (a :: as) = true := by
  match ks, h with
  | [], h => simp [goodProg] at h
  | [_], h => simp [goodProg] at h
  | f :: a :: as, h =>
    simp only [goodProg, goodProgs, Bool.and_eq_true, decide_eq_true_eq] at h
    exact ⟨f, a, as, rfl, h.1.1, h.1.2, h.2.1, by simp [goodProgs, h.2.2.1, h.2.2.2]⟩

theorem leaves_ne_nil {dsl : Dsl} {tr : TyO} {consts : Consts} (t : Prog)
    (h : goodProg dsl tr consts t = true) : leaves t ≠ [] := by
  obtain ⟨l, ks⟩ := t
  cases l with
  | app =>
    obtain ⟨f, a, as, rfl, hf, _, _, _⟩ := goodProg_app h
    simp [leaves, leavesL, isLeaf_leaves hf]
  | _ => simp [leaves]

theorem arguments_isArrow {t : TyO} (h : 0 < (arguments t).length) : isArrow t = true := by
  obtain ⟨l, ks⟩ := t
  cases l <;> simp_all [arguments, isArrow, tyArguments, Tree.size]

/-- the result of reading one operand: the term, and — unless the operand was the very last
    word, which `parse_stack` returns without removing it — exactly the remaining words -/
def StackOk (t : Prog) (fuel : Nat) (L : List Prog) (C : List Nat) : Prop :=
  ∃ L' C', parseStack fuel (leaves t ++ L) (calls t ++ C) = .ok (t, L', C') ∧ (L ≠ [] → L' = L ∧ C' = C)

def ArgsOk (ts : List Prog) (fuel : Nat) (L : List Prog) (C : List Nat) : Prop :=
  ∃ L' C', parseStack.args fuel ts.length (leavesL ts ++ L) (callsL ts ++ C) = .ok (ts, L', C') ∧
    (L ≠ [] → L' = L ∧ C' = C)

theorem stack_leaf (t : Prog) (hl : isLeaf t = true) (fuel : Nat) (L : List Prog) (C : List Nat) :
    StackOk t (fuel + 1) L C := by
  have h1 : leaves t = [t] := isLeaf_leaves hl
  have h2 : calls t = [0] := by
    obtain ⟨l, ks⟩ := t
    cases l <;> simp_all [isLeaf, calls]
  unfold StackOk
  rw [h1, h2]
  cases L with
  | nil => exact ⟨[t], 0 :: C, by simp [parseStack], by simp⟩
  | cons x L2 => exact ⟨x :: L2, C, by simp [parseStack], by simp⟩

theorem take_length_of_le {α} (n : Nat) (l : List α) (h : n ≤ l.length) : (l.take n).length = n := by
  simp [List.length_take, Nat.min_eq_left h]

mutual
  theorem stack_ok (dsl : Dsl) (tr : TyO) (consts : Consts) :
      (t : Prog) → goodProg dsl tr consts t = true → ∀ fuel L C, Tree.depth t ≤ fuel → StackOk t fuel L C
    | .node .app [], h => by simp [goodProg] at h
    | .node .app [_], h => by simp [goodProg] at h
    | .node .app (f :: a :: as), h => by
      intro fuel L C hd
      obtain ⟨f', a', as', heq, hf, hlen, _, hgs⟩ := goodProg_app h
      cases heq
      cases fuel with
      | zero => simp [Tree.depth] at hd
      | succ fuel =>
        have hd2 : Tree.depthList (a :: as) ≤ fuel := by
          simp only [Tree.depth, Tree.depthList] at hd ⊢
          omega
        obtain ⟨L', C', hargs, hex⟩ := args_ok dsl tr consts (a :: as) hgs fuel L C hd2
        refine ⟨L', C', ?_, hex⟩
        have hne : leavesL (a :: as) ++ L ≠ [] := by
          have hga : goodProg dsl tr consts a = true := by
            simp [goodProgs] at hgs; exact hgs.1
          have := leaves_ne_nil a hga
          simp [leavesL, this]
        have harrow : isArrow (progType f) = true :=
          arguments_isArrow (Nat.lt_of_lt_of_le (by simp) hlen)
        have htake : ((arguments (progType f)).take (a :: as).length).length = (a :: as).length :=
          take_length_of_le _ _ hlen
        simp only [leaves, leavesL, calls, callsL, isLeaf_leaves hf, List.cons_append, List.nil_append,
          List.append_assoc] at hargs hne ⊢
        revert hargs
        cases hrest : leaves a ++ (leavesL as ++ L) with
        | nil => exact absurd hrest hne
        | cons x xs =>
          intro hargs
          rw [parseStack]
          have hpos : (a :: as).length > 0 := by simp
          simp only [harrow, true_and, hpos, if_true]
          rw [htake, hargs]
          rfl
          intro hh; cases hh
    | .node (.prim n ty) ks, h => by
      intro fuel L C hd
      cases fuel with
      | zero => simp [Tree.depth] at hd
      | succ fuel =>
        have : ks = [] := by simp [goodProg] at h; exact h.1
        exact stack_leaf _ (by simp [isLeaf, this]) fuel L C
    | .node (.var n ty) ks, h => by
      intro fuel L C hd
      cases fuel with
      | zero => simp [Tree.depth] at hd
      | succ fuel =>
        have : ks = [] := by simp [goodProg] at h; exact h.1
        exact stack_leaf _ (by simp [isLeaf, this]) fuel L C
    | .node (.const ty v hv) ks, h => by
      intro fuel L C hd
      cases fuel with
      | zero => simp [Tree.depth] at hd
      | succ fuel =>
        have : ks = [] := by simp [goodProg] at h; exact h.1
        exact stack_leaf _ (by simp [isLeaf, this]) fuel L C
  theorem args_ok (dsl : Dsl) (tr : TyO) (consts : Consts) :
      (ts : List Prog) → goodProgs dsl tr consts ts = true → ∀ fuel L C, Tree.depthList ts ≤ fuel → ArgsOk ts fuel L C
    | [], _ => by
      intro fuel L C _
      exact ⟨L, C, by simp [leavesL, callsL, parseStack.args], fun _ => ⟨rfl, rfl⟩⟩
    | a :: as, h => by
      intro fuel L C hd
      have hga : goodProg dsl tr consts a = true := by simp [goodProgs] at h; exact h.1
      have hgas : goodProgs dsl tr consts as = true := by simp [goodProgs] at h; exact h.2
      have hda : Tree.depth a ≤ fuel := by simp only [Tree.depthList] at hd; omega
      have hdas : Tree.depthList as ≤ fuel := by simp only [Tree.depthList] at hd; omega
      obtain ⟨L1, C1, h1, hex1⟩ := stack_ok dsl tr consts a hga fuel (leavesL as ++ L) (callsL as ++ C) hda
      cases as with
      | nil =>
        refine ⟨L1, C1, ?_, ?_⟩
        · simp only [leavesL, callsL, List.length_cons, List.length_nil, List.append_assoc] at h1 ⊢
          rw [parseStack.args, h1]
          simp [parseStack.args]
        · intro hL
          exact hex1 (by simpa [leavesL] using hL)
      | cons b bs =>
        have hgb : goodProg dsl tr consts b = true := by simp [goodProgs] at hgas; exact hgas.1
        have hne : leavesL (b :: bs) ++ L ≠ [] := by
          have := leaves_ne_nil b hgb
          simp [leavesL, this]
        obtain ⟨e1, e2⟩ := hex1 hne
        subst e1; subst e2
        obtain ⟨L2, C2, h2, hex2⟩ := args_ok dsl tr consts (b :: bs) hgas fuel L C hdas
        refine ⟨L2, C2, ?_, hex2⟩
        have e : leavesL (a :: b :: bs) ++ L = leaves a ++ (leavesL (b :: bs) ++ L) := by
          simp [leavesL, List.append_assoc]
        have e' : callsL (a :: b :: bs) ++ C = calls a ++ (callsL (b :: bs) ++ C) := by
          simp [callsL, List.append_assoc]
        rw [e, e', List.length_cons, parseStack.args, h1]
        simp only [h2]
end

/-! ## single words -/

theorem parseNat_showNat (k : Nat) : parseNat (showNat k) = some k := by
  unfold parseNat showNat
  rw [Nat.toList_repr]
  have h1 : Nat.toDigits 10 k ≠ [] := Nat.toDigits_ne_nil
  have h2 : (Nat.toDigits 10 k).all Char.isDigit = true := by
    rw [List.all_eq_true]
    intro c hc
    exact Nat.isDigit_of_mem_toDigits (by decide) (by decide) hc
  simp [h1, h2]

theorem dropWhile_append_all {α} (p : α → Bool) (l r : List α) (h : ∀ x ∈ l, p x = true) :
    (l ++ r).dropWhile p = r.dropWhile p := by
  induction l with
  | nil => rfl
  | cons x xs ih =>
    have hx : p x = true := h x (by simp)
    simp only [List.cons_append, List.dropWhile_cons, hx, if_true]
    exact ih (fun y hy => h y (by simp [hy]))

theorem dropWhile_none {α} (p : α → Bool) (l : List α) (h : ∀ x ∈ l, p x = false) :
    l.dropWhile p = l := by
  cases l with
  | nil => rfl
  | cons x xs => simp [List.dropWhile_cons, h x (by simp)]

theorem goodWord_not_paren {w : Str} (h : goodWord w = true) : ∀ x ∈ w, isParen x = false := by
  intro x hx
  simp only [goodWord, Bool.and_eq_true, List.all_eq_true] at h
  have := h.2 x hx
  simp only [bne_iff_ne, ne_eq, Bool.and_eq_true] at this
  simp [isParen, this.1.2, this.2]

/-- `strip("()")` removes exactly the parentheses written around a word -/
theorem strip_word (o c w : Str) (ho : ∀ x ∈ o, isParen x = true) (hc : ∀ x ∈ c, isParen x = true)
    (hw : goodWord w = true) : stripParens (o ++ w ++ c) = w := by
  have hnp := goodWord_not_paren hw
  have hne : w ≠ [] := by intro h; subst h; simp [goodWord] at hw
  unfold stripParens
  rw [List.append_assoc, dropWhile_append_all _ _ _ ho]
  have h1 : (w ++ c).dropWhile isParen = w ++ c := by
    cases w with
    | nil => exact absurd rfl hne
    | cons x xs => simp [List.dropWhile_cons, hnp x (by simp)]
  rw [h1, List.reverse_append,
    dropWhile_append_all _ _ _ (fun x hx => hc x (List.mem_reverse.mp hx)),
    dropWhile_none _ _ (fun x hx => hnp x (List.mem_reverse.mp hx)), List.reverse_reverse]

theorem showNat_goodWord (k : Nat) : goodWord (VAR ++ showNat k) = true := by
  unfold goodWord showNat
  rw [Nat.toList_repr]
  simp only [List.all_append, Bool.and_eq_true, Bool.not_eq_true']
  refine ⟨by simp [VAR], by decide, ?_⟩
  rw [List.all_eq_true]
  intro c hc
  have hd : c.isDigit = true := Nat.isDigit_of_mem_toDigits (by decide) (by decide) hc
  simp only [Char.isDigit, Bool.and_eq_true, decide_eq_true_eq] at hd
  have h1 : c ≠ ' ' := by intro h; subst h; revert hd; decide
  have h2 : c ≠ '(' := by intro h; subst h; revert hd; decide
  have h3 : c ≠ ')' := by intro h; subst h; revert hd; decide
  simp [h1, h2, h3]

/-- the printed form of a leaf -/
def leafWord : PL → Str
  | .prim n _ => n
  | .var k _ => VAR ++ showNat k
  | .const _ v _ => v
  | .app => []

theorem leafWord_good {dsl : Dsl} {tr : TyO} {consts : Consts} {l : PL}
    (h : goodLeaf dsl tr consts l = true) : goodWord (leafWord l) = true := by
  cases l with
  | prim n ty => simp [goodLeaf] at h; exact h.1
  | var k ty => exact showNat_goodWord k
  | const ty v hv => simp [goodLeaf] at h; exact h.1.1.1.2
  | app => simp [goodLeaf] at h

/-- **one word**: a good leaf, printed and wrapped in any number of parentheses, is read back as
    itself (with its type) by the word branch of `parse_program`. -/
theorem parseAtom_leaf (dsl : Dsl) (tr : TyO) (consts : Consts) (l : PL) (o c : Str)
    (ho : ∀ x ∈ o, isParen x = true) (hc : ∀ x ∈ c, isParen x = true)
    (h : goodLeaf dsl tr consts l = true) :
    parseAtom dsl tr consts (o ++ leafWord l ++ c) = .ok (.node l []) := by
  unfold parseAtom
  simp only [strip_word o c _ ho hc (leafWord_good h)]
  cases l with
  | prim n ty =>
    simp only [goodLeaf, Bool.and_eq_true, beq_iff_eq] at h
    simp [leafWord, h.2]
  | var k ty =>
    simp only [goodLeaf, Bool.and_eq_true, Option.isNone_iff_eq_none] at h
    have hp : VAR.isPrefixOf (VAR ++ showNat k) = true := by simp [VAR, List.isPrefixOf]
    have hd : (VAR ++ showNat k).drop 3 = showNat k := by simp [VAR]
    simp only [leafWord, h.2, hp, hd, parseNat_showNat, if_true]
    by_cases ha : isArrow tr = true
    · simp only [ha, if_true] at h ⊢
      have := h.1
      simp only [beq_iff_eq] at this
      simp [this]
    · simp only [ha] at h ⊢
      have := h.1
      simp at this
      simp [this]
  | const ty v hv =>
    simp only [goodLeaf, Bool.and_eq_true, Option.isNone_iff_eq_none, Bool.not_eq_true',
      beq_iff_eq] at h
    obtain ⟨⟨⟨⟨h1, _⟩, h3⟩, h4⟩, h5⟩ := h
    simp [leafWord, h3, h4, h5, h1]
  | app => simp [goodLeaf] at h

end PS.C15
