/-
  C17, the theorems for the repaired code under the hypotheses `grammarWF` / `tagsWF`
  (PS/Model/InstConst.lean): the generic theorems (hypothesis `rulesOK fx`) applied to the part of
  the table that matters, `restrict (slotTys G.rules) tbl`, and transported back to the whole
  table (`instRules_restrict`, `isInst_restrict`, `allInst_restrict`).

  Everything is stated for a `Fix` with the repairs of C17-F2 and C17-F3 (`h2`, `h3`); the program
  side also needs the repair of C17-F4 where it is not applied to a program of the grammar.
-/
import PS.Proofs.InstConstFix
namespace PS.IC
open PS PS.G

variable {ν : Type} {fx : Fix}

/-- the effective table of a rule table -/
abbrev eff {κ : Type} (tbl : Tbl) (d : AList κ (AList Sym ν)) : Tbl := restrict (slotTys d) tbl

theorem rulesOK_of_grammarWF {κ : Type} (h2 : fx.f2 = true) (h3 : fx.f3 = true) {tbl : Tbl}
    {d : AList κ (AList Sym ν)} (h : grammarWF tbl d = true) : rulesOK fx (eff tbl d) d = true :=
  rulesOK_of_rulesWF h2 h3 h

theorem covers_of_tagsWF {κ κ' ν' : Type} {tbl : Tbl} {d : AList κ (AList Sym ν)}
    {tags : AList κ' (AList Sym ν')} (h : tagsWF tbl d tags = true) : Covers (slotTys d) tags := by
  unfold tagsWF at h
  rw [Bool.and_eq_true, List.all_eq_true] at h
  intro e he P hP
  exact covered_mono (fun t ht => by simpa using h.1 t ht) (mem_slotTys he hP)

theorem rulesOK_of_tagsWF {κ κ' ν' : Type} (h2 : fx.f2 = true) (h3 : fx.f3 = true) {tbl : Tbl}
    {d : AList κ (AList Sym ν)} {tags : AList κ' (AList Sym ν')} (h : tagsWF tbl d tags = true) :
    rulesOK fx (eff tbl d) tags = true := by
  unfold tagsWF at h
  rw [Bool.and_eq_true] at h
  exact rulesOK_of_rulesWF h2 h3 h.2

theorem rulesNonEmpty_eff {κ : Type} (h2 : fx.f2 = true) {tbl : Tbl} {d : AList κ (AList Sym ν)}
    (h : rulesNonEmpty fx tbl d = true) : rulesNonEmpty fx (eff tbl d) d = true := by
  rw [rulesNonEmpty_restrict h2 (covers_slotTys d)]; exact h

theorem expand_restrict (h2 : fx.f2 = true) {ts : List Ty} {tbl : Tbl} (f : ν → Nat → ν)
    {e : Sym × ν} (h : covered ts e.1) : expand fx (restrict ts tbl) f e = expand fx tbl f e := by
  unfold expand
  rw [slot?_restrict h2 h]

theorem flatMap_congr_mem {α β : Type} {f g : α → List β} {l : List α} (h : ∀ a ∈ l, f a = g a) :
    l.flatMap f = l.flatMap g := by
  induction l with
  | nil => rfl
  | cons a r ih =>
    rw [List.flatMap_cons, List.flatMap_cons, h a (by simp), ih (fun a' ha' => h a' (by simp [ha']))]

/-- row level: in a well-formed grammar no insertion overwrites -/
theorem rows_wf {κ : Type} [DecidableEq κ] (h2 : fx.f2 = true) (h3 : fx.f3 = true) (tbl : Tbl)
    (f : ν → Nat → ν) (d : AList κ (AList Sym ν)) (h : grammarWF tbl d = true) (nt : κ)
    (row : AList Sym ν) (hl : AList.lookup nt d = some row) :
    instRow fx tbl f row = row.flatMap (expand fx tbl f) ∧
      (AList.keys (instRow fx tbl f row)).Nodup := by
  have hrow := rulesOK_row (rulesOK_of_grammarWF h2 h3 h) hl
  have hc : ∀ P ∈ AList.keys row, covered (slotTys d) P :=
    covers_slotTys d (nt, row) (AList.lookup_some_mem hl)
  rw [← instRow_restrict h2 f hc, instRow_eq_flatMap hrow]
  refine ⟨flatMap_congr_mem ?_, keys_flatMap_nodup hrow⟩
  intro e he
  exact expand_restrict h2 f (hc e.1 (List.mem_map.mpr ⟨e, he, rfl⟩))

/-! ### a grammar without slot of a table type -/

theorem instRow_of_no_slot {tbl : Tbl} (f : ν → Nat → ν) {row : AList Sym ν}
    (hd : (AList.keys row).Nodup) (hs : ∀ P ∈ AList.keys row, slot? fx tbl P = none) :
    instRow fx tbl f row = row := by
  unfold instRow
  have : ∀ e ∈ row, ∀ acc, step fx tbl f acc e = AList.insert e.1 e.2 acc := by
    intro e he acc
    unfold step
    rw [hs e.1 (List.mem_map.mpr ⟨e, he, rfl⟩)]
  rw [foldl_congr_mem (g := fun acc e => AList.insert e.1 e.2 acc) this]
  have h := foldl_insert_fresh row ([] : AList Sym ν) (by simpa using hd)
  simpa using h

theorem lookup_eff_none_of_no_slot {κ : Type} {tbl : Tbl} {d : AList κ (AList Sym ν)}
    (hs : ∀ e ∈ d, ∀ P ∈ AList.keys e.2, slot? Fix.repaired tbl P = none) (τ : Ty) :
    AList.lookup τ (eff tbl d) = none := by
  unfold eff
  rw [lookup_restrict]
  by_cases hm : τ ∈ slotTys d
  · rw [if_pos hm]
    unfold slotTys at hm
    obtain ⟨e, he, hm⟩ := List.mem_flatMap.mp hm
    obtain ⟨Q, hQ, rfl⟩ := List.mem_map.mp hm
    obtain ⟨hQk, hQs⟩ := List.mem_filter.mp hQ
    unfold slotLike at hQs
    simp only [Bool.and_eq_true, decide_eq_true_eq] at hQs
    rcases slot?_none (hs e he Q hQk) with h | h | ⟨_, h⟩
    · exact absurd hQs.1 h
    · exact h
    · exact absurd hQs.2 h
  · rw [if_neg hm]

theorem grammarWF_of_no_slot {κ : Type} {tbl : Tbl} {d : AList κ (AList Sym ν)}
    (hd : ∀ e ∈ d, (AList.keys e.2).Nodup)
    (hs : ∀ e ∈ d, ∀ P ∈ AList.keys e.2, slot? Fix.repaired tbl P = none) :
    grammarWF tbl d = true := by
  unfold grammarWF rulesWF
  rw [List.all_eq_true]
  intro e he
  unfold rowWF
  simp only [Bool.and_eq_true, decide_eq_true_eq, List.all_eq_true]
  refine ⟨hd e he, ?_⟩
  intro P _
  unfold keyWF
  rw [lookup_eff_none_of_no_slot hs P.ty]
  simp

section det
variable {S : Type} [DecidableEq S]

omit [DecidableEq S] in
theorem inst_eff (h2 : fx.f2 = true) (G : TT S Unit) (tbl : Tbl) :
    inst fx G (eff tbl G.rules) = inst fx G tbl := by
  unfold inst
  rw [instRules_restrict h2 _ (covers_slotTys G.rules)]

omit [DecidableEq S] in
theorem instTags_eff (h2 : fx.f2 = true) {κ : Type} (tbl : Tbl) (d : AList κ (AList Sym ν))
    (tags : Tags S Unit) (h : tagsWF tbl d tags = true) :
    instTags fx tags (eff tbl d) = instTags fx tags tbl := by
  unfold instTags
  rw [instRules_restrict h2 _ (covers_of_tagsWF h)]

theorem isInst_eff_of_gen (G : TT S Unit) (tbl : Tbl) {t : Prog} {nt : NT S Unit}
    (hg : gen G t nt = true) (t' : Prog) :
    isInst (eff tbl G.rules) t t' = isInst tbl t t' :=
  isInst_restrict _ tbl t t' (slotsIn_of_gen G (covers_slotTys G.rules) t nt hg)

theorem allInst_eff_of_gen (h2 : fx.f2 = true) (G : TT S Unit) (tbl : Tbl) {t : Prog}
    {nt : NT S Unit} (hg : gen G t nt = true) :
    allInst fx (eff tbl G.rules) t = allInst fx tbl t :=
  allInst_restrict h2 _ tbl t (slotsIn_of_gen G (covers_slotTys G.rules) t nt hg)

theorem lang_wf (h2 : fx.f2 = true) (h3 : fx.f3 = true) (G : TT S Unit) (tbl : Tbl)
    (h : grammarWF tbl G.rules = true) (t' : Prog) (nt : NT S Unit) :
    gen (inst fx G tbl) t' nt = true ↔ ∃ t, gen G t nt = true ∧ isInst tbl t t' = true := by
  have hok := rulesOK_of_grammarWF (fx := fx) h2 h3 h
  rw [← inst_eff h2 G tbl]
  constructor
  · intro hg
    obtain ⟨g, i⟩ := gen_inst_templ fx _ G hok t' nt hg
    exact ⟨_, g, by rw [← isInst_eff_of_gen G tbl g]; exact i⟩
  · rintro ⟨t, hg, hi⟩
    exact gen_inst_of_isInst fx _ G hok t t' nt hg (by rw [isInst_eff_of_gen G tbl hg]; exact hi)

theorem lang_unique_wf (h2 : fx.f2 = true) (h3 : fx.f3 = true) (G : TT S Unit) (tbl : Tbl)
    (h : grammarWF tbl G.rules = true) (t1 t2 t' : Prog) (nt : NT S Unit)
    (g1 : gen G t1 nt = true) (g2 : gen G t2 nt = true)
    (i1 : isInst tbl t1 t' = true) (i2 : isInst tbl t2 t' = true) : t1 = t2 := by
  have hok := rulesOK_of_grammarWF (fx := fx) h2 h3 h
  rw [← isInst_eff_of_gen G tbl g1] at i1
  rw [← isInst_eff_of_gen G tbl g2] at i2
  rw [← templ_of_isInst fx _ G hok t1 t' nt g1 i1, ← templ_of_isInst fx _ G hok t2 t' nt g2 i2]

theorem mass_wf (h2 : fx.f2 = true) (h3 : fx.f3 = true) (G : TT S Unit) (tags : Tags S Unit)
    (tbl : Tbl) (hG : grammarWF tbl G.rules = true) (hT : tagsWF tbl G.rules tags = true)
    (hne : rulesNonEmpty fx tbl G.rules = true)
    (t : Prog) (nt : NT S Unit) (l : List Prog) (hg : gen G t nt = true)
    (hl : allInst fx tbl t = some l) :
    rsum (l.map fun t' => prob (inst fx G tbl) (instTags fx tags tbl) t' nt) = prob G tags t nt := by
  rw [← inst_eff h2 G tbl, ← instTags_eff h2 tbl G.rules tags hT]
  rw [← allInst_eff_of_gen h2 G tbl hg] at hl
  exact mass fx _ G tags (rulesOK_of_grammarWF h2 h3 hG) (rulesOK_of_tagsWF h2 h3 hT)
    (rulesNonEmpty_eff h2 hne) t nt l hg hl

theorem rsum_instRow_wf (h2 : fx.f2 = true) (h3 : fx.f3 = true) {κ : Type} [DecidableEq κ] (tbl : Tbl)
    (tags : AList κ (AList Sym Rat)) (h : grammarWF tbl tags = true)
    (hne : rulesNonEmpty fx tbl tags = true) {e : κ × AList Sym Rat} (he : e ∈ tags) :
    rsum (AList.values (instRow fx tbl (fun p n => p / (n : Rat)) e.2)) = rsum (AList.values e.2) := by
  have hok := rulesOK_of_grammarWF (fx := fx) h2 h3 h
  have hne' := rulesNonEmpty_eff h2 hne
  unfold rulesOK at hok
  unfold rulesNonEmpty at hne'
  rw [List.all_eq_true] at hok hne'
  rw [← instRow_restrict h2 _ (covers_slotTys tags e he)]
  exact rsum_instRow (hok e he) (hne' e he)

theorem rsum_instURow_wf (h2 : fx.f2 = true) (h3 : fx.f3 = true) {κ κ' : Type} (tbl : Tbl)
    (tags : AList κ (AList Sym (AList κ' Rat))) (h : grammarWF tbl tags = true)
    (hne : rulesNonEmpty fx tbl tags = true) {e : κ × AList Sym (AList κ' Rat)} (he : e ∈ tags) :
    uRowSum (instRow fx tbl (fun d n => d.map (fun kv => (kv.1, kv.2 / (n : Rat)))) e.2) =
      uRowSum e.2 := by
  have hok := rulesOK_of_grammarWF (fx := fx) h2 h3 h
  have hne' := rulesNonEmpty_eff h2 hne
  unfold rulesOK at hok
  unfold rulesNonEmpty at hne'
  rw [List.all_eq_true] at hok hne'
  rw [← instRow_restrict h2 _ (covers_slotTys tags e he)]
  exact rsum_instURow (hok e he) (hne' e he)

theorem rowsNodup_inst_wf (h2 : fx.f2 = true) (h3 : fx.f3 = true) (G : TT S Unit) (tbl : Tbl)
    (h : grammarWF tbl G.rules = true) : RowsNodup (inst fx G tbl) := by
  rw [← inst_eff h2 G tbl]
  exact rowsNodup_inst (rulesOK_of_grammarWF h2 h3 h)

theorem mem_lang_inst_wf (h2 : fx.f2 = true) (h3 : fx.f3 = true) (G : TT S Unit) (tbl : Tbl)
    (h : grammarWF tbl G.rules = true) (k : Nat) (nt : NT S Unit) (t' : Prog) :
    t' ∈ lang (inst fx G tbl) k nt ↔ ∃ t ∈ lang G k nt, isInst tbl t t' = true := by
  have hok := rulesOK_of_grammarWF (fx := fx) h2 h3 h
  rw [← inst_eff h2 G tbl, mem_lang_inst fx _ G hok k nt t']
  have hg : ∀ t, t ∈ lang G k nt → gen G t nt = true := fun t ht =>
    ((mem_lang_iff G (rowsNodup_of_rulesOK hok) k t nt).mp ht).1
  constructor
  · rintro ⟨t, ht, i⟩
    exact ⟨t, ht, by rw [← isInst_eff_of_gen G tbl (hg t ht)]; exact i⟩
  · rintro ⟨t, ht, i⟩
    exact ⟨t, ht, by rw [isInst_eff_of_gen G tbl (hg t ht)]; exact i⟩

theorem mass_inst_wf (h2 : fx.f2 = true) (h3 : fx.f3 = true) (G : TT S Unit) (tags : Tags S Unit)
    (tbl : Tbl) (hG : grammarWF tbl G.rules = true) (hT : tagsWF tbl G.rules tags = true)
    (hne : rulesNonEmpty fx tbl G.rules = true) (k : Nat) (nt : NT S Unit) :
    PS.G.mass (inst fx G tbl) (instTags fx tags tbl) k nt = PS.G.mass G tags k nt := by
  rw [← inst_eff h2 G tbl, ← instTags_eff h2 tbl G.rules tags hT]
  exact mass_inst fx _ G tags (rulesOK_of_grammarWF h2 h3 hG) (rulesOK_of_tagsWF h2 h3 hT)
    (rulesNonEmpty_eff h2 hne) k nt

omit [DecidableEq S] in
theorem idempotent_wf (G : TT S Unit) (tbl : Tbl)
    (hd : ∀ e ∈ G.rules, (AList.keys e.2).Nodup)
    (hs : ∀ e ∈ G.rules, ∀ P ∈ AList.keys e.2, slot? Fix.repaired tbl P = none) :
    grammarWF tbl G.rules = true ∧ inst Fix.repaired G tbl = G := by
  refine ⟨grammarWF_of_no_slot hd hs, ?_⟩
  unfold inst instRules
  have : G.rules.map (fun e => (e.1, instRow Fix.repaired tbl (fun v _ => v) e.2)) = G.rules := by
    rw [List.map_congr_left (g := id)
      (fun e he => by rw [instRow_of_no_slot _ (hd e he) (hs e he)]; rfl)]
    simp
  rw [this]

end det

section ucfg
variable {V : Type} [DecidableEq V]

omit [DecidableEq V] in
theorem instUG_eff (h2 : fx.f2 = true) (G : U.UCFG V) (tbl : Tbl) :
    instUG fx G (eff tbl G.rules) = instUG fx G tbl := by
  unfold instUG instU
  rw [instRules_restrict h2 _ (covers_slotTys G.rules)]

omit [DecidableEq V] in
theorem instUTg_eff (h2 : fx.f2 = true) {κ : Type} (tbl : Tbl) (d : AList κ (AList Sym ν))
    (tg : U.UTags V) (h : tagsWF tbl d tg.tags = true) :
    instUTg fx tg (eff tbl d) = instUTg fx tg tbl := by
  unfold instUTg instUTags
  rw [instRules_restrict h2 _ (covers_of_tagsWF h)]

theorem isInst_eff_of_genU (G : U.UCFG V) (tbl : Tbl) {t : Prog} (hg : U.genU G t = true)
    (t' : Prog) : isInst (eff tbl G.rules) t t' = isInst tbl t t' :=
  isInst_restrict _ tbl t t' (slotsIn_of_genU G (covers_slotTys G.rules) t hg)

theorem allInst_eff_of_genU (h2 : fx.f2 = true) (G : U.UCFG V) (tbl : Tbl) {t : Prog}
    (hg : U.genU G t = true) : allInst fx (eff tbl G.rules) t = allInst fx tbl t :=
  allInst_restrict h2 _ tbl t (slotsIn_of_genU G (covers_slotTys G.rules) t hg)

theorem genU_inst_wf (h2 : fx.f2 = true) (h3 : fx.f3 = true) (G : U.UCFG V) (tbl : Tbl)
    (h : grammarWF tbl G.rules = true) (t' : Prog) :
    U.genU (instUG fx G tbl) t' = true ↔ ∃ t, U.genU G t = true ∧ isInst tbl t t' = true := by
  rw [← instUG_eff h2 G tbl, genU_inst_iff fx _ G (rulesOK_of_grammarWF h2 h3 h) t']
  constructor
  · rintro ⟨t, g, i⟩; exact ⟨t, g, by rw [← isInst_eff_of_genU G tbl g]; exact i⟩
  · rintro ⟨t, g, i⟩; exact ⟨t, g, by rw [isInst_eff_of_genU G tbl g]; exact i⟩

theorem lang_u_unique_wf (h2 : fx.f2 = true) (h3 : fx.f3 = true) (G : U.UCFG V) (tbl : Tbl)
    (h : grammarWF tbl G.rules = true) (t1 t2 t' : Prog) (g1 : U.genU G t1 = true)
    (g2 : U.genU G t2 = true) (i1 : isInst tbl t1 t' = true) (i2 : isInst tbl t2 t' = true) :
    t1 = t2 := by
  have hok := rulesOK_of_grammarWF (fx := fx) h2 h3 h
  rw [← isInst_eff_of_genU G tbl g1] at i1
  rw [← isInst_eff_of_genU G tbl g2] at i2
  rw [← templ_of_isInst' fx _ t1 t' (clean_of_genU fx _ G hok t1 g1) i1,
    ← templ_of_isInst' fx _ t2 t' (clean_of_genU fx _ G hok t2 g2) i2]

theorem derivs_u_wf (h2 : fx.f2 = true) (h3 : fx.f3 = true) (G : U.UCFG V) (tbl : Tbl)
    (h : grammarWF tbl G.rules = true) (t t' : Prog) (hg : U.genU G t = true)
    (hi : isInst tbl t t' = true) :
    (U.allDerivs (instUG fx G tbl) t').map
        (fun sd => (sd.1, sd.2.map (derTempl (eff tbl G.rules)))) = U.allDerivs G t ∧
    U.unambiguousOn (instUG fx G tbl) t' = U.unambiguousOn G t := by
  have hok := rulesOK_of_grammarWF (fx := fx) h2 h3 h
  rw [← isInst_eff_of_genU G tbl hg] at hi
  rw [← instUG_eff h2 G tbl]
  exact ⟨allDerivs_inst fx _ G hok t t' (clean_of_genU fx _ G hok t hg) hi,
    unambiguousOn_inst fx _ G hok t t' hg hi⟩

theorem probU_mass_wf (h2 : fx.f2 = true) (h3 : fx.f3 = true) (G : U.UCFG V) (tg : U.UTags V)
    (tbl : Tbl) (hG : grammarWF tbl G.rules = true) (hT : tagsWF tbl G.rules tg.tags = true)
    (hne : rulesNonEmpty fx tbl G.rules = true) (t : Prog) (l : List Prog)
    (hg : U.genU G t = true) (hu : U.unambiguousOn G t = true) (hl : allInst fx tbl t = some l) :
    rsum (l.map (U.probU (instUG fx G tbl) (instUTg fx tg tbl))) = U.probU G tg t := by
  rw [← instUG_eff h2 G tbl, ← instUTg_eff h2 tbl G.rules tg hT]
  rw [← allInst_eff_of_genU h2 G tbl hg] at hl
  exact probU_mass fx _ G tg (rulesOK_of_grammarWF h2 h3 hG) (rulesOK_of_tagsWF h2 h3 hT)
    (rulesNonEmpty_eff h2 hne) t l hg hu hl

theorem probabilityU_mass_wf (h2 : fx.f2 = true) (h3 : fx.f3 = true) (G : U.UCFG V)
    (tg : U.UTags V) (tbl : Tbl) (hG : grammarWF tbl G.rules = true)
    (hT : tagsWF tbl G.rules tg.tags = true) (hne : rulesNonEmpty fx tbl G.rules = true)
    (t : Prog) (l : List Prog) (hg : U.genU G t = true) (hu : U.unambiguousOn G t = true)
    (hl : allInst fx tbl t = some l) :
    rsum (l.map (U.probabilityU (instUG fx G tbl) (instUTg fx tg tbl))) = U.probabilityU G tg t := by
  rw [← instUG_eff h2 G tbl, ← instUTg_eff h2 tbl G.rules tg hT]
  rw [← allInst_eff_of_genU h2 G tbl hg] at hl
  exact probabilityU_mass fx _ G tg (rulesOK_of_grammarWF h2 h3 hG) (rulesOK_of_tagsWF h2 h3 hT)
    (rulesNonEmpty_eff h2 hne) t l hg hu hl

theorem massU_inst_wf (h2 : fx.f2 = true) (h3 : fx.f3 = true) (G : U.UCFG V) (tg : U.UTags V)
    (tbl : Tbl) (hG : grammarWF tbl G.rules = true) (hT : tagsWF tbl G.rules tg.tags = true)
    (hne : rulesNonEmpty fx tbl G.rules = true) (k : Nat) (nt : U.UNT V) :
    U.Mass.massU (instUG fx G tbl) (instUTg fx tg tbl) k nt = U.Mass.massU G tg k nt := by
  rw [← instUG_eff h2 G tbl, ← instUTg_eff h2 tbl G.rules tg hT]
  exact massU_inst fx _ G tg (rulesOK_of_grammarWF h2 h3 hG) (rulesOK_of_tagsWF h2 h3 hT)
    (rulesNonEmpty_eff h2 hne) k nt

end ucfg

end PS.IC
