/-
  Helper lemmas for property C19, part "closed form in the raw tensor":

    * `normalize_spec`   : `__normalize__` over consecutive slices subtracts ONE constant (the
                           log-sum-exp of the slice) inside every slice and changes nothing else
    * `tagEntryDet_raw`  : deterministic layer, weight of a primitive rule = re-normalised softmax
                           of the RAW tensor entries at the positions `posOf`
    * `tagEntryU_raw`    : the same for the unambiguous layer (per alternative), and the weights of
                           the alternatives of variables and constants
    * `startTagsU_raw`   : start tags = softmax of the raw tail of the tensor
-/
import PS.Proofs.PredictorIndex
namespace PS.Predictor
open PS
set_option linter.unusedSectionVars false
set_option linter.unusedSimpArgs false
set_option linter.unusedVariables false

/-- the raw tensor entry that feeds the rule `(S, P)`: `x[posOf L S P]` (0 when there is none) -/
noncomputable def rawAt (L : Layer) (x : List ℝ) (S : NT) (P : DP) : ℝ :=
  match posOf L S P with
  | some p => x.getD p 0
  | none => 0

/-! ### `__normalize__` -/

theorem getElem?_setSlice_map (x : List ℝ) (s l : ℕ) (f : ℝ → ℝ) (j : ℕ) :
    (setSlice x s ((slice x s l).map f))[j]?
      = (x[j]?).map (fun a => if s ≤ j ∧ j < s + l then f a else a) := by
  unfold setSlice slice
  simp only [List.getElem?_append, List.length_append, List.length_take, List.length_map, List.length_drop,
    List.getElem?_take, List.getElem?_drop, List.getElem?_map]
  by_cases hjx : j < x.length
  · rw [List.getElem?_eq_getElem hjx]
    by_cases h1 : j < s
    · have : j < min s x.length + min l (x.length - s) := by omega
      have h2 : j < min s x.length := by omega
      have h3 : ¬ (s ≤ j ∧ j < s + l) := by omega
      simp [this, h2, h1, h3, List.getElem?_eq_getElem hjx]
    · by_cases h4 : j < s + l
      · have : j < min s x.length + min l (x.length - s) := by omega
        have h2 : ¬ j < min s x.length := by omega
        have h3 : (s ≤ j ∧ j < s + l) := by omega
        have h5 : j - min s x.length < l := by omega
        have h6 : s + (j - min s x.length) = j := by omega
        simp [this, h2, h3, h5, h6, List.getElem?_eq_getElem hjx]
      · have : ¬ j < min s x.length + min l (x.length - s) := by omega
        have h3 : ¬ (s ≤ j ∧ j < s + l) := by omega
        have h6 : s + min l (x.length - s) + (j - (min s x.length + min l (x.length - s))) = j := by omega
        simp [this, h3, h6, List.getElem?_eq_getElem hjx]
  · have hn : x[j]? = none := List.getElem?_eq_none (by omega)
    rw [hn]
    simp only [Option.map_none]
    split_ifs <;> first | rfl | (apply List.getElem?_eq_none; omega) | (simp; omega)

theorem logSoftmax_eq (ys : List ℝ) :
    logSoftmax ys = ys.map (fun a => a - Real.log ((ys.map Real.exp).sum)) := by
  unfold logSoftmax
  simp only [sumL_eq, log_real]
  rfl

theorem normalize_cons (e : Abs × ℕ × ℕ × AList DP ℕ) (rest : AList Abs (ℕ × ℕ × AList DP ℕ)) (x : List ℝ) :
    normalize (e :: rest) x = normalize rest (setSlice x e.2.1 (logSoftmax (slice x e.2.1 e.2.2.1))) := rfl

/-- `__normalize__` over consecutive slices: nothing changes outside the slices, and inside the
    slice of an entry every element loses the same constant `c` (the log-sum-exp of the slice) -/
theorem normalize_spec :
    ∀ (idx : AList Abs (ℕ × ℕ × AList DP ℕ)) (cur : ℕ) (x : List ℝ), Consec cur idx →
      (∀ j, j < cur → (normalize idx x)[j]? = x[j]?) ∧
      (∀ j, cur + (idx.map (fun e => e.2.2.1)).sum ≤ j → (normalize idx x)[j]? = x[j]?) ∧
      (∀ e ∈ idx, cur ≤ e.2.1 ∧ e.2.1 + e.2.2.1 ≤ cur + (idx.map (fun e => e.2.2.1)).sum ∧
         ∃ c : ℝ, ∀ j, e.2.1 ≤ j → j < e.2.1 + e.2.2.1 → (normalize idx x)[j]? = (x[j]?).map (· - c)) := by
  intro idx
  induction idx with
  | nil =>
    intro cur x _
    refine ⟨fun _ _ => rfl, fun _ _ => rfl, ?_⟩
    intro e he; simp at he
  | cons e rest ih =>
    intro cur x hc
    obtain ⟨hs, hc'⟩ := hc
    rw [normalize_cons, logSoftmax_eq]
    set lse := Real.log (((slice x e.2.1 e.2.2.1).map Real.exp).sum) with hlse
    set x1 := setSlice x e.2.1 ((slice x e.2.1 e.2.2.1).map (fun a => a - lse)) with hx1
    have hget : ∀ j, x1[j]? = (x[j]?).map (fun a => if e.2.1 ≤ j ∧ j < e.2.1 + e.2.2.1 then a - lse else a) :=
      fun j => getElem?_setSlice_map x e.2.1 e.2.2.1 (fun a => a - lse) j
    have hout : ∀ j, ¬ (e.2.1 ≤ j ∧ j < e.2.1 + e.2.2.1) → x1[j]? = x[j]? := by
      intro j hj
      rw [hget j]
      cases x[j]? with
      | none => rfl
      | some a => simp [hj]
    have hin : ∀ j, e.2.1 ≤ j → j < e.2.1 + e.2.2.1 → x1[j]? = (x[j]?).map (· - lse) := by
      intro j h1 h2
      rw [hget j]
      cases x[j]? with
      | none => rfl
      | some a => simp [h1, h2]
    obtain ⟨i1, i2, i3⟩ := ih (cur + e.2.2.1) x1 hc'
    simp only [List.map_cons, List.sum_cons]
    refine ⟨?_, ?_, ?_⟩
    · intro j hj
      rw [i1 j (by omega), hout j (by omega)]
    · intro j hj
      rw [i2 j (by omega), hout j (by omega)]
    · intro e' he'
      rcases List.mem_cons.mp he' with h | h
      · subst h
        refine ⟨by omega, by omega, lse, ?_⟩
        intro j h1 h2
        rw [i1 j (by omega), hin j h1 h2]
      · obtain ⟨b1, b2, c, b3⟩ := i3 e' h
        refine ⟨by omega, by omega, c, ?_⟩
        intro j h1 h2
        rw [b3 j h1 h2, hout j (by omega)]

theorem slice_getElem? (x : List ℝ) (s l i : ℕ) :
    (slice x s l)[i]? = if i < l then x[s + i]? else none := by
  unfold slice
  simp [List.getElem?_take, List.getElem?_drop]

/-- what a rule reads in its slice of the normalised tensor: the raw entry minus a constant that
    depends on the slice only -/
theorem normalize_slice (idx : AList Abs (ℕ × ℕ × AList DP ℕ)) (x : List ℝ) (hc : Consec 0 idx)
    (k : Abs) (s l : ℕ) (sym : AList DP ℕ) (h : AList.lookup k idx = some (s, l, sym)) :
    ∃ c : ℝ, ∀ i y, (slice (normalize idx x) s l)[i]? = some y → ∃ xi, x[s + i]? = some xi ∧ y = xi - c := by
  obtain ⟨_, _, c, hcj⟩ := (normalize_spec idx 0 x hc).2.2 _ (AList.lookup_some_mem h)
  refine ⟨c, ?_⟩
  intro i y hy
  rw [slice_getElem?] at hy
  by_cases hi : i < l
  · simp only [hi, if_true] at hy
    have := hcj (s + i) (by simp) (by simp only; omega)
    rw [hy] at this
    cases hx : x[s + i]? with
    | none => rw [hx] at this; simp at this
    | some xi =>
      rw [hx] at this
      simp only [Option.map_some, Option.some.injEq] at this
      exact ⟨xi, rfl, this⟩
  · simp [hi] at hy

/-- positions after the last slice (the start tags of the U-layer) are not normalised -/
theorem normalize_tail (idx : AList Abs (ℕ × ℕ × AList DP ℕ)) (x : List ℝ) (hc : Consec 0 idx) (j : ℕ)
    (hj : (idx.map (fun e => e.2.2.1)).sum ≤ j) : (normalize idx x)[j]? = x[j]? :=
  (normalize_spec idx 0 x hc).2.1 j (by omega)

/-! ### sums -/

theorem alist_eq_map_keys {κ ν : Type} [DecidableEq κ] (f : κ → ν) :
    ∀ (d : AList κ ν), (AList.keys d).Nodup → (∀ k ∈ AList.keys d, AList.lookup k d = some (f k)) →
      d = (AList.keys d).map (fun k => (k, f k)) := by
  intro d
  induction d with
  | nil => intro _ _; rfl
  | cons p r ih =>
    obtain ⟨k, v⟩ := p
    intro hnd hl
    simp only [AList.keys, List.map_cons, List.nodup_cons] at hnd
    have hv : v = f k := by
      have := hl k (by simp [AList.keys])
      simpa [AList.lookup] using this
    have hr := ih hnd.2 (by
      intro k' hk'
      have := hl k' (by simp only [AList.keys, List.map_cons, List.mem_cons]; exact Or.inr hk')
      have hne : k ≠ k' := by intro h; subst h; exact hnd.1 hk'
      simpa [AList.lookup, hne] using this)
    simp only [AList.keys, List.map_cons]
    rw [hv]
    congr 1

theorem mass_eq_of_lookup (f : DP → ℝ) (d : AList DP ℝ) (hnd : (AList.keys d).Nodup)
    (hl : ∀ k ∈ AList.keys d, AList.lookup k d = some (f k)) :
    mass (fun _ => true) d = ((AList.keys d).map (fun Q => Real.exp (f Q))).sum := by
  have := alist_eq_map_keys f d hnd hl
  unfold mass wsum
  conv_lhs => rw [this]
  simp [List.map_map, Function.comp_def]

theorem sum_map_exp_sub {β : Type} (l : List β) (w g : β → ℝ) (c : ℝ) :
    (l.map (fun r => w r * Real.exp (g r - c))).sum = Real.exp (-c) * (l.map (fun r => w r * Real.exp (g r))).sum := by
  induction l with
  | nil => simp
  | cons a r ih =>
    simp only [List.map_cons, List.sum_cons, ih]
    rw [sub_eq_add_neg, Real.exp_add]; ring

theorem sum_map_ite_filter {β : Type} (l : List β) (p : β → Bool) (g : β → ℝ) :
    (l.map (fun r => if p r then g r else 0)).sum = ((l.filter p).map g).sum := by
  induction l with
  | nil => simp
  | cons a r ih =>
    by_cases hp : p a = true
    · simp [List.filter_cons, hp, ih]
    · simp [List.filter_cons, hp, ih]

theorem sum_pos_of_mem {β : Type} (l : List β) (g : β → ℝ) (hg : ∀ r ∈ l, 0 ≤ g r) (a : β) (ha : a ∈ l)
    (hpos : 0 < g a) : 0 < (l.map g).sum := by
  induction l with
  | nil => simp at ha
  | cons b r ih =>
    simp only [List.map_cons, List.sum_cons]
    have hb := hg b (by simp)
    have hr : 0 ≤ (r.map g).sum := by
      apply List.sum_nonneg
      intro y hy
      simp only [List.mem_map] at hy
      obtain ⟨z, hz, rfl⟩ := hy
      exact hg z (by simp [hz])
    rcases List.mem_cons.mp ha with h | h
    · subst h; linarith
    · have := ih (fun z hz => hg z (by simp [hz])) h; linarith

/-! ### deterministic layer -/

theorem rawAt_of (L : Layer) (x : List ℝ) (S : NT) (P : DP) (p : ℕ) (xi : ℝ)
    (hp : posOf L S P = some p) (hx : x[p]? = some xi) : rawAt L x S P = xi := by
  unfold rawAt
  rw [hp]
  simp [List.getD, hx]

/-- One entry of `tensor2logProbDet` in terms of the RAW tensor `x` (the model is run on
    `normalize L.abs2index x`): the weight of a primitive rule is the softmax of the raw entries at
    the positions of the primitive rules derivable from the non-terminal, times `c`. -/
theorem tagEntryDet_raw (L : Layer) (hc : Consec 0 L.abs2index) (v ε : ℝ) (tvo : Bool) (x : List ℝ)
    (e : NT × AList DP (List NT)) (t : NT × AList DP ℝ)
    (h : tagEntryDet L v ε tvo (normalize L.abs2index x) e = some t) (hnd : (AList.keys e.2).Nodup)
    (hv1 : v < 1) :
    ∀ P ∈ AList.keys e.2, P.kind = .prim →
      ∃ pos tag, posOf L e.1 P = some pos ∧ pos < x.length ∧ AList.lookup P t.2 = some tag
        ∧ Real.exp tag = (if countKind .var e.2 + countKind .const e.2 = 0 then 1 else 1 - v)
            * Real.exp (rawAt L x e.1 P)
            / (((AList.keys e.2).filter (kindIs .prim)).map (fun Q => Real.exp (rawAt L x e.1 Q))).sum := by
  unfold tagEntryDet at h
  cases h1 : AList.lookup e.1 L.real2abs with
  | none => simp [h1] at h
  | some key =>
    cases h2 : AList.lookup key L.abs2index with
    | none => simp [h1, h2] at h
    | some idx =>
      obtain ⟨start, length, sym⟩ := idx
      simp only [h1, h2] at h
      set y := slice (normalize L.abs2index x) start length with hy
      cases h3 : primTags sym y (AList.keys e.2) [] with
      | none => simp [h3] at h
      | some prim =>
        simp only [h3, Option.some.injEq] at h
        subst h
        have hkeys : AList.keys prim = (AList.keys e.2).filter (kindIs .prim) := by
          have := primTags_keys sym y (AList.keys e.2) [] prim hnd (by intro P _; simp [AList.keys]) h3
          simpa [AList.keys] using this
        obtain ⟨l1, _⟩ := primTags_lookup sym y (AList.keys e.2) [] prim hnd h3
        obtain ⟨c, hcs⟩ := normalize_slice L.abs2index x hc key start length sym h2
        -- every primitive rule: position, raw entry, value in `prim`
        have hall : ∀ Q ∈ AList.keys e.2, Q.kind = .prim →
            ∃ i xi, posOf L e.1 Q = some (start + i) ∧ x[start + i]? = some xi
              ∧ AList.lookup Q prim = some (rawAt L x e.1 Q - c) ∧ rawAt L x e.1 Q = xi := by
          intro Q hQ hk
          obtain ⟨i, t, hs, hyi, hl⟩ := l1 Q hQ hk
          obtain ⟨xi, hxi, hti⟩ := hcs i t hyi
          have hpos : posOf L e.1 Q = some (start + i) := by simp [posOf, h1, h2, hs]
          have hraw := rawAt_of L x e.1 Q _ xi hpos hxi
          exact ⟨i, xi, hpos, hxi, by rw [hl, hraw, hti], hraw⟩
        have hndp : (AList.keys prim).Nodup := by rw [hkeys]; exact hnd.filter _
        have hmass : mass (fun _ => true) prim
            = Real.exp (-c) * (((AList.keys e.2).filter (kindIs .prim)).map (fun Q => Real.exp (rawAt L x e.1 Q))).sum := by
          rw [mass_eq_of_lookup (fun Q => rawAt L x e.1 Q - c) prim hndp, hkeys]
          · have := sum_map_exp_sub ((AList.keys e.2).filter (kindIs .prim)) (fun _ => 1) (fun Q => rawAt L x e.1 Q) c
            simpa using this
          · intro Q hQ
            rw [hkeys] at hQ
            simp only [List.mem_filter, kindIs, decide_eq_true_eq] at hQ
            obtain ⟨_, _, _, _, hl, _⟩ := hall Q hQ.1 hQ.2
            exact hl
        intro P hP hk
        obtain ⟨i, xi, hpos, hxi, hl, hraw⟩ := hall P hP hk
        have hpne : prim ≠ [] := by
          intro hp; rw [hp] at hl; simp [AList.lookup] at hl
        have hPv : P ∉ (AList.keys e.2).filter (kindIs .var) := by
          intro hmem; have := filter_kind_sel hmem; rw [hk] at this; exact absurd this (by decide)
        have hPc : P ∉ (AList.keys e.2).filter (kindIs .const) := by
          intro hmem; have := filter_kind_sel hmem; rw [hk] at this; exact absurd this (by decide)
        have hlen : start + i < x.length := (List.getElem?_eq_some_iff.mp hxi).1
        have htag := tagNT_lookup_prim v ε tvo prim _ _ hpne P hPv hPc
        rw [hl] at htag
        simp only [Option.map_some] at htag
        refine ⟨start + i, _, hpos, hlen, htag, ?_⟩
        · have hgen : ∀ A B : List DP, (A.isEmpty && B.isEmpty) = decide (A.length + B.length = 0) := by
            intro A B; cases A <;> cases B <;> simp
          rw [hgen]
          have e1 : decide (((AList.keys e.2).filter (kindIs .var)).length + ((AList.keys e.2).filter (kindIs .const)).length = 0)
              = decide (countKind .var e.2 + countKind .const e.2 = 0) := rfl
          rw [e1]
          set cc : ℝ := if countKind .var e.2 + countKind .const e.2 = 0 then 1 else 1 - v with hcc
          have hcc' : (if decide (countKind .var e.2 + countKind .const e.2 = 0) = true then (1 : ℝ) else 1 - v) = cc := by
            by_cases hz : countKind .var e.2 + countKind .const e.2 = 0 <;> simp [hcc, hz]
          rw [hcc']
          have hccpos : 0 < cc := by
            rw [hcc]; split <;> linarith
          have hMpos := mass_true_pos hpne
          set R := (((AList.keys e.2).filter (kindIs .prim)).map (fun Q => Real.exp (rawAt L x e.1 Q))).sum with hR
          have hRpos : 0 < R := by
            have : 0 < Real.exp (-c) * R := by rw [← hmass]; exact hMpos
            exact (mul_pos_iff_of_pos_left (Real.exp_pos _)).mp this
          rw [Real.exp_add, Real.exp_log (div_pos hccpos hMpos), hmass, sub_eq_add_neg, Real.exp_add]
          have h1' : Real.exp (-c) ≠ 0 := ne_of_gt (Real.exp_pos _)
          have h2' : R ≠ 0 := ne_of_gt hRpos
          field_simp


/-! ### unambiguous layer: per-alternative values -/

theorem innerLookup_some {T : TagsU} {P : DP} {k : Alt} {t : ℝ} (h : innerLookup T P k = some t) :
    ∃ d, AList.lookup P T = some d ∧ AList.lookup k d = some t := by
  unfold innerLookup at h
  cases hl : AList.lookup P T with
  | none => rw [hl] at h; simp [AList.lookup] at h
  | some d => rw [hl] at h; exact ⟨d, rfl, h⟩

theorem constPairs_lookup :
    ∀ (ps : List (DP × Alt)) (nvl : ℝ) (T : TagsU) (q : DP × Alt),
      innerLookup (constPairs ps nvl T) q.1 q.2 = if q ∈ ps then some nvl else innerLookup T q.1 q.2 := by
  intro ps
  induction ps with
  | nil => intro nvl T q; simp [constPairs]
  | cons p r ih =>
    obtain ⟨P, k⟩ := p
    intro nvl T q
    simp only [constPairs]
    rw [ih]
    by_cases hq : q ∈ r
    · simp [hq]
    · simp only [hq, if_false, List.mem_cons, or_false]
      rw [innerLookup_setInner]
      by_cases h : q = (P, k)
      · subst h; simp
      · have : ¬ (q.1 = P ∧ q.2 = k) := fun h' => h (Prod.ext h'.1 h'.2)
        simp [h, this]

theorem assignPairs_lookup_other (tvo : Bool) (ε : ℝ) :
    ∀ (ps : List (DP × Alt)) (nvl : ℝ) (T : TagsU) (q : DP × Alt), q ∉ ps →
      innerLookup (assignPairs tvo ε ps nvl T).1 q.1 q.2 = innerLookup T q.1 q.2 := by
  intro ps
  induction ps with
  | nil => intro nvl T q _; rfl
  | cons p r ih =>
    obtain ⟨P, k⟩ := p
    intro nvl T q hq
    have hq' : q ≠ (P, k) ∧ q ∉ r := by simpa [List.mem_cons, not_or] using hq
    simp only [assignPairs]
    rw [ih _ _ q hq'.2, innerLookup_setInner]
    have : ¬ (q.1 = P ∧ q.2 = k) := fun h' => hq'.1 (Prod.ext h'.1 h'.2)
    simp [this]

/-- the `j`-th alternative tagged by the loop over the variables receives `exp(nvl) - j·ε`
    (`ε` only with the ordering trick), and the value left for the constants is `exp(nvl) - |ps|·ε` -/
theorem assignPairs_lookup_at (tvo : Bool) (ε : ℝ) (hε : 0 ≤ ε) :
    ∀ (ps : List (DP × Alt)) (nvl : ℝ) (T : TagsU), ps.Nodup →
      (ps.length : ℝ) * eff tvo ε < Real.exp nvl →
      (∀ j (hj : j < ps.length), ∃ tag,
          innerLookup (assignPairs tvo ε ps nvl T).1 ps[j].1 ps[j].2 = some tag
            ∧ Real.exp tag = Real.exp nvl - j * eff tvo ε)
      ∧ Real.exp (assignPairs tvo ε ps nvl T).2 = Real.exp nvl - ps.length * eff tvo ε := by
  have heff : 0 ≤ eff tvo ε := by unfold eff; split <;> simp [hε]
  intro ps
  induction ps with
  | nil => intro nvl T _ _; simp [assignPairs]
  | cons p r ih =>
    obtain ⟨P, k⟩ := p
    intro nvl T hnd hb
    have hnd' := List.nodup_cons.mp hnd
    have hlen : (((P, k) :: r).length : ℝ) = (r.length : ℝ) + 1 := by simp
    rw [hlen] at hb
    have hr0 : (0 : ℝ) ≤ r.length := Nat.cast_nonneg _
    have h1 : eff tvo ε < Real.exp nvl := by nlinarith
    have hnext := next_nvl tvo ε nvl h1
    have hb' : (r.length : ℝ) * eff tvo ε
        < Real.exp (if tvo then ExpLog.log (ExpLog.exp nvl - ε) else nvl) := by
      rw [hnext]; nlinarith
    obtain ⟨i1, i2⟩ := ih (if tvo then ExpLog.log (ExpLog.exp nvl - ε) else nvl) (setInner T P k nvl) hnd'.2 hb'
    simp only [assignPairs]
    refine ⟨?_, ?_⟩
    · intro j hj
      cases j with
      | zero =>
        refine ⟨nvl, ?_, by simp⟩
        simp only [List.getElem_cons_zero]
        rw [assignPairs_lookup_other tvo ε r _ _ (P, k) hnd'.1, innerLookup_setInner]
        simp
      | succ j =>
        have hj' : j < r.length := by simpa using hj
        obtain ⟨tag, a1, a2⟩ := i1 j hj'
        refine ⟨tag, by simpa using a1, ?_⟩
        rw [a2, hnext]; push_cast; ring
    · rw [i2, hnext, hlen]; ring

/-- the entry of the normalised slice that `primTagsU` reads for `P` -/
noncomputable def yAt (sym : AList DP ℕ) (y : List ℝ) (P : DP) : ℝ :=
  match AList.lookup P sym with
  | some i => y.getD i 0
  | none => 0

theorem massU'_insert_empty (T : TagsU) (P : DP) (h : AList.lookup P T = none) :
    massU' (fun _ => true) (AList.insert P ([] : AList Alt ℝ) T) = massU' (fun _ => true) T := by
  unfold massU'
  rw [wsum_insert]
  simp [h, inner]

/-- the first loop of the U-layer: total mass and the value of every primitive alternative -/
theorem primTagsU_raw (sym : AList DP ℕ) (y : List ℝ) :
    ∀ (rows : List (DP × List Alt)) (T T' : TagsU), (rows.map (·.1)).Nodup → (∀ r ∈ rows, r.2.Nodup) →
      (∀ r ∈ rows, AList.lookup r.1 T = none) → primTagsU sym y rows T = some T' →
      massU' (fun _ => true) T' = massU' (fun _ => true) T
          + (rows.map (fun r => if r.1.kind = .prim then (r.2.length : ℝ) * Real.exp (yAt sym y r.1) else 0)).sum
      ∧ (∀ r ∈ rows, r.1.kind = .prim → ∀ k ∈ r.2,
          innerLookup T' r.1 k = some (yAt sym y r.1)
            ∧ ∃ i, AList.lookup r.1 sym = some i ∧ y[i]? = some (yAt sym y r.1)) := by
  intro rows
  induction rows with
  | nil =>
    intro T T' _ _ _ h
    simp [primTagsU] at h; subst h
    simp
  | cons row rest ih =>
    obtain ⟨P, alts⟩ := row
    intro T T' hnd halts hfresh h
    rw [List.map_cons] at hnd
    have hnd' := List.nodup_cons.mp hnd
    have hPT : AList.lookup P T = none := hfresh (P, alts) (by simp)
    have hne : ∀ r ∈ rest, r.1 ≠ P := by
      intro r hr h'; apply hnd'.1; rw [← h']; exact List.mem_map.mpr ⟨r, hr, rfl⟩
    set T1 := AList.insert P ([] : AList Alt ℝ) T with hT1
    have hm1 : massU' (fun _ => true) T1 = massU' (fun _ => true) T := massU'_insert_empty T P hPT
    have hfresh1 : ∀ r ∈ rest, AList.lookup r.1 T1 = none := by
      intro r hr
      rw [hT1, AList.lookup_insert_ne _ _ (hne r hr)]
      exact hfresh r (by simp [hr])
    simp only [primTagsU] at h
    -- the easy cases: nothing is tagged for this rule
    have easy : primTagsU sym y rest T1 = some T' → (P.kind ≠ .prim ∨ alts = []) →
        massU' (fun _ => true) T' = massU' (fun _ => true) T
          + (((P, alts) :: rest).map (fun r => if r.1.kind = .prim then (r.2.length : ℝ) * Real.exp (yAt sym y r.1) else 0)).sum
        ∧ (∀ r ∈ (P, alts) :: rest, r.1.kind = .prim → ∀ k ∈ r.2,
            innerLookup T' r.1 k = some (yAt sym y r.1)
              ∧ ∃ i, AList.lookup r.1 sym = some i ∧ y[i]? = some (yAt sym y r.1)) := by
      intro h' hcase
      obtain ⟨i1, i2⟩ := ih T1 T' hnd'.2 (fun r hr => halts r (by simp [hr])) hfresh1 h'
      refine ⟨?_, ?_⟩
      · rw [i1, hm1, List.map_cons, List.sum_cons]
        rcases hcase with hc | hc
        · simp [hc]
        · simp [hc]
      · intro r hr hk k hkr
        rcases List.mem_cons.mp hr with h'' | h''
        · subst h''
          rcases hcase with hc | hc
          · exact absurd hk hc
          · have hc' : alts = [] := hc
            have hkr' : k ∈ alts := hkr
            rw [hc'] at hkr'; simp at hkr'
        · exact i2 r h'' hk k hkr
    by_cases hk : P.kind = .prim
    · simp only [hk, if_true] at h
      cases hs : sym.lookup P with
      | none => simp [hs] at h
      | some i =>
        simp only [hs] at h
        cases halt : alts with
        | nil =>
          rw [halt] at h
          simp only [] at h
          rw [← halt]
          exact easy h (Or.inr halt)
        | cons k0 ks =>
          rw [halt] at h
          simp only [] at h
          cases hy : y[i]? with
          | none => simp [hy] at h
          | some t =>
            simp only [hy] at h
            rw [← halt] at h ⊢
            have hyat : yAt sym y P = t := by
              unfold yAt; rw [hs]; simp [List.getD, hy]
            set T2 := alts.foldl (fun T k => setInner T P k t) T1 with hT2
            have hT2' : T2 = constPairs (alts.map (fun k => (P, k))) t T1 := foldl_setInner_eq P alts t T1
            have haltsnd : (alts.map (fun k => (P, k))).Nodup :=
              (halts (P, alts) (by simp)).map (fun a b hab => by simpa using hab)
            have hfreshP : ∀ p ∈ alts.map (fun k => (P, k)), innerLookup T1 p.1 p.2 = none := by
              intro p hp
              simp only [List.mem_map] at hp
              obtain ⟨k, _, rfl⟩ := hp
              unfold innerLookup
              rw [hT1, AList.lookup_insert_self]; rfl
            have hm2 : massU' (fun _ => true) T2 = massU' (fun _ => true) T1 + (alts.length : ℝ) * Real.exp t := by
              rw [hT2', constPairs_spec (fun _ => true) true _ t T1 haltsnd hfreshP (fun _ _ => rfl)]
              simp
            have hfresh2 : ∀ r ∈ rest, AList.lookup r.1 T2 = none := by
              intro r hr
              rw [hT2, lookup_foldl_setInner_ne P r.1 t (hne r hr)]
              exact hfresh1 r hr
            obtain ⟨i1, i2⟩ := ih T2 T' hnd'.2 (fun r hr => halts r (by simp [hr])) hfresh2 h
            obtain ⟨_, _, _, i4⟩ := primTagsU_inv sym y rest T2 T' h
            refine ⟨?_, ?_⟩
            · rw [i1, hm2, hm1, List.map_cons, List.sum_cons]
              simp only [hk, if_true, hyat]
              ring
            · intro r hr hkr k hkm
              rcases List.mem_cons.mp hr with h'' | h''
              · subst h''
                refine ⟨?_, i, hs, by rw [hyat]; exact hy⟩
                unfold innerLookup
                rw [i4 P hnd'.1]
                have := constPairs_lookup (alts.map (fun k => (P, k))) t T1 (P, k)
                rw [← hT2'] at this
                unfold innerLookup at this
                rw [this, hyat]
                have hmem : (P, k) ∈ alts.map (fun k => (P, k)) := List.mem_map.mpr ⟨k, hkm, rfl⟩
                simp [hmem]
              · exact i2 r h'' hkr k hkm
    · simp only [hk, if_false] at h
      exact easy h (Or.inl hk)


/-! ### unambiguous layer: one non-terminal -/

theorem isEmpty_eq_decide_length {β : Type} (l : List β) : l.isEmpty = decide (l.length = 0) := by
  cases l <;> simp

theorem tagNTU_lookup_prim (v ε : ℝ) (tvo : Bool) (tags0 : TagsU) (vars consts : List (DP × List Alt))
    (hpos : 0 < massU' (fun _ => true) tags0) (q : DP × Alt) (hq : q ∉ pairsOf vars ++ pairsOf consts) :
    innerLookup (tagNTU v ε tvo tags0 vars consts) q.1 q.2
      = (innerLookup tags0 q.1 q.2).map
          (· + Real.log ((if vars.isEmpty && consts.isEmpty then 1 else 1 - v) / massU' (fun _ => true) tags0)) := by
  have hpos' : ExpLog.pos (massU' (fun _ => true) tags0) = true := (pos_real _).mpr hpos
  have hq1 : q ∉ pairsOf vars := fun h => hq (List.mem_append.mpr (Or.inl h))
  have hq2 : q ∉ pairsOf consts := fun h => hq (List.mem_append.mpr (Or.inr h))
  unfold tagNTU
  rw [massU_eq]
  by_cases hvc : (!vars.isEmpty || !consts.isEmpty) = true
  · have hc : (vars.isEmpty && consts.isEmpty) = false := by
      cases h1 : vars.isEmpty <;> cases h2 : consts.isEmpty <;> simp [h1, h2] at hvc ⊢
    simp only [hvc, if_true, hpos', hc, Bool.false_eq_true, if_false]
    rw [assignVarsU_eq, assignConstsU_eq, constPairs_lookup]
    simp only [hq2, if_false]
    rw [assignPairs_lookup_other _ _ _ _ _ q hq1, innerLookup_addAll]
    simp only [log_real, ofNat_real, Nat.cast_one]
  · have hc : (vars.isEmpty && consts.isEmpty) = true := by
      cases h1 : vars.isEmpty <;> cases h2 : consts.isEmpty <;> simp [h1, h2] at hvc ⊢
    simp only [hvc, Bool.false_eq_true, if_false, hc, if_true]
    rw [innerLookup_addAll]
    simp only [log_real, ofNat_real, Nat.cast_one]

/-- the alternatives of variables and constants: the `j`-th variable alternative (in the order of
    the loops) has weight `vp/(M+C) - j·ε`, every constant alternative `vp/(M+C) - M·ε` -/
theorem tagNTU_lookup_var (v ε : ℝ) (tvo : Bool) (tags0 : TagsU) (vars consts : List (DP × List Alt))
    (hv0 : 0 < v) (hv1 : v < 1) (hε : 0 ≤ ε)
    (hnd : (pairsOf vars ++ pairsOf consts).Nodup)
    (hvc : vars ≠ [] ∨ consts ≠ [])
    (hMC : 0 < nAlts vars + nAlts consts)
    (heps : (nAlts vars : ℝ) * eff tvo ε * (nAlts vars + nAlts consts) < vpOfU v tags0) :
    (∀ j (hj : j < (pairsOf vars).length), ∃ tag,
        innerLookup (tagNTU v ε tvo tags0 vars consts) (pairsOf vars)[j].1 (pairsOf vars)[j].2 = some tag
        ∧ Real.exp tag = vpOfU v tags0 / ((nAlts vars : ℝ) + nAlts consts) - j * eff tvo ε)
    ∧ (∀ q ∈ pairsOf consts, ∃ tag,
        innerLookup (tagNTU v ε tvo tags0 vars consts) q.1 q.2 = some tag
        ∧ Real.exp tag = vpOfU v tags0 / ((nAlts vars : ℝ) + nAlts consts) - (nAlts vars : ℝ) * eff tvo ε) := by
  set m := nAlts vars with hm
  set c := nAlts consts with hc
  have hmc : (0 : ℝ) < (m : ℝ) + c := by exact_mod_cast hMC
  have hnd1 := List.nodup_append.mp hnd
  have hcond : (!vars.isEmpty || !consts.isEmpty) = true := by
    rcases hvc with h | h
    · cases vars with
      | nil => exact absurd rfl h
      | cons _ _ => simp
    · cases consts with
      | nil => exact absurd rfl h
      | cons _ _ => simp
  unfold tagNTU
  simp only [hcond, if_true]
  rw [massU_eq]
  set tot := massU' (fun _ => true) tags0 with htot
  set tv : TagsU × ℝ :=
    (if ExpLog.pos tot = true then (addAllU tags0 (ExpLog.log ((ExpLog.ofNat 1 - v) / tot)), v)
     else (tags0, ExpLog.ofNat 1)) with htv
  have htv2 : tv.2 = vpOfU v tags0 := by
    by_cases hp : 0 < tot
    · have hpos : ExpLog.pos tot = true := (pos_real _).mpr hp
      simp only [htv, hpos, if_true, vpOfU, ← htot, hp]
    · have hpos : ¬ ExpLog.pos tot = true := fun h => hp ((pos_real _).mp h)
      simp only [htv, hpos, Bool.false_eq_true, if_false, vpOfU, ← htot, hp, ofNat_real, Nat.cast_one]
  have hvp : 0 < vpOfU v tags0 := by unfold vpOfU; split <;> linarith
  set nvl : ℝ := ExpLog.log (tv.2 / ExpLog.ofNat (m + c)) with hnvl
  have hq : Real.exp nvl = vpOfU v tags0 / ((m : ℝ) + c) := by
    simp only [hnvl, log_real, ofNat_real, htv2]
    push_cast
    rw [Real.exp_log (div_pos hvp hmc)]
  have hlenV : (pairsOf vars).length = m := (nAlts_eq vars).symm
  have hbound : ((pairsOf vars).length : ℝ) * eff tvo ε < Real.exp nvl := by
    rw [hlenV, hq, lt_div_iff₀ hmc]; exact heps
  rw [assignVarsU_eq, assignConstsU_eq]
  obtain ⟨a1, a2⟩ := assignPairs_lookup_at tvo ε hε (pairsOf vars) nvl tv.1 hnd1.1 hbound
  refine ⟨?_, ?_⟩
  · intro j hj
    obtain ⟨tag, b1, b2⟩ := a1 j hj
    refine ⟨tag, ?_, by rw [b2, hq]⟩
    rw [constPairs_lookup]
    have hnot : (pairsOf vars)[j] ∉ pairsOf consts :=
      fun h => hnd1.2.2 _ (List.getElem_mem hj) _ h rfl
    simp only [hnot, if_false]
    exact b1
  · intro q hq'
    refine ⟨_, ?_, by rw [a2, hq, hlenV]⟩
    rw [constPairs_lookup]
    simp [hq']

/-- One entry of `tensor2logProbU` in terms of the RAW tensor `x` (the model is run on
    `normalize L.abs2index x`). -/
theorem tagEntryU_raw (L : Layer) (hc : Consec 0 L.abs2index) (v ε : ℝ) (tvo : Bool) (x : List ℝ)
    (e : NT × AList DP (List Alt)) (t : NT × TagsU)
    (h : tagEntryU L v ε tvo (normalize L.abs2index x) e = some t)
    (hv0 : 0 < v) (hv1 : v < 1) (hε : 0 ≤ ε) (hnd : (AList.keys e.2).Nodup)
    (halts : ∀ r ∈ e.2, r.2.Nodup) :
    (∀ r ∈ e.2, r.1.kind = .prim → ∀ k ∈ r.2,
      ∃ pos tag, posOf L e.1 r.1 = some pos ∧ pos < x.length ∧ innerLookup t.2 r.1 k = some tag
        ∧ Real.exp tag = (if countKind .var e.2 + countKind .const e.2 = 0 then 1 else 1 - v)
            * Real.exp (rawAt L x e.1 r.1)
            / ((e.2.filter (fun r => kindIs .prim r.1)).map
                (fun r => (r.2.length : ℝ) * Real.exp (rawAt L x e.1 r.1))).sum)
    ∧ (0 < countAlts .var e.2 + countAlts .const e.2 →
        hypEps v ε tvo (decide (0 < countAlts .prim e.2)) (countAlts .var e.2) (countAlts .const e.2) = true →
        (∀ j (hj : j < (pairsOf (e.2.filter (fun p => kindIs .var p.1))).length), ∃ tag,
            innerLookup t.2 (pairsOf (e.2.filter (fun p => kindIs .var p.1)))[j].1
              (pairsOf (e.2.filter (fun p => kindIs .var p.1)))[j].2 = some tag
            ∧ Real.exp tag = (if 0 < countAlts .prim e.2 then v else 1)
                  / ((countAlts .var e.2 : ℝ) + countAlts .const e.2) - j * eff tvo ε)
        ∧ (∀ q ∈ pairsOf (e.2.filter (fun p => kindIs .const p.1)), ∃ tag,
            innerLookup t.2 q.1 q.2 = some tag
            ∧ Real.exp tag = (if 0 < countAlts .prim e.2 then v else 1)
                  / ((countAlts .var e.2 : ℝ) + countAlts .const e.2) - (countAlts .var e.2 : ℝ) * eff tvo ε)) := by
  unfold tagEntryU at h
  cases h1 : AList.lookup e.1 L.real2abs with
  | none => simp [h1] at h
  | some key =>
    cases h2 : AList.lookup key L.abs2index with
    | none => simp [h1, h2] at h
    | some idx =>
      obtain ⟨start, length, sym⟩ := idx
      simp only [h1, h2] at h
      set y := slice (normalize L.abs2index x) start length with hy
      cases h3 : primTagsU sym y e.2 [] with
      | none => simp [h3] at h
      | some tags0 =>
        simp only [h3, Option.some.injEq] at h
        subst h
        have hkeys : AList.keys e.2 = e.2.map (·.1) := rfl
        obtain ⟨i1, i2, i3, _⟩ := primTagsU_inv sym y e.2 [] tags0 h3
        have inv1 := i1 (by intro Q _; simp [AList.lookup])
        obtain ⟨r1, r2⟩ := primTagsU_raw sym y e.2 [] tags0 (by rw [← hkeys]; exact hnd) halts
          (by intro r _; rfl) h3
        obtain ⟨c, hcs⟩ := normalize_slice L.abs2index x hc key start length sym h2
        set vars := e.2.filter (fun p => kindIs .var p.1) with hvars
        set consts := e.2.filter (fun p => kindIs .const p.1) with hconsts
        have hkindV : ∀ p ∈ pairsOf vars, p.1.kind = .var := by
          intro p hp
          obtain ⟨r, hr, h1', _⟩ := mem_pairsOf.mp hp
          simp only [hvars, List.mem_filter, kindIs, decide_eq_true_eq] at hr
          rw [h1']; exact hr.2
        have hkindC : ∀ p ∈ pairsOf consts, p.1.kind = .const := by
          intro p hp
          obtain ⟨r, hr, h1', _⟩ := mem_pairsOf.mp hp
          simp only [hconsts, List.mem_filter, kindIs, decide_eq_true_eq] at hr
          rw [h1']; exact hr.2
        have hkindVC : ∀ p ∈ pairsOf vars ++ pairsOf consts, p.1.kind ≠ .prim := by
          intro p hp
          rcases List.mem_append.mp hp with h' | h'
          · rw [hkindV p h']; decide
          · rw [hkindC p h']; decide
        have hposiff : 0 < massU' (fun _ => true) tags0 ↔ 0 < countAlts .prim e.2 := by
          rw [countAlts_pos_iff]
          constructor
          · intro hpos
            by_contra hcon
            have hall : ∀ r ∈ e.2, r.1.kind = .prim → r.2 = [] := by
              intro r hr hk
              by_contra hne
              exact hcon ⟨r, hr, hk, hne⟩
            have := massU'_zero_of_empty (i3 (by intro e' he'; simp at he') hall)
            linarith
          · rintro ⟨r, hr, hk, hne⟩
            obtain ⟨d, hd, hdne⟩ := primTagsU_nonempty sym y e.2 [] tags0
              (by rw [← hkeys]; exact hnd) h3 r hr hk hne
            exact massU'_pos_of_mem (AList.lookup_some_mem hd) hdne
        refine ⟨?_, ?_⟩
        · -- primitive alternatives
          -- every primitive rule with an alternative: position, raw entry
          have hall : ∀ r ∈ e.2, r.1.kind = .prim → r.2 ≠ [] →
              ∃ i xi, posOf L e.1 r.1 = some (start + i) ∧ x[start + i]? = some xi
                ∧ yAt sym y r.1 = rawAt L x e.1 r.1 - c := by
            intro r hr hk hne
            obtain ⟨k, hkm⟩ := List.exists_mem_of_ne_nil _ hne
            obtain ⟨_, i, hs, hyi⟩ := r2 r hr hk k hkm
            obtain ⟨xi, hxi, hti⟩ := hcs i _ hyi
            have hpos : posOf L e.1 r.1 = some (start + i) := by simp [posOf, h1, h2, hs]
            have hraw := rawAt_of L x e.1 r.1 _ xi hpos hxi
            exact ⟨i, xi, hpos, hxi, by rw [hti, hraw]⟩
          set R := ((e.2.filter (fun r => kindIs .prim r.1)).map
                (fun r => (r.2.length : ℝ) * Real.exp (rawAt L x e.1 r.1))).sum with hR
          have hmass : massU' (fun _ => true) tags0 = Real.exp (-c) * R := by
            rw [r1]
            have h0 : massU' (fun _ => true) ([] : TagsU) = 0 := by simp [massU']
            rw [h0, zero_add, hR, ← sum_map_exp_sub, ← sum_map_ite_filter]
            congr 1
            apply List.map_congr_left
            intro r hr
            by_cases hk : r.1.kind = .prim
            · have hk' : kindIs .prim r.1 = true := by simp [kindIs, hk]
              simp only [hk, if_true, hk']
              by_cases hne : r.2 = []
              · simp [hne]
              · obtain ⟨_, _, _, _, hya⟩ := hall r hr hk hne
                rw [hya]
            · have hk' : ¬ kindIs .prim r.1 = true := by simp [kindIs, hk]
              simp only [hk, if_false, hk']
              simp
          intro r hr hk k hkm
          have hne : r.2 ≠ [] := List.ne_nil_of_mem hkm
          obtain ⟨i, xi, hpos, hxi, hya⟩ := hall r hr hk hne
          have hMpos : 0 < massU' (fun _ => true) tags0 :=
            hposiff.mpr ((countAlts_pos_iff .prim e.2).mpr ⟨r, hr, hk, hne⟩)
          have hq : (r.1, k) ∉ pairsOf vars ++ pairsOf consts := by
            intro hmem; exact hkindVC _ hmem hk
          have htag := tagNTU_lookup_prim v ε tvo tags0 vars consts hMpos (r.1, k) hq
          simp only [(r2 r hr hk k hkm).1, Option.map_some] at htag
          have hlen : start + i < x.length := (List.getElem?_eq_some_iff.mp hxi).1
          refine ⟨start + i, _, hpos, hlen, htag, ?_⟩
          have hgen : (vars.isEmpty && consts.isEmpty) = decide (countKind .var e.2 + countKind .const e.2 = 0) := by
            have hv : vars.isEmpty = decide (countKind .var e.2 = 0) := by
              unfold countKind
              rw [hvars, hkeys, List.filter_map, List.length_map]
              exact isEmpty_eq_decide_length _
            have hcn : consts.isEmpty = decide (countKind .const e.2 = 0) := by
              unfold countKind
              rw [hconsts, hkeys, List.filter_map, List.length_map]
              exact isEmpty_eq_decide_length _
            rw [hv, hcn]
            by_cases ha : countKind .var e.2 = 0 <;> by_cases hb : countKind .const e.2 = 0 <;> simp [ha, hb]
          rw [hgen]
          set cc : ℝ := if countKind .var e.2 + countKind .const e.2 = 0 then 1 else 1 - v with hcc
          have hcc' : (if decide (countKind .var e.2 + countKind .const e.2 = 0) = true then (1 : ℝ) else 1 - v) = cc := by
            by_cases hz : countKind .var e.2 + countKind .const e.2 = 0 <;> simp [hcc, hz]
          rw [hcc']
          have hccpos : 0 < cc := by
            rw [hcc]; split <;> linarith
          have hRpos : 0 < R := by
            have : 0 < Real.exp (-c) * R := by rw [← hmass]; exact hMpos
            exact (mul_pos_iff_of_pos_left (Real.exp_pos _)).mp this
          rw [Real.exp_add, Real.exp_log (div_pos hccpos hMpos), hmass, hya, sub_eq_add_neg, Real.exp_add]
          have h1' : Real.exp (-c) ≠ 0 := ne_of_gt (Real.exp_pos _)
          have h2' : R ≠ 0 := ne_of_gt hRpos
          field_simp
        · -- alternatives of variables and constants
          intro hMC hhyp
          have hvp : vpOfU v tags0 = (if 0 < countAlts .prim e.2 then v else 1) := by
            unfold vpOfU
            by_cases hp : 0 < countAlts .prim e.2
            · simp [hp, hposiff.mpr hp]
            · have : ¬ 0 < massU' (fun _ => true) tags0 := fun h' => hp (hposiff.mp h')
              simp [hp, this]
          have hsubV : ((vars.map (·.1))).Nodup :=
            hnd.sublist ((List.filter_sublist (l := e.2)).map _)
          have hsubC : ((consts.map (·.1))).Nodup :=
            hnd.sublist ((List.filter_sublist (l := e.2)).map _)
          have hndV := pairsOf_nodup vars hsubV (fun r hr => halts r (List.mem_of_mem_filter hr))
          have hndC := pairsOf_nodup consts hsubC (fun r hr => halts r (List.mem_of_mem_filter hr))
          have hndall : (pairsOf vars ++ pairsOf consts).Nodup := by
            rw [List.nodup_append]
            refine ⟨hndV, hndC, ?_⟩
            intro a ha b' hb hab
            subst hab
            have := hkindV a ha
            rw [hkindC a hb] at this
            exact absurd this (by decide)
          have hvc : vars ≠ [] ∨ consts ≠ [] := by
            by_contra hcon
            simp only [not_or, ne_eq, not_not] at hcon
            unfold countAlts at hMC
            rw [← hvars, ← hconsts, hcon.1, hcon.2] at hMC
            simp [nAlts] at hMC
          have heps := hypEps_real hv0 hMC hhyp
          have hMV : countAlts .var e.2 = nAlts vars := rfl
          have hMCc : countAlts .const e.2 = nAlts consts := rfl
          have heps' : (nAlts vars : ℝ) * eff tvo ε * ((nAlts vars : ℝ) + nAlts consts) < vpOfU v tags0 := by
            rw [hvp, ← hMV, ← hMCc]
            simpa using heps
          have := tagNTU_lookup_var v ε tvo tags0 vars consts hv0 hv1 hε hndall hvc
            (by rw [← hMV, ← hMCc]; exact hMC) heps'
          rw [hvp, ← hMV, ← hMCc] at this
          exact this


/-! ### start tags of the unambiguous layer -/

theorem normalize_drop (idx : AList Abs (ℕ × ℕ × AList DP ℕ)) (x : List ℝ) (hc : Consec 0 idx) (n : ℕ)
    (hn : (idx.map (fun e => e.2.2.1)).sum ≤ n) : (normalize idx x).drop n = x.drop n := by
  apply List.ext_getElem?
  intro j
  simp only [List.getElem?_drop]
  exact normalize_tail idx x hc (n + j) (by omega)

/-- the start tags are read after the last slice: `__normalize__` does not touch them -/
theorem startTagsU_normalize (L : Layer) (starts : List NT) (x : List ℝ) (hc : Consec 0 L.abs2index)
    (hn : (L.abs2index.map (fun e => e.2.2.1)).sum ≤ L.outputSize - L.allStartsAbs.length) :
    startTagsU L starts (normalize L.abs2index x) = startTagsU L starts x := by
  unfold startTagsU
  rw [normalize_drop L.abs2index x hc _ hn]

/-- `if S in grammar.starts: start_tags[S] = z[i]` -/
def startInner (starts : List NT) (zj : Option ℝ) (acc : Option (AList NT ℝ)) (S : NT) : Option (AList NT ℝ) :=
  match acc with
  | none => none
  | some d => if S ∈ starts then
      match zj with
      | none => none
      | some t => some (d.insert S t)
    else some d

/-- `for S in abs2real[abs]: …` -/
def startOuter (L : Layer) (starts : List NT) (z : List ℝ) (acc : Option (AList NT ℝ)) (ai : Abs × ℕ) :
    Option (AList NT ℝ) :=
  match acc with
  | none => none
  | some d => ((L.abs2real.lookup ai.1).getD []).foldl (startInner starts z[ai.2]?) (some d)

/-- the table `start_tags` before its normalisation (u 249-255), `z` = tail of the tensor -/
def startRawU (L : Layer) (starts : List NT) (z : List ℝ) : Option (AList NT ℝ) :=
  L.allStartsAbs.zipIdx.foldl (startOuter L starts z) (some [])

theorem startTagsU_eq (L : Layer) (starts : List NT) (x : List ℝ) :
    startTagsU L starts x =
      match startRawU L starts (x.drop (L.outputSize - L.allStartsAbs.length)) with
      | none => none
      | some d =>
        some (d.map (fun e => (e.1, e.2 + Real.log (1 / (d.map (fun e => Real.exp e.2)).sum)))) := by
  unfold startTagsU startRawU
  simp only [sumL_eq, log_real, ofNat_real, Nat.cast_one, exp_real]
  unfold startOuter startInner
  congr! <;> (funext _ o _ _; cases o <;> rfl)

theorem foldl_none {β γ : Type} (f : Option β → γ → Option β) (hf : ∀ x, f none x = none) (l : List γ) :
    l.foldl f none = none := by
  induction l with
  | nil => rfl
  | cons a r ih => simp [List.foldl_cons, hf, ih]

/-- where every entry of the raw start table comes from -/
def StartFrom (L : Layer) (starts : List NT) (z : List ℝ) (d : AList NT ℝ) : Prop :=
  ∀ (S : NT) (t : ℝ), AList.lookup S d = some t →
    S ∈ starts ∧ ∃ (j : ℕ) (a : Abs), L.allStartsAbs[j]? = some a ∧ S ∈ (L.abs2real.lookup a).getD [] ∧ z[j]? = some t

theorem startRawU_inner (L : Layer) (starts : List NT) (z : List ℝ) (a : Abs) (j : ℕ)
    (ha : L.allStartsAbs[j]? = some a) :
    ∀ (Ss : List NT) (d d' : AList NT ℝ), (∀ S ∈ Ss, S ∈ (L.abs2real.lookup a).getD []) →
      StartFrom L starts z d →
      Ss.foldl (startInner starts z[j]?) (some d) = some d' → StartFrom L starts z d' := by
  intro Ss
  induction Ss with
  | nil => intro d d' _ hd h; simp at h; subst h; exact hd
  | cons S r ih =>
    intro d d' hS hd h
    simp only [List.foldl_cons] at h
    by_cases hst : S ∈ starts
    · cases hz : z[j]? with
      | none =>
        have : startInner starts z[j]? (some d) S = none := by simp [startInner, hst, hz]
        rw [this, foldl_none _ (by intro x; rfl)] at h
        cases h
      | some t =>
        have : startInner starts z[j]? (some d) S = some (d.insert S t) := by simp [startInner, hst, hz]
        rw [this] at h
        refine ih _ d' (fun S' hS' => hS S' (by simp [hS'])) ?_ h
        intro S' t' hl
        rw [AList.lookup_insert] at hl
        by_cases hSS : S' = S
        · subst hSS
          simp only [if_true, Option.some.injEq] at hl
          subst hl
          exact ⟨hst, j, a, ha, hS S' (by simp), hz⟩
        · simp only [hSS, if_false] at hl
          exact hd S' t' hl
    · have : startInner starts z[j]? (some d) S = some d := by simp [startInner, hst]
      rw [this] at h
      exact ih d d' (fun S' hS' => hS S' (by simp [hS'])) hd h

theorem startRawU_outer (L : Layer) (starts : List NT) (z : List ℝ) :
    ∀ (l : List (Abs × ℕ)) (d d' : AList NT ℝ), (∀ ai ∈ l, L.allStartsAbs[ai.2]? = some ai.1) →
      StartFrom L starts z d →
      l.foldl (startOuter L starts z) (some d) = some d' → StartFrom L starts z d' := by
  intro l
  induction l with
  | nil => intro d d' _ hd h; simp at h; subst h; exact hd
  | cons ai r ih =>
    intro d d' hl hd h
    simp only [List.foldl_cons] at h
    cases hin : startOuter L starts z (some d) ai with
    | none =>
      rw [hin, foldl_none _ (by intro x; rfl)] at h
      cases h
    | some d1 =>
      rw [hin] at h
      have h1 := startRawU_inner L starts z ai.1 ai.2 (hl ai (by simp)) _ d d1 (fun _ h => h) hd hin
      exact ih d1 d' (fun ai' h' => hl ai' (by simp [h'])) h1 h

theorem startRawU_from (L : Layer) (starts : List NT) (z : List ℝ) (d : AList NT ℝ)
    (h : startRawU L starts z = some d) : StartFrom L starts z d := by
  unfold startRawU at h
  refine startRawU_outer L starts z _ [] d ?_ ?_ h
  · intro ai hai
    have := List.mem_zipIdx_iff_getElem?.mp hai
    simpa using this
  · intro S t hl; simp [AList.lookup] at hl

/-- the start tags are the softmax of the raw start table -/
theorem startTagsU_closed (L : Layer) (starts : List NT) (x : List ℝ) (st : AList NT ℝ)
    (h : startTagsU L starts x = some st) :
    ∃ d, startRawU L starts (x.drop (L.outputSize - L.allStartsAbs.length)) = some d
      ∧ AList.keys st = AList.keys d
      ∧ ∀ S t, AList.lookup S d = some t → ∃ tag, AList.lookup S st = some tag
          ∧ Real.exp tag = Real.exp t / (d.map (fun e => Real.exp e.2)).sum := by
  rw [startTagsU_eq] at h
  cases hd : startRawU L starts (x.drop (L.outputSize - L.allStartsAbs.length)) with
  | none => rw [hd] at h; simp at h
  | some d =>
    rw [hd] at h
    simp only [Option.some.injEq] at h
    subst h
    refine ⟨d, rfl, by simp [AList.keys, List.map_map, Function.comp_def], ?_⟩
    intro S t hl
    refine ⟨t + Real.log (1 / (d.map (fun e => Real.exp e.2)).sum), ?_, ?_⟩
    · rw [lookup_map_val (fun t : ℝ => t + Real.log (1 / (d.map (fun e => Real.exp e.2)).sum)) S d, hl]; rfl
    · have hpos : 0 < (d.map (fun e : NT × ℝ => Real.exp e.2)).sum :=
        sum_pos_of_mem d (fun e => Real.exp e.2) (fun _ _ => Real.exp_nonneg _) (S, t)
          (AList.lookup_some_mem hl) (Real.exp_pos _)
      rw [Real.exp_add, Real.exp_log (by positivity)]
      field_simp


/-! ### small facts used by the property theorems -/

theorem tagEntryDet_fst (L : Layer) (v ε : ℝ) (tvo : Bool) (x : List ℝ)
    (e : NT × AList DP (List NT)) (t : NT × AList DP ℝ) (h : tagEntryDet L v ε tvo x e = some t) : t.1 = e.1 := by
  unfold tagEntryDet at h
  cases h1 : AList.lookup e.1 L.real2abs with
  | none => simp [h1] at h
  | some key =>
    cases h2 : AList.lookup key L.abs2index with
    | none => simp [h1, h2] at h
    | some idx =>
      obtain ⟨start, length, sym⟩ := idx
      simp only [h1, h2] at h
      cases h3 : primTags sym (slice x start length) (AList.keys e.2) [] with
      | none => simp [h3] at h
      | some prim => simp only [h3, Option.some.injEq] at h; rw [← h]

theorem tagEntryU_fst (L : Layer) (v ε : ℝ) (tvo : Bool) (x : List ℝ)
    (e : NT × AList DP (List Alt)) (t : NT × TagsU) (h : tagEntryU L v ε tvo x e = some t) : t.1 = e.1 := by
  unfold tagEntryU at h
  cases h1 : AList.lookup e.1 L.real2abs with
  | none => simp [h1] at h
  | some key =>
    cases h2 : AList.lookup key L.abs2index with
    | none => simp [h1, h2] at h
    | some idx =>
      obtain ⟨start, length, sym⟩ := idx
      simp only [h1, h2] at h
      cases h3 : primTagsU sym (slice x start length) e.2 [] with
      | none => simp [h3] at h
      | some prim => simp only [h3, Option.some.injEq] at h; rw [← h]

/-- a constructed layer has consecutive slices, and the start tags lie after them -/
theorem mkLayerU_consec {ρ : Type} (abstraction : NT → Abs) (iter : Abs → List DP → List DP)
    (grammars : List (AList NT (AList DP ρ) × List NT)) :
    Consec 0 (mkLayerU abstraction iter grammars).abs2index
    ∧ ((mkLayerU abstraction iter grammars).abs2index.map (fun e => e.2.2.1)).sum
        ≤ (mkLayerU abstraction iter grammars).outputSize - (mkLayerU abstraction iter grammars).allStartsAbs.length := by
  rw [abs2index_eq]
  refine ⟨sliceTable_consec iter _ 0, ?_⟩
  rw [sliceTable_lens]
  have := (mkLayerU_fields abstraction iter grammars).2.2.2
  have h3 := (mkLayerU_fields abstraction iter grammars).2.2.1
  rw [this, h3]
  omega

end PS.Predictor
