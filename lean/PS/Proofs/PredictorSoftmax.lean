/-
  Helper lemmas for property C19, part "closed form in the raw tensor":

    * `normalize_spec`   : `__normalize__` over consecutive slices subtracts ONE constant (the
                           log-sum-exp of the slice) inside every slice and changes nothing else
    * `tagEntryDet_raw`  : deterministic layer, weight of a primitive rule = re-normalised softmax
                           of the RAW tensor entries at the positions `posOf`
    * `tagEntryU_raw`    : the same for the unambiguous layer (per alternative), and the weights of
                           the alternatives of variables and constants
    * `startTagsU_raw`   : start tags = softmax of the raw tail of the tensor
-/
import PS.Proofs.PredictorIndex
namespace PS.Predictor
open PS
set_option linter.unusedSectionVars false
set_option linter.unusedSimpArgs false
set_option linter.unusedVariables false

/-- the raw tensor entry that feeds the rule `(S, P)`: `x[posOf L S P]` (0 when there is none) -/
noncomputable def rawAt (L : Layer) (x : List ℝ) (S : NT) (P : DP) : ℝ :=
  match posOf L S P with
  | some p => x.getD p 0
  | none => 0

/-! ### `__normalize__` -/

theorem getElem?_setSlice_map (x : List ℝ) (s l : ℕ) (f : ℝ → ℝ) (j : ℕ) :
    (setSlice x s ((slice x s l).map f))[j]?
      = (x[j]?).map (fun a => if s ≤ j ∧ j < s + l then f a else a) := by
  unfold setSlice slice
  simp only [List.getElem?_append, List.length_append, List.length_take, List.length_map, List.length_drop,
    List.getElem?_take, List.getElem?_drop, List.getElem?_map]
  by_cases hjx : j < x.length
  · rw [List.getElem?_eq_getElem hjx]
    by_cases h1 : j < s
    · have : j < min s x.length + min l (x.length - s) := by omega
      have h2 : j < min s x.length := by omega
      have h3 : ¬ (s ≤ j ∧ j < s + l) := by omega
      simp [this, h2, h1, h3, List.getElem?_eq_getElem hjx]
    · by_cases h4 : j < s + l
      · have : j < min s x.length + min l (x.length - s) := by omega
        have h2 : ¬ j < min s x.length := by omega
        have h3 : (s ≤ j ∧ j < s + l) := by omega
        have h5 : j - min s x.length < l := by omega
        have h6 : s + (j - min s x.length) = j := by omega
        simp [this, h2, h3, h5, h6, List.getElem?_eq_getElem hjx]
      · have : ¬ j < min s x.length + min l (x.length - s) := by omega
        have h3 : ¬ (s ≤ j ∧ j < s + l) := by omega
        have h6 : s + min l (x.length - s) + (j - (min s x.length + min l (x.length - s))) = j := by omega
        simp [this, h3, h6, List.getElem?_eq_getElem hjx]
  · have hn : x[j]? = none := List.getElem?_eq_none (by omega)
    rw [hn]
    simp only [Option.map_none]
    split_ifs <;> first | rfl | (apply List.getElem?_eq_none; omega) | (simp; omega)

theorem logSoftmax_eq (ys : List ℝ) :
    logSoftmax ys = ys.map (fun a => a - Real.log ((ys.map Real.exp).sum)) := by
  unfold logSoftmax
  simp only [sumL_eq, log_real]
  rfl

theorem normalize_cons (e : Abs × ℕ × ℕ × AList DP ℕ) (rest : AList Abs (ℕ × ℕ × AList DP ℕ)) (x : List ℝ) :
    normalize (e :: rest) x = normalize rest (setSlice x e.2.1 (logSoftmax (slice x e.2.1 e.2.2.1))) := rfl

/-- `__normalize__` over consecutive slices: nothing changes outside the slices, and inside the
    slice of an entry every element loses the same constant `c` (the log-sum-exp of the slice) -/
theorem normalize_spec :
    ∀ (idx : AList Abs (ℕ × ℕ × AList DP ℕ)) (cur : ℕ) (x : List ℝ), Consec cur idx →
      (∀ j, j < cur → (normalize idx x)[j]? = x[j]?) ∧
      (∀ j, cur + (idx.map (fun e => e.2.2.1)).sum ≤ j → (normalize idx x)[j]? = x[j]?) ∧
      (∀ e ∈ idx, cur ≤ e.2.1 ∧ e.2.1 + e.2.2.1 ≤ cur + (idx.map (fun e => e.2.2.1)).sum ∧
         ∃ c : ℝ, ∀ j, e.2.1 ≤ j → j < e.2.1 + e.2.2.1 → (normalize idx x)[j]? = (x[j]?).map (· - c)) := by
  intro idx
  induction idx with
  | nil =>
    intro cur x _
    refine ⟨fun _ _ => rfl, fun _ _ => rfl, ?_⟩
    intro e he; simp at he
  | cons e rest ih =>
    intro cur x hc
    obtain ⟨hs, hc'⟩ := hc
    rw [normalize_cons, logSoftmax_eq]
    set lse := Real.log (((slice x e.2.1 e.2.2.1).map Real.exp).sum) with hlse
    set x1 := setSlice x e.2.1 ((slice x e.2.1 e.2.2.1).map (fun a => a - lse)) with hx1
    have hget : ∀ j, x1[j]? = (x[j]?).map (fun a => if e.2.1 ≤ j ∧ j < e.2.1 + e.2.2.1 then a - lse else a) :=
      fun j => getElem?_setSlice_map x e.2.1 e.2.2.1 (fun a => a - lse) j
    have hout : ∀ j, ¬ (e.2.1 ≤ j ∧ j < e.2.1 + e.2.2.1) → x1[j]? = x[j]? := by
      intro j hj
      rw [hget j]
      cases x[j]? with
      | none => rfl
      | some a => simp [hj]
    have hin : ∀ j, e.2.1 ≤ j → j < e.2.1 + e.2.2.1 → x1[j]? = (x[j]?).map (· - lse) := by
      intro j h1 h2
      rw [hget j]
      cases x[j]? with
      | none => rfl
      | some a => simp [h1, h2]
    obtain ⟨i1, i2, i3⟩ := ih (cur + e.2.2.1) x1 hc'
    simp only [List.map_cons, List.sum_cons]
    refine ⟨?_, ?_, ?_⟩
    · intro j hj
      rw [i1 j (by omega), hout j (by omega)]
    · intro j hj
      rw [i2 j (by omega), hout j (by omega)]
    · intro e' he'
      rcases List.mem_cons.mp he' with h | h
      · subst h
        refine ⟨by omega, by omega, lse, ?_⟩
        intro j h1 h2
        rw [i1 j (by omega), hin j h1 h2]
      · obtain ⟨b1, b2, c, b3⟩ := i3 e' h
        refine ⟨by omega, by omega, c, ?_⟩
        intro j h1 h2
        rw [b3 j h1 h2, hout j (by omega)]

theorem slice_getElem? (x : List ℝ) (s l i : ℕ) :
    (slice x s l)[i]? = if i < l then x[s + i]? else none := by
  unfold slice
  simp [List.getElem?_take, List.getElem?_drop]

/-- what a rule reads in its slice of the normalised tensor: the raw entry minus a constant that
    depends on the slice only -/
theorem normalize_slice (idx : AList Abs (ℕ × ℕ × AList DP ℕ)) (x : List ℝ) (hc : Consec 0 idx)
    (k : Abs) (s l : ℕ) (sym : AList DP ℕ) (h : AList.lookup k idx = some (s, l, sym)) :
    ∃ c : ℝ, ∀ i y, (slice (normalize idx x) s l)[i]? = some y → ∃ xi, x[s + i]? = some xi ∧ y = xi - c := by
  obtain ⟨_, _, c, hcj⟩ := (normalize_spec idx 0 x hc).2.2 _ (AList.lookup_some_mem h)
  refine ⟨c, ?_⟩
  intro i y hy
  rw [slice_getElem?] at hy
  by_cases hi : i < l
  · simp only [hi, if_true] at hy
    have := hcj (s + i) (by simp) (by simp only; omega)
    rw [hy] at this
    cases hx : x[s + i]? with
    | none => rw [hx] at this; simp at this
    | some xi =>
      rw [hx] at this
      simp only [Option.map_some, Option.some.injEq] at this
      exact ⟨xi, rfl, this⟩
  · simp [hi] at hy

/-- positions after the last slice (the start tags of the U-layer) are not normalised -/
theorem normalize_tail (idx : AList Abs (ℕ × ℕ × AList DP ℕ)) (x : List ℝ) (hc : Consec 0 idx) (j : ℕ)
    (hj : (idx.map (fun e => e.2.2.1)).sum ≤ j) : (normalize idx x)[j]? = x[j]? :=
  (normalize_spec idx 0 x hc).2.1 j (by omega)

/-! ### sums -/

theorem alist_eq_map_keys {κ ν : Type} [DecidableEq κ] (f : κ → ν) :
    ∀ (d : AList κ ν), (AList.keys d).Nodup → (∀ k ∈ AList.keys d, AList.lookup k d = some (f k)) →
      d = (AList.keys d).map (fun k => (k, f k)) := by
  intro d
  induction d with
  | nil => intro _ _; rfl
  | cons p r ih =>
    obtain ⟨k, v⟩ := p
    intro hnd hl
    simp only [AList.keys, List.map_cons, List.nodup_cons] at hnd
    have hv : v = f k := by
      have := hl k (by simp [AList.keys])
      simpa [AList.lookup] using this
    have hr := ih hnd.2 (by
      intro k' hk'
      have := hl k' (by simp only [AList.keys, List.map_cons, List.mem_cons]; exact Or.inr hk')
      have hne : k ≠ k' := by intro h; subst h; exact hnd.1 hk'
      simpa [AList.lookup, hne] using this)
    simp only [AList.keys, List.map_cons]
    rw [hv]
    congr 1

theorem mass_eq_of_lookup (f : DP → ℝ) (d : AList DP ℝ) (hnd : (AList.keys d).Nodup)
    (hl : ∀ k ∈ AList.keys d, AList.lookup k d = some (f k)) :
    mass (fun _ => true) d = ((AList.keys d).map (fun Q => Real.exp (f Q))).sum := by
  have := alist_eq_map_keys f d hnd hl
  unfold mass wsum
  conv_lhs => rw [this]
  simp [List.map_map, Function.comp_def]

theorem sum_map_exp_sub {β : Type} (l : List β) (w g : β → ℝ) (c : ℝ) :
    (l.map (fun r => w r * Real.exp (g r - c))).sum = Real.exp (-c) * (l.map (fun r => w r * Real.exp (g r))).sum := by
  induction l with
  | nil => simp
  | cons a r ih =>
    simp only [List.map_cons, List.sum_cons, ih]
    rw [sub_eq_add_neg, Real.exp_add]; ring

theorem sum_map_ite_filter {β : Type} (l : List β) (p : β → Bool) (g : β → ℝ) :
    (l.map (fun r => if p r then g r else 0)).sum = ((l.filter p).map g).sum := by
  induction l with
  | nil => simp
  | cons a r ih =>
    by_cases hp : p a = true
    · simp [List.filter_cons, hp, ih]
    · simp [List.filter_cons, hp, ih]

theorem sum_pos_of_mem {β : Type} (l : List β) (g : β → ℝ) (hg : ∀ r ∈ l, 0 ≤ g r) (a : β) (ha : a ∈ l)
    (hpos : 0 < g a) : 0 < (l.map g).sum := by
  induction l with
  | nil => simp at ha
  | cons b r ih =>
    simp only [List.map_cons, List.sum_cons]
    have hb := hg b (by simp)
    have hr : 0 ≤ (r.map g).sum := by
      apply List.sum_nonneg
      intro y hy
      simp only [List.mem_map] at hy
      obtain ⟨z, hz, rfl⟩ := hy
      exact hg z (by simp [hz])
    rcases List.mem_cons.mp ha with h | h
    · subst h; linarith
    · have := ih (fun z hz => hg z (by simp [hz])) h; linarith

/-! ### deterministic layer -/

theorem rawAt_of (L : Layer) (x : List ℝ) (S : NT) (P : DP) (p : ℕ) (xi : ℝ)
    (hp : posOf L S P = some p) (hx : x[p]? = some xi) : rawAt L x S P = xi := by
  unfold rawAt
  rw [hp]
  simp [List.getD, hx]

/-- One entry of `tensor2logProbDet` in terms of the RAW tensor `x` (the model is run on
    `normalize L.abs2index x`): the weight of a primitive rule is the softmax of the raw entries at
    the positions of the primitive rules derivable from the non-terminal, times `c`. -/
theorem tagEntryDet_raw (L : Layer) (hc : Consec 0 L.abs2index) (v ε : ℝ) (tvo : Bool) (x : List ℝ)
    (e : NT × AList DP (List NT)) (t : NT × AList DP ℝ)
    (h : tagEntryDet L v ε tvo (normalize L.abs2index x) e = some t) (hnd : (AList.keys e.2).Nodup)
    (hv1 : v < 1) :
    ∀ P ∈ AList.keys e.2, P.kind = .prim →
      ∃ pos tag, posOf L e.1 P = some pos ∧ pos < x.length ∧ AList.lookup P t.2 = some tag
        ∧ Real.exp tag = (if countKind .var e.2 + countKind .const e.2 = 0 then 1 else 1 - v)
            * Real.exp (rawAt L x e.1 P)
            / (((AList.keys e.2).filter (kindIs .prim)).map (fun Q => Real.exp (rawAt L x e.1 Q))).sum := by
  unfold tagEntryDet at h
  cases h1 : AList.lookup e.1 L.real2abs with
  | none => simp [h1] at h
  | some key =>
    cases h2 : AList.lookup key L.abs2index with
    | none => simp [h1, h2] at h
    | some idx =>
      obtain ⟨start, length, sym⟩ := idx
      simp only [h1, h2] at h
      set y := slice (normalize L.abs2index x) start length with hy
      cases h3 : primTags sym y (AList.keys e.2) [] with
      | none => simp [h3] at h
      | some prim =>
        simp only [h3, Option.some.injEq] at h
        subst h
        have hkeys : AList.keys prim = (AList.keys e.2).filter (kindIs .prim) := by
          have := primTags_keys sym y (AList.keys e.2) [] prim hnd (by intro P _; simp [AList.keys]) h3
          simpa [AList.keys] using this
        obtain ⟨l1, _⟩ := primTags_lookup sym y (AList.keys e.2) [] prim hnd h3
        obtain ⟨c, hcs⟩ := normalize_slice L.abs2index x hc key start length sym h2
        -- every primitive rule: position, raw entry, value in `prim`
        have hall : ∀ Q ∈ AList.keys e.2, Q.kind = .prim →
            ∃ i xi, posOf L e.1 Q = some (start + i) ∧ x[start + i]? = some xi
              ∧ AList.lookup Q prim = some (rawAt L x e.1 Q - c) ∧ rawAt L x e.1 Q = xi := by
          intro Q hQ hk
          obtain ⟨i, t, hs, hyi, hl⟩ := l1 Q hQ hk
          obtain ⟨xi, hxi, hti⟩ := hcs i t hyi
          have hpos : posOf L e.1 Q = some (start + i) := by simp [posOf, h1, h2, hs]
          have hraw := rawAt_of L x e.1 Q _ xi hpos hxi
          exact ⟨i, xi, hpos, hxi, by rw [hl, hraw, hti], hraw⟩
        have hndp : (AList.keys prim).Nodup := by rw [hkeys]; exact hnd.filter _
        have hmass : mass (fun _ => true) prim
            = Real.exp (-c) * (((AList.keys e.2).filter (kindIs .prim)).map (fun Q => Real.exp (rawAt L x e.1 Q))).sum := by
          rw [mass_eq_of_lookup (fun Q => rawAt L x e.1 Q - c) prim hndp, hkeys]
          · have := sum_map_exp_sub ((AList.keys e.2).filter (kindIs .prim)) (fun _ => 1) (fun Q => rawAt L x e.1 Q) c
            simpa using this
          · intro Q hQ
            rw [hkeys] at hQ
            simp only [List.mem_filter, kindIs, decide_eq_true_eq] at hQ
            obtain ⟨_, _, _, _, hl, _⟩ := hall Q hQ.1 hQ.2
            exact hl
        intro P hP hk
        obtain ⟨i, xi, hpos, hxi, hl, hraw⟩ := hall P hP hk
        have hpne : prim ≠ [] := by
          intro hp; rw [hp] at hl; simp [AList.lookup] at hl
        have hPv : P ∉ (AList.keys e.2).filter (kindIs .var) := by
          intro hmem; have := filter_kind_sel hmem; rw [hk] at this; exact absurd this (by decide)
        have hPc : P ∉ (AList.keys e.2).filter (kindIs .const) := by
          intro hmem; have := filter_kind_sel hmem; rw [hk] at this; exact absurd this (by decide)
        have hlen : start + i < x.length := (List.getElem?_eq_some_iff.mp hxi).1
        have htag := tagNT_lookup_prim v ε tvo prim _ _ hpne P hPv hPc
        rw [hl] at htag
        simp only [Option.map_some] at htag
        refine ⟨start + i, _, hpos, hlen, htag, ?_⟩
        · have hgen : ∀ A B : List DP, (A.isEmpty && B.isEmpty) = decide (A.length + B.length = 0) := by
            intro A B; cases A <;> cases B <;> simp
          rw [hgen]
          have e1 : decide (((AList.keys e.2).filter (kindIs .var)).length + ((AList.keys e.2).filter (kindIs .const)).length = 0)
              = decide (countKind .var e.2 + countKind .const e.2 = 0) := rfl
          rw [e1]
          set cc : ℝ := if countKind .var e.2 + countKind .const e.2 = 0 then 1 else 1 - v with hcc
          have hcc' : (if decide (countKind .var e.2 + countKind .const e.2 = 0) = true then (1 : ℝ) else 1 - v) = cc := by
            by_cases hz : countKind .var e.2 + countKind .const e.2 = 0 <;> simp [hcc, hz]
          rw [hcc']
          have hccpos : 0 < cc := by
            rw [hcc]; split <;> linarith
          have hMpos := mass_true_pos hpne
          set R := (((AList.keys e.2).filter (kindIs .prim)).map (fun Q => Real.exp (rawAt L x e.1 Q))).sum with hR
          have hRpos : 0 < R := by
            have : 0 < Real.exp (-c) * R := by rw [← hmass]; exact hMpos
            exact (mul_pos_iff_of_pos_left (Real.exp_pos _)).mp this
          rw [Real.exp_add, Real.exp_log (div_pos hccpos hMpos), hmass, sub_eq_add_neg, Real.exp_add]
          have h1' : Real.exp (-c) ≠ 0 := ne_of_gt (Real.exp_pos _)
          have h2' : R ≠ 0 := ne_of_gt hRpos
          field_simp

end PS.Predictor
