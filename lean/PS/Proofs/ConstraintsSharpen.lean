/-
  C05, part 4: the level-0 post-processing of `__process__` (sketch: keep the final states whose
  newest component is 1; local rule: delete the rules of head symbols whose target's newest
  component is 0) and the loop of `add_dfta_constraints` (product / reduce / minimise: theorems
  of C07).
-/
import PS.Proofs.ConstraintsProcess
import PS.Proofs.DftaMin
import PS.Proofs.DftaMinimal
set_option linter.unusedSectionVars false
set_option synthInstance.maxSize 1024
namespace PS.C05
open PS DFTA

variable {σ Q : Type} [DecidableEq σ] [DecidableEq Q]

/-! ### sketch -/

theorem lastIsOne_extL (d : St Q) (tok : Tok σ) (t : Tree σ) (hw : width tok ≠ 0) :
    lastIsOne (extL d (attrs tok t)) = matchesTok tok t := by
  have hh := attrs_head tok t hw
  unfold lastIsOne extL
  cases ha : attrs tok t with
  | nil => rw [ha] at hh; cases hh
  | cons x xs =>
    rw [ha] at hh
    simp only [List.head?_cons, Option.some.injEq] at hh
    simp only [List.cons_append, List.head?_cons, hh]
    cases matchesTok tok t <;> simp [bit]

theorem run_of_rules_eq {X : Type} [DecidableEq X] (A A' : DFTA σ X) (h : A'.rules = A.rules) (t : Tree σ) :
    DFTA.run A' t = DFTA.run A t := by
  have := (run_hom A A' id (fun _ => True) (fun _ _ _ _ _ => trivial)
    (fun l qs _ => by unfold DFTA.read; rw [h]; simp) t).1
  simpa using this

theorem sketchFinish_accepts {B A : DFTA σ (St Q)} {tok : Tok σ} (h : Refines B A (width tok) (attrs tok))
    (hw : width tok ≠ 0) (t : Tree σ) :
    (sketchFinish A).accepts t = (B.accepts t && matchesTok tok t) := by
  rw [← h.accepts t]
  unfold DFTA.accepts
  rw [run_of_rules_eq A (sketchFinish A) rfl t, h.run]
  cases hr : DFTA.run B t with
  | none => rfl
  | some d =>
    simp only [Option.map_some, sketchFinish, List.mem_filter, lastIsOne_extL d tok t hw]
    by_cases hf : extL d (attrs tok t) ∈ A.finals <;> simp [hf]

theorem width_eq_zero {tok : Tok σ} (h : width tok = 0) : tok = .any := by
  cases tok <;> simp [width] at h ⊢

/-- **sketch**: the automaton of `__process__(B, tok, local=False)` accepts the trees of `B`
    whose root matches the pattern -/
theorem processTop_sketch (B A : DFTA σ (St Q)) (L : Nat) (hd : B.Det) (hu : Uniform B L) (tok : Tok σ)
    (h : processTop B tok false = some A) :
    A.Det ∧ ∀ t, A.accepts t = (B.accepts t && matchesTok tok t) := by
  by_cases hw : width tok = 0
  · have := width_eq_zero hw
    subst this
    simp only [processTop, Option.some.injEq] at h
    subst h
    exact ⟨hd, fun t => by simp [matchesTok]⟩
  · have key : ∃ A0, processInner B tok = some A0 ∧ A = sketchFinish A0 := by
      cases tok with
      | any => simp [width] at hw
      | func H args =>
        simp only [processTop] at h
        cases hp : processInner B (.func H args) with
        | none => rw [hp] at h; cases h
        | some A0 =>
          rw [hp] at h
          simp only [Bool.false_eq_true, if_false, Option.some.injEq] at h
          exact ⟨A0, rfl, h.symm⟩
      | allow S | atMost S n | atLeast S n | forbidSub S | forceSub S =>
        simp only [processTop, Bool.false_eq_true, if_false, Option.map_eq_some_iff] at h
        obtain ⟨A0, h1, h2⟩ := h
        exact ⟨A0, h1, h2.symm⟩
    obtain ⟨A0, hp, e⟩ := key
    subst e
    have r := processInner_refines tok B A0 L hd hu hp
    exact ⟨r.det, fun t => sketchFinish_accepts r hw t⟩

/-! ### local rule -/
section localRule
variable (A : DFTA σ (St Q)) (chk : Check σ Q)

theorem filterRules_det (hd : A.Det) : (filterRules A chk).Det := AList.keys_nodup_ofList _

theorem read_filterRules (hd : A.Det) (l : σ) (qs : List (St Q)) :
    (filterRules A chk).read l qs =
      match A.read l qs with
      | some d => if chk l qs d then some d else none
      | none => none := by
  have hdf : (AList.keys (A.rules.filter (fun r => chk r.1.1 r.1.2 r.2))).Nodup := AList.keys_filter_nodup _ _ hd
  have key : ∀ d, (filterRules A chk).read l qs = some d ↔ (A.read l qs = some d ∧ chk l qs d = true) := by
    intro d
    show AList.lookup (l, qs) (AList.ofList _) = some d ↔ _
    constructor
    · intro h
      have := AList.lookup_ofList_some h
      rw [List.mem_filter] at this
      exact ⟨(read_eq_some_iff A hd _ _ _).mpr this.1, this.2⟩
    · rintro ⟨h1, h2⟩
      apply AList.lookup_insertMany_of_mem
      · exact ⟨((l, qs), d), List.mem_filter.mpr ⟨(read_eq_some_iff A hd _ _ _).mp h1, h2⟩, rfl⟩
      · rintro ⟨k, v⟩ hx hk
        simp only at hk
        subst hk
        rw [List.mem_filter] at hx
        have := (read_eq_some_iff A hd _ _ _).mpr hx.1
        rw [h1] at this
        simp only [Option.some.injEq] at this
        exact this.symm
  cases hA : A.read l qs with
  | none =>
    cases hF : (filterRules A chk).read l qs with
    | none => rfl
    | some d => have := ((key d).mp hF).1; rw [hA] at this; cases this
  | some d =>
    simp only
    by_cases hc : chk l qs d = true
    · simp only [hc, if_true]; exact (key d).mpr ⟨hA, hc⟩
    · simp only [hc]
      cases hF : (filterRules A chk).read l qs with
      | none => rfl
      | some d' =>
        have := (key d').mp hF
        rw [hA] at this
        simp only [Option.some.injEq] at this
        rw [← this.1] at this
        exact absurd this.2 hc

end localRule

/-- the run of the filtered automaton: the run of `A`, defined iff every node passes the check -/
theorem run_localFinish {B A : DFTA σ (St Q)} {H : List σ} {args : List (Tok σ)}
    (r : Refines B A (width (.func H args)) (attrs (.func H args))) :
    ∀ t, DFTA.run (localFinish A H) t = if satLocal H args t then DFTA.run A t else none := by
  apply run_induction
  intro l ks ih
  have hlist : runList (localFinish A H) ks = if satLocalList H args ks then runList A ks else none := by
    clear r
    induction ks with
    | nil => simp [satLocalList]
    | cons k ks ihk =>
      rw [runList_cons, runList_cons, ih k List.mem_cons_self, ihk (fun k' hk' => ih k' (List.mem_cons_of_mem _ hk'))]
      simp only [satLocalList]
      by_cases hk : satLocal H args k = true <;> by_cases hks : satLocalList H args ks = true <;> simp [hk, hks]
  rw [run_node, hlist]
  simp only [satLocal]
  by_cases hs : satLocalList H args ks = true
  case neg => simp [hs]
  case pos =>
    simp only [hs, if_true, Bool.and_true]
    rw [run_node]
    cases hqs : runList A ks with
    | none => simp
    | some qs =>
      simp only [Option.bind_some]
      unfold localFinish
      rw [read_filterRules A _ r.det]
      cases hd : A.read l qs with
      | none => simp
      | some d =>
        simp only
        -- the state reached at the root and its newest component
        have hrun : DFTA.run A (.node l ks) = some d := by rw [run_node, hqs]; exact hd
        have hB := r.run (.node l ks)
        rw [hrun] at hB
        cases hb : DFTA.run B (.node l ks) with
        | none => rw [hb] at hB; cases hB
        | some d0 =>
          rw [hb] at hB
          simp only [Option.map_some, Option.some.injEq] at hB
          rw [hB, lastIsOne_extL d0 _ _ (by simp [width])]
          simp only [matchesTok, Tree.label, Tree.kids]
          by_cases hl : l ∈ H <;> simp [hl]

/-- **local rule**: the automaton of `__process__(B, (H a₁ … a_k), local=True)` accepts the trees
    of `B` in which every occurrence of a symbol of `H` has matching arguments -/
theorem processTop_local (B A : DFTA σ (St Q)) (L : Nat) (hd : B.Det) (hu : Uniform B L) (H : List σ)
    (args : List (Tok σ)) (h : processTop B (.func H args) true = some A) :
    A.Det ∧ ∀ t, A.accepts t = (B.accepts t && satLocal H args t) := by
  simp only [processTop] at h
  cases hp : processInner B (.func H args) with
  | none => rw [hp] at h; cases h
  | some A0 =>
    rw [hp] at h
    simp only [if_true, Option.some.injEq] at h
    subst h
    have r := processInner_refines (.func H args) B A0 L hd hu hp
    refine ⟨filterRules_det _ _ r.det, ?_⟩
    intro t
    rw [← r.accepts t]
    unfold DFTA.accepts
    rw [run_localFinish r t]
    by_cases hs : satLocal H args t = true
    case neg => simp [hs]
    case pos =>
      simp only [hs, if_true, Bool.and_true]
      cases hr : DFTA.run A0 t with
      | none => rfl
      | some s =>
        simp only
        -- `s` is the target of a rule that survives the filter
        have hrun : DFTA.run (localFinish A0 H) t = some s := by rw [run_localFinish r t, hs, hr]; rfl
        have hval : s ∈ AList.values (localFinish A0 H).rules := by
          cases t with
          | node l ks =>
            rw [run_node] at hrun
            cases hqs : runList (localFinish A0 H) ks with
            | none => rw [hqs] at hrun; cases hrun
            | some qs =>
              rw [hqs] at hrun
              have := AList.lookup_some_mem hrun
              exact List.mem_map.mpr ⟨_, this, rfl⟩
        have hfin : s ∈ (localFinish A0 H).finals ↔ (s ∈ A0.finals ∧ s ∈ AList.values (localFinish A0 H).rules) := by
          simp [localFinish, filterRules, List.mem_filter]
        by_cases hf : s ∈ A0.finals <;> simp [hfin, hf, hval]

/-! ### the loop of `add_dfta_constraints` -/
section loop

theorem uleaf_inj {a b : St Q} (h : uleaf a = uleaf b) : a = b := by
  unfold uleaf at h; cases h; rfl
theorem utup_inj {a b : List (UState Q)} (h : utup a = utup b) : a = b := by
  unfold utup at h; cases h; rfl
theorem upair_inj {a b : UState Q × UState Q} (h : upair a = upair b) : a = b := by
  obtain ⟨a1, a2⟩ := a
  obtain ⟨b1, b2⟩ := b
  unfold upair utup at h
  cases h; rfl

theorem mapStates_det {X Y : Type} [DecidableEq X] [DecidableEq Y] (f : X → Y) (A : DFTA σ X) :
    (mapStates f A).Det := AList.keys_nodup_ofList _

/-- `dfta.reduce(); dfta = dfta.minimise()` keeps the language -/
theorem reduceMin_lang (d d' : DFTA σ (UState Q)) (hd : d.Det) (h : reduceMin d = some d') :
    d'.Det ∧ ∀ t, d'.accepts t = d.accepts t := by
  unfold reduceMin minimiseWith at h
  have hdr := reduce_det d hd
  have htrim := trim_reduce d hd
  refine ⟨?_, fun t => ?_⟩
  · obtain ⟨st, _, e⟩ := minimiseCore_eq utup (reduce d) _ _ _ d' h
    rw [e]; exact mapStates_det _ _
  · rw [minimiseCore_lang utup (fun _ _ e => utup_inj e) (reduce d) hdr htrim.1 _ _ (initOK_filter _) _ d' h t,
      accepts_reduce d hd t]

/-- `dfta = a` / `a.reduce(); dfta = dfta.read_product(a.minimise())` -/
theorem combine_lang (dfta : Option (DFTA σ (UState Q))) (a : DFTA σ (St Q)) (ha : a.Det)
    (hdd : ∀ d, dfta = some d → d.Det) (r : DFTA σ (UState Q)) (h : combine dfta a = some r) :
    r.Det ∧ ∀ t, r.accepts t = ((match dfta with
      | none => true
      | some d => d.accepts t) && a.accepts t) := by
  cases dfta with
  | none =>
    simp only [combine, Option.some.injEq] at h
    subst h
    exact ⟨mapStates_det _ _, fun t => by
      rw [accepts_mapStates uleaf a ha (fun x _ y _ e => uleaf_inj e) t]; simp⟩
  | some d =>
    simp only [combine] at h
    have hd := hdd d rfl
    cases hm : minimiseWith utup (reduce (mapStates uleaf a)) with
    | none => rw [hm] at h; cases h
    | some m =>
      rw [hm] at h
      simp only [Option.some.injEq] at h
      subst h
      have hl := mapStates_det uleaf a
      obtain ⟨hmd, hml⟩ := reduceMin_lang (mapStates uleaf a) m hl hm
      refine ⟨mapStates_det _ _, fun t => ?_⟩
      have hpd : (readProduct d m).Det := AList.keys_nodup_ofList _
      rw [accepts_mapStates upair (readProduct d m) hpd (fun x _ y _ e => upair_inj e) t,
        accepts_product d m hd hmd t, hml t, accepts_mapStates uleaf a ha (fun x _ y _ e => uleaf_inj e) t]

variable (base : DFTA σ (St Q)) (L : Nat)

/-- what is known about the automaton accumulated so far: deterministic, and its language is
    the base language cut by `F` (`none`: nothing accumulated yet) -/
def AccOK (base : DFTA σ (St Q)) (dfta : Option (DFTA σ (UState Q))) (F : Tree σ → Bool) : Prop :=
  match dfta with
  | none => ∀ t, F t = true
  | some d => d.Det ∧ ∀ t, d.accepts t = (base.accepts t && F t)

theorem satConstraint_skipped {c : Tok σ} (h : skipped c = true) (t : Tree σ) : satConstraint c t = true := by
  cases c with
  | func H args =>
    simp only [skipped, List.isEmpty_iff] at h
    subst h
    simp only [satConstraint]
    -- no symbol is in the empty head set
    have : ∀ t : Tree σ, satLocal [] args t = true := by
      apply run_induction
      intro l ks ih
      have hl : satLocalList [] args ks = true := by
        induction ks with
        | nil => simp [satLocalList]
        | cons k ks ihk =>
          simp [satLocalList, ih k List.mem_cons_self, ihk (fun k' hk' => ih k' (List.mem_cons_of_mem _ hk'))]
      simp [satLocal, hl]
    exact this t
  | _ => simp [satConstraint]

theorem step_ok (hd : base.Det) (hu : Uniform base L) (dfta : Option (DFTA σ (UState Q))) (F G : Tree σ → Bool)
    (hok : AccOK base dfta F) (a : DFTA σ (St Q)) (ha : a.Det) (hal : ∀ t, a.accepts t = (base.accepts t && G t))
    (d d' : DFTA σ (UState Q)) (hc : combine dfta a = some d) (hr : reduceMin d = some d') :
    AccOK base (some d') (fun t => F t && G t) := by
  have hdd : ∀ x, dfta = some x → x.Det := by
    intro x e; subst e; exact hok.1
  obtain ⟨h1, h2⟩ := combine_lang dfta a ha hdd d hc
  obtain ⟨h3, h4⟩ := reduceMin_lang d d' h1 hr
  refine ⟨h3, fun t => ?_⟩
  rw [h4 t, h2 t, hal t]
  cases dfta with
  | none =>
    have := hok t
    simp [this]
  | some x =>
    simp only
    rw [hok.2 t]
    cases base.accepts t <;> cases F t <;> cases G t <;> rfl

theorem constraintLoop_ok (hd : base.Det) (hu : Uniform base L) :
    ∀ (cs : List (Tok σ)) (dfta : Option (DFTA σ (UState Q))) (F : Tree σ → Bool) (r : Option (DFTA σ (UState Q))),
      AccOK base dfta F → constraintLoop base cs dfta = some r →
      AccOK base r (fun t => F t && cs.all (fun c => satConstraint c t))
  | [], dfta, F, r, hok, h => by
    simp only [constraintLoop, Option.some.injEq] at h
    subst h
    cases dfta with
    | none => intro t; simp [hok t]
    | some d => exact ⟨hok.1, fun t => by rw [hok.2 t]; simp⟩
  | c :: cs, dfta, F, r, hok, h => by
    simp only [constraintLoop] at h
    by_cases hs : skipped c = true
    · simp only [hs, if_true] at h
      have := constraintLoop_ok hd hu cs dfta F r hok h
      have e : (fun t => F t && (c :: cs).all (fun c => satConstraint c t)) =
          (fun t => F t && cs.all (fun c => satConstraint c t)) := by
        funext t; simp [satConstraint_skipped hs t]
      rw [e]; exact this
    · simp only [hs] at h
      cases hp : processTop base c true with
      | none => rw [hp] at h; cases h
      | some a =>
        rw [hp] at h
        simp only at h
        cases hc : combine dfta a with
        | none => rw [hc] at h; cases h
        | some d =>
          rw [hc] at h
          simp only at h
          cases hr : reduceMin d with
          | none => rw [hr] at h; cases h
          | some d' =>
            rw [hr] at h
            simp only at h
            -- a local rule that is processed is a function pattern
            cases c with
            | func H args =>
              obtain ⟨ha, hal⟩ := processTop_local base a L hd hu H args hp
              have hok' := step_ok base L hd hu dfta F (fun t => satLocal H args t) hok a ha hal d d' hc hr
              have := constraintLoop_ok hd hu cs (some d') _ r hok' h
              have e : (fun t => F t && (Tok.func H args :: cs).all (fun c => satConstraint c t)) =
                  (fun t => (F t && satLocal H args t) && cs.all (fun c => satConstraint c t)) := by
                funext t; simp [satConstraint, Bool.and_assoc]
              rw [e]; exact this
            | any => simp [skipped] at hs
            | allow S | atMost S n | atLeast S n | forbidSub S | forceSub S =>
              simp [processTop] at hp

/-- **`add_dfta_constraints`** on parsed tokens: the returned automaton accepts exactly the trees of
    the base automaton that satisfy every local rule and whose root satisfies the sketch -/
theorem addDftaConstraints_lang (hd : base.Det) (hu : Uniform base L) (cs : List (Tok σ))
    (sketch : Option (Tok σ)) (D : DFTA σ (UState Q)) (h : addDftaConstraints base cs sketch = some D) :
    D.Det ∧ ∀ t, D.accepts t = sharpenSpec base.accepts cs sketch t := by
  unfold addDftaConstraints at h
  cases hl : constraintLoop base cs none with
  | none => rw [hl] at h; cases h
  | some dfta =>
    rw [hl] at h
    simp only at h
    have hok := constraintLoop_ok base L hd hu cs none (fun _ => true) dfta (fun _ => rfl) hl
    cases sketch with
    | none =>
      simp only [Option.some.injEq] at h
      subst h
      cases dfta with
      | none =>
        refine ⟨mapStates_det _ _, fun t => ?_⟩
        have := hok t
        simp only [Bool.true_and] at this
        simp [sharpenSpec, this, accepts_mapStates uleaf base hd (fun x _ y _ e => uleaf_inj e) t]
      | some d =>
        exact ⟨hok.1, fun t => by show d.accepts t = _; rw [hok.2 t]; simp [sharpenSpec]⟩
    | some sk =>
      simp only at h
      cases hp : processTop base sk false with
      | none => rw [hp] at h; cases h
      | some a =>
        rw [hp] at h
        simp only at h
        cases hc : combine dfta a with
        | none => rw [hc] at h; cases h
        | some d =>
          rw [hc] at h
          simp only at h
          obtain ⟨ha, hal⟩ := processTop_sketch base a L hd hu sk hp
          have := step_ok base L hd hu dfta _ (fun t => matchesTok sk t) hok a ha hal d D hc h
          exact ⟨this.1, fun t => by rw [this.2 t]; simp [sharpenSpec, satSketch, Bool.and_assoc]⟩

end loop

end PS.C05
