/-
  Lemmas for C01, last sentence: the unbounded specification `wtI` (PS/Model/CfgInfinite.lean)
  is the union over all depth bounds of the bounded specification `wt` (PS/Model/Cfg.lean) taken
  with minimum variable depth 0:   wtI P vis t parent ty  ↔  ∃ D, wt (unb P D) vis t 0 parent ty.
-/
import PS.Proofs.CfgInfinite
namespace PS.G
open PS

/-- the parameters with depth bound `D` and variables allowed everywhere -/
def unb (P : Params) (D : Nat) : Params := { P with maxDepth := D, minVarDepth := 0 }

theorem leafSyms_unb (P : Params) (D : Nat) (forb : List String) (d : Nat) (ty : Ty) :
    leafSyms (unb P D) forb d ty = leafSymsInf P forb ty := by
  unfold leafSyms leafSymsInf unb
  simp

/-! ### `Type.ends_with` -/

theorem endsWithRec_length : ∀ (s o : Ty) (acc r : List Ty), Ty.endsWithRec s o acc = some r →
    acc.length ≤ r.length ∧ (r.length = acc.length → s = o) := by
  intro s
  induction s with
  | arrow a b _ ihb =>
    intro o acc r h
    rw [Ty.endsWithRec] at h
    split at h
    · rename_i heq
      cases h; exact ⟨Nat.le_refl _, fun _ => heq⟩
    · have := ihb o (acc ++ [a]) r h
      simp only [List.length_append, List.length_cons, List.length_nil] at this
      exact ⟨by omega, fun hl => by omega⟩
  | base n =>
    intro o acc r h
    simp only [Ty.endsWithRec] at h
    split at h
    · rename_i heq; cases h; exact ⟨Nat.le_refl _, fun _ => heq⟩
    · cases h
  | gen n a _ =>
    intro o acc r h
    simp only [Ty.endsWithRec] at h
    split at h
    · rename_i heq; cases h; exact ⟨Nat.le_refl _, fun _ => heq⟩
    · cases h
  | unknown =>
    intro o acc r h
    simp only [Ty.endsWithRec] at h
    split at h
    · rename_i heq; cases h; exact ⟨Nat.le_refl _, fun _ => heq⟩
    · cases h

theorem endsWith_nil (s o : Ty) (h : Ty.endsWith s o = some []) : s = o :=
  (endsWithRec_length s o [] [] h).2 rfl

theorem endsWith_arguments (s o : Ty) (tys : List Ty) (h : Ty.endsWith s o = some tys)
    (hne : tys.length > 0) : s.arguments.length > 0 := by
  cases s with
  | arrow a b => simp [Ty.arguments]
  | base n =>
    simp only [Ty.endsWith, Ty.endsWithRec] at h
    split at h
    · cases h; simp at hne
    · cases h
  | gen n a =>
    simp only [Ty.endsWith, Ty.endsWithRec] at h
    split at h
    · cases h; simp at hne
    · cases h
  | unknown =>
    simp only [Ty.endsWith, Ty.endsWithRec] at h
    split at h
    · cases h; simp at hne
    · cases h

/-! ### applicable heads -/

theorem mem_appHeadsInf (P : Params) (forb : List String) (ty : Ty) (h : Sym × List Ty) :
    h ∈ appHeadsInf P forb ty ↔
      (∃ p ∈ P.prims, forb.contains p.name = false ∧ p.ty.endsWith ty = some h.2 ∧ h.1 = p) ∨
      (∃ iv ∈ enumFrom' P.request.arguments, iv.2.endsWith ty = some h.2 ∧ h.2.length > 0 ∧
        h.1 = Sym.var iv.1 iv.2) ∨
      (P.recursive = true ∧ P.request.endsWith ty = some h.2 ∧ h.1 = selfSym P) := by
  obtain ⟨f, tys⟩ := h
  unfold appHeadsInf
  simp only [List.mem_append, List.mem_filterMap]
  constructor
  · rintro ((⟨p, hp, h1⟩ | ⟨iv, hiv, h1⟩) | h1)
    · left
      split at h1
      · cases h1
      · rename_i hf
        split at h1
        · rename_i tys' heq
          simp only [Option.some.injEq, Prod.mk.injEq] at h1
          exact ⟨p, hp, by simpa using hf, h1.2 ▸ heq, h1.1.symm⟩
        · cases h1
    · right; left
      split at h1
      · rename_i tys' heq
        split at h1
        · rename_i hl
          simp only [Option.some.injEq, Prod.mk.injEq] at h1
          exact ⟨iv, hiv, h1.2 ▸ heq, h1.2 ▸ hl, h1.1.symm⟩
        · cases h1
      · cases h1
    · right; right
      split at h1
      · rename_i hrec
        split at h1
        · rename_i tys' heq
          rw [List.mem_singleton] at h1
          simp only [Prod.mk.injEq] at h1
          exact ⟨hrec, h1.2 ▸ heq, h1.1⟩
        · cases h1
      · cases h1
  · rintro (⟨p, hp, hf, heq, hfp⟩ | ⟨iv, hiv, heq, hl, hfp⟩ | ⟨hrec, heq, hfp⟩)
    · left; left
      refine ⟨p, hp, ?_⟩
      have hf' : ¬ p.name ∈ forb := by simpa using hf
      simp [hf', heq, hfp]
    · left; right
      refine ⟨iv, hiv, ?_⟩
      simp [heq, hl, hfp]
    · right
      simp [hrec, heq, hfp]

theorem mem_appHeads_unb (P : Params) (D : Nat) (forb : List String) (d : Nat) (ty : Ty) (h : Sym × List Ty) :
    h ∈ appHeads (unb P D) forb d ty ↔
      (∃ p ∈ P.prims, forb.contains p.name = false ∧ p.ty.endsWith ty = some h.2 ∧ h.1 = p) ∨
      (∃ iv ∈ enumFrom' P.request.arguments, iv.2.endsWith ty = some h.2 ∧ iv.2.arguments.length > 0 ∧
        h.1 = Sym.var iv.1 iv.2) ∨
      (P.recursive = true ∧ P.request.endsWith ty = some h.2 ∧ h.1 = selfSym P) := by
  obtain ⟨f, tys⟩ := h
  unfold appHeads
  have h0 : d ≥ (unb P D).minVarDepth := Nat.zero_le _
  simp only [h0, if_true, List.mem_append, List.mem_filterMap]
  change ((∃ a ∈ P.prims, _) ∨ (∃ a ∈ enumFrom' P.request.arguments, _)) ∨
    (f, tys) ∈ (if P.recursive = true then
      match P.request.endsWith ty with
      | some tys => [(selfSym P, tys)]
      | none => [] else []) ↔ _
  constructor
  · rintro ((⟨p, hp, h1⟩ | ⟨iv, hiv, h1⟩) | h1)
    · left
      split at h1
      · cases h1
      · rename_i hf
        split at h1
        · rename_i tys' heq
          simp only [Option.some.injEq, Prod.mk.injEq] at h1
          exact ⟨p, hp, by simpa using hf, h1.2 ▸ heq, h1.1.symm⟩
        · cases h1
    · right; left
      split at h1
      · rename_i tys' heq
        split at h1
        · rename_i hl
          simp only [Option.some.injEq, Prod.mk.injEq] at h1
          exact ⟨iv, hiv, h1.2 ▸ heq, hl, h1.1.symm⟩
        · cases h1
      · cases h1
    · right; right
      split at h1
      · rename_i hrec
        split at h1
        · rename_i tys' heq
          rw [List.mem_singleton] at h1
          simp only [Prod.mk.injEq] at h1
          exact ⟨hrec, h1.2 ▸ heq, h1.1⟩
        · cases h1
      · cases h1
  · rintro (⟨p, hp, hf, heq, hfp⟩ | ⟨iv, hiv, heq, hl, hfp⟩ | ⟨hrec, heq, hfp⟩)
    · left; left
      refine ⟨p, hp, ?_⟩
      have hf' : ¬ p.name ∈ forb := by simpa using hf
      simp [hf', heq, hfp]
    · left; right
      refine ⟨iv, hiv, ?_⟩
      simp [heq, hl, hfp]
    · right
      simp [hrec, heq, hfp]

/-- an unbounded head is a bounded head -/
theorem appHeads_unb_of_inf (P : Params) (D : Nat) (forb : List String) (d : Nat) (ty : Ty)
    (h : Sym × List Ty) (hm : h ∈ appHeadsInf P forb ty) : h ∈ appHeads (unb P D) forb d ty := by
  rw [mem_appHeads_unb]
  rcases (mem_appHeadsInf P forb ty h).mp hm with h1 | ⟨iv, hiv, heq, hl, hf⟩ | h1
  · exact Or.inl h1
  · exact Or.inr (Or.inl ⟨iv, hiv, heq, endsWith_arguments _ _ _ heq hl, hf⟩)
  · exact Or.inr (Or.inr h1)

/-- a bounded head is an unbounded head, or a variable of exactly the requested type (a leaf) -/
theorem appHeadsInf_of_unb (P : Params) (D : Nat) (forb : List String) (d : Nat) (ty : Ty)
    (h : Sym × List Ty) (hm : h ∈ appHeads (unb P D) forb d ty) :
    h ∈ appHeadsInf P forb ty ∨ (h.2 = [] ∧ h.1 ∈ leafSymsInf P forb ty) := by
  rw [mem_appHeadsInf]
  rcases (mem_appHeads_unb P D forb d ty h).mp hm with h1 | ⟨iv, hiv, heq, _, hf⟩ | h1
  · exact Or.inl (Or.inl h1)
  · by_cases hl : h.2.length > 0
    · exact Or.inl (Or.inr (Or.inl ⟨iv, hiv, heq, hl, hf⟩))
    · right
      have hnil : h.2 = [] := List.length_eq_zero_iff.mp (by omega)
      refine ⟨hnil, ?_⟩
      rw [hnil] at heq
      have hty := endsWith_nil _ _ heq
      rw [hf]
      unfold leafSymsInf
      apply List.mem_append_left
      apply List.mem_append_left
      apply List.mem_filterMap.mpr
      exact ⟨iv, hiv, by simp [hty]⟩
  · exact Or.inl (Or.inr (Or.inr h1))

/-! ### the two specifications -/

theorem wtI_unfold (P : Params) (vis : Sym × Nat → Option (Sym × Nat)) (f : Sym) (kids : List Prog)
    (parent : Option (Sym × Nat)) (ty : Ty) :
    wtI P vis (.node f kids) parent ty =
      ((kids.isEmpty && (leafSymsInf P (forbAt P parent) ty).contains f) ||
       wtIHeads P vis kids f (appHeadsInf P (forbAt P parent) ty)) := by
  rw [wtI]; rfl

theorem wt_unfold (Q : Params) (vis : Sym × Nat → Option (Sym × Nat)) (f : Sym) (kids : List Prog)
    (d : Nat) (parent : Option (Sym × Nat)) (ty : Ty) :
    wt Q vis (.node f kids) d parent ty =
      (decide (d < Q.maxDepth) &&
        ((kids.isEmpty && (leafSyms Q (forbAt Q parent) d ty).contains f) ||
         (decide (d + 1 < Q.maxDepth) &&
          wtHeads Q vis kids (d + 1) f (appHeads Q (forbAt Q parent) d ty)))) := by
  rw [wt]; rfl

theorem wtIList_nil_right (P : Params) (vis : Sym × Nat → Option (Sym × Nat)) (kids : List Prog)
    (f : Sym) (i : Nat) : wtIList P vis kids f i [] = kids.isEmpty := by
  cases kids <;> simp [wtIList]

theorem wtList_nil_right (Q : Params) (vis : Sym × Nat → Option (Sym × Nat)) (kids : List Prog)
    (d : Nat) (f : Sym) (i : Nat) : wtList Q vis kids d f i [] = kids.isEmpty := by
  cases kids <;> simp [wtList]

theorem wtIList_of_wtList (P Q : Params) (vis : Sym × Nat → Option (Sym × Nat)) (d : Nat) (f : Sym)
    (kids : List Prog)
    (hk : ∀ k ∈ kids, ∀ parent ty, wt Q vis k d parent ty = true → wtI P vis k parent ty = true) :
    ∀ (tys : List Ty) (i : Nat), wtList Q vis kids d f i tys = true → wtIList P vis kids f i tys = true := by
  induction kids with
  | nil => intro tys i h; cases tys <;> simp_all [wtList, wtIList]
  | cons k ks ih =>
    intro tys i h
    cases tys with
    | nil => simp [wtList] at h
    | cons a as =>
      rw [wtList] at h
      rw [wtIList]
      simp only [Bool.and_eq_true] at h ⊢
      exact ⟨hk k (by simp) _ _ h.1,
        ih (fun k' hk' => hk k' (List.mem_cons_of_mem _ hk')) as (i + 1) h.2⟩

theorem wtList_of_wtIList (P Q : Params) (vis : Sym × Nat → Option (Sym × Nat)) (d : Nat) (f : Sym)
    (kids : List Prog)
    (hk : ∀ k ∈ kids, ∀ parent ty, wtI P vis k parent ty = true → wt Q vis k d parent ty = true) :
    ∀ (tys : List Ty) (i : Nat), wtIList P vis kids f i tys = true → wtList Q vis kids d f i tys = true := by
  induction kids with
  | nil => intro tys i h; cases tys <;> simp_all [wtList, wtIList]
  | cons k ks ih =>
    intro tys i h
    cases tys with
    | nil => simp [wtIList] at h
    | cons a as =>
      rw [wtIList] at h
      rw [wtList]
      simp only [Bool.and_eq_true] at h ⊢
      exact ⟨hk k (by simp) _ _ h.1,
        ih (fun k' hk' => hk k' (List.mem_cons_of_mem _ hk')) as (i + 1) h.2⟩

/-- bounded well-typedness (any bound, any level) implies unbounded well-typedness -/
theorem wtI_of_wt_unb (P : Params) (D : Nat) (vis : Sym × Nat → Option (Sym × Nat)) :
    ∀ (n : Nat) (t : Prog), t.size ≤ n → ∀ d parent ty,
      wt (unb P D) vis t d parent ty = true → wtI P vis t parent ty = true := by
  intro n
  induction n with
  | zero =>
    intro t ht
    cases t with | node f kids => simp [Tree.size] at ht
  | succ n ih =>
    intro t ht d parent ty h
    cases t with
    | node f kids =>
      rw [wt_unfold] at h
      rw [wtI_unfold]
      have hforb : forbAt (unb P D) parent = forbAt P parent := rfl
      simp only [Bool.and_eq_true, Bool.or_eq_true, decide_eq_true_eq, hforb, leafSyms_unb] at h
      simp only [Bool.or_eq_true, Bool.and_eq_true]
      rcases h.2 with hleaf | ⟨_, hheads⟩
      · exact Or.inl hleaf
      · unfold wtHeads at hheads
        rw [List.any_eq_true] at hheads
        obtain ⟨hd, hhd, hx⟩ := hheads
        simp only [Bool.and_eq_true, beq_iff_eq] at hx
        obtain ⟨hf, hl⟩ := hx
        have hkids : ∀ k ∈ kids, ∀ parent ty, wt (unb P D) vis k (d + 1) parent ty = true →
            wtI P vis k parent ty = true := by
          intro k hk parent' ty' hw
          have := Tree.size_lt_of_mem_kids (l := f) hk
          exact ih k (by omega) (d + 1) parent' ty' hw
        have hl' := wtIList_of_wtList P (unb P D) vis (d + 1) f kids hkids hd.2 0 hl
        rcases appHeadsInf_of_unb P D _ d ty hd hhd with hin | ⟨hnil, hleaf⟩
        · right
          unfold wtIHeads
          rw [List.any_eq_true]
          exact ⟨hd, hin, by simp [hf, hl']⟩
        · left
          rw [hnil, wtIList_nil_right] at hl'
          refine ⟨hl', ?_⟩
          rw [← hf]
          simpa using hleaf

theorem depth_le_depthList {α : Type} {t : Tree α} {ts : List (Tree α)} (h : t ∈ ts) :
    t.depth ≤ Tree.depthList ts := by
  induction ts with
  | nil => cases h
  | cons x xs ih =>
    rw [Tree.depthList]
    rcases List.mem_cons.mp h with rfl | h
    · exact Nat.le_max_left _ _
    · exact Nat.le_trans (ih h) (Nat.le_max_right _ _)

/-- unbounded well-typedness implies bounded well-typedness for every bound that leaves one level
    of slack below the term -/
theorem wt_unb_of_wtI (P : Params) (vis : Sym × Nat → Option (Sym × Nat)) :
    ∀ (n : Nat) (t : Prog), t.size ≤ n → ∀ d D parent ty, d + t.depth < D →
      wtI P vis t parent ty = true → wt (unb P D) vis t d parent ty = true := by
  intro n
  induction n with
  | zero =>
    intro t ht
    cases t with | node f kids => simp [Tree.size] at ht
  | succ n ih =>
    intro t ht d D parent ty hD h
    cases t with
    | node f kids =>
      rw [wtI_unfold] at h
      rw [wt_unfold]
      have hforb : forbAt (unb P D) parent = forbAt P parent := rfl
      have hmax : (unb P D).maxDepth = D := rfl
      rw [Tree.depth] at hD
      simp only [Bool.or_eq_true, Bool.and_eq_true] at h
      simp only [Bool.and_eq_true, Bool.or_eq_true, decide_eq_true_eq, hforb, leafSyms_unb, hmax]
      refine ⟨by omega, ?_⟩
      rcases h with hleaf | hheads
      · exact Or.inl hleaf
      · right
        refine ⟨by omega, ?_⟩
        unfold wtIHeads at hheads
        rw [List.any_eq_true] at hheads
        obtain ⟨hd, hhd, hx⟩ := hheads
        simp only [Bool.and_eq_true, beq_iff_eq] at hx
        obtain ⟨hf, hl⟩ := hx
        have hkids : ∀ k ∈ kids, ∀ parent ty, wtI P vis k parent ty = true →
            wt (unb P D) vis k (d + 1) parent ty = true := by
          intro k hk parent' ty' hw
          have h1 := Tree.size_lt_of_mem_kids (l := f) hk
          have h2 := depth_le_depthList hk
          exact ih k (by omega) (d + 1) D parent' ty' (by omega) hw
        have hl' := wtList_of_wtIList P (unb P D) vis (d + 1) f kids hkids hd.2 0 hl
        unfold wtHeads
        rw [List.any_eq_true]
        exact ⟨hd, appHeads_unb_of_inf P D _ d ty hd hhd, by simp [hf, hl']⟩

/-- **the unbounded specification is the union of the bounded ones** -/
theorem wtI_iff_exists_depth (P : Params) (vis : Sym × Nat → Option (Sym × Nat)) (t : Prog)
    (parent : Option (Sym × Nat)) (ty : Ty) :
    wtI P vis t parent ty = true ↔ ∃ D, wt (unb P D) vis t 0 parent ty = true := by
  constructor
  · intro h
    exact ⟨t.depth + 1, wt_unb_of_wtI P vis t.size t (Nat.le_refl _) 0 _ parent ty (by omega) h⟩
  · rintro ⟨D, h⟩
    exact wtI_of_wt_unb P D vis t.size t (Nat.le_refl _) 0 parent ty h

end PS.G
