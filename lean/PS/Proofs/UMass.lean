/- Probabilistic unambiguous grammars (C04): the weights of the derivations enumerated by
   `dersU` sum to 1 under row normalisation and boundedness (`massU_eq_one`), the whole
   specification is a distribution (`spec_total_one`), and on an unambiguous grammar `probU`
   is a probability mass function over the programs of `langU` (`probU_sum_one`). -/
import PS.Model.Prob
import PS.Proofs.Lang
namespace PS.U.Mass
open PS PS.G PS.U
variable {U : Type} [DecidableEq U]

/-! ### sums and products of rationals over lists -/

theorem prod_append (a b : List Rat) : (a ++ b).prod = a.prod * b.prod := by
  induction a with
  | nil => simp [Rat.one_mul]
  | cons x xs ih => simp only [List.cons_append, List.prod_cons, ih, Rat.mul_assoc]

theorem sum_map_flatMap {α β : Type} (g : α → List β) (h : β → Rat) (l : List α) :
    ((l.flatMap g).map h).sum = (l.map (fun x => ((g x).map h).sum)).sum := by
  induction l with
  | nil => simp
  | cons x xs ih =>
    simp only [List.flatMap_cons, List.map_append, List.sum_append, List.map_cons, List.sum_cons, ih]

theorem sum_map_mul_left {α : Type} (c : Rat) (g : α → Rat) (l : List α) :
    (l.map (fun x => c * g x)).sum = c * (l.map g).sum := by
  induction l with
  | nil => simp [Rat.mul_zero]
  | cons x xs ih => simp only [List.map_cons, List.sum_cons, ih, Rat.mul_add]

theorem sum_map_mul_right {α : Type} (c : Rat) (g : α → Rat) (l : List α) :
    (l.map (fun x => g x * c)).sum = (l.map g).sum * c := by
  induction l with
  | nil => simp [Rat.zero_mul]
  | cons x xs ih => simp only [List.map_cons, List.sum_cons, ih, Rat.add_mul]

/-- U1: Σ over a product = Π of Σ's -/
theorem sum_product {α β : Type} (F : α → β → Rat) (L : α → List β) (as : List α) :
    ((product (as.map L)).map (fun xs => ((as.zip xs).map (fun p => F p.1 p.2)).prod)).sum
      = (as.map (fun a => ((L a).map (F a)).sum)).prod := by
  induction as with
  | nil => simp [product, Rat.add_zero]
  | cons a as ih =>
    simp only [List.map_cons, product, List.prod_cons]
    rw [sum_map_flatMap]
    simp only [List.map_map, Function.comp_def, List.zip_cons_cons, List.map_cons, List.prod_cons]
    rw [← ih]
    simp only [sum_map_mul_left]
    rw [sum_map_mul_right]

/-! ### the mass of the derivations -/

/-- rows are normalised: at every non-terminal the weights of all alternatives of all symbols sum
    to 1; dict keys (symbols of a row) are distinct -/
def NormalisedU (G : UCFG U) (tg : UTags U) : Prop :=
  ∀ e ∈ G.rules,
    (e.2.map (fun r => (r.2.map (fun args => weightU tg (e.1, r.1, args))).sum)).sum = 1 ∧
    (AList.keys e.2).Nodup

/-- total weight of the derivations of at most `k` levels -/
def massU (G : UCFG U) (tg : UTags U) (k : Nat) (nt : UNT U) : Rat :=
  ((dersU G k nt).map (fun x => derWeightU tg x.2)).sum

theorem derWeightU_cons (tg : UTags U) (x : UNT U × Sym × List (UNT U)) (d : Der U) :
    derWeightU tg (x :: d) = weightU tg x * derWeightU tg d := by
  simp [derWeightU]

theorem derWeightU_append (tg : UTags U) (d e : Der U) :
    derWeightU tg (d ++ e) = derWeightU tg d * derWeightU tg e := by
  simp [derWeightU, prod_append]

theorem derWeightU_flatten (tg : UTags U) (l : List (Der U)) :
    derWeightU tg l.flatten = (l.map (derWeightU tg)).prod := by
  induction l with
  | nil => simp [derWeightU]
  | cons d ds ih => simp only [List.flatten_cons, derWeightU_append, ih, List.map_cons, List.prod_cons]

theorem zip_map_snd {α β γ : Type} (g : β → γ) (as : List α) (xs : List β)
    (h : xs.length = as.length) : (as.zip xs).map (fun p => g p.2) = xs.map g := by
  induction as generalizing xs with
  | nil => cases xs with
    | nil => rfl
    | cons x xs => simp at h
  | cons a as ih => cases xs with
    | nil => simp at h
    | cons x xs =>
      simp only [List.zip_cons_cons, List.map_cons, ih xs (by simpa using h)]

/-- one alternative: Σ over the product of the argument derivations -/
theorem mass_alt (G : UCFG U) (tg : UTags U) (k : Nat) (nt : UNT U) (f : Sym) (args : List (UNT U)) :
    (((product (args.map (fun a => dersU G k a))).map (fun ks =>
        ((Tree.node f (ks.map (·.1)), (nt, f, args) :: (ks.map (·.2)).flatten) : Prog × Der U))).map
          (fun x => derWeightU tg x.2)).sum
      = weightU tg (nt, f, args) * (args.map (fun a => massU G tg k a)).prod := by
  simp only [List.map_map, Function.comp_def, derWeightU_cons, derWeightU_flatten]
  rw [sum_map_mul_left]
  congr 1
  have h := sum_product (fun (_ : UNT U) (x : Prog × Der U) => derWeightU tg x.2)
    (fun a => dersU G k a) args
  simp only [massU]
  rw [← h]
  congr 1
  apply List.map_congr_left
  intro ks hks
  have hlen : ks.length = args.length := by
    have := ((mem_product _ _).mp hks).1
    simpa using this
  rw [zip_map_snd (fun x : Prog × Der U => derWeightU tg x.2) args ks hlen]

/-- U2: one level -/
theorem massU_succ (G : UCFG U) (tg : UTags U) (k : Nat) (nt : UNT U)
    (rs : AList Sym (List (List (UNT U)))) (hl : AList.lookup nt G.rules = some rs) :
    massU G tg (k + 1) nt
      = (rs.map (fun r => (r.2.map (fun args =>
          weightU tg (nt, r.1, args) * (args.map (fun a => massU G tg k a)).prod)).sum)).sum := by
  rw [massU, dersU, hl]
  simp only
  rw [sum_map_flatMap]
  congr 1
  apply List.map_congr_left
  intro r _
  rw [sum_map_flatMap]
  congr 1
  apply List.map_congr_left
  intro args _
  exact mass_alt G tg k nt r.1 args

theorem prod_map_one {α : Type} (g : α → Rat) (l : List α) (h : ∀ a ∈ l, g a = 1) :
    (l.map g).prod = 1 := by
  induction l with
  | nil => simp
  | cons x xs ih =>
    simp only [List.map_cons, List.prod_cons]
    rw [h x (by simp), ih (fun a ha => h a (by simp [ha])), Rat.mul_one]

/-- U3: derivation weights sum to 1 -/
theorem massU_eq_one (G : UCFG U) (tg : UTags U) (hn : NormalisedU G tg) (k : Nat) (nt : UNT U)
    (hb : boundedU G k nt = true) : massU G tg k nt = 1 := by
  induction k generalizing nt with
  | zero => simp [boundedU] at hb
  | succ k ih =>
    rw [boundedU] at hb
    cases hl : AList.lookup nt G.rules with
    | none => rw [hl] at hb; simp at hb
    | some rs =>
      rw [hl] at hb
      simp only [List.all_eq_true] at hb
      rw [massU_succ G tg k nt rs hl]
      have h1 := (hn (nt, rs) (AList.lookup_some_mem hl)).1
      rw [← h1]
      congr 1
      apply List.map_congr_left
      intro r hr
      congr 1
      apply List.map_congr_left
      intro args hargs
      rw [prod_map_one _ _ (fun a ha => ih a (hb r hr args hargs a ha)), Rat.mul_one]

/-- U6: the specification is a distribution over derivations, with several start symbols too -/
theorem spec_total_one (G : UCFG U) (tg : UTags U) (hn : NormalisedU G tg) (k : Nat)
    (hb : ∀ s ∈ G.starts, boundedU G k s = true)
    (hs : (G.starts.map (startWeight tg)).sum = 1) :
    (G.starts.map (fun s => startWeight tg s * massU G tg k s)).sum = 1 := by
  rw [← hs]
  congr 1
  apply List.map_congr_left
  intro s hs'
  rw [massU_eq_one G tg hn k s (hb s hs'), Rat.mul_one]

/-! ### the enumerated derivations against `langU` and `derivs` -/

theorem product_map_map {α β : Type} (f : α → β) (ls : List (List α)) :
    (product ls).map (fun ks => ks.map f) = product (ls.map (fun l => l.map f)) := by
  induction ls with
  | nil => simp [product]
  | cons l ls ih =>
    simp only [product, List.map_cons, List.map_flatMap, List.flatMap_map, List.map_map,
      Function.comp_def, ← ih]

/-- U4: the terms of the enumerated derivations are `langU` -/
theorem dersU_fst (G : UCFG U) (k : Nat) (nt : UNT U) : (dersU G k nt).map (·.1) = langU G k nt := by
  induction k generalizing nt with
  | zero => simp [dersU, langU]
  | succ k ih =>
    rw [dersU, langU]
    cases AList.lookup nt G.rules with
    | none => simp
    | some rs =>
      simp only [List.map_flatMap, List.map_map, Function.comp_def]
      congr 1
      funext r
      congr 1
      funext args
      have h := product_map_map (fun x : Prog × Der U => x.1) (args.map (fun a => dersU G k a))
      simp only [List.map_map, Function.comp_def, ih] at h
      rw [← h, List.map_map]
      rfl

/-- children: the concatenated derivations of the arguments derive the list of children -/
theorem dersU_sound_list (G : UCFG U) (k : Nat)
    (ih : ∀ (nt : UNT U) (x : Prog × Der U), x ∈ dersU G k nt → x.2 ∈ derivs G x.1 nt)
    (args : List (UNT U)) (ks : List (Prog × Der U))
    (hks : ks ∈ product (args.map (fun a => dersU G k a))) :
    (ks.map (·.2)).flatten ∈ derivsList G (ks.map (·.1)) args := by
  induction args generalizing ks with
  | nil =>
    simp only [List.map_nil, product, List.mem_singleton] at hks
    subst hks
    simp [derivsList]
  | cons a as iha =>
    rw [List.map_cons, mem_product_cons] at hks
    obtain ⟨x, r, rfl, hx, hr⟩ := hks
    simp only [List.map_cons, List.flatten_cons, derivsList, List.mem_flatMap, List.mem_map]
    exact ⟨x.2, ih a x hx, _, iha r hr, rfl⟩

/-- U5: soundness of the enumeration: an enumerated derivation is a derivation of its term -/
theorem dersU_sound (G : UCFG U) (hr : ∀ nt rs, AList.lookup nt G.rules = some rs → (AList.keys rs).Nodup)
    (k : Nat) (nt : UNT U) (x : Prog × Der U) (hx : x ∈ dersU G k nt) : x.2 ∈ derivs G x.1 nt := by
  induction k generalizing nt x with
  | zero => simp [dersU] at hx
  | succ k ih =>
    rw [dersU] at hx
    cases hl : AList.lookup nt G.rules with
    | none => rw [hl] at hx; simp at hx
    | some rs =>
      rw [hl] at hx
      simp only [List.mem_flatMap, List.mem_map] at hx
      obtain ⟨r, hrm, args, hargs, ks, hks, rfl⟩ := hx
      obtain ⟨f, alts⟩ := r
      have hlk : AList.lookup f rs = some alts := AList.lookup_of_mem_nodup (hr nt rs hl) hrm
      simp only
      rw [derivs]
      simp only [UCFG.alts?, hl, hlk, List.mem_flatMap, List.mem_map]
      exact ⟨args, hargs, _, dersU_sound_list G k ih args ks hks, rfl⟩

/-! ### a distribution over the programs -/

theorem eq_singleton_of_mem_of_length_le_one {α : Type} {l : List α} {a : α} (hm : a ∈ l)
    (hlen : l.length ≤ 1) : l = [a] := by
  cases l with
  | nil => cases hm
  | cons b bs =>
    cases bs with
    | nil =>
      rcases List.mem_cons.mp hm with h | h
      · rw [h]
      · cases h
    | cons c cs => simp at hlen

/-- with one start symbol of weight 1 and an unambiguous grammar, `probU` of the term of an
    enumerated derivation is the weight of that derivation -/
theorem probU_of_mem_dersU (G : UCFG U) (tg : UTags U) (hn : NormalisedU G tg) (s : UNT U)
    (hst : G.starts = [s]) (hw : startWeight tg s = 1) (k : Nat)
    (hu : ∀ t, unambiguousOn G t = true) (x : Prog × Der U) (hx : x ∈ dersU G k s) :
    probU G tg x.1 = derWeightU tg x.2 := by
  have hnd : ∀ nt rs, AList.lookup nt G.rules = some rs → (AList.keys rs).Nodup :=
    fun nt rs h => (hn (nt, rs) (AList.lookup_some_mem h)).2
  have hmem : x.2 ∈ derivs G x.1 s := dersU_sound G hnd k s x hx
  have hall : allDerivs G x.1 = (derivs G x.1 s).map (fun d => (s, d)) := by
    simp [allDerivs, hst]
  have hlen : (derivs G x.1 s).length ≤ 1 := by
    have h := of_decide_eq_true (hu x.1)
    rw [hall, List.length_map] at h
    exact h
  have hone : derivs G x.1 s = [x.2] := eq_singleton_of_mem_of_length_le_one hmem hlen
  rw [probU, hall, hone]
  simp only [List.map_cons, List.map_nil]
  rw [hw, Rat.one_mul]

/-- U7: single start symbol, unambiguous grammar: `probU` sums to 1 over the programs -/
theorem probU_sum_one (G : UCFG U) (tg : UTags U) (hn : NormalisedU G tg) (s : UNT U)
    (hst : G.starts = [s]) (hw : startWeight tg s = 1) (k : Nat) (hb : boundedU G k s = true)
    (hu : ∀ t, unambiguousOn G t = true) :
    ((langU G k s).map (fun t => probU G tg t)).sum = 1 := by
  rw [← dersU_fst, List.map_map, ← massU_eq_one G tg hn k s hb, massU]
  congr 1
  apply List.map_congr_left
  intro x hx
  exact probU_of_mem_dersU G tg hn s hst hw k hu x hx
end PS.U.Mass
