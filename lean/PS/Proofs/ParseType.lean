/-
  C15 — helper lemmas for the type parser: the stack / infix-stack / or_flag machine run on
  the token stream of an expression of the notation builds the denoted object.
-/
import PS.Model.Parse
namespace PS.C15
open PS TyExpr

variable {sx : Bool}

/-! ## unfolding the token-level machine -/

theorem loopT_nil (st : St) : loopT sx [] st = .ok st := by simp [loopT]

theorem loopT_cons_ok {t : Tok} {ts : List Tok} {st st' : St} (h : stepT sx t st = .ok st') :
    loopT sx (t :: ts) st = loopT sx ts st' := by
  simp [loopT, h]

theorem loopT_cons_err {t : Tok} {ts : List Tok} {st : St} {e : Err} (h : stepT sx t st = .error e) :
    loopT sx (t :: ts) st = .error e := by
  simp [loopT, h]

theorem loopT_append_ok {a b : List Tok} {st st' : St} (h : loopT sx a st = .ok st') :
    loopT sx (a ++ b) st = loopT sx b st' := by
  induction a generalizing st with
  | nil => simp [loopT_nil] at h; subst h; rfl
  | cons t ts ih =>
    cases hs : stepT sx t st with
    | error e => rw [loopT_cons_err hs] at h; cases h
    | ok st1 =>
      rw [loopT_cons_ok hs] at h
      rw [List.cons_append, loopT_cons_ok hs]
      exact ih h

theorem autoTypeToks_ok {ts : List Tok} {st : St} (h : loopT sx ts {} = .ok st) :
    autoTypeToks sx ts = finish sx st := by
  simp [autoTypeToks, h]

def push (t : TyO) (st : St) : St := { st with stack := t :: st.stack }

/-- the machine is at the start of an operand: no pending `|`, as many operators read as
    operands stacked -/
def Pre (st : St) : Prop := st.orFlag = -1 ∧ st.lastInfix = st.stack.length

theorem stepT_name (w : Str) (st : St) : stepT sx (.node (.name w) []) st = step sx .none w (.error .fuel) st := by
  simp [stepT, kindOf]
theorem stepT_pvar (w : Str) (st : St) : stepT sx (.node (.pvar w) []) st = step sx .poly w (.error .fuel) st := by
  simp [stepT, kindOf]
theorem stepT_op (w : Str) (st : St) : stepT sx (.node (.op w) []) st = step sx .infx w (.error .fuel) st := by
  simp [stepT, kindOf]
theorem stepT_bar (st : St) : stepT sx (.node .bar []) st = step sx .or [] (.error .fuel) st := by
  simp [stepT, kindOf]
theorem stepT_paren (ks : List Tok) (st : St) : stepT sx (.node .paren ks) st = step sx .paren [] (autoTypeToks sx ks) st := by
  simp [stepT, kindOf]
theorem stepT_brack (ks : List Tok) (st : St) : stepT sx (.node .brack ks) st = step sx .brack [] (autoTypeToks sx ks) st := by
  simp [stepT, kindOf]

/-! ## single steps -/

/-- a word at the start of an operand is a base type -/
theorem step_name_start {w : Str} {st : St} (hw : w ≠ []) (h : Pre st) :
    step sx .none w (.error .fuel) st = .ok (push (TyO.prim w) st) := by
  obtain ⟨h1, h2⟩ := h
  have hl : w.length > 0 := List.length_pos_iff.mpr hw
  simp [step, hl, h1, h2, push, bind, Except.bind, pure, Except.pure]

/-- a word after a complete operand is a postfix generic -/
theorem step_name_post {w : Str} {st : St} {x : TyO} {S : List TyO} (hw : w ≠ [])
    (h1 : st.orFlag = -1) (h2 : st.stack = x :: S) (h3 : st.lastInfix = S.length) :
    step sx .none w (.error .fuel) st =
      .ok { st with stack := (if w = OPTIONAL then tyOptional x else .node (.generic w false) [x]) :: S } := by
  have hl : w.length > 0 := List.length_pos_iff.mpr hw
  by_cases ho : w = OPTIONAL
  · subst ho
    have : 0 < List.length OPTIONAL := by decide
    simp [step, this, h1, h2, h3, bind, Except.bind, pure, Except.pure]
  · simp [step, hl, h1, h2, h3, ho, bind, Except.bind, pure, Except.pure]

theorem step_pvar {w : Str} {st : St} (h1 : st.orFlag = -1) :
    step sx .poly w (.error .fuel) st = .ok (push (TyO.poly w) st) := by
  simp [step, h1, push, bind, Except.bind, pure, Except.pure]

theorem step_paren {t : TyO} {st : St} (h1 : st.orFlag = -1) :
    step sx .paren [] (.ok t) st = .ok (push t st) := by
  simp [step, h1, push, bind, Except.bind, pure, Except.pure]

theorem step_brack {n : Str} {r : TyO} {st : St} {S : List TyO} (h1 : st.orFlag = -1)
    (h2 : st.stack = TyO.poly n :: S) :
    step sx .brack [] (.ok r) st = .ok { st with stack := .node (.fpoly n) [r] :: S } := by
  simp [step, h1, h2, TyO.poly, bind, Except.bind, pure, Except.pure]

theorem step_op {w : Str} {st : St} (h1 : st.orFlag = -1) (h2 : st.stack.length = st.lastInfix + 1) :
    step sx .infx w (.error .fuel) st =
      .ok { st with lastInfix := st.lastInfix + 1, infixStack := w :: st.infixStack } := by
  simp [step, h1, h2, bind, Except.bind, pure, Except.pure]

theorem step_bar {st : St} :
    step sx .or [] (.error .fuel) st = .ok { st with orFlag := 1 } := by
  simp [step, bind, Except.bind, pure, Except.pure]

/-- the operand right after `|` is combined with the one before it as soon as it is read -/
theorem step_after_bar_name {w : Str} {st : St} {x : TyO} {S : List TyO} (hw : w ≠ [])
    (h1 : st.orFlag = 1) (h2 : st.stack = x :: S) :
    step sx .none w (.error .fuel) st = .ok { st with orFlag := -1, stack := tyOr x (TyO.prim w) :: S } := by
  have hl : w.length > 0 := List.length_pos_iff.mpr hw
  simp [step, hl, h1, h2, bind, Except.bind, pure, Except.pure]

theorem step_after_bar_pvar {w : Str} {st : St} {x : TyO} {S : List TyO}
    (h1 : st.orFlag = 1) (h2 : st.stack = x :: S) :
    step sx .poly w (.error .fuel) st = .ok { st with orFlag := -1, stack := tyOr x (TyO.poly w) :: S } := by
  simp [step, h1, h2, bind, Except.bind, pure, Except.pure]

theorem step_after_bar_paren {t : TyO} {st : St} {x : TyO} {S : List TyO}
    (h1 : st.orFlag = 1) (h2 : st.stack = x :: S) :
    step sx .paren [] (.ok t) st = .ok { st with orFlag := -1, stack := tyOr x t :: S } := by
  simp [step, h1, h2, bind, Except.bind, pure, Except.pure]

/-! ## the induction over the notation -/

/-- a postfix-level operand pushes its object -/
def PropP (sx : Bool) (e : TyExpr) : Prop := ∀ st, Pre st → loopT sx (toksAt 1 e) st = .ok (push e.denote st)
/-- an infix chain leaves a stack that the final fold turns into its object -/
def PropI (sx : Bool) (e : TyExpr) : Prop :=
  ∀ st, Pre st → ∃ st', loopT sx (toksAt 0 e) st = .ok st' ∧ finish sx st' = finish sx (push e.denote st)
/-- an operand right after `|` is merged into the union -/
def PropB (sx : Bool) (e : TyExpr) : Prop :=
  ∀ (st : St) (x : TyO) (S : List TyO), st.orFlag = 1 → st.stack = x :: S →
    loopT sx (toksAt 3 e) st = .ok { st with orFlag := -1, stack := tyOr x e.denote :: S }
def PropTop (sx : Bool) (e : TyExpr) : Prop := autoTypeToks sx (toksAt 0 e) = .ok e.denote

theorem top_of_I {e : TyExpr} (h : PropI sx e) : PropTop sx e := by
  obtain ⟨st', h1, h2⟩ := h {} ⟨rfl, rfl⟩
  unfold PropTop
  rw [autoTypeToks_ok h1, h2]
  simp [finish, push, finishLoop]

theorem I_of_P {e : TyExpr} (heq : toksAt 0 e = toksAt 1 e) (h : PropP sx e) : PropI sx e := by
  intro st hst
  exact ⟨push e.denote st, by rw [heq]; exact h st hst, rfl⟩

theorem P_of_top {e : TyExpr} (heq : toksAt 1 e = [.node .paren (toksAt 0 e)]) (h : PropTop sx e) : PropP sx e := by
  intro st hst
  rw [heq]
  have : stepT sx (.node .paren (toksAt 0 e)) st = .ok (push e.denote st) := by
    rw [stepT_paren, h]; exact step_paren hst.1
  rw [loopT_cons_ok this, loopT_nil]

theorem B_of_top {e : TyExpr} (heq : toksAt 3 e = [.node .paren (toksAt 0 e)]) (h : PropTop sx e) : PropB sx e := by
  intro st x S h1 h2
  rw [heq]
  have : stepT sx (.node .paren (toksAt 0 e)) st = .ok { st with orFlag := -1, stack := tyOr x e.denote :: S } := by
    rw [stepT_paren, h]; exact step_after_bar_paren h1 h2
  rw [loopT_cons_ok this, loopT_nil]

theorem goodName_ne_nil {n : Str} (h : goodName n = true) : n ≠ [] := by
  intro h2; subst h2; simp [goodName] at h

theorem pre_push {t : TyO} {st : St} (h : Pre st) :
    (push t st).orFlag = -1 ∧ (push t st).stack = t :: st.stack ∧ (push t st).lastInfix = st.stack.length :=
  ⟨h.1, rfl, h.2⟩

theorem parse_all (e : TyExpr) (hwf : e.wf = true) : PropP sx e ∧ PropI sx e ∧ PropB sx e := by
  induction e with
  | prim n =>
    have hn := goodName_ne_nil (by simpa [wf] using hwf)
    have hP : PropP sx (.prim n) := by
      intro st hst
      have : stepT sx (.node (.name n) []) st = .ok (push (TyO.prim n) st) := by
        rw [stepT_name]; exact step_name_start hn hst
      simp only [toksAt]
      rw [loopT_cons_ok this, loopT_nil]; rfl
    refine ⟨hP, I_of_P (by simp [toksAt]) hP, ?_⟩
    intro st x S h1 h2
    have : stepT sx (.node (.name n) []) st = .ok { st with orFlag := -1, stack := tyOr x (TyO.prim n) :: S } := by
      rw [stepT_name]; exact step_after_bar_name hn h1 h2
    simp only [toksAt]
    rw [loopT_cons_ok this, loopT_nil]; rfl
  | var n =>
    have hP : PropP sx (.var n) := by
      intro st hst
      have : stepT sx (.node (.pvar n) []) st = .ok (push (TyO.poly n) st) := by
        rw [stepT_pvar]; exact step_pvar hst.1
      simp only [toksAt]
      rw [loopT_cons_ok this, loopT_nil]; rfl
    refine ⟨hP, I_of_P (by simp [toksAt]) hP, ?_⟩
    intro st x S h1 h2
    have : stepT sx (.node (.pvar n) []) st = .ok { st with orFlag := -1, stack := tyOr x (TyO.poly n) :: S } := by
      rw [stepT_pvar]; exact step_after_bar_pvar h1 h2
    simp only [toksAt]
    rw [loopT_cons_ok this, loopT_nil]; rfl
  | fvar n r ih =>
    have hr : r.wf = true := by simp [wf] at hwf; exact hwf.2
    have hTopR := top_of_I (ih hr).2.1
    have hP : PropP sx (.fvar n r) := by
      intro st hst
      have s1 : stepT sx (.node (.pvar n) []) st = .ok (push (TyO.poly n) st) := by
        rw [stepT_pvar]; exact step_pvar hst.1
      have s2 : stepT sx (.node .brack (toksAt 0 r)) (push (TyO.poly n) st)
          = .ok { (push (TyO.poly n) st) with stack := .node (.fpoly n) [r.denote] :: st.stack } := by
        rw [stepT_brack, hTopR]; exact step_brack hst.1 rfl
      simp only [toksAt, wrap, Nat.reduceLeDiff, decide_true, if_true]
      rw [loopT_cons_ok s1, loopT_cons_ok s2, loopT_nil]; rfl
    have hI := I_of_P (e := .fvar n r) (by simp [toksAt, wrap]) hP
    exact ⟨hP, hI, B_of_top (by simp [toksAt, wrap]) (top_of_I hI)⟩
  | infx op a b iha ihb =>
    have hw : goodOp op = true ∧ a.wf = true ∧ b.wf = true := by
      simp [wf] at hwf; exact ⟨hwf.1.1, hwf.1.2, hwf.2⟩
    have hPa := (iha hw.2.1).1
    have hIb := (ihb hw.2.2).2.1
    have hI : PropI sx (.infx op a b) := by
      intro st hst
      have l1 := hPa st hst
      obtain ⟨q1, q2, q3⟩ := pre_push (t := a.denote) hst
      let st2 : St := { stack := a.denote :: st.stack, lastInfix := st.lastInfix + 1,
                        infixStack := op :: st.infixStack, orFlag := st.orFlag }
      have s2 : stepT sx (.node (.op op) []) (push a.denote st) = .ok st2 := by
        rw [stepT_op, step_op q1 (by rw [q2, q3]; rfl)]; rfl
      have hpre2 : Pre st2 := ⟨hst.1, by simp [st2, hst.2]⟩
      obtain ⟨st', h1, h2⟩ := hIb st2 hpre2
      refine ⟨st', ?_, ?_⟩
      · simp only [toksAt, wrap, Nat.le_refl, decide_true, if_true, List.append_assoc]
        rw [loopT_append_ok l1, List.cons_append, List.nil_append, loopT_cons_ok s2]
        exact h1
      · rw [h2]
        simp [finish, push, finishLoop, denote, st2]
    have hTop := top_of_I hI
    exact ⟨P_of_top (by simp [toksAt, wrap]) hTop, hI, B_of_top (by simp [toksAt, wrap]) hTop⟩
  | generic n a iha =>
    have hw : goodName n = true ∧ n ≠ OPTIONAL ∧ a.wf = true := by
      simp [wf] at hwf; exact ⟨hwf.1.1, hwf.1.2, hwf.2⟩
    have hn := goodName_ne_nil hw.1
    have hPa := (iha hw.2.2).1
    have hP : PropP sx (.generic n a) := by
      intro st hst
      have l1 := hPa st hst
      obtain ⟨q1, q2, q3⟩ := pre_push (t := a.denote) hst
      have s2 := step_name_post (sx := sx) (w := n) hn q1 q2 (by rw [q3])
      rw [← stepT_name] at s2
      simp only [toksAt, wrap, Nat.le_refl, decide_true, if_true]
      rw [loopT_append_ok l1, loopT_cons_ok s2, loopT_nil]
      simp [hw.2.1, push, denote]
    have hI := I_of_P (e := .generic n a) (by simp [toksAt, wrap]) hP
    exact ⟨hP, hI, B_of_top (by simp [toksAt, wrap]) (top_of_I hI)⟩
  | optional a iha =>
    have hw : a.wf = true := by simpa [wf] using hwf
    have hPa := (iha hw).1
    have hP : PropP sx (.optional a) := by
      intro st hst
      have l1 := hPa st hst
      obtain ⟨q1, q2, q3⟩ := pre_push (t := a.denote) hst
      have s2 := step_name_post (sx := sx) (w := OPTIONAL) (by decide) q1 q2 (by rw [q3])
      rw [← stepT_name] at s2
      simp only [toksAt, wrap, Nat.le_refl, decide_true, if_true]
      rw [loopT_append_ok l1, loopT_cons_ok s2, loopT_nil]
      simp [push, denote]
    have hI := I_of_P (e := .optional a) (by simp [toksAt, wrap]) hP
    exact ⟨hP, hI, B_of_top (by simp [toksAt, wrap]) (top_of_I hI)⟩
  | union a b iha ihb =>
    have hw : a.wf = true ∧ b.wf = true := by simpa [wf] using hwf
    have hPa := (iha hw.1).1
    have hBb := (ihb hw.2).2.2
    have hP : PropP sx (.union a b) := by
      intro st hst
      have l1 := hPa st hst
      obtain ⟨q1, q2, q3⟩ := pre_push (t := a.denote) hst
      have s2 : stepT sx (.node .bar []) (push a.denote st) = .ok { (push a.denote st) with orFlag := 1 } := by
        rw [stepT_bar]; exact step_bar
      have l3 := hBb { (push a.denote st) with orFlag := 1 } a.denote st.stack rfl rfl
      simp only [toksAt, wrap, Nat.le_refl, decide_true, if_true, List.append_assoc]
      rw [loopT_append_ok l1, List.cons_append, List.nil_append, loopT_cons_ok s2, l3]
      simp [push, denote, hst.1]
    have hI := I_of_P (e := .union a b) (by simp [toksAt, wrap]) hP
    exact ⟨hP, hI, B_of_top (by simp [toksAt, wrap]) (top_of_I hI)⟩

/-! ## the state after an infix chain, and the malformed streams of finding C15-F4 -/

/-- no `|` is pending and exactly one more operand than operators has been read -/
def Done (st : St) : Prop := st.orFlag = -1 ∧ st.stack.length = st.lastInfix + 1

theorem done_push {t : TyO} {st : St} (h : Pre st) : Done (push t st) :=
  ⟨h.1, by simp [push, h.2]⟩

theorem done_of_P {e : TyExpr} (heq : toksAt 0 e = toksAt 1 e) (hP : PropP sx e) :
    ∀ st, Pre st → ∀ st', loopT sx (toksAt 0 e) st = .ok st' → Done st' := by
  intro st hst st' h
  rw [heq, hP st hst] at h
  cases h
  exact done_push hst

theorem chain_done (e : TyExpr) (hwf : e.wf = true) :
    ∀ st, Pre st → ∀ st', loopT sx (toksAt 0 e) st = .ok st' → Done st' := by
  induction e with
  | prim n => exact done_of_P (by simp [toksAt]) (parse_all _ hwf).1
  | var n => exact done_of_P (by simp [toksAt]) (parse_all _ hwf).1
  | fvar n r _ => exact done_of_P (by simp [toksAt, wrap]) (parse_all _ hwf).1
  | generic n a _ => exact done_of_P (by simp [toksAt, wrap]) (parse_all _ hwf).1
  | optional a _ => exact done_of_P (by simp [toksAt, wrap]) (parse_all _ hwf).1
  | union a b _ _ => exact done_of_P (by simp [toksAt, wrap]) (parse_all _ hwf).1
  | infx op a b _ ihb =>
    intro st hst st' h
    have hw : a.wf = true ∧ b.wf = true := by
      simp [wf] at hwf; exact ⟨hwf.1.2, hwf.2⟩
    have l1 := (parse_all (sx := sx) a hw.1).1 st hst
    obtain ⟨q1, q2, q3⟩ := pre_push (t := a.denote) hst
    let st2 : St := { stack := a.denote :: st.stack, lastInfix := st.lastInfix + 1,
                      infixStack := op :: st.infixStack, orFlag := st.orFlag }
    have s2 : stepT sx (.node (.op op) []) (push a.denote st) = .ok st2 := by
      rw [stepT_op, step_op q1 (by rw [q2, q3]; rfl)]; rfl
    have hpre2 : Pre st2 := ⟨hst.1, by simp [st2, hst.2]⟩
    simp only [toksAt, wrap, Nat.le_refl, decide_true, if_true, List.append_assoc] at h
    rw [loopT_append_ok l1, List.cons_append, List.nil_append, loopT_cons_ok s2] at h
    exact ihb hw.2 st2 hpre2 st' h

/-- the state after the tokens of a whole expression -/
theorem toks_done (e : TyExpr) (hwf : e.wf = true) :
    ∃ st', loopT sx e.toks {} = .ok st' ∧ Done st' ∧ st'.stack ≠ [] := by
  obtain ⟨st', h1, _⟩ := (parse_all (sx := sx) e hwf).2.1 {} ⟨rfl, rfl⟩
  have hd := chain_done (sx := sx) e hwf {} ⟨rfl, rfl⟩ st' h1
  refine ⟨st', h1, hd, ?_⟩
  intro hnil
  have := hd.2
  rw [hnil] at this
  simp at this

/-- with the repair, a stream that ends with an infix operator after an expression is rejected -/
theorem reject_op_after (e : TyExpr) (hwf : e.wf = true) (w : Str) :
    autoTypeToks true (e.toks ++ [.node (.op w) []]) = .error .assertion := by
  obtain ⟨st', h1, hd, hne⟩ := toks_done (sx := true) e hwf
  have s2 : stepT true (.node (.op w) []) st' =
      .ok { st' with lastInfix := st'.lastInfix + 1, infixStack := w :: st'.infixStack } := by
    rw [stepT_op]; exact step_op hd.1 hd.2
  have hl : loopT true (e.toks ++ [.node (.op w) []]) {} =
      .ok { st' with lastInfix := st'.lastInfix + 1, infixStack := w :: st'.infixStack } := by
    rw [loopT_append_ok h1, loopT_cons_ok s2, loopT_nil]
  rw [autoTypeToks_ok hl]
  simp [finish, hd.2]

/-- with the repair, a stream that starts with an infix operator is rejected, whatever follows -/
theorem reject_op_before (w : Str) (ts : List Tok) :
    autoTypeToks true (.node (.op w) [] :: ts) = .error .assertion := by
  have s1 : stepT true (.node (.op w) []) {} = .error .assertion := by
    rw [stepT_op]; simp [step, bind, Except.bind]
  simp [autoTypeToks, loopT_cons_err s1]

/-- with the repair, two infix operators in a row are rejected, whatever follows -/
theorem reject_op_op (e : TyExpr) (hwf : e.wf = true) (w1 w2 : Str) (ts : List Tok) :
    autoTypeToks true (e.toks ++ .node (.op w1) [] :: .node (.op w2) [] :: ts) = .error .assertion := by
  obtain ⟨st', h1, hd, _⟩ := toks_done (sx := true) e hwf
  have s2 : stepT true (.node (.op w1) []) st' =
      .ok { st' with lastInfix := st'.lastInfix + 1, infixStack := w1 :: st'.infixStack } := by
    rw [stepT_op]; exact step_op hd.1 hd.2
  have s3 : stepT true (.node (.op w2) [])
      { st' with lastInfix := st'.lastInfix + 1, infixStack := w1 :: st'.infixStack } =
      .error .assertion := by
    rw [stepT_op]; simp [step, bind, Except.bind, hd.2]
  simp [autoTypeToks, loopT_append_ok h1, loopT_cons_ok s2, loopT_cons_err s3]

/-- with the repair, a stream that ends with `|` after an expression is rejected -/
theorem reject_bar_after (e : TyExpr) (hwf : e.wf = true) :
    autoTypeToks true (e.toks ++ [.node .bar []]) = .error .assertion := by
  obtain ⟨st', h1, hd, hne⟩ := toks_done (sx := true) e hwf
  have s2 : stepT true (.node .bar []) st' = .ok { st' with orFlag := 1 } := by
    rw [stepT_bar]; exact step_bar
  have hl : loopT true (e.toks ++ [.node .bar []]) {} = .ok { st' with orFlag := 1 } := by
    rw [loopT_append_ok h1, loopT_cons_ok s2, loopT_nil]
  rw [autoTypeToks_ok hl]
  have hlen : st'.stack.length ≠ 0 := fun h => hne (List.length_eq_zero_iff.mp h)
  simp [finish, hlen]

end PS.C15
