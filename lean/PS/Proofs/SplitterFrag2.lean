/- C08, fragment grammar, part 2: pure facts about the renaming `renPath` of a node's path
   (erasure, correspondence with leftmost derivations, freshness of the copies). -/
import PS.Proofs.SplitterFrag1
namespace PS.Sp
open PS PS.G

variable {U : Type} [DecidableEq U]

/-- the copies of a list of pending pairs -/
def names (p : List (UNT U × UNT (U × Nat))) : List (UNT (U × Nat)) := p.map (·.2)
/-- the original non-terminals of a list of pending pairs -/
def srcs (p : List (UNT U × UNT (U × Nat))) : List (UNT U) := p.map (·.1)
/-- every copy is a copy of the non-terminal it is paired with -/
def PendOK (p : List (UNT U × UNT (U × Nat))) : Prop := ∀ e ∈ p, er e.2 = e.1
/-- the left-hand sides of a list of steps -/
def targets (l : List (Step (U × Nat))) : List (UNT (U × Nat)) := l.map (·.1)

theorem renPath_cons_inv {c : Nat} {p : List (UNT U × UNT (U × Nat))} {S : UNT U} {P : Sym} {v : List (UNT U)}
    {w : List (Step U)} {r} (h : renPath c p ((S, P, v) :: w) = some r) :
    ∃ Sp rest r0, p = (S, Sp) :: rest ∧
      renPath (c + v.length) (v.zip (freshList c v).2 ++ rest) w = some r0 ∧
      r = (r0.1, (Sp, P, (freshList c v).2) :: r0.2.1, r0.2.2) := by
  cases p with
  | nil => simp [renPath] at h
  | cons e rest =>
    obtain ⟨cur, Sp⟩ := e
    simp only [renPath] at h
    by_cases hc : cur = S
    · subst hc
      simp only [ne_eq, not_true_eq_false, if_false, freshList_fst] at h
      cases hr : renPath (c + v.length) (v.zip (freshList c v).2 ++ rest) w with
      | none => rw [hr] at h; cases h
      | some r0 =>
        rw [hr] at h
        simp only [Option.some.injEq] at h
        exact ⟨Sp, rest, r0, rfl, hr, h.symm⟩
    · simp [hc] at h

omit [DecidableEq U] in
theorem pendOK_zip (v : List (UNT U)) (c : Nat) {rest : List (UNT U × UNT (U × Nat))} (h : PendOK rest) :
    PendOK (v.zip (freshList c v).2 ++ rest) := by
  intro e he
  rcases List.mem_append.mp he with he | he
  · exact zip_fresh_ok v c e he
  · exact h e he

omit [DecidableEq U] in
theorem srcs_zip (v : List (UNT U)) (c : Nat) (rest : List (UNT U × UNT (U × Nat))) :
    srcs (v.zip (freshList c v).2 ++ rest) = v ++ srcs rest := by
  simp only [srcs, List.map_append, zip_fresh_fst]

omit [DecidableEq U] in
theorem names_zip (v : List (UNT U)) (c : Nat) (rest : List (UNT U × UNT (U × Nat))) :
    names (v.zip (freshList c v).2 ++ rest) = (freshList c v).2 ++ names rest := by
  simp only [names, List.map_append, zip_fresh_snd]

/-- the renamed steps erase to the steps of the node -/
theorem renPath_er : ∀ (steps : List (Step U)) (c : Nat) (p : List (UNT U × UNT (U × Nat))) r,
    PendOK p → renPath c p steps = some r → r.2.1.map erStep = steps ∧ PendOK r.2.2
  | [], c, p, r, hp, h => by
    simp only [renPath, Option.some.injEq] at h
    subst h
    exact ⟨rfl, hp⟩
  | (S, P, v) :: w, c, p, r, hp, h => by
    obtain ⟨Sp, rest, r0, rfl, h0, rfl⟩ := renPath_cons_inv h
    have hrest : PendOK rest := fun e he => hp e (List.mem_cons_of_mem _ he)
    obtain ⟨ih1, ih2⟩ := renPath_er w _ _ r0 (pendOK_zip v c hrest) h0
    refine ⟨?_, ih2⟩
    have hS : er Sp = S := hp (S, Sp) (by simp)
    simp only [List.map_cons, ih1, erStep, hS, freshList_er]

/-- the pending non-terminals at the end are the stack of the leftmost derivation -/
theorem renPath_srcs (G : UG U) : ∀ (steps : List (Step U)) (c : Nat) (p : List (UNT U × UNT (U × Nat))) r cfg,
    renPath c p steps = some r → run G (srcs p) steps = some cfg → srcs r.2.2 = cfg
  | [], c, p, r, cfg, h, hr => by
    simp only [renPath, Option.some.injEq] at h
    subst h
    simpa [run] using hr
  | (S, P, v) :: w, c, p, r, cfg, h, hr => by
    obtain ⟨Sp, rest, r0, rfl, h0, rfl⟩ := renPath_cons_inv h
    simp only [srcs, List.map_cons, run] at hr
    split at hr
    · refine renPath_srcs G w _ _ r0 cfg h0 ?_
      rw [srcs_zip]
      exact hr
    · cases hr

/-- `pathLoop` does not fail on a legal derivation prefix -/
theorem renPath_exists (G : UG U) : ∀ (steps : List (Step U)) (c : Nat) (p : List (UNT U × UNT (U × Nat))) cfg,
    run G (srcs p) steps = some cfg → ∃ r, renPath c p steps = some r
  | [], c, p, cfg, _ => ⟨_, rfl⟩
  | (S, P, v) :: w, c, [], cfg, hr => by simp [srcs, run] at hr
  | (S, P, v) :: w, c, (cur, Sp) :: rest, cfg, hr => by
    simp only [srcs, List.map_cons, run] at hr
    split at hr
    · rename_i hc
      have hcur : S = cur := hc.1
      subst hcur
      obtain ⟨r0, h0⟩ := renPath_exists G w (freshList c v).1 (v.zip (freshList c v).2 ++ rest) cfg
        (by rw [srcs_zip]; exact hr)
      refine ⟨(r0.1, (Sp, P, (freshList c v).2) :: r0.2.1, r0.2.2), ?_⟩
      simp only [renPath, ne_eq, not_true_eq_false, if_false, h0]
    · cases hr

/-- in a grammar that has the renamed steps as rules, they lead from the copies to the copies -/
theorem renPath_run (F : UG (U × Nat)) : ∀ (steps : List (Step U)) (c : Nat) (p : List (UNT U × UNT (U × Nat))) r,
    renPath c p steps = some r → (∀ s ∈ r.2.1, (s.2.1, s.2.2) ∈ alts F s.1) →
      run F (names p) r.2.1 = some (names r.2.2)
  | [], c, p, r, h, _ => by
    simp only [renPath, Option.some.injEq] at h
    subst h
    simp [run]
  | (S, P, v) :: w, c, p, r, h, hr => by
    obtain ⟨Sp, rest, r0, rfl, h0, rfl⟩ := renPath_cons_inv h
    have ih := renPath_run F w _ _ r0 h0 (fun s hs => hr s (List.mem_cons_of_mem _ hs))
    have h1 := hr (Sp, P, (freshList c v).2) (by simp)
    rw [names_zip] at ih
    simp only [names, List.map_cons, run, h1, and_self, if_true]
    exact ih

/-- in a grammar where every renamed step is the only rule of its left-hand side, a complete
    derivation from the copies has to start with the renamed steps -/
theorem renPath_forced (F : UG (U × Nat)) : ∀ (steps : List (Step U)) (c : Nat)
    (p : List (UNT U × UNT (U × Nat))) r (w' : List (Step (U × Nat))),
    renPath c p steps = some r → (∀ s ∈ r.2.1, ∀ pa ∈ alts F s.1, pa = (s.2.1, s.2.2)) →
      run F (names p) w' = some [] → ∃ rem, w' = r.2.1 ++ rem ∧ run F (names r.2.2) rem = some []
  | [], c, p, r, w', h, _, hw => by
    simp only [renPath, Option.some.injEq] at h
    subst h
    exact ⟨w', rfl, hw⟩
  | (S, P, v) :: w, c, p, r, w', h, hr, hw => by
    obtain ⟨Sp, rest, r0, rfl, h0, rfl⟩ := renPath_cons_inv h
    simp only [names, List.map_cons] at hw
    obtain ⟨Q, a, w'', rfl, hQa, hrun⟩ := run_cons_complete F _ _ _ hw
    have := hr (Sp, P, (freshList c v).2) (by simp) (Q, a) hQa
    simp only [Prod.mk.injEq] at this
    obtain ⟨rfl, rfl⟩ := this
    obtain ⟨rem, h1, h2⟩ := renPath_forced F w _ _ r0 w'' h0
      (fun s hs => hr s (List.mem_cons_of_mem _ hs)) (by rw [names_zip]; exact hrun)
    exact ⟨rem, by rw [h1]; rfl, h2⟩

/-- **freshness**: the left-hand sides of the renamed steps and the copies pending at the end are
    pairwise different; each of them is a copy that was pending at the beginning or has a number
    in `(c, c']`; the right-hand sides only contain numbers in `(c, c']` -/
theorem renPath_names : ∀ (steps : List (Step U)) (c : Nat) (p : List (UNT U × UNT (U × Nat))) r,
    renPath c p steps = some r → (∀ x ∈ names p, idx x ≤ c) → (names p).Nodup →
      c ≤ r.1 ∧ (targets r.2.1 ++ names r.2.2).Nodup ∧
      (∀ x ∈ targets r.2.1 ++ names r.2.2, x ∈ names p ∨ (c < idx x ∧ idx x ≤ r.1)) ∧
      (∀ s ∈ r.2.1, ∀ x ∈ s.2.2, c < idx x ∧ idx x ≤ r.1)
  | [], c, p, r, h, _, hn => by
    simp only [renPath, Option.some.injEq] at h
    subst h
    refine ⟨Nat.le_refl _, by simpa [targets] using hn, ?_, ?_⟩
    · intro x hx; left; simpa [targets] using hx
    · intro s hs; cases hs
  | (S, P, v) :: w, c, p, r, h, hb, hn => by
    obtain ⟨Sp, rest, r0, rfl, h0, rfl⟩ := renPath_cons_inv h
    simp only [names, List.map_cons, List.nodup_cons, List.mem_cons, forall_eq_or_imp] at hb hn
    have hfi := freshList_idx v c
    obtain ⟨i1, i2, i3, i4⟩ := renPath_names w (c + v.length) _ r0 h0
      (by
        rw [names_zip]; intro x hx
        rcases List.mem_append.mp hx with hx | hx
        · exact (hfi x hx).2
        · have := hb.2 x hx; omega)
      (by
        rw [names_zip]
        refine List.nodup_append.mpr ⟨freshList_nodup v c, hn.2, ?_⟩
        intro a ha b hb' hab
        subst hab
        have := hb.2 a hb'
        have := (hfi a ha).1
        omega)
    rw [names_zip] at i3
    refine ⟨by simp only; omega, ?_, ?_, ?_⟩
    · simp only [targets, List.map_cons, List.cons_append, List.nodup_cons]
      refine ⟨?_, i2⟩
      intro hmem
      rcases i3 Sp hmem with h1 | h1
      · rcases List.mem_append.mp h1 with h1 | h1
        · have := (hfi Sp h1).1; omega
        · exact hn.1 h1
      · omega
    · intro x hx
      simp only [targets, List.map_cons, List.cons_append, List.mem_cons] at hx
      rcases hx with hx | hx
      · left; simp only [names, List.map_cons, List.mem_cons]; left; exact hx
      · rcases i3 x hx with h1 | h1
        · rcases List.mem_append.mp h1 with h1 | h1
          · right; have := hfi x h1; simp only; omega
          · left; simp only [names, List.map_cons, List.mem_cons]; right; exact h1
        · right; simp only; omega
    · intro s hs x hx
      rcases List.mem_cons.mp hs with hs | hs
      · subst hs
        have := hfi x hx
        simp only; omega
      · have := i4 s hs x hx
        simp only; omega

end PS.Sp
