/-
  C05, parser, part 1: character-level lemmas (strip, split, find) and the words of the
  documented syntax: `interpretWord (render atom) = sem atom`.
-/
import PS.Model.ConstraintsParse
set_option linter.unusedSectionVars false
namespace PS.C05
open PS PS.G

/-! ### strip -/

theorem dropWhile_all {p : Char → Bool} (pre r : Str) (h : ∀ c ∈ pre, p c = true) :
    (pre ++ r).dropWhile p = r.dropWhile p := by
  induction pre with
  | nil => rfl
  | cons c cs ih =>
    simp only [List.cons_append, List.dropWhile_cons, h c List.mem_cons_self, if_true]
    exact ih (fun x hx => h x (List.mem_cons_of_mem _ hx))

theorem dropWhile_head {p : Char → Bool} (c : Char) (r : Str) (h : p c = false) :
    (c :: r).dropWhile p = c :: r := by
  simp [List.dropWhile_cons, h]

/-- `(pre ++ w ++ post).strip(p)` when `pre`, `post` consist of stripped characters and `w` begins
    and ends with characters that are not stripped -/
theorem stripChars_mid (p : Char → Bool) (pre w post : Str) (hpre : ∀ c ∈ pre, p c = true)
    (hpost : ∀ c ∈ post, p c = true) (hne : w ≠ []) (hh : ∀ c, w.head? = some c → p c = false)
    (hl : ∀ c, w.getLast? = some c → p c = false) :
    stripChars p (pre ++ w ++ post) = w := by
  unfold stripChars
  rw [List.append_assoc, dropWhile_all pre _ hpre]
  cases w with
  | nil => exact absurd rfl hne
  | cons c cs =>
    rw [List.cons_append, dropWhile_head c _ (hh c rfl)]
    have : ((c :: cs) ++ post).reverse = post.reverse ++ (c :: cs).reverse := by simp
    rw [← List.cons_append, this, dropWhile_all _ _ (fun x hx => hpost x (List.mem_reverse.mp hx))]
    cases hr : (c :: cs).reverse with
    | nil => simp at hr
    | cons d ds =>
      have hd : (c :: cs).getLast? = some d := by
        rw [List.getLast?_eq_head?_reverse, hr]; rfl
      rw [dropWhile_head d _ (hl d hd), ← hr, List.reverse_reverse]

theorem stripChars_id (p : Char → Bool) (w : Str) (h : ∀ c ∈ w, p c = false) : stripChars p w = w := by
  cases w with
  | nil => rfl
  | cons c cs =>
    have := stripChars_mid p [] (c :: cs) [] (by simp) (by simp) (by simp)
      (fun d hd => h d (by simp at hd; simp [hd]))
      (fun d hd => h d (List.mem_of_getLast? hd))
    simpa using this

/-! ### split / join -/

theorem splitOn_nosep (sep : Char) (n : Str) (h : sep ∉ n) : splitOn sep n = [n] := by
  induction n with
  | nil => rfl
  | cons c cs ih =>
    have hc : c ≠ sep := fun e => h (by simp [e])
    have := ih (fun hm => h (List.mem_cons_of_mem _ hm))
    simp [splitOn, hc, this]

theorem splitOn_append (sep : Char) (n r : Str) (h : sep ∉ n) :
    splitOn sep (n ++ sep :: r) = n :: splitOn sep r := by
  induction n with
  | nil => simp [splitOn]
  | cons c cs ih =>
    have hc : c ≠ sep := fun e => h (by simp [e])
    have := ih (fun hm => h (List.mem_cons_of_mem _ hm))
    simp [splitOn, hc, this]

theorem splitOn_join (ns : List Str) (hne : ns ≠ []) (h : ∀ n ∈ ns, ',' ∉ n) :
    splitOn ',' (joinNames ns) = ns := by
  induction ns with
  | nil => exact absurd rfl hne
  | cons n ns ih =>
    cases ns with
    | nil => simp [joinNames, splitOn_nosep ',' n (h n List.mem_cons_self)]
    | cons m ms =>
      simp only [joinNames]
      rw [splitOn_append ',' n _ (h n List.mem_cons_self)]
      rw [ih (by simp) (fun x hx => h x (List.mem_cons_of_mem _ hx))]

/-! ### plain names -/

/-- characters a symbol name may not contain to be written in a constraint -/
def special : List Char := [' ', '\t', '\n', '\r', '(', ')', '{', '}', ',', '^', '>', '#', '<', '=']

def nameOK (n : Str) : Bool := !n.isEmpty && n.all (fun c => !special.contains c) && n != ['_']

def namesOK (ns : List Str) : Bool := !ns.isEmpty && ns.all nameOK

def digitsOK (ds : Str) : Bool := !ds.isEmpty && ds.all Char.isDigit

theorem nameOK_char {n : Str} (h : nameOK n = true) : ∀ c ∈ n, c ∉ special := by
  unfold nameOK at h
  simp only [Bool.and_eq_true, List.all_eq_true, Bool.not_eq_true', List.contains_eq_mem,
    decide_eq_false_iff_not] at h
  exact fun c hc => h.1.2 c hc

theorem mem_joinNames {ns : List Str} {c : Char} (h : c ∈ joinNames ns) : c = ',' ∨ ∃ n ∈ ns, c ∈ n := by
  induction ns with
  | nil => simp [joinNames] at h
  | cons n ns ih =>
    cases ns with
    | nil => exact Or.inr ⟨n, List.mem_cons_self, by simpa [joinNames] using h⟩
    | cons m ms =>
      simp only [joinNames, List.mem_append, List.mem_cons] at h
      rcases h with h | h | h
      · exact Or.inr ⟨n, List.mem_cons_self, h⟩
      · exact Or.inl h
      · rcases ih h with e | ⟨x, hx, hc⟩
        · exact Or.inl e
        · exact Or.inr ⟨x, List.mem_cons_of_mem _ hx, hc⟩

/-- a character of a rendered name list is `,` or not special -/
theorem joinNames_char {ns : List Str} (h : namesOK ns = true) {c : Char} (hc : c ∈ joinNames ns) :
    c = ',' ∨ c ∉ special := by
  unfold namesOK at h
  simp only [Bool.and_eq_true, List.all_eq_true] at h
  rcases mem_joinNames hc with e | ⟨n, hn, hcn⟩
  · exact Or.inl e
  · exact Or.inr (nameOK_char (h.2 n hn) c hcn)

theorem joinNames_ne_nil {ns : List Str} (h : namesOK ns = true) : joinNames ns ≠ [] := by
  unfold namesOK at h
  simp only [Bool.and_eq_true, List.all_eq_true, Bool.not_eq_true', List.isEmpty_eq_false_iff] at h
  cases ns with
  | nil => exact absurd rfl h.1
  | cons n ns =>
    have hn := h.2 n List.mem_cons_self
    unfold nameOK at hn
    simp only [Bool.and_eq_true, Bool.not_eq_true', List.isEmpty_eq_false_iff] at hn
    cases n with
    | nil => exact absurd rfl hn.1.1
    | cons c cs => cases ns <;> simp [joinNames]

/-- the ends of a rendered name list are not special (in particular not a bracket, blank, `^`, `>`, `#`) -/
theorem joinNames_head {ns : List Str} (h : namesOK ns = true) {c : Char} (hc : (joinNames ns).head? = some c) :
    c ∉ special := by
  unfold namesOK at h
  simp only [Bool.and_eq_true, List.all_eq_true, Bool.not_eq_true', List.isEmpty_eq_false_iff] at h
  cases ns with
  | nil => exact absurd rfl h.1
  | cons n ns =>
    have hn := h.2 n List.mem_cons_self
    have hn' := hn
    unfold nameOK at hn
    simp only [Bool.and_eq_true, Bool.not_eq_true', List.isEmpty_eq_false_iff] at hn
    cases n with
    | nil => exact absurd rfl hn.1.1
    | cons d ds =>
      have : c = d := by cases ns <;> simp [joinNames] at hc <;> exact hc.symm
      subst this
      exact nameOK_char hn' c List.mem_cons_self

theorem joinNames_last {ns : List Str} (h : namesOK ns = true) {c : Char} (hc : (joinNames ns).getLast? = some c) :
    c ∉ special := by
  induction ns with
  | nil => simp [namesOK] at h
  | cons n ns ih =>
    unfold namesOK at h
    simp only [Bool.and_eq_true, List.all_eq_true, Bool.not_eq_true', List.isEmpty_eq_false_iff] at h
    cases ns with
    | nil =>
      simp only [joinNames] at hc
      exact nameOK_char (h.2 n List.mem_cons_self) c (List.mem_of_getLast? hc)
    | cons m ms =>
      have hms : namesOK (m :: ms) = true := by
        unfold namesOK
        simp only [Bool.and_eq_true, List.all_eq_true, Bool.not_eq_true', List.isEmpty_eq_false_iff]
        exact ⟨by simp, fun x hx => h.2 x (List.mem_cons_of_mem _ hx)⟩
      apply ih hms
      simp only [joinNames] at hc
      have hne := joinNames_ne_nil hms
      cases hj : joinNames (m :: ms) with
      | nil => exact absurd hj hne
      | cons x xs =>
        rw [hj] at hc
        simpa [List.getLast?_append, List.getLast?_cons_cons] using hc

theorem not_special_facts {c : Char} (h : c ∉ special) :
    c ≠ ' ' ∧ c ≠ '\t' ∧ c ≠ '\n' ∧ c ≠ '\r' ∧ c ≠ '(' ∧ c ≠ ')' ∧ c ≠ '{' ∧ c ≠ '}' ∧ c ≠ ',' ∧ c ≠ '^' ∧
      c ≠ '>' ∧ c ≠ '#' ∧ c ≠ '<' ∧ c ≠ '=' := by
  unfold special at h
  simp only [List.mem_cons, List.mem_nil_iff, or_false, not_or] at h
  obtain ⟨a, b, c', d, e, f, g, i, j, k, l, m, n, o⟩ := h
  exact ⟨a, b, c', d, e, f, g, i, j, k, l, m, n, o⟩

theorem splitOn_joinNames {ns : List Str} (h : namesOK ns = true) : splitOn ',' (joinNames ns) = ns := by
  have h' := h
  unfold namesOK at h
  simp only [Bool.and_eq_true, List.all_eq_true, Bool.not_eq_true', List.isEmpty_eq_false_iff] at h
  apply splitOn_join ns h.1
  intro n hn hc
  exact (not_special_facts (nameOK_char (h.2 n hn) ',' hc)).2.2.2.2.2.2.2.2.1 rfl

/-! ### find -/

theorem findSub_none (a : Char) (p s : Str) (h : a ∉ s) : findSub (a :: p) s = none := by
  induction s with
  | nil => simp [findSub]
  | cons c cs ih =>
    have hc : a ≠ c := fun e => h (by simp [e])
    have := ih (fun hm => h (List.mem_cons_of_mem _ hm))
    simp [findSub, List.isPrefixOf, hc, this]

theorem findSub_at (a b : Char) (pre rest : Str) (h : a ∉ pre) :
    findSub [a, b] (pre ++ a :: b :: rest) = some pre.length := by
  induction pre with
  | nil => simp [findSub, List.isPrefixOf]
  | cons c cs ih =>
    have hc : a ≠ c := fun e => h (by simp [e])
    have := ih (fun hm => h (List.mem_cons_of_mem _ hm))
    simp [findSub, List.isPrefixOf, hc, this]

theorem startsWith_single (x c : Char) (r : Str) : startsWith [x] (c :: r) = (x == c) := by
  simp [startsWith, List.isPrefixOf]

theorem removeChar_id (x : Char) (s : Str) (h : x ∉ s) : removeChar x s = s := by
  unfold removeChar
  rw [List.filter_eq_self]
  intro c hc
  simp only [bne_iff_ne, ne_eq]
  intro e; subst e; exact h hc

theorem digits_char {ds : Str} (h : digitsOK ds = true) : ∀ c ∈ ds, c.isDigit = true := by
  unfold digitsOK at h
  simp only [Bool.and_eq_true, List.all_eq_true] at h
  exact h.2

theorem digit_not {c : Char} (h : c.isDigit = true) : c ≠ ' ' ∧ c ≠ '<' ∧ c ≠ '>' ∧ c ≠ '=' ∧ c ≠ '(' ∧ c ≠ ')' := by
  simp only [Char.isDigit, Bool.and_eq_true, decide_eq_true_eq] at h
  refine ⟨?_, ?_, ?_, ?_, ?_, ?_⟩ <;> (intro e; subst e; revert h; decide)

end PS.C05
