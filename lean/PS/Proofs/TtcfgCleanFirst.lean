/-
  C13, part 16: WHAT `clean()` GUARANTEES about the table it returns (ttcfg.py:226-259): the last
  inner pass (the one that reports no change) visits every configuration the derivation machine
  of the RESULT reaches from the start symbol, and at each of them
    * the row of the non-terminal is not empty,
    * every rule that takes arguments has the non-terminal of its FIRST argument in the result
      (if it was a non-terminal of the original table at all).
  So a derivation can always descend along first arguments down to a leaf; where it can get stuck is
  only AFTER a complete sub-term, at the non-terminal of a LATER argument (finding C13-F5).
-/
import PS.Proofs.TtcfgCleanLang
namespace PS.T
open PS PS.G

variable {S T : Type} [DecidableEq S] [DecidableEq T]

/-- the marks are sets -/
def ValsNodup (nr : Marks S T) : Prop := ∀ rule l, AList.lookup rule nr = some l → l.Nodup

/-- `nr'` is `nr` with some symbols removed from some rows, no row emptied, no key added or removed -/
structure Shr (nr nr' : Marks S T) : Prop where
  keys : ∀ k, AList.contains k nr' = AList.contains k nr
  sub : ∀ rule l', AList.lookup rule nr' = some l' →
    ∃ l, AList.lookup rule nr = some l ∧ (∀ x ∈ l', x ∈ l) ∧ (l' = [] → l = [])
  nodup : ValsNodup nr → ValsNodup nr'

theorem Shr.refl (nr : Marks S T) : Shr nr nr :=
  ⟨fun _ => rfl, fun _ l' h => ⟨l', h, fun _ hx => hx, id⟩, id⟩

theorem Shr.trans {a b c : Marks S T} (h1 : Shr a b) (h2 : Shr b c) : Shr a c := by
  refine ⟨fun k => (h2.keys k).trans (h1.keys k), ?_, fun h => h2.nodup (h1.nodup h)⟩
  intro rule l' hl'
  obtain ⟨l1, g1, g2, g3⟩ := h2.sub rule l' hl'
  obtain ⟨l0, f1, f2, f3⟩ := h1.sub rule l1 g1
  exact ⟨l0, f1, fun x hx => f2 x (g2 x hx), fun e => f3 (g3 e)⟩

/-- what the visit of `(rule, info)` establishes for the symbol `P` -/
def PFact (G : TT S T) (rule : NT S T) (info : List (Ty × S)) (P : Sym) (nrIn nrOut : Marks S T)
    (pushes : List (CConfig S T)) : Prop :=
  ∀ l1, AList.lookup rule nrOut = some l1 → P ∈ l1 → ValsNodup nrIn → ∀ args s, G.rule? rule P = some (args, s) →
    inRules G (deriveWith info rule args s).2 = true →
    (AList.contains (deriveWith info rule args s).2 nrIn = true ∨ (deriveWith info rule args s).1.length < info.length) ∧
    ((deriveWith info rule args s).2, (deriveWith info rule args s).1) ∈ pushes

theorem passStep_last (G : TT S T) (rule : NT S T) (info : List (Ty × S))
    (st : Marks S T × Bool × List (CConfig S T)) (P : Sym) (hch : (passStep G rule info st P).2.1 = false) :
    st.2.1 = false ∧ Shr st.1 (passStep G rule info st P).1 ∧
    (∀ c ∈ st.2.2, c ∈ (passStep G rule info st P).2.2) ∧
    PFact G rule info P st.1 (passStep G rule info st P).1 (passStep G rule info st P).2.2 := by
  unfold passStep at hch ⊢
  cases hrule : G.rule? rule P with
  | none =>
    simp only [hrule] at hch ⊢
    refine ⟨hch, Shr.refl _, fun c hc => hc, ?_⟩
    intro l1 _ _ _ args s hr; rw [hrule] at hr; cases hr
  | some val =>
    obtain ⟨args, s⟩ := val
    simp only [hrule] at hch ⊢
    by_cases hcond : (!(AList.contains (deriveWith info rule args s).2 st.1) && inRules G (deriveWith info rule args s).2 &&
        decide ((deriveWith info rule args s).1.length ≥ info.length)) = true
    · simp only [hcond, if_true] at hch ⊢
      by_cases hemp : (((AList.lookup rule st.1).getD []).erase P).isEmpty = true
      · simp [hemp] at hch
      · simp only [hemp, Bool.false_eq_true, if_false] at hch ⊢
        cases hl : AList.lookup rule st.1 with
        | none => simp [hl] at hemp
        | some l =>
          simp only [hl, Option.getD_some] at hemp ⊢
          have hne : l.erase P ≠ [] := by simpa using hemp
          refine ⟨hch, ⟨?_, ?_, ?_⟩, fun c hc => hc, ?_⟩
          · intro k
            rw [contains_insert]
            by_cases he : k = rule
            · subst he; simp [contains_of_lookup hl]
            · simp [he]
          · intro rule' l' hl'
            rw [AList.lookup_insert] at hl'
            by_cases he : rule' = rule
            · simp only [he, if_true, Option.some.injEq] at hl'
              subst hl'
              exact ⟨l, by rw [he]; exact hl, fun x hx => List.mem_of_mem_erase hx, fun e => absurd e hne⟩
            · simp only [he, if_false] at hl'
              exact ⟨l', hl', fun x hx => hx, id⟩
          · intro hnd rule' l' hl'
            rw [AList.lookup_insert] at hl'
            by_cases he : rule' = rule
            · simp only [he, if_true, Option.some.injEq] at hl'
              subst hl'
              exact (hnd rule l hl).erase P
            · simp only [he, if_false] at hl'
              exact hnd rule' l' hl'
          · intro l1 hl1 hP hnd _ _ _ _
            rw [AList.lookup_insert_self] at hl1
            cases hl1
            exact absurd hP ((hnd rule l hl).not_mem_erase)
    · simp only [hcond, Bool.false_eq_true, if_false] at hch ⊢
      by_cases hin : inRules G (deriveWith info rule args s).2 = true
      · simp only [hin, if_true] at hch ⊢
        refine ⟨hch, Shr.refl _, fun c hc => List.mem_append.mpr (Or.inl hc), ?_⟩
        intro l1 _ _ _ args' s' hr _
        rw [hrule] at hr
        simp only [Option.some.injEq, Prod.mk.injEq] at hr
        obtain ⟨rfl, rfl⟩ := hr
        refine ⟨?_, List.mem_append.mpr (Or.inr (List.mem_singleton.mpr rfl))⟩
        simp only [hin, Bool.and_true, Bool.and_eq_true, Bool.not_eq_true', decide_eq_true_eq, not_and] at hcond
        by_cases hc : AList.contains (deriveWith info rule args s).2 st.1 = true
        · exact Or.inl hc
        · right
          have := hcond (by simpa using hc)
          omega
      · simp only [hin, Bool.false_eq_true, if_false] at hch ⊢
        refine ⟨hch, Shr.refl _, fun c hc => hc, ?_⟩
        intro l1 _ _ _ args' s' hr hin'
        rw [hrule] at hr
        simp only [Option.some.injEq, Prod.mk.injEq] at hr
        obtain ⟨rfl, rfl⟩ := hr
        exact absurd hin' hin

theorem passFold_last (G : TT S T) (rule : NT S T) (info : List (Ty × S)) :
    ∀ (L : List Sym) (st : Marks S T × Bool × List (CConfig S T)),
      (L.foldl (passStep G rule info) st).2.1 = false →
      st.2.1 = false ∧ Shr st.1 (L.foldl (passStep G rule info) st).1 ∧
      (∀ c ∈ st.2.2, c ∈ (L.foldl (passStep G rule info) st).2.2) ∧
      ∀ P ∈ L, PFact G rule info P st.1 (L.foldl (passStep G rule info) st).1 (L.foldl (passStep G rule info) st).2.2
  | [], st, h => ⟨h, Shr.refl _, fun c hc => hc, by intro P hP; cases hP⟩
  | Q :: L, st, h => by
    rw [List.foldl_cons] at h ⊢
    obtain ⟨i1, i2, i3, i4⟩ := passFold_last G rule info L (passStep G rule info st Q) h
    obtain ⟨j1, j2, j3, j4⟩ := passStep_last G rule info st Q i1
    refine ⟨j1, Shr.trans j2 i2, fun c hc => i3 c (j3 c hc), ?_⟩
    intro P hP l1 hl1 hPl hnd args s hr hin
    rcases List.mem_cons.mp hP with e | hm
    · subst e
      -- P was processed first: it is still in the row after that step
      obtain ⟨lm, hlm, hsub, _⟩ := i2.sub rule l1 hl1
      obtain ⟨g1, g2⟩ := j4 lm hlm (hsub P hPl) hnd args s hr hin
      exact ⟨g1, i3 _ g2⟩
    · obtain ⟨g1, g2⟩ := i4 P hm l1 hl1 hPl (j2.nodup hnd) args s hr hin
      refine ⟨?_, g2⟩
      rcases g1 with g | g
      · left; rw [← j2.keys]; exact g
      · exact Or.inr g

/-- a pass that reports no change started without one -/
theorem passLoop_ch (G : TT S T) :
    ∀ (fuel : Nat) (todo : List (CConfig S T)) (nr : Marks S T) (ch : Bool) (nr' : Marks S T),
      passLoop G fuel todo nr ch = .ok (nr', false) → ch = false
  | fuel, [], nr, ch, nr', h => by
    cases fuel <;> (simp only [passLoop, Res.ok.injEq, Prod.mk.injEq] at h; exact h.2)
  | 0, _ :: _, _, _, _, h => by simp [passLoop] at h
  | fuel + 1, (rule, info) :: todo, nr, ch, nr', h => by
    rw [passLoop] at h
    cases hl : AList.lookup rule nr with
    | none => simp only [hl] at h; exact passLoop_ch G fuel todo nr ch nr' h
    | some l =>
      cases l with
      | nil => simp only [hl] at h; exact absurd (passLoop_ch G fuel todo _ true nr' h) (by simp)
      | cons p ps =>
        simp only [hl] at h
        have := passLoop_ch G fuel _ _ _ nr' h
        exact (passFold_last G rule info (p :: ps) (nr, ch, []) this).1

/-- a step of the machine the last pass walks: a kept symbol of a kept non-terminal, followed when
    the next non-terminal is a non-terminal of the original table -/
inductive VStep (G : TT S T) (nr : Marks S T) : CConfig S T → CConfig S T → Prop where
  | mk (rule : NT S T) (info : List (Ty × S)) (l : List Sym) (P : Sym) (args : List (Ty × S)) (st : T) :
      AList.lookup rule nr = some l → P ∈ l → G.rule? rule P = some (args, st) →
      inRules G (deriveWith info rule args st).2 = true →
      VStep G nr (rule, info) ((deriveWith info rule args st).2, (deriveWith info rule args st).1)

inductive VSteps (G : TT S T) (nr : Marks S T) : CConfig S T → CConfig S T → Prop where
  | refl (c : CConfig S T) : VSteps G nr c c
  | cons (c d e : CConfig S T) : VStep G nr c d → VSteps G nr d e → VSteps G nr c e

/-- what holds at a visited configuration -/
def GoodC (G : TT S T) (nr : Marks S T) (c : CConfig S T) : Prop :=
  ∀ l, AList.lookup c.1 nr = some l → l ≠ [] ∧ ∀ P ∈ l, ∀ args st, G.rule? c.1 P = some (args, st) →
    inRules G (deriveWith c.2 c.1 args st).2 = true →
    (AList.contains (deriveWith c.2 c.1 args st).2 nr = true ∨ (deriveWith c.2 c.1 args st).1.length < c.2.length)

/-- **the last pass** -/
theorem passLoop_last (G : TT S T) :
    ∀ (fuel : Nat) (todo : List (CConfig S T)) (nr : Marks S T) (ch : Bool) (nr' : Marks S T),
      passLoop G fuel todo nr ch = .ok (nr', false) → ValsNodup nr →
      ch = false ∧ Shr nr nr' ∧ ∀ c ∈ todo, ∀ c', VSteps G nr' c c' → GoodC G nr' c'
  | fuel, [], nr, ch, nr', h, _ => by
    cases fuel <;> (simp only [passLoop, Res.ok.injEq, Prod.mk.injEq] at h; obtain ⟨e1, e2⟩ := h; subst e1;
                    exact ⟨e2, Shr.refl _, by intro c hc; cases hc⟩)
  | 0, _ :: _, _, _, _, h, _ => by simp [passLoop] at h
  | fuel + 1, (rule, info) :: todo, nr, ch, nr', h, hnd => by
    rw [passLoop] at h
    cases hl : AList.lookup rule nr with
    | none =>
      simp only [hl] at h
      obtain ⟨i1, i2, i3⟩ := passLoop_last G fuel todo nr ch nr' h hnd
      refine ⟨i1, i2, ?_⟩
      intro c hc c' hs
      rcases List.mem_cons.mp hc with e | hm
      · subst e
        have hnone : AList.lookup rule nr' = none := by
          have := i2.keys rule
          unfold AList.contains at this
          rw [hl] at this
          cases hl' : AList.lookup rule nr' with
          | none => rfl
          | some l => rw [hl'] at this; cases this
        cases hs with
        | refl _ => intro l hl'; simp only at hl'; rw [hnone] at hl'; cases hl'
        | cons _ d _ hstep _ =>
          cases hstep with
          | mk _ _ l P args st hl' _ _ _ => rw [hnone] at hl'; cases hl'
      · exact i3 c hm c' hs
    | some l =>
      cases l with
      | nil =>
        simp only [hl] at h
        exact absurd (passLoop_ch G fuel todo _ true nr' h) (by simp)
      | cons p ps =>
        simp only [hl] at h
        have hfold := passFold_last G rule info (p :: ps) (nr, ch, [])
        generalize hF : (p :: ps).foldl (passStep G rule info) (nr, ch, []) = F at h hfold
        obtain ⟨nr1, ch1, pu1⟩ := F
        simp only at h hfold
        have hch1 : ch1 = false := passLoop_ch G fuel (pu1.reverse ++ todo) nr1 ch1 nr' h
        obtain ⟨i1, i2, i3⟩ := passLoop_last G fuel (pu1.reverse ++ todo) nr1 ch1 nr' h ((hfold hch1).2.1.nodup hnd)
        obtain ⟨j1, j2, _, j4⟩ := hfold i1
        refine ⟨j1, Shr.trans j2 i2, ?_⟩
        intro c hc c' hs
        rcases List.mem_cons.mp hc with e | hm
        · subst e
          have hvisit : GoodC G nr' (rule, info) := by
            intro l' hl'
            obtain ⟨l1, hl1, hsub1, hemp1⟩ := i2.sub rule l' hl'
            obtain ⟨l0, hl0, hsub0, hemp0⟩ := j2.sub rule l1 hl1
            rw [hl] at hl0
            cases hl0
            refine ⟨?_, ?_⟩
            · intro e
              have := hemp0 (hemp1 e)
              cases this
            · intro P hP args st hr hin
              have hPL : P ∈ p :: ps := hsub0 P (hsub1 P hP)
              obtain ⟨g1, _⟩ := j4 P hPL l1 hl1 (hsub1 P hP) hnd args st hr hin
              rcases g1 with g | g
              · left
                rw [i2.keys, j2.keys]
                exact g
              · exact Or.inr g
          cases hs with
          | refl _ => exact hvisit
          | cons _ d _ hstep hrest =>
            cases hstep with
            | mk _ _ l' P args st hl' hP hr hin =>
              obtain ⟨l1, hl1, hsub1, _⟩ := i2.sub rule l' hl'
              have hPL : P ∈ p :: ps := by
                obtain ⟨l0', hl0', hs0, _⟩ := j2.sub rule l1 hl1
                rw [hl] at hl0'
                cases hl0'
                exact hs0 P (hsub1 P hP)
              obtain ⟨_, g2⟩ := j4 P hPL l1 hl1 (hsub1 P hP) hnd args st hr hin
              exact i3 _ (List.mem_append.mpr (Or.inl (List.mem_reverse.mpr g2))) c' hrest
        · exact i3 c (List.mem_append.mpr (Or.inr hm)) c' hs

/-- the passes end with a pass that reports no change, run on marks satisfying the invariant -/
theorem passes_last (G : TT S T) (hU : noUnknownKey G = true) (fuel : Nat) :
    ∀ (n : Nat) (nr nr' : Marks S T), passes G fuel n nr = .ok nr' → PInv G nr →
      ∃ nrm, PInv G nrm ∧ passLoop G fuel [(G.start, [])] nrm false = .ok (nr', false)
  | 0, _, _, h, _ => by simp [passes] at h
  | n + 1, nr, nr', h, hinv => by
    rw [passes] at h
    cases hp : passLoop G fuel [(G.start, [])] nr false with
    | ok res =>
      obtain ⟨nr1, b⟩ := res
      cases b with
      | true =>
        simp only [hp] at h
        have j := passLoop_inv G hU fuel _ nr false _ hp hinv
          (by intro c hc; rw [List.mem_singleton.mp hc]; exact CSteps.refl _)
        exact passes_last G hU fuel n nr1 nr' h j
      | false =>
        simp only [hp, Res.ok.injEq] at h
        subst h
        exact ⟨nr, hinv, hp⟩
    | fuel => simp [hp] at h
    | keyError => simp [hp] at h

/-- **what `clean()` guarantees**: the table returned is the original one restricted to marks `nr`
    such that at every configuration the machine of the kept rules reaches from the start symbol
    the kept row is not empty and every kept rule whose next non-terminal (first argument, or the
    next pending slot after a leaf) is a non-terminal of the original table either has that
    non-terminal kept, or is a leaf (`len(new_info) < len(info)`) -/
theorem clean_first (G G' : TT S T) (hU : noUnknownKey G = true) (fuel : Nat) (h : clean G fuel = .ok G') :
    ∃ nr, G' = restrict G nr ∧ PInv G nr ∧ ∀ c, VSteps G nr (G.start, []) c → GoodC G nr c := by
  unfold clean at h
  cases h1 : reachLoop G fuel [(G.start, [])] [] with
  | ok nr0 =>
    simp only [h1] at h
    cases h2 : passes G fuel fuel nr0 with
    | ok nr' =>
      simp only [h2, Res.ok.injEq] at h
      have hinv0 := pinv_of_reach G fuel nr0 h1
      obtain ⟨nrm, hm, hlast⟩ := passes_last G hU fuel fuel nr0 nr' h2 hinv0
      obtain ⟨_, _, i3⟩ := passLoop_last G fuel _ nrm false nr' hlast hm.vals
      exact ⟨nr', h.symm, passes_inv G hU fuel fuel nr0 nr' h2 hinv0,
        fun c hc => i3 _ (List.mem_singleton.mpr rfl) c hc⟩
    | fuel => simp [h2] at h
    | keyError => simp [h2] at h
  | fuel => simp [h1] at h
  | keyError => simp [h1] at h

/-- a rule with an argument: its next non-terminal is that of the first argument, and the pending
    stack does not shrink - so `GoodC` says the first argument's non-terminal is kept -/
theorem goodC_first (G : TT S T) (nr : Marks S T) (c : CConfig S T) (hg : GoodC G nr c) (l : List Sym)
    (hl : AList.lookup c.1 nr = some l) (P : Sym) (hP : P ∈ l) (a : Ty × S) (as : List (Ty × S)) (st : T)
    (hr : G.rule? c.1 P = some (a :: as, st)) (hin : inRules G (a.1, (a.2, st)) = true) :
    AList.contains (a.1, (a.2, st)) nr = true := by
  have := (hg l hl).2 P hP (a :: as) st hr
  rw [deriveWith_cons] at this
  rcases this hin with h1 | h1
  · exact h1
  · simp at h1; omega

end PS.T
