/-
  C13, part 6: the product table of `__mul_ttcfg__` (before cleaning) derives exactly the
  programs both factors derive, the state being the pair of the factors' states.
-/
import PS.Proofs.TtcfgCert
namespace PS.T
open PS PS.G

variable {S T U V : Type} [DecidableEq S] [DecidableEq T] [DecidableEq U] [DecidableEq V]

def pairArgs (a1 : List (Ty × S)) (a2 : List (Ty × U)) : List (Ty × (S × U)) :=
  List.zipWith (fun el1 el2 => (el1.1, (el1.2, el2.2))) a1 a2

theorem lookup_mulRow (P : Sym) (r2 : Row U V) : ∀ r1 : Row S T,
    AList.lookup P (mulRow r1 r2) =
      match AList.lookup P r1, AList.lookup P r2 with
      | some v1, some v2 => some (pairArgs v1.1 v2.1, (v1.2, v2.2))
      | _, _ => none
  | [] => by simp [mulRow, AList.lookup]
  | e :: r1 => by
    have ih := lookup_mulRow P r2 r1
    unfold mulRow at ih ⊢
    rw [List.filterMap_cons]
    obtain ⟨k, v⟩ := e
    by_cases hk : k = P
    · subst hk
      cases h2 : AList.lookup k r2 with
      | none => rw [ih, h2]; simp [AList.lookup]
      | some v2 => simp [AList.lookup, pairArgs]
    · cases h2 : AList.lookup k r2 with
      | none => rw [ih]; simp [AList.lookup, hk]
      | some v2 => simp only [AList.lookup, hk, if_false]; exact ih

/-- the product key -/
def pkey (ty : Ty) (s : S) (t : T) (u : U) (v : V) : NT (S × U) (T × V) := (ty, ((s, u), (t, v)))

theorem lookup_inner (e1 : NT S T × Row S T) (ty : Ty) (s : S) (t : T) (u : U) (v : V)
    (rest : Table (S × U) (T × V)) : ∀ l2 : Table U V,
    AList.lookup (pkey ty s t u v)
      (l2.filterMap (fun e2 =>
        if e1.1.1 = e2.1.1 then
          some ((e1.1.1, ((e1.1.2.1, e2.1.2.1), (e1.1.2.2, e2.1.2.2))), mulRow e1.2 e2.2)
        else none) ++ rest) =
      if e1.1 = (ty, (s, t)) then
        (match AList.lookup (ty, (u, v)) l2 with
         | some r2 => some (mulRow e1.2 r2)
         | none => AList.lookup (pkey ty s t u v) rest)
      else AList.lookup (pkey ty s t u v) rest
  | [] => by simp [AList.lookup]
  | e2 :: l2 => by
    have ih := lookup_inner e1 ty s t u v rest l2
    rw [List.filterMap_cons]
    obtain ⟨⟨ty1, s1, t1⟩, r1⟩ := e1
    obtain ⟨⟨ty2, u2, v2⟩, r2⟩ := e2
    simp only at ih ⊢
    by_cases hty : ty1 = ty2
    · simp only [hty, if_true, List.cons_append, AList.lookup]
      subst hty
      by_cases hk : ((ty1, ((s1, u2), (t1, v2))) : NT (S × U) (T × V)) = pkey ty s t u v
      · simp only [hk, if_true]
        simp only [pkey, Prod.mk.injEq] at hk
        obtain ⟨h1, ⟨h2, h3⟩, h4, h5⟩ := hk
        subst h1 h2 h3 h4 h5
        simp
      · simp only [hk, if_false]
        rw [ih]
        by_cases h1 : ((ty1, (s1, t1)) : NT S T) = (ty, (s, t))
        · simp only [h1, if_true]
          simp only [Prod.mk.injEq] at h1
          obtain ⟨h1, h2, h3⟩ := h1
          subst h1 h2 h3
          have : ((ty1, (u2, v2)) : NT U V) ≠ (ty1, (u, v)) := by
            intro e
            simp only [Prod.mk.injEq, true_and] at e
            apply hk
            simp [pkey, e.1, e.2]
          simp [this]
        · simp [h1]
    · simp only [hty, if_false]
      rw [ih]
      by_cases h1 : ((ty1, (s1, t1)) : NT S T) = (ty, (s, t))
      · simp only [h1, if_true]
        simp only [Prod.mk.injEq] at h1
        obtain ⟨h1, h2, h3⟩ := h1
        subst h1
        have : ((ty2, (u2, v2)) : NT U V) ≠ (ty1, (u, v)) := by
          intro e
          simp only [Prod.mk.injEq] at e
          exact hty e.1.symm
        simp [AList.lookup, this]
      · simp [h1]

theorem lookup_mulRaw_aux (l2 : Table U V) (ty : Ty) (s : S) (t : T) (u : U) (v : V) : ∀ l1 : Table S T,
    AList.lookup (pkey ty s t u v)
      (l1.flatMap (fun e1 => l2.filterMap (fun e2 =>
        if e1.1.1 = e2.1.1 then
          some ((e1.1.1, ((e1.1.2.1, e2.1.2.1), (e1.1.2.2, e2.1.2.2))), mulRow e1.2 e2.2)
        else none))) =
      match AList.lookup (ty, (s, t)) l1, AList.lookup (ty, (u, v)) l2 with
      | some r1, some r2 => some (mulRow r1 r2)
      | _, _ => none
  | [] => by simp [AList.lookup]
  | e1 :: l1 => by
    have ih := lookup_mulRaw_aux l2 ty s t u v l1
    rw [List.flatMap_cons, lookup_inner e1 ty s t u v _ l2, ih]
    obtain ⟨nt1, r1⟩ := e1
    by_cases h1 : nt1 = (ty, (s, t))
    · subst h1
      simp only [if_true, AList.lookup]
      cases AList.lookup (ty, (u, v)) l2 with
      | none => simp
      | some r2 => simp
    · simp only [h1, if_false, AList.lookup]

/-- **rules of the product**: a symbol is derivable from the product non-terminal iff it is
    derivable from both components; arguments and states are paired -/
theorem rule_mulRaw (G1 : TT S T) (G2 : TT U V) (ty : Ty) (s : S) (t : T) (u : U) (v : V) (P : Sym) :
    (mulRaw G1 G2).rule? (pkey ty s t u v) P =
      match G1.rule? (ty, (s, t)) P, G2.rule? (ty, (u, v)) P with
      | some v1, some v2 => some (pairArgs v1.1 v2.1, (v1.2, v2.2))
      | _, _ => none := by
  unfold TT.rule? mulRaw
  simp only
  rw [lookup_mulRaw_aux]
  cases h1 : AList.lookup (ty, (s, t)) G1.rules with
  | none => simp
  | some r1 =>
    cases h2 : AList.lookup (ty, (u, v)) G2.rules with
    | none => simp
    | some r2 => simp only; exact lookup_mulRow P r2 r1

/-- the two factors give the same argument types to a symbol at non-terminals of the same type
    (true for grammars compiled from DSLs: the arguments are what the symbol's type gives at
    the slot's type) -/
def ArgsAgree (G1 : TT S T) (G2 : TT U V) : Prop :=
  ∀ (ty : Ty) (s : S) (t : T) (u : U) (v : V) (P : Sym) (v1 : List (Ty × S) × T) (v2 : List (Ty × U) × V),
    G1.rule? (ty, (s, t)) P = some v1 → G2.rule? (ty, (u, v)) P = some v2 → v1.1.map (·.1) = v2.1.map (·.1)


omit [DecidableEq U] [DecidableEq V] in
theorem typed_rule (G : TT S T) (h : typedOK G = true) (nt : NT S T) (P : Sym) (val : List (Ty × S) × T)
    (hr : G.rule? nt P = some val) : P.ty.endsWith nt.1 = some (val.1.map (·.1)) := by
  unfold TT.rule? at hr
  cases hl : AList.lookup nt G.rules with
  | none => simp [hl] at hr
  | some row =>
    simp only [hl] at hr
    unfold typedOK at h
    rw [List.all_eq_true] at h
    have h1 := h _ (AList.lookup_some_mem hl)
    rw [List.all_eq_true] at h1
    have h2 := h1 _ (AList.lookup_some_mem hr)
    simpa using h2

/-- typed tables agree on argument types -/
theorem argsAgree_of_typed (G1 : TT S T) (G2 : TT U V) (h1 : typedOK G1 = true) (h2 : typedOK G2 = true) :
    ArgsAgree G1 G2 := by
  intro ty s t u v P v1 v2 hr1 hr2
  have e1 := typed_rule G1 h1 _ P v1 hr1
  have e2 := typed_rule G2 h2 _ P v2 hr2
  simp only at e1 e2
  rw [e1] at e2
  exact Option.some.inj e2

/-- pairing of the two outcomes -/
def both (o1 : Option T) (o2 : Option V) : Option (T × V) :=
  match o1, o2 with
  | some w1, some w2 => some (w1, w2)
  | _, _ => none

theorem mul_run (G1 : TT S T) (G2 : TT U V) (hag : ArgsAgree G1 G2) : ∀ n : Nat,
    (∀ t : Prog, Tree.size t ≤ n → ∀ (ty : Ty) (s : S) (u : U) (v1 : T) (v2 : V),
      run (mulRaw G1 G2).rule? t (ty, (s, u)) (v1, v2) = both (run G1.rule? t (ty, s) v1) (run G2.rule? t (ty, u) v2)) ∧
    (∀ ks : List Prog, Tree.sizeList ks ≤ n → ∀ (a1 : List (Ty × S)) (a2 : List (Ty × U)) (v1 : T) (v2 : V),
      a1.map (·.1) = a2.map (·.1) →
      runList (mulRaw G1 G2).rule? ks (pairArgs a1 a2) (v1, v2) = both (runList G1.rule? ks a1 v1) (runList G2.rule? ks a2 v2)) := by
  intro n
  induction n with
  | zero =>
    constructor
    · intro t ht; cases t with | node f kids => simp [Tree.size] at ht
    · intro ks hks a1 a2 v1 v2 hty
      cases ks with
      | nil =>
        cases a1 with
        | nil => cases a2 with
          | nil => simp [pairArgs, runList, both]
          | cons y a2 => simp at hty
        | cons x a1 => cases a2 with
          | nil => simp at hty
          | cons y a2 => simp [pairArgs, runList, both]
      | cons k ks => cases k with | node f kids => simp [Tree.sizeList, Tree.size] at hks
  | succ n ih =>
    have node_case : ∀ (f : Sym) (kids : List Prog), Tree.sizeList kids ≤ n → ∀ (ty : Ty) (s : S) (u : U) (v1 : T) (v2 : V),
        run (mulRaw G1 G2).rule? (.node f kids) (ty, (s, u)) (v1, v2)
          = both (run G1.rule? (.node f kids) (ty, s) v1) (run G2.rule? (.node f kids) (ty, u) v2) := by
      intro f kids hs ty s u v1 v2
      rw [run, run, run]
      have hr := rule_mulRaw G1 G2 ty s v1 u v2 f
      unfold pkey at hr
      simp only
      rw [hr]
      cases h1 : G1.rule? (ty, (s, v1)) f with
      | none => simp [both]
      | some val1 =>
        cases h2 : G2.rule? (ty, (u, v2)) f with
        | none =>
          simp only [both]
          cases runList G1.rule? kids val1.1 val1.2 <;> rfl
        | some val2 =>
          simp only
          exact ih.2 kids hs val1.1 val2.1 val1.2 val2.2 (hag ty s v1 u v2 f val1 val2 h1 h2)
    constructor
    · intro t ht ty s u v1 v2
      cases t with
      | node f kids => exact node_case f kids (by simp [Tree.size] at ht; omega) ty s u v1 v2
    · intro ks hks a1 a2 v1 v2 hty
      cases ks with
      | nil =>
        cases a1 with
        | nil => cases a2 with
          | nil => simp [pairArgs, runList, both]
          | cons y a2 => simp at hty
        | cons x a1 => cases a2 with
          | nil => simp at hty
          | cons y a2 => simp [pairArgs, runList, both]
      | cons k ks =>
        cases a1 with
        | nil => cases a2 with
          | nil => simp [pairArgs, runList, both]
          | cons y a2 => simp at hty
        | cons x a1 => cases a2 with
          | nil => simp at hty
          | cons y a2 =>
            simp only [List.map_cons, List.cons.injEq] at hty
            obtain ⟨hxy, hty'⟩ := hty
            have hpos : 1 ≤ Tree.size k := by cases k with | node f kids => simp [Tree.size]
            have hks' : Tree.sizeList ks ≤ n := by simp [Tree.sizeList] at hks; omega
            have hk : run (mulRaw G1 G2).rule? k (x.1, (x.2, y.2)) (v1, v2)
                = both (run G1.rule? k (x.1, x.2) v1) (run G2.rule? k (x.1, y.2) v2) := by
              cases k with
              | node f kids => exact node_case f kids (by simp [Tree.sizeList, Tree.size] at hks; omega) x.1 x.2 y.2 v1 v2
            have hy : (y.1, y.2) = (x.1, y.2) := by rw [hxy]
            simp only [pairArgs, List.zipWith_cons_cons, runList]
            rw [hk]
            have hyy : run G2.rule? k y v2 = run G2.rule? k (x.1, y.2) v2 := by
              rw [← hy]
            rw [hyy]
            cases hr1 : run G1.rule? k (x.1, x.2) v1 with
            | none => simp [both]
            | some w1 =>
              cases hr2 : run G2.rule? k (x.1, y.2) v2 with
              | none =>
                simp only [both]
                cases runList G1.rule? ks a1 w1 <;> rfl
              | some w2 =>
                simp only [both]
                exact ih.2 ks hks' a1 a2 w1 w2 hty'

/-- **product = intersection** (table of `__mul_ttcfg__`, before `clean`): for all grammars with
    agreeing argument types and all programs -/
theorem mulRaw_lang (G1 : TT S T) (G2 : TT U V) (hag : ArgsAgree G1 G2) (hty : G1.start.1 = G2.start.1) (t : Prog) :
    inLang (mulRaw G1 G2) t = (inLang G1 t && inLang G2 t) := by
  unfold inLang
  have h := (mul_run G1 G2 hag (Tree.size t)).1 t (Nat.le_refl _) G1.start.1 G1.start.2.1 G2.start.2.1
    G1.start.2.2 G2.start.2.2
  have hs : (mulRaw G1 G2).start = (G1.start.1, ((G1.start.2.1, G2.start.2.1), (G1.start.2.2, G2.start.2.2))) := rfl
  rw [hs]
  simp only
  rw [h, ← hty]
  cases run G1.rule? t (G1.start.1, G1.start.2.1) G1.start.2.2 <;>
  cases run G2.rule? t (G1.start.1, G2.start.2.1) G2.start.2.2 <;> simp [both]

end PS.T
