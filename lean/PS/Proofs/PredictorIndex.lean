/-
  Helper lemmas for property C19, part "slice table": what the constructors
  `mkLayerDet` / `mkLayerU` (`__init__` of the two prediction layers) build.

    * `mkIndexGo_eq`      : `abs2index` is the table of consecutive slices `sliceTable`
    * `enumDict_lookup`   : `{P: i for i, P in enumerate(order)}` on a duplicate-free order
    * `sliceTable_*`      : ranges of distinct keys are disjoint, together they cover `[cur, cur + Σ len)`
    * `mkLayerU_pre`      : invariants of the loops over the grammars (distinct keys, duplicate-free sets,
                            every rule table of every grammar is covered)
  No real numbers here.
-/
import PS.Proofs.Predictor
namespace PS.Predictor
open PS
set_option linter.unusedSectionVars false
set_option linter.unusedSimpArgs false
set_option linter.unusedVariables false

/-! ### association lists: keys under `insert` -/
section ALKeys
variable {κ ν : Type} [DecidableEq κ]

theorem keys_insert_none {k : κ} {v : ν} {d : AList κ ν} (h : AList.lookup k d = none) :
    AList.keys (AList.insert k v d) = AList.keys d ++ [k] := by
  rw [insert_fresh h]; simp [AList.keys]

theorem keys_insert_some {k : κ} {v w : ν} {d : AList κ ν} (h : AList.lookup k d = some w) :
    AList.keys (AList.insert k v d) = AList.keys d := by
  induction d with
  | nil => simp [AList.lookup] at h
  | cons p r ih =>
    obtain ⟨k', v'⟩ := p
    by_cases hk : k' = k
    · simp [AList.insert, AList.keys, hk]
    · simp only [AList.lookup, hk, if_false] at h
      have := ih h
      simp only [AList.keys] at this
      simp [AList.insert, AList.keys, hk, this]

theorem keys_insert_nodup {k : κ} {v : ν} {d : AList κ ν} (h : (AList.keys d).Nodup) :
    (AList.keys (AList.insert k v d)).Nodup := by
  cases hl : AList.lookup k d with
  | none =>
    rw [keys_insert_none hl, List.nodup_append]
    refine ⟨h, by simp, ?_⟩
    intro a ha b hb hab
    simp only [List.mem_singleton] at hb
    subst hb; subst hab
    have := AList.lookup_isSome_iff_mem_keys.mpr ha
    rw [hl] at this; simp at this
  | some w => rw [keys_insert_some hl]; exact h

theorem lookup_some_of_mem_keys {k : κ} {d : AList κ ν} (h : k ∈ AList.keys d) :
    ∃ v, AList.lookup k d = some v := by
  have := AList.lookup_isSome_iff_mem_keys.mpr h
  cases hl : AList.lookup k d with
  | none => rw [hl] at this; simp at this
  | some v => exact ⟨v, rfl⟩

theorem mem_keys_of_lookup {k : κ} {v : ν} {d : AList κ ν} (h : AList.lookup k d = some v) :
    k ∈ AList.keys d :=
  AList.lookup_isSome_iff_mem_keys.mp (by simp [h])

end ALKeys

/-! ### `setAdd` -/
theorem mem_setAdd {τ : Type} [DecidableEq τ] (x y : τ) (s : List τ) :
    y ∈ setAdd x s ↔ y = x ∨ y ∈ s := by
  unfold setAdd
  by_cases h : x ∈ s
  · simp only [h, if_true]
    constructor
    · exact Or.inr
    · rintro (rfl | h') <;> assumption
  · simp only [h, if_false, List.mem_append, List.mem_singleton]
    tauto

theorem setAdd_nodup {τ : Type} [DecidableEq τ] (x : τ) (s : List τ) (h : s.Nodup) : (setAdd x s).Nodup := by
  unfold setAdd
  by_cases hx : x ∈ s
  · simp [hx, h]
  · simp only [hx, if_false]
    rw [List.nodup_append]
    refine ⟨h, by simp, ?_⟩
    intro a ha b hb hab
    simp only [List.mem_singleton] at hb
    subst hb; subst hab; exact hx ha

/-! ### `enumDict` -/

theorem enumDict_go (order : List DP) :
    ∀ (n : ℕ) (acc : AList DP ℕ), order.Nodup → (∀ P ∈ order, AList.lookup P acc = none) →
      (order.zipIdx n).foldl (fun d (p : DP × ℕ) => AList.insert p.1 p.2 d) acc = acc ++ order.zipIdx n := by
  induction order with
  | nil => intro n acc _ _; simp
  | cons P r ih =>
    intro n acc hnd hfresh
    have hnd' := List.nodup_cons.mp hnd
    simp only [List.zipIdx_cons, List.foldl_cons]
    rw [insert_fresh (hfresh P (by simp)), ih (n + 1) _ hnd'.2]
    · simp
    · intro Q hQ
      rw [lookup_append, hfresh Q (by simp [hQ])]
      have : P ≠ Q := by intro h; subst h; exact hnd'.1 hQ
      simp [AList.lookup, this]

theorem enumDict_eq (order : List DP) (h : order.Nodup) : enumDict order = order.zipIdx := by
  unfold enumDict
  have := enumDict_go order 0 [] h (by intro P _; rfl)
  simpa using this

theorem lookup_zipIdx (order : List DP) :
    ∀ (n : ℕ) (P : DP) (i : ℕ), order.Nodup →
      (AList.lookup P (order.zipIdx n) = some i ↔ n ≤ i ∧ order[i - n]? = some P) := by
  induction order with
  | nil => intro n P i _; simp [AList.lookup]
  | cons Q r ih =>
    intro n P i hnd
    have hnd' := List.nodup_cons.mp hnd
    simp only [List.zipIdx_cons, AList.lookup]
    by_cases hQ : Q = P
    · subst hQ
      simp only [if_true, Option.some.injEq]
      constructor
      · intro h; subst h; simp
      · rintro ⟨h1, h2⟩
        by_cases hi : i = n
        · exact hi.symm
        · exfalso
          have : i - n = (i - n - 1) + 1 := by omega
          rw [this, List.getElem?_cons_succ] at h2
          exact hnd'.1 (List.mem_of_getElem? h2)
    · simp only [hQ, if_false]
      rw [ih (n + 1) P i hnd'.2]
      constructor
      · rintro ⟨h1, h2⟩
        refine ⟨by omega, ?_⟩
        have : i - n = (i - (n + 1)) + 1 := by omega
        rw [this, List.getElem?_cons_succ]; exact h2
      · rintro ⟨h1, h2⟩
        have hi : i ≠ n := by
          intro h; subst h; simp at h2; exact hQ h2
        refine ⟨by omega, ?_⟩
        have : i - n = (i - (n + 1)) + 1 := by omega
        rw [this, List.getElem?_cons_succ] at h2; exact h2

/-- `{P: i for i, P in enumerate(order)}` for a duplicate-free `order`: `d[P] = i ↔ order[i] = P` -/
theorem enumDict_lookup (order : List DP) (h : order.Nodup) (P : DP) (i : ℕ) :
    AList.lookup P (enumDict order) = some i ↔ order[i]? = some P := by
  rw [enumDict_eq order h, lookup_zipIdx order 0 P i h]; simp

/-! ### the slice table -/

theorem sumLens_eq (ap : AList Abs (List DP)) : sumLens ap = (ap.map (fun p => p.2.length)).sum := by
  unfold sumLens; rw [List.sum_eq_foldl]

@[simp] theorem sumLens_nil : sumLens [] = 0 := rfl
theorem sumLens_cons (p : Abs × List DP) (ap : AList Abs (List DP)) :
    sumLens (p :: ap) = p.2.length + sumLens ap := by
  simp [sumLens_eq]

/-- the table `mkIndexGo` builds when the keys are distinct: consecutive slices -/
def sliceTable (iter : Abs → List DP → List DP) :
    List (Abs × List DP) → Nat → AList Abs (Nat × Nat × AList DP Nat)
  | [], _ => []
  | (k, s) :: rest, cur => (k, (cur, s.length, enumDict (iter k s))) :: sliceTable iter rest (cur + s.length)

theorem mkIndexGo_eq (iter : Abs → List DP → List DP) :
    ∀ (ap : List (Abs × List DP)) (cur : ℕ) (acc : AList Abs (Nat × Nat × AList DP Nat)),
      (AList.keys ap).Nodup → (∀ k ∈ AList.keys ap, AList.lookup k acc = none) →
      mkIndexGo iter ap cur acc = acc ++ sliceTable iter ap cur := by
  intro ap
  induction ap with
  | nil => intro cur acc _ _; simp [mkIndexGo, sliceTable]
  | cons p rest ih =>
    obtain ⟨k, s⟩ := p
    intro cur acc hnd hfresh
    simp only [AList.keys, List.map_cons, List.nodup_cons] at hnd
    simp only [mkIndexGo, sliceTable]
    rw [insert_fresh (hfresh k (by simp [AList.keys])), ih _ _ hnd.2]
    · simp
    · intro k' hk'
      rw [lookup_append, hfresh k' (by simp only [AList.keys, List.map_cons, List.mem_cons]; exact Or.inr hk')]
      have : k ≠ k' := by intro h; subst h; exact hnd.1 hk'
      simp [AList.lookup, this]

/-- consecutive slices starting at `cur` -/
def Consec : Nat → AList Abs (Nat × Nat × AList DP Nat) → Prop
  | _, [] => True
  | cur, e :: rest => e.2.1 = cur ∧ Consec (cur + e.2.2.1) rest

theorem sliceTable_consec (iter : Abs → List DP → List DP) :
    ∀ (ap : List (Abs × List DP)) (cur : ℕ), Consec cur (sliceTable iter ap cur) := by
  intro ap
  induction ap with
  | nil => intro cur; trivial
  | cons p rest ih => obtain ⟨k, s⟩ := p; intro cur; exact ⟨rfl, ih _⟩

theorem sliceTable_lens (iter : Abs → List DP → List DP) :
    ∀ (ap : List (Abs × List DP)) (cur : ℕ),
      ((sliceTable iter ap cur).map (fun e => e.2.2.1)).sum = sumLens ap := by
  intro ap
  induction ap with
  | nil => intro cur; rfl
  | cons p rest ih =>
    obtain ⟨k, s⟩ := p; intro cur
    simp only [sliceTable, List.map_cons, List.sum_cons, sumLens_cons, ih]

/-- an entry of the slice table: where it comes from and where it lies -/
theorem sliceTable_lookup (iter : Abs → List DP → List DP) :
    ∀ (ap : List (Abs × List DP)) (cur : ℕ) (k : Abs) (s l : ℕ) (sym : AList DP ℕ),
      AList.lookup k (sliceTable iter ap cur) = some (s, l, sym) →
      cur ≤ s ∧ s + l ≤ cur + sumLens ap ∧
      ∃ set, AList.lookup k ap = some set ∧ l = set.length ∧ sym = enumDict (iter k set) := by
  intro ap
  induction ap with
  | nil => intro cur k s l sym h; simp [sliceTable, AList.lookup] at h
  | cons p rest ih =>
    obtain ⟨k0, s0⟩ := p
    intro cur k s l sym h
    simp only [sliceTable, AList.lookup] at h
    by_cases hk : k0 = k
    · subst hk
      simp only [if_true, Option.some.injEq, Prod.mk.injEq] at h
      obtain ⟨rfl, rfl, rfl⟩ := h
      refine ⟨le_refl _, by rw [sumLens_cons]; simp only; omega, s0, by simp [AList.lookup], rfl, rfl⟩
    · simp only [hk, if_false] at h
      obtain ⟨h1, h2, set, h3, h4, h5⟩ := ih _ k s l sym h
      refine ⟨by omega, by rw [sumLens_cons]; simp only at h2 ⊢; omega, set, by simp [AList.lookup, hk, h3], h4, h5⟩

theorem sliceTable_lookup_of (iter : Abs → List DP → List DP) :
    ∀ (ap : List (Abs × List DP)) (cur : ℕ) (k : Abs) (set : List DP),
      AList.lookup k ap = some set →
      ∃ s, AList.lookup k (sliceTable iter ap cur) = some (s, set.length, enumDict (iter k set)) := by
  intro ap
  induction ap with
  | nil => intro cur k set h; simp [AList.lookup] at h
  | cons p rest ih =>
    obtain ⟨k0, s0⟩ := p
    intro cur k set h
    simp only [AList.lookup] at h
    by_cases hk : k0 = k
    · subst hk
      simp only [if_true, Option.some.injEq] at h
      subst h
      exact ⟨cur, by simp [sliceTable, AList.lookup]⟩
    · simp only [hk, if_false] at h
      obtain ⟨s, hs⟩ := ih (cur + s0.length) k set h
      exact ⟨s, by simp [sliceTable, AList.lookup, hk, hs]⟩

/-- the ranges of two different keys are disjoint -/
theorem sliceTable_disjoint (iter : Abs → List DP → List DP) :
    ∀ (ap : List (Abs × List DP)) (cur : ℕ) (k1 k2 : Abs) (s1 l1 s2 l2 : ℕ) (sym1 sym2 : AList DP ℕ),
      AList.lookup k1 (sliceTable iter ap cur) = some (s1, l1, sym1) →
      AList.lookup k2 (sliceTable iter ap cur) = some (s2, l2, sym2) → k1 ≠ k2 →
      s1 + l1 ≤ s2 ∨ s2 + l2 ≤ s1 := by
  intro ap
  induction ap with
  | nil => intro cur k1 k2 s1 l1 s2 l2 sym1 sym2 h; simp [sliceTable, AList.lookup] at h
  | cons p rest ih =>
    obtain ⟨k0, s0⟩ := p
    intro cur k1 k2 s1 l1 s2 l2 sym1 sym2 h1 h2 hne
    simp only [sliceTable, AList.lookup] at h1 h2
    by_cases hk1 : k0 = k1
    · subst hk1
      have hk2 : ¬ k0 = k2 := hne
      simp only [if_true, Option.some.injEq, Prod.mk.injEq] at h1
      simp only [hk2, if_false] at h2
      obtain ⟨rfl, rfl, rfl⟩ := h1
      have := (sliceTable_lookup iter rest _ k2 s2 l2 sym2 h2).1
      left; exact this
    · simp only [hk1, if_false] at h1
      by_cases hk2 : k0 = k2
      · subst hk2
        simp only [if_true, Option.some.injEq, Prod.mk.injEq] at h2
        obtain ⟨rfl, rfl, rfl⟩ := h2
        have := (sliceTable_lookup iter rest _ k1 s1 l1 sym1 h1).1
        right; exact this
      · simp only [hk2, if_false] at h2
        exact ih _ k1 k2 s1 l1 s2 l2 sym1 sym2 h1 h2 hne

/-- the ranges cover `[cur, cur + Σ len)` -/
theorem sliceTable_cover (iter : Abs → List DP → List DP) :
    ∀ (ap : List (Abs × List DP)) (cur : ℕ), (AList.keys ap).Nodup → ∀ p, cur ≤ p → p < cur + sumLens ap →
      ∃ k s l sym, AList.lookup k (sliceTable iter ap cur) = some (s, l, sym) ∧ s ≤ p ∧ p < s + l := by
  intro ap
  induction ap with
  | nil => intro cur _ p h1 h2; simp at h2; omega
  | cons q rest ih =>
    obtain ⟨k0, s0⟩ := q
    intro cur hnd p h1 h2
    simp only [AList.keys, List.map_cons, List.nodup_cons] at hnd
    rw [sumLens_cons] at h2
    simp only at h2
    by_cases hp : p < cur + s0.length
    · exact ⟨k0, cur, s0.length, enumDict (iter k0 s0), by simp [sliceTable, AList.lookup], h1, hp⟩
    · obtain ⟨k, s, l, sym, h3, h4, h5⟩ := ih (cur + s0.length) hnd.2 p (by omega) (by omega)
      refine ⟨k, s, l, sym, ?_, h4, h5⟩
      have hk : k0 ≠ k := by
        intro h; subst h
        obtain ⟨_, _, set, hset, _, _⟩ := sliceTable_lookup iter rest _ k0 s l sym h3
        exact hnd.1 (mem_keys_of_lookup hset)
      simp [sliceTable, AList.lookup, hk, h3]


/-! ### the loops of the constructor -/

/-- generic loop lemma: an invariant, a pre-order in which the state only grows, and a property
    `Q · x` that the step for `x` establishes and that growth preserves -/
theorem foldl_inv_cover {σ β : Type} (f : σ → β → σ) (Inv : σ → Prop) (Le : σ → σ → Prop) (Q : σ → β → Prop)
    (hrefl : ∀ s, Le s s) (htrans : ∀ a b c, Le a b → Le b c → Le a c)
    (step : ∀ s x, Inv s → Inv (f s x) ∧ Le s (f s x) ∧ Q (f s x) x)
    (mono : ∀ s s' x, Le s s' → Q s x → Q s' x) :
    ∀ (l : List β) (s : σ), Inv s → Inv (l.foldl f s) ∧ Le s (l.foldl f s) ∧ ∀ x ∈ l, Q (l.foldl f s) x := by
  intro l
  induction l with
  | nil => intro s hs; exact ⟨hs, hrefl s, by simp⟩
  | cons y r ih =>
    intro s hs
    obtain ⟨a1, a2, a3⟩ := step s y hs
    obtain ⟨b1, b2, b3⟩ := ih (f s y) a1
    simp only [List.foldl_cons]
    refine ⟨b1, htrans _ _ _ a2 b2, ?_⟩
    intro x hx
    rcases List.mem_cons.mp hx with h | h
    · subst h; exact mono _ _ _ b2 a3
    · exact b3 x h

/-- `all_pairs` only grows -/
def apLe (ap ap' : AList Abs (List DP)) : Prop :=
  ∀ k s, AList.lookup k ap = some s → ∃ s', AList.lookup k ap' = some s' ∧ ∀ P ∈ s, P ∈ s'

theorem apLe_refl (ap : AList Abs (List DP)) : apLe ap ap := fun k s h => ⟨s, h, fun _ h => h⟩
theorem apLe_trans (a b c : AList Abs (List DP)) (h1 : apLe a b) (h2 : apLe b c) : apLe a c := by
  intro k s h
  obtain ⟨s', h', hs'⟩ := h1 k s h
  obtain ⟨s'', h'', hs''⟩ := h2 k s' h'
  exact ⟨s'', h'', fun P hP => hs'' P (hs' P hP)⟩

/-- distinct keys; every set is duplicate free and holds primitives only -/
def APInv (ap : AList Abs (List DP)) : Prop :=
  (AList.keys ap).Nodup ∧ ∀ e ∈ ap, e.2.Nodup ∧ ∀ P ∈ e.2, P.kind = .prim

/-- `if not isinstance(P, (Variable, Constant)): all_pairs[key].add(P)` -/
def stepP (a : Abs) (ap : AList Abs (List DP)) (P : DP) : AList Abs (List DP) :=
  if P.kind = .prim then ap.insert a (setAdd P ((ap.lookup a).getD [])) else ap

theorem stepP_spec (a : Abs) (ap : AList Abs (List DP)) (P : DP)
    (h : APInv ap ∧ ∃ s0, AList.lookup a ap = some s0) :
    (APInv (stepP a ap P) ∧ ∃ s0, AList.lookup a (stepP a ap P) = some s0) ∧ apLe ap (stepP a ap P)
      ∧ (P.kind = .prim → ∃ s, AList.lookup a (stepP a ap P) = some s ∧ P ∈ s) := by
  obtain ⟨⟨hk, hv⟩, s0, hs0⟩ := h
  unfold stepP
  by_cases hP : P.kind = .prim
  · simp only [hP, if_true, hs0, Option.getD_some]
    refine ⟨⟨⟨keys_insert_nodup hk, ?_⟩, _, AList.lookup_insert_self _ _ _⟩, ?_, ?_⟩
    · intro e he
      rcases mem_insert he with h' | h'
      · rw [h']
        have h0 := hv (a, s0) (AList.lookup_some_mem hs0)
        refine ⟨setAdd_nodup _ _ h0.1, ?_⟩
        intro Q hQ
        rcases (mem_setAdd _ _ _).mp hQ with h'' | h''
        · rw [h'']; exact hP
        · exact h0.2 Q h''
      · exact hv e h'
    · intro k s hks
      by_cases hka : k = a
      · subst hka
        rw [hs0] at hks; cases hks
        exact ⟨_, AList.lookup_insert_self _ _ _, fun Q hQ => (mem_setAdd _ _ _).mpr (Or.inr hQ)⟩
      · exact ⟨s, by rw [AList.lookup_insert_ne _ _ hka]; exact hks, fun _ h => h⟩
    · intro _
      exact ⟨_, AList.lookup_insert_self _ _ _, (mem_setAdd _ _ _).mpr (Or.inl rfl)⟩
  · rw [if_neg hP]
    exact ⟨⟨⟨hk, hv⟩, s0, hs0⟩, apLe_refl _, fun h => absurd h hP⟩

structure PreInv (L : Layer) : Prop where
  ap : APInv L.allPairs
  starts_nodup : L.allStartsAbs.Nodup

/-- the layer only grows -/
def LLe (abstraction : NT → Abs) (L L' : Layer) : Prop :=
  apLe L.allPairs L'.allPairs
  ∧ (∀ S, AList.lookup S L.real2abs = some (abstraction S) → AList.lookup S L'.real2abs = some (abstraction S))
  ∧ (∀ a ∈ L.allStartsAbs, a ∈ L'.allStartsAbs)

theorem LLe_refl (abstraction : NT → Abs) (L : Layer) : LLe abstraction L L :=
  ⟨apLe_refl _, fun _ h => h, fun _ h => h⟩
theorem LLe_trans (abstraction : NT → Abs) (a b c : Layer) (h1 : LLe abstraction a b) (h2 : LLe abstraction b c) :
    LLe abstraction a c :=
  ⟨apLe_trans _ _ _ h1.1 h2.1, fun S h => h2.2.1 S (h1.2.1 S h), fun x h => h2.2.2 x (h1.2.2 x h)⟩

/-- the rule table `r` of the non-terminal `S` is covered by the layer: `real2abs[S]` is the
    abstraction of `S`, which is a key of `all_pairs` whose set holds every primitive of `r` -/
def Covers {ρ : Type} (abstraction : NT → Abs) (L : Layer) (S : NT) (r : AList DP ρ) : Prop :=
  AList.lookup S L.real2abs = some (abstraction S) ∧
  ∃ s, AList.lookup (abstraction S) L.allPairs = some s ∧ ∀ P ∈ AList.keys r, P.kind = .prim → P ∈ s

theorem Covers_mono {ρ : Type} (abstraction : NT → Abs) (L L' : Layer) (S : NT) (r : AList DP ρ)
    (hle : LLe abstraction L L') (h : Covers abstraction L S r) : Covers abstraction L' S r := by
  obtain ⟨h1, s, h2, h3⟩ := h
  obtain ⟨s', h2', h3'⟩ := hle.1 _ s h2
  exact ⟨hle.2.1 S h1, s', h2', fun P hP hk => h3' P (h3 P hP hk)⟩

theorem initNT_spec {ρ : Type} (abstraction : NT → Abs) (L : Layer) (S : NT) (r : AList DP ρ)
    (h : PreInv L) :
    PreInv (initNT abstraction L S r) ∧ LLe abstraction L (initNT abstraction L S r)
      ∧ Covers abstraction (initNT abstraction L S r) S r := by
  set a := abstraction S with ha
  -- first step: `if not key in all_pairs: all_pairs[key] = set()`
  set ap0 := (if L.allPairs.contains a then L.allPairs else L.allPairs.insert a []) with hap0
  have h0 : (APInv ap0 ∧ ∃ s0, AList.lookup a ap0 = some s0) ∧ apLe L.allPairs ap0 := by
    by_cases hc : L.allPairs.contains a = true
    · simp only [hap0, hc, if_true]
      exact ⟨⟨h.ap, AList.contains_iff_lookup.mp hc⟩, apLe_refl _⟩
    · simp only [hap0, hc, Bool.false_eq_true, if_false]
      have hnone : AList.lookup a L.allPairs = none := by
        cases hl : AList.lookup a L.allPairs with
        | none => rfl
        | some v => exact absurd (AList.contains_iff_lookup.mpr ⟨v, hl⟩) hc
      refine ⟨⟨⟨keys_insert_nodup h.ap.1, ?_⟩, _, AList.lookup_insert_self _ _ _⟩, ?_⟩
      · intro e he
        rcases mem_insert he with h' | h'
        · rw [h']; simp
        · exact h.ap.2 e h'
      · intro k s hks
        have hka : k ≠ a := by intro h'; rw [h', hnone] at hks; cases hks
        exact ⟨s, by rw [AList.lookup_insert_ne _ _ hka]; exact hks, fun _ h => h⟩
  have hfold := foldl_inv_cover (stepP a) (fun ap => APInv ap ∧ ∃ s0, AList.lookup a ap = some s0) apLe
    (fun ap P => P.kind = .prim → ∃ s, AList.lookup a ap = some s ∧ P ∈ s)
    apLe_refl apLe_trans (fun ap P hinv => stepP_spec a ap P hinv)
    (fun ap ap' P hle hq hk => by
      obtain ⟨s, h1, h2⟩ := hq hk
      obtain ⟨s', h1', h2'⟩ := hle a s h1
      exact ⟨s', h1', h2' P h2⟩)
    r.keys ap0 h0.1
  obtain ⟨⟨f1, s1, hs1⟩, f2, f3⟩ := hfold
  have hap : (initNT abstraction L S r).allPairs = r.keys.foldl (stepP a) ap0 := rfl
  have hr2a : (initNT abstraction L S r).real2abs = L.real2abs.insert S a := rfl
  have hst : (initNT abstraction L S r).allStartsAbs = L.allStartsAbs := rfl
  refine ⟨⟨by rw [hap]; exact f1, by rw [hst]; exact h.starts_nodup⟩, ⟨?_, ?_, ?_⟩, ?_, ?_⟩
  · rw [hap]; exact apLe_trans _ _ _ h0.2 f2
  · intro S' hS'
    rw [hr2a, AList.lookup_insert]
    by_cases hSS : S' = S
    · subst hSS; simp [ha]
    · simp only [hSS, if_false]; exact hS'
  · rw [hst]; exact fun _ h => h
  · rw [hr2a]; exact AList.lookup_insert_self _ _ _
  · rw [hap]
    refine ⟨s1, hs1, ?_⟩
    intro P hP hk
    obtain ⟨s, h1, h2⟩ := f3 P hP hk
    rw [hs1] at h1; cases h1; exact h2

theorem initRules_spec {ρ : Type} (abstraction : NT → Abs) (L : Layer) (rules : AList NT (AList DP ρ))
    (h : PreInv L) :
    PreInv (initRules abstraction L rules) ∧ LLe abstraction L (initRules abstraction L rules)
      ∧ ∀ e ∈ rules, Covers abstraction (initRules abstraction L rules) e.1 e.2 := by
  have := foldl_inv_cover (fun L (e : NT × AList DP ρ) => initNT abstraction L e.1 e.2) PreInv (LLe abstraction)
    (fun L e => Covers abstraction L e.1 e.2) (LLe_refl abstraction) (LLe_trans abstraction)
    (fun L e hL => initNT_spec abstraction L e.1 e.2 hL)
    (fun L L' e hle hq => Covers_mono abstraction L L' e.1 e.2 hle hq) rules L h
  exact this

theorem initStarts_spec (abstraction : NT → Abs) (L : Layer) (starts : List NT) (h : PreInv L) :
    PreInv (initStarts abstraction L starts) ∧ LLe abstraction L (initStarts abstraction L starts)
      ∧ ∀ S ∈ starts, abstraction S ∈ (initStarts abstraction L starts).allStartsAbs := by
  have := foldl_inv_cover (fun (l : List Abs) (S : NT) => setAdd (abstraction S) l) List.Nodup
    (fun l l' => ∀ a ∈ l, a ∈ l') (fun l S => abstraction S ∈ l)
    (fun _ _ h => h) (fun a b c h1 h2 x hx => h2 x (h1 x hx))
    (fun l S hl => ⟨setAdd_nodup _ _ hl, fun x hx => (mem_setAdd _ _ _).mpr (Or.inr hx),
      (mem_setAdd _ _ _).mpr (Or.inl rfl)⟩)
    (fun l l' S hle hq => hle _ hq) starts L.allStartsAbs h.starts_nodup
  obtain ⟨a1, a2, a3⟩ := this
  exact ⟨⟨h.ap, a1⟩, ⟨apLe_refl _, fun _ h => h, a2⟩, a3⟩

/-- the state of the constructor before `abs2index` is computed -/
def preLayerU {ρ : Type} (abstraction : NT → Abs) (grammars : List (AList NT (AList DP ρ) × List NT)) : Layer :=
  grammars.foldl (fun L g => initStarts abstraction (initRules abstraction L g.1) g.2) {}

theorem preLayerU_spec {ρ : Type} (abstraction : NT → Abs) (grammars : List (AList NT (AList DP ρ) × List NT)) :
    PreInv (preLayerU abstraction grammars)
      ∧ ∀ g ∈ grammars, (∀ e ∈ g.1, Covers abstraction (preLayerU abstraction grammars) e.1 e.2)
          ∧ ∀ S ∈ g.2, abstraction S ∈ (preLayerU abstraction grammars).allStartsAbs := by
  have := foldl_inv_cover
    (fun L (g : AList NT (AList DP ρ) × List NT) => initStarts abstraction (initRules abstraction L g.1) g.2)
    PreInv (LLe abstraction)
    (fun L g => (∀ e ∈ g.1, Covers abstraction L e.1 e.2) ∧ ∀ S ∈ g.2, abstraction S ∈ L.allStartsAbs)
    (LLe_refl abstraction) (LLe_trans abstraction)
    (fun L g hL => by
      obtain ⟨a1, a2, a3⟩ := initRules_spec abstraction L g.1 hL
      obtain ⟨b1, b2, b3⟩ := initStarts_spec abstraction _ g.2 a1
      exact ⟨b1, LLe_trans abstraction _ _ _ a2 b2,
        fun e he => Covers_mono abstraction _ _ _ _ b2 (a3 e he), b3⟩)
    (fun L L' g hle hq => ⟨fun e he => Covers_mono abstraction _ _ _ _ hle (hq.1 e he),
      fun S hS => hle.2.2 _ (hq.2 S hS)⟩)
    grammars {} ⟨⟨by simp [AList.keys], by intro e he; simp at he⟩, by simp⟩
  exact ⟨this.1, this.2.2⟩

theorem mkLayerU_eq {ρ : Type} (abstraction : NT → Abs) (iter : Abs → List DP → List DP)
    (grammars : List (AList NT (AList DP ρ) × List NT)) :
    mkLayerU abstraction iter grammars = finishLayer iter (preLayerU abstraction grammars) := rfl

/-- the deterministic constructor is the unambiguous one without start symbols -/
theorem mkLayerDet_eq {ρ : Type} (abstraction : NT → Abs) (iter : Abs → List DP → List DP)
    (grammars : List (AList NT (AList DP ρ))) :
    mkLayerDet abstraction iter grammars = mkLayerU abstraction iter (grammars.map (fun g => (g, []))) := by
  unfold mkLayerDet mkLayerU
  rw [List.foldl_map]
  rfl

/-- `abs2index` of a constructed layer is the table of consecutive slices over `all_pairs` -/
theorem abs2index_eq {ρ : Type} (abstraction : NT → Abs) (iter : Abs → List DP → List DP)
    (grammars : List (AList NT (AList DP ρ) × List NT)) :
    (mkLayerU abstraction iter grammars).abs2index
      = sliceTable iter (preLayerU abstraction grammars).allPairs 0 := by
  rw [mkLayerU_eq]
  show mkIndexGo iter (preLayerU abstraction grammars).allPairs 0 [] = _
  rw [mkIndexGo_eq iter _ 0 [] (preLayerU_spec abstraction grammars).1.ap.1 (by intro k _; rfl)]
  simp


/-! ### the slice table of a constructed layer -/
section Bij
variable {ρ : Type} (abstraction : NT → Abs) (iter : Abs → List DP → List DP)
  (grammars : List (AList NT (AList DP ρ) × List NT))

theorem mkLayerU_fields :
    (mkLayerU abstraction iter grammars).real2abs = (preLayerU abstraction grammars).real2abs
    ∧ (mkLayerU abstraction iter grammars).allPairs = (preLayerU abstraction grammars).allPairs
    ∧ (mkLayerU abstraction iter grammars).allStartsAbs = (preLayerU abstraction grammars).allStartsAbs
    ∧ (mkLayerU abstraction iter grammars).outputSize
        = sumLens (preLayerU abstraction grammars).allPairs + (preLayerU abstraction grammars).allStartsAbs.length :=
  ⟨rfl, rfl, rfl, rfl⟩

/-- one entry `abs2index[k] = (s, l, sym)` of a constructed layer (`iter k set` is a permutation of the set) -/
theorem abs2index_entry (hiter : ∀ k s, (iter k s).Perm s) (k : Abs) (s l : ℕ) (sym : AList DP ℕ)
    (h : AList.lookup k (mkLayerU abstraction iter grammars).abs2index = some (s, l, sym)) :
    ∃ set, AList.lookup k (mkLayerU abstraction iter grammars).allPairs = some set ∧ set.Nodup
      ∧ l = set.length ∧ (iter k set).length = l
      ∧ s + l ≤ sumLens (mkLayerU abstraction iter grammars).allPairs
      ∧ (∀ P i, AList.lookup P sym = some i ↔ (iter k set)[i]? = some P)
      ∧ (∀ P, P ∈ set → P.kind = .prim) := by
  rw [abs2index_eq] at h
  obtain ⟨_, h2, set, h3, h4, h5⟩ := sliceTable_lookup iter _ 0 k s l sym h
  have hinv := (preLayerU_spec abstraction grammars).1.ap
  have hset := hinv.2 (k, set) (AList.lookup_some_mem h3)
  have hnd : (iter k set).Nodup := (hiter k set).nodup_iff.mpr hset.1
  refine ⟨set, h3, hset.1, h4, by rw [h4]; exact (hiter k set).length_eq,
    by have h2' : s + l ≤ sumLens (preLayerU abstraction grammars).allPairs := by simpa using h2
       exact h2', ?_, hset.2⟩
  intro P i
  rw [h5]; exact enumDict_lookup _ hnd P i

/-- distinct (abstraction key, primitive) pairs are read at distinct tensor positions -/
theorem index_inj (hiter : ∀ k s, (iter k s).Perm s) (k1 k2 : Abs) (s1 l1 s2 l2 : ℕ) (sym1 sym2 : AList DP ℕ)
    (P1 P2 : DP) (i1 i2 : ℕ)
    (h1 : AList.lookup k1 (mkLayerU abstraction iter grammars).abs2index = some (s1, l1, sym1))
    (h2 : AList.lookup k2 (mkLayerU abstraction iter grammars).abs2index = some (s2, l2, sym2))
    (hp1 : AList.lookup P1 sym1 = some i1) (hp2 : AList.lookup P2 sym2 = some i2)
    (heq : s1 + i1 = s2 + i2) : k1 = k2 ∧ P1 = P2 := by
  obtain ⟨set1, _, _, _, a4, _, a6, _⟩ := abs2index_entry abstraction iter grammars hiter k1 s1 l1 sym1 h1
  obtain ⟨set2, _, _, _, b4, _, b6, _⟩ := abs2index_entry abstraction iter grammars hiter k2 s2 l2 sym2 h2
  have hi1 : i1 < l1 := by
    have := (a6 P1 i1).mp hp1
    rw [← a4]; exact (List.getElem?_eq_some_iff.mp this).1
  have hi2 : i2 < l2 := by
    have := (b6 P2 i2).mp hp2
    rw [← b4]; exact (List.getElem?_eq_some_iff.mp this).1
  by_cases hk : k1 = k2
  · subst hk
    rw [h1] at h2
    simp only [Option.some.injEq, Prod.mk.injEq] at h2
    obtain ⟨rfl, rfl, rfl⟩ := h2
    refine ⟨rfl, ?_⟩
    have hii : i1 = i2 := by omega
    subst hii
    have e1 := (a6 P1 i1).mp hp1
    have e2 := (a6 P2 i1).mp hp2
    rw [e1] at e2; exact Option.some.inj e2
  · exfalso
    rw [abs2index_eq] at h1 h2
    rcases sliceTable_disjoint iter _ 0 k1 k2 s1 l1 s2 l2 sym1 sym2 h1 h2 hk with h | h <;> omega

/-- every position below `Σ len(all_pairs[k])` is the position of exactly one pair (existence here,
    uniqueness is `index_inj`) -/
theorem index_cover (hiter : ∀ k s, (iter k s).Perm s) (p : ℕ)
    (hp : p < sumLens (mkLayerU abstraction iter grammars).allPairs) :
    ∃ k s l sym P i, AList.lookup k (mkLayerU abstraction iter grammars).abs2index = some (s, l, sym)
      ∧ AList.lookup P sym = some i ∧ p = s + i := by
  have hinv := (preLayerU_spec abstraction grammars).1.ap
  obtain ⟨k, s, l, sym, h1, h2, h3⟩ := sliceTable_cover iter (preLayerU abstraction grammars).allPairs 0 hinv.1 p
    (Nat.zero_le _) (by rw [Nat.zero_add]; exact hp)
  rw [← abs2index_eq abstraction iter grammars] at h1
  obtain ⟨set, _, _, _, a4, _, a6, _⟩ := abs2index_entry abstraction iter grammars hiter k s l sym h1
  have hi : p - s < (iter k set).length := by omega
  refine ⟨k, s, l, sym, (iter k set)[p - s], p - s, h1, (a6 _ _).mpr (List.getElem?_eq_getElem hi), by omega⟩

/-- every rule table of every grammar the layer was built from: the non-terminal has a slice, and
    every primitive rule has an index inside it (so `posOf` is defined) -/
theorem index_rules (hiter : ∀ k s, (iter k s).Perm s) (g : AList NT (AList DP ρ) × List NT) (hg : g ∈ grammars)
    (e : NT × AList DP ρ) (he : e ∈ g.1) :
    ∃ s l sym, AList.lookup e.1 (mkLayerU abstraction iter grammars).real2abs = some (abstraction e.1)
      ∧ AList.lookup (abstraction e.1) (mkLayerU abstraction iter grammars).abs2index = some (s, l, sym)
      ∧ s + l ≤ sumLens (mkLayerU abstraction iter grammars).allPairs
      ∧ ∀ P ∈ AList.keys e.2, P.kind = .prim →
          ∃ i, AList.lookup P sym = some i ∧ i < l
            ∧ posOf (mkLayerU abstraction iter grammars) e.1 P = some (s + i) := by
  obtain ⟨c1, set, c2, c3⟩ := ((preLayerU_spec abstraction grammars).2 g hg).1 e he
  obtain ⟨s, hs⟩ := sliceTable_lookup_of iter _ 0 _ set c2
  rw [← abs2index_eq abstraction iter grammars] at hs
  obtain ⟨set', a1, _, a3, a4, a5, a6, _⟩ := abs2index_entry abstraction iter grammars hiter _ _ _ _ hs
  have hss : set' = set := by
    have : AList.lookup (abstraction e.1) (preLayerU abstraction grammars).allPairs = some set' := a1
    rw [c2] at this; exact (Option.some.inj this).symm
  subst hss
  refine ⟨s, set'.length, _, c1, hs, a5, ?_⟩
  intro P hP hk
  have hmem : P ∈ iter (abstraction e.1) set' := (hiter _ _).mem_iff.mpr (c3 P hP hk)
  obtain ⟨i, hi, hget⟩ := List.getElem_of_mem hmem
  have hl : AList.lookup P (enumDict (iter (abstraction e.1) set')) = some i :=
    (a6 P i).mpr (by rw [List.getElem?_eq_getElem hi, hget])
  refine ⟨i, hl, by rw [← a4]; exact hi, ?_⟩
  have c1' : AList.lookup e.1 (mkLayerU abstraction iter grammars).real2abs = some (abstraction e.1) := c1
  simp [posOf, c1', hs, hl]

/-- an index lies inside its slice, the slice inside the part of the tensor before the start
    tags, and only primitives are indexed -/
theorem index_range (hiter : ∀ k s, (iter k s).Perm s) (k : Abs) (s l : ℕ) (sym : AList DP ℕ) (P : DP) (i : ℕ)
    (h : AList.lookup k (mkLayerU abstraction iter grammars).abs2index = some (s, l, sym))
    (hp : AList.lookup P sym = some i) :
    i < l ∧ s + l + (mkLayerU abstraction iter grammars).allStartsAbs.length
              ≤ (mkLayerU abstraction iter grammars).outputSize ∧ P.kind = .prim := by
  obtain ⟨set, _, _, _, a4, a5, a6, a7⟩ := abs2index_entry abstraction iter grammars hiter k s l sym h
  have hget := (a6 P i).mp hp
  refine ⟨by rw [← a4]; exact (List.getElem?_eq_some_iff.mp hget).1, ?_, ?_⟩
  · have : (mkLayerU abstraction iter grammars).outputSize
        = sumLens (mkLayerU abstraction iter grammars).allPairs
          + (mkLayerU abstraction iter grammars).allStartsAbs.length := rfl
    omega
  · exact a7 P ((hiter k set).mem_iff.mp (List.mem_of_getElem? hget))

/-- the start part of the tensor: one entry per distinct abstraction of a start symbol -/
theorem starts_spec :
    (mkLayerU abstraction iter grammars).allStartsAbs.Nodup
    ∧ (∀ g ∈ grammars, ∀ S ∈ g.2, abstraction S ∈ (mkLayerU abstraction iter grammars).allStartsAbs)
    ∧ (mkLayerU abstraction iter grammars).outputSize
        = sumLens (mkLayerU abstraction iter grammars).allPairs
          + (mkLayerU abstraction iter grammars).allStartsAbs.length :=
  ⟨(preLayerU_spec abstraction grammars).1.starts_nodup,
   fun g hg => ((preLayerU_spec abstraction grammars).2 g hg).2, rfl⟩

end Bij

end PS.Predictor
