/- Bee search, STRICT progress of the rounds (rules with arguments cost > 0): inside the round of cost c an element of
   cost c is only in the queue of a non-terminal still to be handled in this round; between rounds every queued
   element costs strictly more than every entry of the cost list.  Hence the costs of the rounds strictly increase. -/
import PS.Proofs.Enum.BeeFullRun
namespace PS.Bee
open PS PS.G PS.Heapq

variable {S : Type} [DecidableEq S]
set_option linter.unusedSectionVars false
set_option linter.unusedSimpArgs false

/-! ### the keys of the queue table stay distinct -/

theorem keys_insert_nodup {κ ν : Type} [DecidableEq κ] (k : κ) (v : ν) : ∀ (d : AList κ ν), (AList.keys d).Nodup →
    (AList.keys (AList.insert k v d)).Nodup
  | [], _ => by simp [AList.insert, AList.keys]
  | (k', v') :: r, h => by
    simp only [AList.keys, List.map_cons, List.nodup_cons] at h
    by_cases hk : k' = k
    · subst hk; simp only [AList.insert, if_true, AList.keys, List.map_cons, List.nodup_cons]; exact h
    · simp only [AList.insert, hk, if_false, AList.keys, List.map_cons, List.nodup_cons]
      refine ⟨?_, keys_insert_nodup k v r h.2⟩
      intro hm
      rw [List.mem_map] at hm
      obtain ⟨x, hx, hx1⟩ := hm
      rcases mem_insert hx with hx | hx
      · rw [hx] at hx1; exact hk hx1.symm
      · exact h.1 (List.mem_map.mpr ⟨x, hx, hx1⟩)

def KN (s : St S) : Prop := (AList.keys s.queued).Nodup

theorem addCombination_kn (E : Env S) (s s' : St S) (nt : NT S Unit) (P : Sym) (idx : List Nat) (chk : Option Nat)
    (h : addCombination E s nt P idx chk = some s') (hk : KN s) : KN s' := by
  obtain ⟨_, hs⟩ := addCombination_spec E s s' nt P idx chk h
  unfold KN at hk ⊢
  rcases hs with ⟨_, hqe, _⟩ | ⟨_, _, c, _, hqe⟩
  · rw [hqe]; exact hk
  · rw [hqe]; exact keys_insert_nodup _ _ _ hk

theorem triggerElems_kn (E : Env S) (nt : NT S Unit) : ∀ (elems : List Delayed) (s s' : St S),
    triggerElems E nt elems s = some s' → KN s → KN s' := by
  intro elems
  induction elems with
  | nil => intro s s' h hk; simp only [triggerElems, Option.some.injEq] at h; subst h; exact hk
  | cons d rest ih =>
    intro s s' h hk
    obtain ⟨idx, P, chk⟩ := d
    simp only [triggerElems] at h
    cases ha : addCombination E s nt P idx chk with
    | none => simp [ha] at h
    | some s1 => simp only [ha] at h; exact ih s1 s' h (addCombination_kn E s s1 nt P idx chk ha hk)

theorem triggerAll_kn (E : Env S) : ∀ (tab : AList (NT S Unit) (List Delayed)) (s s' : St S),
    triggerAll E tab s = some s' → KN s → KN s' := by
  intro tab
  induction tab with
  | nil => intro s s' h hk; simp only [triggerAll, Option.some.injEq] at h; subst h; exact hk
  | cons e rest ih =>
    intro s s' h hk
    obtain ⟨nt, elems⟩ := e
    simp only [triggerAll] at h
    cases ha : triggerElems E nt elems s with
    | none => simp [ha] at h
    | some s1 => simp only [ha] at h; exact ih s1 s' h (triggerElems_kn E nt elems s s1 ha hk)

theorem addCost_kn (E : Env S) (s s' : St S) (cost : Int) (ci : Nat) (h : addCost E s cost = some (s', ci)) (hk : KN s) :
    KN s' := by
  unfold addCost at h
  by_cases hc : s.costList ≠ [] ∧ s.costList.getLast? = some cost
  · rw [if_pos hc] at h
    simp only [Option.some.injEq, Prod.mk.injEq] at h; obtain ⟨rfl, _⟩ := h; exact hk
  · rw [if_neg hc] at h
    cases ht : triggerDelayed E { s with costList := s.costList ++ [cost] } with
    | none => simp [ht] at h
    | some s1 =>
      simp only [ht, Option.some.injEq, Prod.mk.injEq] at h; obtain ⟨rfl, _⟩ := h
      exact triggerAll_kn E _ _ _ ht hk

theorem succLoop_kn (E : Env S) (nt : NT S Unit) (P : Sym) (combo : List Nat) :
    ∀ (k i : Nat) (s s' : St S) (maxi maxi' : Nat), succLoop E nt P combo i k s maxi = some (s', maxi') → KN s → KN s' := by
  intro k
  induction k with
  | zero =>
    intro i s s' maxi maxi' h hk
    simp only [succLoop, Option.some.injEq, Prod.mk.injEq] at h; obtain ⟨rfl, _⟩ := h; exact hk
  | succ k ih =>
    intro i s s' maxi maxi' h hk
    simp only [succLoop] at h
    cases hv : combo[i]? with
    | none => simp [hv] at h
    | some v =>
      simp only [hv] at h
      cases ha : addCombination E s nt P (combo.set i (v + 1)) (some i) with
      | none => simp [ha] at h
      | some s1 =>
        simp only [ha] at h
        have h1 := addCombination_kn E s s1 nt P _ _ ha hk
        by_cases hb : v + 1 > 1
        · simp only [hb, if_true, Option.some.injEq, Prod.mk.injEq] at h; obtain ⟨rfl, _⟩ := h; exact h1
        · simp only [hb, if_false] at h; exact ih _ _ _ _ _ h h1

/-! ### `_next_cheapest_` collects every non-terminal whose root has the least cost -/

theorem nextCheapestLoop_collect : ∀ (tab : AList (NT S Unit) (List HeapElem)) (cont : List (NT S Unit)) (ch : Option Int)
    (nts : List (NT S Unit)) (c : Int), nextCheapestLoop tab cont ch = (nts, some c) →
    (ch = some c → ∀ nt ∈ cont, nt ∈ nts) ∧
    (∀ nt top tl, (nt, top :: tl) ∈ tab → top.cost = c → nt ∈ nts) := by
  intro tab
  induction tab with
  | nil =>
    intro cont ch nts c h
    simp only [nextCheapestLoop, Prod.mk.injEq] at h
    obtain ⟨rfl, rfl⟩ := h
    exact ⟨fun _ nt hnt => hnt, fun _ _ _ hm => (by cases hm)⟩
  | cons e rest ih =>
    intro cont ch nts c h
    obtain ⟨nt0, heap⟩ := e
    have hspec := nextCheapestLoop_spec _ _ _ _ _ h
    cases heap with
    | nil =>
      simp only [nextCheapestLoop] at h
      obtain ⟨h1, h2⟩ := ih _ _ _ _ h
      refine ⟨h1, ?_⟩
      intro nt top tl hm ht
      rcases List.mem_cons.mp hm with hm | hm
      · cases hm
      · exact h2 nt top tl hm ht
    | cons item tl0 =>
      simp only [nextCheapestLoop] at h
      cases ch with
      | none =>
        simp only at h
        obtain ⟨h1, h2⟩ := ih _ _ _ _ h
        refine ⟨fun hc => (by cases hc), ?_⟩
        intro nt top tl hm ht
        rcases List.mem_cons.mp hm with hm | hm
        · cases hm; exact h1 (by rw [ht]) nt0 (by simp)
        · exact h2 nt top tl hm ht
      | some x =>
        simp only at h
        by_cases hle : item.cost ≤ x
        · rw [if_pos hle] at h
          by_cases hlt : item.cost < x
          · rw [if_pos hlt] at h
            obtain ⟨h1, h2⟩ := ih _ _ _ _ h
            have hs := (nextCheapestLoop_spec _ _ _ _ _ h).1 _ rfl
            refine ⟨?_, ?_⟩
            · intro hc; cases hc; omega
            · intro nt top tl hm ht
              rcases List.mem_cons.mp hm with hm | hm
              · cases hm; exact h1 (by rw [ht]) nt0 (by simp)
              · exact h2 nt top tl hm ht
          · rw [if_neg hlt] at h
            obtain ⟨h1, h2⟩ := ih _ _ _ _ h
            refine ⟨fun hc nt hnt => h1 hc nt (List.mem_append_left _ hnt), ?_⟩
            intro nt top tl hm ht
            rcases List.mem_cons.mp hm with hm | hm
            · cases hm
              have : x = c := by omega
              subst this
              exact h1 rfl nt0 (by simp)
            · exact h2 nt top tl hm ht
        · rw [if_neg hle] at h
          obtain ⟨h1, h2⟩ := ih _ _ _ _ h
          have hs := (nextCheapestLoop_spec _ _ _ _ _ h).1 _ rfl
          refine ⟨h1, ?_⟩
          intro nt top tl hm ht
          rcases List.mem_cons.mp hm with hm | hm
          · cases hm; omega
          · exact h2 nt top tl hm ht

/-! ### strict growth of costs -/

theorem realCostLoop_strict (cl : List Int) (idx idx' : List Nat)
    (hm : ∀ (a b : Nat) (x y : Int), a ≤ b → cl[a]? = some x → cl[b]? = some y → x ≤ y)
    (hms : ∀ (a b : Nat) (x y : Int), a < b → cl[a]? = some x → cl[b]? = some y → x < y)
    (hp : ∀ (j a b : Nat), idx[j]? = some a → idx'[j]? = some b → a ≤ b) :
    ∀ (k i : Nat) (out out' c c' : Int), out ≤ out' →
      (∃ (p a b : Nat), i ≤ p ∧ p < i + k ∧ idx[p]? = some a ∧ idx'[p]? = some b ∧ a < b) →
      realCostLoop cl idx i k out = some c → realCostLoop cl idx' i k out' = some c' → c < c' := by
  intro k
  induction k with
  | zero => intro i out out' c c' _ ⟨p, _, _, h1, h2, _⟩; omega
  | succ k ih =>
    intro i out out' c c' ho hex h h'
    simp only [realCostLoop] at h h'
    cases hi : idx[i]? with
    | none => simp [hi] at h
    | some a =>
      cases hi' : idx'[i]? with
      | none => simp [hi'] at h'
      | some b =>
        simp only [hi] at h
        simp only [hi'] at h'
        cases hx : cl[a]? with
        | none => simp [hx] at h
        | some x =>
          cases hy : cl[b]? with
          | none => simp [hy] at h'
          | some y =>
            simp only [hx] at h
            simp only [hy] at h'
            obtain ⟨p, a', b', hp1, hp2, hpa, hpb, hab⟩ := hex
            by_cases hpi : p = i
            · subst hpi
              rw [hi] at hpa; cases hpa
              rw [hi'] at hpb; cases hpb
              have hxy := hms a b x y hab hx hy
              have := realCostLoop_mono cl idx idx' hm hp k (p + 1) (out + x) (out' + y) c c' (by omega) h h'
              -- one more unit: redo with a shifted accumulator
              have h2 : realCostLoop cl idx (p + 1) k (out + x) = some c := h
              have key : ∀ (k i : Nat) (o d r : Int), realCostLoop cl idx i k o = some r → realCostLoop cl idx i k (o + d) = some (r + d) := by
                intro k
                induction k with
                | zero => intro i o d r hh; simp only [realCostLoop, Option.some.injEq] at hh ⊢; omega
                | succ k ihk =>
                  intro i o d r hh
                  simp only [realCostLoop] at hh ⊢
                  cases h1 : idx[i]? with
                  | none => simp [h1] at hh
                  | some j =>
                    simp only [h1] at hh ⊢
                    cases h3 : cl[j]? with
                    | none => simp [h3] at hh
                    | some z =>
                      simp only [h3] at hh ⊢
                      have := ihk (i + 1) (o + z) d r hh
                      rw [show o + d + z = o + z + d by omega]; exact this
              have h3 := key k (p + 1) (out + x) 1 c h2
              have := realCostLoop_mono cl idx idx' hm hp k (p + 1) (out + x + 1) (out' + y) (c + 1) c' (by omega) h3 h'
              omega
            · have hxy := hm a b x y (hp i a b hi hi') hx hy
              exact ih (i + 1) _ _ _ _ (by omega) ⟨p, a', b', by omega, by omega, hpa, hpb, hab⟩ h h'

theorem pairwise_strict (cl : List Int) (h : cl.Pairwise (· < ·)) :
    ∀ (a b : Nat) (x y : Int), a < b → cl[a]? = some x → cl[b]? = some y → x < y := by
  intro a b x y hab hx hy
  obtain ⟨ha, rfl⟩ := List.getElem?_eq_some_iff.mp hx
  obtain ⟨hb, rfl⟩ := List.getElem?_eq_some_iff.mp hy
  exact (List.pairwise_iff_getElem.mp h) a b ha hb hab


/-- a re-triggered combination costs strictly more than the cost just appended (its rule has arguments) -/
theorem trigger_strict (E : Env S) (hpos : PosArgs E) (cl : List Int) (cost : Int) (hnn : ∀ x ∈ cl ++ [cost], 0 ≤ x)
    (nt : NT S Unit) (idx : List Nat) (P : Sym) (chk : Option Nat) (c : Int)
    (hd : DOk E cl nt (idx, P, chk)) (hn : needsDelay (cl ++ [cost]) idx chk = some false)
    (hc : realCost E (cl ++ [cost]) nt P idx = some c) : cost < c := by
  obtain ⟨hold, args, ha, hlen⟩ := hd
  simp only at hold ha hlen
  have hpos' : ∃ i, i < idx.length ∧ idx[i]? = some cl.length := by
    cases chk with
    | some i =>
      simp only [needsDelay] at hold hn
      cases hv : idx[i]? with
      | none => simp [hv] at hold
      | some v =>
        simp only [hv, Option.some.injEq, decide_eq_true_eq, decide_eq_false_iff_not, List.length_append,
          List.length_singleton] at hold hn
        have : v = cl.length := by omega
        subst this
        exact ⟨i, (List.getElem?_eq_some_iff.mp hv).1, hv⟩
    | none =>
      simp only [needsDelay, Option.some.injEq, List.any_eq_true, decide_eq_true_eq] at hold
      simp only [needsDelay, Option.some.injEq, List.any_eq_false, decide_eq_true_eq, List.length_append,
        List.length_singleton] at hn
      obtain ⟨v, hv, hge⟩ := hold
      have := hn v hv
      have hveq : v = cl.length := by omega
      subst hveq
      obtain ⟨i, hi, hiv⟩ := List.getElem_of_mem hv
      exact ⟨i, hi, by rw [List.getElem?_eq_getElem hi, hiv]⟩
  obtain ⟨i, hi, hiv⟩ := hpos'
  exact realCost_gt E hpos (cl ++ [cost]) hnn nt P args ha idx c hc i cl.length (by omega) hiv cost (by simp)

/-- the non-terminals still to be handled in the current round -/
def Remaining : Phase S → List (NT S Unit)
  | .forS _ _ nts => nts
  | .whileQ _ _ nt rest _ _ => nt :: rest
  | .pend _ _ nt rest _ _ _ => nt :: rest
  | _ => []

/-- strictness: inside the round of cost `c` an element of cost `c` is queued only for a non-terminal still to be
    handled; between rounds every queued element is strictly above the cost list -/
def StrictQ (g : Gen S) : Prop :=
  match g.phase.cost? with
  | some c => ∀ nt l, (nt, l) ∈ g.st.queued → ∀ e ∈ l, e.cost = c → nt ∈ Remaining g.phase
  | none => ∀ nt l, (nt, l) ∈ g.st.queued → ∀ e ∈ l, ∀ x ∈ g.st.costList, x < e.cost

theorem queueOf_of_mem {s : St S} (hk : KN s) {nt : NT S Unit} {l : List HeapElem} (h : (nt, l) ∈ s.queued) :
    s.queueOf nt = l := by
  unfold St.queueOf
  rw [AList.lookup_of_mem_nodup hk h]; rfl

/-- **one step keeps strictness** -/
theorem step_strict (E : Env S) (hw : NNW E) (hpos : PosArgs E) (g g' : Gen S) (out : Option Prog) (b : Int)
    (h : step E g = some (g', out)) (hi : GInv E g) (ho : GOrd E g b) (hk : KN g.st) (hs : StrictQ g) :
    StrictQ g' ∧ KN g'.st := by
  unfold step at h
  split at h
  · simp only [Option.some.injEq, Prod.mk.injEq] at h; obtain ⟨rfl, _⟩ := h; exact ⟨hs, hk⟩
  · rename_i hph
    simp only [Option.some.injEq, Prod.mk.injEq] at h; obtain ⟨rfl, _⟩ := h
    simp only [StrictQ, hph, Phase.cost?] at hs ⊢; exact ⟨hs, hk⟩
  · -- outer
    rename_i hph
    simp only [StrictQ, hph, Phase.cost?] at hs
    dsimp only at h
    split at h
    · split at h
      · simp only [Option.some.injEq, Prod.mk.injEq] at h; obtain ⟨rfl, _⟩ := h
        simp only [StrictQ, Phase.cost?]; exact ⟨hs, hk⟩
      · simp only [Option.some.injEq, Prod.mk.injEq] at h; obtain ⟨rfl, _⟩ := h
        simp only [StrictQ, Phase.cost?]; exact ⟨hs, hk⟩
      · rename_i nt nts cost hnc
        split at h
        · simp only [Option.some.injEq, Prod.mk.injEq] at h; obtain ⟨rfl, _⟩ := h
          simp only [StrictQ, Phase.cost?]; exact ⟨hs, hk⟩
        simp only [Option.some.injEq, Prod.mk.injEq] at h; obtain ⟨rfl, _⟩ := h
        refine ⟨?_, hk⟩
        simp only [StrictQ, Phase.cost?, Remaining]
        intro nt1 l1 hm1 e1 he1 hc1
        obtain ⟨low, hos, _⟩ : ∃ low, OSt E g.st low ∧ b ≤ low := by
          have := ho; simp only [GOrd, hph, Phase.cost?] at this; exact this
        have hmin := (nextCheapest_min g.st hos.heaps _ _ hnc).1
        unfold nextCheapest at hnc
        have hcol := (nextCheapestLoop_collect _ _ _ _ _ hnc).2
        cases l1 with
        | nil => cases he1
        | cons top tl =>
          have hq : g.st.queueOf nt1 = top :: tl := queueOf_of_mem hk hm1
          have htm := top_min hos.heaps nt1 top tl hq e1 (by rw [hq]; exact he1)
          have := hmin nt1 _ hm1 top List.mem_cons_self
          exact hcol nt1 top tl hm1 (by omega)
    · simp only [Option.some.injEq, Prod.mk.injEq] at h; obtain ⟨rfl, _⟩ := h
      simp only [StrictQ, Phase.cost?]; exact ⟨hs, hk⟩
  · -- forS []
    rename_i succ cost hph
    simp only [Option.some.injEq, Prod.mk.injEq] at h; obtain ⟨rfl, _⟩ := h
    refine ⟨?_, hk⟩
    simp only [StrictQ, hph, Phase.cost?, Remaining] at hs ⊢
    have hos : OSt E g.st cost := by have := ho; simp only [GOrd, hph, Phase.cost?] at this; exact this.1
    intro nt l hm e he x hx
    have h1 := (hos.q nt l hm e he).1
    have h2 := hos.cl_le x hx
    have h3 : e.cost ≠ cost := fun hc => by have := hs nt l hm e he hc; simp at this
    omega
  · -- forS (nt :: rest)
    rename_i succ cost nt rest hph
    simp only [StrictQ, hph, Phase.cost?, Remaining] at hs
    have hos : OSt E g.st cost := by have := ho; simp only [GOrd, hph, Phase.cost?] at this; exact this.1
    simp only at h
    split at h
    · simp at h
    · rename_i s1 ci hac
      simp only [Option.some.injEq, Prod.mk.injEq] at h; obtain ⟨rfl, _⟩ := h
      have hnn' : ∀ x ∈ g.st.costList ++ [cost], 0 ≤ x := by
        intro x hx
        rcases List.mem_append.mp hx with hx | hx
        · exact hos.nonneg x hx
        · simp at hx; subst hx; exact hos.low_nn
      have hq0 : QAll (fun nt' e => e.cost = cost → nt' ∈ nt :: rest)
          { g.st with maxIndex := AList.insert nt ((AList.lookup nt g.st.maxIndex).getD 0) g.st.maxIndex } := hs
      have hd0 : DAll (DOk E g.st.costList)
          { g.st with maxIndex := AList.insert nt ((AList.lookup nt g.st.maxIndex).getD 0) g.st.maxIndex } := hos.d
      obtain ⟨_, _, _, _, _, hcase⟩ := addCost_all E (fun nt' e => e.cost = cost → nt' ∈ nt :: rest)
        (fun nt' e => e.cost = cost → nt' ∈ nt :: rest) (DOk E g.st.costList) (DOk E g.st.costList) (fun _ _ => True)
        _ s1 cost ci hac (fun _ _ hq => hq) (fun _ _ hd => hd)
        (fun nt' idx P chk c hd hn hc hce => by
          have := trigger_strict E hpos g.st.costList cost hnn' nt' idx P chk c hd hn hc
          simp only at hce; omega)
        (fun _ _ _ _ _ _ => trivial) hq0 hd0
      have hk1 : KN s1 := addCost_kn E _ s1 cost ci hac hk
      refine ⟨?_, hk1⟩
      simp only [StrictQ, Phase.cost?, Remaining]
      rcases hcase with ⟨rfl, _⟩ | ⟨_, _, _, hq, _⟩
      · exact hs
      · exact hq
  · -- whileQ
    rename_i succ cost nt rest maxi ci hph
    simp only [StrictQ, hph, Phase.cost?, Remaining] at hs
    have hos : OSt E g.st cost := by have := ho; simp only [GOrd, hph, Phase.cost?] at this; exact this.1
    simp only at h
    -- leaving the loop: no element of cost `cost` is left for `nt`
    have hleave : ∀ (hnone : ∀ e ∈ g.st.queueOf nt, e.cost ≠ cost), ∀ nt' l, (nt', l) ∈ g.st.queued → ∀ e ∈ l, e.cost = cost → nt' ∈ rest := by
      intro hnone nt' l hm e he hc
      rcases List.mem_cons.mp (hs nt' l hm e he hc) with h1 | h1
      · subst h1
        have := queueOf_of_mem hk hm
        exact absurd hc (hnone e (by rw [this]; exact he))
      · exact h1
    split at h
    · rename_i hq
      simp only [Option.some.injEq, Prod.mk.injEq] at h; obtain ⟨rfl, _⟩ := h
      refine ⟨?_, hk⟩
      simp only [StrictQ, Phase.cost?, Remaining]
      exact hleave (by rw [hq]; intro e he; cases he)
    · rename_i top tl hq
      split at h
      · rename_i htop
        split at h
        · simp at h
        · rename_i el q' hpop
          have hperm := Heapq.pop_perm ltE _ _ _ hpop
          have hhead := Heapq.pop_head ltE _ _ _ hpop
          rw [hq] at hhead
          simp only [List.head?_cons, Option.some.injEq] at hhead
          subst hhead
          have helq : top ∈ g.st.queueOf nt := by rw [hq]; exact List.mem_cons_self
          obtain ⟨l0, hl0, he0⟩ := queueOf_mem helq
          have hel : realCost E g.st.costList nt top.P top.combo = some top.cost := hi.st.queue _ _ hl0 _ he0
          have hq1 : QAll (fun nt' e => e.cost = cost → nt' ∈ nt :: rest) (g.st.setQueue nt q') := by
            intro nt' l hm e he
            rcases mem_insert hm with hm | hm
            · cases hm; intro _; exact List.mem_cons_self
            · exact hs nt' l hm e he
          have hk1 : KN (g.st.setQueue nt q') := keys_insert_nodup _ _ _ hk
          split at h
          · simp at h
          · rename_i args hargs
            split at h
            · simp at h
            · rename_i s2 maxi' hsl
              have hQ : ∀ i v c, top.combo[i]? = some v →
                  needsDelay g.st.costList (top.combo.set i (v + 1)) (some i) = some false →
                  realCost E g.st.costList nt top.P (top.combo.set i (v + 1)) = some c →
                  (fun nt' (e : HeapElem) => e.cost = cost → nt' ∈ nt :: rest) nt ⟨c, top.combo.set i (v + 1), top.P⟩ := by
                intro i v c hv hn hc _
                exact List.mem_cons_self
              obtain ⟨_, hq2, _⟩ := succLoop_all E (fun nt' e => e.cost = cost → nt' ∈ nt :: rest) (fun _ _ => True) nt top.P
                top.combo g.st.costList hQ (fun _ _ _ _ => trivial) _ _ _ _ _ _ hsl rfl hq1 (fun _ _ _ _ _ => trivial)
              have hk2 := succLoop_kn E nt top.P top.combo _ _ _ _ _ _ hsl hk1
              split at h
              · simp at h
              · simp only [Option.some.injEq, Prod.mk.injEq] at h; obtain ⟨rfl, _⟩ := h
                exact ⟨by simp only [StrictQ, Phase.cost?, Remaining]; exact hq2, hk2⟩
              · simp only [Option.some.injEq, Prod.mk.injEq] at h; obtain ⟨rfl, _⟩ := h
                exact ⟨by simp only [StrictQ, Phase.cost?, Remaining]; exact hq2, hk2⟩
      · rename_i hne
        simp only [Option.some.injEq, Prod.mk.injEq] at h; obtain ⟨rfl, _⟩ := h
        refine ⟨?_, hk⟩
        simp only [StrictQ, Phase.cost?, Remaining]
        apply hleave
        intro e he hc
        have h1 := top_min hos.heaps nt top tl hq e he
        obtain ⟨l0, hl0, he0⟩ := queueOf_mem (show top ∈ g.st.queueOf nt by rw [hq]; exact List.mem_cons_self)
        have h2 := (hos.q nt l0 hl0 top he0).1
        exact hne (by omega)
  · -- pend []
    rename_i hph
    simp only [Option.some.injEq, Prod.mk.injEq] at h; obtain ⟨rfl, _⟩ := h
    simp only [StrictQ, hph, Phase.cost?, Remaining] at hs ⊢; exact ⟨hs, hk⟩
  · -- pend (p :: ps)
    rename_i succ cost nt rest maxi ci p ps hph
    simp only [StrictQ, hph, Phase.cost?, Remaining] at hs
    obtain ⟨fq, _, _⟩ := addProgram_frame E g.st nt p ci
    cases hap : addProgram E g.st nt p ci with | mk s1 added =>
    rw [hap] at fq
    simp only [hap] at h
    split at h
    all_goals
      simp only [Option.some.injEq, Prod.mk.injEq] at h; obtain ⟨rfl, _⟩ := h
      refine ⟨?_, by unfold KN; rw [fq]; exact hk⟩
      simp only [StrictQ, Phase.cost?, Remaining]
      intro nt' l hm e he hc
      exact hs nt' l (by rw [← fq]; exact hm) e he hc

end PS.Bee
