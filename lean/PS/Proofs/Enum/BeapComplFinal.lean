/- Completeness of beap search, part 7: the invariants hold after the prologue and along `next`; prefix completeness. -/
import PS.Proofs.Enum.BeapComplHead
namespace PS.Beap
open PS PS.G PS.Heapq
set_option linter.unusedSectionVars false
variable {S : Type} [DecidableEq S]

theorem below_zeros (E : Env S) (s : St S) : ∀ (as : List (Ty × S)) (ks : List Prog), ks.length = as.length →
    BelowArgs E s as (List.replicate as.length 0) ks
  | [], [], _ => trivial
  | a :: as, k :: ks, h => by
    simp only [List.length_cons, List.replicate_succ]
    exact Or.inl ⟨rfl, below_zeros E s as ks (by simpa using h)⟩
  | [], _ :: _, h => by simp at h
  | _ :: _, [], h => by simp at h

theorem costOfList_length (E : Env S) : ∀ (ks : List Prog) (as : List (Ty × S)) (x : Rat), costOfList E ks as = some x →
    ks.length = as.length
  | [], [], _, _ => rfl
  | [], _ :: _, _, h => by simp [costOfList] at h
  | _ :: _, [], _, h => by simp [costOfList] at h
  | k :: ks, a :: as, x, h => by
    simp only [costOfList] at h
    split at h
    · next y x' hy hx' => simp only [List.length_cons]; rw [costOfList_length E ks as x' hx']
    · cases h

/-- **the completeness invariants after the prologue** -/
theorem prologue_k (E : Env S) (hnd : RowsNodup E.G) (hst : StableAfter E) (hprod : Productive E) (hpos : PosW E)
    (fuel : Nat) (s' : St S) (h : prologue E fuel (St.empty E.G) = some s') :
    WInv E s' ∧ E4g s' ∧ (∀ nt, FR E s' nt) ∧ (∀ nt ci, ¬ Entered s' nt ci) ∧ (∀ nt ci, s'.bankAt nt ci = []) := by
  have hc := prologue_cinv E hnd hst hprod fuel s' h
  have ho := prologue_oi E hnd hst hprod hpos fuel s' h
  have hpi := prologue_pi E hnd fuel s' h
  have hall := prologue_allRules E fuel s' h
  obtain ⟨hb, hem, hd, _⟩ := prologue_rest E fuel _ _ h
  have hbank : ∀ nt, s'.bankOf nt = [] := by
    intro nt
    have : s'.bankOf nt = (St.empty E.G).bankOf nt := by unfold St.bankOf; rw [hb]
    rw [this]; exact lookup_map_nil E.G.rules nt
  have hempt : ∀ nt, s'.emptiesOf nt = [] := by
    intro nt
    have : s'.emptiesOf nt = (St.empty E.G).emptiesOf nt := by unfold St.emptiesOf; rw [hem]
    rw [this]; exact lookup_map_nil E.G.rules nt
  have hlk : ∀ nt ci, AList.lookup ci (s'.bankOf nt) = none := fun nt ci => by rw [hbank]; rfl
  have hnotent : ∀ nt ci, ¬ Entered s' nt ci := by
    intro nt ci hen
    rcases hen with h' | h'
    · rw [hlk] at h'; cases h'
    · rw [hempt] at h'; cases h'
  have hba : ∀ nt ci, s'.bankAt nt ci = [] := fun nt ci => bankAt_of_lookup s' nt ci (hlk nt ci)
  have hlb : LB E s' := fun nt c rest p x hcl hx => ((prologue_minCost E hnd hst fuel s' h nt c rest hcl).1 p x hx).2
  have hsingle : ∀ nt l, (s'.clOf nt).getLast? = some l → s'.clOf nt = [l] := by
    intro nt l hl
    have hlen := hpi.len nt
    cases hcl : s'.clOf nt with
    | nil => rw [hcl] at hl; cases hl
    | cons c0 rest =>
      rw [hcl] at hlen hl
      have hrest : rest = [] := by
        cases rest with
        | nil => rfl
        | cons _ _ => simp at hlen
      subst hrest
      simp at hl; rw [hl]
  refine ⟨⟨hc, ho, ⟨fun nt ci hh => (by rw [hempt] at hh; cases hh), fun q hq => ?_, fun nt ci hen => absurd hen (hnotent nt ci), hlb⟩,
    fun nt p x l hcl hx hl hlt => ?_⟩, fun nt ci _ hh => (by rw [hlk] at hh; cases hh), fun nt => ⟨fun f kids x l rl hcl hx hl hle hr => ?_,
      fun hen => absurd hen (hnotent nt _), fun ci hh => (by rw [hlk] at hh; cases hh)⟩, hnotent, hba⟩
  · rw [hd] at hq
    have : (St.empty E.G).deleted = [] := rfl
    rw [this] at hq; cases hq
  · exfalso
    have := hlb nt l [] p x (hsingle nt l hl) hx
    grind
  · right
    have hcl1 := hsingle nt l hl
    obtain ⟨el, hel, hP⟩ := hall nt l [] hcl1 f rl hr
    refine ⟨el, hel, hP, ?_⟩
    have hz := hpi.zero nt el hel rl (by rw [hP]; exact hr)
    rw [hz]
    obtain ⟨args, u⟩ := rl
    have hlen : kids.length = args.length := by
      simp only [costOf] at hx
      split at hx
      · next args' u' w hr' hw =>
        rw [hr] at hr'
        simp only [Option.some.injEq, Prod.mk.injEq] at hr'
        obtain ⟨rfl, _⟩ := hr'
        split at hx
        · next xs hxs => exact costOfList_length E kids args xs hxs
        · cases hx
      · cases hx
    exact below_zeros E s' args kids hlen

/-- the invariant of a started generator object on which no program was merged; `ys`: the programs yielded so far -/
structure GK (E : Env S) (g : Gen S) (ys : List Prog) : Prop where
  started : g.started = true
  w : WInv E g.st
  e4 : E4g g.st
  fro : ∀ S', S' ≠ E.G.start → FR E g.st S'
  fr : ∀ fr, g.frame = some fr → FrK E g.st E.G.start fr ∧ fr.ci = g.n ∧ (g.failed = true → fr.hasGen = false) ∧
    (fr.noSucc = false ∨ ∃ e q, g.st.queueOf E.G.start = e :: q ∧ e.cost = fr.cost)
  idle : g.frame = none → FR E g.st E.G.start ∧ (∀ ci, Entered g.st E.G.start ci → ci < g.n) ∧
    ((g.n + 1 = (g.st.clOf E.G.start).length ∧
        ∀ c, (g.st.clOf E.G.start)[g.n]? = some c → ∃ e q, g.st.queueOf E.G.start = e :: q ∧ e.cost = c) ∨
     ((g.st.clOf E.G.start).length ≤ g.n ∧ g.st.queueOf E.G.start = []))
  fin : g.finished = true → g.frame = none ∧ g.st.queueOf E.G.start = []
  ne : g.st.clOf E.G.start ≠ []
  yb : ∀ ci q, q ∈ g.st.bankAt E.G.start ci → q ∈ ys
  yc : ∀ p ∈ ys, ∃ c, c ∈ g.st.clOf E.G.start ∧ costOf E p E.G.start = some c.fin

theorem nextLoop_k (E : Env S) (hpos : PosW E) (fuel : Nat) : ∀ (k : Nat) (s : St S) (n : Nat) (failed : Bool) (fro : Option Frame)
    (r : Gen S × Option Prog) (ys : List Prog), WInv E s → E4g s → (∀ S', S' ≠ E.G.start → FR E s S') →
    (∀ fr, fro = some fr → FrK E s E.G.start fr ∧ fr.ci = n ∧ (failed = true → fr.hasGen = false) ∧
      (fr.noSucc = false ∨ ∃ e q, s.queueOf E.G.start = e :: q ∧ e.cost = fr.cost)) →
    (fro = none → FR E s E.G.start ∧ (∀ ci, Entered s E.G.start ci → ci < n) ∧
      ((n + 1 = (s.clOf E.G.start).length ∧ ∀ c, (s.clOf E.G.start)[n]? = some c → ∃ e q, s.queueOf E.G.start = e :: q ∧ e.cost = c) ∨
       ((s.clOf E.G.start).length ≤ n ∧ s.queueOf E.G.start = []))) →
    s.clOf E.G.start ≠ [] →
    (∀ ci q, q ∈ s.bankAt E.G.start ci → q ∈ ys) →
    (∀ p ∈ ys, ∃ c, c ∈ s.clOf E.G.start ∧ costOf E p E.G.start = some c.fin) →
    nextLoop E fuel k s n failed fro = some r → GK E r.1 (ys ++ r.2.toList) ∧ (r.2 = none → r.1.finished = true) := by
  intro k
  induction k with
  | zero => intro s n failed fro r ys _ _ _ _ _ _ _ _ h; simp [nextLoop] at h
  | succ k ih =>
    intro s n failed fro r ys hw h4 hfro hf hidle hne0 hyb hyc h
    cases fro with
    | some fr =>
      obtain ⟨hk, hci, hfail, hproc⟩ := hf fr rfl
      simp only [nextLoop] at h
      have hx : fr.cost.fin < fr.cost.fin + 1 := by grind
      have hfo : FRo E (fr.cost.fin + 1) s E.G.start := fun S' hS _ => hfro S' hS
      split at h
      · cases h
      · next s1 p fr1 hr =>
        cases h
        obtain ⟨g1, g2, g3, g4, g5, _, g7, _, _⟩ := (compl_all E hpos fuel).2.2.2.1 _ _ _ _ _ hw h4 hfo hk hx hr
        obtain ⟨_, c2, c3⟩ := (cost_all E fuel).2.2.2.1 _ _ _ _ hw.c hk.fc hr
        obtain ⟨c4, _, c6, _⟩ := c3 p fr1 rfl
        have hne1 : s1.clOf E.G.start ≠ [] := by
          intro h0
          have := (c2 E.G.start).length_le
          rw [h0] at this
          exact hne0 (List.length_eq_zero_iff.mp (by simpa using this))
        refine ⟨⟨rfl, g1, g2, fun S' hS => ?_, fun fr' he => (by
            cases he
            exact ⟨(g5 p fr1 rfl).1, by rw [c6, hci], fun hh => (by cases hh), Or.inl (g5 p fr1 rfl).2⟩), fun he => (by cases he),
          fun hh => (by cases hh), hne1, fun ci q hq => ?_, fun p' hp' => ?_⟩, fun hh => (by cases hh)⟩
        · by_cases hl : lastGe s S' (fr.cost.fin + 1)
          · exact (hfro S' hS).of_same (g3 S' hl) c2
          · exact g4 S' hS hl
        · simp only [Option.toList_some, List.mem_append, List.mem_singleton]
          rcases g7 ci q hq with h' | ⟨fr', h'⟩
          · exact Or.inl (hyb ci q h')
          · cases h'; exact Or.inr rfl
        · simp only [Option.toList_some, List.mem_append, List.mem_singleton] at hp'
          rcases hp' with h' | rfl
          · obtain ⟨c, m1, m2⟩ := hyc p' h'
            exact ⟨c, (c2 E.G.start).subset m1, m2⟩
          · exact ⟨fr.cost, (c2 E.G.start).subset (List.mem_of_getElem? hk.fo.2), c4⟩
      · next s1 hr =>
        obtain ⟨g1, g2, g3, g4, _, g6, g7, g8, g9⟩ := (compl_all E hpos fuel).2.2.2.1 _ _ _ _ _ hw h4 hfo hk hx hr
        obtain ⟨_, c2, _⟩ := (cost_all E fuel).2.2.2.1 _ _ _ _ hw.c hk.fc hr
        obtain ⟨_, _, _, o4⟩ := (order_all E hpos fuel).2.2.2.1 _ _ _ _ _ hw.c hk.fc hw.o hk.fo hx hr
        obtain ⟨q1, q2, q3⟩ := g6 rfl
        have hfro1 : ∀ S', S' ≠ E.G.start → FR E s1 S' := by
          intro S' hS
          by_cases hl : lastGe s S' (fr.cost.fin + 1)
          · exact (hfro S' hS).of_same (g3 S' hl) c2
          · exact g4 S' hS hl
        have hyb1 : ∀ ci q, q ∈ s1.bankAt E.G.start ci → q ∈ ys := by
          intro ci q hq
          rcases g7 ci q hq with h' | ⟨fr', h'⟩
          · exact hyb ci q h'
          · cases h'
        have hyc1 : ∀ p ∈ ys, ∃ c, c ∈ s1.clOf E.G.start ∧ costOf E p E.G.start = some c.fin := by
          intro p' hp'
          obtain ⟨c, m1, m2⟩ := hyc p' hp'
          exact ⟨c, (c2 E.G.start).subset m1, m2⟩
        have hne1 : s1.clOf E.G.start ≠ [] := by
          intro h0
          have := (c2 E.G.start).length_le
          rw [h0] at this
          exact hne0 (List.length_eq_zero_iff.mp (by simpa using this))
        have hlen1 : (s1.clOf E.G.start).length ≤ n + 2 := by
          have h1 : (s1.clOf E.G.start).length ≤ (s.clOf E.G.start).length + 1 := o4 rfl
          have h2 := hk.fo.1
          rw [hci] at h2
          omega
        have hidle1 : (n + 1 + 1 = (s1.clOf E.G.start).length ∧
              ∀ c, (s1.clOf E.G.start)[n + 1]? = some c → ∃ e q, s1.queueOf E.G.start = e :: q ∧ e.cost = c) ∨
            ((s1.clOf E.G.start).length ≤ n + 1 ∧ s1.queueOf E.G.start = []) := by
          have g8' : (s1.queueOf E.G.start = [] ∧ (s1.clOf E.G.start).length = fr.ci + 1) ∨
              (∃ e q, s1.queueOf E.G.start = e :: q ∧ (s1.clOf E.G.start)[fr.ci + 1]? = some e.cost) := g8 rfl
          rcases g8' with ⟨a1, a2⟩ | ⟨e, q, a1, a2⟩
          · right; rw [hci] at a2; exact ⟨by omega, a1⟩
          · left
            rw [hci] at a2
            have := (List.getElem?_eq_some_iff.mp a2).1
            refine ⟨by omega, fun c hc => ⟨e, q, a1, ?_⟩⟩
            rw [a2] at hc; exact Option.some.inj hc
        have hent1 : ∀ ci, Entered s1 E.G.start ci → ci < n + 1 := fun ci hen => by have := q3 ci hen; omega
        split at h
        · next hcond =>
          exfalso
          simp only [Bool.and_eq_true, Bool.not_eq_true'] at hcond
          have := g9 hproc rfl (hfail hcond.1)
          rw [hcond.2] at this; cases this
        · exact ih _ _ _ _ _ ys g1 g2 hfro1 (fun fr' he => by cases he) (fun _ => ⟨q1, hent1, hidle1⟩) hne1 hyb1 hyc1 h
    | none =>
      simp only [nextLoop] at h
      obtain ⟨i1, i2, i3⟩ := hidle rfl
      have hw0 : WInv E { s with failedByEmpties := false } :=
        ⟨CInv.of_eq (s := s) (fun _ => rfl) (fun _ => rfl) (fun _ _ => rfl) hw.c, OI.of_eq (s := s) (fun _ => rfl) (fun _ => rfl) hw.o,
         hw.e.of_tables (fun _ => rfl) (fun _ => rfl) (fun _ => rfl) rfl, fun S' => (hw.cr S').of_same rfl (fun _ => rfl)⟩
      have h40 : E4g { s with failedByEmpties := false } := h4.of_tables (fun _ => rfl) (fun _ => rfl) (fun _ => rfl)
      have hfr0 : ∀ S', FR E s S' → FR E { s with failedByEmpties := false } S' := fun S' hh =>
        hh.of_same ⟨rfl, rfl, rfl, rfl⟩ (Ext.of_eq fun _ => rfl)
      split at h
      · next hget =>
        cases h
        have hlen : (s.clOf E.G.start).length ≤ n := List.getElem?_eq_none_iff.mp hget
        have hq0 : s.queueOf E.G.start = [] := by
          rcases i3 with ⟨a1, _⟩ | ⟨_, a2⟩
          · omega
          · exact a2
        refine ⟨⟨rfl, hw0, h40, fun S' hS => hfr0 S' (hfro S' hS), fun fr' he => (by cases he),
          fun _ => ⟨hfr0 _ i1, fun ci hen => (by have := i2 ci hen; show ci < n + 1; omega), Or.inr ⟨?_, hq0⟩⟩, fun _ => ⟨rfl, hq0⟩, hne0,
          fun ci q hq => (by simp only [Option.toList_none, List.append_nil]; exact hyb ci q hq),
          fun p' hp' => (by simp only [Option.toList_none, List.append_nil] at hp'; exact hyc p' hp')⟩, fun _ => rfl⟩
        show (s.clOf E.G.start).length ≤ n + 1
        omega
      · next c hget =>
        have hlt : n < (s.clOf E.G.start).length := (List.getElem?_eq_some_iff.mp hget).1
        obtain ⟨hl, hhead⟩ : n + 1 = (s.clOf E.G.start).length ∧
            ∀ c, (s.clOf E.G.start)[n]? = some c → ∃ e q, s.queueOf E.G.start = e :: q ∧ e.cost = c := by
          rcases i3 with h1 | ⟨h1, _⟩
          · exact h1
          · omega
        have hnotent : ¬ Entered s E.G.start n := fun hen => by have := i2 n hen; omega
        have hlookup : AList.lookup n (s.bankOf E.G.start) = none := by
          cases hlk : AList.lookup n (s.bankOf E.G.start) with
          | none => rfl
          | some ps => exact absurd (Or.inl (by rw [hlk]; rfl)) hnotent
        have hne : (s.emptiesOf E.G.start).contains n = false := by
          cases hce : (s.emptiesOf E.G.start).contains n with
          | false => rfl
          | true => exact absurd (Or.inr hce) hnotent
        have hlast := getLast_of_len _ n c hget hl
        have hlen : (s.clOf E.G.start).length - 1 = n := by omega
        have hk : FrK E { s with failedByEmpties := false } E.G.start { ci := n, cost := c, P := default } := by
          refine ⟨⟨hl, hget⟩, ⟨hget, fun a ha => (by cases ha)⟩, hw.o.fin _ c (List.mem_of_getElem? hget),
            fun _ => bankAt_of_lookup s _ n hlookup, fun hh => (by cases hh), fun hh => ?_, hne, fun ci' hne' hlk => ?_,
            fun hh => absurd rfl hh, fun f kids y rl hcl hy hle hr => ?_⟩
          · have hh : (AList.lookup n (s.bankOf E.G.start)).isSome = true := hh
            rw [hlookup] at hh; cases hh
          · exact i1.2.2 ci' hlk
          · rcases i1.1 f kids y c rl hcl hy hlast hle hr with ⟨g1, g2⟩ | ⟨el, g1, g2, g3⟩
            · left; rw [hlen] at g2; exact ⟨g1, g2⟩
            · right; left; exact ⟨el, g1, g2, BelowArgs.ext (s := s) (s' := { s with failedByEmpties := false }) (Ext.of_eq fun _ => rfl) _ _ _ g3⟩
        exact ih _ _ _ _ _ ys hw0 h40 (fun S' hS => hfr0 S' (hfro S' hS))
          (fun fr' he => by cases he; exact ⟨hk, rfl, fun _ => rfl, Or.inr (hhead c hget)⟩)
          (fun he => by cases he) hne0 hyb hyc h

/-- the generator along `take` from a new one: not started yet, or started with the completeness invariant -/
def TK (E : Env S) (g : Gen S) (ys : List Prog) : Prop :=
  (g.started = false ∧ g.finished = false ∧ g.st = St.empty E.G ∧ ys = []) ∨ GK E g ys

theorem next_k (E : Env S) (hnd : RowsNodup E.G) (hst : StableAfter E) (hprod : Productive E) (hpos : PosW E)
    (fuel : Nat) (g : Gen S) (r : Gen S × Option Prog) (ys : List Prog) (htk : TK E g ys) (h : next E fuel g = some r) :
    TK E r.1 (ys ++ r.2.toList) ∧ (r.2 = none → r.1.finished = true) := by
  unfold next at h
  split at h
  · next hfin => cases h; exact ⟨by simpa using htk, fun _ => hfin⟩
  · split at h
    · next hs =>
      rcases htk with ⟨h1, _, _⟩ | hg
      · rw [h1] at hs; cases hs
      · obtain ⟨a, b⟩ := nextLoop_k E hpos fuel _ _ _ _ _ _ ys hg.w hg.e4 hg.fro hg.fr hg.idle hg.ne hg.yb hg.yc h
        exact ⟨Or.inr a, b⟩
    · next hns =>
      rcases htk with ⟨_, _, h2, h3⟩ | hg
      · split at h
        · cases h
        · next s hp =>
          rw [h2] at hp
          obtain ⟨k1, k2, k3, k4, k5⟩ := prologue_k E hnd hst hprod hpos fuel s hp
          have hlen := (prologue_pi E hnd fuel s hp).len E.G.start
          have hne := prologue_start_ne E fuel s hp
          have hhe := prologue_he E fuel s hp
          have hl1 : 0 + 1 = (s.clOf E.G.start).length := by
            cases hcl : s.clOf E.G.start with
            | nil => exact absurd hcl hne
            | cons c0 r0 => rw [hcl] at hlen; simp at hlen ⊢; omega
          subst h3
          obtain ⟨a, b⟩ := nextLoop_k E hpos fuel _ _ _ _ _ _ [] k1 k2 (fun S' _ => k3 S') (fun fr he => by cases he)
            (fun _ => ⟨k3 _, fun ci hen => absurd hen (k4 _ ci), Or.inl ⟨hl1, hhe⟩⟩) hne (fun ci q hq => by rw [k5] at hq; cases hq)
            (fun p hp' => by cases hp') h
          exact ⟨Or.inr a, b⟩
      · exact absurd hg.started hns

theorem take_k (E : Env S) (hnd : RowsNodup E.G) (hst : StableAfter E) (hprod : Productive E) (hpos : PosW E) (fuel : Nat) :
    ∀ (k : Nat) (g : Gen S) (acc : List Prog) (r : Gen S × List Prog × Bool), TK E g acc → take E fuel k g acc = some r →
      TK E r.1 r.2.1 ∧ (r.2.2 = true → r.1.finished = true) := by
  intro k
  induction k with
  | zero => intro g acc r htk h; simp only [take] at h; cases h; exact ⟨htk, fun hh => by cases hh⟩
  | succ k ih =>
    intro g acc r htk h
    simp only [take] at h
    split at h
    · cases h
    · next g' hn =>
      cases h
      obtain ⟨a, b⟩ := next_k E hnd hst hprod hpos fuel g _ acc htk hn
      exact ⟨by simpa using a, fun _ => b rfl⟩
    · next g' p hn =>
      obtain ⟨a, _⟩ := next_k E hnd hst hprod hpos fuel g _ acc htk hn
      exact ih g' _ r (by simpa using a) h

/-- **prefix completeness**: when a program of cost `y` has been yielded, every program of the start symbol of
    strictly smaller cost all of whose sub-programs the filter accepts has been yielded -/
theorem prefix_complete (E : Env S) (hnd : RowsNodup E.G) (hst : StableAfter E) (hprod : Productive E) (hpos : PosW E)
    (fuel k : Nat) (r : Gen S × List Prog × Bool) (h : take E fuel k (Gen.new E.G) [] = some r)
    (p q : Prog) (x y : Rat) (hp : p ∈ r.2.1) (hy : costOf E p E.G.start = some y) (hcl : clean E.filter q = true)
    (hx : costOf E q E.G.start = some x) (hlt : x < y) : q ∈ r.2.1 := by
  have h0 : TK E (Gen.new E.G) [] := Or.inl ⟨rfl, rfl, rfl, rfl⟩
  rcases (take_k E hnd hst hprod hpos fuel k _ _ r h0 h).1 with ⟨_, _, _, h3⟩ | hg
  · rw [h3] at hp; cases hp
  · obtain ⟨c, hc1, hc2⟩ := hg.yc p hp
    rw [hy] at hc2
    have hyc : y = c.fin := Option.some.inj hc2
    obtain ⟨L, hlast⟩ : ∃ L, (r.1.st.clOf E.G.start).getLast? = some L := by
      cases h0 : (r.1.st.clOf E.G.start).getLast? with
      | none => exact absurd (List.getLast?_eq_none_iff.mp h0) hg.ne
      | some l => exact ⟨l, rfl⟩
    have hle := le_last_of_pairwise _ (hg.w.o.mono E.G.start) L hlast c hc1
    obtain ⟨i, e, _, _, g3⟩ := hg.w.cr E.G.start q x L hcl hx hlast (by grind)
    exact hg.yb i q g3

/-- **completeness at the end**: when the generator has stopped (`next` raised StopIteration), every program of the
    start symbol all of whose sub-programs the filter accepts has been yielded -/
theorem complete_at_stop (E : Env S) (hnd : RowsNodup E.G) (hst : StableAfter E) (hprod : Productive E) (hpos : PosW E)
    (fuel k : Nat) (r : Gen S × List Prog × Bool) (h : take E fuel k (Gen.new E.G) [] = some r) (hfin : r.2.2 = true)
    (q : Prog) (x : Rat) (hcl : clean E.filter q = true) (hx : costOf E q E.G.start = some x) : q ∈ r.2.1 := by
  have h0 : TK E (Gen.new E.G) [] := Or.inl ⟨rfl, rfl, rfl, rfl⟩
  obtain ⟨htk, hf⟩ := take_k E hnd hst hprod hpos fuel k _ _ r h0 h
  have hfinished := hf hfin
  rcases htk with ⟨_, h2, _, _⟩ | hg
  · rw [h2] at hfinished; cases hfinished
  · obtain ⟨hfr, hq⟩ := hg.fin hfinished
    obtain ⟨f1, _, _⟩ := hg.idle hfr
    obtain ⟨L, hlast⟩ : ∃ L, (r.1.st.clOf E.G.start).getLast? = some L := by
      cases h0 : (r.1.st.clOf E.G.start).getLast? with
      | none => exact absurd (List.getLast?_eq_none_iff.mp h0) hg.ne
      | some l => exact ⟨l, rfl⟩
    by_cases hlt : x < L.fin
    · obtain ⟨i, e, _, _, g3⟩ := hg.w.cr E.G.start q x L hcl hx hlast hlt
      exact hg.yb i q g3
    · cases q with
      | node f kids =>
        obtain ⟨rl, hr⟩ := rule_of_cost E E.G.start f kids x hx
        rcases f1.1 f kids x L rl hcl hx hlast (by grind) hr with ⟨_, g2⟩ | ⟨el, g1, _, _⟩
        · exact hg.yb _ _ g2
        · rw [hq] at g1; cases g1

/-- every yielded program has a cost (is a priced derivation of the start symbol) -/
theorem yields_priced (E : Env S) (hnd : RowsNodup E.G) (hst : StableAfter E) (hprod : Productive E) (hpos : PosW E)
    (fuel k : Nat) (r : Gen S × List Prog × Bool) (h : take E fuel k (Gen.new E.G) [] = some r) :
    ∀ p ∈ r.2.1, ∃ x, costOf E p E.G.start = some x := by
  intro p hp
  have h0 : TK E (Gen.new E.G) [] := Or.inl ⟨rfl, rfl, rfl, rfl⟩
  rcases (take_k E hnd hst hprod hpos fuel k _ _ r h0 h).1 with ⟨_, _, _, h3⟩ | hg
  · rw [h3] at hp; cases hp
  · obtain ⟨c, _, hc⟩ := hg.yc p hp
    exact ⟨c.fin, hc⟩

/-- `take k` that did not see the end returns exactly `k` more programs -/
theorem take_length (E : Env S) (fuel : Nat) : ∀ (k : Nat) (g : Gen S) (acc : List Prog) (r : Gen S × List Prog × Bool),
    take E fuel k g acc = some r → r.2.2 = false → r.2.1.length = acc.length + k := by
  intro k
  induction k with
  | zero => intro g acc r h _; simp only [take] at h; cases h; rfl
  | succ k ih =>
    intro g acc r h hf
    simp only [take] at h
    split at h
    · cases h
    · cases h; cases hf
    · have := ih _ _ r h hf
      rw [this]; simp; omega

/- without a filter every program is clean -/
mutual
  theorem clean_accept_all (f : Prog → Bool) (hf : ∀ t, f t = true) : ∀ t : Prog, clean f t = true
    | .node F kids => by simp only [clean, hf, Bool.true_and]; exact cleanList_accept_all f hf kids
  theorem cleanList_accept_all (f : Prog → Bool) (hf : ∀ t, f t = true) : ∀ ts : List Prog, cleanList f ts = true
    | [] => rfl
    | t :: ts => by simp only [cleanList, Bool.and_eq_true]; exact ⟨clean_accept_all f hf t, cleanList_accept_all f hf ts⟩
end

end PS.Beap
