/- The priority specification of heap search (`prioSpec` with `probOps`) is the probability of the
   statement (`PS.G.prob`: product of the rule weights along the derivation). -/
import PS.Proofs.Mass
import PS.Proofs.Enum.HSSound
namespace PS.HS
open PS PS.G
set_option linter.unusedSectionVars false
variable {S : Type} [DecidableEq S]

theorem weight_of_ruleW (E : Env S Unit Rat) (nt : NT S Unit) (F : Sym) (w : Rat) (h : ruleW E nt F = some w) :
    weight E.W nt F = w := by
  unfold weight tagOf
  unfold ruleW at h
  cases hl : AList.lookup nt E.W with
  | none => simp [hl] at h
  | some ws => simp only [hl] at h ⊢; rw [h]; rfl

mutual
  theorem prioSpec_prob (E : Env S Unit Rat) (t : Rat) (hops : E.ops = probOps t) :
      ∀ (p : Prog) (nt : NT S Unit) (v : Rat), gen E.G p nt = true → prioSpec E p nt = some v →
        v = prob E.G E.W p nt
    | .node F kids, nt, v, hg, h => by
      rw [prioSpec] at h
      rw [gen] at hg
      cases hw : ruleW E nt F with
      | none => simp [hw] at h
      | some w =>
        cases hr : E.G.rule? nt F with
        | none => simp [hr] at hg
        | some rl =>
          obtain ⟨ra, u⟩ := rl
          cases u
          simp only [hw, hr] at h hg
          rw [prob_node E.G E.W nt F ra kids hr hg, weight_of_ruleW E nt F w hw]
          have := prioList_prob E t hops kids ra (E.ops.ofRule w) v hg h
          rw [this, hops]; rfl
  theorem prioList_prob (E : Env S Unit Rat) (t : Rat) (hops : E.ops = probOps t) :
      ∀ (ks : List Prog) (as : List (Ty × S)) (acc v : Rat), genList E.G ks as = true →
        prioList E ks as acc = some v →
        v = acc * ((as.zip ks).map (fun p => prob E.G E.W p.2 (argNT p.1))).prod
    | [], [], acc, v, _, h => by
      simp only [prioList, Option.some.injEq] at h
      subst h; simp [Rat.mul_one]
    | [], _ :: _, _, _, hg, _ => by simp [genList] at hg
    | _ :: _, [], _, _, hg, _ => by simp [genList] at hg
    | k :: ks, (t0, s0) :: as, acc, v, hg, h => by
      simp only [genList, Bool.and_eq_true] at hg
      rw [prioList] at h
      cases hk : prioSpec E k (argNT (t0, s0)) with
      | none => simp [hk] at h
      | some pk =>
        simp only [hk] at h
        have h1 := prioSpec_prob E t hops k (argNT (t0, s0)) pk hg.1 hk
        have h2 := prioList_prob E t hops ks as _ v hg.2 h
        rw [h2, h1, hops]
        simp only [List.zip_cons_cons, List.map_cons, List.prod_cons]
        show acc * prob E.G E.W k (argNT (t0, s0)) * _ = _
        rw [Rat.mul_assoc]
end

end PS.HS
