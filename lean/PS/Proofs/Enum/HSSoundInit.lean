/- Soundness of heap search, part 2: the prologue of `generator()` (max-priority tables, initial
   heaps, first queries) establishes the soundness invariant, `next` keeps it, and whatever is
   yielded is derivable from the start symbol. -/
import PS.Proofs.Lang
import PS.Proofs.Enum.HSSound
namespace PS.HS
open PS PS.G
set_option linter.unusedSectionVars false
variable {S π : Type} [DecidableEq S]

/-- the tables read by `query` are untouched -/
def Frame (s s' : St S Unit π) : Prop :=
  s'.heaps = s.heaps ∧ s'.succ = s.succ ∧ s'.pred = s.pred ∧ s'.seen = s.seen ∧ s'.deleted = s.deleted

theorem Frame.refl (s : St S Unit π) : Frame s s := ⟨rfl, rfl, rfl, rfl, rfl⟩
theorem Frame.trans {s s1 s2 : St S Unit π} (h1 : Frame s s1) (h2 : Frame s1 s2) : Frame s s2 :=
  ⟨h2.1.trans h1.1, h2.2.1.trans h1.2.1, h2.2.2.1.trans h1.2.2.1, h2.2.2.2.1.trans h1.2.2.2.1,
   h2.2.2.2.2.trans h1.2.2.2.2⟩

theorem Frame.sinv {E : Env S Unit π} {s s' : St S Unit π} (f : Frame s s') (h : SInv E s)
    (hc : CacheOK E s'.cache) : SInv E s' := by
  obtain ⟨f1, f2, _, f4, _⟩ := f
  apply h.congr
  · intro nt; unfold St.seenOf; rw [f4]
  · intro nt; unfold St.heapOf; rw [f1]
  · intro nt; unfold St.succOf; rw [f2]
  · exact hc

/-- the max-priority tables hold derivable programs -/
structure MInv (E : Env S Unit π) (s : St S Unit π) : Prop where
  rule_gen : ∀ nt P prog, AList.lookup (nt, P) s.maxRule = some prog → gen E.G prog nt = true
  nt_gen : ∀ nt m, AList.lookup nt s.maxNT = some m → gen E.G m nt = true
  cache_ok : CacheOK E s.cache

theorem genList_of_pointwise (G : TT S Unit) : ∀ (ks : List Prog) (ra : List (Ty × S)),
    ks.length = ra.length → (∀ (j : Nat) m a, ks[j]? = some m → ra[j]? = some a → gen G m (argNT a) = true) →
    genList G ks ra = true
  | [], [], _, _ => rfl
  | [], _ :: _, h, _ => by simp at h
  | _ :: _, [], h, _ => by simp at h
  | k :: ks, (t, s) :: as, h, hp => by
    simp only [genList, Bool.and_eq_true]
    refine ⟨hp 0 k (t, s) rfl rfl, genList_of_pointwise G ks as (by simpa using h) ?_⟩
    intro j m a hm ha
    exact hp (j + 1) m a (by simpa using hm) (by simpa using ha)

/-- precondition of the argument loop of `__compute_max_prio__` -/
def PreA (E : Env S Unit π) (ra : List (Ty × S)) (acc : List Prog) (k : Nat) (info : Info S) (cur : NT S Unit) : Prop :=
  acc.length + k = ra.length ∧
  (∀ (j : Nat) m a, acc[j]? = some m → ra[j]? = some a → gen E.G m (argNT a) = true) ∧
  (0 < k → info = ra.drop (acc.length + 1) ∧ ∃ a, ra[acc.length]? = some a ∧ cur = argNT a)

theorem init_sound (E : Env S Unit π) (hnd : RowsNodup E.G) : ∀ n : Nat,
    (∀ s nt s', MInv E s → initNT E n s nt = some s' → MInv E s' ∧ Frame s s') ∧
    (∀ s nt rs best s' best', MInv E s → (∀ b, best = some b → gen E.G b.1 nt = true) →
      (∀ P rl, (P, rl) ∈ rs → E.G.rule? nt P = some rl) →
      maxLoop E n s nt rs best = some (s', best') →
      MInv E s' ∧ Frame s s' ∧ (∀ b, best' = some b → gen E.G b.1 nt = true)) ∧
    (∀ s k info cur acc s' arguments ra, MInv E s → PreA E ra acc k info cur →
      maxArgs E n s k info cur acc = some (s', arguments) →
      MInv E s' ∧ Frame s s' ∧
      (∀ (j : Nat) m a, arguments[j]? = some m → ra[j]? = some a → gen E.G m (argNT a) = true)) := by
  intro n
  induction n with
  | zero =>
    refine ⟨?_, ?_, ?_⟩
    · intro s nt s' _ h; simp [initNT] at h
    · intro s nt rs best s' best' _ _ _ h; simp [maxLoop] at h
    · intro s k info cur acc s' arguments ra _ _ h; simp [maxArgs] at h
  | succ n ih =>
    obtain ⟨ihI, ihL, ihA⟩ := ih
    refine ⟨?_, ?_, ?_⟩
    · -- initNT
      intro s nt s' hm h
      unfold initNT at h
      split at h
      · cases h; exact ⟨hm, Frame.refl _⟩
      · cases hrs : AList.lookup nt E.G.rules with
        | none => simp [hrs] at h
        | some rs =>
          simp only [hrs] at h
          split at h
          · cases h; exact ⟨hm, Frame.refl _⟩
          · have hm0 : MInv E { s with initS := s.initS ++ [nt] } := ⟨hm.rule_gen, hm.nt_gen, hm.cache_ok⟩
            cases hml : maxLoop E n { s with initS := s.initS ++ [nt] } nt rs none with
            | none => simp [hml] at h
            | some sb =>
              obtain ⟨s1, best⟩ := sb
              simp only [hml] at h
              have hrule : ∀ P rl, (P, rl) ∈ rs → E.G.rule? nt P = some rl := by
                intro P rl hmem
                unfold TT.rule?
                rw [hrs]
                exact AList.lookup_of_mem_nodup (hnd nt rs hrs) hmem
              obtain ⟨hm1, hf1, hb⟩ := ihL _ _ _ _ _ _ hm0 (by intro b hb; cases hb) hrule hml
              have hf1' : Frame s s1 := hf1
              cases best with
              | none =>
                simp only [Option.some.injEq] at h
                subst h
                exact ⟨⟨hm1.rule_gen, hm1.nt_gen, hm1.cache_ok⟩, hf1'⟩
              | some b =>
                simp only [Option.some.injEq] at h
                subst h
                refine ⟨⟨hm1.rule_gen, ?_, hm1.cache_ok⟩, hf1'⟩
                intro nt' m hl
                simp only at hl
                rw [AList.lookup_insert] at hl
                split at hl
                · rename_i heq; cases hl; subst heq; exact hb b rfl
                · exact hm1.nt_gen nt' m hl
    · -- maxLoop
      intro s nt rs best s' best' hm hbest hrule h
      cases rs with
      | nil =>
        simp only [maxLoop, Option.some.injEq, Prod.mk.injEq] at h
        obtain ⟨rfl, rfl⟩ := h
        exact ⟨hm, Frame.refl _, hbest⟩
      | cons hd rest =>
        obtain ⟨P, rl⟩ := hd
        obtain ⟨ra, u⟩ := rl
        cases u
        have hr : E.G.rule? nt P = some (ra, ()) := hrule P (ra, ()) (List.mem_cons_self)
        have hrule' : ∀ P rl, (P, rl) ∈ rest → E.G.rule? nt P = some rl :=
          fun P rl hmem => hrule P rl (List.mem_cons_of_mem _ hmem)
        unfold maxLoop at h
        dsimp only at h
        -- the tail of the iteration once the candidate program is built
        have key : ∀ (s1 : St S Unit π) (prog : Prog) (c : AList (Prog × NT S Unit) π) (bb : Option (Prog × π)),
            MInv E s1 → Frame s s1 → gen E.G prog nt = true → CacheOK E c →
            (∀ b, bb = some b → b.1 = prog ∨ best = some b) →
            maxLoop E n { s1 with cache := c, maxRule := AList.insert (nt, P) prog s1.maxRule } nt rest bb
              = some (s', best') →
            MInv E s' ∧ Frame s s' ∧ (∀ b, best' = some b → gen E.G b.1 nt = true) := by
          intro s1 prog c bb hm1 hf1 hg hcc hbb h1
          have hm2 : MInv E { s1 with cache := c, maxRule := AList.insert (nt, P) prog s1.maxRule } := by
            refine ⟨?_, hm1.nt_gen, hcc⟩
            intro nt' P' prog' hl
            simp only at hl
            rw [AList.lookup_insert] at hl
            split at hl
            · rename_i heq; cases hl; cases heq; exact hg
            · exact hm1.rule_gen nt' P' prog' hl
          have hb2 : ∀ b, bb = some b → gen E.G b.1 nt = true := by
            intro b hb
            rcases hbb b hb with h | h
            · rw [h]; exact hg
            · exact hbest b h
          obtain ⟨a1, a2, a3⟩ := ihL _ _ _ _ _ _ hm2 hb2 hrule' h1
          exact ⟨a1, hf1.trans a2, a3⟩
        by_cases hlen : ra.length > 0
        · rw [if_pos hlen] at h
          unfold derive at h
          rw [hr] at h
          dsimp only at h
          split at h
          · simp at h
          · rename_i s1 hb
            split at hb
            · simp at hb
            · rename_i s1' arguments hma
              have hpre : PreA E ra [] ra.length (deriveWith [] nt ra ()).1 (deriveWith [] nt ra ()).2 := by
                refine ⟨by simp, by intro j m a hj; simp at hj, ?_⟩
                intro _
                cases ra with
                | nil => simp at hlen
                | cons a0 as0 =>
                  obtain ⟨t0, s0⟩ := a0
                  exact ⟨by simp [deriveWith], (t0, s0), by simp, by simp [deriveWith, argNT]⟩
              obtain ⟨hm1, hf1, hargs⟩ := ihA _ _ _ _ _ _ _ _ hm hpre hma
              split at hb
              · simp only [Option.some.injEq, Prod.mk.injEq] at hb
                obtain ⟨rfl, _⟩ := hb
                obtain ⟨a1, a2, a3⟩ := ihL _ _ _ _ _ _ hm1 hbest hrule' h
                exact ⟨a1, hf1.trans a2, a3⟩
              · simp at hb
          · rename_i s1 prog hb
            split at hb
            · simp at hb
            · rename_i s1' arguments hma
              have hpre : PreA E ra [] ra.length (deriveWith [] nt ra ()).1 (deriveWith [] nt ra ()).2 := by
                refine ⟨by simp, by intro j m a hj; simp at hj, ?_⟩
                intro _
                cases ra with
                | nil => simp at hlen
                | cons a0 as0 =>
                  obtain ⟨t0, s0⟩ := a0
                  exact ⟨by simp [deriveWith], (t0, s0), by simp, by simp [deriveWith, argNT]⟩
              obtain ⟨hm1, hf1, hargs⟩ := ihA _ _ _ _ _ _ _ _ hm hpre hma
              split at hb
              · simp at hb
              · rename_i hal
                simp only [Option.some.injEq, Prod.mk.injEq] at hb
                obtain ⟨rfl, rfl⟩ := hb
                have hal' : arguments.length = ra.length := by simpa using hal
                have hg : gen E.G (.node P arguments) nt = true := by
                  rw [gen, hr]
                  exact genList_of_pointwise E.G arguments ra hal' hargs
                split at h
                · simp at h
                · rename_i c pr hcp
                  refine key _ _ _ _ hm1 hf1 hg (computePrio_spec E _ hm1.cache_ok nt _ hg c pr hcp).2 ?_ h
                  intro b hb
                  split at hb
                  · simp only [Option.some.injEq] at hb; subst hb; exact Or.inl rfl
                  · split at hb
                    · simp only [Option.some.injEq] at hb; subst hb; exact Or.inl rfl
                    · simp only [Option.some.injEq] at hb; subst hb; exact Or.inr rfl
        · rw [if_neg hlen] at h
          dsimp only at h
          have hra : ra = [] := by
            cases ra with
            | nil => rfl
            | cons _ _ => simp at hlen
          subst hra
          have hg : gen E.G (.node P []) nt = true := by rw [gen, hr]; rfl
          split at h
          · simp at h
          · rename_i c pr hcp
            refine key _ _ _ _ hm (Frame.refl _) hg (computePrio_spec E _ hm.cache_ok nt _ hg c pr hcp).2 ?_ h
            intro b hb
            split at hb
            · simp only [Option.some.injEq] at hb; subst hb; exact Or.inl rfl
            · split at hb
              · simp only [Option.some.injEq] at hb; subst hb; exact Or.inl rfl
              · simp only [Option.some.injEq] at hb; subst hb; exact Or.inr rfl
    · -- maxArgs
      intro s k info cur acc s' arguments ra hm hpre h
      cases k with
      | zero =>
        simp only [maxArgs, Option.some.injEq, Prod.mk.injEq] at h
        obtain ⟨rfl, rfl⟩ := h
        exact ⟨hm, Frame.refl _, hpre.2.1⟩
      | succ k =>
        unfold maxArgs at h
        cases hi : initNT E n s cur with
        | none => simp [hi] at h
        | some s1 =>
          simp only [hi] at h
          obtain ⟨hm1, hf1⟩ := ihI _ _ _ hm hi
          cases hl : AList.lookup cur s1.maxNT with
          | none =>
            simp only [hl, Option.some.injEq, Prod.mk.injEq] at h
            obtain ⟨rfl, rfl⟩ := h
            exact ⟨hm1, hf1, hpre.2.1⟩
          | some m =>
            simp only [hl] at h
            cases hda : deriveAll E.G m info cur with
            | none => simp [hda] at h
            | some r =>
              simp only [hda] at h
              have hgm := hm1.nt_gen cur m hl
              obtain ⟨hlen, hacc, hk⟩ := hpre
              obtain ⟨hinfo, a, ha, hcur⟩ := hk (by omega)
              obtain ⟨r2, hr2, hadv1, hadv2⟩ := deriveAll_gen E.G m cur info hgm
              rw [hda] at hr2; cases hr2
              have hpre' : PreA E ra (acc ++ [m]) k r.1 r.2 := by
                refine ⟨by simp; omega, ?_, ?_⟩
                · intro j m' a' hj ha'
                  by_cases hjl : j < acc.length
                  · rw [List.getElem?_append_left hjl] at hj
                    exact hacc j m' a' hj ha'
                  · have hjl' : acc.length ≤ j := by omega
                    rw [List.getElem?_append_right hjl'] at hj
                    have hj0 : j - acc.length = 0 := by
                      cases hjj : j - acc.length with
                      | zero => rfl
                      | succ q => rw [hjj] at hj; simp at hj
                    rw [hj0] at hj
                    simp only [List.getElem?_cons_zero, Option.some.injEq] at hj
                    subst hj
                    have : j = acc.length := by omega
                    subst this
                    rw [ha] at ha'; cases ha'
                    rw [← hcur]; exact hgm
                · intro hk0
                  have hlt : acc.length + 1 < ra.length := by omega
                  have hdrop : ra.drop (acc.length + 1) = ra[acc.length + 1] :: ra.drop (acc.length + 1 + 1) :=
                    List.drop_eq_getElem_cons hlt
                  refine ⟨?_, ra[acc.length + 1], ?_, ?_⟩
                  · rw [hadv1, hinfo, hdrop]; simp
                  · simp [List.getElem?_eq_getElem hlt]
                  · exact hadv2 _ _ (by rw [hinfo, hdrop])
              obtain ⟨a1, a2, a3⟩ := ihA _ _ _ _ _ _ _ _ hm1 hpre' h
              exact ⟨a1, hf1.trans a2, a3⟩

/-! ### the prologue and the generator loop -/

theorem initNT_sound (E : Env S Unit π) (hnd : RowsNodup E.G) {n s nt s'} (hm : MInv E s)
    (h : initNT E n s nt = some s') : MInv E s' ∧ Frame s s' := (init_sound E hnd n).1 s nt s' hm h

theorem reevalPass_sound (E : Env S Unit π) (hnd : RowsNodup E.G) (fuel : Nat) :
    ∀ (nts : List (NT S Unit)) (s : St S Unit π) (ch : Bool) (s' : St S Unit π) (ch' : Bool),
      MInv E s → reevalPass E fuel nts s ch = some (s', ch') → MInv E s' ∧ Frame s s' := by
  intro nts
  induction nts with
  | nil =>
    intro s ch s' ch' hm h
    simp only [reevalPass, Option.some.injEq, Prod.mk.injEq] at h
    obtain ⟨rfl, _⟩ := h
    exact ⟨hm, Frame.refl _⟩
  | cons nt rest ih =>
    intro s ch s' ch' hm h
    unfold reevalPass at h
    cases hi : initNT E fuel s nt with
    | none => simp [hi] at h
    | some s1 =>
      simp only [hi] at h
      obtain ⟨hm1, hf1⟩ := initNT_sound E hnd hm hi
      obtain ⟨a1, a2⟩ := ih _ _ _ _ hm1 h
      exact ⟨a1, hf1.trans a2⟩

theorem reevaluate_sound (E : Env S Unit π) (hnd : RowsNodup E.G) (fuel : Nat) :
    ∀ (k : Nat) (s s' : St S Unit π), MInv E s → reevaluate E fuel k s = some s' → MInv E s' ∧ Frame s s' := by
  intro k
  induction k with
  | zero => intro s s' _ h; simp [reevaluate] at h
  | succ k ih =>
    intro s s' hm h
    unfold reevaluate at h
    cases hp : reevalPass E fuel (AList.keys E.G.rules) s false with
    | none => simp [hp] at h
    | some r =>
      obtain ⟨s1, ch⟩ := r
      obtain ⟨hm1, hf1⟩ := reevalPass_sound E hnd fuel _ _ _ _ _ hm hp
      cases ch with
      | true =>
        simp only [hp] at h
        obtain ⟨a1, a2⟩ := ih _ _ hm1 h
        exact ⟨a1, hf1.trans a2⟩
      | false =>
        simp only [hp, Option.some.injEq] at h
        subst h
        exact ⟨hm1, hf1⟩

theorem pushNew_maxRule (E : Env S Unit π) (s : St S Unit π) (nt : NT S Unit) (np : Prog) :
    (pushNew E s nt np).maxRule = s.maxRule ∧ (pushNew E s nt np).maxNT = s.maxNT := by
  unfold pushNew
  simp only
  split
  · exact ⟨rfl, rfl⟩
  · split <;> exact ⟨rfl, rfl⟩

theorem initHeapLoop_sound (E : Env S Unit π) (nt : NT S Unit) :
    ∀ (Ps : List Sym) (s s' : St S Unit π), SInv E s → MInv E s → initHeapLoop E nt Ps s = some s' →
      SInv E s' ∧ MInv E s' := by
  intro Ps
  induction Ps with
  | nil =>
    intro s s' hs hm h
    simp only [initHeapLoop, Option.some.injEq] at h
    subst h; exact ⟨hs, hm⟩
  | cons P rest ih =>
    intro s s' hs hm h
    unfold initHeapLoop at h
    cases hl : AList.lookup (nt, P) s.maxRule with
    | none => simp [hl] at h
    | some prog =>
      simp only [hl] at h
      split at h
      · simp at h
      · have hg := hm.rule_gen nt P prog hl
        split at h
        · simp at h
        · rename_i r hcp
          have heq : (if pushOK E.ops r.2 = true then
                St.setHeap { s.addSeen nt prog with cache := r.1 } nt
                  (Heapq.push (ltE E.ops) (St.heapOf { s.addSeen nt prog with cache := r.1 } nt) (r.2, prog))
              else { s.addSeen nt prog with cache := r.1 }) = pushNew E s nt prog := by
            unfold pushNew
            simp only [hcp]
          rw [heq] at h
          have hs1 := hs.pushNew nt prog hg
          have hmr := pushNew_maxRule E s nt prog
          have hm1 : MInv E (pushNew E s nt prog) :=
            ⟨fun a b c hh => hm.rule_gen a b c (hmr.1 ▸ hh), fun a b hh => hm.nt_gen a b (hmr.2 ▸ hh), hs1.cache_ok⟩
          exact ih _ _ hs1 hm1 h

theorem initHeaps_sound (E : Env S Unit π) :
    ∀ (rows : List (NT S Unit × AList Sym (List (Ty × S) × Unit))) (s s' : St S Unit π),
      SInv E s → MInv E s → initHeaps E rows s = some s' → SInv E s' ∧ MInv E s' := by
  intro rows
  induction rows with
  | nil =>
    intro s s' hs hm h
    simp only [initHeaps, Option.some.injEq] at h
    subst h; exact ⟨hs, hm⟩
  | cons row rest ih =>
    intro s s' hs hm h
    obtain ⟨nt, rs⟩ := row
    unfold initHeaps at h
    cases hl : initHeapLoop E nt (AList.keys rs) s with
    | none => simp [hl] at h
    | some s1 =>
      simp only [hl] at h
      obtain ⟨hs1, hm1⟩ := initHeapLoop_sound E nt _ _ _ hs hm hl
      exact ih _ _ hs1 hm1 h

theorem query_sound (E : Env S Unit π) {n s nt p s' r} (hs : SInv E s)
    (h : query E n s nt p = some (s', r)) : SInv E s' ∧ ∀ q, r = some q → gen E.G q nt = true :=
  big_sound E (big_of_query E h) hs trivial

theorem firstQueries_sound (E : Env S Unit π) (fuel : Nat) :
    ∀ (nts : List (NT S Unit)) (s s' : St S Unit π), SInv E s → firstQueries E fuel nts s = some s' → SInv E s' := by
  intro nts
  induction nts with
  | nil =>
    intro s s' hs h
    simp only [firstQueries, Option.some.injEq] at h
    subst h; exact hs
  | cons nt rest ih =>
    intro s s' hs h
    unfold firstQueries at h
    cases hq : query E fuel s nt none with
    | none => simp [hq] at h
    | some r =>
      simp only [hq] at h
      exact ih _ _ (query_sound E hs (r := r.2) (s' := r.1) hq).1 h

theorem prologue_sound (E : Env S Unit π) (hnd : RowsNodup E.G) (fuel : Nat) (s s' : St S Unit π)
    (hs : SInv E s) (hm : MInv E s) (h : prologue E fuel s = some s') : SInv E s' := by
  unfold prologue at h
  cases h1 : initNT E fuel s E.G.start with
  | none => simp [h1] at h
  | some s1 =>
    simp only [h1] at h
    obtain ⟨hm1, hf1⟩ := initNT_sound E hnd hm h1
    cases h2 : reevaluate E fuel fuel s1 with
    | none => simp [h2] at h
    | some s2 =>
      simp only [h2] at h
      obtain ⟨hm2, hf2⟩ := reevaluate_sound E hnd fuel _ _ _ hm1 h2
      cases h3 : initHeaps E E.G.rules s2 with
      | none => simp [h3] at h
      | some s3 =>
        simp only [h3] at h
        obtain ⟨hs3, _⟩ := initHeaps_sound E _ _ _ (hf2.sinv (hf1.sinv hs hm1.cache_ok) hm2.cache_ok) hm2 h3
        exact firstQueries_sound E fuel _ _ _ hs3 h

theorem SInv.addDeleted {E : Env S Unit π} {s : St S Unit π} (h : SInv E s) (p : Prog) : SInv E (s.addDeleted p) := by
  unfold St.addDeleted
  split
  · exact h
  · exact h.congr (fun _ => rfl) (fun _ => rfl) (fun _ => rfl) h.cache_ok

theorem nextLoop_sound (E : Env S Unit π) (fuel : Nat) :
    ∀ (k : Nat) (s : St S Unit π) (cur : Option Prog) (g' : Gen S Unit π) (r : Option Prog),
      SInv E s → nextLoop E fuel k s cur = some (g', r) →
      SInv E g'.st ∧ g'.started = true ∧ ∀ p, r = some p → gen E.G p E.G.start = true := by
  intro k
  induction k with
  | zero => intro s cur g' r _ h; simp [nextLoop] at h
  | succ k ih =>
    intro s cur g' r hs h
    unfold nextLoop at h
    cases hq : query E fuel s E.G.start cur with
    | none => simp [hq] at h
    | some sr =>
      obtain ⟨s1, o⟩ := sr
      obtain ⟨hs1, hg⟩ := query_sound E hs hq
      cases o with
      | none =>
        simp only [hq, Option.some.injEq, Prod.mk.injEq] at h
        obtain ⟨rfl, rfl⟩ := h
        exact ⟨hs1, rfl, by intro p hp; cases hp⟩
      | some p =>
        simp only [hq] at h
        split at h
        · simp only [Option.some.injEq, Prod.mk.injEq] at h
          obtain ⟨rfl, rfl⟩ := h
          refine ⟨hs1, rfl, ?_⟩
          intro p' hp'; cases hp'; exact hg _ rfl
        · exact ih _ _ _ _ (hs1.addDeleted p) h

/-- the invariant of the generator object -/
def GInv (E : Env S Unit π) (g : Gen S Unit π) : Prop :=
  SInv E g.st ∧ (g.started = false → MInv E g.st)

theorem getD_lookup_map_const {κ ν β : Type} [DecidableEq κ] (l : List (κ × β)) (k : κ) (c : ν) :
    (AList.lookup k (l.map (fun r => (r.1, c)))).getD c = c := by
  induction l with
  | nil => rfl
  | cons a r ih =>
    simp only [List.map_cons, AList.lookup]
    split
    · rfl
    · exact ih

theorem ginv_new (E : Env S Unit π) : GInv E (Gen.new E.G) := by
  have hseen : ∀ nt, (St.empty E.G : St S Unit π).seenOf nt = [] := fun nt => getD_lookup_map_const _ _ _
  have hheap : ∀ nt, (St.empty E.G : St S Unit π).heapOf nt = [] := fun nt => getD_lookup_map_const _ _ _
  have hsucc : ∀ nt, (St.empty E.G : St S Unit π).succOf nt = [] := fun nt => getD_lookup_map_const _ _ _
  have hcache : CacheOK E (St.empty E.G : St S Unit π).cache := by
    intro p nt v h; simp [St.empty] at h
  refine ⟨⟨?_, ?_, ?_, hcache, ?_⟩, fun _ => ⟨?_, ?_, hcache⟩⟩
  · intro nt p hp
    have : p ∈ (St.empty E.G : St S Unit π).seenOf nt := hp
    rw [hseen] at this; cases this
  · intro nt e he
    have : e ∈ (St.empty E.G : St S Unit π).heapOf nt := he
    rw [hheap] at this; cases this
  · intro nt k v hk
    have : AList.lookup k ((St.empty E.G : St S Unit π).succOf nt) = some v := hk
    rw [hsucc] at this; simp at this
  · intro nt e he
    have : e ∈ (St.empty E.G : St S Unit π).heapOf nt := he
    rw [hheap] at this; cases this
  · intro nt P prog h; simp [Gen.new, St.empty] at h
  · intro nt m h; simp [Gen.new, St.empty] at h

theorem next_sound (E : Env S Unit π) (hnd : RowsNodup E.G) (fuel : Nat) (g g' : Gen S Unit π) (r : Option Prog)
    (hg : GInv E g) (h : next E fuel g = some (g', r)) :
    GInv E g' ∧ ∀ p, r = some p → gen E.G p E.G.start = true := by
  unfold next at h
  cases hst : g.started with
  | true =>
    simp only [hst, if_true] at h
    obtain ⟨a1, a2, a3⟩ := nextLoop_sound E fuel _ _ _ _ _ hg.1 h
    exact ⟨⟨a1, fun hh => by rw [a2] at hh; cases hh⟩, a3⟩
  | false =>
    simp only [hst, Bool.false_eq_true, if_false] at h
    cases hp : prologue E fuel g.st with
    | none => simp [hp] at h
    | some s =>
      simp only [hp] at h
      have hs := prologue_sound E hnd fuel _ _ hg.1 (hg.2 hst) hp
      obtain ⟨a1, a2, a3⟩ := nextLoop_sound E fuel _ _ _ _ _ hs h
      exact ⟨⟨a1, fun hh => by rw [a2] at hh; cases hh⟩, a3⟩

theorem take_sound (E : Env S Unit π) (hnd : RowsNodup E.G) (fuel : Nat) :
    ∀ (k : Nat) (g : Gen S Unit π) (acc : List Prog) (g' : Gen S Unit π) (out : List Prog) (b : Bool),
      GInv E g → (∀ p ∈ acc, gen E.G p E.G.start = true) → take E fuel k g acc = some (g', out, b) →
      GInv E g' ∧ ∀ p ∈ out, gen E.G p E.G.start = true := by
  intro k
  induction k with
  | zero =>
    intro g acc g' out b hg hacc h
    simp only [take, Option.some.injEq, Prod.mk.injEq] at h
    obtain ⟨rfl, rfl, _⟩ := h
    exact ⟨hg, hacc⟩
  | succ k ih =>
    intro g acc g' out b hg hacc h
    unfold take at h
    cases hn : next E fuel g with
    | none => simp [hn] at h
    | some gr =>
      obtain ⟨g1, r⟩ := gr
      obtain ⟨hg1, hr⟩ := next_sound E hnd fuel _ _ _ hg hn
      cases r with
      | none =>
        simp only [hn, Option.some.injEq, Prod.mk.injEq] at h
        obtain ⟨rfl, rfl, _⟩ := h
        exact ⟨hg1, hacc⟩
      | some p =>
        simp only [hn] at h
        refine ih _ _ _ _ _ hg1 ?_ h
        intro q hq
        rcases List.mem_append.mp hq with hq | hq
        · exact hacc q hq
        · simp only [List.mem_singleton] at hq; subst hq; exact hr _ rfl

/-- decidable sufficient condition for `RowsNodup` (a literal rule table) -/
theorem rowsNodup_of_all (G : TT S Unit)
    (h : G.rules.all (fun e => decide ((AList.keys e.2).Nodup)) = true) : RowsNodup G := by
  intro nt rs hl
  have := List.all_eq_true.mp h (nt, rs) (AList.lookup_some_mem hl)
  simpa using this

end PS.HS
