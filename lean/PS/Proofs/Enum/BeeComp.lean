/- Bee search, the invariants of COMPLETENESS (no merge declaration, any filter; rules with arguments cost > 0,
   non-negative cost table): (P) every pending combination's parent has a cost in the cost list; (D) every program
   that can be built from an EXPANDED combination and the argument banks at its indices is banked, or is still in
   the suspended product, unless the filter rejects it; "no late arrival": a program never enters a bank at an
   index used by an expanded combination. -/
import PS.Proofs.Enum.BeeCost
import PS.Proofs.Enum.BeeCover
import PS.Proofs.Enum.BeeOffer
import PS.Proofs.Enum.BeeOrderRun
namespace PS.Bee
open PS PS.G

variable {S : Type} [DecidableEq S]
set_option linter.unusedSectionVars false
set_option linter.unusedSimpArgs false

/-- `p` is among the candidate programs of the suspended product of `nt` -/
def Offered (g : Gen S) (nt : NT S Unit) (p : Prog) : Prop :=
  match g.phase with
  | .pend _ _ nt' _ _ _ pending => nt' = nt ∧ p ∈ pending
  | _ => False

/-- the `i`-th program of `kids` sits in the bank of the `i`-th argument at index `c[i]` -/
def Prem (s : St S) (args : List (Ty × S)) (c : List Nat) (kids : List Prog) : Prop :=
  c.length = args.length ∧ kids.length = args.length ∧
  ∀ (i : Nat) (a : Ty × S) (k : Prog) (v : Nat), args[i]? = some a → kids[i]? = some k → c[i]? = some v →
    inBank s (a.1, (a.2, ())) v k

def DInv (E : Env S) (g : Gen S) : Prop :=
  ∀ nt P args c kids, ruleArgs E nt P = some args → Done (pend g.st nt P) c → Prem g.st args c kids →
    E.filter (.node P kids) = true → (∃ ci, inBank g.st nt ci (.node P kids)) ∨ Offered g nt (.node P kids)

/-- without merge declarations `_deleted` only holds rejected programs -/
def DelOK (E : Env S) (s : St S) : Prop := ∀ p, s.deleted.contains p = true → E.filter p = false

structure GC (E : Env S) (g : Gen S) : Prop where
  p : PSt E g.st
  d : DInv E g
  del : DelOK E g.st

theorem pst_frame (E : Env S) {s s' : St S} (hcl : s'.costList = s.costList ∨ ∃ x, s'.costList = s.costList ++ [x])
    (hp : ∀ nt P, (pend s' nt P).Perm (pend s nt P)) (h : PSt E s) : PSt E s' := by
  intro nt P u hu hnz
  obtain ⟨x, hx, hxin⟩ := h nt P u ((hp nt P).mem_iff.mp hu) hnz
  rcases hcl with hcl | ⟨y, hcl⟩
  · rw [hcl]; exact ⟨x, hx, hxin⟩
  · rw [hcl]; exact ⟨x, realCost_append E _ _ _ _ _ _ hx, List.mem_append_left _ hxin⟩

/-- frame for steps that leave the banks alone, permute the pending combinations and are outside a product -/
theorem dinv_frame (E : Env S) {g g' : Gen S} (hbank : g'.st.bank = g.st.bank)
    (hp : ∀ nt P, (pend g'.st nt P).Perm (pend g.st nt P)) (hoff : ∀ nt p, ¬ Offered g nt p) (h : DInv E g) : DInv E g' := by
  intro nt P args c kids ha hd hprem hf
  have hprem' : Prem g.st args c kids :=
    ⟨hprem.1, hprem.2.1, fun i a k v h1 h2 h3 => (inBank_of_bank_eq hbank _ _ _).mp (hprem.2.2 i a k v h1 h2 h3)⟩
  rcases h nt P args c kids ha (hd.perm (hp nt P).symm) hprem' hf with ⟨ci, hin⟩ | hoffd
  · exact Or.inl ⟨ci, (inBank_of_bank_eq hbank _ _ _).mpr hin⟩
  · exact absurd hoffd (hoff nt _)

theorem addProgram_deleted_cases (E : Env S) (s : St S) (nt : NT S Unit) (p : Prog) (ci : Nat) :
    ((addProgram E s nt p ci).1.deleted = s.deleted ∨
      ((addProgram E s nt p ci).1.deleted = s.deleted ++ [p] ∧ E.filter p = false)) ∧
    ((addProgram E s nt p ci).2 = false → s.deleted.contains p = true ∨ E.filter p = false) := by
  unfold addProgram
  by_cases hd : s.deleted.contains p = true
  · rw [if_pos hd]; exact ⟨Or.inl rfl, fun _ => Or.inl hd⟩
  · rw [if_neg hd]
    by_cases hf : E.filter p = true
    · have hnf : ¬ ((!E.filter p) = true) := by simp [hf]
      rw [if_neg hnf]; exact ⟨Or.inl rfl, fun h => by simp at h⟩
    · have hnf : (!E.filter p) = true := by simpa using hf
      rw [if_pos hnf]; exact ⟨Or.inr ⟨rfl, by simpa using hf⟩, fun _ => Or.inr (by simpa using hf)⟩

/-- **one step keeps the completeness invariants** -/
theorem step_comp (E : Env S) (hpos : PosArgs E) (g g' : Gen S) (out : Option Prog) (b : Int)
    (h : step E g = some (g', out)) (hi : GInv E g) (hn : GN E g) (ho : GOrd E g b) (hc : GC E g) : GC E g' := by
  have triv : ∀ g2 : Gen S, g2.st = g.st → (∀ nt p, ¬ Offered g nt p) → GC E g2 := by
    intro g2 hst hoff
    refine ⟨by rw [hst]; exact hc.p, ?_, by rw [hst]; exact hc.del⟩
    exact dinv_frame E (by rw [hst]) (fun nt P => by rw [hst]) hoff hc.d
  unfold step at h
  split at h
  · rename_i hph
    simp only [Option.some.injEq, Prod.mk.injEq] at h; obtain ⟨rfl, _⟩ := h; exact hc
  · rename_i hph
    simp only [Option.some.injEq, Prod.mk.injEq] at h; obtain ⟨rfl, _⟩ := h
    exact triv _ rfl (fun nt p => by simp [Offered, hph])
  · rename_i hph
    dsimp only at h
    split at h
    · split at h
      all_goals (repeat' (split at h))
      all_goals
        simp only [Option.some.injEq, Prod.mk.injEq] at h; obtain ⟨rfl, _⟩ := h
        exact triv _ rfl (fun nt p => by simp [Offered, hph])
    · simp only [Option.some.injEq, Prod.mk.injEq] at h; obtain ⟨rfl, _⟩ := h
      exact triv _ rfl (fun nt p => by simp [Offered, hph])
  · rename_i hph
    simp only [Option.some.injEq, Prod.mk.injEq] at h; obtain ⟨rfl, _⟩ := h
    exact triv _ rfl (fun nt p => by simp [Offered, hph])
  · -- forS (nt :: rest): `_add_cost_`
    rename_i succ cost nt rest hph
    simp only at h
    split at h
    · simp at h
    · rename_i s1 ci hac
      simp only [Option.some.injEq, Prod.mk.injEq] at h; obtain ⟨rfl, _⟩ := h
      obtain ⟨_, hbank, hdel, _, _, hcase⟩ := addCost_all E (fun _ _ => True) (fun _ _ => True) (fun _ _ => True) (fun _ _ => True)
        (fun _ _ => True) _ s1 cost ci hac (fun _ _ _ => trivial) (fun _ _ _ => trivial) (fun _ _ _ _ _ _ _ _ => trivial)
        (fun _ _ _ _ _ _ => trivial) (fun _ _ _ _ _ => trivial) (fun _ _ _ _ _ => trivial)
      have hpend := addCost_pend E _ s1 cost ci hac
      have hcl : s1.costList = g.st.costList ∨ ∃ x, s1.costList = g.st.costList ++ [x] := by
        rcases hcase with ⟨rfl, _⟩ | ⟨hcl, _⟩
        · exact Or.inl rfl
        · exact Or.inr ⟨cost, hcl⟩
      refine ⟨pst_frame E (s := g.st) hcl (fun nt P => hpend nt P) hc.p, ?_, ?_⟩
      · exact dinv_frame E (g := g) hbank (fun nt P => hpend nt P) (fun nt p => by simp [Offered, hph]) hc.d
      · intro p hp; exact hc.del p (by rw [← hdel]; exact hp)
  · -- whileQ
    rename_i succ cost nt rest maxi ci hph
    have hcostin : cost ∈ g.st.costList := by
      have := hi.ph; rw [hph] at this
      exact List.mem_of_getElem? this
    simp only at h
    split at h
    · simp only [Option.some.injEq, Prod.mk.injEq] at h; obtain ⟨rfl, _⟩ := h
      exact ⟨hc.p, dinv_frame E (g := g) rfl (fun _ _ => List.Perm.refl _) (fun nt p => by simp [Offered, hph]) hc.d, hc.del⟩
    · rename_i top tl hq
      split at h
      · rename_i htop
        split at h
        · simp at h
        · rename_i el q' hpop
          have hhead := Heapq.pop_head ltE _ _ _ hpop
          rw [hq] at hhead
          simp only [List.head?_cons, Option.some.injEq] at hhead
          subst hhead
          have helq : top ∈ g.st.queueOf nt := by rw [hq]; exact List.mem_cons_self
          obtain ⟨l0, hl0, he0⟩ := queueOf_mem helq
          have hel : realCost E g.st.costList nt top.P top.combo = some top.cost := hi.st.queue _ _ hl0 _ he0
          split at h
          · simp at h
          · rename_i args hargs
            split at h
            · simp at h
            · rename_i s2 maxi' hsl
              obtain ⟨hbank, _, _, _, _, _, _, hlen, _, hdconv, hpconv⟩ := pop_expand E g.st s2 nt top q' args maxi maxi' hn.st hpop hargs hsl
              have hqd := (succLoop_all E (fun _ _ => True) (fun _ _ => True) nt top.P top.combo _
                (fun _ _ _ _ _ _ => trivial) (fun _ _ _ _ => trivial) _ _ _ _ _ _ hsl rfl (fun _ _ _ _ _ => trivial)
                (fun _ _ _ _ _ => trivial)).1
              have hcl2 : s2.costList = g.st.costList := hqd.cl
              have hin : ∀ nt' ci' p, inBank s2 nt' ci' p ↔ inBank g.st nt' ci' p := fun a b c => inBank_of_bank_eq hbank a b c
              have hp2 : PSt E s2 := by
                intro nt' P' u hu hnz
                rw [hcl2]
                rcases hpconv nt' P' u hu with h1 | ⟨rfl, rfl, h1⟩
                · exact hc.p nt' P' u h1 hnz
                · have hpar := ((CD.mem_succs_iff _ _).mp h1).2
                  rw [hpar]
                  exact ⟨top.cost, hel, by rw [htop]; exact hcostin⟩
              have hdel2 : DelOK E s2 := by
                intro p hp
                have e : s2.deleted = g.st.deleted := hqd.deleted
                rw [e] at hp; exact hc.del p hp
              -- the part of (D) about combinations that were already expanded
              have hold : ∀ nt' P' args' c kids, ruleArgs E nt' P' = some args' → Done (pend g.st nt' P') c →
                  Prem s2 args' c kids → E.filter (.node P' kids) = true → ∃ ci', inBank s2 nt' ci' (.node P' kids) := by
                intro nt' P' args' c kids ha' hd' hprem hf
                have hprem' : Prem g.st args' c kids :=
                  ⟨hprem.1, hprem.2.1, fun i a k v h1 h2 h3 => (hin _ _ _).mp (hprem.2.2 i a k v h1 h2 h3)⟩
                rcases hc.d nt' P' args' c kids ha' hd' hprem' hf with ⟨ci', h1⟩ | h1
                · exact ⟨ci', (hin _ _ _).mpr h1⟩
                · simp [Offered, hph] at h1
              split at h
              · simp at h
              · -- some argument bank is empty: nothing can be built from the popped combination
                rename_i hnone
                simp only [Option.some.injEq, Prod.mk.injEq] at h; obtain ⟨rfl, _⟩ := h
                refine ⟨hp2, ?_, hdel2⟩
                intro nt' P' args' c kids ha' hd' hprem hf
                rcases hdconv nt' P' c hd' with ⟨rfl, rfl, rfl⟩ | hd0
                · rw [hargs] at ha'; cases ha'
                  exfalso
                  apply no_offer s2 top.combo args 0 hnone
                  exact ⟨kids, hprem.2.1, fun j a k v h1 h2 h3 => hprem.2.2 j a k v h1 h2 (by simpa using h3)⟩
                · exact Or.inl (hold nt' P' args' c kids ha' hd0 hprem hf)
              · rename_i aps haps
                simp only [Option.some.injEq, Prod.mk.injEq] at h; obtain ⟨rfl, _⟩ := h
                refine ⟨hp2, ?_, hdel2⟩
                intro nt' P' args' c kids ha' hd' hprem hf
                rcases hdconv nt' P' c hd' with ⟨rfl, rfl, rfl⟩ | hd0
                · rw [hargs] at ha'; cases ha'
                  right
                  have := offers_all s2 top.combo args aps haps kids hprem.2.1 hprem.2.2 (by omega)
                  simp only [Offered, List.mem_map, true_and]
                  exact ⟨kids, this, rfl⟩
                · exact Or.inl (hold nt' P' args' c kids ha' hd0 hprem hf)
      · simp only [Option.some.injEq, Prod.mk.injEq] at h; obtain ⟨rfl, _⟩ := h
        exact ⟨hc.p, dinv_frame E (g := g) rfl (fun _ _ => List.Perm.refl _) (fun nt p => by simp [Offered, hph]) hc.d, hc.del⟩
  · -- pend []
    rename_i hph
    simp only [Option.some.injEq, Prod.mk.injEq] at h; obtain ⟨rfl, _⟩ := h
    exact triv _ rfl (fun nt p => by simp [Offered, hph])
  · -- pend (p :: ps)
    rename_i succ cost nt rest maxi ci p ps hph
    have hos : OSt E g.st cost := by
      have := ho; simp only [GOrd, hph, Phase.cost?] at this; exact this.1
    have hph' := hi.ph; rw [hph] at hph'
    obtain ⟨hci, _⟩ := hph'
    obtain ⟨fq, fd, fc⟩ := addProgram_frame E g.st nt p ci
    have hpendeq : ∀ nt' P', pend (addProgram E g.st nt p ci).1 nt' P' = pend g.st nt' P' := by
      intro nt' P'; unfold pend; rw [fq, fd]
    obtain ⟨hdelc, hnoadd⟩ := addProgram_deleted_cases E g.st nt p ci
    have key : PSt E (addProgram E g.st nt p ci).1 ∧ DelOK E (addProgram E g.st nt p ci).1 ∧
        ∀ nt' P' args' c kids, ruleArgs E nt' P' = some args' → Done (pend (addProgram E g.st nt p ci).1 nt' P') c →
          Prem (addProgram E g.st nt p ci).1 args' c kids → E.filter (.node P' kids) = true →
          (∃ ci', inBank (addProgram E g.st nt p ci).1 nt' ci' (.node P' kids)) ∨ (nt = nt' ∧ Tree.node P' kids ∈ ps) := by
      refine ⟨?_, ?_, ?_⟩
      · intro nt' P' u hu hnz
        rw [hpendeq] at hu; rw [fc]; exact hc.p nt' P' u hu hnz
      · intro q hq
        rcases hdelc with e | ⟨e, hf⟩
        · rw [e] at hq; exact hc.del q hq
        · rw [e] at hq
          simp only [List.contains_eq_mem, List.mem_append, List.mem_singleton, decide_eq_true_eq] at hq
          rcases hq with hq | hq
          · exact hc.del q (by simpa using hq)
          · rw [hq]; exact hf
      · intro nt' P' args' c kids ha' hd' hprem hf
        rw [hpendeq] at hd'
        rcases bankOf_addProgram E g.st nt p ci with ⟨hno, hb⟩ | ⟨hyes, hb1, hb2⟩
        · -- not added: the banks are unchanged
          have hin : ∀ a b c', inBank (addProgram E g.st nt p ci).1 a b c' ↔ inBank g.st a b c' := fun a b c' => inBank_of_bank_eq hb a b c'
          have hprem' : Prem g.st args' c kids :=
            ⟨hprem.1, hprem.2.1, fun i a k v h1 h2 h3 => (hin _ _ _).mp (hprem.2.2 i a k v h1 h2 h3)⟩
          rcases hc.d nt' P' args' c kids ha' hd' hprem' hf with ⟨ci', h1⟩ | h1
          · exact Or.inl ⟨ci', (hin _ _ _).mpr h1⟩
          · simp only [Offered, hph, List.mem_cons] at h1
            obtain ⟨hnt, hmem⟩ := h1
            rcases hmem with hmem | hmem
            · exfalso
              rcases hnoadd hno with hd1 | hd1
              · have := hc.del p hd1; rw [← hmem, hf] at this; cases this
              · rw [← hmem, hf] at hd1; cases hd1
            · exact Or.inr ⟨hnt, hmem⟩
        · have hin : ∀ nt2 cj q, inBank (addProgram E g.st nt p ci).1 nt2 cj q ↔
              (inBank g.st nt2 cj q ∨ (nt2 = nt ∧ cj = ci ∧ q = p)) := by
            intro nt2 cj q
            unfold inBank
            by_cases hnn : nt2 = nt
            · subst hnn; rw [hb1, inBank_append]; simp
            · rw [hb2 nt2 hnn]; simp [hnn]
          by_cases hnew : ∃ (i : Nat) (a : Ty × S) (v : Nat), args'[i]? = some a ∧ c[i]? = some v ∧ (a.1, (a.2, ())) = nt ∧ v = ci
          · -- "no late arrival": an expanded combination cannot use the index of the current round
            exfalso
            obtain ⟨i, a, v, hai, hvi, hant, hvci⟩ := hnew
            subst hvci
            have hiargs : i < args'.length := (List.getElem?_eq_some_iff.mp hai).1
            have hanc : ∃ u ∈ pend g.st nt' P', Anc c u := by
              rcases hd' with ⟨h1, _⟩ | h1
              · subst h1; simp at hvi
              · exact h1
            obtain ⟨y, x, hy, hxin, hyx⟩ := done_cost E g.st hc.p hos.mono nt' P' c hanc
            have hgt := realCost_gt E hpos g.st.costList hos.nonneg nt' P' args' ha' c y hy i v hiargs hvi cost hci
            have := hos.cl_le x hxin
            omega
          · have hprem' : Prem g.st args' c kids := by
              refine ⟨hprem.1, hprem.2.1, ?_⟩
              intro i a k v h1 h2 h3
              rcases (hin _ _ _).mp (hprem.2.2 i a k v h1 h2 h3) with h4 | ⟨e1, e2, _⟩
              · exact h4
              · exact absurd ⟨i, a, v, h1, h3, e1, e2⟩ hnew
            rcases hc.d nt' P' args' c kids ha' hd' hprem' hf with ⟨ci', h1⟩ | h1
            · exact Or.inl ⟨ci', (hin _ _ _).mpr (Or.inl h1)⟩
            · simp only [Offered, hph, List.mem_cons] at h1
              obtain ⟨hnt, hmem⟩ := h1
              rcases hmem with hmem | hmem
              · subst hnt
                exact Or.inl ⟨ci, (hin _ _ _).mpr (Or.inr ⟨rfl, rfl, hmem⟩)⟩
              · exact Or.inr ⟨hnt, hmem⟩
    obtain ⟨k1, k2, k3⟩ := key
    cases hap : addProgram E g.st nt p ci with | mk s1 added =>
    rw [hap] at k1 k2 k3
    simp only [hap] at h
    split at h
    all_goals
      simp only [Option.some.injEq, Prod.mk.injEq] at h; obtain ⟨rfl, _⟩ := h
      refine ⟨k1, ?_, k2⟩
      intro nt' P' args' c kids ha' hd' hprem hf
      rcases k3 nt' P' args' c kids ha' hd' hprem hf with h1 | h1
      · exact Or.inl h1
      · right; simp only [Offered]; exact h1

end PS.Bee
