/- Bee search: `HeapElement.__lt__` is a strict weak order; every queue of the machine keeps the heap invariant
   of heapq; the result of `_next_cheapest_` is the minimum of the queued costs. -/
import PS.Proofs.Enum.BeeBase
import PS.Proofs.Enum.HeapInv
import PS.Proofs.Enum.HeapRoot
namespace PS.Bee
open PS PS.G PS.Heapq

variable {S : Type} [DecidableEq S]
set_option linter.unusedSectionVars false
set_option linter.unusedSimpArgs false

theorem listLt_irrefl : ∀ a : List Nat, listLt a a = false
  | [] => rfl
  | x :: xs => by simp [listLt, listLt_irrefl xs]

theorem listLt_asymm : ∀ a b : List Nat, listLt a b = true → listLt b a = false
  | [], [], h => by simp [listLt] at h
  | [], _ :: _, _ => rfl
  | _ :: _, [], h => by simp [listLt] at h
  | x :: xs, y :: ys, h => by
    simp only [listLt] at h ⊢
    by_cases hxy : x = y
    · subst hxy; simp only [if_true] at h ⊢; exact listLt_asymm xs ys h
    · have : ¬ y = x := fun e => hxy e.symm
      simp only [hxy, if_false, decide_eq_true_eq] at h
      simp only [this, if_false, decide_eq_false_iff_not]; omega

theorem listLt_ntrans : ∀ a b c : List Nat, listLt b a = false → listLt c b = false → listLt c a = false
  | [], _, c, _, _ => by cases c <;> simp [listLt]
  | x :: xs, [], _, h1, _ => by simp [listLt] at h1
  | x :: xs, y :: ys, [], _, h2 => by simp [listLt] at h2
  | x :: xs, y :: ys, z :: zs, h1, h2 => by
    simp only [listLt] at h1 h2 ⊢
    by_cases hyx : y = x
    · subst hyx
      simp only [if_true] at h1
      by_cases hzy : z = y
      · subst hzy
        simp only [if_true] at h2 ⊢
        exact listLt_ntrans xs ys zs h1 h2
      · simp only [hzy, if_false, decide_eq_false_iff_not] at h2 ⊢; exact h2
    · simp only [hyx, if_false, decide_eq_false_iff_not] at h1
      by_cases hzy : z = y
      · subst hzy
        simp only [hyx, if_false, decide_eq_false_iff_not]; exact h1
      · simp only [hzy, if_false, decide_eq_false_iff_not] at h2
        have : ¬ z = x := by omega
        simp only [this, if_false, decide_eq_false_iff_not]; omega

/-- `HeapElement.__lt__` is a strict weak order -/
theorem ltE_weakOrder : WeakOrder ltE where
  asymm := by
    intro a b h
    unfold ltE at h ⊢
    by_cases hc : a.cost = b.cost
    · simp only [hc, if_true] at h ⊢; exact listLt_asymm _ _ h
    · have : ¬ b.cost = a.cost := fun e => hc e.symm
      simp only [hc, if_false, decide_eq_true_eq] at h
      simp only [this, if_false, decide_eq_false_iff_not]; omega
  ntrans := by
    intro a b c h1 h2
    unfold ltE at h1 h2 ⊢
    by_cases hba : b.cost = a.cost
    · simp only [hba, if_true] at h1
      by_cases hcb : c.cost = b.cost
      · have hca : c.cost = a.cost := hcb.trans hba
        simp only [hcb, if_true] at h2
        simp only [hca, if_true]
        exact listLt_ntrans _ _ _ h1 h2
      · simp only [hcb, if_false, decide_eq_false_iff_not] at h2
        have : ¬ c.cost = a.cost := by omega
        simp only [this, if_false, decide_eq_false_iff_not]; omega
    · simp only [hba, if_false, decide_eq_false_iff_not] at h1
      by_cases hcb : c.cost = b.cost
      · simp only [hcb, if_true] at h2
        have : ¬ c.cost = a.cost := by omega
        simp only [this, if_false, decide_eq_false_iff_not]; omega
      · simp only [hcb, if_false, decide_eq_false_iff_not] at h2
        have : ¬ c.cost = a.cost := by omega
        simp only [this, if_false, decide_eq_false_iff_not]; omega

theorem ltE_false_cost {a b : HeapElem} (h : ltE a b = false) : b.cost ≤ a.cost := by
  unfold ltE at h
  by_cases hc : a.cost = b.cost
  · omega
  · simp only [hc, if_false, decide_eq_false_iff_not] at h; omega

/-- every queue satisfies the heap invariant -/
def HAll (s : St S) : Prop := ∀ nt h, (nt, h) ∈ s.queued → IsHeap ltE h

theorem queueOf_isHeap {s : St S} (hh : HAll s) (nt : NT S Unit) : IsHeap ltE (s.queueOf nt) := by
  unfold St.queueOf
  cases hl : AList.lookup nt s.queued with
  | none => exact isHeap_nil _
  | some h => exact hh _ _ (AList.lookup_some_mem hl)

/-- the root of a queue is its cheapest element -/
theorem top_min {s : St S} (hh : HAll s) (nt : NT S Unit) (top : HeapElem) (tl : List HeapElem)
    (hq : s.queueOf nt = top :: tl) : ∀ e ∈ s.queueOf nt, top.cost ≤ e.cost := by
  intro e he
  have hheap := queueOf_isHeap hh nt
  obtain ⟨i, hi, rfl⟩ := List.getElem_of_mem he
  have := root_min ltE ltE_weakOrder.ntrans ltE_weakOrder.irrefl _ hheap i hi
  have h0 : (s.queueOf nt)[0]'(by omega) = top := by simp [hq]
  rw [h0] at this
  exact ltE_false_cost this

theorem addCombination_heaps (E : Env S) (s s' : St S) (nt : NT S Unit) (P : Sym) (idx : List Nat) (chk : Option Nat)
    (h : addCombination E s nt P idx chk = some s') (hh : HAll s) : HAll s' := by
  obtain ⟨_, hs⟩ := addCombination_spec E s s' nt P idx chk h
  rcases hs with ⟨_, hqe, _⟩ | ⟨_, _, c, _, hqe⟩
  · intro nt' l hm; rw [hqe] at hm; exact hh _ _ hm
  · intro nt' l hm
    rw [hqe] at hm
    rcases mem_insert hm with hm | hm
    · cases hm; exact push_isHeap ltE_weakOrder _ _ (queueOf_isHeap hh nt)
    · exact hh _ _ hm

theorem triggerElems_heaps (E : Env S) (nt : NT S Unit) : ∀ (elems : List Delayed) (s s' : St S),
    triggerElems E nt elems s = some s' → HAll s → HAll s' := by
  intro elems
  induction elems with
  | nil => intro s s' h hh; simp only [triggerElems, Option.some.injEq] at h; subst h; exact hh
  | cons d rest ih =>
    intro s s' h hh
    obtain ⟨idx, P, chk⟩ := d
    simp only [triggerElems] at h
    cases ha : addCombination E s nt P idx chk with
    | none => simp [ha] at h
    | some s1 => simp only [ha] at h; exact ih s1 s' h (addCombination_heaps E s s1 nt P idx chk ha hh)

theorem triggerAll_heaps (E : Env S) : ∀ (tab : AList (NT S Unit) (List Delayed)) (s s' : St S),
    triggerAll E tab s = some s' → HAll s → HAll s' := by
  intro tab
  induction tab with
  | nil => intro s s' h hh; simp only [triggerAll, Option.some.injEq] at h; subst h; exact hh
  | cons e rest ih =>
    intro s s' h hh
    obtain ⟨nt, elems⟩ := e
    simp only [triggerAll] at h
    cases ha : triggerElems E nt elems s with
    | none => simp [ha] at h
    | some s1 => simp only [ha] at h; exact ih s1 s' h (triggerElems_heaps E nt elems s s1 ha hh)

theorem addCost_heaps (E : Env S) (s s' : St S) (cost : Int) (ci : Nat) (h : addCost E s cost = some (s', ci))
    (hh : HAll s) : HAll s' := by
  unfold addCost at h
  by_cases hc : s.costList ≠ [] ∧ s.costList.getLast? = some cost
  · rw [if_pos hc] at h
    simp only [Option.some.injEq, Prod.mk.injEq] at h
    obtain ⟨rfl, _⟩ := h; exact hh
  · rw [if_neg hc] at h
    cases ht : triggerDelayed E { s with costList := s.costList ++ [cost] } with
    | none => simp [ht] at h
    | some s1 =>
      simp only [ht, Option.some.injEq, Prod.mk.injEq] at h
      obtain ⟨rfl, _⟩ := h
      exact triggerAll_heaps E _ _ _ ht hh

theorem succLoop_heaps (E : Env S) (nt : NT S Unit) (P : Sym) (combo : List Nat) :
    ∀ (k i : Nat) (s s' : St S) (maxi maxi' : Nat), succLoop E nt P combo i k s maxi = some (s', maxi') →
      HAll s → HAll s' := by
  intro k
  induction k with
  | zero =>
    intro i s s' maxi maxi' h hh
    simp only [succLoop, Option.some.injEq, Prod.mk.injEq] at h; obtain ⟨rfl, _⟩ := h; exact hh
  | succ k ih =>
    intro i s s' maxi maxi' h hh
    simp only [succLoop] at h
    cases hv : combo[i]? with
    | none => simp [hv] at h
    | some v =>
      simp only [hv] at h
      cases ha : addCombination E s nt P (combo.set i (v + 1)) (some i) with
      | none => simp [ha] at h
      | some s1 =>
        simp only [ha] at h
        have h1 := addCombination_heaps E s s1 nt P _ _ ha hh
        by_cases hb : v + 1 > 1
        · simp only [hb, if_true, Option.some.injEq, Prod.mk.injEq] at h; obtain ⟨rfl, _⟩ := h; exact h1
        · simp only [hb, if_false] at h; exact ih _ _ _ _ _ h h1

/-- `_next_cheapest_` returns the least cost at the root of a queue, and it is the cost of a queued element -/
theorem nextCheapestLoop_spec : ∀ (tab : AList (NT S Unit) (List HeapElem)) (cont : List (NT S Unit)) (ch : Option Int)
    (nts : List (NT S Unit)) (c : Int), nextCheapestLoop tab cont ch = (nts, some c) →
    (∀ x, ch = some x → c ≤ x) ∧
    (∀ nt h top tl, (nt, h) ∈ tab → h = top :: tl → c ≤ top.cost) ∧
    (ch = some c ∨ ∃ nt h top tl, (nt, h) ∈ tab ∧ h = top :: tl ∧ top.cost = c) := by
  intro tab
  induction tab with
  | nil =>
    intro cont ch nts c h
    simp only [nextCheapestLoop, Prod.mk.injEq] at h
    obtain ⟨_, rfl⟩ := h
    exact ⟨fun x hx => (by cases hx; exact Int.le_refl _), fun _ _ _ _ hm _ => (by cases hm), Or.inl rfl⟩
  | cons e rest ih =>
    intro cont ch nts c h
    obtain ⟨nt, heap⟩ := e
    cases heap with
    | nil =>
      simp only [nextCheapestLoop] at h
      obtain ⟨h1, h2, h3⟩ := ih _ _ _ _ h
      refine ⟨h1, ?_, ?_⟩
      · intro nt' h' top tl hm he
        rcases List.mem_cons.mp hm with hm | hm
        · cases hm; cases he
        · exact h2 _ _ _ _ hm he
      · rcases h3 with h3 | ⟨a, b, c', d, hm, he, hc⟩
        · exact Or.inl h3
        · exact Or.inr ⟨a, b, c', d, List.mem_cons_of_mem _ hm, he, hc⟩
    | cons item tl0 =>
      simp only [nextCheapestLoop] at h
      cases ch with
      | none =>
        simp only at h
        obtain ⟨h1, h2, h3⟩ := ih _ _ _ _ h
        have hle : c ≤ item.cost := h1 _ rfl
        refine ⟨fun x hx => (by cases hx), ?_, ?_⟩
        · intro nt' h' top tl hm he
          rcases List.mem_cons.mp hm with hm | hm
          · cases hm; cases he; exact hle
          · exact h2 _ _ _ _ hm he
        · rcases h3 with h3 | ⟨a, b, c', d, hm, he, hc⟩
          · exact Or.inr ⟨nt, _, item, tl0, List.mem_cons_self, rfl, (Option.some.inj h3)⟩
          · exact Or.inr ⟨a, b, c', d, List.mem_cons_of_mem _ hm, he, hc⟩
      | some x =>
        simp only at h
        by_cases hle : item.cost ≤ x
        · rw [if_pos hle] at h
          by_cases hlt : item.cost < x
          · rw [if_pos hlt] at h
            obtain ⟨h1, h2, h3⟩ := ih _ _ _ _ h
            have hci : c ≤ item.cost := h1 _ rfl
            refine ⟨fun y hy => (by cases hy; omega), ?_, ?_⟩
            · intro nt' h' top tl hm he
              rcases List.mem_cons.mp hm with hm | hm
              · cases hm; cases he; exact hci
              · exact h2 _ _ _ _ hm he
            · rcases h3 with h3 | ⟨a, b, c', d, hm, he, hc⟩
              · exact Or.inr ⟨nt, _, item, tl0, List.mem_cons_self, rfl, (Option.some.inj h3)⟩
              · exact Or.inr ⟨a, b, c', d, List.mem_cons_of_mem _ hm, he, hc⟩
          · rw [if_neg hlt] at h
            obtain ⟨h1, h2, h3⟩ := ih _ _ _ _ h
            have hcx : c ≤ x := h1 _ rfl
            refine ⟨fun y hy => (by cases hy; exact hcx), ?_, ?_⟩
            · intro nt' h' top tl hm he
              rcases List.mem_cons.mp hm with hm | hm
              · cases hm; cases he; omega
              · exact h2 _ _ _ _ hm he
            · rcases h3 with h3 | ⟨a, b, c', d, hm, he, hc⟩
              · exact Or.inl h3
              · exact Or.inr ⟨a, b, c', d, List.mem_cons_of_mem _ hm, he, hc⟩
        · rw [if_neg hle] at h
          obtain ⟨h1, h2, h3⟩ := ih _ _ _ _ h
          have hcx : c ≤ x := h1 _ rfl
          refine ⟨fun y hy => (by cases hy; exact hcx), ?_, ?_⟩
          · intro nt' h' top tl hm he
            rcases List.mem_cons.mp hm with hm | hm
            · cases hm; cases he; omega
            · exact h2 _ _ _ _ hm he
          · rcases h3 with h3 | ⟨a, b, c', d, hm, he, hc⟩
            · exact Or.inl h3
            · exact Or.inr ⟨a, b, c', d, List.mem_cons_of_mem _ hm, he, hc⟩

/-- with the heap invariant: the cost returned by `_next_cheapest_` is the least queued cost -/
theorem nextCheapest_min (s : St S) (hh : HAll s) (nts : List (NT S Unit)) (c : Int)
    (h : nextCheapest s = (nts, some c)) :
    (∀ nt l, (nt, l) ∈ s.queued → ∀ e ∈ l, c ≤ e.cost) ∧ ∃ nt l e, (nt, l) ∈ s.queued ∧ e ∈ l ∧ e.cost = c := by
  unfold nextCheapest at h
  obtain ⟨_, h2, h3⟩ := nextCheapestLoop_spec _ _ _ _ _ h
  constructor
  · intro nt l hm e he
    cases l with
    | nil => cases he
    | cons top tl =>
      have hheap := hh _ _ hm
      obtain ⟨i, hi, rfl⟩ := List.getElem_of_mem he
      have := root_min ltE ltE_weakOrder.ntrans ltE_weakOrder.irrefl _ hheap i hi
      have ht := h2 _ _ _ _ hm rfl
      have := ltE_false_cost this
      simp only [List.getElem_cons_zero] at this
      omega
  · rcases h3 with h3 | ⟨nt, l, top, tl, hm, he, hc⟩
    · cases h3
    · exact ⟨nt, l, top, hm, by rw [he]; exact List.mem_cons_self, hc⟩

end PS.Bee
