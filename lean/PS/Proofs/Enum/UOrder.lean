/- Heap search on unambiguous, acyclic grammars: the order invariant of a non-terminal
   (definitions and the algebra of priorities). -/
import PS.Proofs.Enum.UFrame
import PS.Proofs.Enum.UHeaps
import PS.Proofs.Enum.HeapRoot
import PS.Proofs.Enum.HeapMap
import PS.Proofs.Enum.UEmpty
namespace PS.UHS
open PS PS.G
set_option linter.unusedSectionVars false
variable {U π : Type} [DecidableEq U]

/-- the grammar is unambiguous at the level of the alternatives: arguments derivable from two
    alternatives of one symbol at one non-terminal → the same alternative (and weight) -/
def UAlt (E : Env U π) : Prop :=
  ∀ nt F ks v w v' w', (v, w) ∈ altsOf E nt F → (v', w') ∈ altsOf E nt F → DerList E ks v → DerList E ks v' →
    v = v' ∧ w = w'

/-- hypotheses of the order theorems -/
structure OHyp (E : Env U π) (rank : UNT U → Nat) (Good : π → Prop) : Prop where
  ghyp : GHyp E
  acyclic : Acyclic E rank
  /-- `<` is a strict weak order on the priorities of derivations (bucket tuples of one length) -/
  weak : Heapq.WeakOrderOn Good E.ops.lt
  thr : E.ops.thr = none
  ualt : UAlt E
  /-- the pairs (symbol, alternative) of a non-terminal are distinct (dict keys) -/
  flat_nodup : ∀ nt rs, AList.lookup nt E.G.rules = some rs →
    (rs.flatMap fun r => r.2.map fun vw => (r.1, vw.1)).Nodup
  /-- a constant has one alternative (`assert len(possibles) == 1`) -/
  leaf_one : ∀ nt F w, ([], w) ∈ altsOf E nt F → altsOf E nt F = [([], w)]
  good_rule : ∀ nt F v w, (v, w) ∈ altsOf E nt F → Good (E.ops.ofRule w)
  good_comb : ∀ a b, Good a → Good b → Good (E.ops.combine a b)
  /-- `combine` is monotone in both arguments -/
  mono_r : ∀ a b c, Good a → Good b → Good c → E.ops.lt a b = false →
    E.ops.lt (E.ops.combine a c) (E.ops.combine b c) = false
  mono_l : ∀ a b c, Good a → Good b → Good c → E.ops.lt a b = false →
    E.ops.lt (E.ops.combine c a) (E.ops.combine c b) = false

section Algebra
variable {E : Env U π} {rank : UNT U → Nat} {Good : π → Prop}

mutual
  theorem hasPrio_good (H : OHyp E rank Good) : ∀ (p : Prog) (nt : UNT U) (pr : π), HasPrio E p nt pr → Good pr
    | .node F kids, nt, pr, h => by
      rw [hasPrio_node] at h
      obtain ⟨v, w, hm, hl⟩ := h
      exact hasPrioList_good H kids v _ pr (H.good_rule nt F v w hm) hl
  theorem hasPrioList_good (H : OHyp E rank Good) : ∀ (ks : List Prog) (v : List (UNT U)) (acc pr : π),
      Good acc → HasPrioList E ks v acc pr → Good pr
    | [], [], acc, pr, ha, h => by rw [HasPrioList] at h; subst h; exact ha
    | [], _ :: _, _, _, _, h => by simp [HasPrioList] at h
    | _ :: _, [], _, _, _, h => by simp [HasPrioList] at h
    | k :: ks, a :: as, acc, pr, ha, h => by
      rw [HasPrioList] at h
      obtain ⟨pk, h1, h2⟩ := h
      exact hasPrioList_good H ks as _ pr (H.good_comb _ _ ha (hasPrio_good H k a pk h1)) h2
end

mutual
  /-- on an unambiguous grammar a program has one priority at a non-terminal -/
  theorem hasPrio_fun (H : OHyp E rank Good) : ∀ (p : Prog) (nt : UNT U) (pr pr' : π),
      HasPrio E p nt pr → HasPrio E p nt pr' → pr = pr'
    | .node F kids, nt, pr, pr', h, h' => by
      rw [hasPrio_node] at h h'
      obtain ⟨v, w, hm, hl⟩ := h
      obtain ⟨v', w', hm', hl'⟩ := h'
      obtain ⟨rfl, rfl⟩ := H.ualt nt F kids v w v' w' hm hm' (hasPrioList_derList E _ _ _ _ hl)
        (hasPrioList_derList E _ _ _ _ hl')
      exact hasPrioList_fun H kids v _ pr pr' hl hl'
  theorem hasPrioList_fun (H : OHyp E rank Good) : ∀ (ks : List Prog) (v : List (UNT U)) (acc pr pr' : π),
      HasPrioList E ks v acc pr → HasPrioList E ks v acc pr' → pr = pr'
    | [], [], acc, pr, pr', h, h' => by rw [HasPrioList] at h h'; rw [h, h']
    | [], _ :: _, _, _, _, h, _ => by simp [HasPrioList] at h
    | _ :: _, [], _, _, _, h, _ => by simp [HasPrioList] at h
    | k :: ks, a :: as, acc, pr, pr', h, h' => by
      rw [HasPrioList] at h h'
      obtain ⟨pk, h1, h2⟩ := h
      obtain ⟨pk', h1', h2'⟩ := h'
      have := hasPrio_fun H k a pk pk' h1 h1'
      subst this
      exact hasPrioList_fun H ks as _ pr pr' h2 h2'
end

/-- `x` is not worse than `y` at `nt` (comes first or ties) -/
def LE (E : Env U π) (nt : UNT U) (x y : Prog) : Prop :=
  ∀ px py, HasPrio E x nt px → HasPrio E y nt py → E.ops.lt py px = false

theorem LE.refl (H : OHyp E rank Good) (nt : UNT U) (x : Prog) : LE E nt x x := by
  intro px py hx hy
  rw [hasPrio_fun H x nt px py hx hy]
  exact H.weak.irrefl (hasPrio_good H x nt py hy)

theorem LE.trans (H : OHyp E rank Good) {nt : UNT U} {x y z : Prog} (hy : Der E y nt) (h1 : LE E nt x y) (h2 : LE E nt y z) :
    LE E nt x z := by
  intro px pz hx hz
  obtain ⟨py, hpy⟩ := hy
  exact H.weak.ntrans (hasPrio_good H _ _ _ hx) (hasPrio_good H _ _ _ hpy) (hasPrio_good H _ _ _ hz)
    (h1 px py hx hpy) (h2 py pz hpy hz)

/-- a not-better accumulator gives a not-better result -/
theorem hasPrioList_acc (H : OHyp E rank Good) : ∀ (ks : List Prog) (v : List (UNT U)) (acc acc' pr pr' : π),
    Good acc → Good acc' → HasPrioList E ks v acc pr → HasPrioList E ks v acc' pr' → E.ops.lt acc' acc = false →
    E.ops.lt pr' pr = false
  | [], [], acc, acc', pr, pr', _, _, h, h', hle => by rw [HasPrioList] at h h'; rw [h, h']; exact hle
  | [], _ :: _, _, _, _, _, _, _, h, _, _ => by simp [HasPrioList] at h
  | _ :: _, [], _, _, _, _, _, _, h, _, _ => by simp [HasPrioList] at h
  | k :: ks, a :: as, acc, acc', pr, pr', ha, ha', h, h', hle => by
    rw [HasPrioList] at h h'
    obtain ⟨pk, h1, h2⟩ := h
    obtain ⟨pk', h1', h2'⟩ := h'
    have := hasPrio_fun H k a pk pk' h1 h1'
    subst this
    have hg := hasPrio_good H k a pk h1
    exact hasPrioList_acc H ks as _ _ pr pr' (H.good_comb _ _ ha hg) (H.good_comb _ _ ha' hg) h2 h2'
      (H.mono_r _ _ _ ha' ha hg hle)

/-- replacing the argument `i` by one that is not better gives a result that is not better -/
theorem hasPrioList_set (H : OHyp E rank Good) : ∀ (ks : List Prog) (v : List (UNT U)) (i : Nat) (q ai : Prog) (a : UNT U)
    (acc pr pr' : π), Good acc → v[i]? = some a → ks[i]? = some ai → LE E a ai q →
    HasPrioList E ks v acc pr → HasPrioList E (ks.set i q) v acc pr' → E.ops.lt pr' pr = false
  | [], _, _, _, _, _, _, _, _, _, _, hk, _, _, _ => by simp at hk
  | _ :: _, [], _, _, _, _, _, _, _, _, hr, _, _, _, _ => by simp at hr
  | k :: ks, a0 :: as, 0, q, ai, a, acc, pr, pr', ha, hr, hk, hle, h, h' => by
    simp only [List.getElem?_cons_zero, Option.some.injEq] at hr hk
    subst hr; subst hk
    simp only [List.set_cons_zero] at h'
    rw [HasPrioList] at h h'
    obtain ⟨pk, h1, h2⟩ := h
    obtain ⟨pq, h1', h2'⟩ := h'
    have gk := hasPrio_good H _ _ _ h1
    have gq := hasPrio_good H _ _ _ h1'
    exact hasPrioList_acc H ks as _ _ pr pr' (H.good_comb _ _ ha gk) (H.good_comb _ _ ha gq) h2 h2'
      (H.mono_l _ _ _ gq gk ha (hle pk pq h1 h1'))
  | k :: ks, a0 :: as, i + 1, q, ai, a, acc, pr, pr', ha, hr, hk, hle, h, h' => by
    simp only [List.getElem?_cons_succ] at hr hk
    simp only [List.set_cons_succ] at h'
    rw [HasPrioList] at h h'
    obtain ⟨pk, h1, h2⟩ := h
    obtain ⟨pk', h1', h2'⟩ := h'
    have := hasPrio_fun H k a0 pk pk' h1 h1'
    subst this
    exact hasPrioList_set H ks as i q ai a _ pr pr' (H.good_comb _ _ ha (hasPrio_good H _ _ _ h1)) hr hk hle h2 h2'

/-- **monotonicity**: the successor of an argument gives a program that is not better -/
theorem LE.set (H : OHyp E rank Good) {nt : UNT U} {F : Sym} {args : List Prog} {v : List (UNT U)} {i : Nat}
    {ai q : Prog} {si : UNT U} (hk : KeyOK E nt F args v) (hai : args[i]? = some ai) (hsi : v[i]? = some si)
    (hq : Der E q si) (hle : LE E si ai q) : LE E nt (.node F args) (.node F (args.set i q)) := by
  intro px py hx hy
  rw [hasPrio_node] at hx hy
  obtain ⟨v1, w1, hm1, hl1⟩ := hx
  obtain ⟨v2, w2, hm2, hl2⟩ := hy
  obtain ⟨w, hm⟩ := hk.1
  obtain ⟨rfl, rfl⟩ := H.ualt nt F args v w v1 w1 hm hm1 hk.2 (hasPrioList_derList E _ _ _ _ hl1)
  obtain ⟨rfl, rfl⟩ := H.ualt nt F (args.set i q) v w v2 w2 hm hm2 (derList_set E args v i q si hk.2 hsi hq)
    (hasPrioList_derList E _ _ _ _ hl2)
  exact hasPrioList_set H args v i q ai si _ px py (H.good_rule nt F v w hm) hsi hai hle hl1 hl2

end Algebra

/-! ### the successor table as a chain -/

/-- the table is `[(k, v₀), (some v₀, v₁), (some v₁, v₂), …]` -/
def ChainL : Option Prog → AList (Option Prog) Prog → Prop
  | _, [] => True
  | k, (k', v) :: rest => k' = k ∧ ChainL (some v) rest

/-- the key under which the next pop is recorded -/
def lastK (k : Option Prog) (t : AList (Option Prog) Prog) : Option Prog :=
  match t.getLast? with
  | none => k
  | some e => some e.2

theorem lastK_cons (k : Option Prog) (k' : Option Prog) (v : Prog) (rest : AList (Option Prog) Prog) :
    lastK k ((k', v) :: rest) = lastK (some v) rest := by
  unfold lastK
  cases rest with
  | nil => rfl
  | cons a r =>
    rw [List.getLast?_cons_cons]
    cases h : (a :: r).getLast? with
    | none => simp at h
    | some e => rfl

theorem chainL_snoc : ∀ (t : AList (Option Prog) Prog) (k : Option Prog) (v : Prog),
    ChainL k t → ChainL k (t ++ [(lastK k t, v)])
  | [], k, v, _ => ⟨rfl, trivial⟩
  | (k', v') :: rest, k, v, h => by
    rw [lastK_cons]
    exact ⟨h.1, chainL_snoc rest (some v') v h.2⟩

/-- a key that has no successor yet, and is the sentinel or a value of the chain, is its end -/
theorem chainL_miss : ∀ (t : AList (Option Prog) Prog) (k0 key : Option Prog),
    ChainL k0 t → AList.lookup key t = none → (key = k0 ∨ ∃ e, e ∈ t ∧ key = some e.2) → key = lastK k0 t
  | [], k0, key, _, _, h => by
    rcases h with h | ⟨e, he, _⟩
    · exact h
    · cases he
  | (k', v) :: rest, k0, key, hc, hl, h => by
    obtain ⟨rfl, hc'⟩ := hc
    simp only [AList.lookup] at hl
    split at hl
    · cases hl
    · rename_i hne
      rw [lastK_cons]
      apply chainL_miss rest (some v) key hc' hl
      rcases h with h | ⟨e, he, hk⟩
      · exact absurd h.symm hne
      · rcases List.mem_cons.mp he with rfl | he'
        · exact Or.inl hk
        · exact Or.inr ⟨e, he', hk⟩

theorem insert_of_lookup_none {κ ν : Type} [DecidableEq κ] (k : κ) (v : ν) : ∀ (t : AList κ ν),
    AList.lookup k t = none → AList.insert k v t = t ++ [(k, v)]
  | [], _ => rfl
  | (k', v') :: rest, h => by
    simp only [AList.lookup] at h
    split at h
    · cases h
    · rename_i hne
      simp only [AList.insert, hne, if_false, List.cons_append]
      rw [insert_of_lookup_none k v rest h]

/-! ### the invariant of a non-terminal -/

/-- `x` was popped for `nt` (is a value of `succ[nt]`) -/
def Popped (s : St U π) (nt : UNT U) (x : Prog) : Prop := ∃ k, AList.lookup k (s.succOf nt) = some x

theorem Popped.mono {s s' : St U π} (h : Stable s s') {nt : UNT U} {x : Prog} (hp : Popped s nt x) : Popped s' nt x := by
  obtain ⟨k, hk⟩ := hp
  exact ⟨k, h nt k x hk⟩

/-- **order invariant of an initialised non-terminal** -/
structure NTInv (E : Env U π) (s : St U π) (nt : UNT U) : Prop where
  init : s.initS.contains nt = true
  chain : ChainL none (s.succOf nt)
  /-- `succ[nt]` is a dict -/
  keys_nodup : (AList.keys (s.succOf nt)).Nodup
  /-- the first pop is `max_priority[nt]` -/
  first : ∃ m, AList.lookup nt s.maxNT = some m ∧
    (AList.lookup none (s.succOf nt) = some m ∨ (s.succOf nt = [] ∧ ∃ pr, (s.heapOf nt).head? = some (pr, m)))
  /-- (I1) the arguments of every program ever pushed were popped for their non-terminals -/
  args : ∀ (F : Sym) (kids : List Prog) (v : List (UNT U)), Tree.node F kids ∈ s.seenOf nt →
    AList.lookup (nt, Tree.node F kids) s.keys = some v →
    ∀ (i : Nat) (ai : Prog) (si : UNT U), kids[i]? = some ai → v[i]? = some si → Popped s si ai
  /-- (I4) no heap element is better than a program already popped -/
  heap_le : ∀ x, Popped s nt x → ∀ e, e ∈ s.heapOf nt → LE E nt x e.2
  /-- a recorded successor is not better than its predecessor -/
  sorted : ∀ k x, AList.lookup (some k) (s.succOf nt) = some x → LE E nt k x
  /-- the non-terminals of the alternatives have been initialised and queried once -/
  closed : ∀ F v w, (v, w) ∈ altsOf E nt F → ∀ a, a ∈ v → ∃ x, AList.lookup none (s.succOf a) = some x

/-- nothing was done for `nt` yet -/
def Uninit (s : St U π) (nt : UNT U) : Prop :=
  s.initS.contains nt = false ∧ s.heapOf nt = [] ∧ s.succOf nt = [] ∧ s.seenOf nt = []

/-- `__init_non_terminal__(nt)` is running: phase 1 -/
def Mid (s : St U π) (nt : UNT U) : Prop :=
  s.initS.contains nt = true ∧ s.heapOf nt = [] ∧ s.succOf nt = [] ∧ s.seenOf nt = []

/-- the argument position `j` of a popped program `F(args)` of `nt` has been treated by
    `__add_successors_to_heap__`: the program with the successor of the argument was added, or the
    non-terminal of the argument is exhausted -/
def SuccDone (s : St U π) (nt : UNT U) (F : Sym) (args : List Prog) (j : Nat) (aj : Prog) (sj : UNT U) : Prop :=
  (∃ q, AList.lookup (some aj) (s.succOf sj) = some q ∧ Tree.node F (args.set j q) ∈ s.seenOf nt) ∨
  (s.initS.contains sj = true ∧ s.heapOf sj = [] ∧ AList.lookup (some aj) (s.succOf sj) = none)

/-- `p` was pushed for `nt` and taken out of its heap (popped, or skipped as a rejected program) -/
def Proc (s : St U π) (nt : UNT U) (p : Prog) : Prop := p ∈ s.seenOf nt ∧ p ∉ s.heapProgs nt

/-- **completeness invariant of an initialised non-terminal** (no threshold, no filter); `e`, `i`: the
    program whose successors are being added and the positions (`< i`) still to be treated -/
structure CInv (E : Env U π) (rank : UNT U → Nat) (s : St U π) (nt : UNT U) (e : Option Prog) (i : Nat) : Prop where
  keyed : ∀ p, p ∈ s.seenOf nt → ∃ v, AList.lookup (nt, p) s.keys = some v
  /-- the initial program of every alternative was pushed -/
  initial : ∀ F v w, (v, w) ∈ altsOf E nt F → ∃ kids, Tree.node F kids ∈ s.seenOf nt ∧ kids.length = v.length ∧
    ∀ (j : Nat) (aj : Prog) (sj : UNT U), kids[j]? = some aj → v[j]? = some sj →
      AList.lookup none (s.succOf sj) = some aj
  /-- (I2) what was ever pushed is in the heap, was popped, or was skipped as a rejected program -/
  cover : ∀ p, p ∈ s.seenOf nt → p ∈ s.heapProgs nt ∨ Popped s nt p ∨ E.filter p = false
  /-- (I3) every argument position of every program taken out of the heap has been treated -/
  succs : ∀ (F : Sym) (args : List Prog) (v : List (UNT U)), Proc s nt (Tree.node F args) →
    AList.lookup (nt, Tree.node F args) s.keys = some v →
    ∀ (j : Nat) (aj : Prog) (sj : UNT U), args[j]? = some aj → v[j]? = some sj → rank sj < rank nt →
      (e = some (Tree.node F args) → i ≤ j) → SuccDone s nt F args j aj sj

/-- fully initialised: the order and completeness invariants, the first query done -/
def Full (E : Env U π) (rank : UNT U → Nat) (s : St U π) (nt : UNT U) : Prop :=
  NTInv E s nt ∧ s.succOf nt ≠ [] ∧ CInv E rank s nt none 0

/-- every non-terminal of rank below `r` is untouched or fully initialised -/
def Below (E : Env U π) (rank : UNT U → Nat) (r : Nat) (s : St U π) : Prop :=
  ∀ nt, rank nt < r → Uninit s nt ∨ Full E rank s nt

theorem NTInv.transfer {E : Env U π} {s s' : St U π} {nt : UNT U} (h : NTInv E s nt) (hs : Same s s' nt)
    (hst : Stable s s') : NTInv E s' nt := by
  refine ⟨by rw [hs.init]; exact h.init, by rw [hs.succ]; exact h.chain, by rw [hs.succ]; exact h.keys_nodup, ?_, ?_, ?_, ?_, ?_⟩
  · obtain ⟨m, h1, h2⟩ := h.first
    refine ⟨m, by rw [hs.maxNT]; exact h1, ?_⟩
    rw [hs.succ, hs.heap]; exact h2
  · intro F args v hm hk i ai si hai hsi
    rw [hs.seen] at hm
    rw [hs.keys] at hk
    exact (h.args F args v hm hk i ai si hai hsi).mono hst
  · intro x hx e he
    rw [hs.heap] at he
    unfold Popped at hx
    rw [hs.succ] at hx
    exact h.heap_le x hx e he
  · intro k x hk
    rw [hs.succ] at hk
    exact h.sorted k x hk
  · intro F v w hm a ha
    obtain ⟨x, hx⟩ := h.closed F v w hm a ha
    exact ⟨x, hst _ _ _ hx⟩

theorem CInv.transfer {E : Env U π} {rank : UNT U → Nat} {s s' : St U π} {nt : UNT U} {e : Option Prog} {i : Nat}
    (h : CInv E rank s nt e i) (hs : Same s s' nt) (hst : Stable s s')
    (hk : ∀ sj, rank sj < rank nt → Kept s s' sj) : CInv E rank s' nt e i := by
  have hpop : ∀ x, Popped s' nt x ↔ Popped s nt x := by intro x; unfold Popped; rw [hs.succ]
  refine ⟨?_, ?_, ?_, ?_⟩
  · intro p hp
    rw [hs.seen] at hp
    rw [hs.keys]
    exact h.keyed p hp
  · intro F v w hm
    obtain ⟨kids, h1, h2, h3⟩ := h.initial F v w hm
    exact ⟨kids, by rw [hs.seen]; exact h1, h2, fun j aj sj a b => hst _ _ _ (h3 j aj sj a b)⟩
  · intro p hp
    rw [hs.seen] at hp
    rw [hpop]
    unfold St.heapProgs
    rw [hs.heap]
    exact h.cover p hp
  · intro F args v hp hkey j aj sj haj hsj hr hex
    have hp : Proc s nt (Tree.node F args) := by
      unfold Proc St.heapProgs at hp ⊢
      rw [hs.seen, hs.heap] at hp
      exact hp
    rw [hs.keys] at hkey
    rcases h.succs F args v hp hkey j aj sj haj hsj hr hex with ⟨q, h1, h2⟩ | ⟨h1, h2, h3⟩
    · exact Or.inl ⟨q, hst _ _ _ h1, by rw [hs.seen]; exact h2⟩
    · obtain ⟨a, b, c⟩ := hk sj hr h1 h2
      exact Or.inr ⟨a, b, by rw [c]; exact h3⟩

theorem Full.transfer {E : Env U π} {rank : UNT U → Nat} {s s' : St U π} {nt : UNT U} (h : Full E rank s nt)
    (hs : Same s s' nt) (hst : Stable s s') (hk : ∀ sj, rank sj < rank nt → Kept s s' sj) : Full E rank s' nt :=
  ⟨h.1.transfer hs hst, by rw [hs.succ]; exact h.2.1, h.2.2.transfer hs hst hk⟩

theorem Uninit.transfer {s s' : St U π} {nt : UNT U} (h : Uninit s nt) (hs : Same s s' nt) : Uninit s' nt := by
  obtain ⟨a, b, c, d⟩ := h
  exact ⟨by rw [hs.init]; exact a, by rw [hs.heap]; exact b, by rw [hs.succ]; exact c, by rw [hs.seen]; exact d⟩

theorem Mid.transfer {s s' : St U π} {nt : UNT U} (h : Mid s nt) (hs : Same s s' nt) : Mid s' nt := by
  obtain ⟨a, b, c, d⟩ := h
  exact ⟨by rw [hs.init]; exact a, by rw [hs.heap]; exact b, by rw [hs.succ]; exact c, by rw [hs.seen]; exact d⟩

/-- a step that only writes the tables of `x` -/
theorem Below.only {E : Env U π} {rank : UNT U → Nat} {r : Nat} {s s' : St U π} {x : UNT U} (h : Below E rank r s)
    (ho : Only x s s') (hst : Stable s s') (hx : r ≤ rank x) : Below E rank r s' := by
  intro nt hnt
  have hne : nt ≠ x := by intro e; subst e; omega
  rcases h nt hnt with hu | hf
  · exact Or.inl (hu.transfer (ho nt hne))
  · exact Or.inr (hf.transfer (ho nt hne) hst
      (fun sj hsj => Kept.of_same (ho sj (by intro e; subst e; omega))))

/-- after a call at `y` (of rank `r0`) -/
theorem Below.merge {E : Env U π} {rank : UNT U → Nat} {r r0 : Nat} {s s' : St U π} {y : UNT U} (h : Below E rank r s)
    (hf : Frame rank r0 (some y) s s') (hst : Stable s s') (hk : ∀ sj, Kept s s' sj) (hb : Below E rank r0 s')
    (hy : Full E rank s' y) : Below E rank r s' := by
  intro nt hnt
  by_cases h1 : rank nt < r0
  · exact hb nt h1
  · by_cases h2 : nt = y
    · subst h2; exact Or.inr hy
    · have hsame := hf nt (by omega) (by intro e; cases e; exact h2 rfl)
      rcases h nt hnt with hu | hn
      · exact Or.inl (hu.transfer hsame)
      · exact Or.inr (hn.transfer hsame hst (fun sj _ => hk sj))

theorem Below.mono {E : Env U π} {rank : UNT U → Nat} {r r' : Nat} {s : St U π} (h : Below E rank r s) (hr : r' ≤ r) :
    Below E rank r' s := fun nt hnt => h nt (by omega)

/-- after a call that leaves the ranks from `r0` on alone -/
theorem Below.merge_none {E : Env U π} {rank : UNT U → Nat} {r r0 : Nat} {s s' : St U π} (h : Below E rank r s)
    (hf : Frame rank r0 none s s') (hst : Stable s s') (hk : ∀ sj, Kept s s' sj) (hb : Below E rank r0 s') :
    Below E rank r s' := by
  intro nt hnt
  by_cases h1 : rank nt < r0
  · exact hb nt h1
  · have hsame := hf nt (by omega) (by simp)
    rcases h nt hnt with hu | hn
    · exact Or.inl (hu.transfer hsame)
    · exact Or.inr (hn.transfer hsame hst (fun sj _ => hk sj))

end PS.UHS
