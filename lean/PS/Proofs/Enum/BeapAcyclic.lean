/- On an ACYCLIC grammar (a rank decreasing along the rules) the depth-first initialisation
   `_init_non_terminal_` alone produces a fixpoint of `_reevaluate_` — re-evaluation is not needed:
   `StableAfter E` holds whatever the flag `is_recursive()`. -/
import PS.Proofs.Enum.BeapHeadMin
namespace PS.Beap
open PS PS.G PS.Heapq
set_option linter.unusedSectionVars false
variable {S : Type} [DecidableEq S]

/-- the grammar is acyclic: `rank` decreases from a non-terminal to the non-terminals of its rules -/
def Ranked (E : Env S) (rank : NT S Unit → Nat) : Prop :=
  ∀ nt P rl, E.G.rule? nt P = some rl → ∀ a ∈ rl.1, rank (ntOf a) < rank nt

namespace Cost
theorem add_assoc_nonneg (a b c : Cost) (ha : 0 ≤ a.inf) (hb : 0 ≤ b.inf) (hc : 0 ≤ c.inf) : (a + b) + c = a + (b + c) := by
  show Cost.add (Cost.add a b) c = Cost.add a (Cost.add b c)
  unfold Cost.add
  simp only
  by_cases h : a.inf + b.inf + c.inf = 0
  · have h1 : a.inf = 0 := by omega
    have h2 : b.inf = 0 := by omega
    have h3 : c.inf = 0 := by omega
    simp [h1, h2, h3, Rat.add_assoc]
  · have h' : ¬ a.inf + (b.inf + c.inf) = 0 := by omega
    simp only [h, h', if_false]
    congr 1; omega
end Cost

theorem sumFirst_congr (s s' : St S) : ∀ (as : List (Ty × S)) (acc : Cost), (∀ a ∈ as, s'.clOf (ntOf a) = s.clOf (ntOf a)) →
    sumFirst s' as acc = sumFirst s as acc := by
  intro as
  induction as with
  | nil => intro acc _; rfl
  | cons a as ih =>
    intro acc h
    simp only [sumFirst, h a (List.mem_cons_self ..)]
    split
    · rfl
    · exact ih _ (fun b hb => h b (List.mem_cons_of_mem _ hb))

theorem recost_congr (E : Env S) (s s' : St S) (nt : NT S Unit) (el : HeapEl)
    (h : ∀ rl, E.G.rule? nt el.P = some rl → ∀ a ∈ rl.1, s'.clOf (ntOf a) = s.clOf (ntOf a)) :
    recost E s' nt el = recost E s nt el := by
  unfold recost
  split
  · next w rl hw hr => rw [sumFirst_congr s s' rl.1 _ (h rl hr)]
  · rfl

/-- shifting the start of the sum: `w + (0 + c₁ + … + cₙ) = (w + c₁ + … + cₙ)` when no count is negative -/
theorem sumFirst_shift (s : St S) (hnn : ∀ nt c rest, s.clOf nt = c :: rest → 0 ≤ c.inf) (w : Cost) (hw : 0 ≤ w.inf) :
    ∀ (as : List (Ty × S)) (acc acc' r : Cost), 0 ≤ acc.inf → acc' = w + acc → sumFirst s as acc' = some r →
      ∃ r0, sumFirst s as acc = some r0 ∧ r = w + r0 := by
  intro as
  induction as with
  | nil => intro acc acc' r _ he h; simp only [sumFirst, Option.some.injEq] at h ⊢; exact ⟨acc, rfl, by rw [← h, he]⟩
  | cons a as ih =>
    intro acc acc' r ha he h
    simp only [sumFirst] at h ⊢
    split at h
    · cases h
    · next c0 rest0 hcl =>
      have hc0 := hnn _ c0 rest0 hcl
      refine ih (acc + c0) (acc' + c0) r (by simp only [Cost.add_inf]; omega) ?_ h
      rw [he, Cost.add_assoc_nonneg w acc c0 hw ha hc0]

/-- initialised non-terminals (except possibly `ex`) keep their tables -/
def Keep (ex : Option (NT S Unit)) (s s' : St S) : Prop :=
  ∀ nt, some nt ≠ ex → s.clOf nt ≠ [] → s'.clOf nt = s.clOf nt ∧ s'.queueOf nt = s.queueOf nt

theorem Keep.refl (ex : Option (NT S Unit)) (s : St S) : Keep ex s s := fun _ _ _ => ⟨rfl, rfl⟩
theorem Keep.trans {ex : Option (NT S Unit)} {a b c : St S} (h1 : Keep ex a b) (h2 : Keep ex b c) : Keep ex a c := by
  intro nt hx hne
  obtain ⟨e1, e2⟩ := h1 nt hx hne
  obtain ⟨f1, f2⟩ := h2 nt hx (by rw [e1]; exact hne)
  exact ⟨f1.trans e1, f2.trans e2⟩
theorem Keep.weaken {ex : Option (NT S Unit)} {s s' : St S} (h : Keep none s s') : Keep ex s s' :=
  fun nt _ hne => h nt (by simp) hne

/-- the element is priced from the current first costs -/
def Priced (E : Env S) (s : St S) (nt : NT S Unit) (el : HeapEl) : Prop :=
  ∃ el', recost E s nt el = some el' ∧ el'.cost = el.cost

/-- the arguments of the rules of the elements are initialised, not in progress, and different from `nt` -/
def ArgsOK (E : Env S) (stk : List (NT S Unit)) (s : St S) (nt : NT S Unit) (P : Sym) : Prop :=
  ∀ rl, E.G.rule? nt P = some rl → ∀ a ∈ rl.1, s.clOf (ntOf a) ≠ [] ∧ ntOf a ∉ stk ∧ ntOf a ≠ nt

/-- every element of the queue is priced, its argument non-terminals are done -/
def QProg (E : Env S) (stk : List (NT S Unit)) (s : St S) (nt : NT S Unit) : Prop :=
  ∀ el, el ∈ s.queueOf nt → Priced E s nt el ∧ ArgsOK E stk s nt el.P

theorem priced_keep (E : Env S) (stk : List (NT S Unit)) (s s' : St S) (nt : NT S Unit) (el : HeapEl) (ex : Option (NT S Unit))
    (hp : Priced E s nt el) (ha : ArgsOK E stk s nt el.P) (hex : ∀ x, ex = some x → x = nt ∨ s.clOf x = [] ∨ x ∈ stk) (hk : Keep ex s s') :
    Priced E s' nt el ∧ ArgsOK E stk s' nt el.P := by
  have hcl : ∀ rl, E.G.rule? nt el.P = some rl → ∀ a ∈ rl.1, s'.clOf (ntOf a) = s.clOf (ntOf a) := by
    intro rl hr a ha'
    obtain ⟨g1, g2, g3⟩ := ha rl hr a ha'
    refine (hk _ ?_ g1).1
    intro he
    rcases hex _ he.symm with h | h | h
    · exact g3 h
    · exact g1 h
    · exact g2 h
  obtain ⟨el', h1, h2⟩ := hp
  refine ⟨⟨el', ?_, h2⟩, fun rl hr a ha' => ?_⟩
  · rw [recost_congr E s s' nt el hcl]; exact h1
  · obtain ⟨g1, g2, g3⟩ := ha rl hr a ha'
    exact ⟨by rw [hcl rl hr a ha']; exact g1, g2, g3⟩

theorem argsOK_keep (E : Env S) (stk : List (NT S Unit)) (s s' : St S) (nt : NT S Unit) (P : Sym) (ex : Option (NT S Unit))
    (ha : ArgsOK E stk s nt P) (hex : ∀ x, ex = some x → x = nt ∨ s.clOf x = [] ∨ x ∈ stk) (hk : Keep ex s s') :
    ArgsOK E stk s' nt P := by
  intro rl hr a ha'
  obtain ⟨g1, g2, g3⟩ := ha rl hr a ha'
  have : s'.clOf (ntOf a) = s.clOf (ntOf a) := by
    refine (hk _ ?_ g1).1
    intro he
    rcases hex _ he.symm with h | h | h
    · exact g3 h
    · exact g1 h
    · exact g2 h
  exact ⟨by rw [this]; exact g1, g2, g3⟩

/-- invariant of the depth-first initialisation; `stk` = the non-terminals whose loop over the rules is running -/
structure AInv (E : Env S) (stk : List (NT S Unit)) (s : St S) : Prop where
  done : ∀ nt, s.clOf nt ≠ [] → nt ∈ stk ∨ QProg E stk s nt
  fresh : ∀ nt, s.clOf nt = [] → s.queueOf nt = []

variable (rank : NT S Unit → Nat)

def INA (E : Env S) (n : Nat) : Prop :=
  ∀ s nt s' stk, MInv E s → AInv E stk s → (∀ x ∈ stk, rank nt < rank x) → initNT E n s nt = some s' →
    AInv E stk s' ∧ Keep none s s' ∧ s'.clOf nt ≠ []
def IRA (E : Env S) (n : Nat) : Prop :=
  ∀ s nt rest s' stk, MInv E s → AInv E (nt :: stk) s → (∀ x ∈ stk, rank nt < rank x) →
    (∀ P rl, (P, rl) ∈ rest → E.G.rule? nt P = some rl) → QProg E (nt :: stk) s nt → s.clOf nt ≠ [] →
    initRules E n s nt rest = some s' →
    AInv E (nt :: stk) s' ∧ Keep (some nt) s s' ∧ QProg E (nt :: stk) s' nt ∧ s'.clOf nt = s.clOf nt ∧
    ∀ P rl, (P, rl) ∈ rest → ArgsOK E (nt :: stk) s' nt P
def IAA (E : Env S) (n : Nat) : Prop :=
  ∀ s as c stk r, MInv E s → AInv E stk s → (∀ a ∈ as, ∀ x ∈ stk, rank (ntOf a) < rank x) →
    initArgs E n s as c = some r →
    AInv E stk r.1 ∧ Keep none s r.1 ∧ (∀ a ∈ as, r.1.clOf (ntOf a) ≠ [] ∧ ntOf a ∉ stk) ∧ sumFirst r.1 as c = some r.2

theorem not_mem_of_rank (stk : List (NT S Unit)) (nt : NT S Unit) (h : ∀ x ∈ stk, rank nt < rank x) : nt ∉ stk :=
  fun hm => Nat.lt_irrefl _ (h nt hm)

theorem iaa_step (E : Env S) (hnd : RowsNodup E.G) (n : Nat) (ihIN : INA rank E n) (ihIA : IAA rank E n) : IAA rank E (n + 1) := by
  intro s as c stk r hm hs hrk h
  cases as with
  | nil =>
    simp only [initArgs] at h; cases h
    exact ⟨hs, Keep.refl _ _, fun a ha => (by cases ha), rfl⟩
  | cons a as =>
    simp only [initArgs] at h
    split at h
    · cases h
    · next s1 hin =>
      have hra : ∀ x ∈ stk, rank (ntOf a) < rank x := hrk a (List.mem_cons_self ..)
      obtain ⟨g1, g2, g3⟩ := ihIN _ _ _ _ hm hs hra hin
      have hm1 := (init_minv E hnd n).1 _ _ _ hm hin
      have hnot : ntOf a ∉ stk := not_mem_of_rank rank stk _ hra
      split at h
      · cases h
      · next c0 rest0 hcl =>
        obtain ⟨q1, q2, q3, q4⟩ := ihIA _ _ _ _ _ hm1 g1 (fun b hb => hrk b (List.mem_cons_of_mem _ hb)) h
        have hkeep := q2 (ntOf a) (by simp) g3
        refine ⟨q1, g2.trans q2, fun b hb => ?_, ?_⟩
        · rcases List.mem_cons.mp hb with rfl | hb'
          · exact ⟨by rw [hkeep.1]; exact g3, hnot⟩
          · exact q3 b hb'
        · simp only [sumFirst, hkeep.1, hcl]; exact q4

theorem ira_step (E : Env S) (hnd : RowsNodup E.G) (hrk : Ranked E rank) (n : Nat) (ihIR : IRA rank E n) (ihIA : IAA rank E n) :
    IRA rank E (n + 1) := by
  intro s nt rest s' stk hm hs hlt hrest hqp hne h
  cases rest with
  | nil =>
    simp only [initRules] at h; cases h
    exact ⟨hs, Keep.refl _ _, hqp, rfl, fun P rl hmem => (by cases hmem)⟩
  | cons pr rest =>
    obtain ⟨P, rl⟩ := pr
    simp only [initRules] at h
    split at h
    · cases h
    · next w hw =>
      split at h
      · cases h
      · next s1 cost hia =>
        have hr : E.G.rule? nt P = some rl := hrest P rl (List.mem_cons_self ..)
        have hargs : ∀ a ∈ rl.1, ∀ x ∈ nt :: stk, rank (ntOf a) < rank x := by
          intro a ha x hx
          have h1 := hrk nt P rl hr a ha
          rcases List.mem_cons.mp hx with rfl | hx'
          · exact h1
          · exact Nat.lt_trans h1 (hlt x hx')
        obtain ⟨g1, g2, g3, g4⟩ := ihIA _ _ _ _ _ hm hs hargs hia
        have g1 : AInv E (nt :: stk) s1 := g1
        have g2 : Keep none s s1 := g2
        have g3 : ∀ a ∈ rl.1, s1.clOf (ntOf a) ≠ [] ∧ ntOf a ∉ nt :: stk := g3
        have g4 : sumFirst s1 rl.1 (Cost.ofRat w) = some cost := g4
        have hm1 : MInv E s1 := ((init_minv E hnd n).2.2 _ _ _ w [] _ hm (attArgs_nil E w) hia).1
        obtain ⟨hcl1, hq1⟩ := g2 nt (by simp) hne
        -- the new element is priced
        have hnn : ∀ x c rest, s1.clOf x = c :: rest → 0 ≤ c.inf := fun x c rest hc => (hm1.cl x c rest hc).1
        obtain ⟨r0, hr0, hcost⟩ := sumFirst_shift s1 hnn (Cost.ofRat w) (by simp) rl.1 (Cost.ofRat 0) (Cost.ofRat w) cost
          (by simp) (by show _ = Cost.add _ _; unfold Cost.add; simp [Cost.ofRat, Rat.add_zero]) g4
        have hargsok : ArgsOK E (nt :: stk) s1 nt P := by
          intro rl' hr' a ha
          rw [hr] at hr'; cases hr'
          obtain ⟨q1, q2⟩ := g3 a ha
          exact ⟨q1, q2, fun he => q2 (he ▸ List.mem_cons_self ..)⟩
        have hpr0 : Priced E s1 nt ⟨cost, List.replicate rl.1.length 0, P⟩ := by
          refine ⟨{ cost := Cost.ofRat w + r0, comb := List.replicate rl.1.length 0, P := P }, ?_, hcost.symm⟩
          unfold recost
          simp only [hw, hr, hr0]
        -- the state after the push
        have hqp1 : QProg E (nt :: stk) s1 nt := by
          unfold QProg
          intro el hel
          rw [hq1] at hel
          obtain ⟨p1, p2⟩ := hqp el hel
          exact priced_keep E (nt :: stk) s s1 nt el none p1 p2 (fun x hx => by cases hx) g2
        have hs2 : AInv E (nt :: stk) (s1.setQueue nt (Heapq.push ltE (s1.queueOf nt) ⟨cost, List.replicate rl.1.length 0, P⟩)) := by
          refine ⟨fun x hx => ?_, fun x hx => ?_⟩
          · by_cases hxe : x = nt
            · subst hxe; exact Or.inl (List.mem_cons_self ..)
            · rcases g1.done x hx with h1 | h1
              · exact Or.inl h1
              · right
                unfold QProg
                intro el hel
                rw [St.queueOf_setQueue] at hel
                simp only [hxe, if_false] at hel
                obtain ⟨p1, p2⟩ := h1 el hel
                exact priced_keep E (nt :: stk) s1 _ x el (some nt) p1 p2
                  (fun y hy => by cases hy; exact Or.inr (Or.inr (List.mem_cons_self ..)))
                  (fun y hy _ => ⟨rfl, by
                    rw [St.queueOf_setQueue]
                    have : y ≠ nt := fun e => hy (by rw [e])
                    simp [this]⟩)
          · have hxe : x ≠ nt := by
              intro he; subst he
              have : s1.clOf x ≠ [] := by rw [hcl1]; exact hne
              exact this hx
            rw [St.queueOf_setQueue]; simp only [hxe, if_false]
            exact g1.fresh x hx
        have hk12 : Keep (some nt) s1 (s1.setQueue nt (Heapq.push ltE (s1.queueOf nt) ⟨cost, List.replicate rl.1.length 0, P⟩)) := by
          intro y hy _
          refine ⟨rfl, ?_⟩
          rw [St.queueOf_setQueue]
          have : y ≠ nt := fun e => hy (by rw [e])
          simp [this]
        have hexnt : ∀ x, some nt = some x → x = nt ∨ s1.clOf x = [] ∨ x ∈ nt :: stk := fun x hx => by cases hx; exact Or.inl rfl
        have hm2 : MInv E (s1.setQueue nt (Heapq.push ltE (s1.queueOf nt) ⟨cost, List.replicate rl.1.length 0, P⟩)) := by
          have hatt := ((init_minv E hnd n).2.2 _ _ _ w [] _ hm (attArgs_nil E w) hia).2
          simp only [List.nil_append] at hatt
          refine hm1.setQueue nt _ (fun el he => ?_)
          rcases (mem_push _ _ _ _).mp he with h' | h'
          · subst h'; exact att_of_attArgs E nt P rl w hr hw _ hatt
          · exact hm1.queue nt el h'
        have hqp2 : QProg E (nt :: stk) (s1.setQueue nt (Heapq.push ltE (s1.queueOf nt) ⟨cost, List.replicate rl.1.length 0, P⟩)) nt := by
          unfold QProg
          intro el hel
          rw [St.queueOf_setQueue] at hel
          simp only [if_true] at hel
          rcases (mem_push _ _ _ _).mp hel with h' | h'
          · subst h'
            exact priced_keep E (nt :: stk) s1 _ nt _ (some nt) hpr0 hargsok hexnt hk12
          · obtain ⟨p1, p2⟩ := hqp1 el h'
            exact priced_keep E (nt :: stk) s1 _ nt el (some nt) p1 p2 hexnt hk12
        obtain ⟨q1, q2, q3, q4, q5⟩ := ihIR _ _ _ _ _ hm2 hs2 hlt (fun P' rl' hm' => hrest P' rl' (List.mem_cons_of_mem _ hm')) hqp2
          (by show s1.clOf nt ≠ []; rw [hcl1]; exact hne) h
        have hk02 : Keep (some nt) s (s1.setQueue nt (Heapq.push ltE (s1.queueOf nt) ⟨cost, List.replicate rl.1.length 0, P⟩)) :=
          (Keep.weaken g2).trans hk12
        refine ⟨q1, hk02.trans q2, q3, by rw [q4]; exact hcl1, fun P' rl' hm' => ?_⟩
        rcases List.mem_cons.mp hm' with heq | hm''
        · cases heq
          have h2 := argsOK_keep E (nt :: stk) s1 _ nt P (some nt) hargsok hexnt hk12
          exact argsOK_keep E (nt :: stk) _ s' nt P (some nt) h2 (fun x hx => by cases hx; exact Or.inl rfl) q2
        · exact q5 P' rl' hm''

theorem ina_step (E : Env S) (hnd : RowsNodup E.G) (n : Nat) (ihIR : IRA rank E n) : INA rank E (n + 1) := by
  intro s nt s' stk hm hs hlt h
  unfold initNT at h
  split at h
  · cases h
  · next cl hcl =>
    have hclof : s.clOf nt = cl := by simp [St.clOf, hcl]
    split at h
    · next hlen =>
      cases h
      exact ⟨hs, Keep.refl _ _, by rw [hclof]; intro he; rw [he] at hlen; simp at hlen⟩
    · next hlen =>
      have hnil : cl = [] := by
        cases cl with
        | nil => rfl
        | cons x xs => simp at hlen
      subst hnil
      have hntnot : nt ∉ stk := not_mem_of_rank rank stk nt hlt
      split at h
      · cases h
      · next rs hrs =>
        split at h
        · cases h
        · next s1 hir =>
          -- the state with the placeholder
          have hk0 : Keep none s (s.setCL nt ([] ++ [Cost.big])) := by
            intro y _ hy
            refine ⟨?_, rfl⟩
            rw [St.clOf_setCL]
            have : y ≠ nt := fun e => hy (by rw [e]; exact hclof)
            simp [this]
          have hex0 : ∀ (stk' : List (NT S Unit)) (x y : NT S Unit), (none : Option (NT S Unit)) = some y → y = x ∨ s.clOf y = [] ∨ y ∈ stk' :=
            fun _ _ _ hy => by cases hy
          have hs0 : AInv E (nt :: stk) (s.setCL nt ([] ++ [Cost.big])) := by
            refine ⟨fun x hx => ?_, fun x hx => ?_⟩
            · by_cases hxe : x = nt
              · subst hxe; exact Or.inl (List.mem_cons_self ..)
              · have hx' : s.clOf x ≠ [] := by rw [St.clOf_setCL] at hx; simpa [hxe] using hx
                rcases hs.done x hx' with h1 | h1
                · exact Or.inl (List.mem_cons_of_mem _ h1)
                · right
                  unfold QProg
                  intro el hel
                  obtain ⟨p1, p2⟩ := h1 el hel
                  have p2' : ArgsOK E (nt :: stk) s x el.P := by
                    intro rl hr a ha
                    obtain ⟨g1, g2, g3⟩ := p2 rl hr a ha
                    refine ⟨g1, ?_, g3⟩
                    intro hmem
                    rcases List.mem_cons.mp hmem with he | he
                    · rw [he, hclof] at g1; exact g1 rfl
                    · exact g2 he
                  exact priced_keep E (nt :: stk) s _ x el none p1 p2' (hex0 _ _) hk0
            · have hxe : x ≠ nt := by
                intro he; subst he
                rw [St.clOf_setCL] at hx; simp at hx
              have : s.clOf x = [] := by rw [St.clOf_setCL] at hx; simpa [hxe] using hx
              exact hs.fresh x this
          have hm0 : MInv E (s.setCL nt ([] ++ [Cost.big])) := hm.setCL nt _ (fun c rest hc => by
            simp only [List.nil_append, List.cons.injEq] at hc
            obtain ⟨rfl, _⟩ := hc
            exact ⟨by decide, fun hz => by simp [Cost.big] at hz⟩)
          have hqp0 : QProg E (nt :: stk) (s.setCL nt ([] ++ [Cost.big])) nt := by
            unfold QProg
            intro el hel
            have : s.queueOf nt = [] := hs.fresh nt hclof
            rw [show (s.setCL nt ([] ++ [Cost.big])).queueOf nt = s.queueOf nt from rfl, this] at hel
            cases hel
          have hne0 : (s.setCL nt ([] ++ [Cost.big])).clOf nt ≠ [] := by rw [St.clOf_setCL]; simp
          obtain ⟨q1, q2, q3, q4, q5⟩ := ihIR _ _ _ _ _ hm0 hs0 hlt (fun P rl hmem => by
            unfold TT.rule?; rw [hrs]; exact AList.lookup_of_mem_nodup (hnd nt rs hrs) hmem) hqp0 hne0 hir
          split at h
          · cases h
          · next e q hq =>
            cases h
            -- the final state: only the cost list of `nt` changes
            have hk1 : Keep (some nt) s1 (s1.setCL nt ((s1.clOf nt).set 0 e.cost)) := by
              intro y hy _
              refine ⟨?_, rfl⟩
              rw [St.clOf_setCL]
              have : y ≠ nt := fun e => hy (by rw [e])
              simp [this]
            have hcl1ne : s1.clOf nt ≠ [] := by rw [q4]; exact hne0
            have hfinne : (s1.setCL nt ((s1.clOf nt).set 0 e.cost)).clOf nt ≠ [] := by
              rw [St.clOf_setCL]; simp only [if_true]
              intro he
              have := congrArg List.length he
              simp only [List.length_set, List.length_nil] at this
              exact hcl1ne (List.length_eq_zero_iff.mp this)
            refine ⟨⟨fun x hx => ?_, fun x hx => ?_⟩, ?_, hfinne⟩
            · by_cases hxe : x = nt
              · right
                subst hxe
                unfold QProg
                intro el hel
                obtain ⟨p1, p2⟩ := q3 el hel
                obtain ⟨r1, r2⟩ := priced_keep E (x :: stk) s1 _ x el (some x) p1 p2 (fun y hy => by cases hy; exact Or.inl rfl) hk1
                exact ⟨r1, fun rl hr a ha => by
                  obtain ⟨g1, g2, g3⟩ := r2 rl hr a ha
                  exact ⟨g1, fun hmem => g2 (List.mem_cons_of_mem _ hmem), g3⟩⟩
              · have hx' : s1.clOf x ≠ [] := by rw [St.clOf_setCL] at hx; simpa [hxe] using hx
                rcases q1.done x hx' with h1 | h1
                · rcases List.mem_cons.mp h1 with h2 | h2
                  · exact absurd h2 hxe
                  · exact Or.inl h2
                · right
                  unfold QProg
                  intro el hel
                  obtain ⟨p1, p2⟩ := h1 el hel
                  obtain ⟨r1, r2⟩ := priced_keep E (nt :: stk) s1 _ x el (some nt) p1 p2
                    (fun y hy => by cases hy; exact Or.inr (Or.inr (List.mem_cons_self ..))) hk1
                  exact ⟨r1, fun rl hr a ha => by
                    obtain ⟨g1, g2, g3⟩ := r2 rl hr a ha
                    exact ⟨g1, fun hmem => g2 (List.mem_cons_of_mem _ hmem), g3⟩⟩
            · have hxe : x ≠ nt := by
                intro he; subst he; exact hfinne hx
              have : s1.clOf x = [] := by rw [St.clOf_setCL] at hx; simpa [hxe] using hx
              exact q1.fresh x this
            · -- Keep none s s'
              intro y _ hy
              have hyne : y ≠ nt := fun e => hy (by rw [e]; exact hclof)
              obtain ⟨a1, a2⟩ := hk0 y (by simp) hy
              obtain ⟨b1, b2⟩ := q2 y (fun e => hyne (Option.some.inj e)) (by rw [a1]; exact hy)
              obtain ⟨c1, c2⟩ := hk1 y (fun e => hyne (Option.some.inj e)) (by rw [b1, a1]; exact hy)
              exact ⟨c1.trans (b1.trans a1), c2.trans (b2.trans a2)⟩

theorem init_ainv (E : Env S) (hnd : RowsNodup E.G) (hrk : Ranked E rank) : ∀ n, INA rank E n ∧ IRA rank E n ∧ IAA rank E n := by
  intro n
  induction n with
  | zero =>
    refine ⟨?_, ?_, ?_⟩
    · intro s nt s' stk _ _ _ h; simp [initNT] at h
    · intro s nt rest s' stk _ _ _ _ _ _ h; simp [initRules] at h
    · intro s as c stk r _ _ _ h; simp [initArgs] at h
  | succ n ih =>
    obtain ⟨a, b, c⟩ := ih
    exact ⟨ina_step rank E hnd n b, ira_step rank E hnd hrk n b c, iaa_step rank E hnd n a c⟩

/-- **on an acyclic grammar the state returned by the prologue is a fixpoint of `_reevaluate_`**, whether or
    not `_reevaluate_` runs (whatever `is_recursive()` says) -/
theorem stableAfter_of_ranked (E : Env S) (hnd : RowsNodup E.G) (hrk : Ranked E rank) : StableAfter E := by
  intro fuel s' h
  by_cases hrec : E.recursive = true
  · exact stableAfter_of_rec E hrec fuel s' h
  · unfold prologue at h
    split at h
    · cases h
    · next s1 hin =>
      unfold reevaluate at h
      simp only [hrec] at h
      cases h
      have h0 : AInv E [] (St.empty E.G) := by
        refine ⟨fun nt hne => ?_, fun nt _ => lookup_map_nil E.G.rules nt⟩
        have : (St.empty E.G).clOf nt = [] := lookup_map_nil E.G.rules nt
        exact absurd this hne
      obtain ⟨g1, _, _⟩ := (init_ainv rank E hnd hrk fuel).1 _ _ _ [] (minv_empty E) h0 (fun x hx => by cases hx) hin
      intro nt el hel
      by_cases hcl : s'.clOf nt = []
      · rw [g1.fresh nt hcl] at hel; cases hel
      · rcases g1.done nt hcl with h1 | h1
        · cases h1
        · exact (h1 el hel).1

end PS.Beap
