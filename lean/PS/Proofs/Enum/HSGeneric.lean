/- A generic invariant principle for the heap-search machine on acyclic context-free grammars
   (no filter): a state predicate preserved by the two primitive table updates — the pop recorded as
   a successor and the push of one successor — is preserved by every call. -/
import PS.Proofs.Enum.HSSuccInv
namespace PS.HS
open PS PS.G
set_option linter.unusedSectionVars false
variable {S : Type} [DecidableEq S]

/-- preserved by the pop of `query` -/
def PopStep (E : Env S Unit Rat) (H0 : NT S Unit → List (Rat × Prog)) (P : St S Unit Rat → Prop) : Prop :=
  ∀ (s : St S Unit Rat) (nt : NT S Unit) (key : Option Prog) (e : Rat × Prog) (h' : List (Rat × Prog)),
    Full E H0 s → P s → Heapq.pop (ltE E.ops) (s.heapOf nt) = some (e, h') →
    (∀ x, key = some x → ∃ k, AList.lookup k (s.succOf nt) = some x) →
    AList.lookup key (s.succOf nt) = none → P (s.popTake nt key e h')

/-- preserved by the push of `__add_successors__` -/
def PushStep (E : Env S Unit Rat) (H0 : NT S Unit → List (Rat × Prog)) (P : St S Unit Rat → Prop) : Prop :=
  ∀ (s1 : St S Unit Rat) (F : Sym) (args : List Prog) (nt : NT S Unit) (i : Nat) (r : Option Prog)
    (ra : List (Ty × S)) (a : Ty × S) (ai : Prog),
    Full E H0 s1 → P s1 → E.G.rule? nt F = some (ra, ()) → genList E.G args ra = true →
    ra[i]? = some a → args[i]? = some ai → Tree.node F args ∈ s1.seenOf nt → s1.succOf nt ≠ [] →
    (∀ q, r = some q → AList.lookup (some ai) (s1.succOf (argNT a)) = some q ∧ gen E.G q (argNT a) = true) →
    P (pushStep E s1 F args nt i r)

theorem big_generic {E : Env S Unit Rat} {rank} (H : OrdHyp E rank) {H0 : NT S Unit → List (Rat × Prog)}
    (P : St S Unit Rat → Prop) (hpop : PopStep E H0 P) (hpush : PushStep E H0 P)
    {c : Call S Unit} {s s' : St S Unit Rat} {r : Option Prog} (hb : Big E c s s' r) :
    Full E H0 s → SPre E c → NPre c s → OPre E H0 c s → P s → P s' := by
  induction hb with
  | @query_direct s s' nt p r h hb ih =>
    intro hf _ _ hpre hp
    refine ih hf trivial trivial ?_ hp
    intro x hx
    rcases hpre x hx with hv | ⟨hempty, _⟩
    · exact Or.inl hv
    · rcases h with h | h
      · rw [h] at hx; cases hx
      · rw [hempty] at h; simp at h
  | @query_first s s1 s' nt p r0 r hp h h0 hb ih0 ih =>
    intro hf _ _ hpre hP
    have hq0 : OPre E H0 (.query nt none) s := by intro x hx; cases hx
    obtain ⟨hf1, _⟩ := big_full H h0 hf trivial trivial hq0
    obtain ⟨_, st1, np1⟩ := big_nodup E h0 hf.ninv trivial
    have hnone : AList.lookup none (s.succOf nt) = none := by
      cases hl : AList.lookup none (s.succOf nt) with
      | none => rfl
      | some v => rw [hl] at h; simp at h
    refine ih hf1 trivial trivial ?_ (ih0 hf trivial trivial hq0 hP)
    intro x hx
    rcases hpre x hx with ⟨k, hk⟩ | ⟨hempty, hfp⟩
    · exact Or.inl ⟨k, st1 _ _ _ hk⟩
    · rcases query_none_inv h0 hnone hf.ninv.no_deleted with ⟨hpe, rfl⟩ | ⟨e, h', hpt, hr0⟩
      · exact Or.inr ((Heapq.pop_none_iff _ _).mp hpe)
      · left
        rw [hf.oinv.fresh nt hempty] at hpt
        have := hfp e h' hpt
        exact ⟨none, by rw [← this]; exact np1 _ hr0⟩
  | lop_hit h => intro _ _ _ _ hp; exact hp
  | lop_miss h hb ih => intro hf _ _ hpre hp; exact ih hf trivial h hpre hp
  | pop_empty h => intro _ _ _ _ hp; exact hp
  | pop_deleted h hd ha hb iha ihb =>
    intro hf _ _ _ _
    rw [hf.ninv.no_deleted] at hd
    simp at hd
  | @pop_take s s' nt key e h' x h hd ha iha =>
    intro hf _ hnone hpre hP
    obtain ⟨oa, hnea, hvals⟩ := popTake_order H hf.sinv hf.hinv hf.oinv nt key e h' h hpre hnone
    obtain ⟨hm, hsub⟩ := mem_of_pop _ _ _ _ h
    have hheapne : s.heapOf nt ≠ [] := by intro he; rw [he] at hm; cases hm
    have hseen := hf.sinv.heap_seen _ _ hm
    have hg := hf.sinv.seen_gen _ _ hseen
    have h1 := (hf.sinv.setHeap_sub nt h' hsub).setSucc nt key e.2 hseen
    have hfa : Full E H0 (s.popTake nt key e h') :=
      ⟨h1.congr (fun _ => rfl) (fun _ => rfl) (fun _ => rfl) h1.cache_ok, (hf.ninv.popTake nt key e h' h hnone).1,
       fun nt' => hf.hinv.pop H.weak nt e h' h nt', oa⟩
    have hkey : ∀ x, key = some x → ∃ k, AList.lookup k (s.succOf nt) = some x := by
      intro x hx
      rcases hpre x hx with hv | he
      · exact hv
      · exact absurd he hheapne
    exact iha hfa hg trivial ⟨hseen, hnea, hvals⟩ (hpop s nt key e h' hf hP h hkey hnone)
  | succ_leaf => intro _ _ _ _ hp; exact hp
  | @succ_fun s s' F a as nt r rl x hd hr hb ih =>
    intro hf hspre _ hpre hP
    refine ih hf ?_ trivial hpre hP
    have hpre' : gen E.G (.node F (a :: as)) nt = true := hspre
    rw [gen, hr] at hpre'
    obtain ⟨ra, u⟩ := rl
    cases u
    simp only at hpre'
    refine ⟨ra, hr, hpre', rfl, ?_⟩
    intro _
    unfold derive at hd
    rw [hr] at hd
    simp only [Option.some.injEq] at hd
    subst hd
    cases ra with
    | nil => simp [genList] at hpre'
    | cons a0 as0 =>
      obtain ⟨t0, s0⟩ := a0
      exact ⟨by simp [deriveWith], (t0, s0), by simp, by simp [deriveWith, argNT]⟩
  | loop_done h => intro _ _ _ _ hp; exact hp
  | @loop_step s s1 s' F args nt i argsLen info s2 ai r r' x h hai hq hc hda hb ihq ihb =>
    intro hf hspre _ hpre hP
    have ihq' : Full E H0 s → SPre E (.query s2 (some ai)) → NPre (.query s2 (some ai)) s →
        OPre E H0 (.query s2 (some ai)) s → I3Post E (.query s2 (some ai)) s s1 :=
      fun a b c d => big_i3 H hq a b c d
    obtain ⟨hf3, f3, m3, hgai, _, _⟩ := iter_i3 H hai h hq ihq' hf hspre hpre
    obtain ⟨ra, hr, hgl, hlen, hinfo⟩ := hspre
    obtain ⟨hinf, a, ha, hs2⟩ := hinfo h
    have hqpre : OPre E H0 (.query s2 (some ai)) s := by
      intro x hx; cases hx; rw [hs2]; exact hf.oinv.args nt F args ra hpre.1 hr i _ a hai ha
    obtain ⟨hf1, fr1⟩ := big_full H hq hf trivial trivial hqpre
    obtain ⟨_, spost⟩ := big_sound E hq hf.sinv trivial
    obtain ⟨_, _, npost⟩ := big_nodup E hq hf.ninv trivial
    have hP1 := ihq hf trivial trivial hqpre hP
    have hrank : rank s2 < rank nt := by
      rw [hs2]; exact H.acyclic nt F ra hr a (List.mem_of_getElem? ha)
    have hP3 : P (pushStep E s1 F args nt i r) :=
      hpush s1 F args nt i r ra a ai hf1 hP1 hr hgl ha hai
        ((big_order H hq hf.sinv hf.ninv hf.hinv hf.oinv trivial trivial hqpre).2.2 _ _ hpre.1)
        (by rw [fr1 nt hrank]; exact hpre.2.1)
        (fun q hq' => ⟨by rw [← hs2]; exact npost q hq', by rw [← hs2]; exact spost q hq'⟩)
    have hspre' : SPre E (.addLoop F args nt (i + 1) argsLen r'.1 r'.2) := by
      refine ⟨ra, hr, hgl, hlen, ?_⟩
      intro _
      obtain ⟨r2, hr2, hadv1, hadv2⟩ := deriveAll_gen E.G ai s2 info hgai
      rw [hda] at hr2
      cases hr2
      have hlt : i + 1 < ra.length := by omega
      have hdrop : ra.drop (i + 1) = ra[i + 1] :: ra.drop (i + 1 + 1) := List.drop_eq_getElem_cons hlt
      refine ⟨?_, ra[i + 1], List.getElem?_eq_getElem hlt, ?_⟩
      · rw [hadv1, hinf, hdrop]; rfl
      · exact hadv2 _ _ (by rw [hinf, hdrop])
    have hopre' : OPre E H0 (.addLoop F args nt (i + 1) argsLen r'.1 r'.2) (pushStep E s1 F args nt i r) := by
      refine ⟨m3 _ _ hpre.1, ?_, ?_⟩
      · rw [f3 nt (Nat.le_refl _)]; exact hpre.2.1
      · intro k v hk
        rw [f3 nt (Nat.le_refl _)] at hk
        exact hpre.2.2 k v hk
    exact ihb hf3 hspre' trivial hopre' hP3
  | @loop_last s s1 F args nt i argsLen info s2 ai r h hai hq hc ihq =>
    intro hf hspre _ hpre hP
    obtain ⟨ra, hr, hgl, hlen, hinfo⟩ := hspre
    obtain ⟨hinf, a, ha, hs2⟩ := hinfo h
    have hqpre : OPre E H0 (.query s2 (some ai)) s := by
      intro x hx; cases hx; rw [hs2]; exact hf.oinv.args nt F args ra hpre.1 hr i _ a hai ha
    obtain ⟨hf1, fr1⟩ := big_full H hq hf trivial trivial hqpre
    obtain ⟨_, spost⟩ := big_sound E hq hf.sinv trivial
    obtain ⟨_, _, npost⟩ := big_nodup E hq hf.ninv trivial
    have hP1 := ihq hf trivial trivial hqpre hP
    have hrank : rank s2 < rank nt := by
      rw [hs2]; exact H.acyclic nt F ra hr a (List.mem_of_getElem? ha)
    exact hpush s1 F args nt i r ra a ai hf1 hP1 hr hgl ha hai
      ((big_order H hq hf.sinv hf.ninv hf.hinv hf.oinv trivial trivial hqpre).2.2 _ _ hpre.1)
      (by rw [fr1 nt hrank]; exact hpre.2.1)
      (fun q hq' => ⟨by rw [← hs2]; exact npost q hq', by rw [← hs2]; exact spost q hq'⟩)

end PS.HS
