import PS.Proofs.Enum.BeapComplResume
import PS.Proofs.Enum.BeapFresh
namespace PS.Beap
open PS PS.G PS.Heapq
set_option linter.unusedSectionVars false
variable {S : Type} [DecidableEq S]

/-- the first cost of the start symbol is the cost of the head of its queue -/
def HE (E : Env S) (s : St S) : Prop :=
  ∀ c, (s.clOf E.G.start)[0]? = some c → ∃ e q, s.queueOf E.G.start = e :: q ∧ e.cost = c

theorem reevalPass_he (E : Env S) : ∀ (nts : List (NT S Unit)) (s : St S) (ch : Bool) (r : St S × Bool),
    HE E s → reevalPass E nts s ch = some r → HE E r.1 := by
  intro nts
  induction nts with
  | nil => intro s ch r hs h; simp only [reevalPass] at h; cases h; exact hs
  | cons nt rest ih =>
    intro s ch r hs h
    simp only [reevalPass] at h
    split at h
    · cases h
    · next nq hnq =>
      split at h
      · split at h
        · next e q' c0 cl' hh hcl =>
          refine ih _ _ _ ?_ h
          intro c hc
          by_cases hS : E.G.start = nt
          · subst hS
            rw [St.clOf_setCL] at hc
            simp only [if_true, List.getElem?_cons_zero, Option.some.injEq] at hc
            refine ⟨e, q', ?_, hc⟩
            show (s.setQueue E.G.start (e :: q')).queueOf E.G.start = _
            rw [St.queueOf_setQueue]; simp
          · rw [St.clOf_setCL] at hc
            simp only [hS, if_false] at hc
            obtain ⟨e', q'', g1, g2⟩ := hs c hc
            refine ⟨e', q'', ?_, g2⟩
            show (s.setQueue nt (e :: q')).queueOf E.G.start = _
            rw [St.queueOf_setQueue]; simp [hS, g1]
        · cases h
      · exact ih _ _ _ hs h

theorem reevalLoop_he (E : Env S) : ∀ (k : Nat) (s s' : St S), HE E s → reevalLoop E k s = some s' → HE E s' := by
  intro k
  induction k with
  | zero => intro s s' _ h; simp [reevalLoop] at h
  | succ k ih =>
    intro s s' hs h
    simp only [reevalLoop] at h
    split at h
    · cases h
    · next s1 hp => exact ih _ _ (reevalPass_he E _ _ _ _ hs hp) h
    · next s1 hp => cases h; exact reevalPass_he E _ _ _ _ hs hp

theorem prologue_he (E : Env S) (fuel : Nat) (s' : St S) (h : prologue E fuel (St.empty E.G) = some s') : HE E s' := by
  unfold prologue at h
  split at h
  · cases h
  · next s1 hin =>
    have h1 : HE E s1 := by
      cases fuel with
      | zero => simp [initNT] at hin
      | succ n =>
        simp only [initNT] at hin
        split at hin
        · cases hin
        · next cl hcl =>
          have hcl0 : cl = [] := by
            have : (St.empty E.G).clOf E.G.start = [] := lookup_map_nil E.G.rules E.G.start
            unfold St.clOf at this
            rw [hcl] at this; exact this
          subst hcl0
          simp only [List.length_nil, Nat.lt_irrefl, if_false] at hin
          split at hin
          · cases hin
          · split at hin
            · cases hin
            · next s2 hir =>
              split at hin
              · cases hin
              · next e q hq =>
                cases hin
                intro c hc
                refine ⟨e, q, hq, ?_⟩
                rw [St.clOf_setCL] at hc
                simp only [if_true] at hc
                cases hcl2 : s2.clOf E.G.start with
                | nil => rw [hcl2] at hc; simp at hc
                | cons c0 r0 => rw [hcl2] at hc; simpa using hc
    unfold reevaluate at h
    split at h
    · exact reevalLoop_he E _ _ _ h1 h
    · cases h; exact h1

/-- the cost lists never shrink during the initialisation -/
def LenLe (s s' : St S) : Prop := ∀ x, (s.clOf x).length ≤ (s'.clOf x).length

theorem init_len (E : Env S) : ∀ n : Nat,
    (∀ s nt s', initNT E n s nt = some s' → LenLe s s') ∧
    (∀ s nt rs s', initRules E n s nt rs = some s' → LenLe s s') ∧
    (∀ s as c r, initArgs E n s as c = some r → LenLe s r.1) := by
  intro n
  induction n with
  | zero =>
    refine ⟨?_, ?_, ?_⟩
    · intro s nt s' h; simp [initNT] at h
    · intro s nt rs s' h; simp [initRules] at h
    · intro s as c r h; simp [initArgs] at h
  | succ n ih =>
    obtain ⟨ihN, ihR, ihA⟩ := ih
    refine ⟨?_, ?_, ?_⟩
    · intro s nt s' h
      simp only [initNT] at h
      split at h
      · cases h
      · next cl hcl =>
        split at h
        · cases h; exact fun _ => Nat.le_refl _
        · split at h
          · cases h
          · split at h
            · cases h
            · next s1 hir =>
              split at h
              · cases h
              · cases h
                have h1 := ihR _ _ _ _ hir
                intro x
                have h2 := h1 x
                rw [St.clOf_setCL] at h2 ⊢
                have hclx : s.clOf nt = cl := by unfold St.clOf; rw [hcl]; rfl
                split
                · next hx => subst hx; simp only [if_true] at h2; rw [List.length_set]; rw [hclx]; simp at h2; omega
                · next hx => simp only [hx, if_false] at h2; exact h2
    · intro s nt rs s' h
      cases rs with
      | nil => simp only [initRules] at h; cases h; exact fun _ => Nat.le_refl _
      | cons pr rest =>
        obtain ⟨P, rl⟩ := pr
        simp only [initRules] at h
        split at h
        · cases h
        · split at h
          · cases h
          · next s1 cost hia =>
            have h1 := ihA _ _ _ _ hia
            have h2 := ihR _ _ _ _ h
            intro x
            have a : (s.clOf x).length ≤ (s1.clOf x).length := h1 x
            have b := h2 x
            simp only [St.clOf_setQueue] at b
            omega
    · intro s as c r h
      cases as with
      | nil => simp only [initArgs] at h; cases h; exact fun _ => Nat.le_refl _
      | cons a as =>
        simp only [initArgs] at h
        split at h
        · cases h
        · next s1 hin =>
          split at h
          · cases h
          · have h1 := ihN _ _ _ hin
            have h2 := ihA _ _ _ _ h
            intro x
            have a : (s.clOf x).length ≤ (s1.clOf x).length := h1 x
            have b : (s1.clOf x).length ≤ (r.1.clOf x).length := h2 x
            omega

theorem reevalPass_len (E : Env S) : ∀ (nts : List (NT S Unit)) (s : St S) (ch : Bool) (r : St S × Bool),
    reevalPass E nts s ch = some r → LenLe s r.1 := by
  intro nts
  induction nts with
  | nil => intro s ch r h; simp only [reevalPass] at h; cases h; exact fun _ => Nat.le_refl _
  | cons nt rest ih =>
    intro s ch r h
    simp only [reevalPass] at h
    split at h
    · cases h
    · split at h
      · split at h
        · next e q' c0 cl' hh hcl =>
          have h1 := ih _ _ _ h
          intro x
          have := h1 x
          rw [St.clOf_setCL] at this
          split at this
          · next hx => subst hx; rw [hcl]; simpa using this
          · exact this
        · cases h
      · exact ih _ _ _ h

theorem reevalLoop_len (E : Env S) : ∀ (k : Nat) (s s' : St S), reevalLoop E k s = some s' → LenLe s s' := by
  intro k
  induction k with
  | zero => intro s s' h; simp [reevalLoop] at h
  | succ k ih =>
    intro s s' h
    simp only [reevalLoop] at h
    split at h
    · cases h
    · next s1 hp => exact fun x => Nat.le_trans (reevalPass_len E _ _ _ _ hp x) (ih _ _ h x)
    · next s1 hp => cases h; exact reevalPass_len E _ _ _ _ hp

/-- after the prologue the start symbol has a first cost -/
theorem prologue_start_ne (E : Env S) (fuel : Nat) (s' : St S) (h : prologue E fuel (St.empty E.G) = some s') :
    s'.clOf E.G.start ≠ [] := by
  unfold prologue at h
  split at h
  · cases h
  · next s1 hin =>
    have h1 : s1.clOf E.G.start ≠ [] := by
      cases fuel with
      | zero => simp [initNT] at hin
      | succ n =>
        simp only [initNT] at hin
        split at hin
        · cases hin
        · next cl hcl =>
          have hcl0 : cl = [] := by
            have : (St.empty E.G).clOf E.G.start = [] := lookup_map_nil E.G.rules E.G.start
            unfold St.clOf at this
            rw [hcl] at this; exact this
          subst hcl0
          simp only [List.length_nil, Nat.lt_irrefl, if_false] at hin
          split at hin
          · cases hin
          · split at hin
            · cases hin
            · next s2 hir =>
              split at hin
              · cases hin
              · cases hin
                have hlen : 1 ≤ (s2.clOf E.G.start).length := by
                  have := (init_len E n).2.1 _ _ _ _ hir E.G.start
                  rw [St.clOf_setCL] at this; simpa using this
                rw [St.clOf_setCL]; simp only [if_true]
                intro h0
                have h0' := congrArg List.length h0
                rw [List.length_set, List.length_nil] at h0'
                omega
    have h2 : LenLe s1 s' := by
      unfold reevaluate at h
      split at h
      · exact reevalLoop_len E _ _ _ h
      · cases h; exact fun _ => Nat.le_refl _
    intro h0
    have := h2 E.G.start
    rw [h0] at this
    exact h1 (List.length_eq_zero_iff.mp (by simpa using this))

end PS.Beap
