/- The placement invariant of the bucketed queue with exact rational arithmetic: every stored
   CostTuple sits in the cell its cost maps to (relative to `mini` / `translation`, nested cells
   included), and the order contract that follows: `pop` returns the stored CostTuple of strictly
   smallest cost. -/
import PS.Model.Enum.CDQueue
import PS.Proofs.Enum.CDQueue
namespace PS.CD

/-- exact rational arithmetic with either form of the bucket index expression
    (`int(cost / maxi * k)`, or `int(cost * k / maxi)` after fix 8568413) -/
def ratA (b : Bool) : Arith Rat := { ratArith with mulFirst := b }

/-- the bucket index computed by `__push__` -/
def lbiOf (A : Arith Rat) (cost maxi : Rat) (k : Nat) : Int :=
  if A.mulFirst then A.trunc (A.div (A.mul cost (A.ofNat k)) maxi)
  else A.trunc (A.mul (A.div cost maxi) (A.ofNat k))

theorem natCast_pos {k : Nat} (hk : 0 < k) : (0 : Rat) < (k : Rat) := by exact_mod_cast hk

/-- with exact rationals the bucket index is `⌊cost / (maxi / k)⌋`, below `k` -/
theorem lbi_spec (b : Bool) (cost maxi : Rat) (k : Nat) (hk : 0 < k) (hm : 0 < maxi) (h0 : 0 ≤ cost) (h1 : cost < maxi) :
    ∃ L : Nat, lbiOf (ratA b) cost maxi k = (L : Int) ∧ L < k ∧
      (L : Rat) * (maxi / (k : Rat)) ≤ cost ∧ cost < ((L : Rat) + 1) * (maxi / (k : Rat)) := by
  have hkr := natCast_pos hk
  have hk' : (k : Rat) ≠ 0 := by grind
  have hm' : maxi ≠ 0 := by grind
  have hw : 0 < maxi / (k : Rat) := by
    rw [Rat.div_def]; exact Rat.mul_pos hm (Rat.inv_pos.mpr hkr)
  let x : Rat := cost / maxi * (k : Rat)
  have hx0 : 0 ≤ x := by
    apply Rat.mul_nonneg
    · rw [Rat.div_def]; exact Rat.mul_nonneg h0 (Rat.le_of_lt (Rat.inv_pos.mpr hm))
    · exact Rat.le_of_lt hkr
  have hval : lbiOf (ratA b) cost maxi k = x.floor := by
    have e2 : cost * (k : Rat) / maxi = x := by show cost * (k : Rat) / maxi = cost / maxi * (k : Rat); grind
    cases b with
    | true =>
      show ratTrunc (cost * (((k : Nat) : Int) : Rat) / maxi) = _
      have : (((k : Nat) : Int) : Rat) = (k : Rat) := rfl
      rw [this, e2, ratTrunc, if_pos hx0]
    | false =>
      show ratTrunc (cost / maxi * (((k : Nat) : Int) : Rat)) = _
      have : (((k : Nat) : Int) : Rat) = (k : Rat) := rfl
      rw [this, ratTrunc, if_pos hx0]
  have hfl0 : 0 ≤ x.floor := by
    rw [Rat.le_floor_iff]; simpa using hx0
  have hcost : x * (maxi / (k : Rat)) = cost := by show cost / maxi * (k : Rat) * (maxi / (k : Rat)) = cost; grind
  refine ⟨x.floor.toNat, ?_, ?_, ?_, ?_⟩
  · rw [hval]; omega
  · have hxk : x < (k : Rat) := by
      have : cost / maxi < 1 := (Rat.div_lt_iff hm).mpr (by simpa using h1)
      show cost / maxi * (k : Rat) < (k : Rat)
      have := Rat.mul_lt_mul_of_pos_right this hkr
      simpa using this
    have : x.floor < (k : Int) := by
      rw [Rat.floor_lt_iff]; exact_mod_cast hxk
    omega
  · have hc : ((x.floor.toNat : Nat) : Rat) = ((x.floor : Int) : Rat) := by
      have : ((x.floor.toNat : Nat) : Int) = x.floor := by omega
      rw [← this]; rfl
    rw [hc, ← hcost]
    exact Rat.mul_le_mul_of_nonneg_right (Rat.floor_le x) (Rat.le_of_lt hw)
  · have hc : ((x.floor.toNat : Nat) : Rat) = ((x.floor : Int) : Rat) := by
      have : ((x.floor.toNat : Nat) : Int) = x.floor := by omega
      rw [← this]; rfl
    rw [hc]
    have h2 := Rat.lt_floor_add_one x
    have : ((x.floor + 1 : Int) : Rat) = (x.floor : Rat) + 1 := by simp [Rat.intCast_add]
    rw [this] at h2
    calc cost = x * (maxi / (k : Rat)) := hcost.symm
      _ < ((x.floor : Rat) + 1) * (maxi / (k : Rat)) := Rat.mul_lt_mul_of_pos_right h2 hw

/-- offset of cell `i` from the cell at `translation`, in the circular array -/
def off (k tr i : Nat) : Nat := (i + k - tr) % k

theorem off_index (k tr L : Nat) (hL : L < k) (htr : tr < k) :
    ∃ i, (((L : Int) + (tr : Int)) % (k : Int)).toNat = i ∧ i < k ∧ off k tr i = L := by
  have e : (((L : Int) + (tr : Int)) % (k : Int)) = (((L + tr) % k : Nat) : Int) := by
    simp
  refine ⟨(L + tr) % k, by rw [e]; exact Int.toNat_natCast _, Nat.mod_lt _ (by omega), ?_⟩
  unfold off
  by_cases h : L + tr < k
  · rw [Nat.mod_eq_of_lt h]
    have : L + tr + k - tr = L + k := by omega
    rw [this, Nat.add_mod_right, Nat.mod_eq_of_lt hL]
  · have h2 : (L + tr) % k = L + tr - k := by
      rw [Nat.mod_eq_sub_mod (by omega), Nat.mod_eq_of_lt (by omega)]
    rw [h2]
    have : L + tr - k + k - tr = L := by omega
    rw [this, Nat.mod_eq_of_lt hL]

theorem off_zero (k i : Nat) (hi : i < k) : off k 0 i = i := by
  unfold off; simp [Nat.mod_eq_of_lt hi]

theorem off_inj (k tr i j : Nat) (hi : i < k) (hj : j < k) (htr : tr < k) (h : off k tr i = off k tr j) : i = j := by
  unfold off at h
  by_cases h1 : i + k - tr < k <;> by_cases h2 : j + k - tr < k
  · rw [Nat.mod_eq_of_lt h1, Nat.mod_eq_of_lt h2] at h; omega
  · rw [Nat.mod_eq_of_lt h1, Nat.mod_eq_sub_mod (by omega), Nat.mod_eq_of_lt (by omega)] at h; omega
  · rw [Nat.mod_eq_of_lt h2, Nat.mod_eq_sub_mod (by omega), Nat.mod_eq_of_lt (by omega)] at h; omega
  · rw [Nat.mod_eq_sub_mod (by omega), Nat.mod_eq_of_lt (by omega), Nat.mod_eq_sub_mod (by omega),
      Nat.mod_eq_of_lt (by omega)] at h; omega

/-- **placement**: a cell covering the cost interval `[b, b + w)`: a leaf holds a CostTuple of that
    interval, the `j`-th of the `k` sub-cells of a nested cell covers `[b + j·w/k, b + (j+1)·w/k)` -/
inductive Placed (k : Nat) : Rat → Rat → Cell Rat → Prop
  | empty (b w : Rat) : Placed k b w .empty
  | leaf (b w : Rat) (ct : CT Rat) : b ≤ ct.cost → ct.cost < b + w → Placed k b w (.leaf ct)
  | node (b w : Rat) (n : Nat) (sub : List (Cell Rat)) : sub.length = k →
      (∀ (j : Nat) c, sub[j]? = some c → Placed k (b + (j : Rat) * (w / (k : Rat))) (w / (k : Rat)) c) →
      Placed k b w (.node n sub)

/-- a (rotated) array of `k` cells starting at cost `base`: cell `i` covers the `off k tr i`-th interval
    of width `w` -/
def PlacedList (k : Nat) (base w : Rat) (tr : Nat) (cells : List (Cell Rat)) : Prop :=
  cells.length = k ∧ ∀ (i : Nat) c, cells[i]? = some c → Placed k (base + (off k tr i : Rat) * w) w c

theorem placedList_replicate (k : Nat) (base w : Rat) (tr : Nat) : PlacedList k base w tr (List.replicate k .empty) := by
  refine ⟨by simp, ?_⟩
  intro i c h
  have := List.mem_of_getElem? h
  rw [List.mem_replicate] at this
  rw [this.2]; exact .empty _ _

theorem placedList_set {k : Nat} {base w : Rat} {tr : Nat} {cells : List (Cell Rat)} (h : PlacedList k base w tr cells)
    (i : Nat) (c' : Cell Rat) (hc : Placed k (base + (off k tr i : Rat) * w) w c') :
    PlacedList k base w tr (cells.set i c') := by
  refine ⟨by simp [h.1], ?_⟩
  intro j c hj
  rw [List.getElem?_set] at hj
  split at hj
  · rename_i hij
    subst hij
    split at hj
    · simp only [Option.some.injEq] at hj; subst hj; exact hc
    · simp at hj
  · exact h.2 j c hj

theorem placedList_node {k : Nat} {base w : Rat} {sub : List (Cell Rat)} (n : Nat) (h : PlacedList k base (w / (k : Rat)) 0 sub) :
    Placed k base w (.node n sub) := by
  refine .node _ _ _ _ h.1 ?_
  intro j c hj
  have hjk : j < k := by
    have := (List.getElem?_eq_some_iff.mp hj).1
    rw [h.1] at this; exact this
  have := h.2 j c hj
  rwa [off_zero k j hjk] at this

theorem placed_node_inv {k : Nat} {base w : Rat} {n : Nat} {sub : List (Cell Rat)} (h : Placed k base w (.node n sub)) :
    PlacedList k base (w / (k : Rat)) 0 sub := by
  cases h with
  | node _ _ _ _ hl hs =>
    refine ⟨hl, ?_⟩
    intro j c hj
    have hjk : j < k := by
      have := (List.getElem?_eq_some_iff.mp hj).1
      rw [hl] at this; exact this
    rw [off_zero k j hjk]
    exact hs j c hj

/-- **`__push__` keeps the placement** (exact rationals): when the relative cost is `cost = e.cost - base`
    with `0 ≤ cost < maxi`, the new CostTuple lands in the cell (and nested sub-cell) covering its cost -/
theorem pushCells_placed (b : Bool) (k : Nat) (hk : 0 < k) :
    ∀ (f : Nat) (e : CT Rat) (cost maxi base : Rat) (cells : List (Cell Rat)) (tr : Nat)
      (cells' : List (Cell Rat)) (added : Bool),
      pushCells (ratA b) k f e cost maxi cells tr = some (cells', added) →
      0 < maxi → cost = e.cost - base → 0 ≤ cost → cost < maxi → tr < k →
      PlacedList k base (maxi / (k : Rat)) tr cells → PlacedList k base (maxi / (k : Rat)) tr cells' := by
  intro f
  induction f with
  | zero => intro e cost maxi base cells tr cells' added h; simp [pushCells] at h
  | succ f ih =>
    intro e cost maxi base cells tr cells' added h hm hc h0 h1 htr hp
    have hkr := natCast_pos hk
    have hw : 0 < maxi / (k : Rat) := by
      rw [Rat.div_def]; exact Rat.mul_pos hm (Rat.inv_pos.mpr hkr)
    obtain ⟨L, hL, hLk, hlo, hhi⟩ := lbi_spec b cost maxi k hk hm h0 h1
    obtain ⟨i, hi, hik, hoff⟩ := off_index k tr L hLk htr
    unfold lbiOf at hL
    rw [pushCells] at h
    simp only [] at h
    rw [hL, hi] at h
    have hz : (ratA b).isZero maxi = false := by
      show decide (maxi = ((0 : Int) : Rat)) = false
      have : maxi ≠ 0 := by grind
      simpa using this
    have hunit : (ratA b).div maxi ((ratA b).ofNat k) = maxi / (k : Rat) := rfl
    have hsub : ∀ x y : Rat, (ratA b).sub x y = x - y := fun _ _ => rfl
    have hadd : ∀ x y : Rat, (ratA b).add x y = x + y := fun _ _ => rfl
    have hmul : ∀ x y : Rat, (ratA b).mul x y = x * y := fun _ _ => rfl
    have hofL : (ratA b).ofInt (L : Int) = (L : Rat) := rfl
    simp only [hz, Bool.false_eq_true, if_false, hunit, hsub, hadd, hmul, hofL] at h
    -- the interval of cell `i`
    have hbase : base + (off k tr i : Rat) * (maxi / (k : Rat)) = base + (L : Rat) * (maxi / (k : Rat)) := by rw [hoff]
    have he_lo : base + (L : Rat) * (maxi / (k : Rat)) ≤ e.cost := by grind
    have he_hi : e.cost < base + (L : Rat) * (maxi / (k : Rat)) + maxi / (k : Rat) := by grind
    split at h
    · simp at h
    · -- empty
      simp only [Option.some.injEq, Prod.mk.injEq] at h
      rw [← h.1]
      exact placedList_set hp i _ (by rw [hbase]; exact .leaf _ _ _ he_lo he_hi)
    · -- leaf
      rename_i val hget
      have hval := hp.2 i _ hget
      rw [hbase] at hval
      cases hval with
      | leaf _ _ _ hv1 hv2 =>
        split at h
        · split at h
          · simp at h
          · rename_i sub1 b1 h1'
            split at h
            · simp at h
            · rename_i sub2 b2 h2'
              simp only [Option.some.injEq, Prod.mk.injEq] at h
              rw [← h.1]
              have p1 := ih val _ (maxi / (k : Rat)) (base + (L : Rat) * (maxi / (k : Rat))) _ 0 sub1 b1 h1' hw
                (by grind) (by grind) (by grind) hk (placedList_replicate k _ _ 0)
              have p2 := ih e _ (maxi / (k : Rat)) (base + (L : Rat) * (maxi / (k : Rat))) _ 0 sub2 b2 h2' hw
                (by grind) (by grind) (by grind) hk p1
              exact placedList_set hp i _ (by rw [hbase]; exact placedList_node 2 p2)
        · simp only [Option.some.injEq, Prod.mk.injEq] at h
          rw [← h.1]
          exact placedList_set hp i _ (by rw [hbase]; exact .leaf _ _ _ hv1 hv2)
    · -- nested
      rename_i n sub hget
      have hnode := hp.2 i _ hget
      rw [hbase] at hnode
      split at h
      · simp at h
      · rename_i sub' added' h1'
        simp only [Option.some.injEq, Prod.mk.injEq] at h
        rw [← h.1]
        have p1 := ih e _ (maxi / (k : Rat)) (base + (L : Rat) * (maxi / (k : Rat))) _ 0 sub' added' h1' hw
          (by grind) (by grind) (by grind) hk (placed_node_inv hnode)
        exact placedList_set hp i _ (by rw [hbase]; exact placedList_node _ p1)

/-! ### what a placed cell holds -/

/-- the cells of a list starting at cost `b`, one interval of width `w` each (no rotation) -/
def Run (k : Nat) (b w : Rat) (l : List (Cell Rat)) : Prop :=
  ∀ (j : Nat) c, l[j]? = some c → Placed k (b + (j : Rat) * w) w c

theorem run_tail {k : Nat} {b w : Rat} {c : Cell Rat} {rest : List (Cell Rat)} (h : Run k b w (c :: rest)) :
    Placed k b w c ∧ Run k (b + w) w rest := by
  constructor
  · have := h 0 c (by simp)
    have e : b + ((0 : Nat) : Rat) * w = b := by grind
    rwa [e] at this
  · intro j c' hj
    have := h (j + 1) c' (by simpa using hj)
    have e : b + ((j + 1 : Nat) : Rat) * w = b + w + (j : Rat) * w := by grind
    rwa [e] at this

theorem run_cons {k : Nat} {b w : Rat} {c : Cell Rat} {rest : List (Cell Rat)} (hc : Placed k b w c)
    (hr : Run k (b + w) w rest) : Run k b w (c :: rest) := by
  intro j c' hj
  cases j with
  | zero =>
    simp only [List.getElem?_cons_zero, Option.some.injEq] at hj
    subst hj
    have e : b + ((0 : Nat) : Rat) * w = b := by grind
    rwa [e]
  | succ j =>
    have := hr j c' (by simpa using hj)
    have e : b + ((j + 1 : Nat) : Rat) * w = b + w + (j : Rat) * w := by grind
    rwa [e]

theorem placed_node_run {k : Nat} {b w : Rat} {n : Nat} {sub : List (Cell Rat)} (h : Placed k b w (.node n sub)) :
    sub.length = k ∧ Run k b (w / (k : Rat)) sub := by
  cases h with
  | node _ _ _ _ hl hs => exact ⟨hl, hs⟩

mutual
  /-- every CostTuple below a placed cell lies in the interval of the cell -/
  theorem placed_bounds (k : Nat) (hk : 0 < k) : ∀ (c : Cell Rat) (b w : Rat), 0 < w → Placed k b w c →
      ∀ t ∈ c.tuples, b ≤ t.cost ∧ t.cost < b + w
    | .empty, _, _, _, _, t, ht => by simp [tuples_empty] at ht
    | .leaf ct, b, w, _, h, t, ht => by
      simp only [tuples_leaf, List.mem_singleton] at ht
      subst ht
      cases h with
      | leaf _ _ _ h1 h2 => exact ⟨h1, h2⟩
    | .node n sub, b, w, hw, h, t, ht => by
      obtain ⟨hl, hr⟩ := placed_node_run h
      have hkr := natCast_pos hk
      have hw' : 0 < w / (k : Rat) := by
        rw [Rat.div_def]; exact Rat.mul_pos hw (Rat.inv_pos.mpr hkr)
      rw [tuples_node] at ht
      have := run_bounds k hk sub b (w / (k : Rat)) hw' hr t ht
      rw [hl] at this
      have e : b + (k : Rat) * (w / (k : Rat)) = b + w := by grind
      rw [e] at this
      exact this
  theorem run_bounds (k : Nat) (hk : 0 < k) : ∀ (l : List (Cell Rat)) (b w : Rat), 0 < w → Run k b w l →
      ∀ t ∈ tuplesList l, b ≤ t.cost ∧ t.cost < b + (l.length : Rat) * w
    | [], _, _, _, _, t, ht => by simp [tuplesList_nil] at ht
    | c :: rest, b, w, hw, h, t, ht => by
      obtain ⟨hc, hr⟩ := run_tail h
      rw [tuplesList_cons] at ht
      have e : b + ((c :: rest).length : Rat) * w = b + w + (rest.length : Rat) * w := by
        simp only [List.length_cons]; grind
      have hlen : (0 : Rat) ≤ (rest.length : Rat) := by exact_mod_cast Nat.zero_le _
      have hlw : 0 ≤ (rest.length : Rat) * w := Rat.mul_nonneg hlen (Rat.le_of_lt hw)
      rcases List.mem_append.mp ht with h1 | h1
      · have := placed_bounds k hk c b w hw hc t h1
        rw [e]; constructor
        · exact this.1
        · grind
      · have := run_bounds k hk rest (b + w) w hw hr t h1
        rw [e]; constructor
        · grind
        · exact this.2
end

mutual
  /-- **`__pop__` on a placed cell**: the popped CostTuple is strictly cheaper than everything that stays,
      and the cell stays placed -/
  theorem popCell_placed (k : Nat) (hk : 0 < k) : ∀ (c : Cell Rat) (b w : Rat) (p : CT Rat) (c' : Cell Rat), 0 < w →
      WFCell c → Placed k b w c → popCell c = some (p, c') →
      Placed k b w c' ∧ ∀ t ∈ c'.tuples, p.cost < t.cost
    | .empty, _, _, _, _, _, _, _, h => by simp [popCell] at h
    | .leaf ct, b, w, p, c', _, _, _, h => by
      simp only [popCell, Option.some.injEq, Prod.mk.injEq] at h
      rw [← h.2]
      exact ⟨.empty _ _, by simp [tuples_empty]⟩
    | .node n sub, b, w, p, c', hw, hwf, hp, h => by
      obtain ⟨hl, hr⟩ := placed_node_run hp
      have hkr := natCast_pos hk
      have hw' : 0 < w / (k : Rat) := by
        rw [Rat.div_def]; exact Rat.mul_pos hw (Rat.inv_pos.mpr hkr)
      cases hwf with
      | node _ _ hs hn h2 =>
        have hn1 : ¬ n ≤ 1 := by omega
        simp only [popCell, hn1, if_false] at h
        split at h
        · simp at h
        · rename_i p1 sub' hpop
          obtain ⟨hr', hlt, hl'⟩ := popList_placed k hk sub b (w / (k : Rat)) p1 sub' hw' hs hr hpop
          obtain ⟨w1, t1, _⟩ := popList_spec sub p1 sub' hs hpop
          split at h
          · split at h
            · simp at h
            · rename_i r hfirst
              simp only [Option.some.injEq, Prod.mk.injEq] at h
              rw [← h.1, ← h.2]
              rw [firstList_spec sub' w1] at hfirst
              have hmem : r ∈ tuplesList sub' := List.mem_of_mem_head? hfirst
              have hb := placed_bounds k hk (.node n sub') b w hw (.node _ _ _ _ (by rw [hl', hl]) hr') r
                (by rw [tuples_node]; exact hmem)
              refine ⟨.leaf _ _ _ hb.1 hb.2, ?_⟩
              intro t ht
              simp only [tuples_leaf, List.mem_singleton] at ht
              subst ht
              exact hlt _ hmem
          · simp only [Option.some.injEq, Prod.mk.injEq] at h
            rw [← h.1, ← h.2]
            refine ⟨.node _ _ _ _ (by rw [hl', hl]) hr', ?_⟩
            intro t ht
            rw [tuples_node] at ht
            exact hlt t ht
  theorem popList_placed (k : Nat) (hk : 0 < k) : ∀ (l : List (Cell Rat)) (b w : Rat) (p : CT Rat) (l' : List (Cell Rat)), 0 < w →
      (∀ c ∈ l, WFCell c) → Run k b w l → popList l = some (p, l') →
      Run k b w l' ∧ (∀ t ∈ tuplesList l', p.cost < t.cost) ∧ l'.length = l.length
    | [], _, _, _, _, _, _, _, h => by simp [popList] at h
    | .empty :: rest, b, w, p, l', hw, hwf, hr, h => by
      simp only [popList] at h
      split at h
      · simp at h
      · rename_i p1 rest' hpop
        simp only [Option.some.injEq, Prod.mk.injEq] at h
        rw [← h.1, ← h.2]
        obtain ⟨hc, hrt⟩ := run_tail hr
        obtain ⟨h1, h2, h3⟩ := popList_placed k hk rest (b + w) w p1 rest' hw
          (fun c hc => hwf c (List.mem_cons_of_mem _ hc)) hrt hpop
        exact ⟨run_cons (.empty _ _) h1, by simpa [tuplesList_cons, tuples_empty] using h2, by simp [h3]⟩
    | .leaf ct :: rest, b, w, p, l', hw, hwf, hr, h => by
      simp only [popList, Option.some.injEq, Prod.mk.injEq] at h
      rw [← h.1, ← h.2]
      obtain ⟨hc, hrt⟩ := run_tail hr
      refine ⟨run_cons (.empty _ _) hrt, ?_, by simp⟩
      intro t ht
      simp only [tuplesList_cons, tuples_empty, List.nil_append] at ht
      have h1 := (run_bounds k hk rest (b + w) w hw hrt t ht).1
      have h2 := (placed_bounds k hk (.leaf ct) b w hw hc ct (by simp [tuples_leaf])).2
      grind
    | .node n sub :: rest, b, w, p, l', hw, hwf, hr, h => by
      simp only [popList] at h
      split at h
      · simp at h
      · rename_i p1 c1 hpop
        simp only [Option.some.injEq, Prod.mk.injEq] at h
        rw [← h.1, ← h.2]
        obtain ⟨hc, hrt⟩ := run_tail hr
        have hwc := hwf _ List.mem_cons_self
        obtain ⟨h1, h2⟩ := popCell_placed k hk (.node n sub) b w p1 c1 hw hwc hc hpop
        obtain ⟨_, t1⟩ := popCell_spec (.node n sub) p1 c1 hwc hpop
        refine ⟨run_cons h1 hrt, ?_, by simp⟩
        intro t ht
        rw [tuplesList_cons] at ht
        rcases List.mem_append.mp ht with h3 | h3
        · exact h2 t h3
        · have h4 := (run_bounds k hk rest (b + w) w hw hrt t h3).1
          have h5 := (placed_bounds k hk (.node n sub) b w hw hc p1 (by rw [t1]; exact List.mem_cons_self)).2
          grind
end

/-! ### the queue object with exact rationals -/

theorem mem_tuplesList {α : Type} {l : List (Cell α)} {t : CT α} :
    t ∈ tuplesList l ↔ ∃ (j : Nat) (c : Cell α), l[j]? = some c ∧ t ∈ c.tuples := by
  induction l with
  | nil => simp [tuplesList_nil]
  | cons x xs ih =>
    rw [tuplesList_cons, List.mem_append, ih]
    constructor
    · rintro (h | ⟨j, c, h1, h2⟩)
      · exact ⟨0, x, by simp, h⟩
      · exact ⟨j + 1, c, by simpa using h1, h2⟩
    · rintro ⟨j, c, h1, h2⟩
      cases j with
      | zero =>
        simp only [List.getElem?_cons_zero, Option.some.injEq] at h1
        subst h1; exact Or.inl h2
      | succ j => exact Or.inr ⟨j, c, by simpa using h1, h2⟩

theorem wf_no_tuples {α : Type} {c : Cell α} (hw : WFCell c) (h : c.tuples = []) : c = .empty := by
  cases hw with
  | empty => rfl
  | leaf ct => simp [tuples_leaf] at h
  | node n sub _ hn h2 => rw [tuples_node] at h; rw [h] at hn; simp at hn; omega

theorem wf_count_zero {α : Type} {c : Cell α} (hw : WFCell c) (h : c.count = 0) : c = .empty := by
  cases hw with
  | empty => rfl
  | leaf ct => simp [Cell.count] at h
  | node n sub _ hn h2 => simp [Cell.count] at h; omega

theorem placedList_of_empty {k : Nat} {base w : Rat} {tr : Nat} {cells : List (Cell Rat)} (hl : cells.length = k)
    (h : ∀ c ∈ cells, c = Cell.empty) : PlacedList k base w tr cells := by
  refine ⟨hl, ?_⟩
  intro i c hi
  rw [h c (List.mem_of_getElem? hi)]
  exact .empty _ _

/-- the invariant of a `CDQueue` computing with exact rationals: counters in sync, every CostTuple in the
    cell (and nested sub-cell) its cost maps to relative to `mini` and `translation`,
    `mini = start + maxi * n / k` -/
structure QOrd (q : Q Rat) : Prop where
  wf : QWF q
  maxi_pos : 0 < q.maxi
  tr : q.translation < q.k
  none_empty : q.mini = none → ∀ c ∈ q.cells, c = Cell.empty
  placed : ∀ mini, q.mini = some mini → PlacedList q.k mini (q.maxi / (q.k : Rat)) q.translation q.cells
  rel : ∀ mini, q.mini = some mini → ∃ st, q.start = some st ∧ mini = st + q.maxi * (q.n : Rat) / (q.k : Rat)

theorem qord_new (b : Bool) (maxi0 : Int) (k0 : Nat) (q : Q Rat) (hm : 0 < maxi0) (h : Q.new (ratA b) maxi0 k0 = some q) :
    QOrd q := by
  have hq := (qwf_new (ratA b) maxi0 k0 q h).1
  unfold Q.new at h
  split at h
  · simp at h
  · rename_i hk0
    simp only [Option.some.injEq] at h
    subst h
    refine ⟨hq, ?_, by simp, ?_, by simp, by simp⟩
    · show (0 : Rat) < ((maxi0 * ((k0 : Int) + 1) : Int) : Rat) / (((k0 : Nat) : Int) : Rat)
      have h1 : (0 : Rat) < ((maxi0 * ((k0 : Int) + 1) : Int) : Rat) := by
        have : 0 < maxi0 * ((k0 : Int) + 1) := Int.mul_pos hm (by omega)
        exact_mod_cast this
      have h2 : (0 : Rat) < (((k0 : Nat) : Int) : Rat) := by
        have : 0 < k0 := by omega
        exact_mod_cast this
      rw [Rat.div_def]; exact Rat.mul_pos h1 (Rat.inv_pos.mpr h2)
    · intro _ c hc
      exact (List.mem_replicate.mp hc).2

theorem qord_clear (q : Q Rat) (h : QOrd q) : QOrd q.clear := by
  refine ⟨(qwf_clear q h.wf).1, h.maxi_pos, h.wf.kpos, ?_, by simp [Q.clear], by simp [Q.clear]⟩
  intro _ c hc
  exact (List.mem_replicate.mp hc).2

/-- **push keeps the placement** when the pushed cost lies in the window `[mini, mini + maxi)` -/
theorem qord_push (b asserts : Bool) (q q' : Q Rat) (e : CT Rat) (hq : QOrd q)
    (hwin : ∀ mini, q.mini = some mini → mini ≤ e.cost ∧ e.cost < mini + q.maxi)
    (h : q.push (ratA b) e asserts = some q') : QOrd q' := by
  have hwf' := (qwf_push (ratA b) q q' e asserts hq.wf h).1
  unfold Q.push at h
  simp only at h
  -- the anchored queue
  have ha : ∃ m, (q.anchor e.cost).mini = some m ∧ m ≤ e.cost ∧ e.cost < m + q.maxi ∧
      PlacedList q.k m (q.maxi / (q.k : Rat)) q.translation q.cells ∧
      (∃ st, (q.anchor e.cost).start = some st ∧ m = st + q.maxi * ((q.anchor e.cost).n : Rat) / (q.k : Rat)) := by
    have hcase : (∃ m, q.mini = some m) ∨ q.mini = none := by cases q.mini <;> simp
    rcases hcase with ⟨m, hm⟩ | hm
    · have e1 : q.anchor e.cost = q := by unfold Q.anchor; rw [hm]
      rw [e1]
      exact ⟨m, hm, (hwin m hm).1, (hwin m hm).2, hq.placed m hm, hq.rel m hm⟩
    · have e1 : q.anchor e.cost = { q with mini := some e.cost, start := some e.cost, n := 0 } := by
        unfold Q.anchor; rw [hm]
      rw [e1]
      refine ⟨e.cost, rfl, Rat.le_refl, ?_, placedList_of_empty hq.wf.len (hq.none_empty hm), e.cost, rfl, ?_⟩
      · have := hq.maxi_pos; grind
      · show e.cost = e.cost + q.maxi * ((0 : Nat) : Rat) / (q.k : Rat)
        grind
  have hf : (q.anchor e.cost).cells = q.cells ∧ (q.anchor e.cost).k = q.k ∧ (q.anchor e.cost).maxi = q.maxi ∧
      (q.anchor e.cost).translation = q.translation := by
    unfold Q.anchor; split <;> simp
  generalize q.anchor e.cost = q1 at h ha hf
  obtain ⟨m, hm1, hlo, hhi, hpl, hrel⟩ := ha
  obtain ⟨hcells, hk, hmx, htr⟩ := hf
  rw [hm1] at h
  simp only at h
  split at h
  · simp at h
  · split at h
    · simp at h
    · rename_i cells added hp
      simp only [Option.some.injEq] at h
      subst h
      rw [hcells, hk, hmx, htr] at hp
      have hsub : (ratA b).sub e.cost m = e.cost - m := rfl
      rw [hsub] at hp
      have hpl' := pushCells_placed b q.k hq.wf.kpos _ e _ q.maxi m q.cells q.translation cells added hp
        hq.maxi_pos rfl (by grind) (by grind) hq.tr hpl
      refine ⟨hwf', by simpa [hmx] using hq.maxi_pos, by simpa [hk, htr] using hq.tr, ?_, ?_, ?_⟩
      · intro hnone; simp [hm1] at hnone
      · intro mini hmini
        simp only [hm1, Option.some.injEq] at hmini
        subst hmini
        simpa [hk, hmx, htr] using hpl'
      · intro mini hmini
        simp only [hm1, Option.some.injEq] at hmini
        subst hmini
        simpa [hk, hmx] using hrel

theorem off_self (k tr : Nat) (htr : tr < k) : off k tr tr = 0 := by
  unfold off
  have : tr + k - tr = k := by omega
  rw [this, Nat.mod_self]

/-- **ORDER CONTRACT**: `pop` returns the stored CostTuple of STRICTLY smallest cost, inside the first
    bucket `[mini, mini + maxi / k)`, and keeps the invariant -/
theorem qord_pop (q q' : Q Rat) (p : CT Rat) (hq : QOrd q) (h : q.pop = some (p, q')) :
    QOrd q' ∧ (∀ t ∈ q'.tuples, p.cost < t.cost) ∧
    ∃ mini, q.mini = some mini ∧ mini ≤ p.cost ∧ p.cost < mini + q.maxi / (q.k : Rat) := by
  have hwf' := (qwf_pop q q' p hq.wf h).1
  unfold Q.pop at h
  split at h
  · simp at h
  · rename_i c hget
    split at h
    · simp at h
    · rename_i p1 c' hp
      split at h
      · simp at h
      · simp only [Option.some.injEq, Prod.mk.injEq] at h
        obtain ⟨h1, h2⟩ := h
        subst h1; subst h2
        have hkr := natCast_pos hq.wf.kpos
        have hw : 0 < q.maxi / (q.k : Rat) := by
          rw [Rat.div_def]; exact Rat.mul_pos hq.maxi_pos (Rat.inv_pos.mpr hkr)
        have hcw := hq.wf.cells c (List.mem_of_getElem? hget)
        have hcase : (∃ m, q.mini = some m) ∨ q.mini = none := by cases q.mini <;> simp
        rcases hcase with ⟨m, hm⟩ | hm
        rotate_left
        · have := hq.none_empty hm c (List.mem_of_getElem? hget)
          subst this
          simp [popCell] at hp
        · have hpl := hq.placed m hm
          have hc := hpl.2 _ _ hget
          have e0 : m + (off q.k q.translation q.translation : Rat) * (q.maxi / (q.k : Rat)) = m := by
            rw [off_self _ _ hq.tr]; grind
          rw [e0] at hc
          obtain ⟨hc', hlt⟩ := popCell_placed q.k hq.wf.kpos c m _ p1 c' hw hcw hc hp
          obtain ⟨_, t1⟩ := popCell_spec c p1 c' hcw hp
          have hpb := placed_bounds q.k hq.wf.kpos c m _ hw hc p1 (by rw [t1]; exact List.mem_cons_self)
          refine ⟨⟨hwf', hq.maxi_pos, hq.tr, ?_, ?_, ?_⟩, ?_, m, hm, hpb.1, hpb.2⟩
          · intro hnone; exact absurd (show q.mini = none from hnone) (by simp [hm])
          · intro mini hmini
            have hmini' : q.mini = some mini := hmini
            rw [hm, Option.some.injEq] at hmini'
            subst hmini'
            exact placedList_set hpl _ _ (by rw [e0]; exact hc')
          · intro mini hmini
            exact hq.rel mini hmini
          · intro t ht
            simp only [Q.tuples] at ht
            obtain ⟨j, d, hj, htd⟩ := mem_tuplesList.mp ht
            rw [List.getElem?_set] at hj
            split at hj
            · rename_i hij
              split at hj
              · simp only [Option.some.injEq] at hj
                subst hj; exact hlt t htd
              · simp at hj
            · rename_i hij
              have hjk : j < q.k := by
                have := (List.getElem?_eq_some_iff.mp hj).1
                rw [hq.wf.len] at this; exact this
              have hd := hpl.2 _ _ hj
              have hoff : 1 ≤ off q.k q.translation j := by
                rcases Nat.eq_zero_or_pos (off q.k q.translation j) with h0 | h0
                · exfalso
                  apply hij
                  exact (off_inj q.k q.translation j q.translation hjk hq.tr hq.tr (by rw [h0, off_self _ _ hq.tr])).symm
                · exact h0
              have hb := (placed_bounds q.k hq.wf.kpos d _ _ hw hd t htd).1
              have h1r : (1 : Rat) ≤ (off q.k q.translation j : Rat) := by exact_mod_cast hoff
              have : (1 : Rat) * (q.maxi / (q.k : Rat)) ≤ (off q.k q.translation j : Rat) * (q.maxi / (q.k : Rat)) :=
                Rat.mul_le_mul_of_nonneg_right h1r (Rat.le_of_lt hw)
              grind

end PS.CD
