/- The placement invariant of the bucketed queue with exact rational arithmetic: every stored
   CostTuple sits in the cell its cost maps to (relative to `mini` / `translation`, nested cells
   included), and the order contract that follows: `pop` returns the stored CostTuple of strictly
   smallest cost. -/
import PS.Model.Enum.CDQueue
import PS.Proofs.Enum.CDQueue
namespace PS.CD

/-- exact rational arithmetic with either form of the bucket index expression
    (`int(cost / maxi * k)`, or `int(cost * k / maxi)` after fix 8568413) -/
def ratA (b : Bool) : Arith Rat := { ratArith with mulFirst := b }

/-- the bucket index computed by `__push__` -/
def lbiOf (A : Arith Rat) (cost maxi : Rat) (k : Nat) : Int :=
  if A.mulFirst then A.trunc (A.div (A.mul cost (A.ofNat k)) maxi)
  else A.trunc (A.mul (A.div cost maxi) (A.ofNat k))

theorem natCast_pos {k : Nat} (hk : 0 < k) : (0 : Rat) < (k : Rat) := by exact_mod_cast hk

/-- with exact rationals the bucket index is `⌊cost / (maxi / k)⌋`, below `k` -/
theorem lbi_spec (b : Bool) (cost maxi : Rat) (k : Nat) (hk : 0 < k) (hm : 0 < maxi) (h0 : 0 ≤ cost) (h1 : cost < maxi) :
    ∃ L : Nat, lbiOf (ratA b) cost maxi k = (L : Int) ∧ L < k ∧
      (L : Rat) * (maxi / (k : Rat)) ≤ cost ∧ cost < ((L : Rat) + 1) * (maxi / (k : Rat)) := by
  have hkr := natCast_pos hk
  have hk' : (k : Rat) ≠ 0 := by grind
  have hm' : maxi ≠ 0 := by grind
  have hw : 0 < maxi / (k : Rat) := by
    rw [Rat.div_def]; exact Rat.mul_pos hm (Rat.inv_pos.mpr hkr)
  let x : Rat := cost / maxi * (k : Rat)
  have hx0 : 0 ≤ x := by
    apply Rat.mul_nonneg
    · rw [Rat.div_def]; exact Rat.mul_nonneg h0 (Rat.le_of_lt (Rat.inv_pos.mpr hm))
    · exact Rat.le_of_lt hkr
  have hval : lbiOf (ratA b) cost maxi k = x.floor := by
    have e2 : cost * (k : Rat) / maxi = x := by show cost * (k : Rat) / maxi = cost / maxi * (k : Rat); grind
    cases b with
    | true =>
      show ratTrunc (cost * (((k : Nat) : Int) : Rat) / maxi) = _
      have : (((k : Nat) : Int) : Rat) = (k : Rat) := rfl
      rw [this, e2, ratTrunc, if_pos hx0]
    | false =>
      show ratTrunc (cost / maxi * (((k : Nat) : Int) : Rat)) = _
      have : (((k : Nat) : Int) : Rat) = (k : Rat) := rfl
      rw [this, ratTrunc, if_pos hx0]
  have hfl0 : 0 ≤ x.floor := by
    rw [Rat.le_floor_iff]; simpa using hx0
  have hcost : x * (maxi / (k : Rat)) = cost := by show cost / maxi * (k : Rat) * (maxi / (k : Rat)) = cost; grind
  refine ⟨x.floor.toNat, ?_, ?_, ?_, ?_⟩
  · rw [hval]; omega
  · have hxk : x < (k : Rat) := by
      have : cost / maxi < 1 := (Rat.div_lt_iff hm).mpr (by simpa using h1)
      show cost / maxi * (k : Rat) < (k : Rat)
      have := Rat.mul_lt_mul_of_pos_right this hkr
      simpa using this
    have : x.floor < (k : Int) := by
      rw [Rat.floor_lt_iff]; exact_mod_cast hxk
    omega
  · have hc : ((x.floor.toNat : Nat) : Rat) = ((x.floor : Int) : Rat) := by
      have : ((x.floor.toNat : Nat) : Int) = x.floor := by omega
      rw [← this]; rfl
    rw [hc, ← hcost]
    exact Rat.mul_le_mul_of_nonneg_right (Rat.floor_le x) (Rat.le_of_lt hw)
  · have hc : ((x.floor.toNat : Nat) : Rat) = ((x.floor : Int) : Rat) := by
      have : ((x.floor.toNat : Nat) : Int) = x.floor := by omega
      rw [← this]; rfl
    rw [hc]
    have h2 := Rat.lt_floor_add_one x
    have : ((x.floor + 1 : Int) : Rat) = (x.floor : Rat) + 1 := by simp [Rat.intCast_add]
    rw [this] at h2
    calc cost = x * (maxi / (k : Rat)) := hcost.symm
      _ < ((x.floor : Rat) + 1) * (maxi / (k : Rat)) := Rat.mul_lt_mul_of_pos_right h2 hw

/-- offset of cell `i` from the cell at `translation`, in the circular array -/
def off (k tr i : Nat) : Nat := (i + k - tr) % k

theorem off_index (k tr L : Nat) (hL : L < k) (htr : tr < k) :
    ∃ i, (((L : Int) + (tr : Int)) % (k : Int)).toNat = i ∧ i < k ∧ off k tr i = L := by
  have e : (((L : Int) + (tr : Int)) % (k : Int)) = (((L + tr) % k : Nat) : Int) := by
    simp
  refine ⟨(L + tr) % k, by rw [e]; exact Int.toNat_natCast _, Nat.mod_lt _ (by omega), ?_⟩
  unfold off
  by_cases h : L + tr < k
  · rw [Nat.mod_eq_of_lt h]
    have : L + tr + k - tr = L + k := by omega
    rw [this, Nat.add_mod_right, Nat.mod_eq_of_lt hL]
  · have h2 : (L + tr) % k = L + tr - k := by
      rw [Nat.mod_eq_sub_mod (by omega), Nat.mod_eq_of_lt (by omega)]
    rw [h2]
    have : L + tr - k + k - tr = L := by omega
    rw [this, Nat.mod_eq_of_lt hL]

theorem off_zero (k i : Nat) (hi : i < k) : off k 0 i = i := by
  unfold off; simp [Nat.mod_eq_of_lt hi]

theorem off_inj (k tr i j : Nat) (hi : i < k) (hj : j < k) (htr : tr < k) (h : off k tr i = off k tr j) : i = j := by
  unfold off at h
  by_cases h1 : i + k - tr < k <;> by_cases h2 : j + k - tr < k
  · rw [Nat.mod_eq_of_lt h1, Nat.mod_eq_of_lt h2] at h; omega
  · rw [Nat.mod_eq_of_lt h1, Nat.mod_eq_sub_mod (by omega), Nat.mod_eq_of_lt (by omega)] at h; omega
  · rw [Nat.mod_eq_of_lt h2, Nat.mod_eq_sub_mod (by omega), Nat.mod_eq_of_lt (by omega)] at h; omega
  · rw [Nat.mod_eq_sub_mod (by omega), Nat.mod_eq_of_lt (by omega), Nat.mod_eq_sub_mod (by omega),
      Nat.mod_eq_of_lt (by omega)] at h; omega

/-- **placement**: a cell covering the cost interval `[b, b + w)`: a leaf holds a CostTuple of that
    interval, the `j`-th of the `k` sub-cells of a nested cell covers `[b + j·w/k, b + (j+1)·w/k)` -/
inductive Placed (k : Nat) : Rat → Rat → Cell Rat → Prop
  | empty (b w : Rat) : Placed k b w .empty
  | leaf (b w : Rat) (ct : CT Rat) : b ≤ ct.cost → ct.cost < b + w → Placed k b w (.leaf ct)
  | node (b w : Rat) (n : Nat) (sub : List (Cell Rat)) : sub.length = k →
      (∀ (j : Nat) c, sub[j]? = some c → Placed k (b + (j : Rat) * (w / (k : Rat))) (w / (k : Rat)) c) →
      Placed k b w (.node n sub)

/-- a (rotated) array of `k` cells starting at cost `base`: cell `i` covers the `off k tr i`-th interval
    of width `w` -/
def PlacedList (k : Nat) (base w : Rat) (tr : Nat) (cells : List (Cell Rat)) : Prop :=
  cells.length = k ∧ ∀ (i : Nat) c, cells[i]? = some c → Placed k (base + (off k tr i : Rat) * w) w c

theorem placedList_replicate (k : Nat) (base w : Rat) (tr : Nat) : PlacedList k base w tr (List.replicate k .empty) := by
  refine ⟨by simp, ?_⟩
  intro i c h
  have := List.mem_of_getElem? h
  rw [List.mem_replicate] at this
  rw [this.2]; exact .empty _ _

theorem placedList_set {k : Nat} {base w : Rat} {tr : Nat} {cells : List (Cell Rat)} (h : PlacedList k base w tr cells)
    (i : Nat) (c' : Cell Rat) (hc : Placed k (base + (off k tr i : Rat) * w) w c') :
    PlacedList k base w tr (cells.set i c') := by
  refine ⟨by simp [h.1], ?_⟩
  intro j c hj
  rw [List.getElem?_set] at hj
  split at hj
  · rename_i hij
    subst hij
    split at hj
    · simp only [Option.some.injEq] at hj; subst hj; exact hc
    · simp at hj
  · exact h.2 j c hj

theorem placedList_node {k : Nat} {base w : Rat} {sub : List (Cell Rat)} (n : Nat) (h : PlacedList k base (w / (k : Rat)) 0 sub) :
    Placed k base w (.node n sub) := by
  refine .node _ _ _ _ h.1 ?_
  intro j c hj
  have hjk : j < k := by
    have := (List.getElem?_eq_some_iff.mp hj).1
    rw [h.1] at this; exact this
  have := h.2 j c hj
  rwa [off_zero k j hjk] at this

theorem placed_node_inv {k : Nat} {base w : Rat} {n : Nat} {sub : List (Cell Rat)} (h : Placed k base w (.node n sub)) :
    PlacedList k base (w / (k : Rat)) 0 sub := by
  cases h with
  | node _ _ _ _ hl hs =>
    refine ⟨hl, ?_⟩
    intro j c hj
    have hjk : j < k := by
      have := (List.getElem?_eq_some_iff.mp hj).1
      rw [hl] at this; exact this
    rw [off_zero k j hjk]
    exact hs j c hj

/-- **`__push__` keeps the placement** (exact rationals): when the relative cost is `cost = e.cost - base`
    with `0 ≤ cost < maxi`, the new CostTuple lands in the cell (and nested sub-cell) covering its cost -/
theorem pushCells_placed (b : Bool) (k : Nat) (hk : 0 < k) :
    ∀ (f : Nat) (e : CT Rat) (cost maxi base : Rat) (cells : List (Cell Rat)) (tr : Nat)
      (cells' : List (Cell Rat)) (added : Bool),
      pushCells (ratA b) k f e cost maxi cells tr = some (cells', added) →
      0 < maxi → cost = e.cost - base → 0 ≤ cost → cost < maxi → tr < k →
      PlacedList k base (maxi / (k : Rat)) tr cells → PlacedList k base (maxi / (k : Rat)) tr cells' := by
  intro f
  induction f with
  | zero => intro e cost maxi base cells tr cells' added h; simp [pushCells] at h
  | succ f ih =>
    intro e cost maxi base cells tr cells' added h hm hc h0 h1 htr hp
    have hkr := natCast_pos hk
    have hw : 0 < maxi / (k : Rat) := by
      rw [Rat.div_def]; exact Rat.mul_pos hm (Rat.inv_pos.mpr hkr)
    obtain ⟨L, hL, hLk, hlo, hhi⟩ := lbi_spec b cost maxi k hk hm h0 h1
    obtain ⟨i, hi, hik, hoff⟩ := off_index k tr L hLk htr
    unfold lbiOf at hL
    rw [pushCells] at h
    simp only [] at h
    rw [hL, hi] at h
    have hz : (ratA b).isZero maxi = false := by
      show decide (maxi = ((0 : Int) : Rat)) = false
      have : maxi ≠ 0 := by grind
      simpa using this
    have hunit : (ratA b).div maxi ((ratA b).ofNat k) = maxi / (k : Rat) := rfl
    have hsub : ∀ x y : Rat, (ratA b).sub x y = x - y := fun _ _ => rfl
    have hadd : ∀ x y : Rat, (ratA b).add x y = x + y := fun _ _ => rfl
    have hmul : ∀ x y : Rat, (ratA b).mul x y = x * y := fun _ _ => rfl
    have hofL : (ratA b).ofInt (L : Int) = (L : Rat) := rfl
    simp only [hz, Bool.false_eq_true, if_false, hunit, hsub, hadd, hmul, hofL] at h
    -- the interval of cell `i`
    have hbase : base + (off k tr i : Rat) * (maxi / (k : Rat)) = base + (L : Rat) * (maxi / (k : Rat)) := by rw [hoff]
    have he_lo : base + (L : Rat) * (maxi / (k : Rat)) ≤ e.cost := by grind
    have he_hi : e.cost < base + (L : Rat) * (maxi / (k : Rat)) + maxi / (k : Rat) := by grind
    split at h
    · simp at h
    · -- empty
      simp only [Option.some.injEq, Prod.mk.injEq] at h
      rw [← h.1]
      exact placedList_set hp i _ (by rw [hbase]; exact .leaf _ _ _ he_lo he_hi)
    · -- leaf
      rename_i val hget
      have hval := hp.2 i _ hget
      rw [hbase] at hval
      cases hval with
      | leaf _ _ _ hv1 hv2 =>
        split at h
        · split at h
          · simp at h
          · rename_i sub1 b1 h1'
            split at h
            · simp at h
            · rename_i sub2 b2 h2'
              simp only [Option.some.injEq, Prod.mk.injEq] at h
              rw [← h.1]
              have p1 := ih val _ (maxi / (k : Rat)) (base + (L : Rat) * (maxi / (k : Rat))) _ 0 sub1 b1 h1' hw
                (by grind) (by grind) (by grind) hk (placedList_replicate k _ _ 0)
              have p2 := ih e _ (maxi / (k : Rat)) (base + (L : Rat) * (maxi / (k : Rat))) _ 0 sub2 b2 h2' hw
                (by grind) (by grind) (by grind) hk p1
              exact placedList_set hp i _ (by rw [hbase]; exact placedList_node 2 p2)
        · simp only [Option.some.injEq, Prod.mk.injEq] at h
          rw [← h.1]
          exact placedList_set hp i _ (by rw [hbase]; exact .leaf _ _ _ hv1 hv2)
    · -- nested
      rename_i n sub hget
      have hnode := hp.2 i _ hget
      rw [hbase] at hnode
      split at h
      · simp at h
      · rename_i sub' added' h1'
        simp only [Option.some.injEq, Prod.mk.injEq] at h
        rw [← h.1]
        have p1 := ih e _ (maxi / (k : Rat)) (base + (L : Rat) * (maxi / (k : Rat))) _ 0 sub' added' h1' hw
          (by grind) (by grind) (by grind) hk (placed_node_inv hnode)
        exact placedList_set hp i _ (by rw [hbase]; exact placedList_node _ p1)

/-! ### what a placed cell holds -/

/-- the cells of a list starting at cost `b`, one interval of width `w` each (no rotation) -/
def Run (k : Nat) (b w : Rat) (l : List (Cell Rat)) : Prop :=
  ∀ (j : Nat) c, l[j]? = some c → Placed k (b + (j : Rat) * w) w c

theorem run_tail {k : Nat} {b w : Rat} {c : Cell Rat} {rest : List (Cell Rat)} (h : Run k b w (c :: rest)) :
    Placed k b w c ∧ Run k (b + w) w rest := by
  constructor
  · have := h 0 c (by simp)
    have e : b + ((0 : Nat) : Rat) * w = b := by grind
    rwa [e] at this
  · intro j c' hj
    have := h (j + 1) c' (by simpa using hj)
    have e : b + ((j + 1 : Nat) : Rat) * w = b + w + (j : Rat) * w := by grind
    rwa [e] at this

theorem run_cons {k : Nat} {b w : Rat} {c : Cell Rat} {rest : List (Cell Rat)} (hc : Placed k b w c)
    (hr : Run k (b + w) w rest) : Run k b w (c :: rest) := by
  intro j c' hj
  cases j with
  | zero =>
    simp only [List.getElem?_cons_zero, Option.some.injEq] at hj
    subst hj
    have e : b + ((0 : Nat) : Rat) * w = b := by grind
    rwa [e]
  | succ j =>
    have := hr j c' (by simpa using hj)
    have e : b + ((j + 1 : Nat) : Rat) * w = b + w + (j : Rat) * w := by grind
    rwa [e]

theorem placed_node_run {k : Nat} {b w : Rat} {n : Nat} {sub : List (Cell Rat)} (h : Placed k b w (.node n sub)) :
    sub.length = k ∧ Run k b (w / (k : Rat)) sub := by
  cases h with
  | node _ _ _ _ hl hs => exact ⟨hl, hs⟩

mutual
  /-- every CostTuple below a placed cell lies in the interval of the cell -/
  theorem placed_bounds (k : Nat) (hk : 0 < k) : ∀ (c : Cell Rat) (b w : Rat), 0 < w → Placed k b w c →
      ∀ t ∈ c.tuples, b ≤ t.cost ∧ t.cost < b + w
    | .empty, _, _, _, _, t, ht => by simp [tuples_empty] at ht
    | .leaf ct, b, w, _, h, t, ht => by
      simp only [tuples_leaf, List.mem_singleton] at ht
      subst ht
      cases h with
      | leaf _ _ _ h1 h2 => exact ⟨h1, h2⟩
    | .node n sub, b, w, hw, h, t, ht => by
      obtain ⟨hl, hr⟩ := placed_node_run h
      have hkr := natCast_pos hk
      have hw' : 0 < w / (k : Rat) := by
        rw [Rat.div_def]; exact Rat.mul_pos hw (Rat.inv_pos.mpr hkr)
      rw [tuples_node] at ht
      have := run_bounds k hk sub b (w / (k : Rat)) hw' hr t ht
      rw [hl] at this
      have e : b + (k : Rat) * (w / (k : Rat)) = b + w := by grind
      rw [e] at this
      exact this
  theorem run_bounds (k : Nat) (hk : 0 < k) : ∀ (l : List (Cell Rat)) (b w : Rat), 0 < w → Run k b w l →
      ∀ t ∈ tuplesList l, b ≤ t.cost ∧ t.cost < b + (l.length : Rat) * w
    | [], _, _, _, _, t, ht => by simp [tuplesList_nil] at ht
    | c :: rest, b, w, hw, h, t, ht => by
      obtain ⟨hc, hr⟩ := run_tail h
      rw [tuplesList_cons] at ht
      have e : b + ((c :: rest).length : Rat) * w = b + w + (rest.length : Rat) * w := by
        simp only [List.length_cons]; grind
      have hlen : (0 : Rat) ≤ (rest.length : Rat) := by exact_mod_cast Nat.zero_le _
      have hlw : 0 ≤ (rest.length : Rat) * w := Rat.mul_nonneg hlen (Rat.le_of_lt hw)
      rcases List.mem_append.mp ht with h1 | h1
      · have := placed_bounds k hk c b w hw hc t h1
        rw [e]; constructor
        · exact this.1
        · grind
      · have := run_bounds k hk rest (b + w) w hw hr t h1
        rw [e]; constructor
        · grind
        · exact this.2
end

mutual
  /-- **`__pop__` on a placed cell**: the popped CostTuple is strictly cheaper than everything that stays,
      and the cell stays placed -/
  theorem popCell_placed (k : Nat) (hk : 0 < k) : ∀ (c : Cell Rat) (b w : Rat) (p : CT Rat) (c' : Cell Rat), 0 < w →
      WFCell c → Placed k b w c → popCell c = some (p, c') →
      Placed k b w c' ∧ ∀ t ∈ c'.tuples, p.cost < t.cost
    | .empty, _, _, _, _, _, _, _, h => by simp [popCell] at h
    | .leaf ct, b, w, p, c', _, _, _, h => by
      simp only [popCell, Option.some.injEq, Prod.mk.injEq] at h
      rw [← h.2]
      exact ⟨.empty _ _, by simp [tuples_empty]⟩
    | .node n sub, b, w, p, c', hw, hwf, hp, h => by
      obtain ⟨hl, hr⟩ := placed_node_run hp
      have hkr := natCast_pos hk
      have hw' : 0 < w / (k : Rat) := by
        rw [Rat.div_def]; exact Rat.mul_pos hw (Rat.inv_pos.mpr hkr)
      cases hwf with
      | node _ _ hs hn h2 =>
        have hn1 : ¬ n ≤ 1 := by omega
        simp only [popCell, hn1, if_false] at h
        split at h
        · simp at h
        · rename_i p1 sub' hpop
          obtain ⟨hr', hlt, hl'⟩ := popList_placed k hk sub b (w / (k : Rat)) p1 sub' hw' hs hr hpop
          obtain ⟨w1, t1, _⟩ := popList_spec sub p1 sub' hs hpop
          split at h
          · split at h
            · simp at h
            · rename_i r hfirst
              simp only [Option.some.injEq, Prod.mk.injEq] at h
              rw [← h.1, ← h.2]
              rw [firstList_spec sub' w1] at hfirst
              have hmem : r ∈ tuplesList sub' := List.mem_of_mem_head? hfirst
              have hb := placed_bounds k hk (.node n sub') b w hw (.node _ _ _ _ (by rw [hl', hl]) hr') r
                (by rw [tuples_node]; exact hmem)
              refine ⟨.leaf _ _ _ hb.1 hb.2, ?_⟩
              intro t ht
              simp only [tuples_leaf, List.mem_singleton] at ht
              subst ht
              exact hlt _ hmem
          · simp only [Option.some.injEq, Prod.mk.injEq] at h
            rw [← h.1, ← h.2]
            refine ⟨.node _ _ _ _ (by rw [hl', hl]) hr', ?_⟩
            intro t ht
            rw [tuples_node] at ht
            exact hlt t ht
  theorem popList_placed (k : Nat) (hk : 0 < k) : ∀ (l : List (Cell Rat)) (b w : Rat) (p : CT Rat) (l' : List (Cell Rat)), 0 < w →
      (∀ c ∈ l, WFCell c) → Run k b w l → popList l = some (p, l') →
      Run k b w l' ∧ (∀ t ∈ tuplesList l', p.cost < t.cost) ∧ l'.length = l.length
    | [], _, _, _, _, _, _, _, h => by simp [popList] at h
    | .empty :: rest, b, w, p, l', hw, hwf, hr, h => by
      simp only [popList] at h
      split at h
      · simp at h
      · rename_i p1 rest' hpop
        simp only [Option.some.injEq, Prod.mk.injEq] at h
        rw [← h.1, ← h.2]
        obtain ⟨hc, hrt⟩ := run_tail hr
        obtain ⟨h1, h2, h3⟩ := popList_placed k hk rest (b + w) w p1 rest' hw
          (fun c hc => hwf c (List.mem_cons_of_mem _ hc)) hrt hpop
        exact ⟨run_cons (.empty _ _) h1, by simpa [tuplesList_cons, tuples_empty] using h2, by simp [h3]⟩
    | .leaf ct :: rest, b, w, p, l', hw, hwf, hr, h => by
      simp only [popList, Option.some.injEq, Prod.mk.injEq] at h
      rw [← h.1, ← h.2]
      obtain ⟨hc, hrt⟩ := run_tail hr
      refine ⟨run_cons (.empty _ _) hrt, ?_, by simp⟩
      intro t ht
      simp only [tuplesList_cons, tuples_empty, List.nil_append] at ht
      have h1 := (run_bounds k hk rest (b + w) w hw hrt t ht).1
      have h2 := (placed_bounds k hk (.leaf ct) b w hw hc ct (by simp [tuples_leaf])).2
      grind
    | .node n sub :: rest, b, w, p, l', hw, hwf, hr, h => by
      simp only [popList] at h
      split at h
      · simp at h
      · rename_i p1 c1 hpop
        simp only [Option.some.injEq, Prod.mk.injEq] at h
        rw [← h.1, ← h.2]
        obtain ⟨hc, hrt⟩ := run_tail hr
        have hwc := hwf _ List.mem_cons_self
        obtain ⟨h1, h2⟩ := popCell_placed k hk (.node n sub) b w p1 c1 hw hwc hc hpop
        obtain ⟨_, t1⟩ := popCell_spec (.node n sub) p1 c1 hwc hpop
        refine ⟨run_cons h1 hrt, ?_, by simp⟩
        intro t ht
        rw [tuplesList_cons] at ht
        rcases List.mem_append.mp ht with h3 | h3
        · exact h2 t h3
        · have h4 := (run_bounds k hk rest (b + w) w hw hrt t h3).1
          have h5 := (placed_bounds k hk (.node n sub) b w hw hc p1 (by rw [t1]; exact List.mem_cons_self)).2
          grind
end

/-! ### the queue object with exact rationals -/

theorem mem_tuplesList {α : Type} {l : List (Cell α)} {t : CT α} :
    t ∈ tuplesList l ↔ ∃ (j : Nat) (c : Cell α), l[j]? = some c ∧ t ∈ c.tuples := by
  induction l with
  | nil => simp [tuplesList_nil]
  | cons x xs ih =>
    rw [tuplesList_cons, List.mem_append, ih]
    constructor
    · rintro (h | ⟨j, c, h1, h2⟩)
      · exact ⟨0, x, by simp, h⟩
      · exact ⟨j + 1, c, by simpa using h1, h2⟩
    · rintro ⟨j, c, h1, h2⟩
      cases j with
      | zero =>
        simp only [List.getElem?_cons_zero, Option.some.injEq] at h1
        subst h1; exact Or.inl h2
      | succ j => exact Or.inr ⟨j, c, by simpa using h1, h2⟩

theorem wf_no_tuples {α : Type} {c : Cell α} (hw : WFCell c) (h : c.tuples = []) : c = .empty := by
  cases hw with
  | empty => rfl
  | leaf ct => simp [tuples_leaf] at h
  | node n sub _ hn h2 => rw [tuples_node] at h; rw [h] at hn; simp at hn; omega

theorem wf_count_zero {α : Type} {c : Cell α} (hw : WFCell c) (h : c.count = 0) : c = .empty := by
  cases hw with
  | empty => rfl
  | leaf ct => simp [Cell.count] at h
  | node n sub _ hn h2 => simp [Cell.count] at h; omega

theorem placedList_of_empty {k : Nat} {base w : Rat} {tr : Nat} {cells : List (Cell Rat)} (hl : cells.length = k)
    (h : ∀ c ∈ cells, c = Cell.empty) : PlacedList k base w tr cells := by
  refine ⟨hl, ?_⟩
  intro i c hi
  rw [h c (List.mem_of_getElem? hi)]
  exact .empty _ _

/-- the invariant of a `CDQueue` computing with exact rationals: counters in sync, every CostTuple in the
    cell (and nested sub-cell) its cost maps to relative to `mini` and `translation`,
    `mini = start + maxi * n / k` -/
structure QOrd (q : Q Rat) : Prop where
  wf : QWF q
  maxi_pos : 0 < q.maxi
  tr : q.translation < q.k
  none_empty : q.mini = none → ∀ c ∈ q.cells, c = Cell.empty
  placed : ∀ mini, q.mini = some mini → PlacedList q.k mini (q.maxi / (q.k : Rat)) q.translation q.cells
  rel : ∀ mini, q.mini = some mini → ∃ st, q.start = some st ∧ mini = st + q.maxi * (q.n : Rat) / (q.k : Rat)

theorem qord_new (b : Bool) (maxi0 : Int) (k0 : Nat) (q : Q Rat) (hm : 0 < maxi0) (h : Q.new (ratA b) maxi0 k0 = some q) :
    QOrd q := by
  have hq := (qwf_new (ratA b) maxi0 k0 q h).1
  unfold Q.new at h
  split at h
  · simp at h
  · rename_i hk0
    simp only [Option.some.injEq] at h
    subst h
    refine ⟨hq, ?_, by simp, ?_, by simp, by simp⟩
    · show (0 : Rat) < ((maxi0 * ((k0 : Int) + 1) : Int) : Rat) / (((k0 : Nat) : Int) : Rat)
      have h1 : (0 : Rat) < ((maxi0 * ((k0 : Int) + 1) : Int) : Rat) := by
        have : 0 < maxi0 * ((k0 : Int) + 1) := Int.mul_pos hm (by omega)
        exact_mod_cast this
      have h2 : (0 : Rat) < (((k0 : Nat) : Int) : Rat) := by
        have : 0 < k0 := by omega
        exact_mod_cast this
      rw [Rat.div_def]; exact Rat.mul_pos h1 (Rat.inv_pos.mpr h2)
    · intro _ c hc
      exact (List.mem_replicate.mp hc).2

theorem qord_clear (q : Q Rat) (h : QOrd q) : QOrd q.clear := by
  refine ⟨(qwf_clear q h.wf).1, h.maxi_pos, h.wf.kpos, ?_, by simp [Q.clear], by simp [Q.clear]⟩
  intro _ c hc
  exact (List.mem_replicate.mp hc).2

/-- **push keeps the placement** when the pushed cost lies in the window `[mini, mini + maxi)` -/
theorem qord_push (b asserts : Bool) (q q' : Q Rat) (e : CT Rat) (hq : QOrd q)
    (hwin : ∀ mini, q.mini = some mini → mini ≤ e.cost ∧ e.cost < mini + q.maxi)
    (h : q.push (ratA b) e asserts = some q') : QOrd q' := by
  have hwf' := (qwf_push (ratA b) q q' e asserts hq.wf h).1
  unfold Q.push at h
  simp only at h
  -- the anchored queue
  have ha : ∃ m, (q.anchor e.cost).mini = some m ∧ m ≤ e.cost ∧ e.cost < m + q.maxi ∧
      PlacedList q.k m (q.maxi / (q.k : Rat)) q.translation q.cells ∧
      (∃ st, (q.anchor e.cost).start = some st ∧ m = st + q.maxi * ((q.anchor e.cost).n : Rat) / (q.k : Rat)) := by
    have hcase : (∃ m, q.mini = some m) ∨ q.mini = none := by cases q.mini <;> simp
    rcases hcase with ⟨m, hm⟩ | hm
    · have e1 : q.anchor e.cost = q := by unfold Q.anchor; rw [hm]
      rw [e1]
      exact ⟨m, hm, (hwin m hm).1, (hwin m hm).2, hq.placed m hm, hq.rel m hm⟩
    · have e1 : q.anchor e.cost = { q with mini := some e.cost, start := some e.cost, n := 0 } := by
        unfold Q.anchor; rw [hm]
      rw [e1]
      refine ⟨e.cost, rfl, Rat.le_refl, ?_, placedList_of_empty hq.wf.len (hq.none_empty hm), e.cost, rfl, ?_⟩
      · have := hq.maxi_pos; grind
      · show e.cost = e.cost + q.maxi * ((0 : Nat) : Rat) / (q.k : Rat)
        grind
  have hf : (q.anchor e.cost).cells = q.cells ∧ (q.anchor e.cost).k = q.k ∧ (q.anchor e.cost).maxi = q.maxi ∧
      (q.anchor e.cost).translation = q.translation := by
    unfold Q.anchor; split <;> simp
  generalize q.anchor e.cost = q1 at h ha hf
  obtain ⟨m, hm1, hlo, hhi, hpl, hrel⟩ := ha
  obtain ⟨hcells, hk, hmx, htr⟩ := hf
  rw [hm1] at h
  simp only at h
  split at h
  · simp at h
  · split at h
    · simp at h
    · rename_i cells added hp
      simp only [Option.some.injEq] at h
      subst h
      rw [hcells, hk, hmx, htr] at hp
      have hsub : (ratA b).sub e.cost m = e.cost - m := rfl
      rw [hsub] at hp
      have hpl' := pushCells_placed b q.k hq.wf.kpos _ e _ q.maxi m q.cells q.translation cells added hp
        hq.maxi_pos rfl (by grind) (by grind) hq.tr hpl
      refine ⟨hwf', by simpa [hmx] using hq.maxi_pos, by simpa [hk, htr] using hq.tr, ?_, ?_, ?_⟩
      · intro hnone; simp [hm1] at hnone
      · intro mini hmini
        simp only [hm1, Option.some.injEq] at hmini
        subst hmini
        simpa [hk, hmx, htr] using hpl'
      · intro mini hmini
        simp only [hm1, Option.some.injEq] at hmini
        subst hmini
        simpa [hk, hmx] using hrel

theorem off_self (k tr : Nat) (htr : tr < k) : off k tr tr = 0 := by
  unfold off
  have : tr + k - tr = k := by omega
  rw [this, Nat.mod_self]

/-- **ORDER CONTRACT**: `pop` returns the stored CostTuple of STRICTLY smallest cost, inside the first
    bucket `[mini, mini + maxi / k)`, and keeps the invariant -/
theorem qord_pop (q q' : Q Rat) (p : CT Rat) (hq : QOrd q) (h : q.pop = some (p, q')) :
    QOrd q' ∧ (∀ t ∈ q'.tuples, p.cost < t.cost) ∧
    ∃ mini, q.mini = some mini ∧ mini ≤ p.cost ∧ p.cost < mini + q.maxi / (q.k : Rat) := by
  have hwf' := (qwf_pop q q' p hq.wf h).1
  unfold Q.pop at h
  split at h
  · simp at h
  · rename_i c hget
    split at h
    · simp at h
    · rename_i p1 c' hp
      split at h
      · simp at h
      · simp only [Option.some.injEq, Prod.mk.injEq] at h
        obtain ⟨h1, h2⟩ := h
        subst h1; subst h2
        have hkr := natCast_pos hq.wf.kpos
        have hw : 0 < q.maxi / (q.k : Rat) := by
          rw [Rat.div_def]; exact Rat.mul_pos hq.maxi_pos (Rat.inv_pos.mpr hkr)
        have hcw := hq.wf.cells c (List.mem_of_getElem? hget)
        have hcase : (∃ m, q.mini = some m) ∨ q.mini = none := by cases q.mini <;> simp
        rcases hcase with ⟨m, hm⟩ | hm
        rotate_left
        · have := hq.none_empty hm c (List.mem_of_getElem? hget)
          subst this
          simp [popCell] at hp
        · have hpl := hq.placed m hm
          have hc := hpl.2 _ _ hget
          have e0 : m + (off q.k q.translation q.translation : Rat) * (q.maxi / (q.k : Rat)) = m := by
            rw [off_self _ _ hq.tr]; grind
          rw [e0] at hc
          obtain ⟨hc', hlt⟩ := popCell_placed q.k hq.wf.kpos c m _ p1 c' hw hcw hc hp
          obtain ⟨_, t1⟩ := popCell_spec c p1 c' hcw hp
          have hpb := placed_bounds q.k hq.wf.kpos c m _ hw hc p1 (by rw [t1]; exact List.mem_cons_self)
          refine ⟨⟨hwf', hq.maxi_pos, hq.tr, ?_, ?_, ?_⟩, ?_, m, hm, hpb.1, hpb.2⟩
          · intro hnone; exact absurd (show q.mini = none from hnone) (by simp [hm])
          · intro mini hmini
            have hmini' : q.mini = some mini := hmini
            rw [hm, Option.some.injEq] at hmini'
            subst hmini'
            exact placedList_set hpl _ _ (by rw [e0]; exact hc')
          · intro mini hmini
            exact hq.rel mini hmini
          · intro t ht
            simp only [Q.tuples] at ht
            obtain ⟨j, d, hj, htd⟩ := mem_tuplesList.mp ht
            rw [List.getElem?_set] at hj
            split at hj
            · rename_i hij
              split at hj
              · simp only [Option.some.injEq] at hj
                subst hj; exact hlt t htd
              · simp at hj
            · rename_i hij
              have hjk : j < q.k := by
                have := (List.getElem?_eq_some_iff.mp hj).1
                rw [hq.wf.len] at this; exact this
              have hd := hpl.2 _ _ hj
              have hoff : 1 ≤ off q.k q.translation j := by
                rcases Nat.eq_zero_or_pos (off q.k q.translation j) with h0 | h0
                · exfalso
                  apply hij
                  exact (off_inj q.k q.translation j q.translation hjk hq.tr hq.tr (by rw [h0, off_self _ _ hq.tr])).symm
                · exact h0
              have hb := (placed_bounds q.k hq.wf.kpos d _ _ hw hd t htd).1
              have h1r : (1 : Rat) ≤ (off q.k q.translation j : Rat) := by exact_mod_cast hoff
              have : (1 : Rat) * (q.maxi / (q.k : Rat)) ≤ (off q.k q.translation j : Rat) * (q.maxi / (q.k : Rat)) :=
                Rat.mul_le_mul_of_nonneg_right h1r (Rat.le_of_lt hw)
              grind

/-! ### `update` -/

theorem off_unique (k tr i o : Nat) (htr : tr < k) (ho : o < k) (h : (tr + o) % k = i) : off k tr i = o := by
  unfold off
  by_cases h1 : tr + o < k
  · have hi : i = tr + o := by rw [← h, Nat.mod_eq_of_lt h1]
    have : i + k - tr = o + k := by omega
    rw [this, Nat.add_mod_right, Nat.mod_eq_of_lt ho]
  · have hi : i = tr + o - k := by
      rw [← h, Nat.mod_eq_sub_mod (by omega), Nat.mod_eq_of_lt (by omega)]
    have : i + k - tr = o := by omega
    rw [this, Nat.mod_eq_of_lt ho]

theorem off_lt (k tr i : Nat) (hk : 0 < k) : off k tr i < k := Nat.mod_lt _ hk

theorem off_inv (k tr i : Nat) (hi : i < k) (htr : tr < k) : (tr + off k tr i) % k = i := by
  by_cases h1 : tr ≤ i
  · have ho : off k tr i = i - tr := by
      unfold off
      have : i + k - tr = (i - tr) + k := by omega
      rw [this, Nat.add_mod_right, Nat.mod_eq_of_lt (by omega)]
    rw [ho]
    have : tr + (i - tr) = i := by omega
    rw [this, Nat.mod_eq_of_lt hi]
  · have ho : off k tr i = i + k - tr := by
      unfold off
      rw [Nat.mod_eq_of_lt (by omega)]
    rw [ho]
    have : tr + (i + k - tr) = i + k := by omega
    rw [this, Nat.add_mod_right, Nat.mod_eq_of_lt hi]

theorem off_shift (k tr i d : Nat) (hi : i < k) (htr : tr < k) (hd : d ≤ off k tr i) (hk : 0 < k) :
    off k ((tr + d) % k) i = off k tr i - d := by
  apply off_unique k _ i _ (Nat.mod_lt _ hk) (by have := off_lt k tr i hk; omega)
  rw [Nat.mod_add_mod]
  have : tr + d + (off k tr i - d) = tr + off k tr i := by omega
  rw [this]
  exact off_inv k tr i hi htr

/-- the `while` loop of `update` skips `d` cells whose counter is 0 and stops at a cell whose counter is not -/
theorem advance_spec' {α : Type} (cells : List (Cell α)) (k : Nat) : ∀ (f tr n tr' n' : Nat), tr < k →
    advance cells k f tr n = some (tr', n') →
    ∃ d, n' = n + d ∧ tr' = (tr + d) % k ∧
      (∀ d', d' < d → ∃ c, cells[(tr + d') % k]? = some c ∧ c.count = 0) ∧
      ∃ c, cells[tr']? = some c ∧ c.count ≠ 0 := by
  intro f
  induction f with
  | zero => intro tr n tr' n' _ h; simp [advance] at h
  | succ f ih =>
    intro tr n tr' n' htr h
    have hk : 0 < k := by omega
    simp only [advance] at h
    split at h
    · simp at h
    · rename_i c hc
      split at h
      · rename_i hz
        obtain ⟨d, h1, h2, h3, h4⟩ := ih _ _ _ _ (Nat.mod_lt _ hk) h
        refine ⟨d + 1, by omega, ?_, ?_, h4⟩
        · rw [h2, Nat.mod_add_mod]; congr 1; omega
        · intro d' hd'
          cases d' with
          | zero => exact ⟨c, by simpa [Nat.mod_eq_of_lt htr] using hc, hz⟩
          | succ d'' =>
            obtain ⟨c2, hc2, hz2⟩ := h3 d'' (by omega)
            refine ⟨c2, ?_, hz2⟩
            rw [Nat.mod_add_mod] at hc2
            have : tr + 1 + d'' = tr + (d'' + 1) := by omega
            rwa [this] at hc2
      · rename_i hz
        simp only [Option.some.injEq, Prod.mk.injEq] at h
        obtain ⟨h1, h2⟩ := h
        subst h1; subst h2
        exact ⟨0, rfl, by simp [Nat.mod_eq_of_lt htr], by intro d' hd'; omega, c, hc, hz⟩

theorem advance_lt {α : Type} (cells : List (Cell α)) (k d tr : Nat) (hk : 0 < k)
    (h3 : ∀ d', d' < d → ∃ c, cells[(tr + d') % k]? = some c ∧ c.count = 0)
    (h4 : ∃ c, cells[(tr + d) % k]? = some c ∧ c.count ≠ 0) : d < k := by
  rcases Nat.lt_or_ge d k with h | h
  · exact h
  · exfalso
    obtain ⟨c, hc, hz⟩ := h3 (d - k) (by omega)
    obtain ⟨c', hc', hz'⟩ := h4
    have : (tr + (d - k)) % k = (tr + d) % k := by
      have : tr + d = tr + (d - k) + k := by omega
      rw [this, Nat.add_mod_right]
    rw [this, hc'] at hc
    simp only [Option.some.injEq] at hc
    subst hc; exact hz' hz

theorem tuples_len_le {α : Type} {cells : List (Cell α)} {j : Nat} {d : Cell α} (h : cells[j]? = some d) :
    d.tuples.length ≤ (tuplesList cells).length := by
  obtain ⟨A, B, hx, _⟩ := tuplesList_split h d
  rw [hx]; simp; omega

theorem tuples_two {α : Type} : ∀ (cells : List (Cell α)) (i j : Nat) (c d : Cell α), i ≠ j → cells[i]? = some c →
    cells[j]? = some d → c.tuples.length + d.tuples.length ≤ (tuplesList cells).length
  | [], i, _, _, _, _, h, _ => by simp at h
  | x :: xs, 0, 0, _, _, hne, _, _ => absurd rfl hne
  | x :: xs, 0, j + 1, c, d, _, hc, hd => by
    simp only [List.getElem?_cons_zero, Option.some.injEq] at hc
    subst hc
    have := tuples_len_le (cells := xs) (by simpa using hd)
    rw [tuplesList_cons]; simp; omega
  | x :: xs, i + 1, 0, c, d, _, hc, hd => by
    simp only [List.getElem?_cons_zero, Option.some.injEq] at hd
    subst hd
    have := tuples_len_le (cells := xs) (by simpa using hc)
    rw [tuplesList_cons]; simp; omega
  | x :: xs, i + 1, j + 1, c, d, hne, hc, hd => by
    have := tuples_two xs i j c d (by omega) (by simpa using hc) (by simpa using hd)
    rw [tuplesList_cons]; simp; omega

/-- **`update` keeps the invariant and the content**, and leaves `translation` on a non-empty cell -/
theorem qord_update (b : Bool) (q q' : Q Rat) (hq : QOrd q) (h : q.update (ratA b) = some q') :
    QOrd q' ∧ q'.cells = q.cells ∧ q'.nelements = q.nelements ∧
    (q.nelements ≠ 0 → ∃ c, q'.cells[q'.translation]? = some c ∧ c.tuples ≠ []) := by
  have hk := hq.wf.kpos
  have hkr := natCast_pos hk
  have hw : 0 < q.maxi / (q.k : Rat) := by
    rw [Rat.div_def]; exact Rat.mul_pos hq.maxi_pos (Rat.inv_pos.mpr hkr)
  unfold Q.update at h
  split at h
  · rename_i h0
    simp only [Option.some.injEq] at h
    subst h
    exact ⟨hq, rfl, rfl, fun hne => absurd h0 hne⟩
  · rename_i hne
    split at h
    · simp at h
    · rename_i tr' n' hadv
      obtain ⟨d, hn', htr', hempty, c0, hc0, hcount⟩ := advance_spec' q.cells q.k _ _ _ _ _ hq.tr hadv
      have hdk : d < q.k := advance_lt q.cells q.k d q.translation hk hempty ⟨c0, by rw [← htr']; exact hc0, hcount⟩
      have htrk : tr' < q.k := by rw [htr']; exact Nat.mod_lt _ hk
      have hne0 : c0.tuples ≠ [] := by
        intro h0
        have := wf_no_tuples (hq.wf.cells c0 (List.mem_of_getElem? hc0)) h0
        subst this; simp [Cell.count] at hcount
      split at h
      · -- a single element: re-anchor the grid at its cost
        rename_i h1
        split at h
        · rename_i ct hleaf
          simp only [Option.some.injEq] at h
          subst h
          have hlen : (tuplesList q.cells).length = 1 := by
            have := hq.wf.count; simp only [Q.tuples] at this; omega
          refine ⟨⟨⟨hq.wf.cells, hq.wf.count, hq.wf.len, hk⟩, hq.maxi_pos, htrk, by simp, ?_, ?_⟩, rfl, rfl,
            fun _ => ⟨_, hleaf, by simp [tuples_leaf]⟩⟩
          · intro mini hmini
            simp only [Option.some.injEq] at hmini
            subst hmini
            refine ⟨hq.wf.len, ?_⟩
            intro i c hi
            by_cases hit : i = tr'
            · subst hit
              rw [hleaf] at hi
              simp only [Option.some.injEq] at hi
              subst hi
              rw [off_self _ _ htrk]
              exact .leaf _ _ _ (by grind) (by grind)
            · have := tuples_two q.cells i tr' c (.leaf ct) hit hi hleaf
              rw [hlen, tuples_leaf] at this
              have h0 : c.tuples = [] := by
                cases hct : c.tuples with
                | nil => rfl
                | cons x xs => rw [hct] at this; simp at this
              rw [wf_no_tuples (hq.wf.cells c (List.mem_of_getElem? hi)) h0]
              exact .empty _ _
          · intro mini hmini
            simp only [Option.some.injEq] at hmini
            subst hmini
            refine ⟨ct.cost, rfl, ?_⟩
            show ct.cost = ct.cost + q.maxi * ((0 : Nat) : Rat) / (q.k : Rat)
            grind
        · simp at h
      · -- several elements: slide the window by `d` buckets
        split at h
        · simp at h
        · rename_i st hst
          simp only [Option.some.injEq] at h
          subst h
          have hcase : (∃ m, q.mini = some m) ∨ q.mini = none := by cases q.mini <;> simp
          rcases hcase with ⟨m, hm⟩ | hm
          rotate_left
          · exfalso
            have := hq.none_empty hm c0 (List.mem_of_getElem? hc0)
            subst this; simp [Cell.count] at hcount
          · obtain ⟨st', hst', hrel⟩ := hq.rel m hm
            rw [hst] at hst'
            simp only [Option.some.injEq] at hst'
            subst hst'
            have hpl := hq.placed m hm
            have hnew : (ratA b).add st ((ratA b).div ((ratA b).mul q.maxi ((ratA b).ofNat n')) ((ratA b).ofNat q.k)) =
                m + (d : Rat) * (q.maxi / (q.k : Rat)) := by
              show st + q.maxi * (((n' : Nat) : Int) : Rat) / (((q.k : Nat) : Int) : Rat) = _
              have e1 : (((n' : Nat) : Int) : Rat) = (q.n : Rat) + (d : Rat) := by
                rw [hn']; show ((q.n + d : Nat) : Rat) = _; grind
              have e2 : (((q.k : Nat) : Int) : Rat) = (q.k : Rat) := rfl
              rw [e1, e2, hrel]
              have : (q.k : Rat) ≠ 0 := by grind
              grind
            refine ⟨⟨⟨hq.wf.cells, hq.wf.count, hq.wf.len, hk⟩, hq.maxi_pos, htrk, by simp, ?_, ?_⟩, rfl, rfl,
              fun _ => ⟨c0, hc0, hne0⟩⟩
            · intro mini hmini
              simp only [Option.some.injEq] at hmini
              subst hmini
              rw [hnew]
              refine ⟨hq.wf.len, ?_⟩
              intro i c hi
              have hik : i < q.k := by
                have := (List.getElem?_eq_some_iff.mp hi).1
                rw [hq.wf.len] at this; exact this
              have hold := hpl.2 i c hi
              by_cases ho : off q.k q.translation i < d
              · obtain ⟨c2, hc2, hz2⟩ := hempty _ ho
                rw [off_inv _ _ _ hik hq.tr, hi] at hc2
                simp only [Option.some.injEq] at hc2
                subst hc2
                rw [wf_count_zero (hq.wf.cells c (List.mem_of_getElem? hi)) hz2]
                exact .empty _ _
              · have hsh := off_shift q.k q.translation i d hik hq.tr (by omega) hk
                rw [htr', hsh]
                have e : m + (d : Rat) * (q.maxi / (q.k : Rat)) + ((off q.k q.translation i - d : Nat) : Rat) * (q.maxi / (q.k : Rat))
                    = m + (off q.k q.translation i : Rat) * (q.maxi / (q.k : Rat)) := by
                  have : ((off q.k q.translation i - d : Nat) : Rat) = (off q.k q.translation i : Rat) - (d : Rat) := by
                    have h1 : off q.k q.translation i = (off q.k q.translation i - d) + d := by omega
                    have h2 : ((off q.k q.translation i : Nat) : Rat) = (((off q.k q.translation i - d) + d : Nat) : Rat) := by rw [← h1]
                    grind
                  rw [this]; grind
                rw [e]; exact hold
            · intro mini hmini
              simp only [Option.some.injEq] at hmini
              subst hmini
              exact ⟨st, hst, rfl⟩

theorem advance_total {α : Type} (cells : List (Cell α)) (k : Nat) (hl : cells.length = k) : ∀ (f tr n o : Nat), tr < k → o < f →
    (∃ c, cells[(tr + o) % k]? = some c ∧ c.count ≠ 0) → ∃ r, advance cells k f tr n = some r := by
  intro f
  induction f with
  | zero => intro tr n o _ ho; omega
  | succ f ih =>
    intro tr n o htr ho hc
    have hk : 0 < k := by omega
    simp only [advance]
    have : ∃ c, cells[tr]? = some c := ⟨cells[tr]'(by omega), List.getElem?_eq_getElem (by omega)⟩
    obtain ⟨c, hget⟩ := this
    rw [hget]
    simp only
    split
    · rename_i hz
      cases o with
      | zero =>
        obtain ⟨c', hc', hz'⟩ := hc
        simp only [Nat.add_zero, Nat.mod_eq_of_lt htr] at hc'
        rw [hget] at hc'
        simp only [Option.some.injEq] at hc'
        subst hc'; exact absurd hz hz'
      | succ o' =>
        apply ih _ _ o' (Nat.mod_lt _ hk) (by omega)
        obtain ⟨c', hc', hz'⟩ := hc
        refine ⟨c', ?_, hz'⟩
        rw [Nat.mod_add_mod]
        have : tr + 1 + o' = tr + (o' + 1) := by omega
        rwa [this]
    · exact ⟨_, rfl⟩

/-- **`update` succeeds** on every non-empty queue satisfying the invariant -/
theorem qord_update_total (b : Bool) (q : Q Rat) (hq : QOrd q) : ∃ q', q.update (ratA b) = some q' := by
  have hk := hq.wf.kpos
  unfold Q.update
  split
  · exact ⟨_, rfl⟩
  · rename_i hne
    -- some cell holds something
    have hlen : (tuplesList q.cells).length ≠ 0 := by
      have := hq.wf.count; simp only [Q.tuples] at this; omega
    have : ∃ t, t ∈ tuplesList q.cells := by
      cases hts : tuplesList q.cells with
      | nil => rw [hts] at hlen; simp at hlen
      | cons x xs => exact ⟨x, List.mem_cons_self⟩
    obtain ⟨t, ht⟩ := this
    obtain ⟨j, c, hj, htc⟩ := mem_tuplesList.mp ht
    have hjk : j < q.k := by
      have := (List.getElem?_eq_some_iff.mp hj).1
      rw [hq.wf.len] at this; exact this
    have hcnt : c.count ≠ 0 := by
      intro h0
      have := wf_count_zero (hq.wf.cells c (List.mem_of_getElem? hj)) h0
      subst this; simp [tuples_empty] at htc
    obtain ⟨⟨tr', n'⟩, hadv⟩ := advance_total q.cells q.k hq.wf.len (q.k + 1) q.translation q.n (off q.k q.translation j) hq.tr
      (by have := off_lt q.k q.translation j hk; omega) ⟨c, by rw [off_inv _ _ _ hjk hq.tr]; exact hj, hcnt⟩
    rw [hadv]
    simp only
    obtain ⟨d, _, _, _, c0, hc0, hcount⟩ := advance_spec' q.cells q.k _ _ _ _ _ hq.tr hadv
    split
    · rename_i h1
      -- the only CostTuple is a leaf
      have hwc := hq.wf.cells c0 (List.mem_of_getElem? hc0)
      have hle := tuples_len_le hc0
      have hlen1 : (tuplesList q.cells).length = 1 := by
        have := hq.wf.count; simp only [Q.tuples] at this; omega
      cases hwc with
      | empty => simp [Cell.count] at hcount
      | leaf ct => rw [hc0]; exact ⟨_, rfl⟩
      | node n sub _ hn h2 => rw [tuples_node] at hle; omega
    · have hcase : (∃ m, q.mini = some m) ∨ q.mini = none := by cases q.mini <;> simp
      rcases hcase with ⟨m, hm⟩ | hm
      · obtain ⟨st, hst, _⟩ := hq.rel m hm
        rw [hst]; exact ⟨_, rfl⟩
      · exfalso
        have := hq.none_empty hm c0 (List.mem_of_getElem? hc0)
        subst this; simp [Cell.count] at hcount

end PS.CD
