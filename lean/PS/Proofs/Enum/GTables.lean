/- Structure of the successor tables (no filter, acyclic grammar): keys are popped programs, there
   is a last popped program (tip), the sentinel entry exists as soon as the table is not empty and
   is the first pop of the initial heap, every popped program is reached from the sentinel. -/
import PS.Proofs.Enum.GPrim
namespace PS.HG
open PS PS.G PS.HS
set_option linter.unusedSectionVars false
variable {S π : Type} [DecidableEq S]

structure TInv (E : Env S Unit π) (H0 : NT S Unit → List (π × Prog)) (s : St S Unit π) : Prop where
  kv : ∀ nt x v, AList.lookup (some x) (s.succOf nt) = some v → ∃ k, AList.lookup k (s.succOf nt) = some x
  tip : ∀ nt, s.succOf nt ≠ [] →
    ∃ k v, AList.lookup k (s.succOf nt) = some v ∧ AList.lookup (some v) (s.succOf nt) = none
  none_first : ∀ nt, s.succOf nt ≠ [] → (AList.lookup none (s.succOf nt)).isSome = true
  reach : ∀ nt k v, AList.lookup k (s.succOf nt) = some v →
    ∃ l, chainFrom (s.succOf nt) none (l ++ [v]) ∧ lastOr none l = k
  first_val : ∀ nt v, AList.lookup none (s.succOf nt) = some v →
    ∃ e h', Heapq.pop (ltE E.ops) (H0 nt) = some (e, h') ∧ e.2 = v

theorem TInv.congr {E : Env S Unit π} {H0 : NT S Unit → List (π × Prog)} {s s' : St S Unit π}
    (h : TInv E H0 s) (hs : ∀ nt, s'.succOf nt = s.succOf nt) : TInv E H0 s' := by
  refine ⟨?_, ?_, ?_, ?_, ?_⟩
  · intro nt x v hk; rw [hs] at hk ⊢; exact h.kv nt x v hk
  · intro nt hne; rw [hs] at hne ⊢; exact h.tip nt hne
  · intro nt hne; rw [hs] at hne ⊢; exact h.none_first nt hne
  · intro nt k v hk; rw [hs] at hk ⊢; exact h.reach nt k v hk
  · intro nt v hk; rw [hs] at hk; exact h.first_val nt v hk

theorem lastOr_snoc (prev : Option Prog) (l : List Prog) (x : Prog) : lastOr prev (l ++ [x]) = some x := by
  unfold lastOr; simp

theorem pushStep_succOf (E : Env S Unit π) (s1 : St S Unit π) (F : Sym) (args : List Prog) (nt : NT S Unit)
    (i : Nat) (r : Option Prog) : ∀ nt', (pushStep E s1 F args nt i r).succOf nt' = s1.succOf nt' :=
  (pushStep_views E s1 F args nt i r).1

theorem tinv_push (E : Env S Unit π) (H0 : NT S Unit → List (π × Prog)) : PushStep E H0 (TInv E H0) :=
  fun s1 F args nt i r _ _ _ _ hP _ _ _ _ _ _ _ _ => hP.congr (pushStep_succOf E s1 F args nt i r)

theorem tinv_pop (E : Env S Unit π) (H0 : NT S Unit → List (π × Prog)) : PopStep E H0 (TInv E H0) := by
  intro s nt key e h' hf hP hp _ hkey hnone
  have hsucc := popTake_succOf s nt key e h'
  have hlk : ∀ k, AList.lookup k ((s.popTake nt key e h').succOf nt) =
      if k = key then some e.2 else AList.lookup k (s.succOf nt) := by
    intro k; rw [hsucc]; simp only [if_true]; rw [AList.lookup_insert]
  have hother : ∀ nt', nt' ≠ nt → (s.popTake nt key e h').succOf nt' = s.succOf nt' := by
    intro nt' hne; rw [hsucc]; simp [hne]
  have hstab : ∀ k v, AList.lookup k (s.succOf nt) = some v →
      AList.lookup k ((s.popTake nt key e h').succOf nt) = some v := by
    intro k v hk
    rw [hlk]
    split
    · rename_i heq; subst heq; rw [hnone] at hk; cases hk
    · exact hk
  obtain ⟨hm, _⟩ := mem_of_pop _ _ _ _ hp
  have he_heap : e.2 ∈ s.heapProgs nt := List.mem_map.mpr ⟨e, hm, rfl⟩
  have he_noval : ∀ k, AList.lookup k (s.succOf nt) ≠ some e.2 :=
    fun k hk => hf.ninv.succ_out nt k e.2 hk he_heap
  refine ⟨?_, ?_, ?_, ?_, ?_⟩
  · -- kv
    intro nt' x v hk
    by_cases hne : nt' = nt
    · subst hne
      rw [hlk] at hk
      split at hk
      · rename_i heq
        obtain ⟨k, hk'⟩ := hkey x heq.symm
        exact ⟨k, hstab k x hk'⟩
      · obtain ⟨k, hk'⟩ := hP.kv _ x v hk
        exact ⟨k, hstab k x hk'⟩
    · rw [hother nt' hne] at hk ⊢; exact hP.kv nt' x v hk
  · -- tip
    intro nt' hne'
    by_cases hne : nt' = nt
    · subst hne
      refine ⟨key, e.2, by rw [hlk]; simp, ?_⟩
      rw [hlk]
      split
      · rename_i heq
        obtain ⟨k, hk'⟩ := hkey e.2 heq.symm
        exact absurd hk' (he_noval k)
      · cases hl : AList.lookup (some e.2) (s.succOf nt') with
        | none => rfl
        | some v =>
          obtain ⟨k, hk'⟩ := hP.kv _ e.2 v hl
          exact absurd hk' (he_noval k)
    · rw [hother nt' hne] at hne' ⊢; exact hP.tip nt' hne'
  · -- none_first
    intro nt' hne'
    by_cases hne : nt' = nt
    · subst hne
      rw [hlk]
      split
      · rfl
      · rename_i hk
        cases key with
        | none => exact absurd rfl hk
        | some x =>
          obtain ⟨k, hk'⟩ := hkey x rfl
          apply hP.none_first
          intro hempty; rw [hempty] at hk'; simp at hk'
    · rw [hother nt' hne] at hne' ⊢; exact hP.none_first nt' hne'
  · -- reach
    intro nt' k v hk
    by_cases hne : nt' = nt
    · subst hne
      have hst : ∀ k v, AList.lookup k (s.succOf nt') = some v →
          AList.lookup k ((s.popTake nt' key e h').succOf nt') = some v := hstab
      rw [hlk] at hk
      split at hk
      · rename_i heq
        cases hk
        subst heq
        cases k with
        | none =>
          refine ⟨[], ?_, rfl⟩
          simp only [List.nil_append, chainFrom, and_true]
          rw [hlk]; simp
        | some x =>
          obtain ⟨k0, hk0⟩ := hkey x rfl
          obtain ⟨l0, hc0, _⟩ := hP.reach _ k0 x hk0
          refine ⟨l0 ++ [x], ?_, lastOr_snoc _ _ _⟩
          rw [chainFrom_snoc]
          refine ⟨chainFrom_stable hst _ _ hc0, ?_⟩
          rw [lastOr_snoc, hlk]; simp
      · obtain ⟨l, hc, hl⟩ := hP.reach _ k v hk
        exact ⟨l, chainFrom_stable hst _ _ hc, hl⟩
    · rw [hother nt' hne] at hk ⊢; exact hP.reach nt' k v hk
  · -- first_val
    intro nt' v hk
    by_cases hne : nt' = nt
    · subst hne
      rw [hlk] at hk
      split at hk
      · rename_i heq
        cases hk
        -- the enumeration starts: the table was empty, the heap is the initial one
        have hempty : s.succOf nt' = [] := by
          cases hl : s.succOf nt' with
          | nil => rfl
          | cons p r =>
            have := hP.none_first nt' (by rw [hl]; simp)
            rw [heq, hnone] at this
            cases this
        rw [hf.oinv.fresh nt' hempty] at hp
        exact ⟨e, h', hp, rfl⟩
      · exact hP.first_val _ v hk
    · rw [hother nt' hne] at hk; exact hP.first_val nt' v hk

theorem tinv_skip (E : Env S Unit π) (H0 : NT S Unit → List (π × Prog)) : SkipStep E H0 (TInv E H0) :=
  fun _ _ _ _ _ hP _ _ => hP.congr (fun _ => rfl)

/-- every call keeps the table invariants -/
theorem big_tinv {E : Env S Unit π} {rank} {Good} (L : Law E rank Good) {H0 : NT S Unit → List (π × Prog)}
    {c : Call S Unit} {s s' : St S Unit π} {r : Option Prog} (hb : Big E c s s' r)
    (hf : Full E H0 s) (h1 : SPre E c) (h2 : NPre c s) (h3 : OPre E H0 c s) (hP : TInv E H0 s) : TInv E H0 s' :=
  big_prim L (TInv E H0) (tinv_pop E H0) (tinv_skip E H0) (tinv_push E H0) hb hf h1 h2 h3 hP

end PS.HG
