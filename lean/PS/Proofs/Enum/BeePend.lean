/- Bee search: the multiset of pending combinations (queued or delayed) of a rule, and how the table
   transformers change it: `_add_combination_` adds one, `_trigger_delayed_` / `_add_cost_` permute,
   the successor loop adds exactly the successors `PS.CD.succs` of the popped combination. -/
import PS.Proofs.Enum.BeeFront
import PS.Proofs.Enum.BeeBase
namespace PS.Bee
open PS PS.G

variable {S : Type} [DecidableEq S]
set_option linter.unusedSectionVars false
set_option linter.unusedSimpArgs false

/-- combinations of rule `P` among heap elements -/
def qcmb (P : Sym) (l : List HeapElem) : List (List Nat) := (l.filter fun e => decide (e.P = P)).map (·.combo)
/-- combinations of rule `P` among delayed entries -/
def dcmb (P : Sym) (l : List Delayed) : List (List Nat) := (l.filter fun d => decide (d.2.1 = P)).map (·.1)

theorem qcmb_append (P : Sym) (a b : List HeapElem) : qcmb P (a ++ b) = qcmb P a ++ qcmb P b := by simp [qcmb]
theorem dcmb_append (P : Sym) (a b : List Delayed) : dcmb P (a ++ b) = dcmb P a ++ dcmb P b := by simp [dcmb]
theorem qcmb_perm (P : Sym) {a b : List HeapElem} (h : a.Perm b) : (qcmb P a).Perm (qcmb P b) := (h.filter _).map _

/-- the pending combinations of rule `(nt, P)` -/
def pend (s : St S) (nt : NT S Unit) (P : Sym) : List (List Nat) :=
  qcmb P (allOf nt s.queued) ++ dcmb P (allOf nt s.delayed)

/-- replacing the queue of `nt` -/
theorem pend_setQueue (s : St S) (nt : NT S Unit) (l' : List HeapElem) :
    ∃ rest, (∀ P, pend s nt P = qcmb P (s.queueOf nt) ++ (qcmb P rest ++ dcmb P (allOf nt s.delayed))) ∧
      (∀ P, pend (s.setQueue nt l') nt P = qcmb P l' ++ (qcmb P rest ++ dcmb P (allOf nt s.delayed))) ∧
      ∀ nt' P, nt' ≠ nt → pend (s.setQueue nt l') nt' P = pend s nt' P := by
  obtain ⟨rest, h1, h2⟩ := allOf_insert_self nt (fun _ => l') s.queued
  refine ⟨rest, ?_, ?_, ?_⟩
  · intro P; unfold pend St.queueOf; rw [h1, qcmb_append, List.append_assoc]
  · intro P; unfold pend St.setQueue; simp only; rw [h2, qcmb_append, List.append_assoc]
  · intro nt' P hne; unfold pend St.setQueue; simp only; rw [allOf_insert_ne hne]

theorem pend_addDelayed (s : St S) (nt : NT S Unit) (x : Delayed) :
    (∀ P, (pend (s.addDelayed nt x) nt P).Perm (dcmb P [x] ++ pend s nt P)) ∧
      ∀ nt' P, nt' ≠ nt → pend (s.addDelayed nt x) nt' P = pend s nt' P := by
  obtain ⟨rest, h1, h2⟩ := allOf_insert_self nt (fun l => l ++ [x]) s.delayed
  constructor
  · intro P
    unfold pend St.addDelayed St.delayedOf; simp only
    rw [h2, h1]
    simp only [dcmb_append]
    -- q ++ ((d ++ x) ++ r) ~ x ++ (q ++ (d ++ r))
    refine List.Perm.trans ?_ (List.perm_append_comm (l₁ := qcmb P (allOf nt s.queued) ++ (dcmb P ((AList.lookup nt s.delayed).getD []) ++ dcmb P rest)) (l₂ := dcmb P [x]))
    rw [List.append_assoc, List.append_assoc, List.append_assoc]
    refine List.Perm.append_left _ (List.Perm.append_left _ ?_)
    exact List.perm_append_comm
  · intro nt' P hne; unfold pend St.addDelayed; simp only; rw [allOf_insert_ne hne]

/-- `_add_combination_` adds the combination to the pending ones of its rule, nothing else -/
theorem addCombination_pend (E : Env S) (s s' : St S) (nt : NT S Unit) (P : Sym) (idx : List Nat) (chk : Option Nat)
    (h : addCombination E s nt P idx chk = some s') :
    ∀ nt' P', (pend s' nt' P').Perm ((if nt' = nt ∧ P' = P then [idx] else []) ++ pend s nt' P') := by
  obtain ⟨_, hs⟩ := addCombination_spec E s s' nt P idx chk h
  intro nt' P'
  rcases hs with ⟨_, hqe, hde⟩ | ⟨_, hde, c, _, hqe⟩
  · have hs' : pend s' nt' P' = pend (s.addDelayed nt (idx, P, chk)) nt' P' := by
      unfold pend St.addDelayed; simp only; rw [hqe, hde]
    rw [hs']
    obtain ⟨h1, h2⟩ := pend_addDelayed s nt (idx, P, chk)
    by_cases hn : nt' = nt
    · subst hn
      refine (h1 P').trans ?_
      by_cases hP : P' = P
      · subst hP; simp [dcmb]
      · have : ¬ P = P' := fun e => hP e.symm
        simp [dcmb, hP, this]
    · rw [h2 nt' P' hn]; simp [hn]
  · have hs' : pend s' nt' P' = pend (s.setQueue nt (Heapq.push ltE (s.queueOf nt) ⟨c, idx, P⟩)) nt' P' := by
      unfold pend St.setQueue; simp only; rw [hqe, hde]
    rw [hs']
    obtain ⟨rest, h1, h2, h3⟩ := pend_setQueue s nt (Heapq.push ltE (s.queueOf nt) ⟨c, idx, P⟩)
    by_cases hn : nt' = nt
    · subst hn
      rw [h2 P', h1 P']
      have hp := qcmb_perm P' (Heapq.push_perm ltE (s.queueOf nt') ⟨c, idx, P⟩)
      have e : qcmb P' (⟨c, idx, P⟩ :: s.queueOf nt') = (if nt' = nt' ∧ P' = P then [idx] else []) ++ qcmb P' (s.queueOf nt') := by
        by_cases hP : P' = P
        · subst hP; simp [qcmb]
        · have : ¬ P = P' := fun e => hP e.symm
          simp [qcmb, hP, this]
      rw [e] at hp
      refine (hp.append_right _).trans ?_
      rw [List.append_assoc]
    · rw [h3 nt' P' hn]; simp [hn]

theorem triggerElems_pend (E : Env S) (nt : NT S Unit) : ∀ (elems : List Delayed) (s s' : St S),
    triggerElems E nt elems s = some s' →
    ∀ nt' P', (pend s' nt' P').Perm ((if nt' = nt then dcmb P' elems else []) ++ pend s nt' P') := by
  intro elems
  induction elems with
  | nil =>
    intro s s' h nt' P'
    simp only [triggerElems, Option.some.injEq] at h; subst h
    by_cases hn : nt' = nt <;> simp [hn, dcmb]
  | cons d rest ih =>
    intro s s' h nt' P'
    obtain ⟨idx, P, chk⟩ := d
    simp only [triggerElems] at h
    cases ha : addCombination E s nt P idx chk with
    | none => simp [ha] at h
    | some s1 =>
      simp only [ha] at h
      have h1 := addCombination_pend E s s1 nt P idx chk ha nt' P'
      have h2 := ih s1 s' h nt' P'
      refine h2.trans ?_
      by_cases hn : nt' = nt
      · subst hn
        simp only [if_true, true_and] at h1 ⊢
        by_cases hP : P' = P
        · subst hP
          simp only [if_true] at h1
          have : dcmb P' ((idx, P', chk) :: rest) = idx :: dcmb P' rest := by simp [dcmb]
          rw [this]
          refine (List.Perm.append_left _ h1).trans ?_
          simp only [List.singleton_append, List.cons_append]
          exact List.perm_middle
        · have hne : ¬ P = P' := fun e => hP e.symm
          simp only [hP, if_false, List.nil_append] at h1
          have : dcmb P' ((idx, P, chk) :: rest) = dcmb P' rest := by simp [dcmb, hne]
          rw [this]
          exact List.Perm.append_left _ h1
      · simp only [hn, false_and, if_false, List.nil_append] at h1 ⊢
        exact h1

theorem triggerAll_pend (E : Env S) : ∀ (tab : AList (NT S Unit) (List Delayed)) (s s' : St S),
    triggerAll E tab s = some s' →
    ∀ nt' P', (pend s' nt' P').Perm (dcmb P' (allOf nt' tab) ++ pend s nt' P') := by
  intro tab
  induction tab with
  | nil =>
    intro s s' h nt' P'
    simp only [triggerAll, Option.some.injEq] at h; subst h
    simp [allOf, dcmb]
  | cons e rest ih =>
    intro s s' h nt' P'
    obtain ⟨nt, elems⟩ := e
    simp only [triggerAll] at h
    cases ha : triggerElems E nt elems s with
    | none => simp [ha] at h
    | some s1 =>
      simp only [ha] at h
      have h1 := triggerElems_pend E nt elems s s1 ha nt' P'
      have h2 := ih s1 s' h nt' P'
      refine h2.trans ?_
      by_cases hn : nt = nt'
      · subst hn
        simp only [if_true] at h1
        simp only [allOf, if_true, dcmb_append]
        refine (List.Perm.append_left _ h1).trans ?_
        rw [← List.append_assoc]
        exact List.Perm.append_right _ List.perm_append_comm
      · have hn' : ¬ nt' = nt := fun e => hn e.symm
        simp only [hn', if_false, List.nil_append] at h1
        simp only [allOf, hn, if_false]
        exact List.Perm.append_left _ h1

/-- `_trigger_delayed_` only moves combinations between the delayed lists and the queues -/
theorem triggerDelayed_pend (E : Env S) (s s' : St S) (h : triggerDelayed E s = some s') :
    ∀ nt P, (pend s' nt P).Perm (pend s nt P) := by
  intro nt P
  unfold triggerDelayed at h
  have := triggerAll_pend E s.delayed _ s' h nt P
  refine this.trans ?_
  unfold pend
  simp only [allOf, dcmb, List.filter_nil, List.map_nil, List.append_nil]
  exact List.perm_append_comm

theorem addCost_pend (E : Env S) (s s' : St S) (cost : Int) (ci : Nat) (h : addCost E s cost = some (s', ci)) :
    ∀ nt P, (pend s' nt P).Perm (pend s nt P) := by
  intro nt P
  unfold addCost at h
  by_cases hc : s.costList ≠ [] ∧ s.costList.getLast? = some cost
  · rw [if_pos hc] at h
    simp only [Option.some.injEq, Prod.mk.injEq] at h; obtain ⟨rfl, _⟩ := h; exact List.Perm.refl _
  · rw [if_neg hc] at h
    cases ht : triggerDelayed E { s with costList := s.costList ++ [cost] } with
    | none => simp [ht] at h
    | some s1 =>
      simp only [ht, Option.some.injEq, Prod.mk.injEq] at h; obtain ⟨rfl, _⟩ := h
      exact triggerDelayed_pend E _ _ ht nt P

/-- the successor loop started at position `pre.length` of `pre ++ suf` adds exactly the successors of `suf`
    (prefixed by `pre`) to the pending combinations of the rule -/
theorem succLoop_pend (E : Env S) (nt : NT S Unit) (P : Sym) :
    ∀ (suf pre : List Nat) (s s' : St S) (maxi maxi' : Nat),
      succLoop E nt P (pre ++ suf) pre.length suf.length s maxi = some (s', maxi') →
      ∀ nt' P', (pend s' nt' P').Perm ((if nt' = nt ∧ P' = P then (CD.succs suf).map (pre ++ ·) else []) ++ pend s nt' P') := by
  intro suf
  induction suf with
  | nil =>
    intro pre s s' maxi maxi' h nt' P'
    simp only [List.length_nil, succLoop, Option.some.injEq, Prod.mk.injEq] at h
    obtain ⟨rfl, _⟩ := h
    simp [CD.succs]
  | cons x xs ih =>
    intro pre s s' maxi maxi' h nt' P'
    simp only [List.length_cons, succLoop] at h
    have hx : (pre ++ x :: xs)[pre.length]? = some x := by simp
    simp only [hx] at h
    have hset : (pre ++ x :: xs).set pre.length (x + 1) = pre ++ (x + 1) :: xs := by simp
    rw [hset] at h
    cases ha : addCombination E s nt P (pre ++ (x + 1) :: xs) (some pre.length) with
    | none => simp [ha] at h
    | some s1 =>
      simp only [ha] at h
      have h1 := addCombination_pend E s s1 nt P _ _ ha nt' P'
      by_cases hb : x + 1 > 1
      · simp only [hb, if_true, Option.some.injEq, Prod.mk.injEq] at h
        obtain ⟨rfl, _⟩ := h
        have hx1 : x ≥ 1 := by omega
        simp only [CD.succs, hx1, if_true, List.map_cons, List.map_nil]
        exact h1
      · simp only [hb, if_false] at h
        have hx0 : x = 0 := by omega
        subst hx0
        have e1 : pre ++ 0 :: xs = (pre ++ [0]) ++ xs := by simp
        have e2 : pre.length + 1 = (pre ++ [0]).length := by simp
        rw [e1, e2] at h
        have h2 := ih (pre ++ [0]) s1 s' _ _ h nt' P'
        refine h2.trans ?_
        by_cases hc : nt' = nt ∧ P' = P
        · simp only [hc, and_self, if_true] at h1 ⊢
          simp only [CD.succs, ge_iff_le, Nat.le_zero_eq, Nat.succ_ne_self, Nat.reduceLeDiff, if_false, List.map_cons,
            List.map_map]
          refine (List.Perm.append_left _ h1).trans ?_
          have : (List.map (fun x => pre ++ [0] ++ x) (CD.succs xs)) = List.map ((fun x => pre ++ x) ∘ fun x => 0 :: x) (CD.succs xs) := by
            apply List.map_congr_left; intro a _; simp
          rw [this]
          simp only [Nat.zero_add, List.singleton_append, List.cons_append]
          exact List.perm_middle
        · simp only [hc, if_false, List.nil_append] at h1 ⊢
          exact h1

end PS.Bee
