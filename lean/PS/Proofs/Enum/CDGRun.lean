/- Global no-duplicates, part 4: the generator.  From a new enumerator, along `next` calls (no `merge_program`): every
   yielded program is new to the banks of the start symbol and enters them, so the yielded sequence has no duplicates
   and the banks stay duplicate-free and pairwise disjoint.  The prologue does not touch the banks; the state it
   produces is assumed to have derivation queues holding nothing or the single tuple (0,…,0) (`startB`, a Boolean
   check of that state). -/
import PS.Proofs.Enum.CDGMachine
namespace PS.CD
variable {α : Type}

/-! ### the prologue leaves the banks alone -/

def Bk (s s' : St α) : Prop := s'.bankNt = s.bankNt ∧ s'.bankDer = s.bankDer ∧ s'.deleted = s.deleted

theorem Bk.trans {s1 s2 s3 : St α} (h1 : Bk s1 s2) (h2 : Bk s2 s3) : Bk s1 s3 :=
  ⟨h2.1.trans h1.1, h2.2.1.trans h1.2.1, h2.2.2.trans h1.2.2⟩

structure BkOK (E : Env α) (f : Nat) : Prop where
  nt : ∀ s S s', initNT E f s S = some s' → Bk s s'
  rules : ∀ s S rs s', initRules E f s S rs = some s' → Bk s s'
  der : ∀ s args s', initDer E f s args = some s' → Bk s s'
  args : ∀ s as c s' c', initArgs E f s as c = some (s', c') → Bk s s'

theorem bk_all (E : Env α) : ∀ f, BkOK E f := by
  intro f
  induction f with
  | zero =>
    refine ⟨?_, ?_, ?_, ?_⟩
    · intro s S s' h; simp [initNT] at h
    · intro s S rs s' h; simp [initRules] at h
    · intro s args s' h; simp [initDer] at h
    · intro s as c s' c' h; simp [initArgs] at h
  | succ f ih =>
    refine ⟨?_, ?_, ?_, ?_⟩
    · intro s S s' h
      rw [initNT] at h
      split at h
      · simp at h
      · split at h
        · simp only [Option.some.injEq] at h; subst h; exact ⟨rfl, rfl, rfl⟩
        · split at h
          · simp at h
          · split at h
            · simp at h
            · rename_i s2 h2
              obtain ⟨a, b⟩ := ih.rules _ _ _ _ h2
              split at h
              · simp only [Option.some.injEq] at h; subst h; exact ⟨a, b⟩
              · simp at h
    · intro s S rs s' h
      cases rs with
      | nil => simp only [initRules, Option.some.injEq] at h; subst h; exact ⟨rfl, rfl, rfl⟩
      | cons r rest =>
        obtain ⟨P, args, w⟩ := r
        rw [initRules] at h
        split at h
        · simp at h
        · rename_i s1 base hr
          have hs1 : Bk s s1 := by
            split at hr
            · simp only [Option.some.injEq, Prod.mk.injEq] at hr; rw [← hr.1]; exact ⟨rfl, rfl, rfl⟩
            · split at hr
              · simp at hr
              · rename_i s1' hd
                split at hr
                · simp only [Option.some.injEq, Prod.mk.injEq] at hr; rw [← hr.1]; exact ih.der _ _ _ hd
                · simp at hr
          split at h
          · simp at h
          · obtain ⟨a, b, c⟩ := ih.rules _ _ _ _ h
            exact hs1.trans ⟨a, b, c⟩
    · intro s args s' h
      rw [initDer] at h
      split at h
      · simp at h
      · split at h
        · simp only [Option.some.injEq] at h; subst h; exact ⟨rfl, rfl, rfl⟩
        · split at h
          · simp at h
          · rename_i s2 cost ha
            obtain ⟨a, b⟩ := ih.args _ _ _ _ _ ha
            split at h
            · simp at h
            · split at h
              · simp at h
              · split at h
                · simp at h
                · split at h
                  · simp only [Option.some.injEq] at h; subst h; exact ⟨a, b⟩
                  · simp at h
    · intro s as c s' c' h
      cases as with
      | nil => simp only [initArgs, Option.some.injEq, Prod.mk.injEq] at h; rw [← h.1]; exact ⟨rfl, rfl, rfl⟩
      | cons Si rest =>
        rw [initArgs] at h
        split at h
        · simp at h
        · rename_i s1 h1
          split at h
          · exact (ih.nt _ _ _ h1).trans (ih.args _ _ _ _ _ h)
          · simp at h

theorem reevalDer_bk (A : Arith α) (b : Bool) (s s' : St α) (args : List NT) (h1 : reevalDer A b s args = some s') : Bk s s' := by
  unfold reevalDer at h1
  split at h1
  · simp only [Option.some.injEq] at h1; subst h1; exact ⟨rfl, rfl, rfl⟩
  · split at h1
    · simp at h1
    · split at h1
      · simp at h1
      · simp only at h1
        split at h1
        · simp at h1
        · split at h1
          · simp at h1
          · split at h1
            · split at h1
              · simp at h1
              · simp only [Option.some.injEq] at h1; subst h1; exact ⟨rfl, rfl, rfl⟩
            · simp at h1

theorem reevalDers_bk (A : Arith α) (b : Bool) : ∀ (rs : List (Sym × (List NT × Int))) (s s' : St α),
    reevalDers A b rs s = some s' → Bk s s'
  | [], s, s', h => by simp only [reevalDers, Option.some.injEq] at h; subst h; exact ⟨rfl, rfl, rfl⟩
  | (_, (args, _)) :: rest, s, s', h => by
    rw [reevalDers] at h
    split at h
    · simp at h
    · rename_i s1 h1
      exact (reevalDer_bk A b s s1 args h1).trans (reevalDers_bk A b rest s1 s' h)

theorem reevalPass_bk {E : Env α} : ∀ (rs : List (NT × AList Sym (List NT × Int))) (s : St α) (ch : Bool) (s' : St α) (ch' : Bool),
    reevalPass E rs s ch = some (s', ch') → Bk s s'
  | [], s, ch, s', ch', h => by
    simp only [reevalPass, Option.some.injEq, Prod.mk.injEq] at h; rw [← h.1]; exact ⟨rfl, rfl, rfl⟩
  | (S, rs) :: rest, s, ch, s', ch', h => by
    rw [reevalPass] at h
    split at h
    · simp at h
    · rename_i s1 h1
      have hs1 := reevalDers_bk _ _ _ _ _ h1
      split at h
      · simp at h
      · split at h
        · simp at h
        · split at h
          · exact hs1.trans (reevalPass_bk rest s1 ch s' ch' h)
          · simp only at h
            split at h
            · split at h
              · simp at h
              · obtain ⟨a, b⟩ := reevalPass_bk rest _ true s' ch' h
                exact hs1.trans ⟨a, b⟩
            · simp at h

theorem reevaluate_bk {E : Env α} : ∀ (f : Nat) (s s' : St α), reevaluate E f s = some s' → Bk s s' := by
  intro f
  induction f with
  | zero => intro s s' h; simp [reevaluate] at h
  | succ f ih =>
    intro s s' h
    rw [reevaluate] at h
    split at h
    · simp at h
    · rename_i s1 h1
      exact (reevalPass_bk _ _ _ _ _ h1).trans (ih _ _ h)
    · rename_i s1 h1
      simp only [Option.some.injEq] at h; subst h
      exact reevalPass_bk _ _ _ _ _ h1

theorem rebuildQueues_bk (A : Arith α) (b : Bool) (values : AList NT Int) : ∀ (keys : List (List NT)) (s s' : St α),
    rebuildQueues A b values keys s = some s' → Bk s s'
  | [], s, s', h => by simp only [rebuildQueues, Option.some.injEq] at h; subst h; exact ⟨rfl, rfl, rfl⟩
  | arg :: rest, s, s', h => by
    rw [rebuildQueues] at h
    split at h
    · simp at h
    · split at h
      · simp only at h
        split at h
        · simp at h
        · split at h
          · simp at h
          · split at h
            · simp at h
            · obtain ⟨a, b⟩ := rebuildQueues_bk A b values rest _ s' h
              exact ⟨a, b⟩
      · simp at h

theorem prologue_bk (E : Env α) (fuel : Nat) (s s' : St α) (h : prologue E fuel s = some s') : Bk s s' := by
  unfold prologue at h
  split at h
  · simp at h
  · rename_i s1 h1
    split at h
    · simp at h
    · rename_i s2 h2
      have a := ((bk_all E fuel).nt _ _ _ h1).trans (reevaluate_bk _ _ _ h2)
      unfold computeBounds at h
      split at h
      · simp at h
      · split at h
        · simp at h
        · exact a.trans (rebuildQueues_bk _ _ _ _ _ _ h)

/-! ### the state a generator starts from -/

def BanksEmpty (s : St α) : Prop :=
  (∀ S b, AList.lookup S s.bankNt = some b → b = []) ∧ (∀ a b, AList.lookup a s.bankDer = some b → b = [])

theorem banksEmpty_of_bk {s s' : St α} (h : Bk s s') (he : BanksEmpty s) : BanksEmpty s' := by
  unfold BanksEmpty; rw [h.1, h.2.1]; exact he

theorem not_inBankAt_of_empty {s : St α} (h : BanksEmpty s) (S : NT) (c : Nat) (q : Prog) : ¬ InBankAt s S c q := by
  rintro ⟨b, l, hb, hl, _⟩
  rw [h.1 S b hb] at hl; simp at hl

theorem not_possAt_of_empty {s : St α} (h : BanksEmpty s) (a : List NT) (c : Nat) (ps : List Ref) : ¬ PossAt s.bankDer a c ps := by
  rintro ⟨b, l, hb, hl, _⟩
  rw [h.2 a b hb] at hl; simp at hl

theorem ninv_of_empty {E : Env α} {s : St α} (h : BanksEmpty s) : NInv E s noL := by
  refine ⟨⟨?_, ?_⟩, ?_, ?_, ?_, ?_⟩
  · intro S b ci l hb hl
    rw [h.1 S b hb] at hl; simp at hl
  · intro S ci cj p h1 _
    exact absurd h1 (not_inBankAt_of_empty h S ci p)
  · intro S hh d _ _ args w kids _ hin
    obtain ⟨c, hc⟩ := hin
    exact absurd hc (not_inBankAt_of_empty h S c _)
  · intro S P c0 hm
    simp [noL] at hm
  · intro S c q hq
    exact absurd hq (not_inBankAt_of_empty h S c q)
  · intro p _ S c hq
    exact absurd hq (not_inBankAt_of_empty h S c p)

/-- the Boolean check of the state the prologue produced: every derivation queue holds nothing or the single
    index tuple `(0,…,0)` -/
def startB (s : St α) : Bool :=
  s.queueDer.all fun x => x.2.contents == [] || x.2.contents == [List.replicate x.1.length 0]

theorem frontInv_nil : FrontInv ⟨[], []⟩ := by
  refine ⟨by simp, ?_⟩
  intro t ht; simp at ht

theorem tinv2_of_start {E : Env α} {s : St α} (hS : SInv E s) (hE : BanksEmpty s) (hB : startB s = true) : TInv2 s noT := by
  intro args
  have hP : PossD s.bankDer args [] :=
    ⟨fun b c l hb hl => by rw [hE.2 args b hb] at hl; simp at hl,
     fun c c' ps hp _ => absurd hp (not_possAt_of_empty hE args c ps),
     fun c ps hp => absurd hp (not_possAt_of_empty hE args c ps)⟩
  refine ⟨fun q hq => (hS.2.2 args q hq).1, ?_, [], ?_, hP⟩
  · intro t ht
    simp only [noT, List.append_nil] at ht
    cases hq : AList.lookup args s.queueDer with
    | none => simp [contentsOf, hq] at ht
    | some q =>
      rw [contentsOf_some hq] at ht
      exact (hS.2.2 args q hq).2 t ht
  · simp only [noT, List.append_nil]
    cases hq : AList.lookup args s.queueDer with
    | none => simp only [contentsOf, hq]; exact frontInv_nil
    | some q =>
      rw [contentsOf_some hq]
      have hm := AList.lookup_some_mem hq
      unfold startB at hB
      rw [List.all_eq_true] at hB
      have := hB (args, q) hm
      simp only [Bool.or_eq_true, beq_iff_eq] at this
      rcases this with h1 | h1
      · rw [h1]; exact frontInv_nil
      · rw [h1]; exact front_init _

/-! ### the generator -/

/-- a started generator -/
def GS (E : Env α) (g : Gen α) : Prop :=
  HInv g.st noLimbo ∧ TInv2 g.st noT ∧ NInv E g.st noL ∧
    ∀ n fr, g.phase = .inQuery n fr → FrOK E g.st noL fr ∧ fr.S = E.G.start

/-- a new generator -/
def GF (E : Env α) (fuel : Nat) (g : Gen α) : Prop :=
  IInv g.st noLimbo ∧ SInv E g.st ∧ BanksEmpty g.st ∧
    ∀ s, prologue E fuel g.st = some s → SInv E s → BanksEmpty s → TInv2 s noT

def GI (E : Env α) (fuel : Nat) (g : Gen α) : Prop :=
  (g.phase = .fresh → GF E fuel g) ∧ (g.phase ≠ .fresh → GS E g)

theorem nextLoop_gs (E : Env α) (fuel : Nat) : ∀ (k : Nat) (s : St α) (n : Nat) (fr? : Option (Frame α)) (failed : Bool)
    (g' : Gen α) (out : Option Prog), nextLoop E fuel k s n fr? failed = some (g', out) →
    HInv s noLimbo → TInv2 s noT → NInv E s noL → (∀ fr, fr? = some fr → FrOK E s noL fr ∧ fr.S = E.G.start) →
    GS E g' ∧ BMono s g'.st ∧ ∀ p, out = some p → ¬ InBank s E.G.start p ∧ InBank g'.st E.G.start p := by
  intro k
  induction k with
  | zero => intro s n fr? failed g' out h; simp [nextLoop] at h
  | succ k ih =>
    intro s n fr? failed g' out h hH hT hN hF
    rw [nextLoop.eq_def] at h
    simp only at h
    split at h
    · simp at h
    · rename_i s0 hstart
      have hs0 : s0 = { s with failedByEmpties := false } := by
        split at hstart
        · simp at hstart
        · split at hstart
          · simp at hstart
          · split at hstart
            · simp only [Option.some.injEq, Prod.mk.injEq] at hstart
              exact hstart.1.symm
            · simp at hstart
      subst hs0
      have hH0 : HInv { s with failedByEmpties := false } noLimbo := hinv_of_eq rfl hH
      have hT0 : TInv2 { s with failedByEmpties := false } noT := tinv2_of_eq rfl rfl hT
      have hN0 : NInv E { s with failedByEmpties := false } noL := ninv_of_eq (s := s) rfl rfl rfl rfl hN
      have m0 : BMono s { s with failedByEmpties := false } := BMono.of_eq rfl
      split at h
      · simp only [Option.some.injEq, Prod.mk.injEq] at h
        obtain ⟨h1, h2⟩ := h
        subst h1; subst h2
        exact ⟨⟨hH0, hT0, hN0, fun n fr he => by simp at he⟩, m0, fun p hp => by simp at hp⟩
      · obtain ⟨a, b, c⟩ := ih _ _ _ _ _ _ h hH0 hT0 hN0 (fun fr he => by simp at he)
        refine ⟨a, m0.trans b, ?_⟩
        intro p hp
        obtain ⟨c1, c2⟩ := c p hp
        exact ⟨fun hin => c1 (m0.inBank hin), c2⟩
    · rename_i s0 fr hstart
      have key : HInv s0 noLimbo ∧ TInv2 s0 noT ∧ NInv E s0 noL ∧ BMono s s0 ∧ FrOK E s0 noL fr ∧ fr.S = E.G.start := by
        split at hstart
        · rename_i fr0
          simp only [Option.some.injEq, Prod.mk.injEq] at hstart
          obtain ⟨h1, h2⟩ := hstart
          subst h1; subst h2
          obtain ⟨f1, f2⟩ := hF fr0 rfl
          exact ⟨hH, hT, hN, BMono.refl _, f1, f2⟩
        · split at hstart
          · simp at hstart
          · split at hstart
            · simp at hstart
            · simp only [Option.some.injEq, Prod.mk.injEq] at hstart
              obtain ⟨h1, h2⟩ := hstart
              subst h1; subst h2
              exact ⟨hinv_of_eq rfl hH, tinv2_of_eq rfl rfl hT, ninv_of_eq (s := s) rfl rfl rfl rfl hN, BMono.of_eq rfl,
                frok_none rfl, rfl⟩
      obtain ⟨hH0, hT0, hN0, m0, hF0, hS0⟩ := key
      split at h
      · simp at h
      · rename_i s1 fr1 p hr
        simp only [Option.some.injEq, Prod.mk.injEq] at h
        obtain ⟨h1, h2⟩ := h
        subst h1; subst h2
        have r1 := (nok_all E fuel).resume _ _ _ noL noT hr hH0 hT0 hN0 hF0
        obtain ⟨r11, r12, r13, r14, r15⟩ := r1
        have hH1 : HInv s1 noLimbo := (hok_all E fuel).resume _ _ _ _ hr hH0
        have hT1 : TInv2 s1 noT := (tok2_all E fuel).resume _ _ _ _ hr hT0
        have m1 : BMono s0 s1 := (mok_all E fuel).resume _ _ _ hr
        refine ⟨⟨hH1, hT1, r11, ?_⟩, m0.trans m1, ?_⟩
        · intro n' fr' he
          simp only [Phase.inQuery.injEq] at he
          obtain ⟨_, he⟩ := he
          subst he
          exact ⟨r12, r13.trans hS0⟩
        · intro p' hp'
          simp only [Option.some.injEq] at hp'
          subst hp'
          rw [hS0] at r14 r15
          exact ⟨fun hin => r14 (m0.inBank hin), r15⟩
      · rename_i s1 hr
        have r1 : NInv E s1 noL := (nok_all E fuel).resume _ _ _ noL noT hr hH0 hT0 hN0 hF0
        have hH1 : HInv s1 noLimbo := (hok_all E fuel).resume _ _ _ _ hr hH0
        have hT1 : TInv2 s1 noT := (tok2_all E fuel).resume _ _ _ _ hr hT0
        have m1 : BMono s s1 := m0.trans ((mok_all E fuel).resume _ _ _ hr)
        split at h
        · simp only [Option.some.injEq, Prod.mk.injEq] at h
          obtain ⟨h1, h2⟩ := h
          subst h1; subst h2
          exact ⟨⟨hH1, hT1, r1, fun n fr he => by simp at he⟩, m1, fun p hp => by simp at hp⟩
        · obtain ⟨a, b, c⟩ := ih _ _ _ _ _ _ h hH1 hT1 r1 (fun fr he => by simp at he)
          refine ⟨a, m1.trans b, ?_⟩
          intro p hp
          obtain ⟨c1, c2⟩ := c p hp
          exact ⟨fun hin => c1 (m1.inBank hin), c2⟩

theorem nextLoop_not_fresh (E : Env α) (fuel k : Nat) (s : St α) (n : Nat) (fr? : Option (Frame α)) (failed : Bool)
    (g' : Gen α) (out : Option Prog) (h : nextLoop E fuel k s n fr? failed = some (g', out)) : g'.phase ≠ .fresh := by
  intro he
  exact nextLoop_phase E fuel k s n fr? failed g' out h (by rw [he])

/-- **one `next`**: the invariant is kept, the banks grow, and a yielded program is new to the banks of the start
    symbol and enters them -/
theorem next_gi (E : Env α) (hG : RowsNodup E.G) (fuel : Nat) (g g' : Gen α) (out : Option Prog)
    (h : next E fuel g = some (g', out)) (hg : GI E fuel g) :
    GI E fuel g' ∧ BMono g.st g'.st ∧ ∀ p, out = some p → ¬ InBank g.st E.G.start p ∧ InBank g'.st E.G.start p := by
  unfold next at h
  split at h
  · simp only [Option.some.injEq, Prod.mk.injEq] at h
    obtain ⟨h1, h2⟩ := h
    subst h1; subst h2
    exact ⟨hg, BMono.refl _, fun p hp => by simp at hp⟩
  · rename_i hph
    obtain ⟨hI, hS, hE, hst⟩ := hg.1 hph
    split at h
    · simp at h
    · rename_i s hp
      have hbk := prologue_bk E fuel _ _ hp
      have hE' := banksEmpty_of_bk hbk hE
      have hS' := prologue_sinv E fuel _ _ hp hS
      have hH' := prologue_hinv E hG fuel _ _ hp hI
      have hT' := hst s hp hS' hE'
      have hN' : NInv E s noL := ninv_of_empty hE'
      obtain ⟨a, b, c⟩ := nextLoop_gs E fuel _ _ _ _ _ _ _ h hH' hT' hN' (fun fr he => by simp at he)
      have hne := nextLoop_not_fresh E fuel _ _ _ _ _ _ _ h
      have m0 : BMono g.st s := BMono.of_eq hbk.1
      refine ⟨⟨fun he => absurd he hne, fun _ => a⟩, m0.trans b, ?_⟩
      intro p hp
      obtain ⟨c1, c2⟩ := c p hp
      exact ⟨fun hin => c1 (m0.inBank hin), c2⟩
  · rename_i n hph
    obtain ⟨hH, hT, hN, _⟩ := hg.2 (by rw [hph]; simp)
    obtain ⟨a, b, c⟩ := nextLoop_gs E fuel _ _ _ _ _ _ _ h hH hT hN (fun fr he => by simp at he)
    have hne := nextLoop_not_fresh E fuel _ _ _ _ _ _ _ h
    exact ⟨⟨fun he => absurd he hne, fun _ => a⟩, b, c⟩
  · rename_i n fr hph
    obtain ⟨hH, hT, hN, hF⟩ := hg.2 (by rw [hph]; simp)
    obtain ⟨a, b, c⟩ := nextLoop_gs E fuel _ _ _ _ _ _ _ h hH hT hN
      (fun fr' he => by simp only [Option.some.injEq] at he; subst he; exact hF n fr hph)
    have hne := nextLoop_not_fresh E fuel _ _ _ _ _ _ _ h
    exact ⟨⟨fun he => absurd he hne, fun _ => a⟩, b, c⟩

theorem gen_new_gi (E : Env α) (fuel : Nat) (g : Gen α) (h : Gen.new E = some g)
    (hst : ∀ s, prologue E fuel g.st = some s → SInv E s → BanksEmpty s → TInv2 s noT) : GI E fuel g := by
  unfold Gen.new at h
  cases hi : St.init E with
  | none => simp [hi] at h
  | some s =>
    simp only [hi, Option.map_some, Option.some.injEq] at h
    subst h
    refine ⟨fun _ => ⟨init_iinv E s hi, init_sinv E s hi, ?_, hst⟩, fun hne => absurd rfl hne⟩
    unfold St.init at hi
    split at hi
    · simp at hi
    · have := initTables_fresh _ _ _ _ _ _ hi ⟨by simp, by simp, by intro a q hq; simp at hq⟩
      exact ⟨this.1, this.2.1⟩

/-- **NO DUPLICATES along `next` calls** -/
theorem take_gi (E : Env α) (hG : RowsNodup E.G) (fuel : Nat) : ∀ (k : Nat) (g : Gen α) (acc : List Prog) (g' : Gen α)
    (ys : List Prog) (fin : Bool), take E fuel k g acc = some (g', ys, fin) → GI E fuel g →
    acc.Nodup → (∀ p ∈ acc, InBank g.st E.G.start p) →
    GI E fuel g' ∧ ys.Nodup ∧ (∀ p ∈ ys, InBank g'.st E.G.start p) ∧ BMono g.st g'.st := by
  intro k
  induction k with
  | zero =>
    intro g acc g' ys fin h hg hnd hin
    simp only [take, Option.some.injEq, Prod.mk.injEq] at h
    obtain ⟨h1, h2, _⟩ := h
    subst h1; subst h2
    exact ⟨hg, hnd, hin, BMono.refl _⟩
  | succ k ih =>
    intro g acc g' ys fin h hg hnd hin
    rw [take] at h
    split at h
    · simp at h
    · rename_i g1 hn
      simp only [Option.some.injEq, Prod.mk.injEq] at h
      obtain ⟨h1, h2, _⟩ := h
      subst h1; subst h2
      obtain ⟨a, b, _⟩ := next_gi E hG fuel g g1 none hn hg
      exact ⟨a, hnd, fun p hp => b.inBank (hin p hp), b⟩
    · rename_i g1 p1 hn
      obtain ⟨a, b, c⟩ := next_gi E hG fuel g g1 (some p1) hn hg
      obtain ⟨c1, c2⟩ := c p1 rfl
      have hnd1 : (acc ++ [p1]).Nodup := by
        rw [List.nodup_append]
        refine ⟨hnd, by simp, ?_⟩
        intro x hx y hy hxy
        simp only [List.mem_singleton] at hy
        subst hy; subst hxy
        exact c1 (hin x hx)
      have hin1 : ∀ p ∈ acc ++ [p1], InBank g1.st E.G.start p := by
        intro p hp
        rcases List.mem_append.mp hp with h3 | h3
        · exact b.inBank (hin p h3)
        · simp only [List.mem_singleton] at h3; subst h3; exact c2
      obtain ⟨d1, d2, d3, d4⟩ := ih _ _ _ _ _ h a hnd1 hin1
      exact ⟨d1, d2, d3, b.trans d4⟩

end PS.CD
