/- The two instances of the generic development: heap search (probabilities, any threshold, any
   filter) and bucket search (any filter), with hypotheses that are Boolean checks on a literal
   grammar, and the statements in terms of probabilities / bucket tuples. -/
import PS.Proofs.Enum.GStops
import PS.Proofs.Enum.HSCompleteCheck
namespace PS.HG
open PS PS.G PS.HS
set_option linter.unusedSectionVars false
set_option linter.unusedVariables false
variable {S π : Type} [DecidableEq S]

/-! ### Boolean checks -/

theorem wtotal_of_allG (E : Env S Unit π)
    (h : E.G.rules.all (fun e => e.2.all fun r => (ruleW E e.1 r.1).isSome) = true) : WTotal E := by
  intro nt F rl hr
  unfold TT.rule? at hr
  cases hl : AList.lookup nt E.G.rules with
  | none => simp [hl] at hr
  | some rs =>
    simp only [hl] at hr
    have a1 := List.all_eq_true.mp h (nt, rs) (AList.lookup_some_mem hl)
    exact List.all_eq_true.mp a1 (F, rl) (AList.lookup_some_mem hr)

theorem wunit_of_all (E : Env S Unit π)
    (h : E.W.all (fun e => e.2.all fun r => decide (0 ≤ r.2 ∧ r.2 ≤ 1)) = true) : WUnit E := by
  intro nt F w hw
  unfold ruleW at hw
  cases hl : AList.lookup nt E.W with
  | none => simp [hl] at hw
  | some ws =>
    simp only [hl] at hw
    have a1 := List.all_eq_true.mp h (nt, ws) (AList.lookup_some_mem hl)
    have a2 := List.all_eq_true.mp a1 (F, w) (AList.lookup_some_mem hw)
    simpa using a2

theorem closed_of_allG (G : TT S Unit)
    (h : G.rules.all (fun e => e.2.all fun r => r.2.1.all fun a => (AList.lookup (argNT a) G.rules).isSome) = true) :
    Closed G := fun nt F ra hr a ha => HS.closed_of_all G h nt F ra hr a ha

theorem clean_of_all (f : Prog → Bool) (hf : ∀ p, f p = true) : ∀ p, clean f p = true := by
  have key : ∀ n, (∀ p : Prog, Tree.size p ≤ n → clean f p = true) := by
    intro n
    induction n with
    | zero => intro p hp; obtain ⟨F, kids⟩ := p; simp [Tree.size] at hp
    | succ n ih =>
      intro p hp
      obtain ⟨F, kids⟩ := p
      rw [clean, hf, Bool.true_and]
      simp only [Tree.size] at hp
      have : ∀ (ks : List Prog), Tree.sizeList ks ≤ n → cleanList f ks = true := by
        intro ks
        induction ks with
        | nil => intro _; rfl
        | cons k ks ihk =>
          intro hks
          simp only [Tree.sizeList] at hks
          rw [cleanList, ih k (by omega), ihk (by omega)]; rfl
      exact this kids (by omega)
  intro p
  exact key _ p (Nat.le_refl _)

/-! ### heap search -/

/-- static hypotheses for heap search with threshold `t` and a filter (the code after fix
    `53c3acb`: `dropDeleted = false`); all of them are Boolean checks on a literal grammar -/
structure ProbHyp (E : Env S Unit Rat) (rank : NT S Unit → Nat) (t : Rat) : Prop where
  ops : E.ops = probOps t
  thr_nonneg : 0 ≤ t
  wunit : WUnit E
  init : InitHyp E rank
  keys : (AList.keys E.G.rules).Nodup
  wtotal : WTotal E
  nodrop : E.dropDeleted = false

theorem ProbHyp.all {E : Env S Unit Rat} {rank} {t : Rat} (P : ProbHyp E rank t) :
    AllHyp E rank (fun v => 0 ≤ v) := by
  have M := monoOps_prob E t P.ops (fun nt F w h => (P.wunit nt F w h).1)
  have w : Heapq.WeakOrderOn (fun v : Rat => 0 ≤ v) E.ops.lt := by
    rw [P.ops]; exact (probOps_weakOrder t).on _
  have hthr : ∀ t', E.ops.thr = some t' → 0 ≤ t' := by
    intro t' h
    rw [P.ops] at h
    simp only [probOps] at h
    split at h
    · cases h
    · cases h; exact P.thr_nonneg
  exact ⟨⟨law_of_monoOps M w hthr P.init.acyclic, P.wtotal, P.nodrop⟩, P.init, P.keys,
    subOK_prob E t P.ops P.wunit⟩

theorem probHyp_of_checks (E : Env S Unit Rat) (rank : NT S Unit → Nat) (t : Rat)
    (hops : E.ops = probOps t) (ht : 0 ≤ t)
    (h1 : E.W.all (fun e => e.2.all fun r => decide (0 ≤ r.2 ∧ r.2 ≤ 1)) = true)
    (h2 : E.G.rules.all (fun e => e.2.all fun r => r.2.1.all fun a => decide (rank (argNT a) < rank e.1)) = true)
    (h3 : E.G.rules.all (fun e => decide ((AList.keys e.2).Nodup)) = true)
    (h4 : E.G.rules.all (fun e => !e.2.isEmpty) = true)
    (h5 : (AList.keys E.G.rules).Nodup)
    (h6 : E.G.rules.all (fun e => e.2.all fun r => (ruleW E e.1 r.1).isSome) = true)
    (h7 : E.dropDeleted = false) : ProbHyp E rank t :=
  { ops := hops, thr_nonneg := ht, wunit := wunit_of_all E h1
    init := ⟨rowsNodup_of_all E.G h3, acyclic_of_all E.G rank h2, nonempty_of_all E.G h4⟩
    keys := h5, wtotal := wtotal_of_allG E h6, nodrop := h7 }

/-- the threshold test of heap search: the probability is above the threshold -/
theorem pushOK_prob {E : Env S Unit Rat} {t : Rat} (hops : E.ops = probOps t) (v : Rat) (h : t < v ∨ t = 0) :
    pushOK E.ops v = true := by
  unfold pushOK
  rw [hops]
  simp only [probOps]
  split
  · rfl
  · rename_i t' ht
    split at ht
    · cases ht
    · cases ht
      rcases h with h | h
      · simpa using h
      · contradiction

/-- the priority of a member is its probability -/
theorem prio_member {E : Env S Unit Rat} {rank} {t : Rat} (P : ProbHyp E rank t) (p : Prog) (nt : NT S Unit)
    (hg : gen E.G p nt = true) : prioSpec E p nt = some (prob E.G E.W p nt) := by
  have := prioSpec_total E P.wtotal p nt hg
  cases h : prioSpec E p nt with
  | none => rw [h] at this; cases this
  | some v => rw [prioSpec_prob E t P.ops p nt v hg h]

/-- **heap search with a threshold and a filter, every fuel, every prefix**: the yielded programs are
    members, accepted, pairwise distinct and in non-increasing order of probability -/
theorem prob_safe {E : Env S Unit Rat} {rank} {t : Rat} (P : ProbHyp E rank t) (fuel k : Nat)
    (g' : Gen S Unit Rat) (out : List Prog) (b : Bool)
    (h : take E fuel k (Gen.new E.G) [] = some (g', out, b)) :
    (∀ p ∈ out, gen E.G p E.G.start = true) ∧ out.Nodup ∧ (∀ p ∈ out, E.filter p = true) ∧
    out.Pairwise (fun p q => prob E.G E.W q E.G.start ≤ prob E.G E.W p E.G.start) := by
  have hsound := (take_sound E P.init.rows fuel k _ _ _ _ _ (ginv_new E) (by intro q hq; cases hq) h).2
  obtain ⟨a, b', c⟩ := take_safe P.all fuel k g' out b h
  refine ⟨hsound, a, b', ?_⟩
  have : ∀ x ∈ out, ∀ y ∈ out, NB E E.G.start x y → prob E.G E.W y E.G.start ≤ prob E.G E.W x E.G.start := by
    intro x hx y hy hnb
    have := hnb _ _ (prio_member P x _ (hsound x hx)) (prio_member P y _ (hsound y hy))
    rw [P.ops] at this
    simp only [probOps, decide_eq_false_iff_not, Rat.not_lt] at this
    exact this
  exact List.Pairwise.imp_of_mem (fun {x y} hx hy hxy => this x hx y hy hxy) c

/-- **prefix completeness of heap search** (every fuel, every prefix of the run): a member all of
    whose sub-programs the filter accepts, whose probability is above the threshold and strictly
    larger than the probability of a yielded program, was yielded before it -/
theorem prob_prefix_complete {E : Env S Unit Rat} {rank} {t : Rat} (P : ProbHyp E rank t) (fuel k : Nat)
    (g' : Gen S Unit Rat) (l1 l2 : List Prog) (q p : Prog) (b : Bool)
    (h : take E fuel k (Gen.new E.G) [] = some (g', l1 ++ q :: l2, b))
    (hg : gen E.G p E.G.start = true) (hcl : clean E.filter p = true)
    (hthr : t < prob E.G E.W p E.G.start ∨ t = 0)
    (hlt : prob E.G E.W q E.G.start < prob E.G E.W p E.G.start) : p ∈ l1 := by
  obtain ⟨hsound, _, _, hsorted⟩ := prob_safe P fuel k g' _ b h
  have hq : q ∈ l1 ++ q :: l2 := by simp
  have hmem : p ∈ l1 ++ q :: l2 :=
    take_prefix_complete P.all fuel k g' _ b h p q _ _ hq hg hcl (prio_member P p _ hg)
      (pushOK_prob P.ops _ hthr) (prio_member P q _ (hsound q hq)) (by rw [P.ops]; simpa [probOps] using hlt)
  rcases List.mem_append.mp hmem with h1 | h2
  · exact h1
  · exfalso
    have hpw := (List.pairwise_append.mp hsorted).2.1
    rcases List.mem_cons.mp h2 with rfl | h3
    · exact absurd hlt (Rat.lt_irrefl)
    · have := (List.pairwise_cons.mp hpw).1 p h3
      exact absurd hlt (Rat.not_lt.mpr this)

/-- **completeness of heap search above the threshold, relative to the filter**: once the generator
    has stopped, every member above the threshold all of whose sub-programs are accepted was yielded -/
theorem prob_stop_complete {E : Env S Unit Rat} {rank} {t : Rat} (P : ProbHyp E rank t) (fuel k : Nat)
    (g' : Gen S Unit Rat) (out : List Prog)
    (h : take E fuel k (Gen.new E.G) [] = some (g', out, true)) (p : Prog)
    (hg : gen E.G p E.G.start = true) (hcl : clean E.filter p = true)
    (hthr : t < prob E.G E.W p E.G.start ∨ t = 0) : p ∈ out :=
  take_stop_complete P.all fuel k g' out h p _ hg hcl (prio_member P p _ hg) (pushOK_prob P.ops _ hthr)

theorem prob_total {E : Env S Unit Rat} {rank} {t : Rat} (P : ProbHyp E rank t) (hclosed : Closed E.G)
    (hstart : E.G.start ∈ AList.keys E.G.rules) (fuel : Nat) (hfuel : enoughFuelF E.G rank ≤ fuel) :
    ∃ k g' out, take E fuel k (Gen.new E.G) [] = some (g', out, true) :=
  take_totalG P.all hclosed hstart fuel hfuel

/-! ### bucket search -/

structure BucketHyp (E : Env S Unit Bucket) (rank : NT S Unit → Nat) (size : Nat) : Prop where
  ops : E.ops = bucketOps size
  init : InitHyp E rank
  keys : (AList.keys E.G.rules).Nodup
  wtotal : WTotal E
  nodrop : E.dropDeleted = false

theorem BucketHyp.all {E : Env S Unit Bucket} {rank} {size : Nat} (B : BucketHyp E rank size) :
    AllHyp E rank (fun b => b.length = size) := by
  have M := monoOps_bucket E size B.ops
  have w : Heapq.WeakOrderOn (fun b : Bucket => b.length = size) E.ops.lt := by
    rw [B.ops]; exact bucket_weakOn size
  have hthr : E.ops.thr = none := by rw [B.ops]; rfl
  exact ⟨⟨law_of_monoOps M w (fun t h => by rw [hthr] at h; cases h) B.init.acyclic, B.wtotal, B.nodrop⟩,
    B.init, B.keys, Or.inl hthr⟩

theorem bucketHyp_of_checks (E : Env S Unit Bucket) (rank : NT S Unit → Nat) (size : Nat)
    (hops : E.ops = bucketOps size)
    (h2 : E.G.rules.all (fun e => e.2.all fun r => r.2.1.all fun a => decide (rank (argNT a) < rank e.1)) = true)
    (h3 : E.G.rules.all (fun e => decide ((AList.keys e.2).Nodup)) = true)
    (h4 : E.G.rules.all (fun e => !e.2.isEmpty) = true)
    (h5 : (AList.keys E.G.rules).Nodup)
    (h6 : E.G.rules.all (fun e => e.2.all fun r => (ruleW E e.1 r.1).isSome) = true)
    (h7 : E.dropDeleted = false) : BucketHyp E rank size :=
  { ops := hops
    init := ⟨rowsNodup_of_all E.G h3, acyclic_of_all E.G rank h2, nonempty_of_all E.G h4⟩
    keys := h5, wtotal := wtotal_of_allG E h6, nodrop := h7 }

/-- the bucket tuple of a program: the sum of the buckets of the rules of its derivation -/
def bucketOf (E : Env S Unit Bucket) (p : Prog) : Bucket := (prioSpec E p E.G.start).getD []

theorem bucket_pushOK {E : Env S Unit Bucket} {rank} {size} (B : BucketHyp E rank size) (v : Bucket) :
    pushOK E.ops v = true := by
  unfold pushOK; rw [B.ops]; rfl

/-- **bucket search with a filter, every fuel, every prefix**: the yielded programs are members,
    accepted, pairwise distinct and in non-decreasing order of bucket tuple (all of length `size`) -/
theorem bucket_safe {E : Env S Unit Bucket} {rank} {size : Nat} (B : BucketHyp E rank size) (fuel k : Nat)
    (g' : Gen S Unit Bucket) (out : List Prog) (b : Bool)
    (h : take E fuel k (Gen.new E.G) [] = some (g', out, b)) :
    (∀ p ∈ out, gen E.G p E.G.start = true) ∧ out.Nodup ∧ (∀ p ∈ out, E.filter p = true) ∧
    (∀ p ∈ out, (bucketOf E p).length = size) ∧
    out.Pairwise (fun p q => Bucket.lt (bucketOf E q) (bucketOf E p) = false) := by
  have hsound := (take_sound E B.init.rows fuel k _ _ _ _ _ (ginv_new E) (by intro q hq; cases hq) h).2
  obtain ⟨a, b', c⟩ := take_safe B.all fuel k g' out b h
  have hdef : ∀ x ∈ out, prioSpec E x E.G.start = some (bucketOf E x) := by
    intro x hx
    have := prioSpec_total E B.wtotal x _ (hsound x hx)
    unfold bucketOf
    cases hp : prioSpec E x E.G.start with
    | none => rw [hp] at this; cases this
    | some v => rfl
  refine ⟨hsound, a, b', fun p hp => B.all.run.law.good _ _ _ (hdef p hp), ?_⟩
  refine List.Pairwise.imp_of_mem (fun {x y} hx hy hxy => ?_) c
  have := hxy _ _ (hdef x hx) (hdef y hy)
  rw [B.ops] at this
  exact this

/-- **completeness of bucket search relative to the filter** once the generator has stopped -/
theorem bucket_stop_complete {E : Env S Unit Bucket} {rank} {size : Nat} (B : BucketHyp E rank size) (fuel k : Nat)
    (g' : Gen S Unit Bucket) (out : List Prog)
    (h : take E fuel k (Gen.new E.G) [] = some (g', out, true)) (p : Prog)
    (hg : gen E.G p E.G.start = true) (hcl : clean E.filter p = true) : p ∈ out := by
  have := prioSpec_total E B.wtotal p _ hg
  cases hp : prioSpec E p E.G.start with
  | none => rw [hp] at this; cases this
  | some v => exact take_stop_complete B.all fuel k g' out h p v hg hcl hp (bucket_pushOK B v)

/-- prefix completeness of bucket search -/
theorem bucket_prefix_complete {E : Env S Unit Bucket} {rank} {size : Nat} (B : BucketHyp E rank size) (fuel k : Nat)
    (g' : Gen S Unit Bucket) (out : List Prog) (b : Bool)
    (h : take E fuel k (Gen.new E.G) [] = some (g', out, b)) (p q : Prog) (hq : q ∈ out)
    (hg : gen E.G p E.G.start = true) (hcl : clean E.filter p = true)
    (hlt : Bucket.lt (bucketOf E p) (bucketOf E q) = true) : p ∈ out := by
  obtain ⟨hsound, _, _, _, _⟩ := bucket_safe B fuel k g' out b h
  have hdef : ∀ x, gen E.G x E.G.start = true → prioSpec E x E.G.start = some (bucketOf E x) := by
    intro x hx
    have := prioSpec_total E B.wtotal x _ hx
    unfold bucketOf
    cases hp : prioSpec E x E.G.start with
    | none => rw [hp] at this; cases this
    | some v => rfl
  exact take_prefix_complete B.all fuel k g' out b h p q _ _ hq hg hcl (hdef p hg) (bucket_pushOK B _)
    (hdef q (hsound q hq)) (by rw [B.ops]; exact hlt)

theorem bucket_total {E : Env S Unit Bucket} {rank} {size : Nat} (B : BucketHyp E rank size) (hclosed : Closed E.G)
    (hstart : E.G.start ∈ AList.keys E.G.rules) (fuel : Nat) (hfuel : enoughFuelF E.G rank ≤ fuel) :
    ∃ k g' out, take E fuel k (Gen.new E.G) [] = some (g', out, true) :=
  take_totalG B.all hclosed hstart fuel hfuel

end PS.HG
