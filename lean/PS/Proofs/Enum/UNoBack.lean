/- Heap search on unambiguous, acyclic grammars: a program taken out of the heap of a non-terminal never
   comes back (`__add_successors__` only pushes programs that are not in `hash_table_program`), so the pop
   loop skips every rejected program at most once. -/
import PS.Proofs.Enum.UOrder
namespace PS.UHS
open PS PS.G
set_option linter.unusedSectionVars false
variable {U π : Type} [DecidableEq U]

theorem pushStep_proc (E : Env U π) (hk : E.kway = true) {s s3 : St U π} {F args nt v i r}
    (hp : pushStep E s F args nt v i r = some s3) : (∀ q, Proc s nt q → Proc s3 nt q) ∧ s3.deleted = s.deleted := by
  unfold pushStep at hp
  cases r with
  | none => simp only [Option.some.injEq] at hp; subst hp; exact ⟨fun _ h => h, rfl⟩
  | some q =>
    simp only at hp
    split at hp
    · simp only [Option.some.injEq] at hp; subst hp; exact ⟨fun _ h => h, rfl⟩
    · rename_i hnew
      split at hp
      · simp at hp
      · rename_i s2' pr hcp
        simp only [Option.some.injEq] at hp; subst hp
        have hcs := computePrio_step E hcp
        have hnew' : Tree.node F (args.set i q) ∉ s.seenOf nt := by intro hm; apply hnew; simp [hm]
        refine ⟨?_, ?_⟩
        · intro q' hq'
          unfold Proc St.heapProgs at hq' ⊢
          unfold pushBoth
          split
          · refine ⟨?_, ?_⟩
            · show q' ∈ s2'.seenOf nt
              rw [hcs.seenOf]
              exact (mem_seenOf_addSeen s nt nt _ _).mpr (Or.inl hq'.1)
            · show q' ∉ List.map (·.2) ((s2'.setHeap nt _).heapOf nt)
              rw [St.heapOf_setHeap, if_pos rfl, hcs.heapOf]
              intro hin
              rcases List.mem_cons.mp (((Heapq.push_perm (ltE E.ops) _ _).map (·.2)).subset hin) with h1 | h1
              · have h1' : q' = Tree.node F (args.set i q) := h1
                exact hnew' (h1' ▸ hq'.1)
              · exact hq'.2 h1
          · refine ⟨?_, ?_⟩
            · rw [hcs.seenOf]
              exact (mem_seenOf_addSeen s nt nt _ _).mpr (Or.inl hq'.1)
            · rw [hcs.heapOf]; exact hq'.2
        · have : (pushBoth E s2' nt pr (Tree.node F (args.set i q))).deleted = s2'.deleted := by
            unfold pushBoth
            split
            · rfl
            · rfl
          rw [this]
          obtain ⟨c, rfl⟩ := hcs
          rfl

/-- `__add_successors_to_heap__` of `nt` keeps what was taken out of `heaps[nt]` out of it -/
theorem addLoop_proc (E : Env U π) (H : GHyp E) (rank : UNT U → Nat) (hac : Acyclic E rank) {F : Sym} {args : List Prog}
    {nt : UNT U} {v : List (UNT U)} {i : Nat} {s s' : St U π} {x : Res π}
    (hb : Big E (.addLoop F args nt v i) s s' x) (hi : SInv E s) (hko : KeyOK E nt F args v) :
    ∀ q, Proc s nt q → Proc s' nt q := by
  have hk := H.kway
  generalize hc : Call.addLoop F args nt v i = c at hb
  induction hb generalizing i with
  | loop_done => exact fun _ h => h
  | @loop_step s s1 s3 s' F' args' nt' v' i' ai si r x hai hsi hq hp hb ihq ihb =>
    cases hc
    obtain ⟨w, hw⟩ := hko.1
    have hrk : rank si < rank nt := hac nt F v w hw si (List.mem_of_getElem? hsi)
    obtain ⟨hi1, hpost⟩ := big_sound E H hq hi trivial
    have hstep : SInv E s3 := by
      apply hi1.pushStep H F args nt v i' r _ s3 hp
      intro q hq'
      exact ⟨hko.1, derList_set E args v i' q si hko.2 hsi (hpost q hq')⟩
    have f1 := big_frame E H rank hac hq hi trivial nt (Nat.le_of_lt hrk)
      (by intro e; cases e; exact Nat.lt_irrefl _ hrk)
    intro q hq0
    apply ihb hstep rfl
    apply (pushStep_proc E hk hp).1
    unfold Proc St.heapProgs at hq0 ⊢
    rw [f1.seen, f1.heap]
    exact hq0
  | _ => cases hc

theorem addSucc_proc (E : Env U π) (H : GHyp E) (rank : UNT U → Nat) (hac : Acyclic E rank) {prog : Prog}
    {nt : UNT U} {s s' : St U π} {x : Res π} (hb : Big E (.addSucc prog nt) s s' x) (hi : SInv E s) :
    ∀ q, Proc s nt q → Proc s' nt q := by
  cases hb with
  | succ_leaf => exact fun _ h => h
  | @succ_fun _ _ F a as _ v x hk' hb' =>
    exact addLoop_proc E H rank hac hb' hi (hi.keys_ok _ _ _ _ hk')

/-- the rejected programs that were not yet taken out of the heap of `nt` -/
def undone (s : St U π) (nt : UNT U) : Nat :=
  (s.deleted.filter (fun q => !((s.seenOf nt).contains q && !(s.heapProgs nt).contains q))).length

theorem undone_le (s : St U π) (nt : UNT U) : undone s nt ≤ s.deleted.length := List.length_filter_le _ _

theorem filter_length_lt {α : Type} (P P' : α → Bool) : ∀ (l : List α), (∀ q, q ∈ l → P' q = true → P q = true) →
    (∃ q0, q0 ∈ l ∧ P q0 = true ∧ P' q0 = false) → (l.filter P').length < (l.filter P).length
  | [], _, h => by obtain ⟨q0, h0, _⟩ := h; cases h0
  | a :: l, himp, h => by
    have hle : (l.filter P').length ≤ (l.filter P).length := by
      clear h
      induction l with
      | nil => simp
      | cons b l ih =>
        have hb := himp b (List.mem_cons_of_mem _ List.mem_cons_self)
        have := ih (fun q hq => himp q (by
          rcases List.mem_cons.mp hq with h1 | h1
          · exact h1 ▸ List.mem_cons_self
          · exact List.mem_cons_of_mem _ (List.mem_cons_of_mem _ h1)))
        simp only [List.filter_cons]
        cases hP' : P' b with
        | false => simp only [Bool.false_eq_true, if_false]; split <;> simp <;> omega
        | true => simp only [hb hP', if_true, List.length_cons]; omega
    obtain ⟨q0, h0, h1, h2⟩ := h
    simp only [List.filter_cons]
    rcases List.mem_cons.mp h0 with rfl | h0'
    · simp only [h1, h2, if_true, Bool.false_eq_true, if_false, List.length_cons]
      omega
    · have ih := filter_length_lt P P' l (fun q hq => himp q (List.mem_cons_of_mem _ hq)) ⟨q0, h0', h1, h2⟩
      cases hP' : P' a with
      | false => simp only [Bool.false_eq_true, if_false]; split <;> simp <;> omega
      | true => simp only [himp a List.mem_cons_self hP', if_true, List.length_cons]; omega

theorem undone_lt {s s' : St U π} {nt : UNT U} (hd : s'.deleted = s.deleted) (hp : ∀ q, Proc s nt q → Proc s' nt q)
    (q0 : Prog) (h0 : q0 ∈ s.deleted) (h1 : ¬ Proc s nt q0) (h2 : Proc s' nt q0) : undone s' nt < undone s nt := by
  unfold undone
  rw [hd]
  have hiff : ∀ (t : St U π) q, ((t.seenOf nt).contains q && !(t.heapProgs nt).contains q) = true ↔ Proc t nt q := by
    intro t q
    unfold Proc
    simp
  apply filter_length_lt
  · intro q _ hq
    cases hc : ((s.seenOf nt).contains q && !(s.heapProgs nt).contains q) with
    | false => rfl
    | true =>
      have := (hiff s' q).mpr (hp q ((hiff s q).mp hc))
      rw [this] at hq
      simp at hq
  · refine ⟨q0, h0, ?_, ?_⟩
    · cases hc : ((s.seenOf nt).contains q0 && !(s.heapProgs nt).contains q0) with
      | false => rfl
      | true => exact absurd ((hiff s q0).mp hc) h1
    · rw [(hiff s' q0).mpr h2]; rfl

end PS.UHS
