/- Heap search on unambiguous, acyclic grammars: COMPLETENESS at the generator level — when the
   generator stops, every start symbol is exhausted and everything it popped was yielded. -/
import PS.Proofs.Enum.UComplete
import PS.Proofs.Enum.UBridge
import PS.Proofs.Enum.GInst
namespace PS.UHS
open PS PS.G
set_option linter.unusedSectionVars false
variable {U π : Type} [DecidableEq U]
variable {E : Env U π} {rank : UNT U → Nat} {Good : π → Prop}

/-- the start symbol `nt` is exhausted and everything popped for it was taken by the generator -/
def Exh (s : St U π) (emE : List (π × Prog × UNT U)) (nt : UNT U) : Prop :=
  s.initS.contains nt = true ∧ s.heapOf nt = [] ∧ ∀ x, Popped s nt x → (x, nt) ∈ emE.map (·.2)

theorem Exh.keep {s s' : St U π} {emE emE' : List (π × Prog × UNT U)} {nt : UNT U} (h : Exh s emE nt)
    (hk : Kept s s' nt) (hsub : ∀ x, x ∈ emE → x ∈ emE') : Exh s' emE' nt := by
  obtain ⟨a, b, c⟩ := h
  obtain ⟨a', b', c'⟩ := hk a b
  refine ⟨a', b', ?_⟩
  intro x hx
  unfold Popped at hx
  rw [c'] at hx
  obtain ⟨y, hy, hye⟩ := List.mem_map.mp (c x hx)
  exact List.mem_map.mpr ⟨y, hsub y hy, hye⟩

/-- the start symbol answered `None` to the query for the successor of the last program taken from it -/
theorem exh_of_none {s : St U π} {emE : List (π × Prog × UNT U)} {nt : UNT U} (h : OG E rank s emE)
    (hc : s.initS.contains nt = true) (hh : s.heapOf nt = [])
    (hl : AList.lookup ((doneR (emE.map (·.2)) nt).head?) (s.succOf nt) = none) : Exh s emE nt := by
  refine ⟨hc, hh, ?_⟩
  have hn : NTInv E s nt := by
    rcases h.all nt with hu | hf
    · rw [hu.1] at hc; cases hc
    · exact hf.1
  have hC := h.ginv.chain nt
  intro x hx
  rw [← mem_doneR]
  revert x
  apply popped_induct hn
  · intro x hx
    cases hD : doneR (emE.map (·.2)) nt with
    | nil => rw [hD] at hl; simp only [List.head?_nil] at hl; rw [hx] at hl; cases hl
    | cons d ds =>
      obtain ⟨a, x0, hax⟩ := snoc_of_ne_nil (d :: ds) (by simp)
      rw [hD, hax] at hC
      have := chainR_split _ x0 [] a hC
      simp only [List.head?_nil] at this
      rw [hx] at this
      cases this
      rw [hax]; simp
  · intro y q hy hyq
    obtain ⟨a, b, hab⟩ := List.append_of_mem hy
    cases a with
    | nil =>
      rw [hab] at hl
      simp only [List.nil_append, List.head?_cons] at hl
      rw [hyq] at hl; cases hl
    | cons a0 a' =>
      obtain ⟨a'', z, haz⟩ := snoc_of_ne_nil (a0 :: a') (by simp)
      rw [hab, haz, List.append_assoc] at hC
      have := chainR_split _ z (y :: b) a'' (by simpa using hC)
      simp only [List.head?_cons] at this
      rw [hyq] at this
      cases this
      rw [hab, haz]; simp

/-- the invariant of the generator loop with the exhaustion of the start symbols that have no entry in the start heap -/
structure OC (E : Env U π) (rank : UNT U → Nat) (s : St U π) (emE : List (π × Prog × UNT U)) : Prop where
  og : OG E rank s emE
  exh : s.initS ≠ [] → ∀ nt w, startW E nt = some w → nt ∉ s.startHeap.map (·.2.2) → Exh s emE nt

theorem oc_pushNexts (R : RHyp E rank Good) {fuel : Nat} : ∀ (l : List (UNT U)) {s s' : St U π},
    OG E rank s [] → l.Nodup → (∀ nt, nt ∈ s.startHeap.map (·.2.2) → nt ∉ l) →
    (∀ nt, nt ∉ l → nt ∈ E.G.starts.map (·.1) → nt ∉ s.startHeap.map (·.2.2) → Exh s [] nt) →
    pushNexts E fuel l s = some s' →
    OG E rank s' [] ∧ (∀ nt, nt ∈ E.G.starts.map (·.1) → nt ∉ s'.startHeap.map (·.2.2) → Exh s' [] nt) ∧
      (l ≠ [] → s'.initS ≠ [])
  | [], s, s', h, _, _, hex, hp => by
    simp only [UHS.pushNexts, Option.some.injEq] at hp; subst hp
    exact ⟨h, fun nt hs hn => hex nt (by simp) hs hn, fun hne => absurd rfl hne⟩
  | nt :: rest, s, s', h, hnd, hdisj, hex, hp => by
    simp only [UHS.pushNexts] at hp
    split at hp
    · simp at hp
    · rename_i s1 h1
      obtain ⟨g1, hsub, hkept, hmono, hres, _⟩ := h.pushNext R (fun hm => hdisj nt hm List.mem_cons_self) (by simp [doneR])
        (by intro k hk; cases hk) (fun _ => rfl) (E.ops.ofRule 0) (by intro x hx; cases hx)
        (by intro k w pr hk; cases hk) h1
      have hinit1 : s1.initS ≠ [] := by
        rcases hres with hm | ⟨hc, _, _⟩
        · obtain ⟨e, he, _⟩ := List.mem_map.mp hm
          intro h0
          have := (g1.ginv.inited h0).1
          rw [this] at he; cases he
        · intro h0; rw [h0] at hc; cases hc
      obtain ⟨r1, r2, _⟩ := oc_pushNexts R rest g1 (List.nodup_cons.mp hnd).2 (by
          intro nt' hm
          obtain ⟨e, he, rfl⟩ := List.mem_map.mp hm
          rcases hsub e he with ho | ⟨hn, _⟩
          · intro hr
            exact hdisj _ (List.mem_map.mpr ⟨e, ho, rfl⟩) (List.mem_cons_of_mem _ hr)
          · rw [hn]; exact (List.nodup_cons.mp hnd).1) (by
          intro nt' hnr hs hnh
          by_cases hnn : nt' = nt
          · subst hnn
            rcases hres with hm | ⟨hc, hh, hl⟩
            · exact absurd hm hnh
            · exact exh_of_none g1 hc hh (by simpa [doneR] using hl)
          · have hnh0 : nt' ∉ s.startHeap.map (·.2.2) := by
              intro hm
              obtain ⟨e, he, hee⟩ := List.mem_map.mp hm
              exact hnh (List.mem_map.mpr ⟨e, hmono e he, hee⟩)
            exact (hex nt' (by simp [hnn, hnr]) hs hnh0).keep (hkept nt') (fun x hx => hx)) hp
      have hinit' : s'.initS ≠ [] := by
        intro h0
        obtain ⟨x, hx⟩ := List.exists_mem_of_ne_nil _ hinit1
        have := pushNexts_initS R rest hp x hx
        rw [h0] at this; cases this
      exact ⟨r1, r2, fun _ => hinit'⟩
where
  pushNexts_initS (R : RHyp E rank Good) {fuel : Nat} : ∀ (l : List (UNT U)) {s s' : St U π},
      pushNexts E fuel l s = some s' → ∀ x, x ∈ s.initS → x ∈ s'.initS
    | [], s, s', hp, x, hx => by simp only [UHS.pushNexts, Option.some.injEq] at hp; subst hp; exact hx
    | nt :: rest, s, s', hp, x, hx => by
      simp only [UHS.pushNexts] at hp
      split at hp
      · simp at hp
      · rename_i s1 h1
        apply pushNexts_initS R rest hp
        have hk := R.ohyp.ghyp.kway
        unfold UHS.pushNext at h1
        split at h1
        · simp at h1
        · rename_i s2 hq
          simp only [Option.some.injEq] at h1; subst h1
          exact big_initS E hk (big_of_query E hq) x hx
        · rename_i s2 q hq
          split at h1
          · rename_i s3 pr w hcp hw
            simp only [Option.some.injEq] at h1; subst h1
            obtain ⟨c, rfl⟩ := computePrio_step E hcp
            exact big_initS E hk (big_of_query E hq) x hx
          · simp at h1

theorem pushNext_initS (R : RHyp E rank Good) {fuel : Nat} {s s1 : St U π} {nt : UNT U} {p : Option Prog}
    (h1 : UHS.pushNext E fuel s nt p = some s1) : ∀ x, x ∈ s.initS → x ∈ s1.initS := by
  intro x hx
  have hk := R.ohyp.ghyp.kway
  unfold UHS.pushNext at h1
  split at h1
  · simp at h1
  · rename_i s2 hq
    simp only [Option.some.injEq] at h1; subst h1
    exact big_initS E hk (big_of_query E hq) x hx
  · rename_i s2 q hq
    split at h1
    · rename_i s3 pr w hcp hw
      simp only [Option.some.injEq] at h1; subst h1
      obtain ⟨c, rfl⟩ := computePrio_step E hcp
      exact big_initS E hk (big_of_query E hq) x hx
    · simp at h1

theorem kwayLoop_initS (R : RHyp E rank Good) {fuel : Nat} : ∀ (k : Nat) {s s' : St U π} {r : Option Prog},
    UHS.kwayLoop E fuel k s = some (s', r) → ∀ x, x ∈ s.initS → x ∈ s'.initS
  | 0, s, s', r, hp, _, _ => by simp [UHS.kwayLoop] at hp
  | k + 1, s, s', r, hp, x, hx => by
    simp only [UHS.kwayLoop] at hp
    split at hp
    · simp only [Option.some.injEq, Prod.mk.injEq] at hp
      obtain ⟨rfl, rfl⟩ := hp
      exact hx
    · split at hp
      · simp at hp
      · rename_i s1 hpn
        have hx1 := pushNext_initS R hpn x hx
        split at hp
        · exact kwayLoop_initS R k hp x hx1
        · simp only [Option.some.injEq, Prod.mk.injEq] at hp
          obtain ⟨rfl, rfl⟩ := hp
          exact hx1

/-- one iteration of the start loop, with the exhaustion bookkeeping -/
theorem OC.kwayLoop (R : RHyp E rank Good) {fuel : Nat} : ∀ (k : Nat) {s s' : St U π} {emE : List (π × Prog × UNT U)}
    {r : Option Prog}, OC E rank s emE → kwayLoop E fuel k s = some (s', r) →
    (r = none ∧ OC E rank s' emE ∧ s'.startHeap = []) ∨ (∃ e, r = some e.2.1 ∧ OC E rank s' (e :: emE))
  | 0, s, s', emE, r, _, hp => by simp [UHS.kwayLoop] at hp
  | k + 1, s, s', emE, r, hc, hp => by
    have H := R.ohyp
    have h := hc.og
    simp only [UHS.kwayLoop] at hp
    split at hp
    · rename_i hpop
      simp only [Option.some.injEq, Prod.mk.injEq] at hp
      obtain ⟨rfl, rfl⟩ := hp
      exact Or.inl ⟨rfl, hc, (Heapq.pop_none_iff _ _).mp hpop⟩
    · rename_i e h' hpop
      obtain ⟨pa, q, nt⟩ := e
      have hperm := Heapq.pop_perm _ _ _ _ hpop
      obtain ⟨h0, hnt0, hpq, hm, hqdel⟩ := h.popStart R hpop
      split at hp
      · simp at hp
      · rename_i s1 hpn
        obtain ⟨g1, _, hkept, hmono, hres, hdl⟩ := h0.pushNext R hnt0 (by simp [doneR_cons_self])
          (by intro k hk; cases hk; exact hpq) (by intro hk; cases hk) pa
          (by
            intro x hx
            rcases List.mem_cons.mp hx with rfl | hx
            · exact H.weak.irrefl (start_good R h.base.sinv _ hm)
            · exact h.heap_ge _ hm x hx)
          (by
            intro k w pr hk hw hpr
            cases hk
            obtain ⟨w', pr', hw', hpr', he⟩ := h.base.sinv.start_ok _ hm
            simp only at hw' hpr' he
            rw [hw] at hw'
            cases hw'
            rw [hasPrio_fun H _ _ _ _ hpr hpr']
            exact he) hpn
        have hnd : s1.deleted.contains q = false := by
          rw [hdl]
          cases hcq : s.deleted.contains q with
          | false => rfl
          | true => exact absurd (by simpa using hcq) hqdel
        simp only [hnd, Bool.false_eq_true, if_false, Option.some.injEq, Prod.mk.injEq] at hp
        obtain ⟨rfl, rfl⟩ := hp
        refine Or.inr ⟨(pa, q, nt), rfl, g1, ?_⟩
        intro _ nt' w' hw' hnh
        have hinit0 : s.initS ≠ [] := by
          intro h0'
          have := (h.ginv.inited h0').1
          rw [this] at hm; cases hm
        by_cases hnn : nt' = nt
        · subst hnn
          rcases hres with hm' | ⟨hc', hh, hl⟩
          · exact absurd hm' hnh
          · exact exh_of_none g1 hc' hh (by simpa [doneR_cons_self] using hl)
        · have hnh0 : nt' ∉ s.startHeap.map (·.2.2) := by
            intro hm'
            obtain ⟨e, he, hee⟩ := List.mem_map.mp hm'
            rcases List.mem_cons.mp (hperm.subset he) with rfl | he'
            · exact hnn hee.symm
            · exact hnh (List.mem_map.mpr ⟨e, hmono e he', hee⟩)
          have hk0 : Kept s { s with startHeap := h' } nt' := Kept.of_same ⟨rfl, rfl, rfl, rfl, rfl, fun _ => rfl, fun _ _ => rfl⟩
          exact (hc.exh hinit0 nt' w' hw' hnh0).keep (hk0.trans (hkept nt')) (fun x hx => List.mem_cons_of_mem _ hx)

theorem oc_empty (E : Env U π) : OC E rank (St.empty E.G) [] :=
  ⟨og_empty E, fun h => absurd rfl h⟩

theorem OC.startQuery (R : RHyp E rank Good) {fuel : Nat} {s s' : St U π} {emE : List (π × Prog × UNT U)}
    {r : Option Prog} (h : OC E rank s emE) (hp : startQuery E fuel s = some (s', r)) :
    (r = none ∧ OC E rank s' emE ∧ s'.startHeap = [] ∧ (E.G.starts ≠ [] → s'.initS ≠ [])) ∨
      (∃ e, r = some e.2.1 ∧ OC E rank s' (e :: emE)) := by
  unfold UHS.startQuery at hp
  simp only [R.ohyp.ghyp.kway, if_true] at hp
  split at hp
  · simp at hp
  · rename_i s1 h1
    split at h1
    · rename_i hi0
      have hi0' : s.initS = [] := by simpa using hi0
      obtain ⟨hs0, he0⟩ := h.og.ginv.inited hi0'
      have he0' : emE = [] := by simpa using he0
      subst he0'
      obtain ⟨g1, hex1, hin1⟩ := oc_pushNexts R _ h.og R.starts_nodup (by rw [hs0]; intro nt hm; cases hm)
        (by intro nt hn hs _; exact absurd hs hn) h1
      have hc1 : OC E rank s1 [] :=
        ⟨g1, fun _ nt w hw hn => hex1 nt ((startW_some_iff E nt).mp ⟨w, hw⟩) hn⟩
      rcases hc1.kwayLoop R fuel hp with ⟨a, b, c⟩ | hr
      · refine Or.inl ⟨a, b, c, ?_⟩
        intro hne
        have hin := hin1 (by simpa using hne)
        intro h0
        obtain ⟨x, hx⟩ := List.exists_mem_of_ne_nil _ hin
        have := kwayLoop_initS R fuel hp x hx
        rw [h0] at this; cases this
      · exact Or.inr hr
    · rename_i hi0
      simp only [Option.some.injEq] at h1; subst h1
      have hi0' : s.initS ≠ [] := by simpa using hi0
      rcases h.kwayLoop R fuel hp with ⟨a, b, c⟩ | hr
      · refine Or.inl ⟨a, b, c, ?_⟩
        intro _ h0
        obtain ⟨x, hx⟩ := List.exists_mem_of_ne_nil _ hi0'
        have := kwayLoop_initS R fuel hp x hx
        rw [h0] at this; cases this
      · exact Or.inr hr

theorem OC.addDeleted (R : RHyp E rank Good) {s : St U π} {emE : List (π × Prog × UNT U)} {e : π × Prog × UNT U}
    (h : OC E rank s (e :: emE)) (hf : E.filter e.2.1 = false) : OC E rank (s.addDeleted e.2.1) (e :: emE) := by
  refine ⟨h.og.addDeleted R hf, ?_⟩
  have hsame : ∀ nt, Same s (s.addDeleted e.2.1) nt := by
    intro nt
    unfold St.addDeleted
    split
    · exact Same.refl _ _
    · exact ⟨rfl, rfl, rfl, rfl, rfl, fun _ => rfl, fun _ _ => rfl⟩
  have hinit : (s.addDeleted e.2.1).initS = s.initS := by
    unfold St.addDeleted; split <;> rfl
  have hsh : (s.addDeleted e.2.1).startHeap = s.startHeap := by
    unfold St.addDeleted; split <;> rfl
  intro hi nt w hw hn
  rw [hinit] at hi
  rw [hsh] at hn
  exact (h.exh hi nt w hw hn).keep (Kept.of_same (hsame nt)) (fun x hx => hx)

theorem OC.next (R : RHyp E rank Good) {fuel : Nat} : ∀ (k : Nat) {s s' : St U π} {emE : List (π × Prog × UNT U)}
    {r : Option Prog}, OC E rank s emE → next E fuel k s = some (s', r) →
    ∃ new, RejAll E new ∧ ((r = none ∧ OC E rank s' (new ++ emE) ∧ s'.startHeap = [] ∧ (E.G.starts ≠ [] → s'.initS ≠ [])) ∨
      (∃ e, r = some e.2.1 ∧ E.filter e.2.1 = true ∧ OC E rank s' (e :: (new ++ emE))))
  | 0, s, s', emE, r, _, hp => by simp [UHS.next] at hp
  | k + 1, s, s', emE, r, h, hp => by
    simp only [UHS.next] at hp
    split at hp
    · simp at hp
    · rename_i s1 hq
      simp only [Option.some.injEq, Prod.mk.injEq] at hp
      obtain ⟨rfl, rfl⟩ := hp
      rcases h.startQuery R hq with ⟨_, g, c, d⟩ | ⟨e, he, _⟩
      · exact ⟨[], (by intro x hx; cases hx), Or.inl ⟨rfl, g, c, d⟩⟩
      · cases he
    · rename_i s1 p hq
      rcases h.startQuery R hq with ⟨he, _⟩ | ⟨e, he, g⟩
      · cases he
      · cases he
        split at hp
        · rename_i hf
          simp only [Option.some.injEq, Prod.mk.injEq] at hp
          obtain ⟨rfl, rfl⟩ := hp
          exact ⟨[], (by intro x hx; cases hx), Or.inr ⟨e, rfl, hf, g⟩⟩
        · rename_i hf
          have hf' : E.filter e.2.1 = false := by simpa using hf
          obtain ⟨new, hnew, hres⟩ := OC.next R k (g.addDeleted R hf') hp
          refine ⟨new ++ [e], ?_, ?_⟩
          · intro x hx
            rcases List.mem_append.mp hx with h1 | h1
            · exact hnew x h1
            · simp only [List.mem_singleton] at h1; subst h1; exact hf'
          · simpa [List.append_assoc] using hres

theorem OC.take (R : RHyp E rank Good) {fuel : Nat} : ∀ (k : Nat) {s s' : St U π} {emE : List (π × Prog × UNT U)}
    {acc out : List Prog} {b : Bool}, OC E rank s emE → acc = accepted E emE →
    take E fuel k s acc = some (s', out, b) → ∃ emE', OC E rank s' emE' ∧ out = accepted E emE' ∧
      (b = true → s'.startHeap = [] ∧ (E.G.starts ≠ [] → s'.initS ≠ []))
  | 0, s, s', emE, acc, out, b, h, hacc, hp => by
    simp only [UHS.take, Option.some.injEq, Prod.mk.injEq] at hp
    obtain ⟨rfl, rfl, rfl⟩ := hp
    exact ⟨emE, h, hacc, by intro hb; cases hb⟩
  | k + 1, s, s', emE, acc, out, b, h, hacc, hp => by
    simp only [UHS.take] at hp
    split at hp
    · simp at hp
    · rename_i s1 hn
      simp only [Option.some.injEq, Prod.mk.injEq] at hp
      obtain ⟨rfl, rfl, _⟩ := hp
      obtain ⟨new, hnew, hres⟩ := h.next R fuel hn
      rcases hres with ⟨_, g, c, d⟩ | ⟨e, he, _, _⟩
      · exact ⟨new ++ emE, g, by rw [accepted_rej E new emE hnew]; exact hacc, fun _ => ⟨c, d⟩⟩
      · cases he
    · rename_i s1 p hn
      obtain ⟨new, hnew, hres⟩ := h.next R fuel hn
      rcases hres with ⟨he, _⟩ | ⟨e, he, hf, g⟩
      · cases he
      · cases he
        refine OC.take R k g ?_ hp
        unfold accepted
        simp only [List.filter_cons, hf, if_true, List.map_cons, List.reverse_cons]
        have := accepted_rej E new emE hnew
        unfold accepted at this
        rw [this, hacc]
        rfl

/-- **COMPLETENESS when the generator stops** (with or without filter): every program derivable from a
    start symbol all of whose sub-programs are accepted by the filter was yielded -/
theorem take_complete (R : RHyp E rank Good) (fuel k : Nat) (s' : St U π) (out : List Prog)
    (h : take E fuel k (St.empty E.G) [] = some (s', out, true)) (p : Prog) (nt : UNT U) (w : Rat)
    (hw : startW E nt = some w) (hd : Der E p nt) (hcl : PS.HG.clean E.filter p = true) : p ∈ out := by
  obtain ⟨emE, hc, hout, hstop⟩ := (oc_empty E).take R k rfl h
  obtain ⟨hsh, hin⟩ := hstop rfl
  have hstarts : E.G.starts ≠ [] := by
    intro h0
    unfold startW at hw
    rw [h0] at hw; cases hw
  have hex := hc.exh (hin hstarts) nt w hw (by rw [hsh]; simp)
  have hfull : Full E rank s' nt := by
    rcases hc.og.all nt with hu | hf
    · have := hex.1; rw [hu.1] at this; cases this
    · exact hf
  have hp := exhausted_complete R.ohyp hc.og.base hc.og.all (rank nt) nt rfl hfull hex.2.1 p hd hcl
  obtain ⟨x, hx, hxe⟩ := List.mem_map.mp (hex.2.2 p hp)
  rw [hout]
  unfold accepted
  rw [List.mem_reverse]
  refine List.mem_map.mpr ⟨x, List.mem_filter.mpr ⟨hx, ?_⟩, by rw [hxe]⟩
  have : x.2.1 = p := by rw [hxe]
  rw [this]
  exact PS.HG.clean_self E.filter p hcl

end PS.UHS
