/- Heap search on unambiguous, acyclic grammars, termination at the generator level: `next` returns, and
   the generator stops after finitely many steps (the yielded programs are distinct members of a finite
   language). -/
import PS.Proofs.Enum.UTotal4
namespace PS.UHS
open PS PS.G
set_option linter.unusedSectionVars false
variable {U π : Type} [DecidableEq U]
variable {E : Env U π} {rank : UNT U → Nat} {Good : π → Prop}

/-! ### a finite list containing the language -/

def prodLists : List (List Prog) → List (List Prog)
  | [] => [[]]
  | xs :: rest => xs.flatMap (fun x => (prodLists rest).map (fun t => x :: t))

theorem mem_prodLists : ∀ (xss : List (List Prog)) (t : List Prog), t.length = xss.length →
    (∀ (j : Nat) (x : Prog) (xs : List Prog), t[j]? = some x → xss[j]? = some xs → x ∈ xs) → t ∈ prodLists xss
  | [], [], _, _ => by simp [prodLists]
  | [], _ :: _, h, _ => by simp at h
  | _ :: _, [], h, _ => by simp at h
  | xs :: rest, x :: t, h, hp => by
    simp only [prodLists, List.mem_flatMap, List.mem_map]
    exact ⟨x, hp 0 x xs rfl rfl, t, mem_prodLists rest t (by simpa using h) (fun j y ys h1 h2 => hp (j + 1) y ys h1 h2), rfl⟩

/-- the programs derivable from `nt` within `k` levels (with repetitions) -/
def langL (E : Env U π) : Nat → UNT U → List Prog
  | 0, _ => []
  | k + 1, nt =>
    match AList.lookup nt E.G.rules with
    | none => []
    | some rs => rs.flatMap (fun r => r.2.flatMap (fun vw => (prodLists (vw.1.map (langL E k))).map (Tree.node r.1)))

theorem mem_langL (hac : Acyclic E rank) : ∀ (k : Nat) (p : Prog) (nt : UNT U), rank nt < k → Der E p nt → p ∈ langL E k nt := by
  intro k
  induction k with
  | zero => intro p nt h; omega
  | succ k ih =>
    intro p nt hr hd
    obtain ⟨F, kids⟩ := p
    obtain ⟨v, w, hm, hdl⟩ := (der_node E F kids nt).mp hd
    have hm' := hm
    unfold altsOf at hm'
    cases hl : AList.lookup nt E.G.rules with
    | none => simp [hl] at hm'
    | some rs =>
      simp only [hl] at hm'
      cases hl2 : AList.lookup F rs with
      | none => simp [hl2] at hm'
      | some a =>
        simp only [hl2, Option.getD_some] at hm'
        simp only [langL, hl, List.mem_flatMap, List.mem_map]
        refine ⟨(F, a), AList.lookup_some_mem hl2, (v, w), hm', kids, ?_, rfl⟩
        apply mem_prodLists
        · simp [derList_length E _ _ hdl]
        · intro j x xs hx hxs
          rw [List.getElem?_map] at hxs
          cases hv : v[j]? with
          | none => simp [hv] at hxs
          | some sj =>
            simp only [hv, Option.map_some, Option.some.injEq] at hxs
            subst hxs
            have hrk := hac nt F v w hm sj (List.mem_of_getElem? hv)
            exact ih x sj (by omega) (derList_get E kids v j x sj hdl hx hv)

theorem nodup_length_le {α : Type} [DecidableEq α] : ∀ (l m : List α), l.Nodup → (∀ x, x ∈ l → x ∈ m) → l.length ≤ m.length
  | [], _, _, _ => Nat.zero_le _
  | a :: l, m, hnd, hsub => by
    have ha : a ∈ m := hsub a List.mem_cons_self
    have hnd' := List.nodup_cons.mp hnd
    have := nodup_length_le l (m.erase a) hnd'.2 (by
      intro x hx
      have hxm := hsub x (List.mem_cons_of_mem _ hx)
      have hne : x ≠ a := by intro e; subst e; exact hnd'.1 hx
      exact (List.mem_erase_of_ne hne).mpr hxm)
    rw [List.length_erase_of_mem ha] at this
    have hpos : 0 < m.length := List.length_pos_of_mem ha
    simp only [List.length_cons]
    omega

/-! ### `next` returns -/

/-- the invariant of the generator loop for the termination argument -/
structure OT (E : Env U π) (rank : UNT U → Nat) (s : St U π) (emE : List (π × Prog × UNT U)) : Prop where
  oc : OC E rank s emE
  cache : CacheC s

/-- a finite list containing every member of the grammar -/
def langList (E : Env U π) (rank : UNT U → Nat) : List Prog :=
  E.G.starts.flatMap (fun st => langL E (rank st.1 + 1) st.1)

/-- the programs handed over by the start heap are distinct members: at most `|langList|` of them -/
theorem em_length_le (R : RHyp E rank Good) {s : St U π} {emE : List (π × Prog × UNT U)} (h : OG E rank s emE) :
    emE.length ≤ (langList E rank).length := by
  have hnd : (emE.map (·.2.1)).Nodup := by
    have := h.ginv.em_nodup
    rw [List.map_map] at this
    exact this
  have hsub : ∀ p, p ∈ emE.map (·.2.1) → p ∈ langList E rank := by
    intro p hp
    obtain ⟨x, hx, hxe⟩ := List.mem_map.mp hp
    obtain ⟨hd, w, hw⟩ := h.ginv.em_der (x.2.1, x.2.2) (List.mem_map.mpr ⟨x, hx, rfl⟩)
    simp only at hd hw
    rw [← hxe]
    exact List.mem_flatMap.mpr ⟨(x.2.2, w), AList.lookup_some_mem hw,
      mem_langL R.ohyp.acyclic _ _ _ (Nat.lt_succ_self _) hd⟩
  have := nodup_length_le _ _ hnd hsub
  simpa using this

theorem deleted_length_le (R : RHyp E rank Good) {s : St U π} {emE : List (π × Prog × UNT U)} (h : OG E rank s emE) :
    s.deleted.length ≤ (langList E rank).length := by
  have h1 := nodup_length_le s.deleted (emE.map (·.2.1)) h.del_nodup h.del_em
  have h2 := em_length_le R h
  simp only [List.length_map] at h1
  omega

theorem pushNext_total (R : RHyp E rank Good) {L Al A : Nat} (T : THyp E L Al A) {fuel : Nat}
    {s : St U π} {emE : List (π × Prog × UNT U)} {nt : UNT U} {p : Option Prog} {w : Rat} (h : OG E rank s emE) (hc : CacheC s)
    (hw : startW E nt = some w) (hfuel : (rank nt + 1) * (L + Al + A + 6 + (langList E rank).length) ≤ fuel)
    (hpp : ∀ k, p = some k → Popped s nt k) (hpn : p = none → emE = []) :
    ∃ s', pushNext E fuel s nt p = some s' ∧ CacheC s' := by
  have H := R.ohyp
  have hk := H.ghyp.kway
  have hopre : OPre E rank (.query nt p) s := by
    refine ⟨h.all.below _, ?_, hpp, ?_⟩
    · rcases h.all nt with hu | hf
      · exact Or.inl hu
      · exact Or.inr ⟨hf.1, hf.2.2⟩
    · intro hs0
      cases p with
      | some k0 =>
        obtain ⟨k', hk'⟩ := hpp k0 rfl
        rw [hs0] at hk'; cases hk'
      | none =>
        have he := hpn rfl
        apply List.eq_nil_iff_forall_not_mem.mpr
        intro q hq
        have := h.del_em q hq
        rw [he] at this
        cases this
  obtain ⟨⟨s1, r⟩, hq⟩ := (low_all H T (langList E rank).length (rank nt + 1)).query nt (Nat.lt_succ_self _)
    (T.starts_closed nt w hw) fuel s p hfuel h.base hc (deleted_length_le R h) hopre
  have hb := big_of_query E hq
  have hc1 := (big_cacheC E hk hb hc).1
  unfold pushNext
  simp only [hq]
  cases r with
  | none => exact ⟨s1, rfl, hc1⟩
  | some q =>
    simp only
    obtain ⟨hbase1, _, _, _, hspost, _⟩ := big_all H hb h.base trivial trivial
    obtain ⟨_, a2, _, _⟩ := big_order H hb h.base trivial trivial hopre
    have hd : Der E q nt := hspost q rfl
    have hqp : Popped s1 nt q := by
      obtain ⟨_, _, npost⟩ := big_nodup E H.ghyp hb h.base.sinv trivial h.base.ninv trivial
      exact ⟨p, npost q rfl⟩
    have hseen := hqp.seen hbase1.sinv
    obtain ⟨F, kids⟩ := q
    obtain ⟨v, hv⟩ := a2.2.2.keyed _ hseen
    have hko := hbase1.sinv.keys_ok nt F kids v hv
    obtain ⟨⟨s2, pr⟩, hcp⟩ := computePrio_total H s1 nt F kids v hko hv (by
      intro i ai si hai hsi
      exact hc1 si ai ((a2.1.args F kids v hseen hv i ai si hai hsi).seen hbase1.sinv))
    simp only [hcp, hw]
    refine ⟨_, rfl, ?_⟩
    obtain ⟨_, hg⟩ := computePrio_cache E hcp
    have hcs := computePrio_step E hcp
    exact hc1.congr (fun nt' => by show s2.seenOf nt' = _; rw [hcs.seenOf]) hg

theorem pushNexts_total (R : RHyp E rank Good) {L Al A : Nat} (T : THyp E L Al A) {fuel : Nat} :
    ∀ (l : List (UNT U)) (s : St U π), OG E rank s [] → CacheC s → l.Nodup → (∀ nt, nt ∈ s.startHeap.map (·.2.2) → nt ∉ l) →
      (∀ nt, nt ∈ l → ∃ w, startW E nt = some w) →
      (∀ nt, nt ∈ l → (rank nt + 1) * (L + Al + A + 6 + (langList E rank).length) ≤ fuel) →
      ∃ s', pushNexts E fuel l s = some s' ∧ CacheC s'
  | [], s, _, hc, _, _, _, _ => ⟨s, rfl, hc⟩
  | nt :: rest, s, h, hc, hnd, hdisj, hst, hfuel => by
    obtain ⟨w, hw⟩ := hst nt List.mem_cons_self
    obtain ⟨s1, h1, hc1⟩ := pushNext_total R T (p := none) h hc hw (hfuel nt List.mem_cons_self) (by intro k hk; cases hk)
      (fun _ => rfl)
    obtain ⟨g1, hsub, _, _, _, _⟩ := h.pushNext R (fun hm => hdisj nt hm List.mem_cons_self) (by simp [doneR])
      (by intro k hk; cases hk) (fun _ => rfl) (E.ops.ofRule 0) (by intro x hx; cases hx)
      (by intro k w pr hk; cases hk) h1
    obtain ⟨s', hs', hc'⟩ := pushNexts_total R T rest s1 g1 hc1 (List.nodup_cons.mp hnd).2 (by
        intro nt' hm
        obtain ⟨e, he, rfl⟩ := List.mem_map.mp hm
        rcases hsub e he with ho | ⟨hn, _⟩
        · intro hr
          exact hdisj _ (List.mem_map.mpr ⟨e, ho, rfl⟩) (List.mem_cons_of_mem _ hr)
        · rw [hn]; exact (List.nodup_cons.mp hnd).1)
      (fun nt' hn => hst nt' (List.mem_cons_of_mem _ hn)) (fun nt' hn => hfuel nt' (List.mem_cons_of_mem _ hn))
    exact ⟨s', by simp only [pushNexts, h1]; exact hs', hc'⟩

/-- the fuel is enough for every start symbol; `C` = rows + alternatives + arity + 6 + (number of programs a
    filter can reject) -/
def FuelOK (E : Env U π) (rank : UNT U → Nat) (C fuel : Nat) : Prop :=
  1 ≤ fuel ∧ ∀ nt w, startW E nt = some w → (rank nt + 1) * C ≤ fuel

theorem kwayLoop_total (R : RHyp E rank Good) {L Al A : Nat} (T : THyp E L Al A) {fuel : Nat}
    (hf : FuelOK E rank (L + Al + A + 6 + (langList E rank).length) fuel) (k : Nat) {s : St U π}
    {emE : List (π × Prog × UNT U)} (hc : OC E rank s emE) (hcc : CacheC s) :
    ∃ res, kwayLoop E fuel (k + 1) s = some res ∧ CacheC res.1 := by
  have H := R.ohyp
  have h := hc.og
  simp only [UHS.kwayLoop]
  cases hpop : Heapq.pop (ltS E.ops) s.startHeap with
  | none => exact ⟨_, rfl, hcc⟩
  | some eh =>
    obtain ⟨⟨pa, q, nt⟩, h'⟩ := eh
    simp only
    obtain ⟨h0, hnt0, hpq, hm, hqdel⟩ := h.popStart R hpop
    obtain ⟨w, pr, hw, hpr, hpa⟩ := h.base.sinv.start_ok _ hm
    simp only at hw hpr hpa
    have hcc0 : CacheC { s with startHeap := h' } := hcc.congr (fun _ => rfl) (CacheGrow.refl _)
    obtain ⟨s1, hpn, hc1⟩ := pushNext_total R T (p := some q) h0 hcc0 hw (hf.2 nt w hw) (by intro k hk; cases hk; exact hpq)
      (by intro hk; cases hk)
    obtain ⟨g1, _, _, _, _, hdl⟩ := h0.pushNext R hnt0 (by simp [doneR_cons_self])
      (by intro k hk; cases hk; exact hpq) (by intro hk; cases hk) pa
      (by
        intro x hx
        rcases List.mem_cons.mp hx with rfl | hx
        · exact H.weak.irrefl (start_good R h.base.sinv _ hm)
        · exact h.heap_ge _ hm x hx)
      (by
        intro k w' pr' hk hw' hpr'
        cases hk
        rw [hw] at hw'
        cases hw'
        rw [hasPrio_fun H _ _ _ _ hpr' hpr]
        exact hpa) hpn
    have hnd : s1.deleted.contains q = false := by
      rw [hdl]
      cases hcq : s.deleted.contains q with
      | false => rfl
      | true => exact absurd (by simpa using hcq) hqdel
    simp only [hpn, hnd, Bool.false_eq_true, if_false]
    exact ⟨_, rfl, hc1⟩

theorem startQuery_total (R : RHyp E rank Good) {L Al A : Nat} (T : THyp E L Al A) {fuel : Nat}
    (hf : FuelOK E rank (L + Al + A + 6 + (langList E rank).length) fuel) {s : St U π} {emE : List (π × Prog × UNT U)}
    (hc : OC E rank s emE) (hcc : CacheC s) : ∃ res, startQuery E fuel s = some res ∧ CacheC res.1 := by
  unfold UHS.startQuery
  simp only [R.ohyp.ghyp.kway, if_true]
  obtain ⟨f', hf'⟩ : ∃ f', fuel = f' + 1 := ⟨fuel - 1, by have := hf.1; omega⟩
  by_cases hi0 : s.initS.isEmpty = true
  · simp only [hi0, if_true]
    have hi0' : s.initS = [] := by simpa using hi0
    obtain ⟨hs0, he0⟩ := hc.og.ginv.inited hi0'
    have he0' : emE = [] := by simpa using he0
    subst he0'
    obtain ⟨s1, h1, hc1⟩ := pushNexts_total R T (E.G.starts.map (·.1)) s hc.og hcc R.starts_nodup
      (by rw [hs0]; intro nt hm; cases hm) (fun nt hn => (startW_some_iff E nt).mpr hn)
      (fun nt hn => by obtain ⟨w, hw⟩ := (startW_some_iff E nt).mpr hn; exact hf.2 nt w hw)
    simp only [h1]
    obtain ⟨g1, hex1, _⟩ := oc_pushNexts R _ hc.og R.starts_nodup (by rw [hs0]; intro nt hm; cases hm)
      (by intro nt hn hs _; exact absurd hs hn) h1
    have hoc1 : OC E rank s1 [] := ⟨g1, fun _ nt w hw hn => hex1 nt ((startW_some_iff E nt).mp ⟨w, hw⟩) hn⟩
    rw [hf']
    exact kwayLoop_total R T (hf' ▸ hf) f' hoc1 hc1
  · simp only [hi0, Bool.false_eq_true, if_false]
    rw [hf']
    exact kwayLoop_total R T (hf' ▸ hf) f' hc hcc

theorem cacheC_addDeleted {s : St U π} (h : CacheC s) (p : Prog) : CacheC (s.addDeleted p) := by
  unfold St.addDeleted
  split
  · exact h
  · exact h.congr (fun _ => rfl) (CacheGrow.refl _)

/-- **`next(generator)` returns**: a rejected program costs one step of the loop, and at most
    `|langList| − |taken so far|` programs can still be rejected -/
theorem next_total (R : RHyp E rank Good) {L Al A : Nat} (T : THyp E L Al A) {fuel : Nat}
    (hf : FuelOK E rank (L + Al + A + 6 + (langList E rank).length) fuel) : ∀ (k : Nat) {s : St U π}
    {emE : List (π × Prog × UNT U)}, (langList E rank).length - emE.length + 1 ≤ k → OC E rank s emE → CacheC s →
    ∃ res, next E fuel k s = some res ∧ CacheC res.1
  | 0, _, _, hk, _, _ => by omega
  | k + 1, s, emE, hk, hc, hcc => by
    obtain ⟨⟨s1, r⟩, hq, hc1⟩ := startQuery_total R T hf hc hcc
    simp only [UHS.next, hq]
    cases r with
    | none => exact ⟨_, rfl, hc1⟩
    | some p =>
      simp only
      rcases hc.startQuery R hq with ⟨he, _⟩ | ⟨e, he, g⟩
      · cases he
      · cases he
        by_cases hfp : E.filter e.2.1 = true
        · simp only [hfp, if_true]
          exact ⟨_, rfl, hc1⟩
        · simp only [hfp, Bool.false_eq_true, if_false]
          have hfp' : E.filter e.2.1 = false := by simpa using hfp
          have hlen := em_length_le R g.og
          simp only [List.length_cons] at hlen
          exact next_total R T hf k (by simp only [List.length_cons]; omega) (g.addDeleted R hfp')
            (cacheC_addDeleted hc1 _)

theorem take_total (R : RHyp E rank Good) {L Al A : Nat} (T : THyp E L Al A) {fuel : Nat}
    (hf : FuelOK E rank (L + Al + A + 6 + (langList E rank).length) fuel) (hN : (langList E rank).length + 1 ≤ fuel) :
    ∀ (k : Nat) {s : St U π} {emE : List (π × Prog × UNT U)} (acc : List Prog),
    OC E rank s emE → CacheC s → ∃ s' out b, take E fuel k s acc = some (s', out, b) ∧ (b = false → out.length = acc.length + k)
  | 0, s, _, acc, _, _ => ⟨s, acc, false, rfl, fun _ => rfl⟩
  | k + 1, s, emE, acc, hc, hcc => by
    obtain ⟨⟨s1, r⟩, hn, hc1⟩ := next_total R T hf fuel (by omega) hc hcc
    cases r with
    | none =>
      refine ⟨s1, acc, true, by simp only [UHS.take, hn], by intro hb; cases hb⟩
    | some p =>
      obtain ⟨new, _, hres⟩ := hc.next R fuel hn
      rcases hres with ⟨he, _⟩ | ⟨e, _, _, g⟩
      · cases he
      · obtain ⟨s', out, b, ht, hlen⟩ := take_total R T hf hN k (acc ++ [p]) g hc1
        refine ⟨s', out, b, by simp only [UHS.take, hn]; exact ht, ?_⟩
        intro hb
        rw [hlen hb]
        simp
        omega

/-- **the generator stops** (with or without filter): with enough fuel there is a number of `next` steps after
    which the generator has raised `StopIteration` -/
theorem take_stops (R : RHyp E rank Good) {L Al A : Nat} (T : THyp E L Al A) {fuel : Nat}
    (hf : FuelOK E rank (L + Al + A + 6 + (langList E rank).length) fuel) (hN : (langList E rank).length + 1 ≤ fuel) :
    ∃ k s' out, take E fuel k (St.empty E.G) [] = some (s', out, true) := by
  have hce : CacheC (St.empty E.G : St U π) := by
    intro nt p hp
    rcases (og_empty (rank := rank) E).all nt with hu | hf'
    · rw [hu.2.2.2] at hp; cases hp
    · have := hf'.1.init
      simp [St.empty] at this
  obtain ⟨s', out, b, ht, hlen⟩ := take_total R T hf hN ((langList E rank).length + 1) [] (oc_empty E) hce
  cases b with
  | true => exact ⟨_, s', out, ht⟩
  | false =>
    exfalso
    have hl := hlen rfl
    have hnd := (take_nodup E R.nhyp fuel _ s' out false ht).1
    have hsub : ∀ p, p ∈ out → p ∈ langList E rank := by
      intro p hp
      obtain ⟨nt, w, hw, hd⟩ := ((sinv_empty E).take R.ohyp.ghyp _ (by intro q hq; cases hq) ht).2 p hp
      exact List.mem_flatMap.mpr ⟨(nt, w), AList.lookup_some_mem hw, mem_langL R.ohyp.acyclic _ p nt (Nat.lt_succ_self _) hd⟩
    have := nodup_length_le out (langList E rank) hnd hsub
    simp at hl
    omega

end PS.UHS
