/- Every heap of the heap-search machine satisfies heapq's invariant in every reachable state
   (any grammar, any strict weak order of priorities, with or without filter). -/
import PS.Proofs.Enum.HeapInv
import PS.Proofs.Enum.HSNodupRun
namespace PS.HS
open PS PS.G
set_option linter.unusedSectionVars false
variable {S T π : Type} [DecidableEq S] [DecidableEq T]

theorem ltE_weakOrder (ops : Prio π) (w : Heapq.WeakOrder ops.lt) : Heapq.WeakOrder (ltE ops) :=
  ⟨fun a b h => w.asymm a.1 b.1 h, fun a b c h1 h2 => w.ntrans a.1 b.1 c.1 h1 h2⟩

/-- all heaps are valid -/
def HInv (E : Env S T π) (s : St S T π) : Prop := ∀ nt, Heapq.IsHeap (ltE E.ops) (s.heapOf nt)

theorem HInv.pushNew {E : Env S T π} (w : Heapq.WeakOrder E.ops.lt) {s : St S T π} (h : HInv E s)
    (nt : NT S T) (np : Prog) : HInv E (pushNew E s nt np) := by
  unfold HS.pushNew
  simp only
  split
  · exact h
  · split
    · intro nt'
      rw [St.heapOf_setHeap]
      split
      · rename_i heq; subst heq
        exact Heapq.push_isHeap (ltE_weakOrder E.ops w) _ _ (h nt')
      · exact h nt'
    · exact h

theorem HInv.pushStep {E : Env S T π} (w : Heapq.WeakOrder E.ops.lt) {s : St S T π} (h : HInv E s)
    (F : Sym) (args : List Prog) (nt : NT S T) (i : Nat) (r : Option Prog) :
    HInv E (pushStep E s F args nt i r) := by
  unfold HS.pushStep
  cases r with
  | none => exact h
  | some q =>
    simp only
    split
    · exact h
    · exact h.pushNew w nt _

theorem HInv.pop {E : Env S T π} (w : Heapq.WeakOrder E.ops.lt) {s : St S T π} (h : HInv E s)
    (nt : NT S T) (e : π × Prog) (h' : List (π × Prog))
    (hp : Heapq.pop (ltE E.ops) (s.heapOf nt) = some (e, h')) : HInv E (s.setHeap nt h') := by
  intro nt'
  rw [St.heapOf_setHeap]
  split
  · exact (Heapq.pop_isHeap (ltE_weakOrder E.ops w) _ _ _ (h nt) hp).1
  · exact h nt'

theorem big_heaps (E : Env S T π) (w : Heapq.WeakOrder E.ops.lt) {c : Call S T} {s s' : St S T π}
    {r : Option Prog} (hb : Big E c s s' r) : HInv E s → HInv E s' := by
  induction hb with
  | query_direct h hb ih => exact ih
  | query_first hp h h0 hb ih0 ih => intro hi; exact ih (ih0 hi)
  | lop_hit h => exact id
  | lop_miss h hb ih => exact ih
  | pop_empty h => exact id
  | pop_deleted h hd ha hb iha ihb => intro hi; exact ihb (iha (hi.pop w _ _ _ h))
  | pop_take h hd ha iha => intro hi; exact iha (hi.pop w _ _ _ h)
  | succ_leaf => exact id
  | succ_fun hd hr hb ih => exact ih
  | loop_done h => exact id
  | loop_step h hai hq hc hda hb ihq ihb => intro hi; exact ihb ((ihq hi).pushStep w _ _ _ _ _)
  | loop_last h hai hq hc ihq => intro hi; exact (ihq hi).pushStep w _ _ _ _ _

theorem FrameT.hinv {E : Env S T π} {s s' : St S T π} (f : FrameT s s') (h : HInv E s) : HInv E s' := by
  intro nt
  have : s'.heapOf nt = s.heapOf nt := by unfold St.heapOf; rw [f.1]
  rw [this]; exact h nt

theorem initHeapLoop_hinv (E : Env S T π) (w : Heapq.WeakOrder E.ops.lt) (nt : NT S T) :
    ∀ (Ps : List Sym) (s s' : St S T π), HInv E s → initHeapLoop E nt Ps s = some s' → HInv E s' := by
  intro Ps
  induction Ps with
  | nil =>
    intro s s' hs h
    simp only [initHeapLoop, Option.some.injEq] at h
    subst h; exact hs
  | cons P rest ih =>
    intro s s' hs h
    unfold initHeapLoop at h
    split at h
    · simp at h
    · rename_i prog hl
      split at h
      · simp at h
      · dsimp only at h
        split at h
        · simp at h
        · rename_i r hcp
          have heq : (if pushOK E.ops r.2 = true then
                St.setHeap { s.addSeen nt prog with cache := r.1 } nt
                  (Heapq.push (ltE E.ops) (St.heapOf { s.addSeen nt prog with cache := r.1 } nt) (r.2, prog))
              else { s.addSeen nt prog with cache := r.1 }) = pushNew E s nt prog := by
            unfold pushNew
            simp only [hcp]
          rw [heq] at h
          exact ih _ _ (hs.pushNew w nt prog) h

theorem initHeaps_hinv (E : Env S T π) (w : Heapq.WeakOrder E.ops.lt) :
    ∀ (rows : List (NT S T × AList Sym (List (Ty × S) × T))) (s s' : St S T π),
      HInv E s → initHeaps E rows s = some s' → HInv E s' := by
  intro rows
  induction rows with
  | nil =>
    intro s s' hs h
    simp only [initHeaps, Option.some.injEq] at h
    subst h; exact hs
  | cons row rest ih =>
    intro s s' hs h
    obtain ⟨nt, rs⟩ := row
    unfold initHeaps at h
    split at h
    · simp at h
    · rename_i s1 hl
      exact ih _ _ (initHeapLoop_hinv E w nt _ _ _ hs hl) h

theorem firstQueries_hinv (E : Env S T π) (w : Heapq.WeakOrder E.ops.lt) (fuel : Nat) :
    ∀ (nts : List (NT S T)) (s s' : St S T π), HInv E s → firstQueries E fuel nts s = some s' → HInv E s' := by
  intro nts
  induction nts with
  | nil =>
    intro s s' hs h
    simp only [firstQueries, Option.some.injEq] at h
    subst h; exact hs
  | cons nt rest ih =>
    intro s s' hs h
    unfold firstQueries at h
    split at h
    · simp at h
    · rename_i r hq
      exact ih _ _ (big_heaps E w (big_of_query E (s' := r.1) (r := r.2) hq) hs) h

theorem prologue_hinv (E : Env S T π) (w : Heapq.WeakOrder E.ops.lt) (fuel : Nat) (s s' : St S T π)
    (hs : HInv E s) (h : prologue E fuel s = some s') : HInv E s' := by
  unfold prologue at h
  split at h
  · simp at h
  · rename_i s1 h1
    split at h
    · simp at h
    · rename_i s2 h2
      split at h
      · simp at h
      · rename_i s3 h3
        have f1 := (init_frame E fuel).1 _ _ _ h1
        have f2 := reevaluate_frame E fuel _ _ _ h2
        exact firstQueries_hinv E w fuel _ _ _ (initHeaps_hinv E w _ _ _ (f2.hinv (f1.hinv hs)) h3) h

theorem nextLoop_hinv (E : Env S T π) (w : Heapq.WeakOrder E.ops.lt) (fuel : Nat) :
    ∀ (k : Nat) (s : St S T π) (cur : Option Prog) (g' : Gen S T π) (r : Option Prog),
      HInv E s → nextLoop E fuel k s cur = some (g', r) → HInv E g'.st := by
  intro k
  induction k with
  | zero => intro s cur g' r _ h; simp [nextLoop] at h
  | succ k ih =>
    intro s cur g' r hs h
    unfold nextLoop at h
    split at h
    · simp at h
    · rename_i s1 hq
      simp only [Option.some.injEq, Prod.mk.injEq] at h
      obtain ⟨rfl, _⟩ := h
      exact big_heaps E w (big_of_query E hq) hs
    · rename_i s1 p hq
      have h1 := big_heaps E w (big_of_query E hq) hs
      split at h
      · simp only [Option.some.injEq, Prod.mk.injEq] at h
        obtain ⟨rfl, _⟩ := h
        exact h1
      · refine ih _ _ _ _ ?_ h
        intro nt
        have : (s1.addDeleted p).heapOf nt = s1.heapOf nt := by
          unfold St.addDeleted; split <;> rfl
        rw [this]; exact h1 nt

theorem next_hinv (E : Env S T π) (w : Heapq.WeakOrder E.ops.lt) (fuel : Nat) (g g' : Gen S T π)
    (r : Option Prog) (hg : HInv E g.st) (h : next E fuel g = some (g', r)) : HInv E g'.st := by
  unfold next at h
  split at h
  · exact nextLoop_hinv E w fuel _ _ _ _ _ hg h
  · split at h
    · simp at h
    · rename_i s hp
      exact nextLoop_hinv E w fuel _ _ _ _ _ (prologue_hinv E w fuel _ _ hg hp) h

theorem hinv_new (E : Env S T π) : HInv E (Gen.new E.G : Gen S T π).st := by
  intro nt
  have : (St.empty E.G : St S T π).heapOf nt = [] := by
    unfold St.heapOf St.empty
    simp only
    induction E.G.rules with
    | nil => rfl
    | cons a r ih =>
      simp only [List.map_cons, AList.lookup]
      split
      · rfl
      · exact ih
  show Heapq.IsHeap _ ((St.empty E.G : St S T π).heapOf nt)
  rw [this]; exact Heapq.isHeap_nil _

end PS.HS
