/- Global no-duplicates, part 3: every function of the query block keeps the bank invariant `NInv` (banks disjoint,
   provenance of the stored programs), and every program `query` yields is NEW to the banks of its non-terminal.
   Every arithmetic, grammar, filter, fuel; nested and re-entrant queries (limbo sets `L`, `Λ`). -/
import PS.Proofs.Enum.CDGBanks
namespace PS.CD
variable {α : Type}

/-! ### the banks only grow -/

structure MOk (E : Env α) (f : Nat) : Prop where
  resume : ∀ s fr r, resume E f s fr = some r → BMono s r.st
  drive : ∀ s fr s', drive E f s fr = some s' → BMono s s'
  queryList : ∀ s S ci s' ia r, queryList E f s S ci = some (s', ia, r) → BMono s s'
  argLoop : ∀ s cs ss ia agf acc s' ia' agf' acc', argLoop E f s cs ss ia agf acc = some (s', ia', agf', acc') → BMono s s'
  combLoop : ∀ s args ci c combs ns hg s' ns' hg', combLoop E f s args ci c combs ns hg = some (s', ns', hg') → BMono s s'
  queryDer : ∀ s args ci s' l, queryDer E f s args ci = some (s', l) → BMono s s'

theorem pushNext_bank (A : Arith α) (s : St α) (S : NT) (h2 : List (Deriv α)) (w : Int) (el : Deriv α) (cl : List α) (ns : Bool) :
    (pushNext A s S h2 w el cl ns).1.bankNt = s.bankNt := by
  unfold pushNext; split <;> rfl

theorem pushNext_deleted (A : Arith α) (s : St α) (S : NT) (h2 : List (Deriv α)) (w : Int) (el : Deriv α) (cl : List α) (ns : Bool) :
    (pushNext A s S h2 w el cl ns).1.deleted = s.deleted := by
  unfold pushNext; split <;> rfl

theorem mok_resume (E : Env α) (f : Nat) (ih : MOk E f) : ∀ s fr r, resume E (f + 1) s fr = some r → BMono s r.st := by
  intro s fr r h
  rw [resume] at h
  split at h
  · simp only at h
    split at h
    · exact ih.resume _ _ _ h
    · split at h
      · exact (BMono.of_eq (addDeleted_fields _ _).1).trans (ih.resume _ _ _ h)
      · split at h
        · simp at h
        · rename_i s1 hb
          simp only [Option.some.injEq] at h; subst h
          obtain ⟨b, l, hb1, hl1, rfl⟩ := appendBank_spec hb
          exact bmono_append hb1 hl1
  · exact ih.resume _ _ _ h
  · exact ih.resume _ _ _ h
  · split at h
    · simp at h
    · split at h
      · cases hx : exitQuery s fr with
        | none => simp [hx] at h
        | some s' =>
          simp only [hx, Option.map_some, Option.some.injEq] at h; subst h
          exact BMono.of_eq (exitQuery_fields hx).1
      · split at h
        · cases hx : exitQuery s fr with
          | none => simp [hx] at h
          | some s' =>
            simp only [hx, Option.map_some, Option.some.injEq] at h; subst h
            exact BMono.of_eq (exitQuery_fields hx).1
        · split at h
          · simp at h
          · rename_i el heap' hpop
            split at h
            · rename_i s1 args w he hrule
              have m1 : BMono s s1 := (BMono.of_eq (s := s) (s' := s.setHeap fr.S heap') rfl).trans (ensureBank_spec he).2.2.1
              split at h
              · simp only at h
                split at h
                · exact m1.trans (ih.resume _ _ _ h)
                · split at h
                  · exact (m1.trans (BMono.of_eq (addDeleted_fields _ _).1)).trans (ih.resume _ _ _ h)
                  · split at h
                    · simp at h
                    · rename_i s2 hb
                      simp only [Option.some.injEq] at h; subst h
                      obtain ⟨b, l, hb1, hl1, rfl⟩ := appendBank_spec hb
                      exact m1.trans (bmono_append hb1 hl1)
              · split at h
                · simp at h
                · rename_i s2 possibles hq
                  have m2 := m1.trans (ih.queryDer _ _ _ _ _ hq)
                  split at h
                  · rename_i em cl h2 _ _ hl2
                    have m3 : BMono s (pushNext E.A s2 fr.S h2 w el cl fr.noSucc).1 :=
                      m2.trans (BMono.of_eq (pushNext_bank _ _ _ _ _ _ _ _))
                    simp only at h
                    split at h
                    · exact m3.trans (ih.resume _ _ _ h)
                    · exact m3.trans (ih.resume _ _ _ h)
                  · simp at h
            · simp at h

theorem mok_all (E : Env α) : ∀ f, MOk E f := by
  intro f
  induction f with
  | zero =>
    refine ⟨?_, ?_, ?_, ?_, ?_, ?_⟩
    · intro s fr r h; simp [resume] at h
    · intro s fr s' h; simp [drive] at h
    · intro s S ci s' ia r h; simp [queryList] at h
    · intro s cs ss ia agf acc s' ia' agf' acc' h; simp [argLoop] at h
    · intro s args ci c combs ns hg s' ns' hg' h; simp [combLoop] at h
    · intro s args ci s' l h; simp [queryDer] at h
  | succ f ih =>
    refine ⟨mok_resume E f ih, ?_, ?_, ?_, ?_, ?_⟩
    · intro s fr s' h
      rw [drive] at h
      split at h
      · simp at h
      · rename_i s1 hr
        simp only [Option.some.injEq] at h; subst h
        exact ih.resume _ _ _ hr
      · rename_i s1 fr1 p hr
        exact (ih.resume _ _ _ hr).trans (ih.drive _ _ _ h)
    · intro s S ci s' ia r h
      rw [queryList] at h
      split at h
      · split at h
        · simp only [Option.some.injEq, Prod.mk.injEq] at h; rw [← h.1]; exact BMono.refl _
        · split at h
          · simp only [Option.some.injEq, Prod.mk.injEq] at h; rw [← h.1]; exact BMono.refl _
          · split at h
            · simp only [Option.some.injEq, Prod.mk.injEq] at h; rw [← h.1]; exact BMono.refl _
            · split at h
              · simp at h
              · rename_i s1 hd
                have hs1 := ih.drive _ _ _ hd
                split at h
                · split at h
                  · simp only [Option.some.injEq, Prod.mk.injEq] at h; rw [← h.1]; exact hs1
                  · split at h
                    · simp only [Option.some.injEq, Prod.mk.injEq] at h; rw [← h.1]; exact hs1
                    · simp at h
                · simp at h
      · simp at h
    · intro s cs ss ia agf acc s' ia' agf' acc' h
      cases cs with
      | nil => simp only [argLoop, Option.some.injEq, Prod.mk.injEq] at h; rw [← h.1]; exact BMono.refl _
      | cons c cs =>
        cases ss with
        | nil => simp only [argLoop, Option.some.injEq, Prod.mk.injEq] at h; rw [← h.1]; exact BMono.refl _
        | cons Si ss =>
          rw [argLoop] at h
          split at h
          · simp at h
          · rename_i s1 one r hq
            have hs1 := ih.queryList _ _ _ _ _ _ hq
            split at h
            · split at h
              · simp only [Option.some.injEq, Prod.mk.injEq] at h; rw [← h.1]; exact hs1
              · exact hs1.trans (ih.argLoop _ _ _ _ _ _ _ _ _ _ h)
            · exact hs1.trans (ih.argLoop _ _ _ _ _ _ _ _ _ _ h)
    · intro s args ci c combs ns hg s' ns' hg' h
      cases combs with
      | nil => simp only [combLoop, Option.some.injEq, Prod.mk.injEq] at h; rw [← h.1]; exact BMono.refl _
      | cons comb rest =>
        rw [combLoop] at h
        split at h
        · simp at h
        · rename_i s1 ia agf poss ha
          have hs1 := ih.argLoop _ _ _ _ _ _ _ _ _ _ ha
          simp only at h
          split at h
          · exact hs1.trans (ih.combLoop _ _ _ _ _ _ _ _ _ _ h)
          · split at h
            · simp at h
            · rename_i s2 hsucc
              have hs2 := hs1.trans (BMono.of_eq (succLoop_fields E.A E.asserts args c comb _ _ _ _ hsucc).1)
              split at h
              · exact hs2.trans (ih.combLoop _ _ _ _ _ _ _ _ _ _ h)
              · split at h
                · simp at h
                · split at h
                  · simp at h
                  · have h9 := ih.combLoop _ _ _ _ _ _ _ _ _ _ h
                    exact (hs2.trans (BMono.of_eq rfl)).trans h9
    · intro s args ci s' l h
      rw [queryDer] at h
      split at h
      · split at h
        · simp only [Option.some.injEq, Prod.mk.injEq] at h; rw [← h.1]; exact BMono.refl _
        · split at h
          · simp only [Option.some.injEq, Prod.mk.injEq] at h; rw [← h.1]; exact BMono.refl _
          · simp only at h
            split at h
            · simp only [Option.some.injEq, Prod.mk.injEq] at h; rw [← h.1]; exact BMono.of_eq rfl
            · split at h
              · simp at h
              · split at h
                · simp at h
                · rename_i s3 ns hg hc
                  have h9 := ih.combLoop _ _ _ _ _ _ _ _ _ _ hc
                  have hs3 : BMono s s3 := (BMono.of_eq (s := s) rfl).trans h9
                  split at h
                  · simp at h
                  · rename_i s4 hs4e
                    have hs4 : BMono s s4 := by
                      split at hs4e
                      · split at hs4e
                        · simp at hs4e
                        · simp only [Option.some.injEq] at hs4e; subst hs4e; exact hs3.trans (BMono.of_eq rfl)
                      · simp only [Option.some.injEq] at hs4e; subst hs4e; exact hs3
                    split at h
                    · split at h
                      · simp at h
                      · rename_i s5 hs5e
                        have hs5 : BMono s s5 := by
                          split at hs5e
                          · simp only [Option.some.injEq] at hs5e; subst hs5e; exact hs4
                          · split at hs5e
                            · simp at hs5e
                            · split at hs5e
                              · simp at hs5e
                              · simp only [Option.some.injEq] at hs5e; subst hs5e; exact hs4.trans (BMono.of_eq rfl)
                        split at h
                        · simp at h
                        · simp only [Option.some.injEq, Prod.mk.injEq] at h; rw [← h.1]; exact hs5
                    · simp at h
      · simp at h

/-! ### `_deleted` only grows -/

structure DOk (E : Env α) (f : Nat) : Prop where
  resume : ∀ s fr r, resume E f s fr = some r → DSub s r.st
  drive : ∀ s fr s', drive E f s fr = some s' → DSub s s'
  queryList : ∀ s S ci s' ia r, queryList E f s S ci = some (s', ia, r) → DSub s s'
  argLoop : ∀ s cs ss ia agf acc s' ia' agf' acc', argLoop E f s cs ss ia agf acc = some (s', ia', agf', acc') → DSub s s'
  combLoop : ∀ s args ci c combs ns hg s' ns' hg', combLoop E f s args ci c combs ns hg = some (s', ns', hg') → DSub s s'
  queryDer : ∀ s args ci s' l, queryDer E f s args ci = some (s', l) → DSub s s'

theorem dok_resume (E : Env α) (f : Nat) (ih : DOk E f) : ∀ s fr r, resume E (f + 1) s fr = some r → DSub s r.st := by
  intro s fr r h
  rw [resume] at h
  split at h
  · simp only at h
    split at h
    · exact ih.resume _ _ _ h
    · split at h
      · exact (addDeleted_sub _ _).trans (ih.resume _ _ _ h)
      · split at h
        · simp at h
        · rename_i s1 hb
          simp only [Option.some.injEq] at h; subst h
          obtain ⟨b, l, hb1, hl1, rfl⟩ := appendBank_spec hb
          exact DSub.of_eq rfl
  · exact ih.resume _ _ _ h
  · exact ih.resume _ _ _ h
  · split at h
    · simp at h
    · split at h
      · cases hx : exitQuery s fr with
        | none => simp [hx] at h
        | some s' =>
          simp only [hx, Option.map_some, Option.some.injEq] at h; subst h
          exact DSub.of_eq (exitQuery_deleted hx)
      · split at h
        · cases hx : exitQuery s fr with
          | none => simp [hx] at h
          | some s' =>
            simp only [hx, Option.map_some, Option.some.injEq] at h; subst h
            exact DSub.of_eq (exitQuery_deleted hx)
        · split at h
          · simp at h
          · rename_i el heap' hpop
            split at h
            · rename_i s1 args w he hrule
              have m1 : DSub s s1 := (DSub.of_eq (s := s) (s' := s.setHeap fr.S heap') rfl).trans (DSub.of_eq (ensureBank_deleted he))
              split at h
              · simp only at h
                split at h
                · exact m1.trans (ih.resume _ _ _ h)
                · split at h
                  · exact (m1.trans (addDeleted_sub _ _)).trans (ih.resume _ _ _ h)
                  · split at h
                    · simp at h
                    · rename_i s2 hb
                      simp only [Option.some.injEq] at h; subst h
                      obtain ⟨b, l, hb1, hl1, rfl⟩ := appendBank_spec hb
                      exact m1.trans (DSub.of_eq rfl)
              · split at h
                · simp at h
                · rename_i s2 possibles hq
                  have m2 := m1.trans (ih.queryDer _ _ _ _ _ hq)
                  split at h
                  · rename_i em cl h2 _ _ hl2
                    have m3 : DSub s (pushNext E.A s2 fr.S h2 w el cl fr.noSucc).1 :=
                      m2.trans (DSub.of_eq (pushNext_deleted _ _ _ _ _ _ _ _))
                    simp only at h
                    split at h
                    · exact m3.trans (ih.resume _ _ _ h)
                    · exact m3.trans (ih.resume _ _ _ h)
                  · simp at h
            · simp at h

theorem dok_all (E : Env α) : ∀ f, DOk E f := by
  intro f
  induction f with
  | zero =>
    refine ⟨?_, ?_, ?_, ?_, ?_, ?_⟩
    · intro s fr r h; simp [resume] at h
    · intro s fr s' h; simp [drive] at h
    · intro s S ci s' ia r h; simp [queryList] at h
    · intro s cs ss ia agf acc s' ia' agf' acc' h; simp [argLoop] at h
    · intro s args ci c combs ns hg s' ns' hg' h; simp [combLoop] at h
    · intro s args ci s' l h; simp [queryDer] at h
  | succ f ih =>
    refine ⟨dok_resume E f ih, ?_, ?_, ?_, ?_, ?_⟩
    · intro s fr s' h
      rw [drive] at h
      split at h
      · simp at h
      · rename_i s1 hr
        simp only [Option.some.injEq] at h; subst h
        exact ih.resume _ _ _ hr
      · rename_i s1 fr1 p hr
        exact (ih.resume _ _ _ hr).trans (ih.drive _ _ _ h)
    · intro s S ci s' ia r h
      rw [queryList] at h
      split at h
      · split at h
        · simp only [Option.some.injEq, Prod.mk.injEq] at h; rw [← h.1]; exact DSub.refl _
        · split at h
          · simp only [Option.some.injEq, Prod.mk.injEq] at h; rw [← h.1]; exact DSub.refl _
          · split at h
            · simp only [Option.some.injEq, Prod.mk.injEq] at h; rw [← h.1]; exact DSub.refl _
            · split at h
              · simp at h
              · rename_i s1 hd
                have hs1 := ih.drive _ _ _ hd
                split at h
                · split at h
                  · simp only [Option.some.injEq, Prod.mk.injEq] at h; rw [← h.1]; exact hs1
                  · split at h
                    · simp only [Option.some.injEq, Prod.mk.injEq] at h; rw [← h.1]; exact hs1
                    · simp at h
                · simp at h
      · simp at h
    · intro s cs ss ia agf acc s' ia' agf' acc' h
      cases cs with
      | nil => simp only [argLoop, Option.some.injEq, Prod.mk.injEq] at h; rw [← h.1]; exact DSub.refl _
      | cons c cs =>
        cases ss with
        | nil => simp only [argLoop, Option.some.injEq, Prod.mk.injEq] at h; rw [← h.1]; exact DSub.refl _
        | cons Si ss =>
          rw [argLoop] at h
          split at h
          · simp at h
          · rename_i s1 one r hq
            have hs1 := ih.queryList _ _ _ _ _ _ hq
            split at h
            · split at h
              · simp only [Option.some.injEq, Prod.mk.injEq] at h; rw [← h.1]; exact hs1
              · exact hs1.trans (ih.argLoop _ _ _ _ _ _ _ _ _ _ h)
            · exact hs1.trans (ih.argLoop _ _ _ _ _ _ _ _ _ _ h)
    · intro s args ci c combs ns hg s' ns' hg' h
      cases combs with
      | nil => simp only [combLoop, Option.some.injEq, Prod.mk.injEq] at h; rw [← h.1]; exact DSub.refl _
      | cons comb rest =>
        rw [combLoop] at h
        split at h
        · simp at h
        · rename_i s1 ia agf poss ha
          have hs1 := ih.argLoop _ _ _ _ _ _ _ _ _ _ ha
          simp only at h
          split at h
          · exact hs1.trans (ih.combLoop _ _ _ _ _ _ _ _ _ _ h)
          · split at h
            · simp at h
            · rename_i s2 hsucc
              have hs2 := hs1.trans (DSub.of_eq (succLoop_deleted E.A E.asserts args c comb _ _ _ _ hsucc))
              split at h
              · exact hs2.trans (ih.combLoop _ _ _ _ _ _ _ _ _ _ h)
              · split at h
                · simp at h
                · split at h
                  · simp at h
                  · have h9 := ih.combLoop _ _ _ _ _ _ _ _ _ _ h
                    exact (hs2.trans (DSub.of_eq rfl)).trans h9
    · intro s args ci s' l h
      rw [queryDer] at h
      split at h
      · split at h
        · simp only [Option.some.injEq, Prod.mk.injEq] at h; rw [← h.1]; exact DSub.refl _
        · split at h
          · simp only [Option.some.injEq, Prod.mk.injEq] at h; rw [← h.1]; exact DSub.refl _
          · simp only at h
            split at h
            · simp only [Option.some.injEq, Prod.mk.injEq] at h; rw [← h.1]; exact DSub.of_eq rfl
            · split at h
              · simp at h
              · split at h
                · simp at h
                · rename_i s3 ns hg hc
                  have h9 := ih.combLoop _ _ _ _ _ _ _ _ _ _ hc
                  have hs3 : DSub s s3 := (DSub.of_eq (s := s) rfl).trans h9
                  split at h
                  · simp at h
                  · rename_i s4 hs4e
                    have hs4 : DSub s s4 := by
                      split at hs4e
                      · split at hs4e
                        · simp at hs4e
                        · simp only [Option.some.injEq] at hs4e; subst hs4e; exact hs3.trans (DSub.of_eq rfl)
                      · simp only [Option.some.injEq] at hs4e; subst hs4e; exact hs3
                    split at h
                    · split at h
                      · simp at h
                      · rename_i s5 hs5e
                        have hs5 : DSub s s5 := by
                          split at hs5e
                          · simp only [Option.some.injEq] at hs5e; subst hs5e; exact hs4
                          · split at hs5e
                            · simp at hs5e
                            · split at hs5e
                              · simp at hs5e
                              · simp only [Option.some.injEq] at hs5e; subst hs5e; exact hs4.trans (DSub.of_eq rfl)
                        split at h
                        · simp at h
                        · simp only [Option.some.injEq, Prod.mk.injEq] at h; rw [← h.1]; exact hs5
                    · simp at h
      · simp at h

/-! ### the bank invariant through the machine -/

/-- what `query` hands back: the invariant, and at a `yield` the frame invariant and a program new to the banks of
    the non-terminal (in the state the call started from) that is now in them -/
def ResN (E : Env α) (s : St α) (S : NT) (L : NT → List (Sym × Nat)) : Res α → Prop
  | .yield s' fr' p => NInv E s' L ∧ FrOK E s' L fr' ∧ fr'.S = S ∧ ¬ InBank s S p ∧ InBank s' S p
  | .done s' => NInv E s' L

theorem resN_of {E : Env α} {s s1 : St α} {S : NT} {L : NT → List (Sym × Nat)} {r : Res α} (h : ResN E s1 S L r)
    (hm : BMono s s1) : ResN E s S L r := by
  cases r with
  | done s' => exact h
  | yield s' fr' p =>
    obtain ⟨h1, h2, h3, h4, h5⟩ := h
    exact ⟨h1, h2, h3, fun hin => h4 (hm.inBank hin), h5⟩

theorem hinv_drop {s : St α} {L : NT → List Sym} {S : NT} {P : Sym} (h : HInv s (addLimbo L S P)) : HInv s L := by
  intro S2 hh hl2
  obtain ⟨a, b⟩ := h S2 hh hl2
  refine ⟨a, fun P' hP => b P' ?_⟩
  unfold addLimbo; split
  · exact List.mem_cons_of_mem _ hP
  · exact hP

theorem possAt_append_mono {bd : BD} {args : List NT} {b : AList Nat (List (List Ref))} {ci : Nat} {l : List (List Ref)}
    {x : List Ref} (hb : AList.lookup args bd = some b) (hl : AList.lookup ci b = some l) (a : List NT) (c : Nat)
    (ps : List Ref) (h : PossAt bd a c ps) : PossAt (AList.insert args (AList.insert ci (l ++ [x]) b) bd) a c ps := by
  by_cases he : a = args
  · subst he
    obtain ⟨b2, l2, h1, h2, h3⟩ := h
    rw [hb] at h1; simp only [Option.some.injEq] at h1; subst h1
    by_cases hc : c = ci
    · subst hc
      rw [hl] at h2; simp only [Option.some.injEq] at h2; subst h2
      exact ⟨_, _, AList.lookup_insert_self _ _ _, AList.lookup_insert_self _ _ _, List.mem_append_left _ h3⟩
    · exact ⟨_, l2, AList.lookup_insert_self _ _ _, by rw [AList.lookup_insert_ne _ _ hc]; exact h2, h3⟩
  · exact (possAt_insert_ne he c ps).mpr h

theorem possAt_nil_mono {bd : BD} {args : List NT} {b : AList Nat (List (List Ref))} {ci : Nat}
    (hb : AList.lookup args bd = some b) (hl : AList.lookup ci b = none) (a : List NT) (c : Nat)
    (ps : List Ref) (h : PossAt bd a c ps) : PossAt (AList.insert args (AList.insert ci [] b) bd) a c ps := by
  by_cases he : a = args
  · subst he
    obtain ⟨b2, l2, h1, h2, h3⟩ := h
    rw [hb] at h1; simp only [Option.some.injEq] at h1; subst h1
    by_cases hc : c = ci
    · subst hc; rw [hl] at h2; simp at h2
    · exact ⟨_, l2, AList.lookup_insert_self _ _ _, by rw [AList.lookup_insert_ne _ _ hc]; exact h2, h3⟩
  · exact (possAt_insert_ne he c ps).mpr h

/-- popping an element: its symbol and derivation index go to limbo -/
theorem ninv_pop {E : Env α} {s : St α} {L : NT → List (Sym × Nat)} {S : NT} {heap heap' : List (Deriv α)} {el : Deriv α}
    (lt : Deriv α → Deriv α → Bool) (hN : NInv E s L) (hl : AList.lookup S s.queueNt = some heap)
    (hp : Heapq.pop lt heap = some (el, heap')) : NInv E (s.setHeap S heap') (addL L S (el.P, el.comb)) := by
  have hperm := Heapq.pop_perm lt heap el heap' hp
  refine ⟨binv_of_eq rfl hN.binv, ?_, ?_, fun S c q h => hN.accb S c q h, fun p hp S c h => hN.delout p hp S c h⟩
  · intro S' hh d hlk hd
    simp only [St.setHeap] at hlk
    rw [AList.lookup_insert] at hlk
    split at hlk
    · rename_i he
      simp only [Option.some.injEq] at hlk; subst hlk; subst he
      have : Consumed E s S' d.P d.comb [] := hN.heapc S' heap d hl (hperm.mem_iff.mpr (List.mem_cons_of_mem _ hd))
      exact this
    · have : Consumed E s S' d.P d.comb [] := hN.heapc S' hh d hlk hd
      exact this
  · intro S' P' c0 hm
    unfold addL at hm
    split at hm
    · rename_i he
      rcases List.mem_cons.mp hm with h1 | h1
      · simp only [Prod.mk.injEq] at h1
        obtain ⟨e1, e2⟩ := h1
        subst e1; subst e2; subst he
        have : Consumed E s S' el.P el.comb [] := hN.heapc S' heap el hl (hperm.mem_iff.mpr List.mem_cons_self)
        exact this
      · have : Consumed E s S' P' c0 [] := hN.limboc S' P' c0 h1
        exact this
    · have : Consumed E s S' P' c0 [] := hN.limboc S' P' c0 hm
      exact this

/-- pushing the successor of the popped element takes it out of limbo -/
theorem ninv_pushNext {E : Env α} {s : St α} {L : NT → List (Sym × Nat)} {S : NT} {h2 : List (Deriv α)} {w : Int}
    {el : Deriv α} {cl : List α} {ns : Bool} (hN : NInv E s (addL L S (el.P, el.comb)))
    (hl : AList.lookup S s.queueNt = some h2) : NInv E (pushNext E.A s S h2 w el cl ns).1 L := by
  have hweak : NInv E s L := ninv_limbo hN (fun S' x hx => mem_addL S' x hx)
  unfold pushNext
  split
  · rename_i c1 _
    refine ⟨binv_of_eq rfl hN.binv, ?_, ?_, fun S c q h => hN.accb S c q h, fun p hp S c h => hN.delout p hp S c h⟩
    · intro S' hh d hlk hd
      simp only [St.setHeap] at hlk
      rw [AList.lookup_insert] at hlk
      split at hlk
      · rename_i he
        simp only [Option.some.injEq] at hlk; subst hlk; subst he
        rcases List.mem_cons.mp ((Heapq.push_perm (ltD E.A) h2 _).mem_iff.mp hd) with h3 | h3
        · subst h3
          have h0 : Consumed E s S' el.P el.comb [] := hN.limboc S' el.P el.comb (by simp [addL])
          have : Consumed E s S' el.P (el.comb + 1) [] :=
            h0.mono (fun _ hk => hk) (fun _ _ _ hp => hp) (BMono.refl _) (DSub.refl _) (Or.inl (Nat.lt_succ_self _))
          exact this
        · have : Consumed E s S' d.P d.comb [] := hN.heapc S' h2 d hl h3
          exact this
      · have : Consumed E s S' d.P d.comb [] := hN.heapc S' hh d hlk hd
        exact this
    · intro S' P' c0 hm
      have : Consumed E s S' P' c0 [] := hweak.limboc S' P' c0 hm
      exact this
  · exact hweak

/-- the frame a popped element with arguments starts with -/
theorem frok_start {E : Env α} {s : St α} {L : NT → List (Sym × Nat)} {fr : Frame α} {h2 : List (Deriv α)} {w : Int}
    {el : Deriv α} {cl : List α} {args : List NT} {possibles : List (List Ref)} {ns : Bool}
    (hN : NInv E s (addL L fr.S (el.P, el.comb))) (hH : HInv s (addLimbo (symL L) fr.S el.P))
    (hl : AList.lookup fr.S s.queueNt = some h2) (hrule : E.G.rule? fr.S el.P = some (args, w)) (hne : args ≠ [])
    (hnotL : el.P ∉ symL L fr.S)
    (hpost : possibles = [] ∨ ∃ b, AList.lookup args s.bankDer = some b ∧ AList.lookup el.comb b = some possibles) :
    FrOK E (pushNext E.A s fr.S h2 w el cl fr.noSucc).1 L { fr with noSucc := ns, cur := some (el.P, possibles, []) } := by
  have hnot : ∀ d ∈ h2, d.P ≠ el.P := by
    intro d hd he
    have := (hH fr.S h2 hl).2 el.P (by simp [addLimbo])
    exact this (by rw [← he]; exact List.mem_map.mpr ⟨d, hd, rfl⟩)
  have hb1 := pushNext_bank E.A s fr.S h2 w el cl fr.noSucc
  have hd1 := (pushNext_der E.A s fr.S h2 w el cl fr.noSucc).2
  unfold FrOK
  simp only
  refine ⟨args, w, el.comb, [], hrule, hne, ?_, ?_, ?_, ?_, by simp, by simp, by simp⟩
  · rw [hd1]; simpa using hpost
  · exact (hN.limboc fr.S el.P el.comb (by simp [addL])).mono (fun kids hk => (BMono.of_eq hb1.symm).inBank hk)
      (fun _ _ _ hp => by rw [hd1]; exact hp) (BMono.of_eq hb1) (DSub.of_eq (pushNext_deleted _ _ _ _ _ _ _ _))
      (Or.inr ⟨rfl, fun _ h => h⟩)
  · intro hh d hlk hd he
    unfold pushNext at hlk
    split at hlk
    · simp only [St.setHeap] at hlk
      rw [AList.lookup_insert_self] at hlk
      simp only [Option.some.injEq] at hlk; subst hlk
      rcases List.mem_cons.mp ((Heapq.push_perm (ltD E.A) h2 _).mem_iff.mp hd) with h3 | h3
      · subst h3; exact Nat.lt_succ_self _
      · exact absurd he (hnot d h3)
    · rw [hl] at hlk
      simp only [Option.some.injEq] at hlk; subst hlk
      exact absurd he (hnot d hd)
  · intro c1 hm
    exact hnotL (List.mem_map.mpr ⟨(el.P, c1), hm, rfl⟩)

structure NOk (E : Env α) (f : Nat) : Prop where
  resume : ∀ s fr r L Λ, resume E f s fr = some r → HInv s (symL L) → TInv2 s Λ → NInv E s L → FrOK E s L fr →
    ResN E s fr.S L r
  drive : ∀ s fr s' L Λ, drive E f s fr = some s' → HInv s (symL L) → TInv2 s Λ → NInv E s L → FrOK E s L fr → NInv E s' L
  queryList : ∀ s S ci s' ia r L Λ, queryList E f s S ci = some (s', ia, r) → HInv s (symL L) → TInv2 s Λ → NInv E s L →
    NInv E s' L
  argLoop : ∀ s cs ss ia agf acc s' ia' agf' acc' L Λ,
    argLoop E f s cs ss ia agf acc = some (s', ia', agf', acc') → HInv s (symL L) → TInv2 s Λ → NInv E s L → NInv E s' L
  combLoop : ∀ s args ci c combs ns hg s' ns' hg' L Λ,
    combLoop E f s args ci c combs ns hg = some (s', ns', hg') → HInv s (symL L) → TInv2 s (addT Λ args combs) →
    NInv E s L → NInv E s' L
  queryDer : ∀ s args ci s' l L Λ, queryDer E f s args ci = some (s', l) → HInv s (symL L) → TInv2 s Λ → NInv E s L →
    NInv E s' L ∧ (l = [] ∨ ∃ b, AList.lookup args s'.bankDer = some b ∧ AList.lookup ci b = some l)

theorem nok_resume (E : Env α) (f : Nat) (ih : NOk E f) : ∀ s fr r L Λ, resume E (f + 1) s fr = some r →
    HInv s (symL L) → TInv2 s Λ → NInv E s L → FrOK E s L fr → ResN E s fr.S L r := by
  intro s fr r L Λ h hH hT hN hF
  rw [resume] at h
  split at h
  · -- inside a product: the next tuple
    rename_i P poss tup tups hcur
    unfold FrOK at hF
    rw [hcur] at hF
    simp only at hF
    obtain ⟨args, w, c0, done, a1, a2, a3, a4, a5, a6, a7, a8, a9⟩ := hF
    have hF' : FrOK E s L { fr with cur := some (P, poss, tups) } := by
      unfold FrOK
      simp only
      exact ⟨args, w, c0, done, a1, a2, a3, a4, a5, a6, (List.nodup_cons.mp a7).2,
        fun t ht => a8 t (List.mem_cons_of_mem _ ht), fun t ht => a9 t (List.mem_cons_of_mem _ ht)⟩
    simp only at h
    split at h
    · have r1 := ih.resume _ _ _ _ _ h hH hT hN hF'
      exact r1
    · rename_i hdel
      split at h
      · rename_i hfil
        have e := addDeleted_fields s (.node P tup)
        have r1 := ih.resume _ _ _ _ _ h (hinv_addDeleted _ hH)
          (tinv2_of_eq (addDeleted_der _ _).1 (addDeleted_der _ _).2 hT)
          (ninv_addDeleted _ hN (by simpa using hfil)) (frok_of_eq e.1 e.2.1 e.2.2 (addDeleted_sub _ _) hF')
        exact resN_of r1 (BMono.of_eq e.1)
      · rename_i hfil
        split at h
        · simp at h
        · rename_i s1 hbk
          simp only [Option.some.injEq] at h; subst h
          obtain ⟨b, l, hb, hl, rfl⟩ := appendBank_spec hbk
          have hacc : E.filter (.node P tup) = true := by simpa using hfil
          have hnd : (Tree.node P tup : Prog) ∉ s.deleted := by simpa using hdel
          have hds : DSub s { s with bankNt := AList.insert fr.S (AList.insert fr.ci (l ++ [.node P tup]) b) s.bankNt } :=
            DSub.of_eq rfl
          have hm := bmono_append (p := .node P tup) hb hl
          obtain ⟨ps0, hps0, hp0, hk0⟩ := a9 tup List.mem_cons_self
          have hnew : ¬ InBank s fr.S (.node P tup) := a8 tup List.mem_cons_self
          refine ⟨?_, ?_, rfl, hnew, ⟨fr.ci, (inBankAt_append hb hl _ _ _).mpr (Or.inr ⟨rfl, rfl, rfl⟩)⟩⟩
          · refine ninv_append hN hb hl hnew ?_ a6 hacc hnd
            intro hh d hlk hd he args' w' hrule
            rw [a1] at hrule
            simp only [Option.some.injEq, Prod.mk.injEq] at hrule
            obtain ⟨e1, _⟩ := hrule
            subst e1
            exact ⟨a2, c0, ps0, hp0, hk0, a5 hh d hlk hd he⟩
          · unfold FrOK
            simp only
            refine ⟨args, w, c0, done, a1, a2, a3, ?_, a5, a6, (List.nodup_cons.mp a7).2, ?_, ?_⟩
            · intro args' w' kids hrule hin
              obtain ⟨c', hin⟩ := hin
              rcases (inBankAt_append hb hl _ c' _).mp hin with a | a
              · obtain ⟨hne, c, ps, h1, h2, h3⟩ := a4 args' w' kids hrule ⟨c', a⟩
                exact ⟨hne, c, ps, h1, h2.mono hm hds, h3⟩
              · obtain ⟨_, _, e3⟩ := a
                simp only [Tree.node.injEq, true_and] at e3
                subst e3
                rw [a1] at hrule
                simp only [Option.some.injEq, Prod.mk.injEq] at hrule
                obtain ⟨e1, _⟩ := hrule
                subst e1
                exact ⟨a2, c0, ps0, hp0, hk0.mono hm hds, Or.inr ⟨rfl, hps0⟩⟩
            · intro t ht hin
              obtain ⟨c', hin⟩ := hin
              rcases (inBankAt_append hb hl _ c' _).mp hin with a | a
              · exact a8 t (List.mem_cons_of_mem _ ht) ⟨c', a⟩
              · obtain ⟨_, _, e3⟩ := a
                simp only [Tree.node.injEq, true_and] at e3
                subst e3
                exact (List.nodup_cons.mp a7).1 ht
            · intro t ht
              obtain ⟨ps, hps, hp, hk⟩ := a9 t (List.mem_cons_of_mem _ ht)
              exact ⟨ps, hps, hp, hk.mono hm hds⟩
  · -- the next list of pools: its product is snapshotted
    rename_i P ps poss hcur
    unfold FrOK at hF
    rw [hcur] at hF
    simp only at hF
    obtain ⟨args, w, c0, done, a1, a2, a3, a4, a5, a6, _, _, _⟩ := hF
    have hF' : FrOK E s L { fr with cur := some (P, poss, cartesian (ps.map s.resolve)) } := by
      rcases a3 with a3 | ⟨b, hb, hlk⟩
      · simp at a3
      have hpAt : PossAt s.bankDer args c0 ps := ⟨b, _, hb, hlk, by simp⟩
      unfold FrOK
      simp only
      refine ⟨args, w, c0, done ++ [ps], a1, a2, Or.inr ⟨b, hb, by simpa [List.append_assoc] using hlk⟩, ?_, a5, a6, ?_, ?_, ?_⟩
      · exact a4.mono (fun _ hk => hk) (fun _ _ _ hp => hp) (BMono.refl _) (DSub.refl _)
          (Or.inr ⟨rfl, fun x hx => List.mem_append_left _ hx⟩)
      · apply cartesian_nodup
        intro p hp
        obtain ⟨r, _, rfl⟩ := List.mem_map.mp hp
        exact resolve_nodup hN.binv r
      · intro tup ht hin
        have hk := cartesian_kidsIn s ps tup ht
        obtain ⟨_, c, ps', hp', hk', hc⟩ := a4 args w tup a1 hin
        have e : ps' = ps := refs_unique hN.binv hN.delout args ps' ps tup (tinv2_okRef hT hp') (tinv2_okRef hT hpAt) hk' hk
        subst e
        have hU := tinv2_possU hT args
        have hc0 : c = c0 := hU.2 c c0 ps' hp' hpAt
        rcases hc with hc | hc
        · omega
        · have hnd := hU.1 b c0 _ hb hlk
          rw [List.nodup_append] at hnd
          exact hnd.2.2 ps' hc.2 ps' (by simp) rfl
      · intro tup ht
        exact ⟨ps, by simp, hpAt, (cartesian_kidsIn s ps tup ht).weak⟩
    have r1 := ih.resume _ _ _ _ _ h hH hT hN hF'
    exact r1
  · have r1 := ih.resume _ _ _ _ _ h hH hT hN (frok_none rfl)
    exact r1
  · rename_i hcur
    split at h
    · simp at h
    · rename_i heap hl
      split at h
      · cases hx : exitQuery s fr with
        | none => simp [hx] at h
        | some s' =>
          simp only [hx, Option.map_some, Option.some.injEq] at h; subst h
          have e := exitQuery_fields hx
          exact ninv_of_eq e.1 e.2.1 e.2.2 (exitQuery_deleted hx) hN
      · split at h
        · cases hx : exitQuery s fr with
          | none => simp [hx] at h
          | some s' =>
            simp only [hx, Option.map_some, Option.some.injEq] at h; subst h
            have e := exitQuery_fields hx
            exact ninv_of_eq e.1 e.2.1 e.2.2 (exitQuery_deleted hx) hN
        · split at h
          · simp at h
          · rename_i el heap' hpop
            obtain ⟨hH0, hnotL⟩ := hinv_pop (ltD E.A) hH hl hpop
            have hN0 := ninv_pop (ltD E.A) hN hl hpop
            have hLm : ∀ c1, (el.P, c1) ∉ L fr.S := fun c1 hm => hnotL (List.mem_map.mpr ⟨(el.P, c1), hm, rfl⟩)
            split at h
            · rename_i s1 args w he hrule
              obtain ⟨q1, d1, m1, m2, bB⟩ := ensureBank_spec he
              have hN1 : NInv E s1 (addL L fr.S (el.P, el.comb)) :=
                ninv_transfer hN0 q1 (bB hN0.binv) m2 m1 (fun _ _ _ hp => by rw [d1]; exact hp) (ensureBank_deleted he)
              have hH1 : HInv s1 (addLimbo (symL L) fr.S el.P) := hinv_ensureBank hH0 he
              have hT1 : TInv2 s1 Λ :=
                tinv2_of_eq (ensureBank_der he).1 (ensureBank_der he).2 (tinv2_of_eq (s := s) rfl rfl hT)
              have mono1 : BMono s s1 := (BMono.of_eq (s := s) (s' := s.setHeap fr.S heap') rfl).trans m1
              split at h
              · -- a rule without arguments
                rename_i hemp
                have hargs : args = [] := by simpa using hemp
                have hN1d : NInv E s1 L := ninv_limbo hN1 (fun S' x hx => mem_addL S' x hx)
                have hH1d : HInv s1 (symL L) := hinv_drop hH1
                simp only at h
                split at h
                · have r1 := ih.resume _ _ _ _ _ h hH1d hT1 hN1d (frok_none hcur)
                  exact resN_of r1 mono1
                · rename_i hdel
                  split at h
                  · rename_i hfil
                    have e := addDeleted_fields s1 (.node el.P [])
                    have r1 := ih.resume _ _ _ _ _ h (hinv_addDeleted _ hH1d)
                      (tinv2_of_eq (addDeleted_der _ _).1 (addDeleted_der _ _).2 hT1)
                      (ninv_addDeleted _ hN1d (by simpa using hfil)) (frok_none hcur)
                    exact resN_of r1 (mono1.trans (BMono.of_eq e.1))
                  · rename_i hfil
                    split at h
                    · simp at h
                    · rename_i s2 hbk
                      simp only [Option.some.injEq] at h; subst h
                      obtain ⟨b, l, hb, hlb, rfl⟩ := appendBank_spec hbk
                      have hacc : E.filter (.node el.P []) = true := by simpa using hfil
                      have hnd : (Tree.node el.P [] : Prog) ∉ s1.deleted := by simpa using hdel
                      have hnew : ¬ InBank s1 fr.S (.node el.P []) := by
                        intro hin
                        have := hN1.limboc fr.S el.P el.comb (by simp [addL]) args w [] hrule hin
                        exact this.1 hargs
                      refine ⟨?_, frok_none (by simpa using hcur), rfl, fun hin => hnew (mono1.inBank hin),
                        ⟨fr.ci, (inBankAt_append hb hlb _ _ _).mpr (Or.inr ⟨rfl, rfl, rfl⟩)⟩⟩
                      refine ninv_append hN1d hb hlb hnew ?_ hLm hacc hnd
                      intro hh d hlk hd hdP
                      exfalso
                      have := (hH1 fr.S hh hlk).2 el.P (by simp [addLimbo])
                      exact this (by rw [← hdP]; exact List.mem_map.mpr ⟨d, hd, rfl⟩)
              · rename_i hemp
                have hne : args ≠ [] := by
                  intro h0; subst h0; simp at hemp
                split at h
                · simp at h
                · rename_i s2 possibles hq
                  have hH1' : HInv s1 (symL (addL L fr.S (el.P, el.comb))) := by rw [symL_addL]; exact hH1
                  obtain ⟨hN2, hpost⟩ := ih.queryDer _ _ _ _ _ _ Λ hq hH1' hT1 hN1
                  have hH2 : HInv s2 (addLimbo (symL L) fr.S el.P) := (hok_all E f).queryDer _ _ _ _ _ _ hq hH1
                  have hT2 : TInv2 s2 Λ := (tok2_all E f).queryDer _ _ _ _ _ _ hq hT1
                  have mono2 : BMono s s2 := mono1.trans ((mok_all E f).queryDer _ _ _ _ _ hq)
                  split at h
                  · rename_i em cl h2 _ _ hl2
                    have hH3 : HInv (pushNext E.A s2 fr.S h2 w el cl fr.noSucc).1 (symL L) :=
                      hinv_pushNext E.A (w := w) (cl := cl) (ns := fr.noSucc) hH2 hnotL hl2
                    have hT3 : TInv2 (pushNext E.A s2 fr.S h2 w el cl fr.noSucc).1 Λ :=
                      tinv2_of_eq (pushNext_der _ _ _ _ _ _ _ _).1 (pushNext_der _ _ _ _ _ _ _ _).2 hT2
                    have hN3 : NInv E (pushNext E.A s2 fr.S h2 w el cl fr.noSucc).1 L := ninv_pushNext hN2 hl2
                    have mono3 : BMono s (pushNext E.A s2 fr.S h2 w el cl fr.noSucc).1 :=
                      mono2.trans (BMono.of_eq (pushNext_bank _ _ _ _ _ _ _ _))
                    simp only at h
                    split at h
                    · have r1 := ih.resume _ _ _ _ _ h hH3 hT3 hN3 (frok_none (by simpa using hcur))
                      exact resN_of r1 mono3
                    · have r1 := ih.resume _ _ _ _ _ h hH3 hT3 hN3 (frok_start hN2 hH2 hl2 hrule hne hnotL hpost)
                      exact resN_of r1 mono3
                  · simp at h
            · simp at h


/-- the state `query_derivation` runs its loop over the combinations from: the popped index tuples are in limbo -/
theorem tinv2_pop {s : St α} {Λ : List NT → List (List Nat)} {args : List NT} {b : AList Nat (List (List Ref))} {q q' : Q α}
    {ct : CT α} {ci : Nat} (hs : TInv2 s Λ) (hb : AList.lookup args s.bankDer = some b)
    (hq : AList.lookup args s.queueDer = some q) (hpop : q.pop = some (ct, q')) :
    TInv2 ({ s with bankDer := AList.insert args (AList.insert ci [] b) s.bankDer }.setQueueDer args q') (addT Λ args ct.combs) := by
  have hs1a : TInv2 { s with bankDer := AList.insert args (AList.insert ci [] b) s.bankDer } Λ :=
    tinv2_setBankDer hs (fun D hD => possD_insert_nil hb hD)
  have hwf := (hs args).1 q hq
  obtain ⟨hwf', _, hperm, _⟩ := qwf_pop q q' ct hwf hpop
  refine tinv2_setQueueDer (Λ := Λ) hs1a hwf' ?_ (fun a ha => addT_ne _ _ _ _ ha)
  rw [addT_self]
  have hc : contentsOf { s with bankDer := AList.insert args (AList.insert ci [] b) s.bankDer } args = q.contents :=
    contentsOf_some (s := { s with bankDer := AList.insert args (AList.insert ci [] b) s.bankDer }) hq
  rw [hc]
  have : (q.contents ++ Λ args).Perm ((ct.combs ++ q'.contents) ++ Λ args) := List.Perm.append_right _ hperm
  refine this.trans ?_
  rw [List.append_assoc]
  exact (List.perm_append_comm_assoc _ _ _)

theorem nok_all (E : Env α) : ∀ f, NOk E f := by
  intro f
  induction f with
  | zero =>
    refine ⟨?_, ?_, ?_, ?_, ?_, ?_⟩
    · intro s fr r L Λ h; simp [resume] at h
    · intro s fr s' L Λ h; simp [drive] at h
    · intro s S ci s' ia r L Λ h; simp [queryList] at h
    · intro s cs ss ia agf acc s' ia' agf' acc' L Λ h; simp [argLoop] at h
    · intro s args ci c combs ns hg s' ns' hg' L Λ h; simp [combLoop] at h
    · intro s args ci s' l L Λ h; simp [queryDer] at h
  | succ f ih =>
    refine ⟨nok_resume E f ih, ?_, ?_, ?_, ?_, ?_⟩
    · -- drive
      intro s fr s' L Λ h hH hT hN hF
      rw [drive] at h
      split at h
      · simp at h
      · rename_i s1 hr
        simp only [Option.some.injEq] at h; subst h
        exact ih.resume _ _ _ _ _ hr hH hT hN hF
      · rename_i s1 fr1 p hr
        have r1 := ih.resume _ _ _ _ _ hr hH hT hN hF
        have hH1 : HInv s1 (symL L) := (hok_all E f).resume _ _ _ _ hr hH
        have hT1 : TInv2 s1 Λ := (tok2_all E f).resume _ _ _ _ hr hT
        exact ih.drive _ _ _ _ _ h hH1 hT1 r1.1 r1.2.1
    · -- queryList
      intro s S ci s' ia r L Λ h hH hT hN
      rw [queryList] at h
      split at h
      · split at h
        · simp only [Option.some.injEq, Prod.mk.injEq] at h; rw [← h.1]; exact hN
        · split at h
          · simp only [Option.some.injEq, Prod.mk.injEq] at h; rw [← h.1]; exact hN
          · split at h
            · simp only [Option.some.injEq, Prod.mk.injEq] at h; rw [← h.1]; exact hN
            · split at h
              · simp at h
              · rename_i s1 hd
                have hs1 := ih.drive _ _ _ _ _ hd hH hT hN (frok_none rfl)
                split at h
                · split at h
                  · simp only [Option.some.injEq, Prod.mk.injEq] at h; rw [← h.1]; exact hs1
                  · split at h
                    · simp only [Option.some.injEq, Prod.mk.injEq] at h; rw [← h.1]; exact hs1
                    · simp at h
                · simp at h
      · simp at h
    · -- argLoop
      intro s cs ss ia agf acc s' ia' agf' acc' L Λ h hH hT hN
      cases cs with
      | nil => simp only [argLoop, Option.some.injEq, Prod.mk.injEq] at h; rw [← h.1]; exact hN
      | cons c cs =>
        cases ss with
        | nil => simp only [argLoop, Option.some.injEq, Prod.mk.injEq] at h; rw [← h.1]; exact hN
        | cons Si ss =>
          rw [argLoop] at h
          split at h
          · simp at h
          · rename_i s1 one r hq
            have hN1 := ih.queryList _ _ _ _ _ _ _ _ hq hH hT hN
            have hH1 : HInv s1 (symL L) := (hok_all E f).queryList _ _ _ _ _ _ _ hq hH
            have hT1 : TInv2 s1 Λ := (tok2_all E f).queryList _ _ _ _ _ _ _ hq hT
            split at h
            · split at h
              · simp only [Option.some.injEq, Prod.mk.injEq] at h; rw [← h.1]; exact hN1
              · exact ih.argLoop _ _ _ _ _ _ _ _ _ _ _ _ h hH1 hT1 hN1
            · exact ih.argLoop _ _ _ _ _ _ _ _ _ _ _ _ h hH1 hT1 hN1
    · -- combLoop
      intro s args ci c combs ns hg s' ns' hg' L Λ h hH hT hN
      cases combs with
      | nil => simp only [combLoop, Option.some.injEq, Prod.mk.injEq] at h; rw [← h.1]; exact hN
      | cons comb rest =>
        rw [combLoop] at h
        split at h
        · simp at h
        · rename_i s1 ia agf poss ha
          have hN1 := ih.argLoop _ _ _ _ _ _ _ _ _ _ _ _ ha hH hT hN
          have hH1 : HInv s1 (symL L) := (hok_all E f).argLoop _ _ _ _ _ _ _ _ _ _ _ ha hH
          have hT1 : TInv2 s1 (addT Λ args (comb :: rest)) := (tok2_all E f).argLoop _ _ _ _ _ _ _ _ _ _ _ ha hT
          simp only at h
          split at h
          · exact ih.combLoop _ _ _ _ _ _ _ _ _ _ _ _ h hH1 (tinv2_drop hT1) hN1
          · split at h
            · simp at h
            · rename_i s2 hsucc
              have e := succLoop_fields E.A E.asserts args c comb _ _ _ _ hsucc
              have hN2 : NInv E s2 L := ninv_of_eq e.1 e.2.1 e.2.2 (succLoop_deleted E.A E.asserts args c comb _ _ _ _ hsucc) hN1
              have hH2 : HInv s2 (symL L) := hinv_succLoop E.A E.asserts args c comb _ _ _ _ hsucc hH1
              have hT2 := tinv2_succLoop E.A E.asserts args c comb rest s1 s2 hsucc hT1
              split at h
              · exact ih.combLoop _ _ _ _ _ _ _ _ _ _ _ _ h hH2 hT2.1 hN2
              · split at h
                · simp at h
                · rename_i b hb
                  split at h
                  · simp at h
                  · rename_i l hl
                    have hagf : agf = false := by
                      cases agf with
                      | false => rfl
                      | true => cases ia <;> simp_all
                    have hposs : poss = refsOf args comb := by
                      have := (argLoop_refs E f _ _ _ _ _ _ _ _ _ _ ha hagf).2
                      simpa using this
                    have hN3 : NInv E { s2 with bankDer := AList.insert args (AList.insert ci (l ++ [poss]) b) s2.bankDer } L :=
                      ninv_transfer hN2 rfl (binv_of_eq rfl hN2.binv) (BMono.of_eq rfl) (BMono.of_eq rfl)
                        (fun a c' ps hp => possAt_append_mono hb hl a c' ps hp) rfl
                    have hH3 : HInv { s2 with bankDer := AList.insert args (AList.insert ci (l ++ [poss]) b) s2.bankDer } (symL L) :=
                      hinv_of_eq rfl hH2
                    have hT3 : TInv2 { s2 with bankDer := AList.insert args (AList.insert ci (l ++ [poss]) b) s2.bankDer }
                        (addT Λ args rest) := by
                      rw [hposs]; exact hT2.2 b ci l hb hl
                    exact ih.combLoop _ _ _ _ _ _ _ _ _ _ _ _ h hH3 hT3 hN3
    · -- queryDer
      intro s args ci s' l L Λ h hH hT hN
      rw [queryDer] at h
      split at h
      · rename_i cl b q hcl hb hq
        split at h
        · simp only [Option.some.injEq, Prod.mk.injEq] at h; rw [← h.1, ← h.2]; exact ⟨hN, Or.inl rfl⟩
        · split at h
          · rename_i l0 hl0
            simp only [Option.some.injEq, Prod.mk.injEq] at h; rw [← h.1, ← h.2]; exact ⟨hN, Or.inr ⟨b, hb, hl0⟩⟩
          · rename_i hl0
            have hN1a : NInv E { s with bankDer := AList.insert args (AList.insert ci [] b) s.bankDer } L :=
              ninv_transfer hN rfl (binv_of_eq rfl hN.binv) (BMono.of_eq rfl) (BMono.of_eq rfl)
                (fun a c' ps hp => possAt_nil_mono hb hl0 a c' ps hp) rfl
            simp only at h
            split at h
            · simp only [Option.some.injEq, Prod.mk.injEq] at h; rw [← h.1, ← h.2]; exact ⟨hN1a, Or.inl rfl⟩
            · split at h
              · simp at h
              · rename_i ct q' hpop
                have hT1 := tinv2_pop (ci := ci) hT hb hq hpop
                have hN1 : NInv E ({ s with bankDer := AList.insert args (AList.insert ci [] b) s.bankDer }.setQueueDer args q') L :=
                  ninv_of_eq (s := { s with bankDer := AList.insert args (AList.insert ci [] b) s.bankDer }) rfl rfl rfl rfl hN1a
                have hH1 : HInv ({ s with bankDer := AList.insert args (AList.insert ci [] b) s.bankDer }.setQueueDer args q') (symL L) :=
                  hinv_of_eq rfl hH
                split at h
                · simp at h
                · rename_i s3 ns hg hc
                  have hN3 := ih.combLoop _ _ _ _ _ _ _ _ _ _ _ _ hc hH1 hT1 hN1
                  split at h
                  · simp at h
                  · rename_i s4 hs4e
                    have hN4 : NInv E s4 L := by
                      split at hs4e
                      · split at hs4e
                        · simp at hs4e
                        · simp only [Option.some.injEq] at hs4e; subst hs4e; exact ninv_of_eq (s := s3) rfl rfl rfl rfl hN3
                      · simp only [Option.some.injEq] at hs4e; subst hs4e; exact hN3
                    split at h
                    · split at h
                      · simp at h
                      · rename_i s5 hs5e
                        have hN5 : NInv E s5 L := by
                          split at hs5e
                          · simp only [Option.some.injEq] at hs5e; subst hs5e; exact hN4
                          · split at hs5e
                            · simp at hs5e
                            · split at hs5e
                              · simp at hs5e
                              · simp only [Option.some.injEq] at hs5e; subst hs5e; exact ninv_of_eq (s := s4) rfl rfl rfl rfl hN4
                        split at h
                        · simp at h
                        · rename_i l5 hl5
                          simp only [Option.some.injEq, Prod.mk.injEq] at h; rw [← h.1, ← h.2]
                          refine ⟨hN5, Or.inr ?_⟩
                          cases hb5 : AList.lookup args s5.bankDer with
                          | none => simp [hb5] at hl5
                          | some b5 => exact ⟨b5, rfl, by simpa [hb5] using hl5⟩
                    · simp at h
      · simp at h

end PS.CD
