/- Facts about the heap-search machines (PS/Model/Enum/HeapSearch.lean, UHeapSearch.lean):
   the yield site (filter safety), merge bookkeeping, bucket order, monotonicity of the priority. -/
import PS.Model.Enum.HeapSearch
import PS.Model.Enum.UHeapSearch
import PS.Proofs.Enum.Heapq
namespace PS.HS
open PS PS.G
set_option linter.unusedSectionVars false
variable {S T π : Type} [DecidableEq S] [DecidableEq T]

/-- whatever `nextLoop` yields was accepted by the filter, is the program stored in `current`,
    and the machine is marked started -/
theorem nextLoop_yield (E : Env S T π) (fuel : Nat) :
    ∀ (k : Nat) (s : St S T π) (cur : Option Prog) (g' : Gen S T π) (p : Prog),
      nextLoop E fuel k s cur = some (g', some p) →
      E.filter p = true ∧ g'.current = some p ∧ g'.started = true := by
  intro k
  induction k with
  | zero => intro s cur g' p h; simp [nextLoop] at h
  | succ k ih =>
    intro s cur g' p h
    unfold nextLoop at h
    split at h
    · simp at h
    · simp at h
    · rename_i s1 q hq
      by_cases hf : E.filter q = true
      · simp only [hf, if_true, Option.some.injEq, Prod.mk.injEq] at h
        obtain ⟨rfl, rfl⟩ := h
        exact ⟨hf, rfl, rfl⟩
      · simp only [hf] at h
        exact ih _ _ _ _ h

/-- a program rejected at the yield site is in `deleted` afterwards -/
theorem mem_addDeleted (s : St S T π) (p : Prog) : p ∈ (s.addDeleted p).deleted := by
  unfold St.addDeleted
  by_cases h : s.deleted.contains p = true
  · simp only [h, if_true]; simpa using h
  · have h' : p ∉ s.deleted := by simpa using h
    simp [h']

theorem addDeleted_mono (s : St S T π) (p q : Prog) (h : q ∈ s.deleted) : q ∈ (s.addDeleted p).deleted := by
  unfold St.addDeleted
  by_cases hc : s.deleted.contains p = true
  · simp only [hc, if_true]; exact h
  · have h' : p ∉ s.deleted := by simpa using hc
    simp [h', h]

theorem mergeAt_deleted (other : Prog) (nt : NT S T) (s : St S T π) :
    (mergeAt other nt s).deleted = s.deleted := by
  unfold mergeAt
  split <;> rfl

theorem foldl_mergeAt_deleted (other : Prog) (nts : List (NT S T)) (s : St S T π) :
    (nts.foldl (fun s nt => mergeAt other nt s) s).deleted = s.deleted := by
  induction nts generalizing s with
  | nil => rfl
  | cons a r ih => simp only [List.foldl_cons]; rw [ih, mergeAt_deleted]

/-! ### Bucket order (heap_search.py:341-349) -/

theorem Bucket.lt_irrefl : ∀ a : Bucket, Bucket.lt a a = false
  | [] => rfl
  | x :: xs => by simp [Bucket.lt, Bucket.lt_irrefl xs]

theorem Bucket.lt_asymm : ∀ a b : Bucket, Bucket.lt a b = true → Bucket.lt b a = false
  | [], _, h => by simp [Bucket.lt] at h
  | _ :: _, [], h => by simp [Bucket.lt] at h
  | x :: xs, y :: ys, h => by
    simp only [Bucket.lt] at h ⊢
    by_cases h1 : x < y
    · have : ¬ y < x := by omega
      simp [this, h1]
    · by_cases h2 : x > y
      · simp [h1, h2] at h
      · have : x = y := by omega
        subst this
        simp only [Nat.lt_irrefl, if_false, gt_iff_lt] at h ⊢
        exact Bucket.lt_asymm xs ys h

theorem Bucket.lt_trans : ∀ a b c : Bucket, Bucket.lt a b = true → Bucket.lt b c = true → Bucket.lt a c = true
  | [], _, _, h, _ => by simp [Bucket.lt] at h
  | _ :: _, [], _, h, _ => by simp [Bucket.lt] at h
  | _ :: _, _ :: _, [], _, h => by simp [Bucket.lt] at h
  | x :: xs, y :: ys, z :: zs, h1, h2 => by
    simp only [Bucket.lt] at h1 h2 ⊢
    by_cases hxy : x < y
    · by_cases hyz : y < z
      · have : x < z := by omega
        simp [this]
      · by_cases hzy : y > z
        · simp [hyz, hzy] at h2
        · have : y = z := by omega
          subst this; simp [hxy]
    · by_cases hyx : x > y
      · simp [hxy, hyx] at h1
      · have : x = y := by omega
        subst this
        simp only [Nat.lt_irrefl, if_false, gt_iff_lt] at h1
        by_cases hyz : x < z
        · simp [hyz]
        · by_cases hzy : x > z
          · simp [hyz, hzy] at h2
          · have : x = z := by omega
            subst this
            simp only [Nat.lt_irrefl, if_false, gt_iff_lt] at h2 ⊢
            exact Bucket.lt_trans xs ys zs h1 h2

/-- `+=` is strictly monotone for the bucket order: replacing an argument by one with a larger
    bucket gives a larger bucket -/
theorem Bucket.add_lt_add : ∀ a b c : Bucket, a.length = b.length → b.length = c.length →
    Bucket.lt a b = true → Bucket.lt (Bucket.add a c) (Bucket.add b c) = true
  | [], _, _, _, _, h => by simp [Bucket.lt] at h
  | _ :: _, [], _, _, _, h => by simp [Bucket.lt] at h
  | _ :: _, _ :: _, [], _, h2, _ => by simp at h2
  | x :: xs, y :: ys, z :: zs, h1, h2, h => by
    simp only [Bucket.add, List.zipWith_cons_cons, Bucket.lt] at h ⊢
    by_cases hxy : x < y
    · have : x + z < y + z := by omega
      simp [this]
    · by_cases hyx : x > y
      · simp [hxy, hyx] at h
      · have : x = y := by omega
        subst this
        simp only [Nat.lt_irrefl, if_false, gt_iff_lt] at h ⊢
        have := Bucket.add_lt_add xs ys zs (by simpa using h1) (by simpa using h2) h
        simpa [Bucket.add] using this

/-! ### monotonicity of the probability (heap search) -/

/-- replacing one factor of a product of non-negative numbers by a smaller one does not
    increase the product: the successor of an argument gives a program that is not more probable -/
theorem prob_mono (w a b rest : Rat) (hw : 0 ≤ w) (hr : 0 ≤ rest) (hab : b ≤ a) :
    w * b * rest ≤ w * a * rest :=
  Rat.mul_le_mul_of_nonneg_right (Rat.mul_le_mul_of_nonneg_left hab hw) hr

end PS.HS

namespace PS.UHS
open PS PS.G
variable {U π : Type} [DecidableEq U]

theorem next_yield (E : Env U π) (fuel : Nat) :
    ∀ (k : Nat) (s s' : St U π) (p : Prog), next E fuel k s = some (s', some p) → E.filter p = true := by
  intro k
  induction k with
  | zero => intro s s' p h; simp [next] at h
  | succ k ih =>
    intro s s' p h
    unfold next at h
    split at h
    · simp at h
    · simp at h
    · rename_i s1 q hq
      by_cases hf : E.filter q = true
      · simp only [hf, if_true, Option.some.injEq, Prod.mk.injEq] at h
        obtain ⟨_, rfl⟩ := h
        exact hf
      · simp only [hf] at h
        exact ih _ _ _ h

end PS.UHS
