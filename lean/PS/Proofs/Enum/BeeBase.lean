/- Bee search: frame lemmas of the table transformers (which fields they touch) and a generic
   preservation lemma for predicates on the queued / delayed combinations. -/
import PS.Model.Enum.BeeSearch
import PS.Proofs.Enum.Heapq
namespace PS.Bee
open PS PS.G

variable {S : Type} [DecidableEq S]
set_option linter.unusedSectionVars false
set_option linter.unusedSimpArgs false

/-! ### association lists -/

theorem mem_insert {κ ν : Type} [DecidableEq κ] {k : κ} {v : ν} {d : AList κ ν} {x : κ × ν}
    (h : x ∈ AList.insert k v d) : x = (k, v) ∨ x ∈ d := by
  induction d with
  | nil => simp [AList.insert] at h; exact Or.inl h
  | cons p r ih =>
    obtain ⟨k', v'⟩ := p
    by_cases hk : k' = k
    · simp only [AList.insert, hk, if_true, List.mem_cons] at h
      rcases h with h | h
      · exact Or.inl h
      · exact Or.inr (List.mem_cons_of_mem _ h)
    · simp only [AList.insert, hk, if_false, List.mem_cons] at h
      rcases h with h | h
      · exact Or.inr (by rw [h]; exact List.mem_cons_self)
      · rcases ih h with h | h
        · exact Or.inl h
        · exact Or.inr (List.mem_cons_of_mem _ h)

theorem getD_lookup_mem {κ ν : Type} [DecidableEq κ] {k : κ} {d : AList κ (List ν)} {x : ν}
    (h : x ∈ (AList.lookup k d).getD []) : ∃ l, (k, l) ∈ d ∧ x ∈ l := by
  cases hl : AList.lookup k d with
  | none => simp [hl] at h
  | some l => simp [hl] at h; exact ⟨l, AList.lookup_some_mem hl, h⟩

/-! ### predicates on tables -/

/-- every queued element satisfies `Q` -/
def QAll (Q : NT S Unit → HeapElem → Prop) (s : St S) : Prop :=
  ∀ nt h, (nt, h) ∈ s.queued → ∀ e ∈ h, Q nt e

/-- every delayed combination satisfies `D` -/
def DAll (D : NT S Unit → Delayed → Prop) (s : St S) : Prop :=
  ∀ nt ds, (nt, ds) ∈ s.delayed → ∀ d ∈ ds, D nt d

/-- `s'` differs from `s` in the queued / delayed tables only -/
structure QD (s s' : St S) : Prop where
  cl : s'.costList = s.costList
  bank : s'.bank = s.bank
  deleted : s'.deleted = s.deleted
  maxIndex : s'.maxIndex = s.maxIndex
  hasMerged : s'.hasMerged = s.hasMerged

theorem QD.refl (s : St S) : QD s s := ⟨rfl, rfl, rfl, rfl, rfl⟩
theorem QD.trans {a b c : St S} (h1 : QD a b) (h2 : QD b c) : QD a c :=
  ⟨h2.cl.trans h1.cl, h2.bank.trans h1.bank, h2.deleted.trans h1.deleted, h2.maxIndex.trans h1.maxIndex,
   h2.hasMerged.trans h1.hasMerged⟩

theorem queueOf_mem {s : St S} {nt : NT S Unit} {e : HeapElem} (h : e ∈ s.queueOf nt) :
    ∃ l, (nt, l) ∈ s.queued ∧ e ∈ l := getD_lookup_mem h

theorem delayedOf_mem {s : St S} {nt : NT S Unit} {d : Delayed} (h : d ∈ s.delayedOf nt) :
    ∃ l, (nt, l) ∈ s.delayed ∧ d ∈ l := getD_lookup_mem h

/-- `_add_combination_`: frame, and what it adds -/
theorem addCombination_spec (E : Env S) (s s' : St S) (nt : NT S Unit) (P : Sym) (idx : List Nat)
    (chk : Option Nat) (h : addCombination E s nt P idx chk = some s') :
    QD s s' ∧
    ((needsDelay s.costList idx chk = some true ∧ s'.queued = s.queued ∧
        s'.delayed = AList.insert nt (s.delayedOf nt ++ [(idx, P, chk)]) s.delayed) ∨
     (needsDelay s.costList idx chk = some false ∧ s'.delayed = s.delayed ∧
        ∃ c, realCost E s.costList nt P idx = some c ∧
          s'.queued = AList.insert nt (Heapq.push ltE (s.queueOf nt) ⟨c, idx, P⟩) s.queued)) := by
  unfold addCombination at h
  cases hd : needsDelay s.costList idx chk with
  | none => simp [hd] at h
  | some b =>
    cases b with
    | true =>
      simp only [hd, Option.some.injEq] at h
      subst h
      exact ⟨⟨rfl, rfl, rfl, rfl, rfl⟩, Or.inl ⟨rfl, rfl, rfl⟩⟩
    | false =>
      simp only [hd] at h
      cases hc : realCost E s.costList nt P idx with
      | none => simp [hc] at h
      | some c =>
        simp only [hc, Option.some.injEq] at h
        subst h
        exact ⟨⟨rfl, rfl, rfl, rfl, rfl⟩, Or.inr ⟨rfl, rfl, c, rfl, rfl⟩⟩

/-- generic preservation: `Q` for what is pushed, `D` for what is delayed -/
theorem addCombination_all (E : Env S) (Q : NT S Unit → HeapElem → Prop) (D : NT S Unit → Delayed → Prop)
    (s s' : St S) (nt : NT S Unit) (P : Sym) (idx : List Nat) (chk : Option Nat)
    (h : addCombination E s nt P idx chk = some s')
    (hQ : ∀ c, needsDelay s.costList idx chk = some false → realCost E s.costList nt P idx = some c →
      Q nt ⟨c, idx, P⟩)
    (hD : needsDelay s.costList idx chk = some true → D nt (idx, P, chk))
    (hq : QAll Q s) (hd : DAll D s) : QAll Q s' ∧ DAll D s' := by
  obtain ⟨_, hs⟩ := addCombination_spec E s s' nt P idx chk h
  rcases hs with ⟨hn, hqe, hde⟩ | ⟨hn, hde, c, hc, hqe⟩
  · refine ⟨by intro nt' l hm; rw [hqe] at hm; exact hq nt' l hm, ?_⟩
    intro nt' l hm d hdm
    rw [hde] at hm
    rcases mem_insert hm with hm | hm
    · cases hm
      rcases List.mem_append.mp hdm with h1 | h1
      · obtain ⟨l0, hl0, hd0⟩ := delayedOf_mem h1
        exact hd _ _ hl0 _ hd0
      · simp at h1; subst h1; exact hD hn
    · exact hd _ _ hm _ hdm
  · refine ⟨?_, by intro nt' l hm; rw [hde] at hm; exact hd nt' l hm⟩
    intro nt' l hm e he
    rw [hqe] at hm
    rcases mem_insert hm with hm | hm
    · cases hm
      have := (Heapq.push_perm ltE (s.queueOf nt) ⟨c, idx, P⟩).mem_iff.mp he
      rcases List.mem_cons.mp this with h1 | h1
      · subst h1; exact hQ c hn hc
      · obtain ⟨l0, hl0, he0⟩ := queueOf_mem h1
        exact hq _ _ hl0 _ he0
    · exact hq _ _ hm _ he

theorem triggerElems_all (E : Env S) (Q : NT S Unit → HeapElem → Prop) (D D0 : NT S Unit → Delayed → Prop)
    (cl : List Int) (nt : NT S Unit)
    (hQ : ∀ idx P chk c, D0 nt (idx, P, chk) → needsDelay cl idx chk = some false →
      realCost E cl nt P idx = some c → Q nt ⟨c, idx, P⟩)
    (hD : ∀ idx P chk, D0 nt (idx, P, chk) → needsDelay cl idx chk = some true → D nt (idx, P, chk)) :
    ∀ (elems : List Delayed) (s s' : St S), triggerElems E nt elems s = some s' → s.costList = cl →
      (∀ d ∈ elems, D0 nt d) → QAll Q s → DAll D s → QD s s' ∧ QAll Q s' ∧ DAll D s' := by
  intro elems
  induction elems with
  | nil =>
    intro s s' h _ _ hq hd
    simp only [triggerElems, Option.some.injEq] at h
    subst h
    exact ⟨QD.refl _, hq, hd⟩
  | cons d rest ih =>
    intro s s' h hcl h0 hq hd
    obtain ⟨idx, P, chk⟩ := d
    simp only [triggerElems] at h
    cases ha : addCombination E s nt P idx chk with
    | none => simp [ha] at h
    | some s1 =>
      simp only [ha] at h
      have hd0 := h0 (idx, P, chk) List.mem_cons_self
      obtain ⟨hq1, hd1⟩ := addCombination_all E Q D s s1 nt P idx chk ha
        (fun c hn hc => hQ idx P chk c hd0 (hcl ▸ hn) (hcl ▸ hc)) (fun hn => hD idx P chk hd0 (hcl ▸ hn)) hq hd
      have hqd := (addCombination_spec E s s1 nt P idx chk ha).1
      obtain ⟨hqd2, hq2, hd2⟩ := ih s1 s' h (hqd.cl.trans hcl) (fun d hd => h0 d (List.mem_cons_of_mem _ hd)) hq1 hd1
      exact ⟨hqd.trans hqd2, hq2, hd2⟩

theorem triggerAll_all (E : Env S) (Q : NT S Unit → HeapElem → Prop) (D D0 : NT S Unit → Delayed → Prop)
    (cl : List Int)
    (hQ : ∀ nt idx P chk c, D0 nt (idx, P, chk) → needsDelay cl idx chk = some false →
      realCost E cl nt P idx = some c → Q nt ⟨c, idx, P⟩)
    (hD : ∀ nt idx P chk, D0 nt (idx, P, chk) → needsDelay cl idx chk = some true → D nt (idx, P, chk)) :
    ∀ (tab : AList (NT S Unit) (List Delayed)) (s s' : St S), triggerAll E tab s = some s' → s.costList = cl →
      (∀ nt ds, (nt, ds) ∈ tab → ∀ d ∈ ds, D0 nt d) → QAll Q s → DAll D s → QD s s' ∧ QAll Q s' ∧ DAll D s' := by
  intro tab
  induction tab with
  | nil =>
    intro s s' h _ _ hq hd
    simp only [triggerAll, Option.some.injEq] at h
    subst h
    exact ⟨QD.refl _, hq, hd⟩
  | cons e rest ih =>
    intro s s' h hcl h0 hq hd
    obtain ⟨nt, elems⟩ := e
    simp only [triggerAll] at h
    cases ha : triggerElems E nt elems s with
    | none => simp [ha] at h
    | some s1 =>
      simp only [ha] at h
      obtain ⟨hqd, hq1, hd1⟩ := triggerElems_all E Q D D0 cl nt (hQ nt) (hD nt) elems s s1 ha hcl
        (h0 nt elems List.mem_cons_self) hq hd
      obtain ⟨hqd2, hq2, hd2⟩ := ih s1 s' h (hqd.cl.trans hcl)
        (fun nt ds hm => h0 nt ds (List.mem_cons_of_mem _ hm)) hq1 hd1
      exact ⟨hqd.trans hqd2, hq2, hd2⟩

/-- `_add_cost_`: the cost list is extended by at most the new cost, the returned index points at it;
    `Q`/`D` are re-established for the new list from the monotone part `D0` of `D` -/
theorem addCost_all (E : Env S) (Q Q' : NT S Unit → HeapElem → Prop) (D D0 D' : NT S Unit → Delayed → Prop)
    (s s' : St S) (cost : Int) (ci : Nat) (h : addCost E s cost = some (s', ci))
    (hQQ : ∀ nt e, Q nt e → Q' nt e) (hDD0 : ∀ nt d, D nt d → D0 nt d)
    (hQ : ∀ nt idx P chk c, D0 nt (idx, P, chk) → needsDelay (s.costList ++ [cost]) idx chk = some false →
      realCost E (s.costList ++ [cost]) nt P idx = some c → Q' nt ⟨c, idx, P⟩)
    (hD : ∀ nt idx P chk, D0 nt (idx, P, chk) → needsDelay (s.costList ++ [cost]) idx chk = some true →
      D' nt (idx, P, chk))
    (hq : QAll Q s) (hd : DAll D s) :
    s'.costList[ci]? = some cost ∧ s'.bank = s.bank ∧ s'.deleted = s.deleted ∧ s'.maxIndex = s.maxIndex ∧
    s'.hasMerged = s.hasMerged ∧
    ((s' = s ∧ s.costList.getLast? = some cost) ∨
     (s'.costList = s.costList ++ [cost] ∧ s.costList.getLast? ≠ some cost ∧ ci = s.costList.length ∧
       QAll Q' s' ∧ DAll D' s')) := by
  unfold addCost at h
  by_cases hc : s.costList ≠ [] ∧ s.costList.getLast? = some cost
  · rw [if_pos hc] at h
    simp only [Option.some.injEq, Prod.mk.injEq] at h
    obtain ⟨rfl, rfl⟩ := h
    refine ⟨?_, rfl, rfl, rfl, rfl, Or.inl ⟨rfl, hc.2⟩⟩
    have := hc.2
    rw [List.getLast?_eq_getElem?] at this
    exact this
  · rw [if_neg hc] at h
    cases ht : triggerDelayed E { s with costList := s.costList ++ [cost] } with
    | none => simp [ht] at h
    | some s1 =>
      simp only [ht, Option.some.injEq, Prod.mk.injEq] at h
      obtain ⟨rfl, rfl⟩ := h
      unfold triggerDelayed at ht
      obtain ⟨hqd, hq1, hd1⟩ := triggerAll_all E Q' D' D0 (s.costList ++ [cost]) hQ hD s.delayed _ s1 ht rfl
        (fun nt ds hm d hdm => hDD0 nt d (hd nt ds hm d hdm))
        (fun nt l hm e he => hQQ nt e (hq nt l hm e he))
        (fun nt ds hm => by cases hm)
      have hcl : s1.costList = s.costList ++ [cost] := hqd.cl
      have hne : s.costList.getLast? ≠ some cost := by
        intro hl
        apply hc
        refine ⟨?_, hl⟩
        intro he; rw [he] at hl; simp at hl
      refine ⟨?_, hqd.bank, hqd.deleted, hqd.maxIndex, hqd.hasMerged, Or.inr ⟨hcl, hne, ?_, hq1, hd1⟩⟩
      · rw [hcl]; simp
      · rw [hcl]; simp

end PS.Bee
