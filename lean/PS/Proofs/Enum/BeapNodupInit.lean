/- No duplicates in beap search, part 4: after the prologue every queue holds each rule at most once
   (so the (rule, combination) pairs of a queue are pairwise distinct). -/
import PS.Proofs.Enum.BeapNodupRun
import PS.Proofs.Enum.BeapAcyclic
namespace PS.Beap
open PS PS.G PS.Heapq
set_option linter.unusedSectionVars false
variable {S : Type} [DecidableEq S]

structure DI (s : St S) : Prop where
  nodup : ∀ nt, ((s.queueOf nt).map (·.P)).Nodup
  fresh : ∀ nt, s.clOf nt = [] → s.queueOf nt = []

def IND (E : Env S) (n : Nat) : Prop := ∀ s nt s', DI s → initNT E n s nt = some s' → DI s' ∧ Keep none s s'
def IRD (E : Env S) (n : Nat) : Prop :=
  ∀ s nt rest s', DI s → s.clOf nt ≠ [] → (rest.map (·.1)).Nodup → (∀ el, el ∈ s.queueOf nt → el.P ∉ rest.map (·.1)) →
    initRules E n s nt rest = some s' → DI s' ∧ Keep (some nt) s s' ∧ s'.clOf nt = s.clOf nt
def IAD (E : Env S) (n : Nat) : Prop := ∀ s as c r, DI s → initArgs E n s as c = some r → DI r.1 ∧ Keep none s r.1

theorem ind_step (E : Env S) (hnd : RowsNodup E.G) (n : Nat) (ihIR : IRD E n) : IND E (n + 1) := by
  intro s nt s' hs h
  unfold initNT at h
  split at h
  · cases h
  · next cl hcl =>
    have hclof : s.clOf nt = cl := by simp [St.clOf, hcl]
    split at h
    · cases h; exact ⟨hs, Keep.refl _ _⟩
    · next hlen =>
      have hnil : cl = [] := by
        cases cl with
        | nil => rfl
        | cons x xs => simp at hlen
      subst hnil
      split at h
      · cases h
      · next rs hrs =>
        split at h
        · cases h
        · next s1 hir =>
          have hk0 : Keep none s (s.setCL nt ([] ++ [Cost.big])) := by
            intro y _ hy
            refine ⟨?_, rfl⟩
            rw [St.clOf_setCL]
            have : y ≠ nt := fun e => hy (by rw [e]; exact hclof)
            simp [this]
          have hs0 : DI (s.setCL nt ([] ++ [Cost.big])) := by
            refine ⟨fun x => hs.nodup x, fun x hx => ?_⟩
            have hxe : x ≠ nt := by
              intro he; subst he
              rw [St.clOf_setCL] at hx; simp at hx
            have : s.clOf x = [] := by rw [St.clOf_setCL] at hx; simpa [hxe] using hx
            exact hs.fresh x this
          have hq0 : (s.setCL nt ([] ++ [Cost.big])).queueOf nt = [] := hs.fresh nt hclof
          obtain ⟨q1, q2, q3⟩ := ihIR _ _ _ _ hs0 (by rw [St.clOf_setCL]; simp) (hnd nt rs hrs)
            (fun el hel => by rw [hq0] at hel; cases hel) hir
          split at h
          · cases h
          · cases h
            have hne1 : s1.clOf nt ≠ [] := by rw [q3, St.clOf_setCL]; simp
            refine ⟨⟨fun x => q1.nodup x, fun x hx => ?_⟩, ?_⟩
            · have hxe : x ≠ nt := by
                intro he; subst he
                rw [St.clOf_setCL] at hx; simp only [if_true] at hx
                have := congrArg List.length hx
                simp only [List.length_set, List.length_nil] at this
                exact hne1 (List.length_eq_zero_iff.mp this)
              have : s1.clOf x = [] := by rw [St.clOf_setCL] at hx; simpa [hxe] using hx
              exact q1.fresh x this
            · intro y _ hy
              have hyne : y ≠ nt := fun e => hy (by rw [e]; exact hclof)
              obtain ⟨a1, a2⟩ := hk0 y (by simp) hy
              obtain ⟨b1, b2⟩ := q2 y (fun e => hyne (Option.some.inj e)) (by rw [a1]; exact hy)
              refine ⟨?_, b2.trans a2⟩
              rw [St.clOf_setCL]; simp only [hyne, if_false]; exact b1.trans a1

theorem ird_step (E : Env S) (n : Nat) (ihIR : IRD E n) (ihIA : IAD E n) : IRD E (n + 1) := by
  intro s nt rest s' hs hne hnd hdis h
  cases rest with
  | nil => simp only [initRules] at h; cases h; exact ⟨hs, Keep.refl _ _, rfl⟩
  | cons pr rest =>
    obtain ⟨P, rl⟩ := pr
    simp only [initRules] at h
    split at h
    · cases h
    · split at h
      · cases h
      · next s1 cost hia =>
        obtain ⟨g1, g2⟩ := ihIA _ _ _ _ hs hia
        have g1 : DI s1 := g1
        have g2 : Keep none s s1 := g2
        obtain ⟨hcl1, hq1⟩ := g2 nt (by simp) hne
        have hnd' : P ∉ rest.map (·.1) ∧ (rest.map (·.1)).Nodup := List.nodup_cons.mp hnd
        have hPnot : P ∉ (s1.queueOf nt).map (·.P) := by
          rw [hq1]
          intro hm
          simp only [List.mem_map] at hm
          obtain ⟨el, hel, hp⟩ := hm
          exact hdis el hel (by simp [hp])
        have hs2 : DI (s1.setQueue nt (Heapq.push ltE (s1.queueOf nt) ⟨cost, List.replicate rl.1.length 0, P⟩)) := by
          refine ⟨fun x => ?_, fun x hx => ?_⟩
          · rw [St.queueOf_setQueue]
            split
            · next heq =>
              subst heq
              have hp := (push_perm ltE (s1.queueOf x) ⟨cost, List.replicate rl.1.length 0, P⟩).map (·.P)
              rw [hp.nodup_iff]
              simp only [List.map_cons]
              exact List.nodup_cons.mpr ⟨hPnot, g1.nodup x⟩
            · exact g1.nodup x
          · have hxe : x ≠ nt := by
              intro he; subst he
              have : s1.clOf x ≠ [] := by rw [hcl1]; exact hne
              exact this hx
            rw [St.queueOf_setQueue]; simp only [hxe, if_false]
            exact g1.fresh x hx
        have hk12 : Keep (some nt) s1 (s1.setQueue nt (Heapq.push ltE (s1.queueOf nt) ⟨cost, List.replicate rl.1.length 0, P⟩)) := by
          intro y hy _
          refine ⟨rfl, ?_⟩
          rw [St.queueOf_setQueue]
          have : y ≠ nt := fun e => hy (by rw [e])
          simp [this]
        obtain ⟨q1, q2, q3⟩ := ihIR _ _ _ _ hs2 (by show s1.clOf nt ≠ []; rw [hcl1]; exact hne) hnd'.2 (fun el hel hm => by
          rw [St.queueOf_setQueue] at hel; simp only [if_true] at hel
          rcases (mem_push _ _ _ _).mp hel with rfl | h'
          · exact hnd'.1 hm
          · rw [hq1] at h'
            exact hdis el h' (by simp [hm])) h
        exact ⟨q1, ((Keep.weaken g2).trans hk12).trans q2, by rw [q3]; exact hcl1⟩

theorem iad_step (E : Env S) (n : Nat) (ihIN : IND E n) (ihIA : IAD E n) : IAD E (n + 1) := by
  intro s as c r hs h
  cases as with
  | nil => simp only [initArgs] at h; cases h; exact ⟨hs, Keep.refl _ _⟩
  | cons a as =>
    simp only [initArgs] at h
    split at h
    · cases h
    · next s1 hin =>
      obtain ⟨g1, g2⟩ := ihIN _ _ _ hs hin
      split at h
      · cases h
      · obtain ⟨q1, q2⟩ := ihIA _ _ _ _ g1 h
        exact ⟨q1, g2.trans q2⟩

theorem init_di (E : Env S) (hnd : RowsNodup E.G) : ∀ n, IND E n ∧ IRD E n ∧ IAD E n := by
  intro n
  induction n with
  | zero =>
    refine ⟨?_, ?_, ?_⟩
    · intro s nt s' _ h; simp [initNT] at h
    · intro s nt rest s' _ _ _ _ h; simp [initRules] at h
    · intro s as c r _ h; simp [initArgs] at h
  | succ n ih =>
    obtain ⟨a, b, c⟩ := ih
    exact ⟨ind_step E hnd n b, ird_step E n b c, iad_step E n a c⟩

theorem mapOpt_P (E : Env S) (s : St S) (nt : NT S Unit) : ∀ (q nq : List HeapEl), mapOpt (recost E s nt) q = some nq →
    nq.map (·.P) = q.map (·.P)
  | [], nq, h => by simp only [mapOpt, Option.some.injEq] at h; subst h; rfl
  | x :: xs, nq, h => by
    unfold mapOpt at h
    split at h
    · next y ys h1 h2 =>
      cases h
      simp only [List.map_cons, (recost_keeps E s nt x y h1).1, mapOpt_P E s nt xs ys h2]
    · cases h

theorem reevalPass_di (E : Env S) : ∀ (nts : List (NT S Unit)) (s : St S) (ch : Bool) (r : St S × Bool),
    (∀ nt, ((s.queueOf nt).map (·.P)).Nodup) → reevalPass E nts s ch = some r → ∀ nt, ((r.1.queueOf nt).map (·.P)).Nodup := by
  intro nts
  induction nts with
  | nil => intro s ch r hs h; simp only [reevalPass] at h; cases h; exact hs
  | cons nt rest ih =>
    intro s ch r hs h
    simp only [reevalPass] at h
    split at h
    · cases h
    · next nq hnq =>
      split at h
      · split at h
        · next e q' c0 cl' hh hcl =>
          refine ih _ _ _ (fun x => ?_) h
          show (((s.setQueue nt (e :: q')).queueOf x).map (·.P)).Nodup
          rw [St.queueOf_setQueue]
          split
          · next heq =>
            subst heq
            have hp := ((heapify_perm ltE nq).map (·.P))
            rw [hh] at hp
            rw [hp.nodup_iff, mapOpt_P E s x _ _ hnq]
            exact hs x
          · exact hs x
        · cases h
      · exact ih _ _ _ hs h

theorem reevalLoop_di (E : Env S) : ∀ (k : Nat) (s s' : St S), (∀ nt, ((s.queueOf nt).map (·.P)).Nodup) →
    reevalLoop E k s = some s' → ∀ nt, ((s'.queueOf nt).map (·.P)).Nodup := by
  intro k
  induction k with
  | zero => intro s s' _ h; simp [reevalLoop] at h
  | succ k ih =>
    intro s s' hs h
    simp only [reevalLoop] at h
    split at h
    · cases h
    · next s1 hp => exact ih _ _ (reevalPass_di E _ _ _ _ hs hp) h
    · next s1 hp => cases h; exact reevalPass_di E _ _ _ _ hs hp

/-- after the prologue every queue holds each rule at most once -/
theorem prologue_di (E : Env S) (hnd : RowsNodup E.G) (fuel : Nat) (s' : St S)
    (h : prologue E fuel (St.empty E.G) = some s') : ∀ nt, ((s'.queueOf nt).map (·.P)).Nodup := by
  unfold prologue at h
  split at h
  · cases h
  · next s1 hin =>
    have h0 : DI (St.empty E.G) := by
      refine ⟨fun nt => ?_, fun nt _ => lookup_map_nil E.G.rules nt⟩
      have : (St.empty E.G).queueOf nt = [] := lookup_map_nil E.G.rules nt
      rw [this]; exact List.nodup_nil
    have h1 := ((init_di E hnd fuel).1 _ _ _ h0 hin).1
    unfold reevaluate at h
    split at h
    · exact reevalLoop_di E _ _ _ h1.nodup h
    · cases h; exact h1.nodup

/-- **the no-duplicates invariant holds after the prologue** (with the empty ghost table) -/
theorem prologue_ni (E : Env S) (hnd : RowsNodup E.G) (fuel : Nat) (s' : St S)
    (h : prologue E fuel (St.empty E.G) = some s') : NI E s' (fun _ => []) := by
  have hpi := prologue_pi E hnd fuel s' h
  have hdi := prologue_di E hnd fuel s' h
  have hbank : ∀ nt ci, s'.bankAt nt ci = [] := by
    intro nt ci
    have : s'.bankAt nt ci = (St.empty E.G).bankAt nt ci := by unfold St.bankAt St.bankOf; rw [hpi.bank]
    rw [this]
    have : (St.empty E.G).bankOf nt = [] := lookup_map_nil E.G.rules nt
    simp [St.bankAt, this]
  refine ⟨fun nt => ?_, fun nt P t hm => Or.inl ?_, fun nt ci p hp => (by rw [hbank] at hp; cases hp), fun nt ci => (by rw [hbank]; exact List.nodup_nil)⟩
  · simp only [List.append_nil]
    -- equal pairs have equal rules
    have := hdi nt
    exact nodup_of_map (fun el => el.P) key2 (fun a b hab => by simp only [key2, Prod.mk.injEq] at hab; exact hab.1) _ this
  · simp only [List.append_nil, List.mem_map] at hm
    obtain ⟨el, hel, hk⟩ := hm
    simp only [key2, Prod.mk.injEq] at hk
    obtain ⟨rfl, rfl⟩ := hk
    -- the combination of a queued element is all zeros
    intro j
    have hz := hpi.zero nt el hel
    -- it needs the rule of `el.P`: every queue element is a rule (SInv)
    have hsinv := prologue_sound E hnd fuel _ _ (sinv_empty E) h
    obtain ⟨rl, hr, _⟩ := hsinv.queue nt el hel
    rw [hz rl hr]
    simp [List.getD_eq_getElem?_getD, List.getElem?_replicate]
    split <;> rfl
where
  nodup_of_map {α β γ : Type} (f : α → β) (g : α → γ) (hfg : ∀ a b, g a = g b → f a = f b) : ∀ (l : List α), (l.map f).Nodup → (l.map g).Nodup
    | [], _ => List.nodup_nil
    | a :: as, h => by
      have hh : f a ∉ as.map f ∧ (as.map f).Nodup := List.nodup_cons.mp h
      simp only [List.map_cons]
      refine List.nodup_cons.mpr ⟨fun hm => ?_, nodup_of_map f g hfg as hh.2⟩
      simp only [List.mem_map] at hm
      obtain ⟨b, hb, he⟩ := hm
      exact hh.1 (List.mem_map.mpr ⟨b, hb, hfg b a he⟩)

end PS.Beap
