/- Termination of heap search / bucket search with a filter and a threshold on acyclic
   context-free grammars: with enough fuel the prologue returns, every `next` returns, and the
   generator stops after finitely many `next` (the popped programs are distinct members of a
   finite language; the pop loop and the yield loop skip at most that many rejected programs). -/
import Mathlib.Data.List.Perm.Subperm
import PS.Proofs.Enum.GTotal
import PS.Proofs.Enum.HSPrologueTotal
namespace PS.HG
open PS PS.G PS.HS
set_option linter.unusedSectionVars false
set_option linter.unusedVariables false
variable {S π : Type} [DecidableEq S]

theorem mem_membersG (G : TT S Unit) (rank : NT S Unit → Nat) (hrows : RowsNodup G)
    (hac : ∀ nt F ra, G.rule? nt F = some (ra, ()) → ∀ a ∈ ra, rank (argNT a) < rank nt)
    (p : Prog) (hg : gen G p G.start = true) : p ∈ members G rank :=
  (mem_lang_iff G hrows _ p G.start).mpr ⟨hg, depth_le_rank G rank hac p G.start hg⟩

/-- what was popped for the start symbol is a duplicate-free list of members -/
theorem chain_len {E : Env S Unit π} {rank} {Good} (A : AllHyp E rank Good) {H0} {s : St S Unit π} {full : List Prog}
    (hf : Full E H0 s) (hch : chainFrom (s.succOf E.G.start) none full) :
    full.length ≤ (members E.G rank).length := by
  have hnd : full.Nodup := chainFrom_nodup _ (fun k k' v h1 h2 => hf.ninv.succ_inj _ k k' v h1 h2) full none hch
    (fun z _ e => by cases e)
  apply hnd.length_le_of_subset
  intro z hz
  obtain ⟨k, hk⟩ := chain_mem_value _ full none hch z hz
  exact mem_membersG E.G rank A.init.rows A.init.acyclic z (hf.sinv.seen_gen _ _ (hf.sinv.succ_seen _ k z hk))

theorem arityLe_maxArityG (G : TT S Unit) : ArityLe G (maxArity G) :=
  fun nt F ra h => HS.arityLe_maxArity G nt F ra h

/-! ### the yield loop returns -/

theorem nextLoop_total {E : Env S Unit π} {rank} {Good} (A : AllHyp E rank Good) {H0 : NT S Unit → List (π × Prog)}
    (fuel : Nat)
    (hfuel : (rank E.G.start + 1) * (maxArity E.G + 5 + (members E.G rank).length) ≤ fuel) :
    ∀ (k : Nat) (s : St S Unit π) (cur : Option Prog) (full : List Prog),
      (members E.G rank).length - full.length + 1 ≤ k →
      Quiet E H0 s → chainFrom (s.succOf E.G.start) none full → cur = lastOr none full →
      s.deleted.length ≤ full.length → ∃ res, nextLoop E fuel k s cur = some res := by
  intro k
  induction k with
  | zero => intro s cur full hk; omega
  | succ k ih =>
    intro s cur full hk q hch hcur hdl
    have R := A.run
    have hpre : OPre E H0 (.query E.G.start cur) s := by
      intro x hx
      left
      rw [hcur] at hx
      rcases lastOr_mem none full with e | ⟨z, hz, e⟩
      · rw [e] at hx; cases hx
      · rw [e] at hx; cases hx
        exact chain_mem_value _ full none hch x hz
    have q0 : Quiet0 E H0 s := ⟨q.full, q.tinv, q.cinv, q.i3, q.init_seen, q.del_rej⟩
    have hlen := chain_len A q.full hch
    obtain ⟨⟨s1, r⟩, hq⟩ := query_total (Dm := (members E.G rank).length) R.law (arityLe_maxArityG E.G)
      (rank E.G.start + 1) E.G.start (by omega) fuel hfuel s cur q.full (by omega) hpre
    unfold nextLoop
    rw [hq]
    cases r with
    | none => exact ⟨_, rfl⟩
    | some p =>
      simp only
      by_cases hacc : E.filter p = true
      · simp only [hacc, if_true]; exact ⟨_, rfl⟩
      · have hrej' : E.filter p = false := by simpa using hacc
        simp only [hrej', Bool.false_eq_true, if_false]
        have hb := big_of_query E hq
        obtain ⟨q1, hs1⟩ := quiet0_query R q0 hpre hb
        have c := big_core R.law hb q.full trivial trivial hpre
        have hch1 : chainFrom (s1.succOf E.G.start) none (full ++ [p]) := by
          rw [chainFrom_snoc]
          exact ⟨chainFrom_stable (fun k v hk => c.stable _ k v hk) _ _ hch, by rw [← hcur]; exact c.post p rfl⟩
        have hq1 := q1.quiet (hs1 q.started)
        have hq2 := quiet_addDeleted hq1 p hrej'
        have hsucc2 : (s1.addDeleted p).succOf E.G.start = s1.succOf E.G.start := by
          unfold St.addDeleted; split <;> rfl
        have hlen1 := chain_len A c.full hch1
        have hdl2 : (s1.addDeleted p).deleted.length ≤ (full ++ [p]).length := by
          have h1 : s1.deleted.length ≤ full.length := by rw [c.del]; exact hdl
          unfold St.addDeleted
          split
          · simp; omega
          · simp; omega
        refine ih (s1.addDeleted p) (some p) (full ++ [p]) ?_ hq2 (by rw [hsucc2]; exact hch1)
          (by rw [lastOr_snoc]) hdl2
        simp only [List.length_append, List.length_singleton] at hlen1 ⊢
        omega

/-! ### the prologue returns -/

theorem firstQueries_total {E : Env S Unit π} {rank} {Good} (L : Law E rank Good) {H0 : NT S Unit → List (π × Prog)}
    {A Rall : Nat} (hA : ArityLe E.G A) (hR : RankLt E.G rank Rall) (fuel : Nat) (hfuel : Rall * (A + 5) ≤ fuel) :
    ∀ (nts : List (NT S Unit)), (∀ nt ∈ nts, nt ∈ AList.keys E.G.rules) → ∀ (s : St S Unit π), Full E H0 s →
      s.deleted = [] → ∃ s', firstQueries E fuel nts s = some s' := by
  intro nts
  induction nts with
  | nil => intro _ s _ _; exact ⟨s, rfl⟩
  | cons nt rest ih =>
    intro hk s hf hd
    have hpre : OPre E H0 (.query nt none) s := by intro x hx; cases hx
    obtain ⟨res, hq⟩ := query_total (Dm := 0) L hA Rall nt (hR nt (hk nt (List.mem_cons_self))) fuel
      (by simpa using hfuel) s none hf (by rw [hd]; exact Nat.le_refl _) hpre
    have c := big_core L (big_of_query E (s' := res.1) (r := res.2) hq) hf trivial trivial hpre
    obtain ⟨s', h'⟩ := ih (fun x hx => hk x (List.mem_cons_of_mem _ hx)) res.1 c.full (c.del.trans hd)
    exact ⟨s', by unfold firstQueries; rw [hq]; exact h'⟩

/-- fuel that is enough for everything, with a filter -/
def enoughFuelF (G : TT S Unit) (rank : NT S Unit → Nat) : Nat :=
  maxRank G rank * (maxArity G + maxRow G + 5 + (members G rank).length)

/-- **the prologue of `generator()` returns** -/
theorem prologue_totalG {E : Env S Unit π} {rank} {Good} (A : AllHyp E rank Good) (hclosed : Closed E.G)
    (hstart : E.G.start ∈ AList.keys E.G.rules) (fuel : Nat)
    (hfuel : maxRank E.G rank * (maxArity E.G + maxRow E.G + 5) ≤ fuel) :
    ∃ s0, prologue E fuel (St.empty E.G) = some s0 := by
  have T : TotHyp E rank (maxArity E.G) (maxRow E.G) :=
    ⟨A.init, A.run.wtotal, hclosed, arityLe_maxArityG E.G, rowLe_maxRow E.G⟩
  have hR := rankLt_maxRank E.G rank
  have hR1 : 1 ≤ maxRank E.G rank := by unfold maxRank; omega
  have hmul : ∀ x, x ≤ maxArity E.G + maxRow E.G + 5 →
      maxRank E.G rank * x ≤ maxRank E.G rank * (maxArity E.G + maxRow E.G + 5) :=
    fun x hx => Nat.mul_le_mul_left _ hx
  have hf_init : maxRank E.G rank * (maxArity E.G + maxRow E.G + 4) ≤ fuel :=
    Nat.le_trans (hmul _ (by omega)) hfuel
  have hf_query : maxRank E.G rank * (maxArity E.G + 5) ≤ fuel := Nat.le_trans (hmul _ (by omega)) hfuel
  have hf2 : 2 ≤ fuel := by
    have : 1 * 5 ≤ maxRank E.G rank * (maxArity E.G + maxRow E.G + 5) := Nat.mul_le_mul hR1 (by omega)
    omega
  have hg := ginv_new E
  have hs_e : MaxSt E (St.empty E.G) := ⟨kinv_empty E, hg.2 rfl, cachedM_empty E, rfl⟩
  obtain ⟨s1, h1, hs1, _, _, hf1⟩ := initNT_top T hR fuel hf_init _ hs_e E.G.start hstart
  obtain ⟨s2, h2, hs2, hf2', hdone⟩ := reevaluate_total T hR fuel hf_init (by omega) fuel hf2 s1 hs1
  have hfr := hf1.trans hf2'
  have hseen : ∀ nt, s2.seenOf nt = [] := by
    intro nt
    unfold St.seenOf
    rw [hfr.2.2.2.1]
    exact getD_lookup_map_const _ _ _
  obtain ⟨s3, h3⟩ := initHeaps_total E A.init A.run.wtotal s2 hs2.kinv hs2.minv (argsCached_of hs2.kinv hs2.cached) hdone
    E.G.rules A.keys (fun nt rs hmem => AList.lookup_of_mem_nodup A.keys hmem) s2 rfl (fun nt _ _ => hseen nt)
    (fun _ h => h)
  have hpre : preHeaps E fuel (St.empty E.G) = some s3 := by
    unfold preHeaps
    rw [h1]
    simp only
    rw [h2]
    exact h3
  obtain ⟨q3, _, hd3⟩ := preHeaps_quiet A.run.law A.init A.keys fuel s3 hpre
  obtain ⟨s0, h0⟩ := firstQueries_total A.run.law (arityLe_maxArityG E.G) hR fuel hf_query (AList.keys E.G.rules)
    (fun _ h => h) s3 q3.full hd3
  exact ⟨s0, by rw [prologue_eq, hpre]; exact h0⟩

/-! ### the generator stops -/

theorem next_totalG {E : Env S Unit π} {rank} {Good} (A : AllHyp E rank Good) (hclosed : Closed E.G)
    (hstart : E.G.start ∈ AList.keys E.G.rules) (fuel : Nat) (hfuel : enoughFuelF E.G rank ≤ fuel)
    (g : Gen S Unit π) (full : List Prog)
    (hst : g.started = true → ∃ H0, RG E H0 g full)
    (hns : g.started = false → g.st = St.empty E.G ∧ g.current = none ∧ full = []) :
    ∃ res, next E fuel g = some res := by
  have hlt := rankLt_maxRank E.G rank E.G.start hstart
  have hR1 : 1 ≤ maxRank E.G rank := by unfold maxRank; omega
  unfold enoughFuelF at hfuel
  have hq : (rank E.G.start + 1) * (maxArity E.G + 5 + (members E.G rank).length) ≤ fuel :=
    Nat.le_trans (Nat.mul_le_mul (by omega) (by omega)) hfuel
  have hp : maxRank E.G rank * (maxArity E.G + maxRow E.G + 5) ≤ fuel :=
    Nat.le_trans (Nat.mul_le_mul_left _ (by omega)) hfuel
  have hM : (members E.G rank).length + 1 ≤ fuel := by
    have : 1 * (maxArity E.G + maxRow E.G + 5 + (members E.G rank).length) ≤
        maxRank E.G rank * (maxArity E.G + maxRow E.G + 5 + (members E.G rank).length) := Nat.mul_le_mul_right _ hR1
    omega
  unfold next
  split
  · rename_i hs
    obtain ⟨H0, hrg⟩ := hst hs
    exact nextLoop_total A fuel hq fuel g.st g.current full (by omega) hrg.quiet hrg.chain hrg.cur hrg.del_len
  · rename_i hs
    have hs' : g.started = false := by simpa using hs
    obtain ⟨e1, e2, e3⟩ := hns hs'
    obtain ⟨s0, hp0⟩ := prologue_totalG A hclosed hstart fuel hp
    rw [e1, hp0]
    simp only
    obtain ⟨H0, q0, hd0⟩ := prologue_quiet A.run A.init A.keys fuel s0 hp0
    exact nextLoop_total A fuel hq fuel s0 g.current [] (by simp; omega) q0 trivial (by rw [e2]; rfl)
      (by rw [hd0]; exact Nat.le_refl _)

theorem take_stops_aux {E : Env S Unit π} {rank} {Good} (A : AllHyp E rank Good) (hclosed : Closed E.G)
    (hstart : E.G.start ∈ AList.keys E.G.rules) (fuel : Nat) (hfuel : enoughFuelF E.G rank ≤ fuel) :
    ∀ (n : Nat) (g : Gen S Unit π) (acc full : List Prog), (members E.G rank).length - full.length ≤ n →
      (g.started = true → ∃ H0, RG E H0 g full) →
      (g.started = false → g.st = St.empty E.G ∧ g.current = none ∧ full = []) →
      ∃ k g' out, take E fuel k g acc = some (g', out, true) := by
  intro n
  induction n with
  | zero =>
    intro g acc full hn hst hns
    obtain ⟨⟨g1, r⟩, hnx⟩ := next_totalG A hclosed hstart fuel hfuel g full hst hns
    cases r with
    | none => exact ⟨1, g1, acc, by simp [take, hnx]⟩
    | some p =>
      exfalso
      obtain ⟨H0, rej, hrg, _, _, _, _⟩ := next_run A fuel g g1 (some p) full hst hns hnx
      have := chain_len A hrg.quiet.full hrg.chain
      simp only [Option.toList, List.length_append, List.length_singleton] at this
      omega
  | succ n ih =>
    intro g acc full hn hst hns
    obtain ⟨⟨g1, r⟩, hnx⟩ := next_totalG A hclosed hstart fuel hfuel g full hst hns
    cases r with
    | none => exact ⟨1, g1, acc, by simp [take, hnx]⟩
    | some p =>
      obtain ⟨H0, rej, hrg, hstd, _, _, _⟩ := next_run A fuel g g1 (some p) full hst hns hnx
      have hl := chain_len A hrg.quiet.full hrg.chain
      obtain ⟨k, g', out, hk⟩ := ih g1 (acc ++ [p]) (full ++ rej ++ (some p).toList) (by
          simp only [Option.toList, List.length_append, List.length_singleton] at hl ⊢
          omega) (fun _ => ⟨H0, hrg⟩) (fun hf => by rw [hstd] at hf; cases hf)
      exact ⟨k + 1, g', out, by simp [take, hnx, hk]⟩

/-- **TERMINATION with a filter and a threshold** -/
theorem take_totalG {E : Env S Unit π} {rank} {Good} (A : AllHyp E rank Good) (hclosed : Closed E.G)
    (hstart : E.G.start ∈ AList.keys E.G.rules) (fuel : Nat) (hfuel : enoughFuelF E.G rank ≤ fuel) :
    ∃ k g' out, take E fuel k (Gen.new E.G) [] = some (g', out, true) :=
  take_stops_aux A hclosed hstart fuel hfuel _ (Gen.new E.G) [] [] (Nat.le_refl _) (fun hs => by cases hs)
    (fun _ => ⟨rfl, rfl, rfl⟩)

end PS.HG
