/- `next` from a generator on which `merge_program` was called before the first `next`: the invariants of
   the cost / order / no-duplicates developments hold as from the fresh generator. -/
import PS.Proofs.Enum.BeapFresh
namespace PS.Beap
open PS PS.G PS.Heapq
set_option linter.unusedSectionVars false
variable {S : Type} [DecidableEq S]

/-- the three invariants for the state the prologue returns from a fresh state -/
theorem prologue_fresh_inv (E : Env S) (hnd : RowsNodup E.G) (hst : StableAfter E) (hprod : Productive E) (fuel : Nat)
    (s0 s : St S) (hf : Fresh E s0) (h : prologue E fuel s0 = some s) :
    CInv E s ∧ (PosW E → OI s) ∧ NI E s (fun _ => []) ∧ (s.clOf E.G.start).length ≤ 1 := by
  obtain ⟨s', hp', hsim, hbank⟩ := prologue_fresh E fuel s0 s hf h
  have hbank' : ∀ nt ci, s'.bankAt nt ci = [] := by
    intro nt ci
    have hpi := prologue_pi E hnd fuel s' hp'
    have : s'.bankAt nt ci = (St.empty E.G).bankAt nt ci := by unfold St.bankAt St.bankOf; rw [hpi.bank]
    rw [this]; exact (fresh_empty E).2 nt ci
  have hb : ∀ nt ci, s.bankAt nt ci = s'.bankAt nt ci := fun nt ci => by rw [hbank, hbank']
  refine ⟨(prologue_cinv E hnd hst hprod fuel s' hp').of_eq hsim.clOf hsim.queueOf hb,
    fun hpos => (prologue_oi E hnd hst hprod hpos fuel s' hp').of_eq hsim.clOf hsim.queueOf,
    (prologue_ni E hnd fuel s' hp').of_eq hsim.queueOf hb, ?_⟩
  rw [hsim.clOf]; exact (prologue_pi E hnd fuel s' hp').len E.G.start

/-- `next` keeps the three generator invariants, also when `merge_program` was called before the first `next` -/
theorem next_all (E : Env S) (hnd : RowsNodup E.G) (hst : StableAfter E) (hprod : Productive E) (hpos : PosW E)
    (fuel : Nat) (g : Gen S) (r : Gen S × Option Prog) (hgc : GC E g) (hgo : GO E g) (hgn : GN E g)
    (hfresh : g.started = false → Fresh E g.st ∧ g.frame = none) (h : next E fuel g = some r) :
    GC E r.1 ∧ GO E r.1 ∧ GN E r.1 ∧ (g.started = true → g.n ≤ r.1.n) ∧
    (∀ p, r.2 = some p → r.1.started = true ∧ YieldAt E r.1.st p r.1.n) ∧ (r.1.started = true ∨ r.1 = g) := by
  by_cases hs : g.started = true
  · have hfr : g.started = false → g.st = St.empty E.G ∧ g.frame = none := fun h0 => by rw [hs] at h0; cases h0
    obtain ⟨q1, _, q3, q4⟩ := next_cost E hnd hst hprod fuel g r hgc hfr h
    have q5 := next_order E hnd hst hprod hpos fuel g r hgc hgo hfr h
    obtain ⟨q6, _, _⟩ := next_nodup E hnd hst hprod hpos fuel g r hgc hgo hgn hfr h
    refine ⟨q1, q5, q6, q3, q4, ?_⟩
    unfold next at h
    split at h
    · cases h; exact Or.inr rfl
    · exact Or.inl (next_cost.nextLoop_started E fuel _ _ _ _ _ _ h)
  · have hs' : g.started = false := by simpa using hs
    obtain ⟨hf, hfrm⟩ := hfresh hs'
    unfold next at h
    split at h
    · cases h; exact ⟨hgc, hgo, hgn, fun h0 => absurd h0 hs, fun p hp => (by cases hp), Or.inr rfl⟩
    · split at h
      · cases h
      · next s hp =>
        obtain ⟨hc, hoi, hni, hlen⟩ := prologue_fresh_inv E hnd hst hprod fuel g.st s hf hp
        obtain ⟨a1, _, _, a4⟩ := nextLoop_cost E fuel _ _ _ _ _ _ hc (fun fr he => by cases he) h
        have a5 := nextLoop_order E hpos fuel _ _ _ _ _ _ hc (hoi hpos) (fun fr he => by cases he) (fun _ => by omega) h
        obtain ⟨a6, _, _⟩ := nextLoop_nodup E hpos fuel _ _ _ _ _ _ _ hc (hoi hpos) hni (fun fr he => by cases he) (fun _ => by omega) h
        have hstd := next_cost.nextLoop_started E fuel _ _ _ _ _ _ h
        exact ⟨a1, a5, a6, fun h0 => absurd h0 hs, fun p hp' => ⟨hstd, a4 p hp'⟩, Or.inl hstd⟩

/-- the cost invariant alone (no positivity hypothesis) -/
theorem next_c (E : Env S) (hnd : RowsNodup E.G) (hst : StableAfter E) (hprod : Productive E)
    (fuel : Nat) (g : Gen S) (r : Gen S × Option Prog) (hgc : GC E g)
    (hfresh : g.started = false → Fresh E g.st ∧ g.frame = none) (h : next E fuel g = some r) :
    GC E r.1 ∧ (g.started = true → g.n ≤ r.1.n) ∧
    (∀ p, r.2 = some p → r.1.started = true ∧ YieldAt E r.1.st p r.1.n) ∧ (r.1.started = true ∨ r.1 = g) := by
  by_cases hs : g.started = true
  · have hfr : g.started = false → g.st = St.empty E.G ∧ g.frame = none := fun h0 => by rw [hs] at h0; cases h0
    obtain ⟨q1, _, q3, q4⟩ := next_cost E hnd hst hprod fuel g r hgc hfr h
    refine ⟨q1, q3, q4, ?_⟩
    unfold next at h
    split at h
    · cases h; exact Or.inr rfl
    · exact Or.inl (next_cost.nextLoop_started E fuel _ _ _ _ _ _ h)
  · have hs' : g.started = false := by simpa using hs
    obtain ⟨hf, hfrm⟩ := hfresh hs'
    unfold next at h
    split at h
    · cases h; exact ⟨hgc, fun h0 => absurd h0 hs, fun p hp => (by cases hp), Or.inr rfl⟩
    · split at h
      · cases h
      · next s hp =>
        obtain ⟨hc, _, _, _⟩ := prologue_fresh_inv E hnd hst hprod fuel g.st s hf hp
        obtain ⟨a1, _, _, a4⟩ := nextLoop_cost E fuel _ _ _ _ _ _ hc (fun fr he => by cases he) h
        have hstd := next_cost.nextLoop_started E fuel _ _ _ _ _ _ h
        exact ⟨a1, fun h0 => absurd h0 hs, fun p hp' => ⟨hstd, a4 p hp'⟩, Or.inl hstd⟩

/-- the cost and order invariants alone (they survive `merge_program` at any time) -/
theorem next_co (E : Env S) (hnd : RowsNodup E.G) (hst : StableAfter E) (hprod : Productive E) (hpos : PosW E)
    (fuel : Nat) (g : Gen S) (r : Gen S × Option Prog) (hgc : GC E g) (hgo : GO E g)
    (hfresh : g.started = false → Fresh E g.st ∧ g.frame = none) (h : next E fuel g = some r) :
    GC E r.1 ∧ GO E r.1 ∧ (g.started = true → g.n ≤ r.1.n) ∧
    (∀ p, r.2 = some p → r.1.started = true ∧ YieldAt E r.1.st p r.1.n) ∧ (r.1.started = true ∨ r.1 = g) := by
  by_cases hs : g.started = true
  · have hfr : g.started = false → g.st = St.empty E.G ∧ g.frame = none := fun h0 => by rw [hs] at h0; cases h0
    obtain ⟨q1, _, q3, q4⟩ := next_cost E hnd hst hprod fuel g r hgc hfr h
    have q5 := next_order E hnd hst hprod hpos fuel g r hgc hgo hfr h
    refine ⟨q1, q5, q3, q4, ?_⟩
    unfold next at h
    split at h
    · cases h; exact Or.inr rfl
    · exact Or.inl (next_cost.nextLoop_started E fuel _ _ _ _ _ _ h)
  · have hs' : g.started = false := by simpa using hs
    obtain ⟨hf, hfrm⟩ := hfresh hs'
    unfold next at h
    split at h
    · cases h; exact ⟨hgc, hgo, fun h0 => absurd h0 hs, fun p hp => (by cases hp), Or.inr rfl⟩
    · split at h
      · cases h
      · next s hp =>
        obtain ⟨hc, hoi, _, hlen⟩ := prologue_fresh_inv E hnd hst hprod fuel g.st s hf hp
        obtain ⟨a1, _, _, a4⟩ := nextLoop_cost E fuel _ _ _ _ _ _ hc (fun fr he => by cases he) h
        have a5 := nextLoop_order E hpos fuel _ _ _ _ _ _ hc (hoi hpos) (fun fr he => by cases he) (fun _ => by omega) h
        have hstd := next_cost.nextLoop_started E fuel _ _ _ _ _ _ h
        exact ⟨a1, a5, fun h0 => absurd h0 hs, fun p hp' => ⟨hstd, a4 p hp'⟩, Or.inl hstd⟩

/-- `merge_program` keeps freshness -/
theorem merge_fresh (E : Env S) (g : Gen S) (other : Prog) (ok : NT S Unit → Bool) (hf : Fresh E g.st) : Fresh E (merge g other ok).st := by
  refine ⟨⟨?_, ?_⟩, fun nt ci => ?_⟩
  · unfold merge St.addDeleted; simp only; split <;> exact hf.1.1
  · unfold merge St.addDeleted; simp only; split <;> exact hf.1.2
  · have : ∀ p, p ∈ (merge g other ok).st.bankAt nt ci → p ∈ g.st.bankAt nt ci := merge_bankAt_subset g other ok nt ci
    cases hb : (merge g other ok).st.bankAt nt ci with
    | nil => rfl
    | cons x xs =>
      have := this x (by rw [hb]; exact List.mem_cons_self ..)
      rw [hf.2 nt ci] at this; cases this

theorem merge_gn (E : Env S) (g : Gen S) (other : Prog) (ok : NT S Unit → Bool) (hfrm : g.frame = none)
    (hf : Fresh E g.st) : GN E (merge g other ok) := by
  have hf' := merge_fresh E g other ok hf
  have hq : ∀ nt, (merge g other ok).st.queueOf nt = [] := fun nt => by
    rw [hf'.1.queueOf]; exact lookup_map_nil E.G.rules nt
  refine ⟨fun _ => [], ⟨fun nt => (by rw [hq]; exact List.nodup_nil), fun nt P t hm => (by rw [hq] at hm; cases hm),
    fun nt ci p hp => (by rw [hf'.2] at hp; cases hp), fun nt ci => (by rw [hf'.2]; exact List.nodup_nil)⟩, fun fr he => ?_⟩
  have : (merge g other ok).frame = g.frame := rfl
  rw [this, hfrm] at he; cases he

end PS.Beap
