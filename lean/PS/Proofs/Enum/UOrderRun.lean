/- Heap search on unambiguous, acyclic grammars: best-first order of the yielded sequence — the
   k-way merge of the sorted enumerations of the start symbols through the start heap. -/
import PS.Proofs.Enum.UOrderBig
import PS.Proofs.Enum.UNodupRun
namespace PS.UHS
open PS PS.G
set_option linter.unusedSectionVars false
variable {U π : Type} [DecidableEq U]
variable {E : Env U π} {rank : UNT U → Nat} {Good : π → Prop}

/-- hypotheses of the order theorem at the generator level -/
structure RHyp (E : Env U π) (rank : UNT U → Nat) (Good : π → Prop) : Prop where
  ohyp : OHyp E rank Good
  disj : SDisj E
  starts_nodup : (E.G.starts.map (·.1)).Nodup
  /-- `adjust_priority_for_start` is monotone -/
  adj_mono : ∀ a b nt w, startW E nt = some w → Good a → Good b → E.ops.lt a b = false →
    E.ops.lt (E.ops.adjust a w) (E.ops.adjust b w) = false
  good_adjust : ∀ a nt w, startW E nt = some w → Good a → Good (E.ops.adjust a w)

theorem RHyp.nhyp (R : RHyp E rank Good) : NHyp E :=
  ⟨R.ohyp.ghyp, R.disj, R.starts_nodup, Or.inr (noReent_of_acyclic E R.ohyp.ghyp rank R.ohyp.acyclic)⟩

/-- the keys of the start heap are priorities of the good set -/
theorem start_good (R : RHyp E rank Good) {s : St U π} (hs : SInv E s) : ∀ e, e ∈ s.startHeap → Good e.1 := by
  intro e he
  obtain ⟨w, pr, hw, hpr, hk⟩ := hs.start_ok e he
  rw [hk]
  exact R.good_adjust pr _ w hw (hasPrio_good R.ohyp _ _ _ hpr)

/-- every non-terminal is untouched or fully initialised -/
def All (E : Env U π) (rank : UNT U → Nat) (s : St U π) : Prop := ∀ nt, Uninit s nt ∨ Full E rank s nt

theorem All.below {s : St U π} (h : All E rank s) (r : Nat) : Below E rank r s := fun nt _ => h nt

theorem All.same {s s' : St U π} (h : All E rank s) (hs : ∀ nt, Same s s' nt) (hst : Stable s s') : All E rank s' := by
  intro nt
  rcases h nt with hu | hf
  · exact Or.inl (hu.transfer (hs nt))
  · exact Or.inr (hf.transfer (hs nt) hst (fun sj _ => Kept.of_same (hs sj)))

/-- the invariant of the generator loop; `emE` = the entries taken from the start heap, most recent first -/
structure OG (E : Env U π) (rank : UNT U → Nat) (s : St U π) (emE : List (π × Prog × UNT U)) : Prop where
  base : Base E s
  ginv : GInv E s (emE.map (·.2))
  all : All E rank s
  heap_ge : ∀ e, e ∈ s.startHeap → ∀ x, x ∈ emE → E.ops.lt e.1 x.1 = false
  sorted : emE.Pairwise (fun x y => E.ops.lt x.1 y.1 = false)
  sheap : Heapq.IsHeap (ltS E.ops) s.startHeap
  em_key : ∀ x, x ∈ emE → ∃ w pr, startW E x.2.2 = some w ∧ HasPrio E x.2.1 x.2.2 pr ∧ x.1 = E.ops.adjust pr w
  /-- the rejected programs were handed over by the start heap -/
  del_em : ∀ q, q ∈ s.deleted → q ∈ emE.map (·.2.1)
  del_nodup : s.deleted.Nodup

/-- `__push_next_from_start__(start, program)`: the state part -/
theorem OG.pushNext (R : RHyp E rank Good) {fuel : Nat} {s s' : St U π} {emE : List (π × Prog × UNT U)}
    {nt : UNT U} {p : Option Prog} (h : OG E rank s emE) (hnt : nt ∉ s.startHeap.map (·.2.2))
    (hkey : p = (doneR (emE.map (·.2)) nt).head?) (hpp : ∀ k, p = some k → Popped s nt k)
    (hpn : p = none → emE = [])
    (bound : π) (hbound : ∀ x, x ∈ emE → E.ops.lt bound x.1 = false)
    (hkb : ∀ k w pr, p = some k → startW E nt = some w → HasPrio E k nt pr → bound = E.ops.adjust pr w)
    (hp : pushNext E fuel s nt p = some s') :
    OG E rank s' emE ∧ (∀ e, e ∈ s'.startHeap → e ∈ s.startHeap ∨ (e.2.2 = nt ∧ (p = none ∨ E.ops.lt e.1 bound = false))) ∧
    (∀ sj, Kept s s' sj) ∧ (∀ e, e ∈ s.startHeap → e ∈ s'.startHeap) ∧
    (nt ∈ s'.startHeap.map (·.2.2) ∨
      (s'.initS.contains nt = true ∧ s'.heapOf nt = [] ∧ AList.lookup p (s'.succOf nt) = none)) ∧
    s'.deleted = s.deleted := by
  have H := R.ohyp
  have hk := H.ghyp.kway
  obtain ⟨g', hsub⟩ := h.ginv.pushNext R.nhyp hnt hkey hp
  unfold UHS.pushNext at hp
  have hopre : ∀ s0, s0 = s → OPre E rank (.query nt p) s0 := by
    intro s0 e; subst e
    refine ⟨h.all.below _, ?_, hpp, ?_⟩
    · rcases h.all nt with hu | hf
      · exact Or.inl hu
      · exact Or.inr ⟨hf.1, hf.2.2⟩
    · intro hs0
      cases p with
      | some k0 =>
        obtain ⟨k', hk'⟩ := hpp k0 rfl
        rw [hs0] at hk'; cases hk'
      | none =>
        have he := hpn rfl
        apply List.eq_nil_iff_forall_not_mem.mpr
        intro q hq
        have := h.del_em q hq
        rw [he] at this
        cases this
  split at hp
  · simp at hp
  · rename_i s1 hq
    simp only [Option.some.injEq] at hp; subst hp
    have hb := big_of_query E hq
    obtain ⟨hbase1, hst1, hfr1, _, _, hkept1⟩ := big_all H hb h.base trivial trivial
    obtain ⟨a1, a2, _, a5⟩ := big_order H hb h.base trivial trivial (hopre s rfl)
    have hfr1' : Frame rank (rank nt) (some nt) s s1 := hfr1
    have hsh := big_startHeap E hk hb
    have hdl := big_deleted E hb hk
    refine ⟨⟨hbase1, g', ?_, ?_, h.sorted, hsh ▸ h.sheap, h.em_key, by rw [hdl]; exact h.del_em, by rw [hdl]; exact h.del_nodup⟩,
      fun e he => Or.inl (hsh ▸ he),
      fun sj => hkept1 sj (by simp [Call.inner]), fun e he => by rw [hsh]; exact he,
      Or.inr ⟨by simpa using query_initS E hk hb, (a5 rfl).1, (a5 rfl).2⟩, hdl⟩
    · intro nt'
      exact (Below.merge (r := rank nt' + 1) (h.all.below _) hfr1' hst1 (fun sj => hkept1 sj (by simp [Call.inner])) a1 a2)
        nt' (Nat.lt_succ_self _)
    · intro e he; rw [hsh] at he; exact h.heap_ge e he
  · rename_i s1 q hq
    have hb := big_of_query E hq
    obtain ⟨hbase1, hst1, hfr1, hnpost, hspost, hkept1⟩ := big_all H hb h.base trivial trivial
    obtain ⟨a1, a2, a4, _⟩ := big_order H hb h.base trivial trivial (hopre s rfl)
    have hfr1' : Frame rank (rank nt) (some nt) s s1 := hfr1
    have hsh := big_startHeap E hk hb
    have hall1 : All E rank s1 := by
      intro nt'
      exact (Below.merge (r := rank nt' + 1) (h.all.below _) hfr1' hst1 (fun sj => hkept1 sj (by simp [Call.inner])) a1 a2)
        nt' (Nat.lt_succ_self _)
    have hd : Der E q nt := hspost q rfl
    split at hp
    · rename_i s2 pr w hcp hw
      simp only [Option.some.injEq] at hp; subst hp
      have hcs := computePrio_step E hcp
      obtain ⟨hpr, s2', _⟩ := hbase1.sinv.computePrio H.ghyp nt q hd s2 pr hcp
      have hsh2 : s2.startHeap = s.startHeap := by obtain ⟨c, rfl⟩ := hcs; exact hsh
      have hperm := Heapq.push_perm (ltS E.ops) s2.startHeap (E.ops.adjust pr w, q, nt)
      have hmem : ∀ e, e ∈ Heapq.push (ltS E.ops) s2.startHeap (E.ops.adjust pr w, q, nt) →
          e = (E.ops.adjust pr w, q, nt) ∨ e ∈ s.startHeap := by
        intro e he
        rcases List.mem_cons.mp (hperm.subset he) with h1 | h1
        · exact Or.inl h1
        · exact Or.inr (hsh2 ▸ h1)
      -- the new entry is not better than the bound
      have hnewG : p = none ∨ (Good bound ∧ E.ops.lt (E.ops.adjust pr w) bound = false) := by
        cases p with
        | none => exact Or.inl rfl
        | some k =>
          right
          obtain ⟨prk, hprk⟩ := (hpp k rfl).der h.base.sinv
          rw [hkb k w prk rfl hw hprk]
          exact ⟨R.good_adjust _ _ _ hw (hasPrio_good H _ _ _ hprk),
            R.adj_mono pr prk nt w hw (hasPrio_good H _ _ _ hpr) (hasPrio_good H _ _ _ hprk)
              (a4 q rfl k rfl prk pr hprk hpr)⟩
      have hnew : p = none ∨ E.ops.lt (E.ops.adjust pr w) bound = false := hnewG.imp id (fun h => h.2)
      have hbase2 : Base E { s2 with startHeap := Heapq.push (ltS E.ops) s2.startHeap (E.ops.adjust pr w, q, nt) } :=
        ⟨g'.sinv, g'.ninv, by intro nt'; show Heapq.IsHeap _ (s2.heapOf nt'); rw [hcs.heapOf]; exact hbase1.hinv nt',
          by show ∀ q, q ∈ s2.deleted → E.filter q = false; obtain ⟨c, rfl⟩ := hcs; exact hbase1.delF⟩
      have hsame2 : ∀ nt', Same s1 { s2 with startHeap := Heapq.push (ltS E.ops) s2.startHeap (E.ops.adjust pr w, q, nt) } nt' := by
        intro nt'; obtain ⟨c, rfl⟩ := hcs
        exact ⟨rfl, rfl, rfl, rfl, rfl, fun _ => rfl, fun _ _ => rfl⟩
      have hst2 : Stable s1 { s2 with startHeap := Heapq.push (ltS E.ops) s2.startHeap (E.ops.adjust pr w, q, nt) } :=
        Stable.of_succOf (fun nt' => (hsame2 nt').succ)
      have hkept2 : ∀ sj, Kept s { s2 with startHeap := Heapq.push (ltS E.ops) s2.startHeap (E.ops.adjust pr w, q, nt) } sj :=
        fun sj => (hkept1 sj (by simp [Call.inner])).trans (Kept.of_same (hsame2 sj))
      have hdl2 : St.deleted { s2 with startHeap := Heapq.push (ltS E.ops) s2.startHeap (E.ops.adjust pr w, q, nt) } = s.deleted := by
        show s2.deleted = s.deleted
        have e1 : s2.deleted = s1.deleted := by obtain ⟨c, hc'⟩ := hcs; rw [hc']
        rw [e1]
        exact big_deleted E hb hk
      refine ⟨⟨hbase2, g', hall1.same hsame2 hst2, ?_, h.sorted, ?_, h.em_key, by rw [hdl2]; exact h.del_em,
        by rw [hdl2]; exact h.del_nodup⟩, ?_, hkept2, ?_, ?_, hdl2⟩
      · intro e he x hx
        rcases hmem e he with rfl | hm
        · rcases hnewG with hn | ⟨hgb, hn⟩
          · -- first push for this start symbol: nothing was taken yet
            rw [hpn hn] at hx; cases hx
          · obtain ⟨w2, pr2, hw2, hpr2, he2⟩ := h.em_key x hx
            exact H.weak.ntrans (by rw [he2]; exact R.good_adjust _ _ _ hw2 (hasPrio_good H _ _ _ hpr2)) hgb
              (R.good_adjust _ _ _ hw (hasPrio_good H _ _ _ hpr)) (hbound x hx) hn
        · exact h.heap_ge e hm x hx
      · show Heapq.IsHeap _ (Heapq.push (ltS E.ops) s2.startHeap _)
        apply Heapq.push_isHeap_on (ltS_weakOrderOn H) _ _ _ (R.good_adjust _ _ _ hw (hasPrio_good H _ _ _ hpr))
        · rw [hsh2]; exact h.sheap
        · rw [hsh2]; exact start_good R h.base.sinv
      · intro e he
        rcases hmem e he with rfl | hm
        · exact Or.inr ⟨rfl, hnew⟩
        · exact Or.inl hm
      · intro e he
        exact hperm.symm.subset (List.mem_cons_of_mem _ (hsh2 ▸ he))
      · left
        exact List.mem_map.mpr ⟨(E.ops.adjust pr w, q, nt), hperm.symm.subset List.mem_cons_self, rfl⟩
    · simp at hp

/-- taking the root of the start heap -/
theorem GInv.popStart (hd : SDisj E) {s : St U π} {em : List (Prog × UNT U)} (h : GInv E s em)
    {pa : π} {q : Prog} {nt : UNT U} {h' : List (π × Prog × UNT U)}
    (hpop : Heapq.pop (ltS E.ops) s.startHeap = some ((pa, q, nt), h')) :
    GInv E { s with startHeap := h' } ((q, nt) :: em) ∧ nt ∉ h'.map (·.2.2) ∧ Popped s nt q := by
  have hperm := Heapq.pop_perm _ _ _ _ hpop
  have hm : (pa, q, nt) ∈ s.startHeap := hperm.symm.subset List.mem_cons_self
  have hsub : ∀ e, e ∈ h' → e ∈ s.startHeap := fun e he => hperm.symm.subset (List.mem_cons_of_mem _ he)
  have hnd : (nt :: h'.map (·.2.2)).Nodup := by
    have := (hperm.map (·.2.2)).nodup_iff.mp h.front_nodup
    simpa using this
  obtain ⟨w, pr, hw, hpr, _⟩ := h.sinv.start_ok _ hm
  have hfront : AList.lookup ((doneR em nt).head?) (s.succOf nt) = some q := h.front _ hm
  have hchain : ChainR (s.succOf nt) (q :: doneR em nt) := ⟨hfront, h.chain nt⟩
  have hqnew : q ∉ em.map (·.1) := by
    intro hq
    obtain ⟨x, hx, hxq⟩ := List.mem_map.mp hq
    obtain ⟨x1, x2⟩ := x
    simp only at hxq
    subst hxq
    obtain ⟨hxd, hxs⟩ := h.em_der _ hx
    have : x2 = nt := hd x1 x2 nt hxd ⟨pr, hpr⟩ hxs ⟨w, hw⟩
    subst this
    have hnd' := chainR_nodup _ (h.ninv.succ_inj x2) _ hchain
    exact (List.nodup_cons.mp hnd').1 ((mem_doneR em x1 x2).mpr hx)
  refine ⟨⟨h.ninv.congr (fun _ => rfl) (fun _ => rfl) (fun _ => rfl) rfl, ?_, ?_, ?_, ?_, ?_, ?_, ?_⟩,
    (List.nodup_cons.mp hnd).1, ⟨_, hfront⟩⟩
  · exact ⟨h.sinv.cache_ok, h.sinv.heap_prio, h.sinv.heap_seen, h.sinv.seen_der, h.sinv.succ_seen,
      h.sinv.keys_ok, h.sinv.maxNT_ok, h.sinv.maxRule_ok, fun e he => h.sinv.start_ok e (hsub e he)⟩
  · intro nt'
    by_cases hn : nt = nt'
    · subst hn; rw [doneR_cons_self]; exact hchain
    · rw [doneR_cons_ne _ _ _ _ hn]; exact h.chain nt'
  · intro e he
    have hne : nt ≠ e.2.2 := by
      intro heq
      exact (List.nodup_cons.mp hnd).1 (heq ▸ List.mem_map.mpr ⟨e, he, rfl⟩)
    rw [doneR_cons_ne _ _ _ _ hne]
    exact h.front e (hsub e he)
  · exact (List.nodup_cons.mp hnd).2
  · simp only [List.map_cons]
    exact List.nodup_cons.mpr ⟨hqnew, h.em_nodup⟩
  · intro x hx
    rcases List.mem_cons.mp hx with rfl | hx
    · exact ⟨⟨pr, hpr⟩, w, hw⟩
    · exact h.em_der x hx
  · intro hi0
    have := (h.inited hi0).1
    rw [this] at hm
    cases hm

theorem OG.pushNexts (R : RHyp E rank Good) {fuel : Nat} : ∀ (l : List (UNT U)) {s s' : St U π},
    OG E rank s [] → l.Nodup → (∀ nt, nt ∈ s.startHeap.map (·.2.2) → nt ∉ l) →
    pushNexts E fuel l s = some s' → OG E rank s' []
  | [], s, s', h, _, _, hp => by simp only [UHS.pushNexts, Option.some.injEq] at hp; subst hp; exact h
  | nt :: rest, s, s', h, hnd, hdisj, hp => by
    simp only [UHS.pushNexts] at hp
    split at hp
    · simp at hp
    · rename_i s1 h1
      obtain ⟨g1, hsub, _, _, _, _⟩ := h.pushNext R (fun hm => hdisj nt hm List.mem_cons_self) (by simp [doneR])
        (by intro k hk; cases hk) (fun _ => rfl) (E.ops.ofRule 0) (by intro x hx; cases hx)
        (by intro k w pr hk; cases hk) h1
      refine OG.pushNexts R rest g1 (List.nodup_cons.mp hnd).2 ?_ hp
      intro nt' hm
      obtain ⟨e, he, rfl⟩ := List.mem_map.mp hm
      rcases hsub e he with ho | ⟨hn, _⟩
      · intro hr
        exact hdisj _ (List.mem_map.mpr ⟨e, ho, rfl⟩) (List.mem_cons_of_mem _ hr)
      · rw [hn]; exact (List.nodup_cons.mp hnd).1

/-- the state after the root of the start heap was taken -/
theorem OG.popStart (R : RHyp E rank Good) {s : St U π} {emE : List (π × Prog × UNT U)} (h : OG E rank s emE)
    {pa : π} {q : Prog} {nt : UNT U} {h' : List (π × Prog × UNT U)}
    (hpop : Heapq.pop (ltS E.ops) s.startHeap = some ((pa, q, nt), h')) :
    OG E rank { s with startHeap := h' } ((pa, q, nt) :: emE) ∧ nt ∉ h'.map (·.2.2) ∧ Popped s nt q ∧
      (pa, q, nt) ∈ s.startHeap ∧ q ∉ s.deleted := by
  have H := R.ohyp
  obtain ⟨hm, hsub⟩ := mem_of_pop _ _ _ _ hpop
  obtain ⟨hsh', hmin⟩ := Heapq.pop_isHeap_on (ltS_weakOrderOn H) _ _ _ (start_good R h.base.sinv) h.sheap hpop
  obtain ⟨g0, hnt0, hpq⟩ := h.ginv.popStart R.disj hpop
  have hqnew : q ∉ emE.map (·.2.1) := by
    have := g0.em_nodup
    simp only [List.map_cons, List.nodup_cons, List.map_map] at this
    intro hq
    apply this.1
    obtain ⟨x, hx, hxe⟩ := List.mem_map.mp hq
    exact List.mem_map.mpr ⟨x, hx, hxe⟩
  refine ⟨⟨⟨g0.sinv, g0.ninv, h.base.hinv, h.base.delF⟩, g0, ?_, ?_, ?_, hsh', ?_, ?_, h.del_nodup⟩, hnt0, hpq, hm,
    fun hd => hqnew (h.del_em q hd)⟩
  · exact h.all.same (fun _ => ⟨rfl, rfl, rfl, rfl, rfl, fun _ => rfl, fun _ _ => rfl⟩) (Stable.refl _)
  · intro e' he' x hx
    rcases List.mem_cons.mp hx with rfl | hx
    · exact hmin e' (hsub e' he')
    · exact h.heap_ge e' (hsub e' he') x hx
  · exact List.pairwise_cons.mpr ⟨fun x hx => h.heap_ge _ hm x hx, h.sorted⟩
  · intro x hx
    rcases List.mem_cons.mp hx with rfl | hx
    · exact h.base.sinv.start_ok _ hm
    · exact h.em_key x hx
  · intro q' hq'
    simp only [List.map_cons]
    exact List.mem_cons_of_mem _ (h.del_em q' hq')

/-- the `while len(self._start_heap) > 0` loop of `start_query`: one iteration (the program taken was
    never rejected before: it is new) -/
theorem OG.kwayLoop (R : RHyp E rank Good) {fuel : Nat} : ∀ (k : Nat) {s s' : St U π} {emE : List (π × Prog × UNT U)}
    {r : Option Prog}, OG E rank s emE → kwayLoop E fuel k s = some (s', r) →
    (r = none ∧ OG E rank s' emE) ∨ (∃ e, r = some e.2.1 ∧ OG E rank s' (e :: emE))
  | 0, s, s', emE, r, _, hp => by simp [UHS.kwayLoop] at hp
  | k + 1, s, s', emE, r, h, hp => by
    have H := R.ohyp
    simp only [UHS.kwayLoop] at hp
    split at hp
    · simp only [Option.some.injEq, Prod.mk.injEq] at hp
      obtain ⟨rfl, rfl⟩ := hp
      exact Or.inl ⟨rfl, h⟩
    · rename_i e h' hpop
      obtain ⟨pa, q, nt⟩ := e
      obtain ⟨h0, hnt0, hpq, hm, hqdel⟩ := h.popStart R hpop
      split at hp
      · simp at hp
      · rename_i s1 hpn
        obtain ⟨g1, _, _, _, _, hdl⟩ := h0.pushNext R hnt0 (by simp [doneR_cons_self]) (by intro k hk; cases hk; exact hpq)
          (by intro hk; cases hk) pa
          (by
            intro x hx
            rcases List.mem_cons.mp hx with rfl | hx
            · exact H.weak.irrefl (start_good R h.base.sinv _ hm)
            · exact h.heap_ge _ hm x hx)
          (by
            intro k w pr hk hw hpr
            cases hk
            obtain ⟨w', pr', hw', hpr', he⟩ := h.base.sinv.start_ok _ hm
            simp only at hw' hpr' he
            rw [hw] at hw'
            cases hw'
            rw [hasPrio_fun H _ _ _ _ hpr hpr']
            exact he) hpn
        have hnd : s1.deleted.contains q = false := by
          rw [hdl]
          cases hc : s.deleted.contains q with
          | false => rfl
          | true => exact absurd (by simpa using hc) hqdel
        simp only [hnd, Bool.false_eq_true, if_false, Option.some.injEq, Prod.mk.injEq] at hp
        obtain ⟨rfl, rfl⟩ := hp
        exact Or.inr ⟨(pa, q, nt), rfl, g1⟩

theorem og_empty (E : Env U π) : OG E rank (St.empty E.G) [] := by
  have g := ginv_empty E
  have hnil : ∀ (l : AList (UNT U) (AList Sym (List (List (UNT U) × Rat)))) (nt : UNT U) {β : Type},
      (AList.lookup nt (l.map (fun r => (r.1, ([] : List β))))).getD [] = [] := by
    intro l nt β
    induction l with
    | nil => rfl
    | cons a l ih =>
      simp only [List.map_cons, AList.lookup]
      split
      · rfl
      · exact ih
  refine ⟨⟨g.sinv, g.ninv, (hinv_empty E).1, by intro q hq; cases hq⟩, g, ?_, (by intro e he; cases he), List.Pairwise.nil,
    (hinv_empty E).2, (by intro x hx; cases hx), (by intro q hq; cases hq), List.nodup_nil⟩
  intro nt
  exact Or.inl ⟨rfl, hnil _ nt, hnil _ nt, hnil _ nt⟩

theorem OG.startQuery (R : RHyp E rank Good) {fuel : Nat} {s s' : St U π} {emE : List (π × Prog × UNT U)}
    {r : Option Prog} (h : OG E rank s emE) (hp : startQuery E fuel s = some (s', r)) :
    (r = none ∧ OG E rank s' emE) ∨ (∃ e, r = some e.2.1 ∧ OG E rank s' (e :: emE)) := by
  unfold UHS.startQuery at hp
  simp only [R.ohyp.ghyp.kway, if_true] at hp
  split at hp
  · simp at hp
  · rename_i s1 h1
    split at h1
    · rename_i hi0
      have hi0' : s.initS = [] := by simpa using hi0
      obtain ⟨hs0, he0⟩ := h.ginv.inited hi0'
      have he0' : emE = [] := by simpa using he0
      subst he0'
      have g1 := h.pushNexts R _ R.starts_nodup (by rw [hs0]; intro nt hm; cases hm) h1
      exact g1.kwayLoop R fuel hp
    · simp only [Option.some.injEq] at h1; subst h1
      exact h.kwayLoop R fuel hp

/-- `deleted.add(program)` of the program just taken from the start heap and rejected by the filter -/
theorem OG.addDeleted (R : RHyp E rank Good) {s : St U π} {emE : List (π × Prog × UNT U)} {e : π × Prog × UNT U}
    (h : OG E rank s (e :: emE)) (hf : E.filter e.2.1 = false) : OG E rank (s.addDeleted e.2.1) (e :: emE) := by
  have hre : NoReent E := noReent_of_acyclic E R.ohyp.ghyp rank R.ohyp.acyclic
  have hg := h.ginv.addDeleted e.2.1 hre
  unfold St.addDeleted at hg ⊢
  split
  · exact h
  · rename_i hc
    simp only [hc, Bool.false_eq_true, if_false] at hg
    refine ⟨⟨hg.sinv, hg.ninv, h.base.hinv, ?_⟩, hg, ?_, h.heap_ge, h.sorted, h.sheap, h.em_key, ?_, ?_⟩
    · intro q hq
      rcases List.mem_append.mp hq with h1 | h1
      · exact h.base.delF q h1
      · simp only [List.mem_singleton] at h1; subst h1; exact hf
    · exact h.all.same (fun _ => ⟨rfl, rfl, rfl, rfl, rfl, fun _ => rfl, fun _ _ => rfl⟩) (Stable.refl _)
    · intro q hq
      rcases List.mem_append.mp hq with h1 | h1
      · exact h.del_em q h1
      · simp only [List.mem_singleton] at h1; subst h1; simp
    · rw [List.nodup_append]
      refine ⟨h.del_nodup, by simp, ?_⟩
      intro a ha b hb
      simp only [List.mem_singleton] at hb
      subst hb
      intro hab
      subst hab
      apply hc
      simp [ha]

/-- the entries are all rejected by the filter -/
def RejAll (E : Env U π) (l : List (π × Prog × UNT U)) : Prop := ∀ x, x ∈ l → E.filter x.2.1 = false

/-- `next(generator)`: the rejected programs are skipped -/
theorem OG.next (R : RHyp E rank Good) {fuel : Nat} : ∀ (k : Nat) {s s' : St U π} {emE : List (π × Prog × UNT U)}
    {r : Option Prog}, OG E rank s emE → next E fuel k s = some (s', r) →
    ∃ new, RejAll E new ∧ ((r = none ∧ OG E rank s' (new ++ emE)) ∨
      (∃ e, r = some e.2.1 ∧ E.filter e.2.1 = true ∧ OG E rank s' (e :: (new ++ emE))))
  | 0, s, s', emE, r, _, hp => by simp [UHS.next] at hp
  | k + 1, s, s', emE, r, h, hp => by
    simp only [UHS.next] at hp
    split at hp
    · simp at hp
    · rename_i s1 hq
      simp only [Option.some.injEq, Prod.mk.injEq] at hp
      obtain ⟨rfl, rfl⟩ := hp
      rcases h.startQuery R hq with ⟨_, g⟩ | ⟨e, he, _⟩
      · exact ⟨[], (by intro x hx; cases hx), Or.inl ⟨rfl, g⟩⟩
      · cases he
    · rename_i s1 p hq
      rcases h.startQuery R hq with ⟨he, _⟩ | ⟨e, he, g⟩
      · cases he
      · cases he
        split at hp
        · rename_i hf
          simp only [Option.some.injEq, Prod.mk.injEq] at hp
          obtain ⟨rfl, rfl⟩ := hp
          exact ⟨[], (by intro x hx; cases hx), Or.inr ⟨e, rfl, hf, g⟩⟩
        · rename_i hf
          have hf' : E.filter e.2.1 = false := by simpa using hf
          obtain ⟨new, hnew, hres⟩ := OG.next R k (g.addDeleted R hf') hp
          refine ⟨new ++ [e], ?_, ?_⟩
          · intro x hx
            rcases List.mem_append.mp hx with h1 | h1
            · exact hnew x h1
            · simp only [List.mem_singleton] at h1; subst h1; exact hf'
          · simpa [List.append_assoc] using hres

/-- the yielded programs: the accepted ones among those taken from the start heap, oldest first -/
def accepted (E : Env U π) (emE : List (π × Prog × UNT U)) : List Prog :=
  ((emE.filter (fun e => E.filter e.2.1)).map (·.2.1)).reverse

theorem accepted_rej (E : Env U π) (new emE : List (π × Prog × UNT U)) (h : RejAll E new) :
    accepted E (new ++ emE) = accepted E emE := by
  unfold accepted
  rw [List.filter_append]
  have : new.filter (fun e => E.filter e.2.1) = [] := by
    rw [List.filter_eq_nil_iff]
    intro x hx
    rw [h x hx]; simp
  rw [this]; rfl

theorem OG.take (R : RHyp E rank Good) {fuel : Nat} : ∀ (k : Nat) {s s' : St U π} {emE : List (π × Prog × UNT U)}
    {acc out : List Prog} {b : Bool}, OG E rank s emE → acc = accepted E emE →
    take E fuel k s acc = some (s', out, b) → ∃ emE', OG E rank s' emE' ∧ out = accepted E emE'
  | 0, s, s', emE, acc, out, b, h, hacc, hp => by
    simp only [UHS.take, Option.some.injEq, Prod.mk.injEq] at hp
    obtain ⟨rfl, rfl, _⟩ := hp
    exact ⟨emE, h, hacc⟩
  | k + 1, s, s', emE, acc, out, b, h, hacc, hp => by
    simp only [UHS.take] at hp
    split at hp
    · simp at hp
    · rename_i s1 hn
      simp only [Option.some.injEq, Prod.mk.injEq] at hp
      obtain ⟨rfl, rfl, _⟩ := hp
      obtain ⟨new, hnew, hres⟩ := h.next R fuel hn
      rcases hres with ⟨_, g⟩ | ⟨e, he, _, _⟩
      · exact ⟨new ++ emE, g, by rw [accepted_rej E new emE hnew]; exact hacc⟩
      · cases he
    · rename_i s1 p hn
      obtain ⟨new, hnew, hres⟩ := h.next R fuel hn
      rcases hres with ⟨he, _⟩ | ⟨e, he, hf, g⟩
      · cases he
      · cases he
        refine OG.take R k g ?_ hp
        unfold accepted
        simp only [List.filter_cons, hf, if_true, List.map_cons, List.reverse_cons]
        have := accepted_rej E new emE hnew
        unfold accepted at this
        rw [this, hacc]
        rfl

/-- the key of the order: the priority from the start symbol adjusted by its weight
    (heap search: `start weight × probability from the start symbol`) -/
def StartKey (E : Env U π) (p : Prog) (k : π) : Prop :=
  ∃ nt w pr, startW E nt = some w ∧ HasPrio E p nt pr ∧ k = E.ops.adjust pr w

/-- **best-first order** of the yielded sequence (with or without filter) -/
theorem take_sorted (R : RHyp E rank Good) (fuel k : Nat) (s' : St U π) (out : List Prog) (b : Bool)
    (h : take E fuel k (St.empty E.G) [] = some (s', out, b)) :
    out.Pairwise (fun p q => ∀ kp kq, StartKey E p kp → StartKey E q kq → E.ops.lt kq kp = false) := by
  obtain ⟨emE, g, hout⟩ := (og_empty E).take R k rfl h
  have H := R.ohyp
  have hkey : ∀ x, x ∈ emE → ∀ kx, StartKey E x.2.1 kx → kx = x.1 := by
    intro x hx kx ⟨nt, w, pr, hw, hpr, hk⟩
    have hx' : (x.2.1, x.2.2) ∈ emE.map (·.2) := List.mem_map.mpr ⟨x, hx, rfl⟩
    obtain ⟨⟨pr', hpr'⟩, w', hw'⟩ := g.ginv.em_der _ hx'
    simp only at hpr' hw'
    have hnt : nt = x.2.2 := R.disj x.2.1 nt x.2.2 ⟨pr, hpr⟩ ⟨pr', hpr'⟩ ⟨w, hw⟩ ⟨w', hw'⟩
    subst hnt
    rw [hk]
    obtain ⟨w2, pr2, hw2, hpr2, he2⟩ := g.em_key x hx
    rw [hw] at hw2
    cases hw2
    rw [hasPrio_fun H _ _ _ _ hpr hpr2]
    exact he2.symm
  rw [hout]
  unfold accepted
  rw [List.pairwise_reverse, List.pairwise_map]
  have hsub : (emE.filter (fun e => E.filter e.2.1)).Pairwise (fun x y => E.ops.lt x.1 y.1 = false) :=
    g.sorted.sublist List.filter_sublist
  refine hsub.imp_of_mem ?_
  intro x y hx hy hxy kp kq hp hq
  rw [hkey y (List.mem_filter.mp hy).1 kp hp, hkey x (List.mem_filter.mp hx).1 kq hq]
  exact hxy

end PS.UHS
