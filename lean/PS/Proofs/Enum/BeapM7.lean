/- merge-aware completeness, part 7: `merge_program` keeps the invariants for the effective filter "accepted and not
   merged"; histories of `next` / `merge_program` calls; liveness of the merge half for the repaired `_query_list_`. -/
import PS.Proofs.Enum.BeapM6
namespace PS.Beap
open PS PS.G PS.Heapq
set_option linter.unusedSectionVars false
variable {S : Type} [DecidableEq S] {F : Prog → Bool}

/-- the effective filter after `merge_program(_, m)` for the programs `m` of `ms`: accepted and not merged -/
def effFilter (E : Env S) (ms : List Prog) : Prog → Bool := fun p => E.filter p && !ms.contains p

theorem merge_bankOf (g : Gen S) (other : Prog) (ok : NT S Unit → Bool) (nt : NT S Unit) :
    (merge g other ok).st.bankOf nt =
      if ok nt = true then (g.st.bankOf nt).map (fun e => (e.1, e.2.erase other)) else g.st.bankOf nt := by
  unfold merge
  simp only [St.bankOf]
  have hb : (g.st.addDeleted other).bank = g.st.bank := by unfold St.addDeleted; split <;> rfl
  rw [hb]
  have := lookup_map_val (fun k (b : AList Nat (List Prog)) => if ok k then b.map (fun e => (e.1, e.2.erase other)) else b) g.st.bank nt
  have heq : (g.st.bank.map fun r => if ok r.1 = true then (r.1, r.2.map fun e => (e.1, e.2.erase other)) else r) =
      (g.st.bank.map fun r => (r.1, if ok r.1 = true then r.2.map (fun e => (e.1, e.2.erase other)) else r.2)) := by
    apply List.map_congr_left
    intro r _
    split <;> rfl
  rw [heq, this]
  cases hl : AList.lookup nt g.st.bank with
  | none => simp
  | some b => simp only [Option.map_some, Option.getD_some]

theorem merge_lookup (g : Gen S) (other : Prog) (ok : NT S Unit → Bool) (nt : NT S Unit) (ci : Nat) :
    AList.lookup ci ((merge g other ok).st.bankOf nt) =
      if ok nt = true then (AList.lookup ci (g.st.bankOf nt)).map (fun ps => ps.erase other) else AList.lookup ci (g.st.bankOf nt) := by
  rw [merge_bankOf]
  split
  · exact lookup_map_val (fun _ (ps : List Prog) => ps.erase other) (g.st.bankOf nt) ci
  · rfl

theorem merge_entered (g : Gen S) (other : Prog) (ok : NT S Unit → Bool) (nt : NT S Unit) (ci : Nat)
    (hem : (merge g other ok).st.emptiesOf nt = g.st.emptiesOf nt) :
    Entered (merge g other ok).st nt ci ↔ Entered g.st nt ci := by
  unfold Entered
  rw [merge_lookup, hem]
  split
  · cases AList.lookup ci (g.st.bankOf nt) <;> simp
  · rfl

theorem merge_bankAt_keep (g : Gen S) (other : Prog) (ok : NT S Unit → Bool) (nt : NT S Unit) (ci : Nat) (q : Prog)
    (hq : q ∈ g.st.bankAt nt ci) (hne : q ≠ other) : q ∈ (merge g other ok).st.bankAt nt ci := by
  unfold St.bankAt at hq ⊢
  rw [merge_lookup]
  split
  · cases hl : AList.lookup ci (g.st.bankOf nt) with
    | none => rw [hl] at hq; simp at hq
    | some ps =>
      rw [hl] at hq
      simp only [Option.getD_some] at hq
      simp only [Option.map_some, Option.getD_some]
      exact (List.mem_erase_of_ne hne).mpr hq
  · exact hq

theorem clean_mono (f f' : Prog → Bool) (h : ∀ p, f' p = true → f p = true) : ∀ p, clean f' p = true → clean f p = true
  | .node F kids, hc => by
    simp only [clean, Bool.and_eq_true] at hc ⊢
    exact ⟨h _ hc.1, cleanList_mono f f' h kids hc.2⟩
where cleanList_mono (f f' : Prog → Bool) (h : ∀ p, f' p = true → f p = true) : ∀ ps, cleanList f' ps = true → cleanList f ps = true
  | [], _ => rfl
  | p :: ps, hc => by
    simp only [cleanList, Bool.and_eq_true] at hc ⊢
    exact ⟨clean_mono f f' h p hc.1, cleanList_mono f f' h ps hc.2⟩

/-- **`merge_program` keeps the completeness invariants**, for the effective filter that also rejects `other` -/
theorem merge_km (E : Env S) (F F' : Prog → Bool) (g : Gen S) (other : Prog) (ok : NT S Unit → Bool) (ys : List Prog)
    (hF' : ∀ p, F' p = true → F p = true ∧ p ≠ other) (hg : GKm E F g ys) : GKm E F' (merge g other ok) ys := by
  have hcl : ∀ nt, (merge g other ok).st.clOf nt = g.st.clOf nt := by
    intro nt; unfold merge St.clOf; simp only; unfold St.addDeleted; split <;> rfl
  have hq : ∀ nt, (merge g other ok).st.queueOf nt = g.st.queueOf nt := by
    intro nt; unfold merge St.queueOf; simp only; unfold St.addDeleted; split <;> rfl
  have hem : ∀ nt, (merge g other ok).st.emptiesOf nt = g.st.emptiesOf nt := by
    intro nt; unfold merge St.emptiesOf; simp only; unfold St.addDeleted; split <;> rfl
  have hdel : ∀ q, q ∈ (merge g other ok).st.deleted → q = other ∨ q ∈ g.st.deleted := by
    intro q hq'
    have : (merge g other ok).st.deleted = (g.st.addDeleted other).deleted := rfl
    rw [this] at hq'
    exact (St.mem_addDeleted_iff g.st other q).mp hq'
  have hext : Ext g.st (merge g other ok).st := Ext.of_eq hcl
  have hsub := merge_bankAt_subset g other ok
  have hkeep := merge_bankAt_keep g other ok
  have hent : ∀ nt ci, Entered (merge g other ok).st nt ci ↔ Entered g.st nt ci := fun nt ci => merge_entered g other ok nt ci (hem nt)
  have hclean : ∀ p, clean F' p = true → clean F p = true := clean_mono F F' (fun p hp => (hF' p hp).1)
  have hne : ∀ p, clean F' p = true → p ≠ other := fun p hp => (hF' p (clean_root F' p hp)).2
  have hbelow : ∀ as cs ks, BelowArgs E g.st as cs ks → BelowArgs E (merge g other ok).st as cs ks :=
    fun as cs ks h => BelowArgs.ext hext as cs ks h
  -- the frontier of a non-terminal
  have hfr : ∀ nt, FRm E F g.st nt → FRm E F' (merge g other ok).st nt := by
    intro nt ⟨f1, f2⟩
    refine ⟨fun f kids x l rl hc hx hl hle hr => ?_, fun hen => ?_⟩
    · rw [hcl] at hl
      rcases f1 f kids x l rl (hclean _ hc) hx hl hle hr with ⟨g1, g2⟩ | ⟨el, g1, g2, g3⟩
      · left; refine ⟨g1, ?_⟩; rw [hcl]; exact hkeep nt _ _ g2 (hne _ hc)
      · right; exact ⟨el, by rw [hq]; exact g1, g2, hbelow _ _ _ g3⟩
    · rw [hq]; apply f2; rw [hcl] at hen; exact (hent nt _).mp hen
  have hw : WInvm E F' (merge g other ok).st := by
    refine ⟨(merge_cost E g other ok ⟨hg.w.c, fun fr he => ⟨(hg.fr fr he).1.fc, (hg.fr fr he).2.1⟩⟩).1, hg.w.o.of_eq hcl hq, ⟨fun nt ci h => ?_, fun q hq' => ?_,
      fun q hq' => hg.w.e.fle q (hF' q hq').1, fun nt ci h => ?_, fun nt c rest p x hc hx => ?_⟩, fun nt p x l hc hx hl hlt => ?_⟩
    · rw [hem] at h
      have := hg.w.e.e2 nt ci h
      cases hb : (merge g other ok).st.bankAt nt ci with
      | nil => rfl
      | cons a r =>
        have := hsub nt ci a (by rw [hb]; exact List.mem_cons_self ..)
        rw [hg.w.e.e2 nt ci h] at this; cases this
    · cases hv : F' q with
      | false => rfl
      | true =>
        obtain ⟨a1, a2⟩ := hF' q hv
        rcases hdel q hq' with h' | h'
        · exact absurd h' a2
        · rw [hg.w.e.d1 q h'] at a1; cases a1
    · rw [hcl]; exact hg.w.e.be nt ci ((hent nt ci).mp h)
    · rw [hcl] at hc; exact hg.w.e.lb nt c rest p x hc hx
    · rw [hcl] at hl
      obtain ⟨i, e, g1, g2, g3⟩ := hg.w.cr nt p x l (hclean _ hc) hx hl hlt
      exact ⟨i, e, by rw [hcl]; exact g1, g2, hkeep nt i p g3 (hne _ hc)⟩
  refine ⟨hg.started, hw, trivial, fun S' hS => hfr S' (hg.fro S' hS), fun fr he => ?_, fun he => ?_, fun hf => ?_, by rw [hcl]; exact hg.ne,
    fun ci q hq' => hg.yb ci q (hsub _ ci q hq'), fun p hp => ?_⟩
  · obtain ⟨k, k2, k3, k4⟩ := hg.fr fr he
    refine ⟨⟨⟨by rw [hcl]; exact k.fo.1, by rw [hcl]; exact k.fo.2⟩, ⟨by rw [hcl]; exact k.fc.1, k.fc.2⟩, k.fin, fun hh => ?_, fun hh => ?_,
      by rw [hem]; exact k.ne, fun hh => ?_, fun f kids x rl hc hx hle hr => ?_⟩, k2, k3, ?_⟩
    · have := k.hg hh
      cases hb : (merge g other ok).st.bankAt E.G.start fr.ci with
      | nil => rfl
      | cons a r =>
        have := hsub E.G.start fr.ci a (by rw [hb]; exact List.mem_cons_self ..)
        rw [k.hg hh] at this; cases this
    · apply k.ns
      have := (hent E.G.start fr.ci)
      rw [merge_lookup] at hh
      split at hh
      · cases hl : AList.lookup fr.ci (g.st.bankOf E.G.start) with
        | none => rw [hl] at hh; cases hh
        | some v => rfl
      · exact hh
    · have := k.pe hh
      rw [merge_lookup]
      split
      · cases hl : AList.lookup fr.ci (g.st.bankOf E.G.start) with
        | none => rw [hl] at this; cases this
        | some v => rfl
      · exact this
    · rcases k.frf f kids x rl (hclean _ hc) hx hle hr with ⟨g1, g2⟩ | ⟨el, g1, g2, g3⟩ | g3
      · exact Or.inl ⟨g1, hkeep _ _ _ g2 (hne _ hc)⟩
      · exact Or.inr (Or.inl ⟨el, by rw [hq]; exact g1, g2, hbelow _ _ _ g3⟩)
      · exact Or.inr (Or.inr g3)
    · rcases k4 with h' | ⟨e, q, h1, h2⟩
      · exact Or.inl h'
      · exact Or.inr ⟨e, q, by rw [hq]; exact h1, h2⟩
  · obtain ⟨i1, i2, i3⟩ := hg.idle he
    refine ⟨hfr _ i1, fun ci hen => i2 ci ((hent _ ci).mp hen), ?_⟩
    rw [hcl, hq]; exact i3
  · obtain ⟨a1, a2⟩ := hg.fin hf
    exact ⟨a1, by rw [hq]; exact a2⟩
  · obtain ⟨c, c1, c2⟩ := hg.yc p hp
    exact ⟨c, by rw [hcl]; exact c1, c2⟩

/-- histories of `next` and — after the first `next` — `merge_program` calls from the fresh generator;
    `ys`: the programs yielded so far, `ms`: the programs merged so far -/
inductive Hist (E : Env S) (fuel : Nat) : Gen S → List Prog → List Prog → Prop
  | new : Hist E fuel (Gen.new E.G) [] []
  | next (g g' : Gen S) (ys ms : List Prog) (p : Option Prog) : Hist E fuel g ys ms → Beap.next E fuel g = some (g', p) →
      Hist E fuel g' (ys ++ p.toList) ms
  | merge (g : Gen S) (ys ms : List Prog) (other : Prog) (ok : NT S Unit → Bool) : Hist E fuel g ys ms → g.started = true →
      Hist E fuel (Beap.merge g other ok) ys (other :: ms)

theorem effFilter_le (E : Env S) (ms : List Prog) (q : Prog) (h : effFilter E ms q = true) : E.filter q = true := by
  simp only [effFilter, Bool.and_eq_true] at h; exact h.1

theorem effFilter_cons (E : Env S) (ms : List Prog) (other p : Prog) (h : effFilter E (other :: ms) p = true) :
    effFilter E ms p = true ∧ p ≠ other := by
  simp only [effFilter, Bool.and_eq_true, Bool.not_eq_true', List.contains_cons, Bool.or_eq_false_iff, beq_eq_false_iff_ne] at h ⊢
  exact ⟨⟨h.1, h.2.2⟩, h.2.1⟩

/-- the completeness invariants along every history, for the effective filter of the merges so far -/
theorem hist_km (E : Env S) (hfix : E.fixEmptied = true) (hnd : RowsNodup E.G) (hst : StableAfter E) (hprod : Productive E)
    (hpos : PosW E) (fuel : Nat) (g : Gen S) (ys ms : List Prog) (hh : Hist E fuel g ys ms) :
    TKm E (effFilter E ms) g ys := by
  induction hh with
  | new => exact Or.inl ⟨rfl, rfl, rfl, rfl⟩
  | next g g' ys ms p _ hn ih =>
    exact (next_km E hfix (effFilter_le E ms) hnd hst hprod hpos fuel g _ ys ih hn).1
  | merge g ys ms other ok _ hs ih =>
    rcases ih with ⟨h1, _⟩ | hg
    · rw [h1] at hs; cases hs
    · exact Or.inr (merge_km E _ _ g other ok ys (effFilter_cons E ms other) hg)

/-- **liveness of the merge half (repaired `_query_list_`)**: when the generator has stopped after any history of
    `next` / `merge_program` calls, every program of the start symbol all of whose sub-programs are accepted and
    none of whose sub-programs (itself included) was merged has been yielded -/
theorem merge_complete (E : Env S) (hfix : E.fixEmptied = true) (hnd : RowsNodup E.G) (hst : StableAfter E) (hprod : Productive E)
    (hpos : PosW E) (fuel : Nat) (g : Gen S) (ys ms : List Prog) (hh : Hist E fuel g ys ms) (hfin : g.finished = true)
    (q : Prog) (x : Rat) (hcl : clean (effFilter E ms) q = true) (hx : costOf E q E.G.start = some x) : q ∈ ys := by
  rcases hist_km E hfix hnd hst hprod hpos fuel g ys ms hh with ⟨_, h2, _, _⟩ | hg
  · rw [h2] at hfin; cases hfin
  · obtain ⟨hfr, hq⟩ := hg.fin hfin
    obtain ⟨f1, _, _⟩ := hg.idle hfr
    obtain ⟨L, hlast⟩ : ∃ L, (g.st.clOf E.G.start).getLast? = some L := by
      cases h0 : (g.st.clOf E.G.start).getLast? with
      | none => exact absurd (List.getLast?_eq_none_iff.mp h0) hg.ne
      | some l => exact ⟨l, rfl⟩
    by_cases hlt : x < L.fin
    · obtain ⟨i, e, _, _, g3⟩ := hg.w.cr E.G.start q x L hcl hx hlast hlt
      exact hg.yb i q g3
    · cases q with
      | node f kids =>
        obtain ⟨rl, hr⟩ := rule_of_cost E E.G.start f kids x hx
        rcases f1.1 f kids x L rl hcl hx hlast (by grind) hr with ⟨_, g2⟩ | ⟨el, g1, _, _⟩
        · exact hg.yb _ _ g2
        · rw [hq] at g1; cases g1

/-- the same on every prefix: when a program of cost `y` has been yielded, every such program of strictly smaller
    cost has been yielded -/
theorem merge_prefix_complete (E : Env S) (hfix : E.fixEmptied = true) (hnd : RowsNodup E.G) (hst : StableAfter E)
    (hprod : Productive E) (hpos : PosW E) (fuel : Nat) (g : Gen S) (ys ms : List Prog) (hh : Hist E fuel g ys ms)
    (p q : Prog) (x y : Rat) (hp : p ∈ ys) (hy : costOf E p E.G.start = some y) (hcl : clean (effFilter E ms) q = true)
    (hx : costOf E q E.G.start = some x) (hlt : x < y) : q ∈ ys := by
  rcases hist_km E hfix hnd hst hprod hpos fuel g ys ms hh with ⟨_, _, _, h3⟩ | hg
  · rw [h3] at hp; cases hp
  · obtain ⟨c, hc1, hc2⟩ := hg.yc p hp
    rw [hy] at hc2
    have hyc : y = c.fin := Option.some.inj hc2
    obtain ⟨L, hlast⟩ : ∃ L, (g.st.clOf E.G.start).getLast? = some L := by
      cases h0 : (g.st.clOf E.G.start).getLast? with
      | none => exact absurd (List.getLast?_eq_none_iff.mp h0) hg.ne
      | some l => exact ⟨l, rfl⟩
    have hle := le_last_of_pairwise _ (hg.w.o.mono E.G.start) L hlast c hc1
    obtain ⟨i, e, _, _, g3⟩ := hg.w.cr E.G.start q x L hcl hx hlast (by grind)
    exact hg.yb i q g3

/-- `take` extends a history; when it reports the end the generator is finished -/
theorem hist_take (E : Env S) (hfix : E.fixEmptied = true) (hnd : RowsNodup E.G) (hst : StableAfter E) (hprod : Productive E)
    (hpos : PosW E) (fuel : Nat) (ms : List Prog) : ∀ (k : Nat) (g : Gen S) (acc : List Prog) (r : Gen S × List Prog × Bool),
    Hist E fuel g acc ms → take E fuel k g acc = some r → Hist E fuel r.1 r.2.1 ms ∧ (r.2.2 = true → r.1.finished = true) := by
  intro k
  induction k with
  | zero => intro g acc r hh h; simp only [take] at h; cases h; exact ⟨hh, fun hf => by cases hf⟩
  | succ k ih =>
    intro g acc r hh h
    simp only [take] at h
    split at h
    · cases h
    · next g' hn =>
      cases h
      have h1 := Hist.next g g' acc ms none hh hn
      simp only [Option.toList_none, List.append_nil] at h1
      have h2 := (next_km E hfix (effFilter_le E ms) hnd hst hprod hpos fuel g _ acc
        (hist_km E hfix hnd hst hprod hpos fuel g acc ms hh) hn).2 rfl
      exact ⟨h1, fun _ => h2⟩
    · next g' p hn =>
      have h1 := Hist.next g g' acc ms (some p) hh hn
      simp only [Option.toList_some] at h1
      exact ih g' _ r h1 h

/-- a generator that has yielded a program is started -/
theorem hist_started (E : Env S) (hfix : E.fixEmptied = true) (hnd : RowsNodup E.G) (hst : StableAfter E) (hprod : Productive E)
    (hpos : PosW E) (fuel : Nat) (g : Gen S) (ys ms : List Prog) (hh : Hist E fuel g ys ms) (hne : ys ≠ []) : g.started = true := by
  rcases hist_km E hfix hnd hst hprod hpos fuel g ys ms hh with ⟨_, _, _, h3⟩ | hg
  · exact absurd h3 hne
  · exact hg.started

end PS.Beap
