/- Bee search, completeness along runs: the fresh enumerator satisfies all invariants; `next`, `take` and histories
   of takes keep them; the start bank is exactly the yielded sequence; prefix completeness. -/
import PS.Proofs.Enum.BeeFull
namespace PS.Bee
open PS PS.G

variable {S : Type} [DecidableEq S]
set_option linter.unusedSectionVars false
set_option linter.unusedSimpArgs false

theorem root_mem_new (E : Env S) (hcheck : initCoverOK E = true) (g0 : Gen S) (h : Gen.new E = some g0) :
    ∀ nt P args, ruleArgs E nt P = some args → List.replicate args.length 0 ∈ pend g0.st nt P := by
  have hcc : coverCheck E g0.st = true := by
    unfold initCoverOK at hcheck; rw [h] at hcheck; exact hcheck
  intro nt P args ha
  unfold ruleArgs TT.rule? at ha
  cases hl : AList.lookup nt E.G.rules with
  | none => simp [hl] at ha
  | some rs =>
    simp only [hl] at ha
    cases hr : AList.lookup P rs with
    | none => simp [hr] at ha
    | some rl =>
      simp only [hr, Option.map_some, Option.some.injEq] at ha
      subst ha
      unfold coverCheck at hcc
      have h1 := List.all_eq_true.mp hcc _ (AList.lookup_some_mem hl)
      have h2 := List.all_eq_true.mp h1 _ (AList.lookup_some_mem hr)
      simp only [List.contains_eq_mem, decide_eq_true_eq] at h2
      rw [pend_eq_pairs]
      simp only [List.mem_map, List.mem_filter, decide_eq_true_eq]
      exact ⟨(P, List.replicate rl.1.length 0), ⟨h2, rfl⟩, rfl⟩

/-- **the fresh enumerator satisfies all the invariants** -/
theorem all_new (E : Env S) (H : Hyp E) (g0 : Gen S) (h : Gen.new E = some g0) :
    All E g0 ∧ ∀ nt ci p, ¬ inBank g0.st nt ci p := by
  have hfc : frontCheck g0.st = true := by
    have := H.front; unfold initFrontOK at this; rw [h] at this; exact this
  obtain ⟨hginv, hph, _, hdel, _, hbe⟩ := ginv_new E g0 h
  have hzero := zero_of_check g0.st hfc
  have hroot := root_mem_new E H.cover g0 h
  have hnodone : ∀ nt P args c, ruleArgs E nt P = some args → c.length = args.length → ¬ Done (pend g0.st nt P) c := by
    intro nt P args c ha hcl hd
    rcases hd with ⟨h1, h2⟩ | ⟨u, hu, hanc⟩
    · subst h1
      have : args = [] := List.length_eq_zero_iff.mp (by simpa using hcl.symm)
      subst this
      exact h2 (by simpa using hroot nt P [] ha)
    · have := hanc.nonzero; rw [hzero nt P u hu] at this; cases this
  have hnob : ∀ nt ci p, ¬ inBank g0.st nt ci p := by
    intro nt ci p ⟨ps, hl, _⟩
    unfold St.bankOf at hl
    cases hb : AList.lookup nt g0.st.bank with
    | none => simp [hb] at hl
    | some b =>
      rw [hbe nt b (AList.lookup_some_mem hb)] at hb
      simp [hb] at hl
  refine ⟨⟨hginv, gn_new E H.dict H.front g0 h, cov_new E H.cover g0 h,
    ⟨0, gord_new E H.nnw H.dict g0 h 0 (Int.le_refl _)⟩, ⟨?_, ?_, ?_⟩, ?_⟩, hnob⟩
  · intro nt P u hu hnz; rw [hzero nt P u hu] at hnz; cases hnz
  · intro nt P args c kids ha hd hprem _
    exact absurd hd (hnodone nt P args c ha hprem.1)
  · intro p hp; rw [hdel] at hp; simp at hp
  · intro hd; rw [hph] at hd; simp [Phase.isDone] at hd

/-- prefix completeness of an output sequence -/
def PCOK (E : Env S) (acc : List Prog) : Prop :=
  ∀ l1 q l2, acc = l1 ++ q :: l2 → ∀ p, gen E.G p E.G.start = true → Strict E p →
    pcost E p E.G.start < pcost E q E.G.start → p ∈ l1

theorem pcok_snoc (E : Env S) (acc : List Prog) (x : Prog) (h : PCOK E acc)
    (hx : ∀ p, gen E.G p E.G.start = true → Strict E p → pcost E p E.G.start < pcost E x E.G.start → p ∈ acc) :
    PCOK E (acc ++ [x]) := by
  intro l1 q l2 he p hg hs hlt
  rcases List.eq_nil_or_concat l2 with hl2 | ⟨l2', y, hl2⟩
  · subst hl2
    have : acc = l1 ∧ x = q := by
      have := List.append_inj' he (by simp)
      exact ⟨this.1, by simpa using this.2⟩
    obtain ⟨rfl, rfl⟩ := this
    exact hx p hg hs hlt
  · subst hl2
    have e : acc ++ [x] = (l1 ++ q :: l2') ++ [y] := by rw [he]; simp
    have := List.append_inj' e (by simp)
    exact h l1 q l2' this.1 p hg hs hlt

/-- the start bank is exactly the yielded sequence, which is duplicate-free and prefix-complete -/
structure RunOK (E : Env S) (g : Gen S) (acc : List Prog) : Prop where
  ok : AccOK E g acc
  bank : ∀ ci p, inBank g.st E.G.start ci p → p ∈ acc
  pc : PCOK E acc

theorem next_all (E : Env S) (H : Hyp E) (hfix : E.fixF11 = true) : ∀ (n : Nat) (g g' : Gen S) (out : Option Prog) (acc : List Prog),
    next E n g = some (g', out) → All E g → RunOK E g acc →
    All E g' ∧ (match out with | none => RunOK E g' acc ∧ g'.phase.isDone = true | some p => RunOK E g' (acc ++ [p])) := by
  intro n
  induction n with
  | zero => intro g g' out acc h; simp [next] at h
  | succ n ih =>
    intro g g' out acc h ha hr
    simp only [next] at h
    split at h
    · rename_i hd
      simp only [Option.some.injEq, Prod.mk.injEq] at h; obtain ⟨rfl, rfl⟩ := h
      exact ⟨ha, hr, hd⟩
    · split at h
      · simp at h
      · rename_i g1 p hs
        simp only [Option.some.injEq, Prod.mk.injEq] at h; obtain ⟨rfl, rfl⟩ := h
        obtain ⟨ha1, hy⟩ := step_all E H hfix g g1 (some p) hs ha
        obtain ⟨hn1, hmono, hfresh⟩ := step_nodup E g g1 (some p) hs ha.nodup
        obtain ⟨hfr, ci, hin⟩ := hfresh p rfl
        refine ⟨ha1, ⟨?_, ?_⟩, ?_, ?_⟩
        · rw [List.nodup_append]
          refine ⟨hr.ok.1, by simp, ?_⟩
          intro a haa b hb hab
          simp only [List.mem_singleton] at hb; subst hb; subst hab
          obtain ⟨cj, hcj⟩ := hr.ok.2 a haa
          exact hfr cj hcj
        · intro q hq
          rcases List.mem_append.mp hq with hq | hq
          · obtain ⟨cj, hcj⟩ := hr.ok.2 q hq; exact ⟨cj, hmono _ _ _ hcj⟩
          · simp at hq; subst hq; exact ⟨ci, hin⟩
        · intro cj q hq
          rcases step_bank_start E g g1 (some p) hs cj q hq with h1 | h1
          · exact List.mem_append_left _ (hr.bank cj q h1)
          · simp only [Option.some.injEq] at h1; subst h1; simp
        · apply pcok_snoc E acc p hr.pc
          intro x hg hst hlt
          obtain ⟨cj, hcj⟩ := hy p rfl x hg hst hlt
          exact hr.bank cj x hcj
      · rename_i g1 hs
        obtain ⟨ha1, _⟩ := step_all E H hfix g g1 none hs ha
        obtain ⟨_, hmono, _⟩ := step_nodup E g g1 none hs ha.nodup
        apply ih g1 g' out acc h ha1
        refine ⟨⟨hr.ok.1, fun q hq => by obtain ⟨cj, hcj⟩ := hr.ok.2 q hq; exact ⟨cj, hmono _ _ _ hcj⟩⟩, ?_, hr.pc⟩
        intro cj q hq
        rcases step_bank_start E g g1 none hs cj q hq with h1 | h1
        · exact hr.bank cj q h1
        · cases h1

theorem take_all (E : Env S) (H : Hyp E) (hfix : E.fixF11 = true) (fuel : Nat) : ∀ (k : Nat) (g g' : Gen S) (acc out : List Prog)
    (fin : Bool), take E fuel k g acc = some (g', out, fin) → All E g → RunOK E g acc →
    All E g' ∧ RunOK E g' out ∧ (fin = true → g'.phase.isDone = true) := by
  intro k
  induction k with
  | zero =>
    intro g g' acc out fin h ha hr
    simp only [take, Option.some.injEq, Prod.mk.injEq] at h; obtain ⟨rfl, rfl, rfl⟩ := h
    exact ⟨ha, hr, by simp⟩
  | succ k ih =>
    intro g g' acc out fin h ha hr
    simp only [take] at h
    split at h
    · simp at h
    · rename_i g1 hn
      simp only [Option.some.injEq, Prod.mk.injEq] at h; obtain ⟨rfl, rfl, rfl⟩ := h
      obtain ⟨h1, h2, h3⟩ := next_all E H hfix fuel g g1 none acc hn ha hr
      exact ⟨h1, h2, fun _ => h3⟩
    · rename_i g1 p hn
      obtain ⟨h1, h2⟩ := next_all E H hfix fuel g g1 (some p) acc hn ha hr
      exact ih g1 g' (acc ++ [p]) out fin h h1 h2

theorem runActs_all (E : Env S) (H : Hyp E) (hfix : E.fixF11 = true) (fuel : Nat) : ∀ (acts : List Act) (g g' : Gen S)
    (acc out : List Prog), acts.all Act.isTake = true → runActs E fuel acts g acc = some (g', out) → All E g → RunOK E g acc →
    All E g' ∧ RunOK E g' out := by
  intro acts
  induction acts with
  | nil =>
    intro g g' acc out _ h ha hr
    simp only [runActs, Option.some.injEq, Prod.mk.injEq] at h; obtain ⟨rfl, rfl⟩ := h
    exact ⟨ha, hr⟩
  | cons a rest ih =>
    intro g g' acc out hall h ha hr
    simp only [List.all_cons, Bool.and_eq_true] at hall
    cases a with
    | merge p ty => simp [Act.isTake] at hall
    | take k =>
      simp only [runActs] at h
      split at h
      · simp at h
      · rename_i g1 ys fin ht
        have ht' := take_prefix E fuel k g g1 [] ys fin ht acc
        simp only [List.append_nil] at ht'
        obtain ⟨h1, h2, _⟩ := take_all E H hfix fuel k g g1 acc (acc ++ ys) fin ht' ha hr
        exact ih _ _ _ _ hall.2 h h1 h2

end PS.Bee
