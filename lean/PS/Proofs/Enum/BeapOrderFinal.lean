/- The order of beap search under positive rule costs, generator level: the order invariants hold
   after the prologue and are kept by `next` and `merge_program`; hence every cost list is strictly
   increasing at every moment and the yielded costs are non-decreasing. -/
import PS.Proofs.Enum.BeapOrderFull
namespace PS.Beap
open PS PS.G PS.Heapq
set_option linter.unusedSectionVars false
variable {S : Type} [DecidableEq S]

/- every program has a positive cost when every rule cost is positive -/
mutual
  theorem costOf_pos (E : Env S) (hpos : PosW E) : ∀ (t : Prog) (nt : NT S Unit) (k : Rat), costOf E t nt = some k → 0 < k
    | .node f kids, nt, k, hk => by
      simp only [costOf] at hk
      split at hk
      · next args u w hr hw =>
        split at hk
        · next x hx =>
          cases hk
          have h1 := hpos nt f w hw
          have h2 := costOfList_nonneg E hpos kids args x hx
          grind
        · cases hk
      · cases hk
  theorem costOfList_nonneg (E : Env S) (hpos : PosW E) : ∀ (kids : List Prog) (args : List (Ty × S)) (x : Rat),
      costOfList E kids args = some x → 0 ≤ x
    | [], [], x, hx => by simp only [costOfList, Option.some.injEq] at hx; subst hx; exact Rat.le_refl
    | [], _ :: _, _, hx => by simp [costOfList] at hx
    | _ :: _, [], _, hx => by simp [costOfList] at hx
    | k1 :: ks, a :: as, x, hx => by
      simp only [costOfList] at hx
      split at hx
      · next y x' hy hx' =>
        cases hx
        have h1 := costOf_pos E hpos k1 (ntOf a) y hy
        have h2 := costOfList_nonneg E hpos ks as x' hx'
        grind
      · cases hx
end

/-- order invariant of the generator object -/
def GO (E : Env S) (g : Gen S) : Prop :=
  OI g.st ∧ (∀ fr, g.frame = some fr → FrO g.st E.G.start fr) ∧
  (g.frame = none → g.n + 1 = (g.st.clOf E.G.start).length ∨ (g.st.clOf E.G.start).length ≤ g.n)

theorem nextLoop_order (E : Env S) (hpos : PosW E) (fuel : Nat) : ∀ (k : Nat) (s : St S) (n : Nat) (failed : Bool) (fro : Option Frame)
    (r : Gen S × Option Prog), CInv E s → OI s →
    (∀ fr, fro = some fr → FrC E s E.G.start fr ∧ FrO s E.G.start fr ∧ fr.ci = n) →
    (fro = none → n + 1 = (s.clOf E.G.start).length ∨ (s.clOf E.G.start).length ≤ n) →
    nextLoop E fuel k s n failed fro = some r → GO E r.1 := by
  intro k
  induction k with
  | zero => intro s n failed fro r _ _ _ _ h; simp [nextLoop] at h
  | succ k ih =>
    intro s n failed fro r hc hs hf hnone h
    cases fro with
    | some fr =>
      obtain ⟨hfc, hfo, hci⟩ := hf fr rfl
      simp only [nextLoop] at h
      split at h
      · cases h
      · next s1 p fr1 hr =>
        cases h
        obtain ⟨g1, _, g3, _⟩ := (order_all E hpos fuel).2.2.2.1 _ _ _ _ (fr.cost.fin + 1) hc hfc hs hfo (by grind) hr
        exact ⟨g1, fun fr' he => (by cases he; exact g3 p fr1 rfl), fun he => (by cases he)⟩
      · next s1 hr =>
        obtain ⟨g1, _, _, g4⟩ := (order_all E hpos fuel).2.2.2.1 _ _ _ _ (fr.cost.fin + 1) hc hfc hs hfo (by grind) hr
        obtain ⟨c1, c2, _⟩ := (cost_all E fuel).2.2.2.1 _ _ _ _ hc hfc hr
        have hlen : n + 1 + 1 = (s1.clOf E.G.start).length ∨ (s1.clOf E.G.start).length ≤ n + 1 := by
          have h1 : (s1.clOf E.G.start).length ≤ (s.clOf E.G.start).length + 1 := g4 rfl
          have h2 := hfo.1
          rw [hci] at h2
          have h3 : (s.clOf E.G.start).length ≤ (s1.clOf E.G.start).length := (c2 E.G.start).length_le
          omega
        split at h
        · cases h
          exact ⟨g1, fun fr' he => (by cases he), fun _ => hlen⟩
        · exact ih _ _ _ _ _ c1 g1 (fun fr' he => by cases he) (fun _ => hlen) h
    | none =>
      simp only [nextLoop] at h
      have hc0 : CInv E { s with failedByEmpties := false } := CInv.of_eq (s := s) (fun _ => rfl) (fun _ => rfl) (fun _ _ => rfl) hc
      have hs0 : OI { s with failedByEmpties := false } := OI.of_eq (s := s) (fun _ => rfl) (fun _ => rfl) hs
      have hn := hnone rfl
      split at h
      · next hget =>
        cases h
        refine ⟨hs0, fun fr' he => (by cases he), fun _ => Or.inr ?_⟩
        have : (s.clOf E.G.start).length ≤ n := by
          have := List.getElem?_eq_none_iff.mp hget; exact this
        show (s.clOf E.G.start).length ≤ n + 1
        omega
      · next c hget =>
        have hlt : n < (s.clOf E.G.start).length := (List.getElem?_eq_some_iff.mp hget).1
        have hl : n + 1 = (s.clOf E.G.start).length := by
          rcases hn with h1 | h1
          · exact h1
          · omega
        exact ih _ _ _ _ _ hc0 hs0 (fun fr' he => by
          cases he
          exact ⟨⟨hget, fun a ha => by cases ha⟩, ⟨hl, hget⟩, rfl⟩) (fun he => by cases he) h

/-- the order invariants after the prologue -/
theorem prologue_oi (E : Env S) (hnd : RowsNodup E.G) (hst : StableAfter E) (hprod : Productive E) (hpos : PosW E)
    (fuel : Nat) (s' : St S) (h : prologue E fuel (St.empty E.G) = some s') : OI s' := by
  have hc := prologue_cinv E hnd hst hprod fuel s' h
  have hpi := prologue_pi E hnd fuel s' h
  have hm := prologue_minv E hnd fuel _ _ (minv_empty E) h
  obtain ⟨hhm, hheap⟩ := prologue_headMin E fuel s' h
  have hfinQ : ∀ nt el, el ∈ s'.queueOf nt → el.cost.inf = 0 := by
    intro nt el hel
    obtain ⟨_, _, _, _, _, _, h4⟩ := hc.queue nt el hel
    rw [h4]; rfl
  have hsingle : ∀ nt c, c ∈ s'.clOf nt → s'.clOf nt = [c] := by
    intro nt c hcm
    have hlen := hpi.len nt
    cases hcl : s'.clOf nt with
    | nil => rw [hcl] at hcm; cases hcm
    | cons c0 rest =>
      rw [hcl] at hlen hcm
      have hrest : rest = [] := by
        cases rest with
        | nil => rfl
        | cons _ _ => simp at hlen
      subst hrest
      simp only [List.mem_singleton] at hcm; subst hcm; rfl
  refine ⟨hc.fin, hfinQ, fun nt c hcm => ?_, fun nt => ?_, fun nt el c hel hcm => ?_, hheap⟩
  · obtain ⟨t, _, ht⟩ := (hm.cl nt c [] (hsingle nt c hcm)).2 (hc.fin nt c hcm)
    exact costOf_pos E hpos t nt _ ht
  · have hlen := hpi.len nt
    cases hcl : s'.clOf nt with
    | nil => exact List.Pairwise.nil
    | cons c0 rest =>
      rw [hcl] at hlen
      have hrest : rest = [] := by
        cases rest with
        | nil => rfl
        | cons _ _ => simp at hlen
      subst hrest
      exact List.pairwise_singleton _ _
  · have := hhm nt c [] (hsingle nt c hcm) el hel
    exact (Cost.lt_false_iff _ _ (hfinQ nt el hel) (hc.fin nt c hcm)).mp this

theorem next_order (E : Env S) (hnd : RowsNodup E.G) (hst : StableAfter E) (hprod : Productive E) (hpos : PosW E)
    (fuel : Nat) (g : Gen S) (r : Gen S × Option Prog) (hgc : GC E g) (hgo : GO E g)
    (hfresh : g.started = false → g.st = St.empty E.G ∧ g.frame = none) (h : next E fuel g = some r) : GO E r.1 := by
  unfold next at h
  split at h
  · cases h; exact hgo
  · split at h
    · refine nextLoop_order E hpos fuel _ _ _ _ _ _ hgc.1 hgo.1 (fun fr he => ?_) hgo.2.2 h
      exact ⟨(hgc.2 fr he).1, hgo.2.1 fr he, (hgc.2 fr he).2⟩
    · next hns =>
      have hns' : g.started = false := by simpa using hns
      obtain ⟨hst0, _⟩ := hfresh hns'
      split at h
      · cases h
      · next s hp =>
        rw [hst0] at hp
        have hc : CInv E s := prologue_cinv E hnd hst hprod fuel s hp
        have hs : OI s := prologue_oi E hnd hst hprod hpos fuel s hp
        have hlen := (prologue_pi E hnd fuel s hp).len E.G.start
        exact nextLoop_order E hpos fuel _ _ _ _ _ _ hc hs (fun fr he => by cases he) (fun _ => by omega) h

theorem merge_order (E : Env S) (g : Gen S) (other : Prog) (ok : NT S Unit → Bool) (hg : GO E g) : GO E (merge g other ok) := by
  have hcl : ∀ nt, (merge g other ok).st.clOf nt = g.st.clOf nt := by
    intro nt; unfold merge St.clOf; simp only; unfold St.addDeleted; split <;> rfl
  have hq : ∀ nt, (merge g other ok).st.queueOf nt = g.st.queueOf nt := by
    intro nt; unfold merge St.queueOf; simp only; unfold St.addDeleted; split <;> rfl
  refine ⟨hg.1.of_eq hcl hq, fun fr he => ?_, fun he => ?_⟩
  · have := hg.2.1 fr he
    exact ⟨by rw [hcl]; exact this.1, by rw [hcl]; exact this.2⟩
  · have := hg.2.2 he
    rw [hcl]; exact this

theorem go_new (E : Env S) : GO E (Gen.new E.G) := by
  have hcl : ∀ nt, (Gen.new E.G).st.clOf nt = [] := fun nt => lookup_map_nil E.G.rules nt
  have hq : ∀ nt, (Gen.new E.G).st.queueOf nt = [] := fun nt => lookup_map_nil E.G.rules nt
  refine ⟨⟨fun nt c hm => (by rw [hcl] at hm; cases hm), fun nt el hm => (by rw [hq] at hm; cases hm),
    fun nt c hm => (by rw [hcl] at hm; cases hm), fun nt => (by rw [hcl]; exact List.Pairwise.nil),
    fun nt el c h1 _ => (by rw [hq] at h1; cases h1), fun nt => (by rw [hq]; exact isHeap_nil ltE)⟩,
    fun fr he => (by cases he), fun _ => Or.inr (by rw [hcl]; exact Nat.zero_le _)⟩

/-- the order invariant along `take` from a generator that satisfies it -/
theorem take_order (E : Env S) (hnd : RowsNodup E.G) (hst : StableAfter E) (hprod : Productive E) (hpos : PosW E) (fuel : Nat) :
    ∀ (k : Nat) (g : Gen S) (acc : List Prog) (r : Gen S × List Prog × Bool), GC E g → GO E g →
      (g.started = false → g.st = St.empty E.G ∧ g.frame = none) → take E fuel k g acc = some r → GO E r.1 := by
  intro k
  induction k with
  | zero => intro g acc r _ hgo _ h; simp only [take] at h; cases h; exact hgo
  | succ k ih =>
    intro g acc r hgc hgo hfresh h
    simp only [take] at h
    split at h
    · cases h
    · next g' hn => cases h; exact next_order E hnd hst hprod hpos fuel g _ hgc hgo hfresh hn
    · next g' p hn =>
      have hgo' := next_order E hnd hst hprod hpos fuel g _ hgc hgo hfresh hn
      obtain ⟨hgc', _, _, hy⟩ := next_cost E hnd hst hprod fuel g _ hgc hfresh hn
      have hst' : g'.started = true := (hy p rfl).1
      exact ih g' _ r hgc' hgo' (fun hs => by rw [hst'] at hs; cases hs) h

end PS.Beap
