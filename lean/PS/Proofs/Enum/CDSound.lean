/- Soundness of constant-delay search as a state invariant (every arithmetic, grammar, filter, fuel, history):
   every program in a bank is derivable from the non-terminal of the bank, every stored pool reference
   points to the bank of the right argument non-terminal, every index tuple in a derivation queue has one
   index per argument. -/
import PS.Model.Enum.ConstantDelay
import PS.Proofs.Enum.CDQueue
import PS.Proofs.Enum.CDSucc
import PS.Proofs.Enum.CDFilter
namespace PS.CD
variable {α : Type}

/-- position-wise relation of two lists of the same length -/
inductive All2 {β γ : Type} (R : β → γ → Prop) : List β → List γ → Prop
  | nil : All2 R [] []
  | cons {x y xs ys} : R x y → All2 R xs ys → All2 R (x :: xs) (y :: ys)

theorem All2.length_eq {β γ : Type} {R : β → γ → Prop} {l1 : List β} {l2 : List γ} (h : All2 R l1 l2) :
    l1.length = l2.length := by
  induction h with
  | nil => rfl
  | cons _ _ ih => simp [ih]

theorem All2.snoc {β γ : Type} {R : β → γ → Prop} {l1 : List β} {l2 : List γ} {x : β} {y : γ} (h : All2 R l1 l2)
    (hxy : R x y) : All2 R (l1 ++ [x]) (l2 ++ [y]) := by
  induction h with
  | nil => exact .cons hxy .nil
  | cons h1 _ ih => exact .cons h1 ih

/-- a stored pool of argument position `a` refers to a bank of `a` -/
def okRef (r : Ref) (a : NT) : Prop := ∀ S ci, r = some (S, ci) → S = a

def BankOK (G : Gram) (bank : AList NT (AList Nat (List Prog))) : Prop :=
  ∀ S b ci l p, AList.lookup S bank = some b → AList.lookup ci b = some l → p ∈ l → derives G S p = true

def DerOK (bd : AList (List NT) (AList Nat (List (List Ref)))) : Prop :=
  ∀ args b ci l poss, AList.lookup args bd = some b → AList.lookup ci b = some l → poss ∈ l →
    All2 okRef poss args

def QueuesOK (qd : AList (List NT) (Q α)) : Prop :=
  ∀ args q, AList.lookup args qd = some q → QWF q ∧ ∀ cb ∈ q.contents, cb.length = args.length

/-- the soundness invariant of the tables -/
def SInv (E : Env α) (s : St α) : Prop := BankOK E.G s.bankNt ∧ DerOK s.bankDer ∧ QueuesOK s.queueDer

theorem sinv_of_eq {E : Env α} {s s' : St α} (h1 : s'.bankNt = s.bankNt) (h2 : s'.bankDer = s.bankDer)
    (h3 : s'.queueDer = s.queueDer) (h : SInv E s) : SInv E s' := by
  unfold SInv; rw [h1, h2, h3]; exact h

theorem sinv_addDeleted {E : Env α} {s : St α} (p : Prog) (h : SInv E s) : SInv E (s.addDeleted p) := by
  unfold St.addDeleted; split
  · exact h
  · exact sinv_of_eq rfl rfl rfl h

theorem bankOK_insert {G : Gram} {bank : AList NT (AList Nat (List Prog))} {S : NT} {b' : AList Nat (List Prog)}
    (h : BankOK G bank) (hb : ∀ ci l p, AList.lookup ci b' = some l → p ∈ l → derives G S p = true) :
    BankOK G (AList.insert S b' bank) := by
  intro S2 b2 ci l p h1 h2 h3
  rw [AList.lookup_insert] at h1
  split at h1
  · rename_i he
    simp only [Option.some.injEq] at h1
    subst h1; subst he
    exact hb ci l p h2 h3
  · exact h S2 b2 ci l p h1 h2 h3

theorem sinv_ensureBank {E : Env α} {s s' : St α} {S : NT} {ci : Nat} (h : SInv E s) (he : s.ensureBank S ci = some s') :
    SInv E s' := by
  unfold St.ensureBank at he
  split at he
  · simp at he
  · rename_i b hb
    split at he
    · simp only [Option.some.injEq] at he; subst he; exact h
    · simp only [Option.some.injEq] at he; subst he
      refine ⟨bankOK_insert h.1 ?_, h.2.1, h.2.2⟩
      intro ci2 l p h1 h2
      rw [AList.lookup_insert] at h1
      split at h1
      · simp only [Option.some.injEq] at h1; subst h1; simp at h2
      · exact h.1 S b ci2 l p hb h1 h2

theorem sinv_appendBank {E : Env α} {s s' : St α} {S : NT} {ci : Nat} {p : Prog} (h : SInv E s)
    (hp : derives E.G S p = true) (he : s.appendBank S ci p = some s') : SInv E s' := by
  unfold St.appendBank at he
  split at he
  · simp at he
  · rename_i b hb
    split at he
    · simp at he
    · rename_i l hl
      simp only [Option.some.injEq] at he; subst he
      refine ⟨bankOK_insert h.1 ?_, h.2.1, h.2.2⟩
      intro ci2 l2 p2 h1 h2
      rw [AList.lookup_insert] at h1
      split at h1
      · simp only [Option.some.injEq] at h1; subst h1
        rcases List.mem_append.mp h2 with h3 | h3
        · rename_i hci; subst hci; exact h.1 S b _ l p2 hb hl h3
        · simp only [List.mem_singleton] at h3; subst h3; exact hp
      · exact h.1 S b ci2 l2 p2 hb h1 h2

theorem sinv_setQueueDer {E : Env α} {s : St α} {args : List NT} {q : Q α} (h : SInv E s) (hq : QWF q)
    (hl : ∀ cb ∈ q.contents, cb.length = args.length) : SInv E (s.setQueueDer args q) := by
  refine ⟨h.1, h.2.1, ?_⟩
  intro a q2 h1
  simp only [St.setQueueDer] at h1
  rw [AList.lookup_insert] at h1
  split at h1
  · rename_i he
    simp only [Option.some.injEq] at h1; subst h1; subst he
    exact ⟨hq, hl⟩
  · exact h.2.2 a q2 h1

theorem derOK_insert {bd : AList (List NT) (AList Nat (List (List Ref)))} {args : List NT} {b' : AList Nat (List (List Ref))}
    (h : DerOK bd) (hb : ∀ ci l poss, AList.lookup ci b' = some l → poss ∈ l → All2 okRef poss args) :
    DerOK (AList.insert args b' bd) := by
  intro a b2 ci l poss h1 h2 h3
  rw [AList.lookup_insert] at h1
  split at h1
  · rename_i he
    simp only [Option.some.injEq] at h1; subst h1; subst he
    exact hb ci l poss h2 h3
  · exact h a b2 ci l poss h1 h2 h3

/-! ### products of pools -/

theorem derives_node {G : Gram} {S : NT} {P : Sym} {args : List NT} {w : Int} {kids : List Prog}
    (hr : G.rule? S P = some (args, w)) (hk : derivesL G args kids = true) : derives G S (.node P kids) = true := by
  simp [derives, hr, hk]

theorem cartesian_derives {G : Gram} : ∀ (pools : List (List Prog)) (args : List NT),
    All2 (fun pool a => ∀ p ∈ pool, derives G a p = true) pools args →
    ∀ tup ∈ cartesian pools, derivesL G args tup = true
  | [], [], _, tup, h => by
    simp only [cartesian, List.mem_singleton] at h; subst h; simp [derivesL]
  | pool :: pools, a :: args, hf, tup, h => by
    cases hf with
    | cons h1 h2 =>
      simp only [cartesian, List.mem_flatMap, List.mem_map] at h
      obtain ⟨x, hx, r, hr, rfl⟩ := h
      simp [derivesL, h1 x hx, cartesian_derives pools args h2 r hr]
  | [], _ :: _, hf, _, _ => by cases hf
  | _ :: _, [], hf, _, _ => by cases hf

theorem resolve_pools {E : Env α} {s : St α} (h : BankOK E.G s.bankNt) : ∀ (ps : List Ref) (args : List NT),
    All2 okRef ps args →
    All2 (fun pool a => ∀ p ∈ pool, derives E.G a p = true) (ps.map s.resolve) args
  | [], [], _ => .nil
  | r :: ps, a :: args, hf => by
    cases hf with
    | cons h1 h2 =>
      refine .cons ?_ (resolve_pools h ps args h2)
      intro p hp
      cases r with
      | none => simp [St.resolve] at hp
      | some x =>
        obtain ⟨S, ci⟩ := x
        have hS := h1 S ci rfl
        subst hS
        simp only [St.resolve] at hp
        cases hb : AList.lookup S s.bankNt with
        | none => simp [hb] at hp
        | some b =>
          cases hl : AList.lookup ci b with
          | none => simp [hb, hl] at hp
          | some l =>
            simp [hb, hl] at hp
            exact h S b ci l p hb hl hp
  | [], _ :: _, hf => by cases hf
  | _ :: _, [], hf => by cases hf

/-- the invariant of a suspended `query(S, ci)`: the symbol of the popped element is a rule of `S`, the
    remaining pools refer to the banks of its argument non-terminals, the remaining tuples are derivable -/
def FInv (E : Env α) (fr : Frame α) : Prop :=
  match fr.cur with
  | none => True
  | some (P, poss, tups) => ∃ args w, E.G.rule? fr.S P = some (args, w) ∧
      (∀ ps ∈ poss, All2 okRef ps args) ∧ ∀ tup ∈ tups, derivesL E.G args tup = true

/-! ### queue operations inside the machine -/

theorem qwf_update (A : Arith α) (q q' : Q α) (hq : QWF q) (h : q.update A = some q') :
    QWF q' ∧ q'.contents = q.contents := by
  unfold Q.update at h
  split at h
  · simp only [Option.some.injEq] at h; subst h; exact ⟨hq, rfl⟩
  · split at h
    · simp at h
    · split at h
      · split at h
        · simp only [Option.some.injEq] at h; subst h
          exact ⟨⟨hq.cells, hq.count, hq.len, hq.kpos⟩, rfl⟩
        · simp at h
      · split at h
        · simp at h
        · simp only [Option.some.injEq] at h; subst h
          exact ⟨⟨hq.cells, hq.count, hq.len, hq.kpos⟩, rfl⟩

theorem succLoop_sinv (E : Env α) (args : List NT) (c : α) (comb : List Nat) (hlen : comb.length = args.length) :
    ∀ (rem i : Nat) (s s' : St α), succLoop E.A E.asserts args c comb rem i s = some s' → SInv E s → SInv E s' := by
  intro rem
  induction rem with
  | zero => intro i s s' h hs; simp only [succLoop, Option.some.injEq] at h; subst h; exact hs
  | succ rem ih =>
    intro i s s' h hs
    simp only [succLoop] at h
    split at h
    · split at h
      · simp at h
      · split at h
        · split at h
          · simp only [Option.some.injEq] at h; subst h; exact hs
          · exact ih _ _ _ h hs
        · split at h
          · rename_i c0 c1 q _ _ hq
            split at h
            · simp at h
            · rename_i q' hpush
              obtain ⟨hwf, hl⟩ := hs.2.2 args q hq
              obtain ⟨hwf', _, hperm, _, _⟩ := qwf_push E.A q q' _ E.asserts hwf hpush
              have hs' : SInv E (s.setQueueDer args q') := by
                refine sinv_setQueueDer hs hwf' ?_
                intro cb hcb
                have := hperm.mem_iff.mp hcb
                rcases List.mem_append.mp this with h1 | h1
                · exact hl cb h1
                · simp only [List.mem_singleton] at h1
                  subst h1; simp [hlen]
              split at h
              · simp only [Option.some.injEq] at h; subst h; exact hs'
              · exact ih _ _ _ h hs'
          · simp at h
    · simp at h

theorem exitQuery_sinv {E : Env α} {s s' : St α} {fr : Frame α} (h : exitQuery s fr = some s') (hs : SInv E s) : SInv E s' := by
  unfold exitQuery at h
  simp only at h
  split at h
  · simp at h
  · rename_i s1 hs1
    have h1 : SInv E s1 := by
      split at hs1
      · split at hs1
        · simp at hs1
        · simp only [Option.some.injEq] at hs1; subst hs1; exact sinv_of_eq rfl rfl rfl hs
      · simp only [Option.some.injEq] at hs1; subst hs1; exact hs
    split at h
    · simp only [Option.some.injEq] at h; subst h; exact sinv_of_eq rfl rfl rfl h1
    · simp only [Option.some.injEq] at h; subst h; exact h1
    · simp at h

/-! ### the machine -/

def ResOK (E : Env α) (S : NT) : Res α → Prop
  | .yield s' fr' p => SInv E s' ∧ FInv E fr' ∧ fr'.S = S ∧ derives E.G S p = true
  | .done s' => SInv E s'

structure Snd (E : Env α) (f : Nat) : Prop where
  resume : ∀ s fr r, resume E f s fr = some r → SInv E s → FInv E fr → ResOK E fr.S r
  drive : ∀ s fr s', drive E f s fr = some s' → SInv E s → FInv E fr → SInv E s'
  queryList : ∀ s S ci s' ia r, queryList E f s S ci = some (s', ia, r) → SInv E s → SInv E s' ∧ okRef r S
  argLoop : ∀ s cs ss ia agf acc s' ia' agf' acc' pre,
    argLoop E f s cs ss ia agf acc = some (s', ia', agf', acc') → SInv E s → All2 okRef acc pre →
    cs.length = ss.length → SInv E s' ∧ (agf' = false → All2 okRef acc' (pre ++ ss))
  combLoop : ∀ s args ci c combs ns hg s' ns' hg',
    combLoop E f s args ci c combs ns hg = some (s', ns', hg') → SInv E s →
    (∀ cb ∈ combs, cb.length = args.length) → SInv E s'
  queryDer : ∀ s args ci s' l, queryDer E f s args ci = some (s', l) → SInv E s →
    SInv E s' ∧ ∀ poss ∈ l, All2 okRef poss args

theorem finv_none {E : Env α} {fr : Frame α} (h : fr.cur = none) : FInv E fr := by
  unfold FInv; rw [h]; trivial

theorem snd_resume (E : Env α) (f : Nat) (ih : Snd E f) : ∀ s fr r, resume E (f + 1) s fr = some r → SInv E s →
    FInv E fr → ResOK E fr.S r := by
  intro s fr r h hs hf
  rw [resume] at h
  split at h
  · -- inside a product
    rename_i P poss tup tups hcur
    have hf' := hf
    unfold FInv at hf'
    rw [hcur] at hf'
    obtain ⟨args, w, hrule, hposs, htups⟩ := hf'
    have hfr' : FInv E { fr with cur := some (P, poss, tups) } := by
      show FInv E _
      unfold FInv
      exact ⟨args, w, hrule, hposs, fun t ht => htups t (List.mem_cons_of_mem _ ht)⟩
    simp only at h
    split at h
    · have hres := ih.resume _ _ _ h hs hfr'
      exact hres
    · split at h
      · have hres := ih.resume _ _ _ h (sinv_addDeleted _ hs) hfr'
        exact hres
      · split at h
        · simp at h
        · rename_i s1 hb
          simp only [Option.some.injEq] at h
          subst h
          have hd : derives E.G fr.S (.node P tup) = true := derives_node hrule (htups tup List.mem_cons_self)
          exact ⟨sinv_appendBank hs hd hb, hfr', rfl, hd⟩
  · -- next `possibles`
    rename_i P ps poss hcur
    have hf' := hf
    unfold FInv at hf'
    rw [hcur] at hf'
    obtain ⟨args, w, hrule, hposs, _⟩ := hf'
    have hres := ih.resume _ { fr with cur := some (P, poss, cartesian (ps.map s.resolve)) } _ h hs ?_
    · exact hres
    show FInv E _
    unfold FInv
    refine ⟨args, w, hrule, fun ps' hps' => hposs ps' (List.mem_cons_of_mem _ hps'), ?_⟩
    exact cartesian_derives _ _ (resolve_pools hs.1 ps args (hposs ps List.mem_cons_self))
  · have hres := ih.resume _ _ _ h hs (finv_none rfl)
    exact hres
  · -- head of the while loop
    rename_i hcur
    split at h
    · simp at h
    · split at h
      · cases hx : exitQuery s fr with
        | none => simp [hx] at h
        | some s' =>
          simp only [hx, Option.map_some, Option.some.injEq] at h
          subst h
          exact exitQuery_sinv hx hs
      · split at h
        · cases hx : exitQuery s fr with
          | none => simp [hx] at h
          | some s' =>
            simp only [hx, Option.map_some, Option.some.injEq] at h
            subst h
            exact exitQuery_sinv hx hs
        · split at h
          · simp at h
          · rename_i el heap' hpop
            split at h
            · rename_i s1 args w he hrule
              have hs0 : SInv E (s.setHeap fr.S heap') := sinv_of_eq rfl rfl rfl hs
              have hs1 : SInv E s1 := sinv_ensureBank hs0 he
              split at h
              · -- a terminal rule
                rename_i hempty
                have hargs : args = [] := by simpa using hempty
                subst hargs
                have hd : derives E.G fr.S (.node el.P []) = true := derives_node hrule (by simp [derivesL])
                simp only at h
                split at h
                · have hres := ih.resume _ _ _ h hs1 hf
                  exact hres
                · split at h
                  · have hres := ih.resume _ _ _ h (sinv_addDeleted _ hs1) hf
                    exact hres
                  · split at h
                    · simp at h
                    · rename_i s2 hb
                      simp only [Option.some.injEq] at h
                      subst h
                      exact ⟨sinv_appendBank hs1 hd hb, finv_none hcur, rfl, hd⟩
              · split at h
                · simp at h
                · rename_i s2 possibles hq
                  obtain ⟨hs2, hposs⟩ := ih.queryDer _ _ _ _ _ hq hs1
                  split at h
                  · rename_i em cl h2 _ _ _
                    have hs3 : SInv E (pushNext E.A s2 fr.S h2 w el cl fr.noSucc).1 := by
                      unfold pushNext; split
                      · exact sinv_of_eq rfl rfl rfl hs2
                      · exact hs2
                    simp only at h
                    split at h
                    · have hres := ih.resume _ _ _ h hs3 (finv_none hcur)
                      exact hres
                    · have hfi : FInv E { fr with noSucc := (pushNext E.A s2 fr.S h2 w el cl fr.noSucc).2,
                                                  cur := some (el.P, possibles, []) } := by
                        show FInv E _
                        unfold FInv
                        exact ⟨args, w, hrule, hposs, by simp⟩
                      have hres := ih.resume _ _ _ h hs3 hfi
                      exact hres
                  · simp at h
            · simp at h

theorem snd_drive (E : Env α) (f : Nat) (ih : Snd E f) : ∀ s fr s', drive E (f + 1) s fr = some s' → SInv E s →
    FInv E fr → SInv E s' := by
  intro s fr s' h hs hf
  rw [drive] at h
  split at h
  · simp at h
  · rename_i s1 hr
    simp only [Option.some.injEq] at h; subst h
    exact ih.resume _ _ _ hr hs hf
  · rename_i s1 fr1 p hr
    obtain ⟨h1, h2, _, _⟩ := ih.resume _ _ _ hr hs hf
    exact ih.drive _ _ _ h h1 h2

theorem snd_queryList (E : Env α) (f : Nat) (ih : Snd E f) : ∀ s S ci s' ia r,
    queryList E (f + 1) s S ci = some (s', ia, r) → SInv E s → SInv E s' ∧ okRef r S := by
  intro s S ci s' ia r h hs
  have hnone : okRef none S := fun _ _ hh => by simp at hh
  have hsome : okRef (some (S, ci)) S := fun S2 ci2 hh => by
    simp only [Option.some.injEq, Prod.mk.injEq] at hh; exact hh.1.symm
  rw [queryList] at h
  split at h
  · split at h
    · simp only [Option.some.injEq, Prod.mk.injEq] at h
      obtain ⟨h1, _, h3⟩ := h; subst h1; subst h3; exact ⟨hs, hnone⟩
    · split at h
      · simp only [Option.some.injEq, Prod.mk.injEq] at h
        obtain ⟨h1, _, h3⟩ := h; subst h1; subst h3; exact ⟨hs, hnone⟩
      · split at h
        · simp only [Option.some.injEq, Prod.mk.injEq] at h
          obtain ⟨h1, _, h3⟩ := h; subst h1; subst h3; exact ⟨hs, hsome⟩
        · split at h
          · simp at h
          · rename_i s1 hd
            have hs1 := ih.drive _ _ _ hd hs (finv_none rfl)
            split at h
            · split at h
              · simp only [Option.some.injEq, Prod.mk.injEq] at h
                obtain ⟨h1, _, h3⟩ := h; subst h1; subst h3; exact ⟨hs1, hnone⟩
              · split at h
                · simp only [Option.some.injEq, Prod.mk.injEq] at h
                  obtain ⟨h1, _, h3⟩ := h; subst h1; subst h3; exact ⟨hs1, hsome⟩
                · simp at h
            · simp at h
  · simp at h

theorem snd_argLoop (E : Env α) (f : Nat) (ih : Snd E f) : ∀ s cs ss ia agf acc s' ia' agf' acc' pre,
    argLoop E (f + 1) s cs ss ia agf acc = some (s', ia', agf', acc') → SInv E s → All2 okRef acc pre →
    cs.length = ss.length → SInv E s' ∧ (agf' = false → All2 okRef acc' (pre ++ ss)) := by
  intro s cs ss ia agf acc s' ia' agf' acc' pre h hs hacc hlen
  cases cs with
  | nil =>
    have hss : ss = [] := by cases ss with
      | nil => rfl
      | cons _ _ => simp at hlen
    subst hss
    simp only [argLoop, Option.some.injEq, Prod.mk.injEq] at h
    obtain ⟨h1, _, _, h4⟩ := h; subst h1; subst h4
    exact ⟨hs, fun _ => by simpa using hacc⟩
  | cons c cs =>
    cases ss with
    | nil => simp at hlen
    | cons Si ss =>
      rw [argLoop] at h
      split at h
      · simp at h
      · rename_i s1 one r hq
        obtain ⟨hs1, hr⟩ := ih.queryList _ _ _ _ _ _ hq hs
        have hacc' : All2 okRef (acc ++ [r]) (pre ++ [Si]) := hacc.snoc hr
        have hlen' : cs.length = ss.length := by simpa using hlen
        split at h
        · split at h
          · simp only [Option.some.injEq, Prod.mk.injEq] at h
            obtain ⟨h1, _, h3, _⟩ := h; subst h1
            exact ⟨hs1, fun hh => by rw [← h3] at hh; simp at hh⟩
          · obtain ⟨h1, h2⟩ := ih.argLoop _ _ _ _ _ _ _ _ _ _ _ h hs1 hacc' hlen'
            exact ⟨h1, fun hh => by have := h2 hh; simpa using this⟩
        · obtain ⟨h1, h2⟩ := ih.argLoop _ _ _ _ _ _ _ _ _ _ _ h hs1 hacc' hlen'
          exact ⟨h1, fun hh => by have := h2 hh; simpa using this⟩

theorem snd_combLoop (E : Env α) (f : Nat) (ih : Snd E f) : ∀ s args ci c combs ns hg s' ns' hg',
    combLoop E (f + 1) s args ci c combs ns hg = some (s', ns', hg') → SInv E s →
    (∀ cb ∈ combs, cb.length = args.length) → SInv E s' := by
  intro s args ci c combs ns hg s' ns' hg' h hs hl
  cases combs with
  | nil =>
    simp only [combLoop, Option.some.injEq, Prod.mk.injEq] at h
    rw [← h.1]; exact hs
  | cons comb rest =>
    have hrest : ∀ cb ∈ rest, cb.length = args.length := fun cb hcb => hl cb (List.mem_cons_of_mem _ hcb)
    have hcomb : comb.length = args.length := hl comb List.mem_cons_self
    rw [combLoop] at h
    split at h
    · simp at h
    · rename_i s1 ia agf poss ha
      obtain ⟨hs1, hposs⟩ := ih.argLoop _ _ _ _ _ _ _ _ _ _ [] ha hs .nil hcomb
      simp only at h
      split at h
      · exact ih.combLoop _ _ _ _ _ _ _ _ _ _ h hs1 hrest
      · rename_i hfo
        split at h
        · simp at h
        · rename_i s2 hsucc
          have hs2 : SInv E s2 := succLoop_sinv E args c comb hcomb _ _ _ _ hsucc hs1
          split at h
          · exact ih.combLoop _ _ _ _ _ _ _ _ _ _ h hs2 hrest
          · rename_i hia
            split at h
            · simp at h
            · rename_i b hb
              split at h
              · simp at h
              · rename_i l hlk
                refine ih.combLoop _ _ _ _ _ _ _ _ _ _ h ?_ hrest
                have hagf : agf = false := by
                  cases agf with
                  | false => rfl
                  | true => simp [hia] at hfo
                have hp : All2 okRef poss args := by simpa using hposs hagf
                refine ⟨hs2.1, derOK_insert hs2.2.1 ?_, hs2.2.2⟩
                intro ci2 l2 poss2 h1 h2
                rw [AList.lookup_insert] at h1
                split at h1
                · simp only [Option.some.injEq] at h1; subst h1
                  rcases List.mem_append.mp h2 with h3 | h3
                  · rename_i hci; subst hci; exact hs2.2.1 args b _ l poss2 hb hlk h3
                  · simp only [List.mem_singleton] at h3; subst h3; exact hp
                · exact hs2.2.1 args b ci2 l2 poss2 hb h1 h2

theorem snd_queryDer (E : Env α) (f : Nat) (ih : Snd E f) : ∀ s args ci s' l,
    queryDer E (f + 1) s args ci = some (s', l) → SInv E s → SInv E s' ∧ ∀ poss ∈ l, All2 okRef poss args := by
  intro s args ci s' l h hs
  rw [queryDer] at h
  split at h
  · rename_i cl b q hcl hb hq
    split at h
    · simp only [Option.some.injEq, Prod.mk.injEq] at h
      obtain ⟨h1, h2⟩ := h; subst h1; subst h2
      exact ⟨hs, by simp⟩
    · split at h
      · rename_i l0 hl0
        simp only [Option.some.injEq, Prod.mk.injEq] at h
        obtain ⟨h1, h2⟩ := h; subst h1; subst h2
        exact ⟨hs, fun poss hp => hs.2.1 args b ci l0 poss hb hl0 hp⟩
      · rename_i hnone
        have hs1 : SInv E { s with bankDer := AList.insert args (AList.insert ci [] b) s.bankDer } := by
          refine ⟨hs.1, derOK_insert hs.2.1 ?_, hs.2.2⟩
          intro ci2 l2 poss2 h1 h2
          rw [AList.lookup_insert] at h1
          split at h1
          · simp only [Option.some.injEq] at h1; subst h1; simp at h2
          · exact hs.2.1 args b ci2 l2 poss2 hb h1 h2
        simp only at h
        split at h
        · simp only [Option.some.injEq, Prod.mk.injEq] at h
          obtain ⟨h1, h2⟩ := h; subst h1; subst h2
          exact ⟨hs1, by simp⟩
        · split at h
          · simp at h
          · rename_i ct q' hpop
            obtain ⟨hwf, hlen⟩ := hs.2.2 args q hq
            obtain ⟨hwf', _, hperm, _⟩ := qwf_pop q q' ct hwf hpop
            have hlen' : ∀ cb ∈ q'.contents, cb.length = args.length := fun cb hcb =>
              hlen cb (hperm.mem_iff.mpr (List.mem_append_right _ hcb))
            have hct : ∀ cb ∈ ct.combs, cb.length = args.length := fun cb hcb =>
              hlen cb (hperm.mem_iff.mpr (List.mem_append_left _ hcb))
            have hs2 := sinv_setQueueDer (args := args) hs1 hwf' hlen'
            split at h
            · simp at h
            · rename_i s3 ns hg hc
              have hs3 := ih.combLoop _ _ _ _ _ _ _ _ _ _ hc hs2 hct
              split at h
              · simp at h
              · rename_i s4 hs4e
                have hs4 : SInv E s4 := by
                  split at hs4e
                  · split at hs4e
                    · simp at hs4e
                    · simp only [Option.some.injEq] at hs4e; subst hs4e; exact sinv_of_eq rfl rfl rfl hs3
                  · simp only [Option.some.injEq] at hs4e; subst hs4e; exact hs3
                split at h
                · rename_i q2 cl2 hq2 hcl2
                  split at h
                  · simp at h
                  · rename_i s5 hs5e
                    have hs5 : SInv E s5 := by
                      split at hs5e
                      · simp only [Option.some.injEq] at hs5e; subst hs5e; exact hs4
                      · split at hs5e
                        · simp at hs5e
                        · rename_i q3 hupd
                          split at hs5e
                          · simp at hs5e
                          · simp only [Option.some.injEq] at hs5e; subst hs5e
                            obtain ⟨hwf2, hlen2⟩ := hs4.2.2 args q2 hq2
                            obtain ⟨hwf3, hc3⟩ := qwf_update E.A q2 q3 hwf2 hupd
                            have := sinv_setQueueDer (args := args) hs4 hwf3 (by rw [hc3]; exact hlen2)
                            exact sinv_of_eq rfl rfl rfl this
                    split at h
                    · simp at h
                    · rename_i l5 hl5
                      simp only [Option.some.injEq, Prod.mk.injEq] at h
                      obtain ⟨h1, h2⟩ := h; subst h1; subst h2
                      refine ⟨hs5, ?_⟩
                      intro poss hp
                      cases hb5 : AList.lookup args s5.bankDer with
                      | none => simp [hb5] at hl5
                      | some b5 =>
                        simp only [hb5, Option.bind_some] at hl5
                        exact hs5.2.1 args b5 ci _ poss hb5 hl5 hp
                · simp at h
  · simp at h

/-- **soundness of every function of the query machine**, for every fuel -/
theorem snd_all (E : Env α) : ∀ f, Snd E f := by
  intro f
  induction f with
  | zero =>
    refine ⟨?_, ?_, ?_, ?_, ?_, ?_⟩
    · intro s fr r h; simp [resume] at h
    · intro s fr s' h; simp [drive] at h
    · intro s S ci s' ia r h; simp [queryList] at h
    · intro s cs ss ia agf acc s' ia' agf' acc' pre h; simp [argLoop] at h
    · intro s args ci c combs ns hg s' ns' hg' h; simp [combLoop] at h
    · intro s args ci s' l h; simp [queryDer] at h
  | succ f ih =>
    exact ⟨snd_resume E f ih, snd_drive E f ih, snd_queryList E f ih, snd_argLoop E f ih, snd_combLoop E f ih,
      snd_queryDer E f ih⟩

/-! ### the generator -/

/-- the invariant of the generator object: the tables are sound and the suspended top-level query is one of
    the start symbol -/
def GInv (E : Env α) (g : Gen α) : Prop :=
  SInv E g.st ∧ match g.phase with
    | .inQuery _ fr => FInv E fr ∧ fr.S = E.G.start
    | _ => True

theorem nextLoop_sound (E : Env α) (fuel : Nat) : ∀ (k : Nat) (s : St α) (n : Nat) (fr? : Option (Frame α)) (failed : Bool)
    (g' : Gen α) (out : Option Prog), nextLoop E fuel k s n fr? failed = some (g', out) → SInv E s →
    (∀ fr, fr? = some fr → FInv E fr ∧ fr.S = E.G.start) →
    GInv E g' ∧ ∀ p, out = some p → derives E.G E.G.start p = true := by
  intro k
  induction k with
  | zero => intro s n fr? failed g' out h; simp [nextLoop] at h
  | succ k ih =>
    intro s n fr? failed g' out h hs hfr
    rw [nextLoop.eq_def] at h
    simp only at h
    split at h
    · simp at h
    · rename_i s0 hstart
      have hs0 : SInv E s0 := by
        split at hstart
        · simp only [Option.some.injEq, Prod.mk.injEq] at hstart; simp at hstart
        · split at hstart
          · simp at hstart
          · split at hstart
            · simp only [Option.some.injEq, Prod.mk.injEq] at hstart
              rw [← hstart.1]; exact sinv_of_eq rfl rfl rfl hs
            · simp at hstart
      split at h
      · simp only [Option.some.injEq, Prod.mk.injEq] at h
        rw [← h.1, ← h.2]
        exact ⟨⟨hs0, trivial⟩, by simp⟩
      · exact ih _ _ _ _ _ _ h (sinv_of_eq rfl rfl rfl hs0) (by simp)
    · rename_i s0 fr hstart
      have hpre : SInv E s0 ∧ FInv E fr ∧ fr.S = E.G.start := by
        split at hstart
        · rename_i fr0
          simp only [Option.some.injEq, Prod.mk.injEq] at hstart
          obtain ⟨h1, h2⟩ := hstart; subst h1; subst h2
          exact ⟨hs, hfr _ rfl⟩
        · split at hstart
          · simp at hstart
          · split at hstart
            · simp at hstart
            · simp only [Option.some.injEq, Prod.mk.injEq] at hstart
              obtain ⟨h1, h2⟩ := hstart; subst h1; subst h2
              exact ⟨sinv_of_eq rfl rfl rfl hs, finv_none rfl, rfl⟩
      obtain ⟨hs0, hf0, hS⟩ := hpre
      split at h
      · simp at h
      · rename_i s1 fr1 p hr
        simp only [Option.some.injEq, Prod.mk.injEq] at h
        rw [← h.1, ← h.2]
        obtain ⟨h1, h2, h3, h4⟩ := (snd_all E fuel).resume _ _ _ hr hs0 hf0
        refine ⟨⟨h1, h2, by rw [h3, hS]⟩, ?_⟩
        intro p' hp'
        simp only [Option.some.injEq] at hp'
        subst hp'; rw [← hS]; exact h4
      · rename_i s1 hr
        have h1 : SInv E s1 := (snd_all E fuel).resume _ _ _ hr hs0 hf0
        split at h
        · simp only [Option.some.injEq, Prod.mk.injEq] at h
          rw [← h.1, ← h.2]
          exact ⟨⟨h1, trivial⟩, by simp⟩
        · exact ih _ _ _ _ _ _ h h1 (by simp)

/-! ### the prologue: `__init__`, `_init_non_terminal_`, `_reevaluate_`, `__compute_bounds__` -/

theorem popAll_spec : ∀ (f : Nat) (q : Q α) (acc out : List (CT α)) (q1 : Q α), QWF q → popAll q f acc = some (out, q1) →
    QWF q1 ∧ (∀ t ∈ out, t ∈ acc ∨ ∀ cb ∈ t.combs, cb ∈ q.contents) ∧ (∀ cb ∈ q1.contents, cb ∈ q.contents) := by
  intro f
  induction f with
  | zero => intro q acc out q1 _ h; simp [popAll] at h
  | succ f ih =>
    intro q acc out q1 hq h
    rw [popAll] at h
    split at h
    · simp only [Option.some.injEq, Prod.mk.injEq] at h
      obtain ⟨h1, h2⟩ := h; subst h1; subst h2
      exact ⟨hq, fun t ht => Or.inl ht, fun cb hcb => hcb⟩
    · split at h
      · simp at h
      · rename_i ct q' hpop
        obtain ⟨hq', _, hperm, _⟩ := qwf_pop q q' ct hq hpop
        obtain ⟨h1, h2, h3⟩ := ih q' _ out q1 hq' h
        refine ⟨h1, ?_, fun cb hcb => hperm.mem_iff.mpr (List.mem_append_right _ (h3 cb hcb))⟩
        intro t ht
        rcases h2 t ht with h4 | h4
        · rcases List.mem_append.mp h4 with h5 | h5
          · exact Or.inl h5
          · simp only [List.mem_singleton] at h5; subst h5
            exact Or.inr fun cb hcb => hperm.mem_iff.mpr (List.mem_append_left _ hcb)
        · exact Or.inr fun cb hcb => hperm.mem_iff.mpr (List.mem_append_right _ (h4 cb hcb))

theorem pushAll_spec (A : Arith α) (b : Bool) : ∀ (es : List (CT α)) (q q' : Q α), QWF q → pushAll A b es q = some q' →
    QWF q' ∧ ∀ cb ∈ q'.contents, cb ∈ q.contents ∨ ∃ e ∈ es, cb ∈ e.combs
  | [], q, q', hq, h => by
    simp only [pushAll, Option.some.injEq] at h; subst h
    exact ⟨hq, fun cb hcb => Or.inl hcb⟩
  | e :: es, q, q', hq, h => by
    rw [pushAll] at h
    split at h
    · simp at h
    · rename_i q1 hp
      obtain ⟨hq1, _, hperm, _⟩ := qwf_push A q q1 e b hq hp
      obtain ⟨h1, h2⟩ := pushAll_spec A b es q1 q' hq1 h
      refine ⟨h1, ?_⟩
      intro cb hcb
      rcases h2 cb hcb with h3 | ⟨e', he', h3⟩
      · rcases List.mem_append.mp (hperm.mem_iff.mp h3) with h4 | h4
        · exact Or.inl h4
        · exact Or.inr ⟨e, List.mem_cons_self, h4⟩
      · exact Or.inr ⟨e', List.mem_cons_of_mem _ he', h3⟩

theorem mem_insertCT (A : Arith α) (x y : CT α) : ∀ (l : List (CT α)), y ∈ insertCT A x l → y = x ∨ y ∈ l
  | [], h => by simp [insertCT] at h; exact Or.inl h
  | z :: zs, h => by
    simp only [insertCT] at h
    split at h
    · rcases List.mem_cons.mp h with h1 | h1
      · exact Or.inl h1
      · exact Or.inr h1
    · rcases List.mem_cons.mp h with h1 | h1
      · exact Or.inr (by rw [h1]; exact List.mem_cons_self)
      · rcases mem_insertCT A x y zs h1 with h2 | h2
        · exact Or.inl h2
        · exact Or.inr (List.mem_cons_of_mem _ h2)

theorem mem_sortCT (A : Arith α) (l : List (CT α)) (y : CT α) (h : y ∈ sortCT A l) : y ∈ l := by
  unfold sortCT at h
  have key : ∀ (l acc : List (CT α)), y ∈ l.foldl (fun acc x => insertCT A x acc) acc → y ∈ acc ∨ y ∈ l := by
    intro l
    induction l with
    | nil => intro acc h; exact Or.inl h
    | cons x xs ih =>
      intro acc h
      simp only [List.foldl_cons] at h
      rcases ih _ h with h1 | h1
      · rcases mem_insertCT A x y acc h1 with h2 | h2
        · exact Or.inr (by rw [h2]; exact List.mem_cons_self)
        · exact Or.inl h2
      · exact Or.inr (List.mem_cons_of_mem _ h1)
  rcases key l [] h with h1 | h1
  · simp at h1
  · exact h1

theorem reevalDer_sinv {E : Env α} (b : Bool) {s s' : St α} {args : List NT} (h : reevalDer E.A b s args = some s')
    (hs : SInv E s) : SInv E s' := by
  unfold reevalDer at h
  split at h
  · simp only [Option.some.injEq] at h; subst h; exact hs
  · split at h
    · simp at h
    · rename_i q hq
      obtain ⟨hwf, hlen⟩ := hs.2.2 args q hq
      split at h
      · simp at h
      · rename_i popped q1 hpa
        obtain ⟨hq1, hout, _⟩ := popAll_spec _ q [] popped q1 hwf hpa
        simp only at h
        split at h
        · simp at h
        · rename_i elems he
          split at h
          · simp at h
          · rename_i q2 hpu
            obtain ⟨hq2, hc2⟩ := pushAll_spec E.A b _ _ q2 (qwf_clear q1 hq1).1 hpu
            split at h
            · split at h
              · simp at h
              · simp only [Option.some.injEq] at h; subst h
                refine sinv_of_eq rfl rfl rfl (sinv_setQueueDer (args := args) hs hq2 ?_)
                intro cb hcb
                rcases hc2 cb hcb with h1 | ⟨e, he1, h1⟩
                · simp [Q.contents, (qwf_clear q1 hq1).2] at h1
                · have he2 : e ∈ elems := mem_sortCT E.A elems e (by simpa using he1)
                  -- the combs of `elems` are those of `popped`
                  have : ∃ t ∈ popped, e.combs = t.combs := by
                    split at he
                    · simp only [Option.some.injEq] at he; subst he; simp at he2
                    · split at he
                      · simp at he
                      · simp only [Option.some.injEq] at he; subst he
                        rw [List.mem_map] at he2
                        obtain ⟨t, ht, rfl⟩ := he2
                        exact ⟨t, ht, rfl⟩
                  obtain ⟨t, ht, hte⟩ := this
                  rw [hte] at h1
                  rcases hout t ht with h2 | h2
                  · simp at h2
                  · exact hlen cb (h2 cb h1)
            · simp at h

theorem reevalDers_sinv {E : Env α} (b : Bool) : ∀ (rs : List (Sym × (List NT × Int))) (s s' : St α),
    reevalDers E.A b rs s = some s' → SInv E s → SInv E s'
  | [], s, s', h, hs => by simp only [reevalDers, Option.some.injEq] at h; subst h; exact hs
  | (_, (args, _)) :: rest, s, s', h, hs => by
    rw [reevalDers] at h
    split at h
    · simp at h
    · rename_i s1 h1
      exact reevalDers_sinv b rest s1 s' h (reevalDer_sinv b h1 hs)

theorem reevalPass_sinv {E : Env α} : ∀ (rs : List (NT × AList Sym (List NT × Int))) (s : St α) (ch : Bool) (s' : St α) (ch' : Bool),
    reevalPass E rs s ch = some (s', ch') → SInv E s → SInv E s'
  | [], s, ch, s', ch', h, hs => by
    simp only [reevalPass, Option.some.injEq, Prod.mk.injEq] at h; rw [← h.1]; exact hs
  | (S, rs) :: rest, s, ch, s', ch', h, hs => by
    rw [reevalPass] at h
    split at h
    · simp at h
    · rename_i s1 h1
      have hs1 := reevalDers_sinv E.asserts rs s s1 h1 hs
      split at h
      · simp at h
      · split at h
        · simp at h
        · split at h
          · exact reevalPass_sinv rest s1 ch s' ch' h hs1
          · simp only at h
            split at h
            · split at h
              · simp at h
              · exact reevalPass_sinv rest _ true s' ch' h (sinv_of_eq rfl rfl rfl hs1)
            · simp at h

theorem reevaluate_sinv {E : Env α} : ∀ (f : Nat) (s s' : St α), reevaluate E f s = some s' → SInv E s → SInv E s' := by
  intro f
  induction f with
  | zero => intro s s' h; simp [reevaluate] at h
  | succ f ih =>
    intro s s' h hs
    rw [reevaluate] at h
    split at h
    · simp at h
    · rename_i s1 h1
      exact ih _ _ h (reevalPass_sinv _ _ _ _ _ h1 hs)
    · rename_i s1 h1
      simp only [Option.some.injEq] at h; subst h
      exact reevalPass_sinv _ _ _ _ _ h1 hs

theorem rebuildQueues_sinv {E : Env α} (values : AList NT Int) : ∀ (keys : List (List NT)) (s s' : St α),
    rebuildQueues E.A E.asserts values keys s = some s' → SInv E s → SInv E s'
  | [], s, s', h, hs => by simp only [rebuildQueues, Option.some.injEq] at h; subst h; exact hs
  | arg :: rest, s, s', h, hs => by
    rw [rebuildQueues] at h
    split at h
    · simp at h
    · rename_i q hq
      obtain ⟨hwf, hlen⟩ := hs.2.2 arg q hq
      split at h
      · rename_i elems q1 mv hpa _
        obtain ⟨_, hout, _⟩ := popAll_spec _ q [] elems q1 hwf hpa
        simp only at h
        split at h
        · simp at h
        · rename_i q0 hnew
          obtain ⟨hq0, ht0⟩ := qwf_new E.A _ _ q0 hnew
          split at h
          · simp at h
          · rename_i q2 hpu
            obtain ⟨hq2, hc2⟩ := pushAll_spec E.A E.asserts _ _ q2 hq0 hpu
            split at h
            · simp at h
            · refine rebuildQueues_sinv values rest _ s' h (sinv_setQueueDer (args := arg) hs hq2 ?_)
              intro cb hcb
              rcases hc2 cb hcb with h1 | ⟨e, he1, h1⟩
              · simp [Q.contents, ht0] at h1
              · have he2 := mem_sortCT E.A elems e he1
                rcases hout e he2 with h2 | h2
                · simp at h2
                · exact hlen cb (h2 cb h1)
      · simp at h

theorem computeBounds_sinv {E : Env α} {fuel : Nat} {s s' : St α} (h : computeBounds E fuel s = some s') (hs : SInv E s) :
    SInv E s' := by
  unfold computeBounds at h
  split at h
  · simp at h
  · split at h
    · simp at h
    · exact rebuildQueues_sinv _ _ _ _ h hs

structure IniOK (E : Env α) (f : Nat) : Prop where
  nt : ∀ s S s', initNT E f s S = some s' → SInv E s → SInv E s'
  rules : ∀ s S rs s', initRules E f s S rs = some s' → SInv E s → SInv E s'
  der : ∀ s args s', initDer E f s args = some s' → SInv E s → SInv E s'
  args : ∀ s as c s' c', initArgs E f s as c = some (s', c') → SInv E s → SInv E s'

theorem ini_all (E : Env α) : ∀ f, IniOK E f := by
  intro f
  induction f with
  | zero =>
    refine ⟨?_, ?_, ?_, ?_⟩
    · intro s S s' h; simp [initNT] at h
    · intro s S rs s' h; simp [initRules] at h
    · intro s args s' h; simp [initDer] at h
    · intro s as c s' c' h; simp [initArgs] at h
  | succ f ih =>
    refine ⟨?_, ?_, ?_, ?_⟩
    · intro s S s' h hs
      rw [initNT] at h
      split at h
      · simp at h
      · split at h
        · simp only [Option.some.injEq] at h; subst h; exact hs
        · split at h
          · simp at h
          · split at h
            · simp at h
            · rename_i s2 h2
              have hs2 := ih.rules _ _ _ _ h2 (sinv_of_eq (s := s) rfl rfl rfl hs)
              split at h
              · simp only [Option.some.injEq] at h; subst h
                exact sinv_of_eq rfl rfl rfl hs2
              · simp at h
    · intro s S rs s' h hs
      cases rs with
      | nil => simp only [initRules, Option.some.injEq] at h; subst h; exact hs
      | cons r rest =>
        obtain ⟨P, args, w⟩ := r
        rw [initRules] at h
        split at h
        · simp at h
        · rename_i s1 base hr
          have hs1 : SInv E s1 := by
            split at hr
            · simp only [Option.some.injEq, Prod.mk.injEq] at hr; rw [← hr.1]; exact hs
            · split at hr
              · simp at hr
              · rename_i s1' hd
                split at hr
                · simp only [Option.some.injEq, Prod.mk.injEq] at hr; rw [← hr.1]; exact ih.der _ _ _ hd hs
                · simp at hr
          split at h
          · simp at h
          · exact ih.rules _ _ _ _ h (sinv_of_eq rfl rfl rfl hs1)
    · intro s args s' h hs
      rw [initDer] at h
      split at h
      · simp at h
      · split at h
        · simp only [Option.some.injEq] at h; subst h; exact hs
        · split at h
          · simp at h
          · rename_i s2 cost ha
            have hs2 := ih.args _ _ _ _ _ ha (sinv_of_eq (s := s) rfl rfl rfl hs)
            split at h
            · simp at h
            · rename_i q hq
              obtain ⟨hwf, hlen⟩ := hs2.2.2 args q hq
              split at h
              · simp at h
              · rename_i q1 hp
                obtain ⟨hwf1, _, hperm, _⟩ := qwf_push E.A q q1 _ E.asserts hwf hp
                split at h
                · simp at h
                · rename_i q2 hu
                  obtain ⟨hwf2, hc2⟩ := qwf_update E.A q1 q2 hwf1 hu
                  split at h
                  · simp only [Option.some.injEq] at h; subst h
                    refine sinv_of_eq rfl rfl rfl (sinv_setQueueDer (args := args) hs2 hwf2 ?_)
                    intro cb hcb
                    rw [hc2] at hcb
                    rcases List.mem_append.mp (hperm.mem_iff.mp hcb) with h1 | h1
                    · exact hlen cb h1
                    · simp only [List.mem_singleton] at h1; subst h1; simp
                  · simp at h
    · intro s as c s' c' h hs
      cases as with
      | nil => simp only [initArgs, Option.some.injEq, Prod.mk.injEq] at h; rw [← h.1]; exact hs
      | cons Si rest =>
        rw [initArgs] at h
        split at h
        · simp at h
        · rename_i s1 h1
          split at h
          · exact ih.args _ _ _ _ _ h (ih.nt _ _ _ h1 hs)
          · simp at h

/-- every bank empty, every queue fresh -/
def FreshSt (s : St α) : Prop :=
  (∀ S b, AList.lookup S s.bankNt = some b → b = []) ∧ (∀ a b, AList.lookup a s.bankDer = some b → b = []) ∧
  QueuesOK s.queueDer

theorem fresh_sinv {E : Env α} {s : St α} (h : FreshSt s) : SInv E s := by
  refine ⟨?_, ?_, h.2.2⟩
  · intro S b ci l p h1 h2 _
    rw [h.1 S b h1] at h2; simp at h2
  · intro a b ci l poss h1 h2 _
    rw [h.2.1 a b h1] at h2; simp at h2

theorem initDerTables_fresh (A : Arith α) (M : Int) (k : Nat) : ∀ (rs : List (Sym × (List NT × Int))) (s s' : St α),
    initDerTables A M k rs s = some s' → FreshSt s → FreshSt s'
  | [], s, s', h, hs => by simp only [initDerTables, Option.some.injEq] at h; subst h; exact hs
  | (_, (args, _)) :: rest, s, s', h, hs => by
    rw [initDerTables] at h
    split at h
    · exact initDerTables_fresh A M k rest s s' h hs
    · split at h
      · simp at h
      · rename_i q hq
        refine initDerTables_fresh A M k rest _ s' h ⟨hs.1, ?_, ?_⟩
        · intro a b hb
          simp only at hb
          rw [AList.lookup_insert] at hb
          split at hb
          · simp only [Option.some.injEq] at hb; exact hb.symm
          · exact hs.2.1 a b hb
        · intro a q2 hq2
          simp only at hq2
          rw [AList.lookup_insert] at hq2
          split at hq2
          · simp only [Option.some.injEq] at hq2; subst hq2
            obtain ⟨h1, h2⟩ := qwf_new A M k _ hq
            exact ⟨h1, by simp [Q.contents, h2]⟩
          · exact hs.2.2 a q2 hq2

theorem initTables_fresh (A : Arith α) (M : Int) (k : Nat) : ∀ (rs : List (NT × AList Sym (List NT × Int))) (s s' : St α),
    initTables A M k rs s = some s' → FreshSt s → FreshSt s'
  | [], s, s', h, hs => by simp only [initTables, Option.some.injEq] at h; subst h; exact hs
  | (S, rs) :: rest, s, s', h, hs => by
    rw [initTables] at h
    split at h
    · simp at h
    · rename_i s2 h2
      refine initTables_fresh A M k rest s2 s' h (initDerTables_fresh A M k rs _ s2 h2 ⟨?_, hs.2.1, hs.2.2⟩)
      intro S2 b hb
      simp only at hb
      rw [AList.lookup_insert] at hb
      split at hb
      · simp only [Option.some.injEq] at hb; exact hb.symm
      · exact hs.1 S2 b hb

/-- `CDSearch.__init__` establishes the invariant -/
theorem init_sinv (E : Env α) (s : St α) (h : St.init E = some s) : SInv E s := by
  unfold St.init at h
  split at h
  · simp at h
  · exact fresh_sinv (initTables_fresh _ _ _ _ _ _ h ⟨by simp, by simp, by intro a q hq; simp at hq⟩)

theorem prologue_sinv (E : Env α) (fuel : Nat) (s s' : St α) (h : prologue E fuel s = some s') (hs : SInv E s) : SInv E s' := by
  unfold prologue at h
  split at h
  · simp at h
  · rename_i s1 h1
    split at h
    · simp at h
    · rename_i s2 h2
      exact computeBounds_sinv h (reevaluate_sinv _ _ _ h2 ((ini_all E fuel).nt _ _ _ h1 hs))

/-- **`next(generator)` keeps the invariant and yields only members of the language** -/
theorem next_sound (E : Env α) (fuel : Nat) (g g' : Gen α) (out : Option Prog) (h : next E fuel g = some (g', out))
    (hg : GInv E g) : GInv E g' ∧ ∀ p, out = some p → derives E.G E.G.start p = true := by
  unfold next at h
  split at h
  · simp only [Option.some.injEq, Prod.mk.injEq] at h
    rw [← h.1, ← h.2]; exact ⟨hg, by simp⟩
  · split at h
    · simp at h
    · rename_i s hp
      exact nextLoop_sound E fuel _ _ _ _ _ _ _ h (prologue_sinv E fuel _ _ hp hg.1) (by simp)
  · exact nextLoop_sound E fuel _ _ _ _ _ _ _ h hg.1 (by simp)
  · rename_i n fr hph
    refine nextLoop_sound E fuel _ _ _ _ _ _ _ h hg.1 ?_
    intro fr' hfr'
    simp only [Option.some.injEq] at hfr'; subst hfr'
    have := hg.2
    rw [hph] at this
    exact this

theorem gen_new_ginv (E : Env α) (g : Gen α) (h : Gen.new E = some g) : GInv E g := by
  unfold Gen.new at h
  cases hi : St.init E with
  | none => simp [hi] at h
  | some s =>
    simp only [hi, Option.map_some, Option.some.injEq] at h
    subst h
    exact ⟨init_sinv E s hi, trivial⟩

theorem lookup_map_key {κ ν : Type} [DecidableEq κ] (f : κ × ν → κ × ν) (hf : ∀ x, (f x).1 = x.1) : ∀ (d : AList κ ν) (k : κ),
    AList.lookup k (d.map f) = (AList.lookup k d).map (fun v => (f (k, v)).2)
  | [], k => rfl
  | (k', v) :: r, k => by
    have h1 := hf (k', v)
    simp only [List.map_cons]
    rw [show f (k', v) = ((f (k', v)).1, (f (k', v)).2) from rfl, h1]
    simp only [AList.lookup]
    split
    · rename_i he; subst he; rfl
    · exact lookup_map_key f hf r k

/-- `merge_program` keeps the invariant (it only removes programs from banks) -/
theorem merge_ginv (E : Env α) (g : Gen α) (other : Prog) (ty : Nat) (hg : GInv E g) : GInv E (merge E g other ty) := by
  have hs := sinv_addDeleted (E := E) other hg.1
  refine ⟨⟨?_, hs.2.1, hs.2.2⟩, hg.2⟩
  intro S b ci l p h1 h2 h3
  simp only [merge] at h1
  rw [lookup_map_key _ (by intro x; obtain ⟨S, b⟩ := x; simp only; split <;> rfl)] at h1
  cases hb : AList.lookup S (g.st.addDeleted other).bankNt with
  | none => simp [hb] at h1
  | some b0 =>
    simp only [hb, Option.map_some, Option.some.injEq] at h1
    split at h1
    · simp only at h1
      subst h1
      rw [lookup_map_key _ (by intro x; rfl)] at h2
      cases hl : AList.lookup ci b0 with
      | none => simp [hl] at h2
      | some l0 =>
        simp only [hl, Option.map_some, Option.some.injEq] at h2
        subst h2
        exact hs.1 S b0 ci l0 p hb hl (removeFirst_sub other l0 p h3)
    · simp only at h1
      subst h1
      exact hs.1 S b0 ci l p hb h2 h3

theorem take_sound (E : Env α) (fuel : Nat) : ∀ (k : Nat) (g : Gen α) (acc : List Prog) (g' : Gen α) (ys : List Prog) (fin : Bool),
    take E fuel k g acc = some (g', ys, fin) → GInv E g → (∀ p ∈ acc, derives E.G E.G.start p = true) →
    GInv E g' ∧ ∀ p ∈ ys, derives E.G E.G.start p = true := by
  intro k
  induction k with
  | zero =>
    intro g acc g' ys fin h hg hacc
    simp only [take, Option.some.injEq, Prod.mk.injEq] at h
    rw [← h.1, ← h.2.1]; exact ⟨hg, hacc⟩
  | succ k ih =>
    intro g acc g' ys fin h hg hacc
    rw [take] at h
    split at h
    · simp at h
    · rename_i g1 hn
      simp only [Option.some.injEq, Prod.mk.injEq] at h
      rw [← h.1, ← h.2.1]
      exact ⟨(next_sound E fuel g g1 none hn hg).1, hacc⟩
    · rename_i g1 p1 hn
      obtain ⟨h1, h2⟩ := next_sound E fuel g g1 (some p1) hn hg
      refine ih _ _ _ _ _ h h1 ?_
      intro p hp
      rcases List.mem_append.mp hp with h3 | h3
      · exact hacc p h3
      · simp only [List.mem_singleton] at h3; subst h3; exact h2 _ rfl

/-- **soundness along every history** of `next` and `merge_program` calls -/
theorem runHist_sound (E : Env α) (fuel : Nat) : ∀ (acts : List Act) (g : Gen α) (out : List Prog) (g' : Gen α) (ys : List Prog),
    runHist E fuel acts g out = some (g', ys) → GInv E g → (∀ p ∈ out, derives E.G E.G.start p = true) →
    GInv E g' ∧ ∀ p ∈ ys, derives E.G E.G.start p = true
  | [], g, out, g', ys, h, hg, ho => by
    simp only [runHist, Option.some.injEq, Prod.mk.injEq] at h
    rw [← h.1, ← h.2]; exact ⟨hg, ho⟩
  | .merge p t :: rest, g, out, g', ys, h, hg, ho => by
    rw [runHist] at h
    exact runHist_sound E fuel rest _ out g' ys h (merge_ginv E g p t hg) ho
  | .take k :: rest, g, out, g', ys, h, hg, ho => by
    rw [runHist] at h
    split at h
    · simp at h
    · rename_i g1 ys1 fin ht
      obtain ⟨h1, h2⟩ := take_sound E fuel k g [] g1 ys1 fin ht hg (by simp)
      refine runHist_sound E fuel rest g1 _ g' ys h h1 ?_
      intro p hp
      rcases List.mem_append.mp hp with h3 | h3
      · exact ho p h3
      · exact h2 p h3

end PS.CD
