/- DESIGN B.2 (I3): for every program `y = F(args)` popped for `S` and every argument position `i`,
   either `args[i]` has a successor `z` for its non-terminal and `y[i := z]` was pushed for `S`, or
   `args[i]` has no successor and the heap of its non-terminal is exhausted.
   Acyclic context-free grammars, heap search without filter. -/
import PS.Proofs.Enum.HSQuiet
import PS.Proofs.Enum.HSOrder
namespace PS.HS
open PS PS.G
set_option linter.unusedSectionVars false
variable {S : Type} [DecidableEq S]

/-- position `i` of `F(args)` (popped for `nt`) is dealt with -/
def Fact (s : St S Unit Rat) (nt : NT S Unit) (F : Sym) (args : List Prog) (i : Nat) (a : Ty × S) (ai : Prog) : Prop :=
  (∃ z, AList.lookup (some ai) (s.succOf (argNT a)) = some z ∧ Tree.node F (args.set i z) ∈ s.seenOf nt) ∨
  (AList.lookup (some ai) (s.succOf (argNT a)) = none ∧ s.heapOf (argNT a) = [])

/-- all positions from `i0` on are dealt with -/
def DoneFrom (E : Env S Unit Rat) (s : St S Unit Rat) (nt : NT S Unit) (y : Prog) (i0 : Nat) : Prop :=
  ∀ F args ra, y = .node F args → E.G.rule? nt F = some (ra, ()) →
    ∀ (i : Nat) a ai, i0 ≤ i → ra[i]? = some a → args[i]? = some ai → Fact s nt F args i a ai

/-- (I3) for every popped program -/
def I3 (E : Env S Unit Rat) (s : St S Unit Rat) : Prop :=
  ∀ nt k y, AList.lookup k (s.succOf nt) = some y → DoneFrom E s nt y 0

/-- a fact survives any call that is not an `__add_successors__` for the non-terminal of the argument
    (for a fact of the first kind: any call) -/
theorem Fact.stable {E : Env S Unit Rat} {c : Call S Unit} {s s' : St S Unit Rat} {r : Option Prog}
    (hb : Big E c s s' r) (hn : NInv s) (hpre : NPre c s)
    {nt : NT S Unit} {F : Sym} {args : List Prog} {i : Nat} {a : Ty × S} {ai : Prog}
    (hf : Fact s nt F args i a ai) (hna : ¬ c.addsAt (argNT a)) : Fact s' nt F args i a ai := by
  rcases hf with ⟨z, hz, hm⟩ | ⟨hnone, hemp⟩
  · exact Or.inl ⟨z, (big_nodup E hb hn hpre).2.1 _ _ _ hz, big_seenMono E hb hn hpre _ _ hm⟩
  · obtain ⟨h1, h2⟩ := big_emptyStable E hb hn hpre _ hemp hna
    exact Or.inr ⟨by rw [h2]; exact hnone, h1⟩

theorem DoneFrom.stable {E : Env S Unit Rat} {c : Call S Unit} {s s' : St S Unit Rat} {r : Option Prog}
    (hb : Big E c s s' r) (hn : NInv s) (hpre : NPre c s) {nt : NT S Unit} {y : Prog} {i0 : Nat}
    (hd : DoneFrom E s nt y i0)
    (hna : ∀ F args ra, y = .node F args → E.G.rule? nt F = some (ra, ()) → ∀ a ∈ ra, ¬ c.addsAt (argNT a)) :
    DoneFrom E s' nt y i0 := by
  intro F args ra hy hr i a ai hi ha hai
  exact (hd F args ra hy hr i a ai hi ha hai).stable hb hn hpre (hna F args ra hy hr a (List.mem_of_getElem? ha))

/-- the four state invariants together -/
structure Full (E : Env S Unit Rat) (H0 : NT S Unit → List (Rat × Prog)) (s : St S Unit Rat) : Prop where
  sinv : SInv E s
  ninv : NInv s
  hinv : HInv E s
  oinv : OInv E H0 s

theorem big_full {E : Env S Unit Rat} {rank} (H : OrdHyp E rank) {H0 : NT S Unit → List (Rat × Prog)}
    {c : Call S Unit} {s s' : St S Unit Rat} {r : Option Prog} (hb : Big E c s s' r)
    (hf : Full E H0 s) (h1 : SPre E c) (h2 : NPre c s) (h3 : OPre E H0 c s) :
    Full E H0 s' ∧ OFrame rank c s s' :=
  ⟨⟨(big_sound E hb hf.sinv h1).1, (big_nodup E hb hf.ninv h2).1, big_heaps E H.weak hb hf.hinv,
    (big_order H hb hf.sinv hf.ninv hf.hinv hf.oinv h1 h2 h3).1⟩,
   (big_order H hb hf.sinv hf.ninv hf.hinv hf.oinv h1 h2 h3).2.1⟩

theorem Fact.stable_pushStep {E : Env S Unit Rat} {s : St S Unit Rat} (hdel : s.deleted = [])
    (F0 : Sym) (args0 : List Prog) (nt0 : NT S Unit) (i0 : Nat) (r : Option Prog)
    {nt : NT S Unit} {F : Sym} {args : List Prog} {i : Nat} {a : Ty × S} {ai : Prog}
    (hf : Fact s nt F args i a ai) (hne : argNT a ≠ nt0) :
    Fact (pushStep E s F0 args0 nt0 i0 r) nt F args i a ai := by
  obtain ⟨p1, p2⟩ := pushStep_other E s F0 args0 nt0 (argNT a) i0 r hne
  rcases hf with ⟨z, hz, hm⟩ | ⟨hnone, hemp⟩
  · exact Or.inl ⟨z, by rw [p2]; exact hz, (pushStep_seenMono E s F0 args0 nt0 i0 r hdel).1 _ _ hm⟩
  · exact Or.inr ⟨by rw [p2]; exact hnone, by rw [p1]; exact hemp⟩

/-- what a call leaves: every popped program is either one that was popped before the call or is
    completely dealt with; `__add_successors__` deals with its program -/
def I3Post (E : Env S Unit Rat) (c : Call S Unit) (s s' : St S Unit Rat) : Prop :=
  (∀ nt k v, AList.lookup k (s'.succOf nt) = some v →
    AList.lookup k (s.succOf nt) = some v ∨ DoneFrom E s' nt v 0) ∧
  (match c with
   | .addSucc prog nt => DoneFrom E s' nt prog 0
   | .addLoop F args nt i _ _ _ => DoneFrom E s' nt (.node F args) i
   | _ => True)

/-- the children of a non-terminal of rank at most `r` are not the non-terminal `nt0` of rank above `r` -/
theorem child_ne {E : Env S Unit Rat} {rank} (H : OrdHyp E rank) {nt nt0 : NT S Unit} (hr : rank nt < rank nt0)
    {F : Sym} {ra : List (Ty × S)} (hrule : E.G.rule? nt F = some (ra, ())) {a : Ty × S} (ha : a ∈ ra) :
    argNT a ≠ nt0 := by
  intro heq
  have := H.acyclic nt F ra hrule a ha
  rw [heq] at this
  omega

theorem DoneFrom.stable_pushStep {E : Env S Unit Rat} {rank} (H : OrdHyp E rank) {s : St S Unit Rat}
    (hdel : s.deleted = []) (F0 : Sym) (args0 : List Prog) (nt0 : NT S Unit) (i0 : Nat) (r : Option Prog)
    {nt : NT S Unit} {y : Prog} {j : Nat} (hd : DoneFrom E s nt y j) (hrk : rank nt < rank nt0) :
    DoneFrom E (pushStep E s F0 args0 nt0 i0 r) nt y j := by
  intro F args ra hy hr i a ai hi ha hai
  exact (hd F args ra hy hr i a ai hi ha hai).stable_pushStep hdel F0 args0 nt0 i0 r
    (child_ne H hrk hr (List.mem_of_getElem? ha))

/-- one iteration of the loop of `__add_successors__` for (I3) -/
theorem iter_i3 {E : Env S Unit Rat} {rank} (H : OrdHyp E rank) {H0 : NT S Unit → List (Rat × Prog)}
    {s s1 : St S Unit Rat} {F : Sym} {args : List Prog} {nt s2 : NT S Unit} {i argsLen : Nat}
    {info : Info S} {ai : Prog} {r : Option Prog}
    (hai : args[i]? = some ai) (hlt : i < argsLen)
    (hq : Big E (.query s2 (some ai)) s s1 r)
    (ihq : Full E H0 s → SPre E (.query s2 (some ai)) → NPre (.query s2 (some ai)) s →
      OPre E H0 (.query s2 (some ai)) s → I3Post E (.query s2 (some ai)) s s1)
    (hf : Full E H0 s)
    (hspre : SPre E (.addLoop F args nt i argsLen info s2))
    (hopre : OPre E H0 (.addLoop F args nt i argsLen info s2) s) :
    Full E H0 (pushStep E s1 F args nt i r) ∧
    (∀ nt', rank nt ≤ rank nt' → (pushStep E s1 F args nt i r).succOf nt' = s.succOf nt') ∧
    SeenMono s (pushStep E s1 F args nt i r) ∧ gen E.G ai s2 = true ∧
    (∀ nt' k v, AList.lookup k ((pushStep E s1 F args nt i r).succOf nt') = some v →
      AList.lookup k (s.succOf nt') = some v ∨
      (DoneFrom E (pushStep E s1 F args nt i r) nt' v 0 ∧ rank nt' < rank nt)) ∧
    (∀ ra a, E.G.rule? nt F = some (ra, ()) → ra[i]? = some a →
      Fact (pushStep E s1 F args nt i r) nt F args i a ai ∧ argNT a ≠ nt) := by
  have ihq' : SInv E s → NInv s → HInv E s → OInv E H0 s → SPre E (.query s2 (some ai)) →
      NPre (.query s2 (some ai)) s → OPre E H0 (.query s2 (some ai)) s →
      OInv E H0 s1 ∧ OFrame rank (.query s2 (some ai)) s s1 ∧ SeenMono s s1 :=
    fun a b c d e f g => big_order H hq a b c d e f g
  obtain ⟨hs3, hn3, hh3, o3, f3, m3, hgai⟩ :=
    loop_iter_order H hai hlt hq ihq' hf.sinv hf.ninv hf.hinv hf.oinv hspre hopre
  obtain ⟨ra, hr, hgl, hlen, hinfo⟩ := hspre
  obtain ⟨hinf, a, ha, hs2⟩ := hinfo hlt
  have hqpre : OPre E H0 (.query s2 (some ai)) s := by
    intro x hx; cases hx; rw [hs2]; exact hf.oinv.args nt F args ra hopre.1 hr i _ a hai ha
  obtain ⟨hf1, fr1⟩ := big_full H hq hf trivial trivial hqpre
  obtain ⟨_, st1, np1⟩ := big_nodup E hq hf.ninv trivial
  have nn1 := big_nonePost E hq hf.ninv trivial
  obtain ⟨a1, _⟩ := ihq hf trivial trivial hqpre
  have hrank : rank s2 < rank nt := by
    rw [hs2]; exact H.acyclic nt F ra hr a (List.mem_of_getElem? ha)
  have hs2ne : argNT a ≠ nt := by rw [← hs2]; intro heq; rw [heq] at hrank; omega
  have hsucc3 : ∀ nt', (pushStep E s1 F args nt i r).succOf nt' = s1.succOf nt' := by
    intro nt'
    unfold pushStep
    cases r with
    | none => rfl
    | some q =>
      simp only
      split
      · rfl
      · exact (pushNew_views E s1 nt _).1 nt'
  refine ⟨⟨hs3, hn3, hh3, o3⟩, f3, m3, hgai, ?_, ?_⟩
  · intro nt' k v hk
    rw [hsucc3] at hk
    rcases a1 nt' k v hk with hold | hd
    · exact Or.inl hold
    · by_cases hle : rank nt' ≤ rank s2
      · have hlt' : rank nt' < rank nt := by omega
        exact Or.inr ⟨hd.stable_pushStep H hf1.ninv.no_deleted F args nt i r hlt', hlt'⟩
      · left
        have hfr : s1.succOf nt' = s.succOf nt' := fr1 nt' (by omega)
        rw [← hfr]; exact hk
  · intro ra' a' hr' ha'
    rw [hr] at hr'; cases hr'
    rw [ha] at ha'; cases ha'
    refine ⟨?_, hs2ne⟩
    cases hr' : r with
    | some z =>
      left
      refine ⟨z, ?_, (pushStep_seenMono E s1 F args nt i (some z) hf1.ninv.no_deleted).2 z rfl⟩
      rw [(pushStep_other E s1 F args nt (argNT a) i (some z) hs2ne).2, ← hs2]
      exact np1 z hr'
    | none =>
      right
      obtain ⟨n1, n2⟩ := nn1 hr'
      obtain ⟨p1, p2⟩ := pushStep_other E s1 F args nt (argNT a) i none hs2ne
      rw [p1, p2, ← hs2]
      exact ⟨n1, n2⟩

theorem big_i3 {E : Env S Unit Rat} {rank} (H : OrdHyp E rank) {H0 : NT S Unit → List (Rat × Prog)}
    {c : Call S Unit} {s s' : St S Unit Rat} {r : Option Prog} (hb : Big E c s s' r) :
    Full E H0 s → SPre E c → NPre c s → OPre E H0 c s → I3Post E c s s' := by
  induction hb with
  | @query_direct s s' nt p r h hb ih =>
    intro hf _ _ hpre
    have hpre' : OPre E H0 (.lop nt p) s := by
      intro x hx
      rcases hpre x hx with hv | ⟨hempty, _⟩
      · exact Or.inl hv
      · rcases h with h | h
        · rw [h] at hx; cases hx
        · rw [hempty] at h; simp at h
    exact ⟨(ih hf trivial trivial hpre').1, trivial⟩
  | @query_first s s1 s' nt p r0 r hp h h0 hb ih0 ih =>
    intro hf _ _ hpre
    have hq0 : OPre E H0 (.query nt none) s := by intro x hx; cases hx
    obtain ⟨hf1, _⟩ := big_full H h0 hf trivial trivial hq0
    obtain ⟨_, st1, np1⟩ := big_nodup E h0 hf.ninv trivial
    have hnone : AList.lookup none (s.succOf nt) = none := by
      cases hl : AList.lookup none (s.succOf nt) with
      | none => rfl
      | some v => rw [hl] at h; simp at h
    have hpre' : OPre E H0 (.lop nt p) s1 := by
      intro x hx
      rcases hpre x hx with ⟨k, hk⟩ | ⟨hempty, hfp⟩
      · exact Or.inl ⟨k, st1 _ _ _ hk⟩
      · rcases query_none_inv h0 hnone hf.ninv.no_deleted with ⟨hpe, rfl⟩ | ⟨e, h', hpt, hr0⟩
        · exact Or.inr ((Heapq.pop_none_iff _ _).mp hpe)
        · left
          rw [hf.oinv.fresh nt hempty] at hpt
          have := hfp e h' hpt
          exact ⟨none, by rw [← this]; exact np1 _ hr0⟩
    obtain ⟨a1, _⟩ := ih0 hf trivial trivial hq0
    obtain ⟨b1, _⟩ := ih hf1 trivial trivial hpre'
    refine ⟨?_, trivial⟩
    intro nt' k v hk
    rcases b1 nt' k v hk with hold | hd
    · rcases a1 nt' k v hold with hold' | hd
      · exact Or.inl hold'
      · right
        exact hd.stable hb hf1.ninv trivial (fun _ _ _ _ _ _ _ h => h)
    · exact Or.inr hd
  | lop_hit h => intro _ _ _ _; exact ⟨fun _ _ _ hk => Or.inl hk, trivial⟩
  | lop_miss h hb ih => intro hf _ _ hpre; exact ⟨(ih hf trivial h hpre).1, trivial⟩
  | pop_empty h => intro _ _ _ _; exact ⟨fun _ _ _ hk => Or.inl hk, trivial⟩
  | pop_deleted h hd ha hb iha ihb =>
    intro hf _ _ _
    rw [hf.ninv.no_deleted] at hd
    simp at hd
  | @pop_take s s' nt key e h' x h hd ha iha =>
    intro hf _ hnone hpre
    -- the state after the pop satisfies the invariants (as in `big_order`)
    obtain ⟨oa, hnea, hvals⟩ := popTake_order H hf.sinv hf.hinv hf.oinv nt key e h' h hpre hnone
    obtain ⟨hm, hsub⟩ := mem_of_pop _ _ _ _ h
    have hseen := hf.sinv.heap_seen _ _ hm
    have hg := hf.sinv.seen_gen _ _ hseen
    have h1 := (hf.sinv.setHeap_sub nt h' hsub).setSucc nt key e.2 hseen
    have hfa : Full E H0 (s.popTake nt key e h') :=
      ⟨h1.congr (fun _ => rfl) (fun _ => rfl) (fun _ => rfl) h1.cache_ok, (hf.ninv.popTake nt key e h' h hnone).1,
       fun nt' => hf.hinv.pop H.weak nt e h' h nt', oa⟩
    obtain ⟨b1, b2⟩ := iha hfa hg trivial ⟨hseen, hnea, hvals⟩
    refine ⟨?_, trivial⟩
    intro nt' k v hk
    rcases b1 nt' k v hk with hold | hd
    · -- popped before `__add_successors__`: before the pop, or the program just popped
      have hold' : AList.lookup k ((s.popTake nt key e h').succOf nt') = some v := hold
      rw [popTake_succOf] at hold'
      split at hold'
      · rename_i heq
        subst heq
        rw [AList.lookup_insert] at hold'
        split at hold'
        · cases hold'
          exact Or.inr b2
        · exact Or.inl hold'
      · exact Or.inl hold'
    · exact Or.inr hd
  | succ_leaf =>
    intro _ _ _ _
    refine ⟨fun _ _ _ hk => Or.inl hk, ?_⟩
    intro F args ra hy _ i a ai _ _ hai
    cases hy
    simp at hai
  | @succ_fun s s' F a as nt r rl x hd hr hb ih =>
    intro hf hspre _ hpre
    have hspre' : SPre E (.addLoop F (a :: as) nt 0 rl.1.length r.1 r.2) := by
      have hpre' : gen E.G (.node F (a :: as)) nt = true := hspre
      rw [gen, hr] at hpre'
      obtain ⟨ra, u⟩ := rl
      cases u
      simp only at hpre'
      refine ⟨ra, hr, hpre', rfl, ?_⟩
      intro _
      unfold derive at hd
      rw [hr] at hd
      simp only [Option.some.injEq] at hd
      subst hd
      cases ra with
      | nil => simp [genList] at hpre'
      | cons a0 as0 =>
        obtain ⟨t0, s0⟩ := a0
        exact ⟨by simp [deriveWith], (t0, s0), by simp, by simp [deriveWith, argNT]⟩
    obtain ⟨a1, a2⟩ := ih hf hspre' trivial hpre
    exact ⟨a1, a2⟩
  | @loop_done s F args nt i argsLen info s2 h =>
    intro _ hspre _ _
    refine ⟨fun _ _ _ hk => Or.inl hk, ?_⟩
    obtain ⟨ra, hr, _, hlen, _⟩ := hspre
    intro F' args' ra' hy hr' j a ai hj ha _
    cases hy
    rw [hr] at hr'; cases hr'
    have : j < ra.length := (List.getElem?_eq_some_iff.mp ha).1
    omega
  | @loop_step s s1 s' F args nt i argsLen info s2 ai r r' x h hai hq hc hda hb ihq ihb =>
    intro hf hspre _ hpre
    obtain ⟨hf3, f3, m3, hgai, hnew, hfact⟩ := iter_i3 H hai h hq ihq hf hspre hpre
    obtain ⟨ra, hr, hgl, hlen, hinfo⟩ := hspre
    obtain ⟨hinf, a, ha, hs2⟩ := hinfo h
    have hspre' : SPre E (.addLoop F args nt (i + 1) argsLen r'.1 r'.2) := by
      refine ⟨ra, hr, hgl, hlen, ?_⟩
      intro _
      obtain ⟨r2, hr2, hadv1, hadv2⟩ := deriveAll_gen E.G ai s2 info hgai
      rw [hda] at hr2
      cases hr2
      have hlt : i + 1 < ra.length := by omega
      have hdrop : ra.drop (i + 1) = ra[i + 1] :: ra.drop (i + 1 + 1) := List.drop_eq_getElem_cons hlt
      refine ⟨?_, ra[i + 1], List.getElem?_eq_getElem hlt, ?_⟩
      · rw [hadv1, hinf, hdrop]; rfl
      · exact hadv2 _ _ (by rw [hinf, hdrop])
    have hopre' : OPre E H0 (.addLoop F args nt (i + 1) argsLen r'.1 r'.2) (pushStep E s1 F args nt i r) := by
      refine ⟨m3 _ _ hpre.1, ?_, ?_⟩
      · rw [f3 nt (Nat.le_refl _)]; exact hpre.2.1
      · intro k v hk
        rw [f3 nt (Nat.le_refl _)] at hk
        exact hpre.2.2 k v hk
    obtain ⟨b1, b2⟩ := ihb hf3 hspre' trivial hopre'
    obtain ⟨hfi, hane⟩ := hfact ra a hr ha
    refine ⟨?_, ?_⟩
    · intro nt' k v hk
      rcases b1 nt' k v hk with hold | hd
      · rcases hnew nt' k v hold with hold' | ⟨hd, hrk⟩
        · exact Or.inl hold'
        · right
          exact hd.stable hb hf3.ninv trivial
            (fun F' args' ra' _ hr' a' ha' heq => child_ne H hrk hr' ha' heq.symm)
      · exact Or.inr hd
    · intro F' args' ra' hy hr' j a' aj hj ha' haj
      cases hy
      rw [hr] at hr'; cases hr'
      by_cases hji : j = i
      · subst hji
        rw [ha] at ha'; cases ha'
        rw [hai] at haj; cases haj
        exact hfi.stable hb hf3.ninv trivial (fun heq => hane heq.symm)
      · exact b2 F args ra rfl hr j a' aj (by omega) ha' haj
  | @loop_last s s1 F args nt i argsLen info s2 ai r h hai hq hc ihq =>
    intro hf hspre _ hpre
    obtain ⟨hf3, f3, m3, hgai, hnew, hfact⟩ := iter_i3 H hai h hq ihq hf hspre hpre
    obtain ⟨ra, hr, hgl, hlen, hinfo⟩ := hspre
    obtain ⟨hinf, a, ha, hs2⟩ := hinfo h
    obtain ⟨hfi, _⟩ := hfact ra a hr ha
    refine ⟨?_, ?_⟩
    · intro nt' k v hk
      rcases hnew nt' k v hk with hold | ⟨hd, _⟩
      · exact Or.inl hold
      · exact Or.inr hd
    · intro F' args' ra' hy hr' j a' aj hj ha' haj
      cases hy
      rw [hr] at hr'; cases hr'
      have hjl : j < ra.length := (List.getElem?_eq_some_iff.mp ha').1
      have hji : j = i := by omega
      subst hji
      rw [ha] at ha'; cases ha'
      rw [hai] at haj; cases haj
      exact hfi

end PS.HS
