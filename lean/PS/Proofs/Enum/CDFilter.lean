/- Filter and merge facts of the constant-delay machine (PS/Model/Enum/ConstantDelay.lean), for every
   arithmetic, grammar, filter, fuel and state: what `query` yields was accepted by the filter and was
   not in `_deleted` when it was yielded. -/
import PS.Model.Enum.ConstantDelay
namespace PS.CD
variable {α : Type}

theorem appendBank_deleted {s s' : St α} {S : NT} {ci : Nat} {p : Prog} (h : s.appendBank S ci p = some s') :
    s'.deleted = s.deleted := by
  unfold St.appendBank at h
  split at h
  · simp at h
  · split at h
    · simp at h
    · simp only [Option.some.injEq] at h
      subst h; rfl

theorem mem_addDeleted (s : St α) (p : Prog) : p ∈ (s.addDeleted p).deleted := by
  unfold St.addDeleted
  split
  · rename_i h; simpa using h
  · simp

theorem addDeleted_mono (s : St α) (p q : Prog) (h : q ∈ s.deleted) : q ∈ (s.addDeleted p).deleted := by
  unfold St.addDeleted
  split
  · exact h
  · simp [h]

/-- a program yielded by `query` was accepted by the filter and is not in `_deleted` -/
theorem resume_yield (E : Env α) : ∀ (f : Nat) (s : St α) (fr : Frame α) (s' : St α) (fr' : Frame α) (p : Prog),
    resume E f s fr = some (.yield s' fr' p) → E.filter p = true ∧ s'.deleted.contains p = false := by
  intro f
  induction f with
  | zero => intro s fr s' fr' p h; simp [resume] at h
  | succ f ih =>
    intro s fr s' fr' p h
    rw [resume] at h
    split at h
    · -- inside a product
      simp only at h
      split at h
      · exact ih _ _ _ _ _ h
      · split at h
        · exact ih _ _ _ _ _ h
        · split at h
          · simp at h
          · rename_i hdel hfil _ s1 hb
            simp only [Option.some.injEq, Res.yield.injEq] at h
            obtain ⟨h1, _, h3⟩ := h
            subst h1; subst h3
            refine ⟨by simpa using hfil, ?_⟩
            rw [appendBank_deleted hb]
            simpa using hdel
    · exact ih _ _ _ _ _ h
    · exact ih _ _ _ _ _ h
    · -- at the head of the while loop
      split at h
      · simp at h
      · split at h
        · cases hx : exitQuery s fr <;> simp [hx] at h
        · split at h
          · cases hx : exitQuery s fr <;> simp [hx] at h
          · split at h
            · simp at h
            · split at h
              · split at h
                · -- a terminal rule
                  simp only at h
                  split at h
                  · exact ih _ _ _ _ _ h
                  · split at h
                    · exact ih _ _ _ _ _ h
                    · split at h
                      · simp at h
                      · rename_i hdel hfil _ s2 hb
                        simp only [Option.some.injEq, Res.yield.injEq] at h
                        obtain ⟨h1, _, h3⟩ := h
                        subst h1; subst h3
                        refine ⟨by simpa using hfil, ?_⟩
                        rw [appendBank_deleted hb]
                        simpa using hdel
                · split at h
                  · simp at h
                  · split at h
                    · simp only at h
                      split at h
                      · exact ih _ _ _ _ _ h
                      · exact ih _ _ _ _ _ h
                    · simp at h
              · simp at h

theorem nextLoop_yield (E : Env α) (fuel : Nat) : ∀ (k : Nat) (s : St α) (n : Nat) (fr? : Option (Frame α)) (failed : Bool)
    (g' : Gen α) (p : Prog), nextLoop E fuel k s n fr? failed = some (g', some p) →
    E.filter p = true ∧ g'.st.deleted.contains p = false := by
  intro k
  induction k with
  | zero => intro s n fr? failed g' p h; simp [nextLoop] at h
  | succ k ih =>
    intro s n fr? failed g' p h
    rw [nextLoop.eq_def] at h
    simp only at h
    split at h
    · simp at h
    · split at h
      · simp at h
      · exact ih _ _ _ _ _ _ h
    · split at h
      · simp at h
      · rename_i s1 fr1 p1 hr
        simp only [Option.some.injEq, Prod.mk.injEq] at h
        obtain ⟨h1, h2⟩ := h
        subst h1; subst h2
        exact resume_yield E _ _ _ _ _ _ hr
      · split at h
        · simp at h
        · exact ih _ _ _ _ _ _ h

/-- **whatever `next(generator)` yields was accepted by the filter and is not in `_deleted`** -/
theorem next_yield (E : Env α) (fuel : Nat) (g g' : Gen α) (p : Prog) (h : next E fuel g = some (g', some p)) :
    E.filter p = true ∧ g'.st.deleted.contains p = false := by
  unfold next at h
  split at h
  · simp at h
  · split at h
    · simp at h
    · exact nextLoop_yield E fuel _ _ _ _ _ _ _ h
  · exact nextLoop_yield E fuel _ _ _ _ _ _ _ h
  · exact nextLoop_yield E fuel _ _ _ _ _ _ _ h

theorem take_accepted (E : Env α) (fuel : Nat) : ∀ (k : Nat) (g : Gen α) (acc : List Prog) (g' : Gen α) (ys : List Prog) (fin : Bool),
    take E fuel k g acc = some (g', ys, fin) → (∀ p ∈ acc, E.filter p = true) → ∀ p ∈ ys, E.filter p = true := by
  intro k
  induction k with
  | zero =>
    intro g acc g' ys fin h hacc
    simp only [take, Option.some.injEq, Prod.mk.injEq] at h
    rw [← h.2.1]; exact hacc
  | succ k ih =>
    intro g acc g' ys fin h hacc
    rw [take] at h
    split at h
    · simp at h
    · simp only [Option.some.injEq, Prod.mk.injEq] at h
      rw [← h.2.1]; exact hacc
    · rename_i g1 p1 hn
      refine ih _ _ _ _ _ h ?_
      intro p hp
      rcases List.mem_append.mp hp with h1 | h1
      · exact hacc p h1
      · simp only [List.mem_singleton] at h1
        subst h1
        exact (next_yield E fuel _ _ _ hn).1

/-- `merge_program(representative, other)` puts `other` in `_deleted`, keeps what was there -/
theorem merge_deleted (E : Env α) (g : Gen α) (other : Prog) (ty : Nat) :
    other ∈ (merge E g other ty).st.deleted ∧ ∀ q ∈ g.st.deleted, q ∈ (merge E g other ty).st.deleted := by
  unfold merge
  exact ⟨mem_addDeleted _ _, fun q hq => addDeleted_mono _ _ _ hq⟩

theorem removeFirst_sub (p : Prog) : ∀ (l : List Prog) (x : Prog), x ∈ removeFirst p l → x ∈ l
  | [], x, h => by simp [removeFirst] at h
  | y :: ys, x, h => by
    simp only [removeFirst] at h
    split at h
    · exact List.mem_cons_of_mem _ h
    · rcases List.mem_cons.mp h with h1 | h1
      · subst h1; exact List.mem_cons_self
      · exact List.mem_cons_of_mem _ (removeFirst_sub p ys x h1)

theorem removeFirst_count (p : Prog) : ∀ (l : List Prog), p ∈ l → (removeFirst p l).length + 1 = l.length
  | [], h => by simp at h
  | y :: ys, h => by
    simp only [removeFirst]
    split
    · simp
    · rename_i hne
      rcases List.mem_cons.mp h with h1 | h1
      · exact absurd h1.symm hne
      · simp [removeFirst_count p ys h1]

end PS.CD
